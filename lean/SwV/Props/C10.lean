/-
C10 — property theorems: soundness of the placement search for ALL topologies, options and oracles.

Proved (no assumption on the tree, any oracle = any map iteration order and any random draws):
  pick_sound            PickNodesByWeight returns children with a positive free estimate; the first one passes the filter
  reserve*_sound        ReserveOneVolume returns a data node beneath the given rack / data center with a free slot
  placement_slots       every server of a successful findEmptySlotsForOneVolume answer exists in the topology and has
                        a free slot for the requested disk type
  placement_preferences the first server lies in a data center / rack / is a node that passes the three filter closures,
                        in particular the requested data center, rack and server are honoured
Proved for every WELL-FORMED topology (`WF`: ids unique among siblings — data centers, racks of a data center,
nodes of a rack; decidable; real topologies satisfy it because `children` is a Go map keyed by id):
  placement_shape       the answer is (main server + z DIFFERENT nodes of the main rack) ++ (one server in each of y
                        DIFFERENT other racks of the main data center) ++ (one server in each of x DIFFERENT other
                        data centers)
  placement_sound       result = ok servers → `placementOK tr op servers = true`: the whole judge (count 1+x+y+z,
                        pairwise distinct, free slots, same-rack / other-racks / other-data-centers pattern, requested
                        data center / rack / server honoured)
  placement_count       the count 1+x+y+z needs no well-formedness; placement_distinct: `servers.Nodup`
Key lemmas (Lemmas/C10.lean): `permute` and `sortW` are permutations for every oracle (`permute_perm`, `sortW_perm`),
so `pickNodes` returns exactly n different children (`pick_shape`).
-/
import SwV.Model.C10
import SwV.Spec.C10
import SwV.Lemmas.C10
import SwV.Gen.C10
namespace SwV.Props.C10
open SwV.Model.C10 SwV.Spec.C10 SwV.Lemmas.C10

theorem mem_of_getElem? {α : Type} {l : List α} {i : Nat} {y : α} (h : l[i]? = some y) : y ∈ l :=
  List.mem_of_getElem? h

theorem permute_mem {α : Type} (f : Nat) (xs : List α) (o : Oracle) (y : α) (h : y ∈ (permute f xs o).1) : y ∈ xs := by
  induction f generalizing xs o with
  | zero => simp [permute] at h
  | succ f ih =>
    unfold permute at h
    cases xs with
    | nil => simp at h
    | cons x rest =>
      simp only at h
      split at h
      · simp at h
      · next z hz =>
        simp only [List.mem_cons] at h
        rcases h with rfl | h
        · exact mem_of_getElem? hz
        · have := ih _ _ h
          rcases List.mem_append.mp this with h1 | h1
          · exact List.mem_of_mem_take h1
          · exact List.mem_of_mem_drop h1

theorem scan_eq {α : Type} (cs : List (α × Int)) (r : Int) (b a : List (α × Int)) (x : α × Int)
    (h : scan cs r = some (b, x, a)) : cs = b ++ x :: a := by
  induction cs generalizing r b with
  | nil => simp [scan] at h
  | cons c rest ih =>
    obtain ⟨c, w⟩ := c
    unfold scan at h
    split at h
    · simp at h; obtain ⟨rfl, rfl, rfl⟩ := h; rfl
    · split at h
      · simp at h
      · next b' x' a' hs =>
        simp at h; obtain ⟨rfl, rfl, rfl⟩ := h
        rw [ih _ _ hs]; rfl

theorem sortW_mem {α : Type} (f : Nat) (cs : List (α × Int)) (o : Oracle) (y : α) (h : y ∈ (sortW f cs o).1) :
    ∃ w, (y, w) ∈ cs := by
  induction f generalizing cs o with
  | zero => simp [sortW] at h
  | succ f ih =>
    unfold sortW at h
    split at h
    · simp at h
    · simp only at h
      split at h
      · simp at h
      · next b x a hs =>
        have e := scan_eq _ _ _ _ _ hs
        simp only [List.mem_cons] at h
        rcases h with rfl | h
        · exact ⟨x.2, by rw [e]; simp⟩
        · obtain ⟨w, hw⟩ := ih _ _ h
          refine ⟨w, ?_⟩
          rw [e]
          rcases List.mem_append.mp hw with h1 | h1
          · simp [h1]
          · simp [h1]

theorem splitFirst_spec {α : Type} (p : α → Bool) (l b a : List α) (x : α) (h : splitFirst p l = some (b, x, a)) :
    l = b ++ x :: a ∧ p x = true := by
  induction l generalizing b with
  | nil => simp [splitFirst] at h
  | cons y rest ih =>
    unfold splitFirst at h
    split at h
    · next hp => simp at h; obtain ⟨rfl, rfl, rfl⟩ := h; exact ⟨rfl, hp⟩
    · split at h
      · simp at h
      · next b' x' a' hs =>
        simp at h; obtain ⟨rfl, rfl, rfl⟩ := h
        have := ih _ hs
        exact ⟨by rw [this.1]; rfl, this.2⟩

/-- PickNodesByWeight is sound: whatever the iteration order and the draws, the first node passes the
    filter, and the first and the rest nodes are children with a positive free estimate -/
theorem pick_sound {α : Type} (children : List α) (av : α → Int) (n : Nat) (p : α → Bool) (o o' : Oracle)
    (x : α) (rest : List α) (h : pickNodes children av n p o = (.ok (x, rest), o')) :
    p x = true ∧ (x ∈ children ∧ av x > 0) ∧ ∀ r ∈ rest, r ∈ children ∧ av r > 0 := by
  unfold pickNodes at h
  simp only at h
  split at h
  · simp at h
  · split at h
    · simp at h
    · next pre y suf hs =>
      simp only [Prod.mk.injEq, Except.ok.injEq] at h
      obtain ⟨⟨rfl, rfl⟩, _⟩ := h
      have sp := splitFirst_spec _ _ _ _ _ hs
      have good : ∀ c, c ∈ (sortW ((List.map (fun c => (c, av c)) (List.filter (fun c => decide (av c > 0)) (permute children.length children o).1)).length)
          (List.map (fun c => (c, av c)) (List.filter (fun c => decide (av c > 0)) (permute children.length children o).1))
          (permute children.length children o).2).1 → c ∈ children ∧ av c > 0 := by
        intro c hc
        obtain ⟨w, hw⟩ := sortW_mem _ _ _ _ hc
        simp only [List.mem_map, List.mem_filter, Prod.mk.injEq] at hw
        obtain ⟨c', ⟨hm, hav⟩, rfl, _⟩ := hw
        exact ⟨permute_mem _ _ _ _ hm, by simpa using hav⟩
      refine ⟨sp.2, good y (by rw [sp.1]; simp), ?_⟩
      intro r hr
      apply good
      split at hr
      · exact List.mem_of_mem_take hr
      · rw [sp.1]
        rcases List.mem_append.mp hr with h1 | h1
        · simp [h1]
        · have := List.mem_of_mem_take h1; simp [this]

/-! ## ReserveOneVolume -/

theorem reserveLoopN_sound (t : Nat) (ns : List DN) (r : Int) (n : DN) (h : reserveLoopN t ns r = some n) :
    n ∈ ns ∧ n.avail t > 0 := by
  induction ns generalizing r with
  | nil => simp [reserveLoopN] at h
  | cons m rest ih =>
    unfold reserveLoopN at h
    simp only at h
    split at h
    · have := ih _ h; exact ⟨by simp [this.1], this.2⟩
    · split at h
      · have := ih _ h; exact ⟨by simp [this.1], this.2⟩
      · next hf _ => simp at h; subst h; exact ⟨by simp, by omega⟩

theorem reserveRack_sound (t : Nat) (rk : Rack) (r : Int) (o : Oracle) (n : DN) (h : (reserveRack t rk r o).1 = some n) :
    n ∈ rk.nodes ∧ n.avail t > 0 := by
  unfold reserveRack at h
  have := reserveLoopN_sound _ _ _ _ h
  exact ⟨permute_mem _ _ _ _ this.1, this.2⟩

theorem reserveLoopR_sound (t : Nat) (rs : List Rack) (r : Int) (o : Oracle) (rk : Rack) (n : DN)
    (h : (reserveLoopR t rs r o).1 = some (rk, n)) : rk ∈ rs ∧ n ∈ rk.nodes ∧ n.avail t > 0 := by
  induction rs generalizing r o with
  | nil => simp [reserveLoopR] at h
  | cons m rest ih =>
    unfold reserveLoopR at h
    simp only at h
    split at h
    · have := ih _ _ h; exact ⟨by simp [this.1], this.2⟩
    · split at h
      · have := ih _ _ h; exact ⟨by simp [this.1], this.2⟩
      · split at h
        · next n' hn =>
          simp at h; obtain ⟨rfl, rfl⟩ := h
          exact ⟨by simp, reserveRack_sound _ _ _ _ _ hn⟩
        · have := ih _ _ h; exact ⟨by simp [this.1], this.2⟩

theorem reserveDC_sound (t : Nat) (d : DC) (r : Int) (o : Oracle) (rk : Rack) (n : DN)
    (h : (reserveDC t d r o).1 = some (rk, n)) : rk ∈ d.racks ∧ n ∈ rk.nodes ∧ n.avail t > 0 := by
  unfold reserveDC at h
  have := reserveLoopR_sound _ _ _ _ _ _ h
  exact ⟨permute_mem _ _ _ _ this.1, this.2⟩

/-! ## the whole search -/

/-- the path names a data node of the tree that has a free slot for disk type `t` -/
def InTreeWithSlot (tr : Tree) (t : Nat) (p : Path) : Prop :=
  ∃ d ∈ tr, ∃ rk ∈ d.racks, ∃ n ∈ rk.nodes, p = (d.id, rk.id, n.id) ∧ n.avail t ≥ 1

theorem reserveRacks_sound (tr : Tree) (t : Nat) (d : DC) (hd : d ∈ tr) (rs : List Rack) (hrs : ∀ rk ∈ rs, rk ∈ d.racks)
    (o : Oracle) (acc out part : List Path) (o' : Oracle) (hacc : ∀ p ∈ acc, InTreeWithSlot tr t p)
    (h : reserveRacks t d.id rs o acc = (some out, part, o')) : ∀ p ∈ out, InTreeWithSlot tr t p := by
  induction rs generalizing o acc with
  | nil => simp [reserveRacks] at h; obtain ⟨rfl, _, _⟩ := h; exact hacc
  | cons rk rest ih =>
    unfold reserveRacks at h
    simp only at h
    split at h
    · next n hn =>
      refine ih (fun r hr => hrs r (by simp [hr])) _ _ ?_ h
      intro p hp
      rcases List.mem_append.mp hp with h1 | h1
      · exact hacc p h1
      · simp at h1; subst h1
        have := reserveRack_sound _ _ _ _ _ hn
        exact ⟨d, hd, rk, hrs rk (by simp), n, this.1, rfl, by omega⟩
    · simp at h

theorem reserveDCs_sound (tr : Tree) (t : Nat) (ds : List DC) (hds : ∀ d ∈ ds, d ∈ tr)
    (o : Oracle) (acc out part : List Path) (o' : Oracle) (hacc : ∀ p ∈ acc, InTreeWithSlot tr t p)
    (h : reserveDCs t ds o acc = (some out, part, o')) : ∀ p ∈ out, InTreeWithSlot tr t p := by
  induction ds generalizing o acc with
  | nil => simp [reserveDCs] at h; obtain ⟨rfl, _, _⟩ := h; exact hacc
  | cons d rest ih =>
    unfold reserveDCs at h
    simp only at h
    split at h
    · next rk n hn =>
      refine ih (fun r hr => hds r (by simp [hr])) _ _ ?_ h
      intro p hp
      rcases List.mem_append.mp hp with h1 | h1
      · exact hacc p h1
      · simp at h1; subst h1
        have := reserveDC_sound _ _ _ _ _ _ hn
        exact ⟨d, hds d (by simp), rk, this.1, n, this.2.1, rfl, by omega⟩
    · simp at h

/-- C10 main theorem (free slots): for EVERY topology, option and oracle, every server of a successful
    answer is a data node of the topology with a free slot for the requested disk type -/
theorem placement_slots (tr : Tree) (op : Opt) (o : Oracle) (servers : List Path)
    (h : findEmptySlots tr op o = .ok servers) : ∀ p ∈ servers, InTreeWithSlot tr op.disk p := by
  unfold findEmptySlots at h
  split at h
  · simp at h
  · next mainDC otherDCs o1 h1 =>
    split at h
    · simp at h
    · next mainRack otherRacks o2 h2 =>
      split at h
      · simp at h
      · next mainSrv otherSrvs o3 h3 =>
        have p1 := pick_sound _ _ _ _ _ _ _ _ h1
        have p2 := pick_sound _ _ _ _ _ _ _ _ h2
        have p3 := pick_sound _ _ _ _ _ _ _ _ h3
        simp only at h
        split at h
        · simp at h
        · next acc part o4 h4 =>
          split at h
          · simp at h
          · next acc2 part2 o5 h5 =>
            simp at h; subst h
            refine reserveDCs_sound tr op.disk otherDCs (fun d hd => (p1.2.2 d hd).1) _ _ _ _ _ ?_ h5
            refine reserveRacks_sound tr op.disk mainDC p1.2.1.1 otherRacks (fun r hr => (p2.2.2 r hr).1) _ _ _ _ _ ?_ h4
            intro p hp
            simp only [List.mem_cons, List.mem_map] at hp
            rcases hp with rfl | ⟨n, hn, rfl⟩
            · exact ⟨mainDC, p1.2.1.1, mainRack, p2.2.1.1, mainSrv, p3.2.1.1, rfl, by have := p3.2.1.2; omega⟩
            · exact ⟨mainDC, p1.2.1.1, mainRack, p2.2.1.1, n, (p3.2.2 n hn).1, rfl, by have := (p3.2.2 n hn).2; omega⟩

theorem reserveRacks_prefix (t dcId : Nat) (rs : List Rack) (o : Oracle) (acc out part : List Path) (o' : Oracle)
    (h : reserveRacks t dcId rs o acc = (some out, part, o')) : ∃ suf, out = acc ++ suf := by
  induction rs generalizing o acc with
  | nil => simp [reserveRacks] at h; obtain ⟨rfl, _, _⟩ := h; exact ⟨[], by simp⟩
  | cons rk rest ih =>
    unfold reserveRacks at h
    simp only at h
    split at h
    · obtain ⟨suf, hs⟩ := ih _ _ h
      exact ⟨_ :: suf, by rw [hs, List.append_assoc]; rfl⟩
    · simp at h

theorem reserveDCs_prefix (t : Nat) (ds : List DC) (o : Oracle) (acc out part : List Path) (o' : Oracle)
    (h : reserveDCs t ds o acc = (some out, part, o')) : ∃ suf, out = acc ++ suf := by
  induction ds generalizing o acc with
  | nil => simp [reserveDCs] at h; obtain ⟨rfl, _, _⟩ := h; exact ⟨[], by simp⟩
  | cons d rest ih =>
    unfold reserveDCs at h
    simp only at h
    split at h
    · obtain ⟨suf, hs⟩ := ih _ _ h
      exact ⟨_ :: suf, by rw [hs, List.append_assoc]; rfl⟩
    · simp at h

/-- C10 (preferences): the first server of a successful answer is a node, in a rack, in a data center
    that pass the three filter closures — so a requested data center, rack or server is honoured -/
theorem placement_preferences (tr : Tree) (op : Opt) (o : Oracle) (servers : List Path)
    (h : findEmptySlots tr op o = .ok servers) :
    ∃ d ∈ tr, ∃ rk ∈ d.racks, ∃ n ∈ rk.nodes, servers.head? = some (d.id, rk.id, n.id) ∧
      dcFilter op d = true ∧ rackFilter op rk = true ∧ nodeFilter op n = true := by
  unfold findEmptySlots at h
  split at h
  · simp at h
  · next mainDC otherDCs o1 h1 =>
    split at h
    · simp at h
    · next mainRack otherRacks o2 h2 =>
      split at h
      · simp at h
      · next mainSrv otherSrvs o3 h3 =>
        have p1 := pick_sound _ _ _ _ _ _ _ _ h1
        have p2 := pick_sound _ _ _ _ _ _ _ _ h2
        have p3 := pick_sound _ _ _ _ _ _ _ _ h3
        simp only at h
        split at h
        · simp at h
        · next acc part o4 h4 =>
          split at h
          · simp at h
          · next acc2 part2 o5 h5 =>
            simp at h; subst h
            obtain ⟨s1, e1⟩ := reserveRacks_prefix _ _ _ _ _ _ _ _ h4
            obtain ⟨s2, e2⟩ := reserveDCs_prefix _ _ _ _ _ _ _ h5
            refine ⟨mainDC, p1.2.1.1, mainRack, p2.2.1.1, mainSrv, p3.2.1.1, ?_, p1.1, p2.1, p3.1⟩
            rw [e2, e1]; simp

/-- a requested data center is the first server's data center -/
theorem requested_dc_honoured (tr : Tree) (op : Opt) (o : Oracle) (servers : List Path) (want : Nat)
    (hw : op.dc = some want) (h : findEmptySlots tr op o = .ok servers) :
    ∃ p, servers.head? = some p ∧ p.1 = want := by
  obtain ⟨d, _, rk, _, n, _, hh, hf, _, _⟩ := placement_preferences tr op o servers h
  refine ⟨_, hh, ?_⟩
  simp only [dcFilter, hw, Bool.and_eq_true, beq_iff_eq] at hf
  exact hf.1.1.1

/-! ## the full judge: count, distinctness, rack / data-center pattern -/

/-- well-formed topology: ids are unique among siblings (data centers of the topology, racks of a data
    center, data nodes of a rack).  Real topologies satisfy this: `children` is a Go map keyed by the id. -/
def WF (tr : Tree) : Prop :=
  (tr.map (·.id)).Nodup ∧
    ∀ d ∈ tr, (d.racks.map (·.id)).Nodup ∧ ∀ rk ∈ d.racks, (rk.nodes.map (·.id)).Nodup

instance (tr : Tree) : Decidable (WF tr) := by unfold WF; infer_instance

/-- in a well-formed topology the judge's lookup by ids finds the node -/
theorem hasSlot_of_inTree (tr : Tree) (hwf : WF tr) (t : Nat) (p : Path) (h : InTreeWithSlot tr t p) :
    hasSlot tr t p = true := by
  obtain ⟨d, hd, rk, hrk, n, hn, rfl, hav⟩ := h
  have f1 := find_unique (·.id) tr hwf.1 d hd
  have f2 := find_unique (·.id) d.racks (hwf.2 d hd).1 rk hrk
  have f3 := find_unique (·.id) rk.nodes ((hwf.2 d hd).2 rk hrk) n hn
  simp only [hasSlot, findNode, f1, f2, f3]
  simpa using hav

theorem nodup_of_map {α β : Type} (f : α → β) (l : List α) (h : (l.map f).Nodup) : l.Nodup :=
  (List.pairwise_map.mp h).imp (fun hne e => hne (congrArg f e))

theorem nodup_map_inj {α β : Type} (f : α → β) (l : List α) (hf : ∀ a b, f a = f b → a = b) (h : l.Nodup) :
    (l.map f).Nodup :=
  List.pairwise_map.mpr (h.imp (fun hne e => hne (hf _ _ e)))

/-- the shape of every successful answer: the main server and z more DIFFERENT nodes of the main rack, then
    one server in each of y DIFFERENT other racks of the main data center, then one server in each of x
    DIFFERENT other data centers; the main data center / rack / server pass the filter closures -/
theorem placement_shape (tr : Tree) (hwf : WF tr) (op : Opt) (o : Oracle) (servers : List Path)
    (h : findEmptySlots tr op o = .ok servers) :
    ∃ (D R N : Nat) (ns : List Nat) (s1 s2 : List Path),
      servers = ((D, R, N) :: ns.map fun n => (D, R, n)) ++ s1 ++ s2 ∧
      ns.length = op.z ∧ (N :: ns).Nodup ∧
      s1.length = op.y ∧ (∀ p ∈ s1, p.1 = D) ∧ (R :: s1.map fun p => p.2.1).Nodup ∧
      s2.length = op.x ∧ (D :: s2.map fun p => p.1).Nodup ∧
      (∀ i, op.dc = some i → D = i) ∧ (∀ i, op.rack = some i → R = i) ∧ (∀ i, op.node = some i → N = i) := by
  unfold findEmptySlots at h
  split at h
  · simp at h
  · next mainDC otherDCs o1 h1 =>
    split at h
    · simp at h
    · next mainRack otherRacks o2 h2 =>
      split at h
      · simp at h
      · next mainSrv otherSrvs o3 h3 =>
        have p1 := pick_sound _ _ _ _ _ _ _ _ h1
        have p2 := pick_sound _ _ _ _ _ _ _ _ h2
        have p3 := pick_sound _ _ _ _ _ _ _ _ h3
        have q1 := pick_shape _ _ _ _ _ _ _ _ h1
        have q2 := pick_shape _ _ _ _ _ _ _ _ h2
        have q3 := pick_shape _ _ _ _ _ _ _ _ h3
        simp only at h
        split at h
        · simp at h
        · next acc part o4 h4 =>
          split at h
          · simp at h
          · next acc2 part2 o5 h5 =>
            simp at h; subst h
            obtain ⟨s1, e1, m1, d1⟩ := reserveRacks_shape _ _ _ _ _ _ _ _ h4
            obtain ⟨s2, e2, m2⟩ := reserveDCs_shape _ _ _ _ _ _ _ h5
            have wd := hwf.2 mainDC p1.2.1.1
            have n1 := q1.2.nodup_map (·.id) hwf.1
            have n2 := q2.2.nodup_map (·.id) wd.1
            have n3 := q3.2.nodup_map (·.id) (wd.2 mainRack p2.2.1.1)
            refine ⟨mainDC.id, mainRack.id, mainSrv.id, otherSrvs.map (·.id), s1, s2, ?_, ?_, ?_, ?_, d1, ?_, ?_, ?_, ?_, ?_, ?_⟩
            · rw [e2, e1, List.map_map]; rfl
            · rw [List.length_map, q3.1]; omega
            · simpa using n3
            · have := congrArg List.length m1
              simp only [List.length_map] at this
              rw [this, q2.1]; omega
            · rw [m1]; simpa using n2
            · have := congrArg List.length m2
              simp only [List.length_map] at this
              rw [this, q1.1]; omega
            · rw [m2]; simpa using n1
            · intro i hi
              have := p1.1
              simp only [dcFilter, hi, Bool.and_eq_true, beq_iff_eq] at this
              exact this.1.1.1
            · intro i hi
              have := p2.1
              simp only [rackFilter, hi, Bool.and_eq_true, beq_iff_eq] at this
              exact this.1.1.1
            · intro i hi
              have := p3.1
              simp only [nodeFilter, hi, Bool.and_eq_true, beq_iff_eq] at this
              exact this.1

/-- a list of that shape whose servers all have a slot passes the judge -/
theorem judge_of_shape (tr : Tree) (op : Opt) (servers : List Path) (D R N : Nat) (ns : List Nat) (s1 s2 : List Path)
    (hs : servers = ((D, R, N) :: ns.map fun n => (D, R, n)) ++ s1 ++ s2)
    (hz : ns.length = op.z) (hN : (N :: ns).Nodup)
    (hy : s1.length = op.y) (hD1 : ∀ p ∈ s1, p.1 = D) (hR : (R :: s1.map fun p => p.2.1).Nodup)
    (hx : s2.length = op.x) (hD : (D :: s2.map fun p => p.1).Nodup)
    (pd : ∀ i, op.dc = some i → D = i) (pr : ∀ i, op.rack = some i → R = i) (pn : ∀ i, op.node = some i → N = i)
    (hslot : ∀ p ∈ servers, hasSlot tr op.disk p = true) :
    placementOK tr op servers = true := by
  have hbase : ((D, R, N) :: ns.map fun n => (D, R, n)) = (N :: ns).map fun n => (D, R, n) := rfl
  have hbl : ((D, R, N) :: ns.map fun n => (D, R, n)).length = op.z + 1 := by simp [hz]
  have hR' := List.nodup_cons.mp hR
  have hD' := List.nodup_cons.mp hD
  have c1 : (servers.length != 1 + op.x + op.y + op.z) = false := by
    rw [hs]; simp only [List.length_append, hbl, hy, hx]; simp; omega
  have c2 : nodupB servers = true := by
    rw [nodupB_iff, hs, List.append_assoc, List.nodup_append]
    refine ⟨?_, ?_, ?_⟩
    · rw [hbase]; exact nodup_map_inj _ _ (by intro a b e; simpa using e) hN
    · rw [List.nodup_append]
      refine ⟨nodup_of_map _ _ hR'.2, nodup_of_map _ _ hD'.2, ?_⟩
      intro a ha b hb e
      subst e
      exact hD'.1 (by rw [← hD1 a ha]; exact List.mem_map_of_mem hb)
    · intro a ha b hb e
      subst e
      rw [hbase] at ha
      obtain ⟨n, _, rfl⟩ := List.mem_map.mp ha
      rcases List.mem_append.mp hb with hb | hb
      · exact hR'.1 (List.mem_map.mpr ⟨_, hb, rfl⟩)
      · exact hD'.1 (List.mem_map.mpr ⟨_, hb, rfl⟩)
  have c3 : servers.all (hasSlot tr op.disk) = true := List.all_eq_true.mpr hslot
  have t1 : servers.take (op.z + 1) = ((D, R, N) :: ns.map fun n => (D, R, n)) := by
    rw [hs, List.append_assoc, List.take_append_of_le_length (by omega), ← hbl, List.take_length]
  have t2 : (servers.drop (op.z + 1)).take op.y = s1 := by
    rw [hs, List.append_assoc, ← hbl, List.drop_left, ← hy, List.take_left]
  have t3 : servers.drop (op.z + 1 + op.y) = s2 := by
    rw [← List.drop_drop, hs, List.append_assoc, ← hbl, List.drop_left, ← hy, List.drop_left]
  have c4 : (servers.take (op.z + 1)).all (fun p => p.1 == D && p.2.1 == R) = true := by
    rw [t1, hbase, List.all_eq_true]
    intro p hp
    obtain ⟨n, _, rfl⟩ := List.mem_map.mp hp
    simp
  have c5 : ((servers.drop (op.z + 1)).take op.y).all (fun p => p.1 == D && p.2.1 != R) = true := by
    rw [t2, List.all_eq_true]
    intro p hp
    have : p.2.1 ≠ R := fun e => hR'.1 (by rw [← e]; exact List.mem_map.mpr ⟨_, hp, rfl⟩)
    simp [hD1 p hp, this]
  have c6 : nodupB (((servers.drop (op.z + 1)).take op.y).map fun p => p.2.1) = true := by
    rw [t2, nodupB_iff]; exact hR'.2
  have c7 : (servers.drop (op.z + 1 + op.y)).all (fun p => p.1 != D) = true := by
    rw [t3, List.all_eq_true]
    intro p hp
    have : p.1 ≠ D := fun e => hD'.1 (by rw [← e]; exact List.mem_map.mpr ⟨_, hp, rfl⟩)
    simp [this]
  have c8 : nodupB ((servers.drop (op.z + 1 + op.y)).map fun p => p.1) = true := by
    rw [t3, nodupB_iff]; exact hD'.2
  have c9 : op.dc = none ∨ op.dc = some D := by
    cases hdc : op.dc with
    | none => exact .inl rfl
    | some d => rw [pd d hdc]; exact .inr rfl
  have c10 : op.rack = none ∨ op.rack = some R := by
    cases hrk : op.rack with
    | none => exact .inl rfl
    | some r => rw [pr r hrk]; exact .inr rfl
  have c11 : op.node = none ∨ op.node = some N := by
    cases hnd : op.node with
    | none => exact .inl rfl
    | some n => rw [pn n hnd]; exact .inr rfl
  unfold placementOK placementJudge
  simp only [c1, c2, c3, Bool.false_eq_true, Bool.not_true, if_false]
  obtain ⟨m, tl, hm⟩ : ∃ m tl, servers = m :: tl := ⟨(D, R, N), _, by rw [hs]; rfl⟩
  have hm' : m = (D, R, N) := by
    rw [hs] at hm; simp only [List.cons_append] at hm; exact (List.cons.inj hm).1.symm
  rw [hm] at c4 c5 c6 c7 c8 ⊢
  subst hm'
  simp only [c4, c5, c6, c7, c8, Bool.false_eq_true, Bool.not_true, Bool.or_self, if_false]
  rcases c9 with e9 | e9 <;> rcases c10 with e10 | e10 <;> rcases c11 with e11 | e11 <;> simp [e9, e10, e11]

/-- C10 MAIN THEOREM: for EVERY well-formed topology, EVERY option and EVERY oracle (= every map iteration order
    and every random draw), a successful answer of findEmptySlotsForOneVolume passes the judge `placementOK`:
    exactly 1+x+y+z pairwise distinct servers, each in the topology with a free slot; the first z+1 in one rack,
    the next y in y pairwise different other racks of the same data center, the last x in x pairwise different
    other data centers; requested data center / rack / server honoured. -/
theorem placement_sound (tr : Tree) (hwf : WF tr) (op : Opt) (o : Oracle) (servers : List Path)
    (h : findEmptySlots tr op o = .ok servers) : placementOK tr op servers = true := by
  obtain ⟨D, R, N, ns, s1, s2, hs, hz, hN, hy, hD1, hR, hx, hD, pd, pr, pn⟩ := placement_shape tr hwf op o servers h
  exact judge_of_shape tr op servers D R N ns s1 s2 hs hz hN hy hD1 hR hx hD pd pr pn
    (fun p hp => hasSlot_of_inTree tr hwf op.disk p (placement_slots tr op o servers h p hp))

/-- (a) the count alone needs no well-formedness … -/
theorem placement_count (tr : Tree) (op : Opt) (o : Oracle) (servers : List Path)
    (h : findEmptySlots tr op o = .ok servers) : servers.length = 1 + op.x + op.y + op.z := by
  unfold findEmptySlots at h
  split at h
  · simp at h
  · next mainDC otherDCs o1 h1 =>
    split at h
    · simp at h
    · next mainRack otherRacks o2 h2 =>
      split at h
      · simp at h
      · next mainSrv otherSrvs o3 h3 =>
        have q1 := pick_shape _ _ _ _ _ _ _ _ h1
        have q2 := pick_shape _ _ _ _ _ _ _ _ h2
        have q3 := pick_shape _ _ _ _ _ _ _ _ h3
        simp only at h
        split at h
        · simp at h
        · next acc part o4 h4 =>
          split at h
          · simp at h
          · next acc2 part2 o5 h5 =>
            simp at h; subst h
            obtain ⟨s1, e1, m1, _⟩ := reserveRacks_shape _ _ _ _ _ _ _ _ h4
            obtain ⟨s2, e2, m2⟩ := reserveDCs_shape _ _ _ _ _ _ _ h5
            have l1 := congrArg List.length m1
            have l2 := congrArg List.length m2
            simp only [List.length_map] at l1 l2
            rw [e2, e1]
            simp only [List.length_append, List.length_cons, List.length_map, l1, l2, q1.1, q2.1, q3.1]
            omega

/-- (b), (c) as plain propositions, for readers who do not want to unfold the judge -/
theorem placement_distinct (tr : Tree) (hwf : WF tr) (op : Opt) (o : Oracle) (servers : List Path)
    (h : findEmptySlots tr op o = .ok servers) : servers.Nodup := by
  have := placement_sound tr hwf op o servers h
  unfold placementOK placementJudge at this
  split at this
  · simp at this
  · split at this
    · simp at this
    · next hn => rw [← nodupB_iff]; simpa using hn

/-- well-formedness is needed: with two racks of the same id the two servers of replication 010 are in
    "rack 11" twice and the judge rejects the answer (real topologies cannot have this: map keys) -/
example : ¬ WF [⟨1, [⟨11, [⟨111, ⟨5, 0, 0, 0⟩, {}⟩]⟩, ⟨11, [⟨112, ⟨5, 0, 0, 0⟩, {}⟩]⟩]⟩] := by decide

/-- non-vacuity of `placement_sound`: a well-formed two-data-center topology where replication 111 succeeds
    (the answer has 1+1+1+1 = 4 servers) and the judge accepts it -/
def exTree : Tree :=
  [⟨1, [⟨11, [⟨111, ⟨5, 0, 0, 0⟩, {}⟩, ⟨112, ⟨5, 2, 0, 0⟩, {}⟩]⟩, ⟨12, [⟨121, ⟨5, 1, 0, 0⟩, {}⟩, ⟨122, ⟨2, 1, 0, 0⟩, {}⟩]⟩]⟩,
   ⟨2, [⟨21, [⟨211, ⟨3, 0, 0, 0⟩, {}⟩]⟩]⟩]
def exOpt : Opt := { x := 1, y := 1, z := 1, disk := 0, dc := some 1 }

example : WF exTree := by decide
example : findEmptySlots exTree exOpt [0, 0, 0, 0, 0, 0, 0, 0, 0, 0, 0, 0, 0, 0, 0, 0, 0, 0, 0, 0]
    = .ok [(1, 11, 111), (1, 11, 112), (1, 12, 121), (2, 21, 211)] := by decide
example : placementOK exTree exOpt [(1, 11, 111), (1, 11, 112), (1, 12, 121), (2, 21, 211)] = true :=
  placement_sound exTree (by decide) exOpt [0, 0, 0, 0, 0, 0, 0, 0, 0, 0, 0, 0, 0, 0, 0, 0, 0, 0, 0, 0] _ (by decide)

/-- the hypotheses are satisfiable: a two-data-center topology where replication 110 succeeds -/
example : findEmptySlots
    [⟨1, [⟨11, [⟨111, ⟨5, 0, 0, 0⟩, {}⟩]⟩, ⟨12, [⟨121, ⟨5, 1, 0, 0⟩, {}⟩]⟩]⟩, ⟨2, [⟨21, [⟨211, ⟨3, 0, 0, 0⟩, {}⟩]⟩]⟩]
    { x := 1, y := 1, z := 0, disk := 0, dc := some 1 } [0, 0, 0, 0, 0, 0, 0, 0, 0, 0, 0, 0, 0, 0, 0, 0]
    = .ok [(1, 11, 111), (1, 12, 121), (2, 21, 211)] := by decide

/-- the rack-level free estimate can exceed what its nodes can give: node 111 is full of EC shards
    (free −2) and node 112 has one slot, the rack's aggregate says 1 … the search then reports an error,
    never a server without a slot (here: the draw r = 0 still finds node 112; with max 2 / 25 shards on the
    only node the rack is no candidate at all) -/
example : (⟨111, ⟨2, 0, 0, 25⟩, {}⟩ : DN).avail 0 = -1 := by decide

/-! ## T1 bridges: facts regenerated from the source by `extract` (props/C10/extract.json → `SwV.Gen.C10`)

Each theorem states the text of the decisive Go condition as it stands in the working tree and, next to it,
the model expression that mirrors it; an edit to the Go condition changes the generated string and breaks the
theorem of that name. -/

/-- `erasure_coding.DataShardsCount`, the divisor in `AvailableSpaceFor`, is the `10` of `availC`. -/
theorem bridge_avail_const :
    SwV.Gen.C10.DataShardsCount = 10 ∧
    ∀ c : Cnt, availC c = (if c.ec > 0 then c.max + c.rem - c.vol - c.ec / SwV.Gen.C10.DataShardsCount - 1
                           else c.max + c.rem - c.vol) := by
  refine ⟨rfl, fun c => ?_⟩
  simp only [availC, SwV.Gen.C10.DataShardsCount]

/-- the three statements of `NodeImpl.AvailableSpaceFor` (`availC` mirrors them one by one) -/
theorem bridge_avail_text :
    SwV.Gen.C10.avail_base = "freeVolumeSlotCount := t.maxVolumeCount + t.remoteVolumeCount - t.volumeCount" ∧
    SwV.Gen.C10.avail_ec_cond = "t.ecShardCount > 0" ∧
    SwV.Gen.C10.avail_ec_assign = "freeVolumeSlotCount = freeVolumeSlotCount - t.ecShardCount/erasure_coding.DataShardsCount - 1" := by
  decide

/-- `DiskUsageCounts.FreeSpace` (the same three statements on receiver `a`; translated by the extractor with
    Go's int64 wrap-around) computes `availC` for every counter record without int64 overflow. -/
theorem bridge_avail_translated (c : Cnt) (act : Int)
    (hm : -1099511627776 ≤ c.max ∧ c.max ≤ 1099511627776) (hr : -1099511627776 ≤ c.rem ∧ c.rem ≤ 1099511627776)
    (hv : -1099511627776 ≤ c.vol ∧ c.vol ≤ 1099511627776) (he : c.ec ≤ 1099511627776) :
    SwV.Gen.C10.DiskUsageCounts_FreeSpace c.vol c.rem act c.ec c.max = availC c := by
  simp only [SwV.Gen.C10.DiskUsageCounts_FreeSpace, availC, SwV.Go.wrapS, SwV.Go.tdiv, decide_eq_true_eq]
  split
  · rename_i h
    rw [Int.tdiv_eq_ediv_of_nonneg (by omega)]
    omega
  · omega

example : SwV.Gen.C10.DiskUsageCounts_FreeSpace 3 1 0 25 8 = availC ⟨8, 3, 1, 25⟩ :=
  bridge_avail_translated ⟨8, 3, 1, 25⟩ 0 (by decide) (by decide) (by decide) (by decide)

theorem not_decide_lt_nat (a b : Nat) : (!decide (a < b)) = decide (b ≤ a) := by
  by_cases h : a < b
  · have : ¬ b ≤ a := by omega
    simp [h, this]
  · have : b ≤ a := by omega
    simp [h, this]

theorem not_decide_lt_int (a b : Int) : (!decide (a < b)) = decide (b ≤ a) := by
  by_cases h : a < b
  · have : ¬ b ≤ a := by omega
    simp [h, this]
  · have : b ≤ a := by omega
    simp [h, this]

/-- model form of a placement preference: `option.X != "" && node.IsX() && node.Id() != NodeId(option.X)` -/
def prefMismatch (want : Option Nat) (id : Nat) : Bool :=
  match want with | some i => !(id == i) | none => false

/-- first closure of `findEmptySlotsForOneVolume` (main data center): the four error conditions in the
    source, and `dcFilter` = none of them holds. -/
theorem bridge_dc_filter :
    SwV.Gen.C10.pick_dc_n = "rp.DiffDataCenterCount + 1" ∧
    SwV.Gen.C10.dc_pref = "option.DataCenter != \"\" && node.IsDataCenter() && node.Id() != NodeId(option.DataCenter)" ∧
    SwV.Gen.C10.dc_racks = "len(node.Children()) < rp.DiffRackCount+1" ∧
    SwV.Gen.C10.dc_free = "node.AvailableSpaceFor(option) < int64(rp.DiffRackCount+rp.SameRackCount+1)" ∧
    SwV.Gen.C10.dc_node_slot = "n.AvailableSpaceFor(option) >= 1" ∧
    SwV.Gen.C10.dc_rack_ok = "possibleDataNodesCount >= rp.SameRackCount+1" ∧
    SwV.Gen.C10.dc_racks_ok = "possibleRacksCount < rp.DiffRackCount+1" ∧
    ∀ (op : Opt) (d : DC), dcFilter op d =
      (!(prefMismatch op.dc d.id)
       && !(decide (d.racks.length < op.y + 1))
       && !(decide (d.avail op.disk < ((op.y + op.z + 1 : Nat) : Int)))
       && !(decide ((d.racks.filter fun rk =>
              decide ((rk.nodes.filter fun n => decide (n.avail op.disk ≥ 1)).length ≥ op.z + 1)).length < op.y + 1))) := by
  refine ⟨by decide, by decide, by decide, by decide, by decide, by decide, by decide, fun op d => ?_⟩
  simp only [dcFilter, prefMismatch, nodesWithSlot, not_decide_lt_nat, not_decide_lt_int]
  cases op.dc <;> simp

/-- second closure (main rack) -/
theorem bridge_rack_filter :
    SwV.Gen.C10.pick_rack_n = "rp.DiffRackCount + 1" ∧
    SwV.Gen.C10.rack_pref = "option.Rack != \"\" && node.IsRack() && node.Id() != NodeId(option.Rack)" ∧
    SwV.Gen.C10.rack_free = "node.AvailableSpaceFor(option) < int64(rp.SameRackCount+1)" ∧
    SwV.Gen.C10.rack_nodes = "len(node.Children()) < rp.SameRackCount+1" ∧
    SwV.Gen.C10.rack_node_slot = "n.AvailableSpaceFor(option) >= 1" ∧
    SwV.Gen.C10.rack_nodes_ok = "possibleDataNodesCount < rp.SameRackCount+1" ∧
    ∀ (op : Opt) (rk : Rack), rackFilter op rk =
      (!(prefMismatch op.rack rk.id)
       && !(decide (rk.avail op.disk < ((op.z + 1 : Nat) : Int)))
       && !(decide (rk.nodes.length < op.z + 1))
       && !(decide ((rk.nodes.filter fun n => decide (n.avail op.disk ≥ 1)).length < op.z + 1))) := by
  refine ⟨by decide, by decide, by decide, by decide, by decide, by decide, fun op rk => ?_⟩
  simp only [rackFilter, prefMismatch, nodesWithSlot, not_decide_lt_nat, not_decide_lt_int]
  cases op.rack <;> simp

/-- third closure (main server) -/
theorem bridge_node_filter :
    SwV.Gen.C10.pick_node_n = "rp.SameRackCount + 1" ∧
    SwV.Gen.C10.node_pref = "option.DataNode != \"\" && node.IsDataNode() && node.Id() != NodeId(option.DataNode)" ∧
    SwV.Gen.C10.node_free = "node.AvailableSpaceFor(option) < 1" ∧
    ∀ (op : Opt) (n : DN), nodeFilter op n =
      (!(prefMismatch op.node n.id) && !(decide (n.avail op.disk < 1))) := by
  refine ⟨by decide, by decide, by decide, fun op n => ?_⟩
  simp only [nodeFilter, prefMismatch, not_decide_lt_int]
  cases op.node <;> simp

/-- the reservations in the other racks / data centers: the draw is below the node's own free count, the drawn
    value is what `ReserveOneVolume` gets, and a failed reservation returns at once (`reserveRacks`, `reserveDCs`). -/
theorem bridge_other_reservations :
    SwV.Gen.C10.other_rack_draw = "rack.AvailableSpaceFor(option)" ∧
    SwV.Gen.C10.other_dc_draw = "datacenter.AvailableSpaceFor(option)" ∧
    SwV.Gen.C10.other_rack_reserve_r = "r" ∧ SwV.Gen.C10.other_dc_reserve_r = "r" ∧
    SwV.Gen.C10.other_rack_ok = "e == nil" ∧ SwV.Gen.C10.other_dc_ok = "e == nil" := by decide

/-- `NodeImpl.PickNodesByWeight`: candidate filter, weights, the interval scan and the choice of the rest
    nodes (`pickNodes`, `scan`, `sortW`). -/
theorem bridge_pick_nodes :
    SwV.Gen.C10.pick_skip = "node.AvailableSpaceFor(option) <= 0" ∧
    SwV.Gen.C10.pick_total = "totalWeights += node.AvailableSpaceFor(option)" ∧
    SwV.Gen.C10.pick_weight = "node.AvailableSpaceFor(option)" ∧
    SwV.Gen.C10.pick_few = "len(candidates) < numberOfNodes" ∧
    SwV.Gen.C10.pick_rounds = "i < len(candidates)" ∧
    SwV.Gen.C10.pick_draw = "totalWeights" ∧
    SwV.Gen.C10.pick_interval = "(weightsInterval >= lastWeights) && (weightsInterval < lastWeights+weights)" ∧
    SwV.Gen.C10.pick_zero = "candidatesWeights[k] = 0" ∧
    SwV.Gen.C10.pick_total_dec = "totalWeights -= weights" ∧
    SwV.Gen.C10.pick_advance = "lastWeights += weights" ∧
    SwV.Gen.C10.pick_first_ok = "err == nil" ∧
    SwV.Gen.C10.pick_rest_cond = "k >= numberOfNodes-1" ∧
    SwV.Gen.C10.pick_rest_head = "restNodes = sortedCandidates[:numberOfNodes-1]" ∧
    SwV.Gen.C10.pick_rest_pre = "sortedCandidates[:k]" ∧
    SwV.Gen.C10.pick_rest_suf = "sortedCandidates[k+1 : numberOfNodes]" := by decide

/-- the model's interval scan takes the first candidate whose interval `[last, last+w)` holds the draw — the
    source condition `pick_interval` with `last` subtracted on both sides. -/
theorem bridge_scan_interval {α : Type} (c : α) (w r : Int) (rest : List (α × Int)) (h0 : 0 ≤ r) :
    (scan ((c, w) :: rest) r = some ([], (c, w), rest)) ↔ (r ≥ 0 ∧ r < 0 + w) := by
  simp only [scan]
  constructor
  · intro h
    by_cases hw : r < w
    · omega
    · simp only [hw, if_false] at h
      cases hs : scan rest (r - w) with
      | none => simp [hs] at h
      | some t => obtain ⟨b, x, a⟩ := t; simp [hs] at h
  · intro h; have : r < w := by omega
    simp [this]

/-- `NodeImpl.ReserveOneVolume` (`reserveLoopN`, `reserveLoopR`) -/
theorem bridge_reserve :
    SwV.Gen.C10.reserve_skip = "freeSpace <= 0" ∧
    SwV.Gen.C10.reserve_pass = "r >= freeSpace" ∧
    SwV.Gen.C10.reserve_dec = "r -= freeSpace" ∧
    SwV.Gen.C10.reserve_leaf = "node.IsDataNode() && node.AvailableSpaceFor(option) > 0" ∧
    SwV.Gen.C10.reserve_recurse_r = "r" ∧
    SwV.Gen.C10.reserve_recurse_ok = "err == nil" ∧
    (∀ (t : Nat) (n : DN) (rest : List DN) (r : Int), reserveLoopN t (n :: rest) r =
      (if n.avail t ≤ 0 then reserveLoopN t rest r
       else if r ≥ n.avail t then reserveLoopN t rest (r - n.avail t) else some n)) := by
  refine ⟨by decide, by decide, by decide, by decide, by decide, by decide, fun t n rest r => rfl⟩

/-- weakest supplement: hashes of the whole mirrored functions (loop structure, order of the steps) -/
theorem bridge_pins :
    SwV.Gen.C10.src_AvailableSpaceFor = "64239316e6dcd5ac" ∧
    SwV.Gen.C10.src_PickNodesByWeight = "7e41c2bf6b33195d" ∧
    SwV.Gen.C10.src_ReserveOneVolume = "4a322c1638ed961f" ∧
    SwV.Gen.C10.src_findEmptySlotsForOneVolume = "9fe46b5b07987aba" := by decide

end SwV.Props.C10
