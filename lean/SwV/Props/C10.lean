/-
C10 — property theorems: soundness of the placement search for ALL topologies, options and oracles.

Proved (no assumption on the tree, any oracle = any map iteration order and any random draws):
  pick_sound            PickNodesByWeight returns children with a positive free estimate; the first one passes the filter
  reserve*_sound        ReserveOneVolume returns a data node beneath the given rack / data center with a free slot
  placement_slots       every server of a successful findEmptySlotsForOneVolume answer exists in the topology and has
                        a free slot for the requested disk type
  placement_preferences the first server lies in a data center / rack / is a node that passes the three filter closures,
                        in particular the requested data center, rack and server are honoured
The remaining conjuncts of the judge `placementOK` (count 1+x+y+z, pairwise distinctness, the rack / data-center
pattern of the rest) are checked on every answer of the implementation by the correspondence run.
-/
import SwV.Model.C10
import SwV.Spec.C10
namespace SwV.Props.C10
open SwV.Model.C10 SwV.Spec.C10

theorem mem_of_getElem? {α : Type} {l : List α} {i : Nat} {y : α} (h : l[i]? = some y) : y ∈ l :=
  List.mem_of_getElem? h

theorem permute_mem {α : Type} (f : Nat) (xs : List α) (o : Oracle) (y : α) (h : y ∈ (permute f xs o).1) : y ∈ xs := by
  induction f generalizing xs o with
  | zero => simp [permute] at h
  | succ f ih =>
    unfold permute at h
    cases xs with
    | nil => simp at h
    | cons x rest =>
      simp only at h
      split at h
      · simp at h
      · next z hz =>
        simp only [List.mem_cons] at h
        rcases h with rfl | h
        · exact mem_of_getElem? hz
        · have := ih _ _ h
          rcases List.mem_append.mp this with h1 | h1
          · exact List.mem_of_mem_take h1
          · exact List.mem_of_mem_drop h1

theorem scan_eq {α : Type} (cs : List (α × Int)) (r : Int) (b a : List (α × Int)) (x : α × Int)
    (h : scan cs r = some (b, x, a)) : cs = b ++ x :: a := by
  induction cs generalizing r b with
  | nil => simp [scan] at h
  | cons c rest ih =>
    obtain ⟨c, w⟩ := c
    unfold scan at h
    split at h
    · simp at h; obtain ⟨rfl, rfl, rfl⟩ := h; rfl
    · split at h
      · simp at h
      · next b' x' a' hs =>
        simp at h; obtain ⟨rfl, rfl, rfl⟩ := h
        rw [ih _ _ hs]; rfl

theorem sortW_mem {α : Type} (f : Nat) (cs : List (α × Int)) (o : Oracle) (y : α) (h : y ∈ (sortW f cs o).1) :
    ∃ w, (y, w) ∈ cs := by
  induction f generalizing cs o with
  | zero => simp [sortW] at h
  | succ f ih =>
    unfold sortW at h
    split at h
    · simp at h
    · simp only at h
      split at h
      · simp at h
      · next b x a hs =>
        have e := scan_eq _ _ _ _ _ hs
        simp only [List.mem_cons] at h
        rcases h with rfl | h
        · exact ⟨x.2, by rw [e]; simp⟩
        · obtain ⟨w, hw⟩ := ih _ _ h
          refine ⟨w, ?_⟩
          rw [e]
          rcases List.mem_append.mp hw with h1 | h1
          · simp [h1]
          · simp [h1]

theorem splitFirst_spec {α : Type} (p : α → Bool) (l b a : List α) (x : α) (h : splitFirst p l = some (b, x, a)) :
    l = b ++ x :: a ∧ p x = true := by
  induction l generalizing b with
  | nil => simp [splitFirst] at h
  | cons y rest ih =>
    unfold splitFirst at h
    split at h
    · next hp => simp at h; obtain ⟨rfl, rfl, rfl⟩ := h; exact ⟨rfl, hp⟩
    · split at h
      · simp at h
      · next b' x' a' hs =>
        simp at h; obtain ⟨rfl, rfl, rfl⟩ := h
        have := ih _ hs
        exact ⟨by rw [this.1]; rfl, this.2⟩

/-- PickNodesByWeight is sound: whatever the iteration order and the draws, the first node passes the
    filter, and the first and the rest nodes are children with a positive free estimate -/
theorem pick_sound {α : Type} (children : List α) (av : α → Int) (n : Nat) (p : α → Bool) (o o' : Oracle)
    (x : α) (rest : List α) (h : pickNodes children av n p o = (.ok (x, rest), o')) :
    p x = true ∧ (x ∈ children ∧ av x > 0) ∧ ∀ r ∈ rest, r ∈ children ∧ av r > 0 := by
  unfold pickNodes at h
  simp only at h
  split at h
  · simp at h
  · split at h
    · simp at h
    · next pre y suf hs =>
      simp only [Prod.mk.injEq, Except.ok.injEq] at h
      obtain ⟨⟨rfl, rfl⟩, _⟩ := h
      have sp := splitFirst_spec _ _ _ _ _ hs
      have good : ∀ c, c ∈ (sortW ((List.map (fun c => (c, av c)) (List.filter (fun c => decide (av c > 0)) (permute children.length children o).1)).length)
          (List.map (fun c => (c, av c)) (List.filter (fun c => decide (av c > 0)) (permute children.length children o).1))
          (permute children.length children o).2).1 → c ∈ children ∧ av c > 0 := by
        intro c hc
        obtain ⟨w, hw⟩ := sortW_mem _ _ _ _ hc
        simp only [List.mem_map, List.mem_filter, Prod.mk.injEq] at hw
        obtain ⟨c', ⟨hm, hav⟩, rfl, _⟩ := hw
        exact ⟨permute_mem _ _ _ _ hm, by simpa using hav⟩
      refine ⟨sp.2, good y (by rw [sp.1]; simp), ?_⟩
      intro r hr
      apply good
      split at hr
      · exact List.mem_of_mem_take hr
      · rw [sp.1]
        rcases List.mem_append.mp hr with h1 | h1
        · simp [h1]
        · have := List.mem_of_mem_take h1; simp [this]

/-! ## ReserveOneVolume -/

theorem reserveLoopN_sound (t : Nat) (ns : List DN) (r : Int) (n : DN) (h : reserveLoopN t ns r = some n) :
    n ∈ ns ∧ n.avail t > 0 := by
  induction ns generalizing r with
  | nil => simp [reserveLoopN] at h
  | cons m rest ih =>
    unfold reserveLoopN at h
    simp only at h
    split at h
    · have := ih _ h; exact ⟨by simp [this.1], this.2⟩
    · split at h
      · have := ih _ h; exact ⟨by simp [this.1], this.2⟩
      · next hf _ => simp at h; subst h; exact ⟨by simp, by omega⟩

theorem reserveRack_sound (t : Nat) (rk : Rack) (r : Int) (o : Oracle) (n : DN) (h : (reserveRack t rk r o).1 = some n) :
    n ∈ rk.nodes ∧ n.avail t > 0 := by
  unfold reserveRack at h
  have := reserveLoopN_sound _ _ _ _ h
  exact ⟨permute_mem _ _ _ _ this.1, this.2⟩

theorem reserveLoopR_sound (t : Nat) (rs : List Rack) (r : Int) (o : Oracle) (rk : Rack) (n : DN)
    (h : (reserveLoopR t rs r o).1 = some (rk, n)) : rk ∈ rs ∧ n ∈ rk.nodes ∧ n.avail t > 0 := by
  induction rs generalizing r o with
  | nil => simp [reserveLoopR] at h
  | cons m rest ih =>
    unfold reserveLoopR at h
    simp only at h
    split at h
    · have := ih _ _ h; exact ⟨by simp [this.1], this.2⟩
    · split at h
      · have := ih _ _ h; exact ⟨by simp [this.1], this.2⟩
      · split at h
        · next n' hn =>
          simp at h; obtain ⟨rfl, rfl⟩ := h
          exact ⟨by simp, reserveRack_sound _ _ _ _ _ hn⟩
        · have := ih _ _ h; exact ⟨by simp [this.1], this.2⟩

theorem reserveDC_sound (t : Nat) (d : DC) (r : Int) (o : Oracle) (rk : Rack) (n : DN)
    (h : (reserveDC t d r o).1 = some (rk, n)) : rk ∈ d.racks ∧ n ∈ rk.nodes ∧ n.avail t > 0 := by
  unfold reserveDC at h
  have := reserveLoopR_sound _ _ _ _ _ _ h
  exact ⟨permute_mem _ _ _ _ this.1, this.2⟩

/-! ## the whole search -/

/-- the path names a data node of the tree that has a free slot for disk type `t` -/
def InTreeWithSlot (tr : Tree) (t : Nat) (p : Path) : Prop :=
  ∃ d ∈ tr, ∃ rk ∈ d.racks, ∃ n ∈ rk.nodes, p = (d.id, rk.id, n.id) ∧ n.avail t ≥ 1

theorem reserveRacks_sound (tr : Tree) (t : Nat) (d : DC) (hd : d ∈ tr) (rs : List Rack) (hrs : ∀ rk ∈ rs, rk ∈ d.racks)
    (o : Oracle) (acc out part : List Path) (o' : Oracle) (hacc : ∀ p ∈ acc, InTreeWithSlot tr t p)
    (h : reserveRacks t d.id rs o acc = (some out, part, o')) : ∀ p ∈ out, InTreeWithSlot tr t p := by
  induction rs generalizing o acc with
  | nil => simp [reserveRacks] at h; obtain ⟨rfl, _, _⟩ := h; exact hacc
  | cons rk rest ih =>
    unfold reserveRacks at h
    simp only at h
    split at h
    · next n hn =>
      refine ih (fun r hr => hrs r (by simp [hr])) _ _ ?_ h
      intro p hp
      rcases List.mem_append.mp hp with h1 | h1
      · exact hacc p h1
      · simp at h1; subst h1
        have := reserveRack_sound _ _ _ _ _ hn
        exact ⟨d, hd, rk, hrs rk (by simp), n, this.1, rfl, by omega⟩
    · simp at h

theorem reserveDCs_sound (tr : Tree) (t : Nat) (ds : List DC) (hds : ∀ d ∈ ds, d ∈ tr)
    (o : Oracle) (acc out part : List Path) (o' : Oracle) (hacc : ∀ p ∈ acc, InTreeWithSlot tr t p)
    (h : reserveDCs t ds o acc = (some out, part, o')) : ∀ p ∈ out, InTreeWithSlot tr t p := by
  induction ds generalizing o acc with
  | nil => simp [reserveDCs] at h; obtain ⟨rfl, _, _⟩ := h; exact hacc
  | cons d rest ih =>
    unfold reserveDCs at h
    simp only at h
    split at h
    · next rk n hn =>
      refine ih (fun r hr => hds r (by simp [hr])) _ _ ?_ h
      intro p hp
      rcases List.mem_append.mp hp with h1 | h1
      · exact hacc p h1
      · simp at h1; subst h1
        have := reserveDC_sound _ _ _ _ _ _ hn
        exact ⟨d, hds d (by simp), rk, this.1, n, this.2.1, rfl, by omega⟩
    · simp at h

/-- C10 main theorem (free slots): for EVERY topology, option and oracle, every server of a successful
    answer is a data node of the topology with a free slot for the requested disk type -/
theorem placement_slots (tr : Tree) (op : Opt) (o : Oracle) (servers : List Path)
    (h : findEmptySlots tr op o = .ok servers) : ∀ p ∈ servers, InTreeWithSlot tr op.disk p := by
  unfold findEmptySlots at h
  split at h
  · simp at h
  · next mainDC otherDCs o1 h1 =>
    split at h
    · simp at h
    · next mainRack otherRacks o2 h2 =>
      split at h
      · simp at h
      · next mainSrv otherSrvs o3 h3 =>
        have p1 := pick_sound _ _ _ _ _ _ _ _ h1
        have p2 := pick_sound _ _ _ _ _ _ _ _ h2
        have p3 := pick_sound _ _ _ _ _ _ _ _ h3
        simp only at h
        split at h
        · simp at h
        · next acc part o4 h4 =>
          split at h
          · simp at h
          · next acc2 part2 o5 h5 =>
            simp at h; subst h
            refine reserveDCs_sound tr op.disk otherDCs (fun d hd => (p1.2.2 d hd).1) _ _ _ _ _ ?_ h5
            refine reserveRacks_sound tr op.disk mainDC p1.2.1.1 otherRacks (fun r hr => (p2.2.2 r hr).1) _ _ _ _ _ ?_ h4
            intro p hp
            simp only [List.mem_cons, List.mem_map] at hp
            rcases hp with rfl | ⟨n, hn, rfl⟩
            · exact ⟨mainDC, p1.2.1.1, mainRack, p2.2.1.1, mainSrv, p3.2.1.1, rfl, by have := p3.2.1.2; omega⟩
            · exact ⟨mainDC, p1.2.1.1, mainRack, p2.2.1.1, n, (p3.2.2 n hn).1, rfl, by have := (p3.2.2 n hn).2; omega⟩

theorem reserveRacks_prefix (t dcId : Nat) (rs : List Rack) (o : Oracle) (acc out part : List Path) (o' : Oracle)
    (h : reserveRacks t dcId rs o acc = (some out, part, o')) : ∃ suf, out = acc ++ suf := by
  induction rs generalizing o acc with
  | nil => simp [reserveRacks] at h; obtain ⟨rfl, _, _⟩ := h; exact ⟨[], by simp⟩
  | cons rk rest ih =>
    unfold reserveRacks at h
    simp only at h
    split at h
    · obtain ⟨suf, hs⟩ := ih _ _ h
      exact ⟨_ :: suf, by rw [hs, List.append_assoc]; rfl⟩
    · simp at h

theorem reserveDCs_prefix (t : Nat) (ds : List DC) (o : Oracle) (acc out part : List Path) (o' : Oracle)
    (h : reserveDCs t ds o acc = (some out, part, o')) : ∃ suf, out = acc ++ suf := by
  induction ds generalizing o acc with
  | nil => simp [reserveDCs] at h; obtain ⟨rfl, _, _⟩ := h; exact ⟨[], by simp⟩
  | cons d rest ih =>
    unfold reserveDCs at h
    simp only at h
    split at h
    · obtain ⟨suf, hs⟩ := ih _ _ h
      exact ⟨_ :: suf, by rw [hs, List.append_assoc]; rfl⟩
    · simp at h

/-- C10 (preferences): the first server of a successful answer is a node, in a rack, in a data center
    that pass the three filter closures — so a requested data center, rack or server is honoured -/
theorem placement_preferences (tr : Tree) (op : Opt) (o : Oracle) (servers : List Path)
    (h : findEmptySlots tr op o = .ok servers) :
    ∃ d ∈ tr, ∃ rk ∈ d.racks, ∃ n ∈ rk.nodes, servers.head? = some (d.id, rk.id, n.id) ∧
      dcFilter op d = true ∧ rackFilter op rk = true ∧ nodeFilter op n = true := by
  unfold findEmptySlots at h
  split at h
  · simp at h
  · next mainDC otherDCs o1 h1 =>
    split at h
    · simp at h
    · next mainRack otherRacks o2 h2 =>
      split at h
      · simp at h
      · next mainSrv otherSrvs o3 h3 =>
        have p1 := pick_sound _ _ _ _ _ _ _ _ h1
        have p2 := pick_sound _ _ _ _ _ _ _ _ h2
        have p3 := pick_sound _ _ _ _ _ _ _ _ h3
        simp only at h
        split at h
        · simp at h
        · next acc part o4 h4 =>
          split at h
          · simp at h
          · next acc2 part2 o5 h5 =>
            simp at h; subst h
            obtain ⟨s1, e1⟩ := reserveRacks_prefix _ _ _ _ _ _ _ _ h4
            obtain ⟨s2, e2⟩ := reserveDCs_prefix _ _ _ _ _ _ _ h5
            refine ⟨mainDC, p1.2.1.1, mainRack, p2.2.1.1, mainSrv, p3.2.1.1, ?_, p1.1, p2.1, p3.1⟩
            rw [e2, e1]; simp

/-- a requested data center is the first server's data center -/
theorem requested_dc_honoured (tr : Tree) (op : Opt) (o : Oracle) (servers : List Path) (want : Nat)
    (hw : op.dc = some want) (h : findEmptySlots tr op o = .ok servers) :
    ∃ p, servers.head? = some p ∧ p.1 = want := by
  obtain ⟨d, _, rk, _, n, _, hh, hf, _, _⟩ := placement_preferences tr op o servers h
  refine ⟨_, hh, ?_⟩
  simp only [dcFilter, hw, Bool.and_eq_true, beq_iff_eq] at hf
  exact hf.1.1.1

/-- the hypotheses are satisfiable: a two-data-center topology where replication 110 succeeds -/
example : findEmptySlots
    [⟨1, [⟨11, [⟨111, ⟨5, 0, 0, 0⟩, {}⟩]⟩, ⟨12, [⟨121, ⟨5, 1, 0, 0⟩, {}⟩]⟩]⟩, ⟨2, [⟨21, [⟨211, ⟨3, 0, 0, 0⟩, {}⟩]⟩]⟩]
    { x := 1, y := 1, z := 0, disk := 0, dc := some 1 } [0, 0, 0, 0, 0, 0, 0, 0, 0, 0, 0, 0, 0, 0, 0, 0]
    = .ok [(1, 11, 111), (1, 12, 121), (2, 21, 211)] := by decide

/-- the rack-level free estimate can exceed what its nodes can give: node 111 is full of EC shards
    (free −2) and node 112 has one slot, the rack's aggregate says 1 … the search then reports an error,
    never a server without a slot (here: the draw r = 0 still finds node 112; with max 2 / 25 shards on the
    only node the rack is no candidate at all) -/
example : (⟨111, ⟨2, 0, 0, 25⟩, {}⟩ : DN).avail 0 = -1 := by decide

end SwV.Props.C10
