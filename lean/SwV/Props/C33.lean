/-
C33 — theorems.  `fetch_eq_original`: for EVERY data, file name, mime type, cipher flag and every outcome of the
stdlib sniffers, what `ReadUrlAsStream` returns for the upload made by `doUploadData` is the original (full fetch) or the
requested slice of it (ranged fetch), and the reported size is the original's length — relative to the codec laws
(gunzip ∘ gzip = id, gzip output carries the magic, dec ∘ enc = id) and an honest `isInputCompressed` flag.
The clause "decompressing arbitrary input never crashes" is not a statement about this model (library memory
safety): bounded fuzzing in the harness only.
-/
import SwV.Model.C33
import SwV.Spec.C33
import SwV.Gen.C33
namespace SwV.Props.C33
open SwV.Model.C33 SwV.Spec.C33

theorem isGz_ne_nil {x : Bytes} (h : isGz x = true) : x.isEmpty = false := by
  cases x with
  | nil => simp [isGz] at h
  | cons a r => rfl

theorem decompress_gzip (c : Codec) (L : CodecLaws c) (x : Bytes) : decompress c (c.gzip x) = (x, true) := by
  simp [decompress, L.magic_gzip, L.gunzip_gzip]

theorem decompress_not_gz (c : Codec) (x : Bytes) (h : isGz x = false) : decompress c x = (x, false) := by
  simp [decompress, h]

/-- what the volume server hands back for what it stored, per kind of request -/
theorem serverGet_plain (c : Codec) (body : Bytes) (nm ct em : List Char) (acc : Bool) :
    serverGet c (serverStore body nm ct em false) acc = (body, false) := by
  simp [serverGet, serverStore]

theorem range_in_bounds (x : Bytes) (off size : Nat) (hs : 0 < size) (hb : off + size ≤ x.length) :
    (if size = 0 ∨ off ≥ x.length then none else some ((x.drop off).take size)) = some ((x.drop off).take size) := by
  have h1 : ¬ size = 0 := by omega
  have h2 : ¬ off ≥ x.length := by omega
  simp [h1, h2]

theorem decide1_inputCompressed (i : UpIn) (h : i.inputCompressed = true) : decide1 i = (i.mime, false) := by
  simp [decide1, h]

/-- MAIN -/
theorem fetch_eq_original (c : Codec) (L : CodecLaws c) (i : UpIn) (hon : Honest c i) :
    (upload c i).size = (original c i).length ∧
    fetch c (upload c i) .full = some (original c i) ∧
    ∀ off size, 0 < size → off + size ≤ (original c i).length →
      fetch c (upload c i) (.range off size) = some (((original c i).drop off).take size) := by
  cases hc : i.cipher
  · -- no cipher
    cases hic : i.inputCompressed
    · -- the uploader decides
      have horig : original c i = i.data := by simp [original, hic]
      rw [horig]
      cases hd : decide1 i with
      | mk mtype sg =>
        cases sg
        · -- sent as is
          simp only [upload, hd, hc, hic, fetch, Bool.false_and, Bool.not_false, Bool.and_true, Bool.or_self, if_false,
            serverGet_plain, Bool.false_eq_true]
          refine ⟨(by first | trivial | rfl), (by first | trivial | rfl), ?_⟩
          intro off size hs hb
          exact range_in_bounds _ _ _ hs hb
        · -- gzip now
          have hne := isGz_ne_nil (L.magic_gzip i.data)
          simp only [upload, hd, hc, hic, fetch, Bool.not_false, Bool.and_true, Bool.or_true, Bool.false_or, if_true, if_false,
            Bool.false_eq_true]
          simp only [serverGet, serverStore, hne, Bool.not_false, Bool.and_true, if_true, L.magic_gzip, L.gunzip_gzip,
            decompress_gzip c L, Bool.true_and, Bool.false_and, Bool.false_eq_true, if_false]
          refine ⟨(by first | trivial | rfl), (by first | trivial | rfl), ?_⟩
          intro off size hs hb
          exact range_in_bounds _ _ _ hs hb
    · -- the caller says: already compressed
      have hd := decide1_inputCompressed i hic
      rcases hon hic with ⟨o, ho⟩ | hng
      · have horig : original c i = o := by simp [original, hic, ho, decompress_gzip c L]
        have hne := isGz_ne_nil (L.magic_gzip o)
        rw [horig]
        simp only [upload, hd, hc, hic, fetch, Bool.false_and, Bool.not_false, Bool.or_false, Bool.true_or, if_true, if_false,
          Bool.false_eq_true, ho, decompress_gzip c L]
        simp only [serverGet, serverStore, hne, Bool.not_false, Bool.and_true, if_true, L.magic_gzip, L.gunzip_gzip,
          decompress_gzip c L, Bool.true_and, Bool.false_and, Bool.false_eq_true, if_false]
        refine ⟨(by first | trivial | rfl), (by first | trivial | rfl), ?_⟩
        intro off size hs hb
        exact range_in_bounds _ _ _ hs hb
      · have horig : original c i = i.data := by simp [original, hic, decompress_not_gz c _ hng]
        rw [horig]
        simp only [upload, hd, hc, hic, fetch, Bool.false_and, Bool.not_false, Bool.or_false, Bool.true_or, if_true, if_false,
          Bool.false_eq_true, decompress_not_gz c _ hng]
        refine ⟨(by first | trivial | rfl), ?_, ?_⟩
        · simp only [serverGet, serverStore, hng, Bool.and_false, Bool.false_eq_true, if_false, decompress_not_gz c _ hng]
          split <;> rfl
        · intro off size hs hb
          have : (serverGet c (serverStore i.data i.name (if i.mime = [] then i.extMime else i.mime) i.extMime true) false).1 = i.data := by
            simp only [serverGet, serverStore, Bool.false_and, Bool.false_eq_true, if_false, decompress_not_gz c _ hng]
            split <;> rfl
          simp only [this]
          exact range_in_bounds _ _ _ hs hb
  · -- cipher: encrypt the clear data, never gzip
    have hclear : ∃ clear, (original c i = clear) ∧
        (upload c i) = { size := clear.length, gzip := false, hasKey := true, name := i.name, mime := (decide1 i).1,
                         stored := serverStore (c.enc clear) [] [] [] false } := by
      cases hic : i.inputCompressed
      · refine ⟨i.data, by simp [original, hic], ?_⟩
        cases hd : decide1 i with
        | mk mtype sg => simp [upload, hd, hc, hic]
      · have hd := decide1_inputCompressed i hic
        rcases hon hic with ⟨o, ho⟩ | hng
        · refine ⟨o, by simp [original, hic, ho, decompress_gzip c L], ?_⟩
          simp [upload, hd, hc, hic, ho, decompress_gzip c L]
        · refine ⟨i.data, by simp [original, hic, decompress_not_gz c _ hng], ?_⟩
          simp [upload, hd, hc, hic, decompress_not_gz c _ hng]
    obtain ⟨clear, h1, h2⟩ := hclear
    rw [h1, h2]
    simp only [fetch, if_true, serverGet_plain, Bool.false_eq_true, if_false, L.dec_enc]
    refine ⟨(by first | trivial | rfl), (by first | trivial | rfl), ?_⟩
    intro off size _ hb
    have : ¬ clear.length < off + size := by omega
    simp [this]

/-- the hypotheses are satisfiable: a codec obeying the laws -/
def tagCodec : Codec :=
  { gzip := fun x => 31 :: 139 :: x,
    gunzip := fun x => match x with | 31 :: 139 :: r => some r | _ => none,
    enc := fun x => 255 :: x,
    dec := fun x => match x with | 255 :: r => some r | _ => none }

theorem tagCodec_laws : CodecLaws tagCodec := ⟨fun _ => rfl, fun _ => rfl, fun _ => rfl⟩

example : Honest tagCodec ⟨"a.txt".toList, [], false, false, [1, 2, 3], "text/plain; charset=utf-8".toList, [], false⟩ := by
  intro h; cases h

/-- the size reported for an honest upload is the original's length even when the stored bytes are the gzip form -/
theorem reported_size (c : Codec) (L : CodecLaws c) (i : UpIn) (hon : Honest c i) :
    (upload c i).size = (original c i).length := (fetch_eq_original c L i hon).1

/-- a cipher upload is never marked gzip and never stores the clear bytes' gzip form -/
theorem cipher_never_gzip (c : Codec) (i : UpIn) (h : i.cipher = true) :
    (upload c i).gzip = false ∧ (upload c i).hasKey = true ∧ (upload c i).stored.compressed = false := by
  cases hd : decide1 i with
  | mk mtype sg => simp [upload, hd, h, serverStore]

/-- outside `Honest` the statement is false: bytes with the gzip magic that are not gzip, declared "already compressed" -/
theorem dishonest_witness :
    let i : UpIn := ⟨[], [], false, true, [31, 139, 7], [], [], false⟩
    fetch tagCodec (upload tagCodec i) .full ≠ some i.data := by decide

/-! ## bridges: the modelled functions are pinned to the source text they were read from (regenerated on every check) -/

/-- an edit of any of these functions breaks this obligation: the model (Model/C33.lean) has to be re-read against the new text -/
theorem bridge_source_pins :
    SwV.Gen.C33.src_doUploadData = "523d3f8700ad5bb5" ∧
    SwV.Gen.C33.src_upload_content = "1865caac937330a7" ∧
    SwV.Gen.C33.src_IsCompressableFileType = "f13ca084edb33e44" ∧
    SwV.Gen.C33.src_DecompressData = "d113d7b990a08dda" ∧
    SwV.Gen.C33.src_ungzipData = "bcef7f751b482259" ∧
    SwV.Gen.C33.src_ReadUrlAsStream = "f82f7616faa8b3f8" ∧
    SwV.Gen.C33.src_readEncryptedUrl = "9cc4016521da0613" ∧
    SwV.Gen.C33.src_ParseUpload = "aa29abd9d280d9c0" ∧
    SwV.Gen.C33.src_parseMultipart = "e57aea27bc466fb3" := by
  decide

end SwV.Props.C33
