/-
C11 — property theorems: the writable set and the lookups reflect the registered state.

Part 1 (layout mechanism): `WInv` (= Spec `WritableOk` + no duplicates in the writables slices) is kept
by every layout call (`ensure_spec`, `writable_inv_events`).

Part 2 (the model's real step function): the invariant `Inv` — `WInv`, plus: the location list of every
volume id in its own layout is exactly the set of connected servers that have the volume registered, no
other layout knows the id, location lists have no duplicates — holds after EVERY operation of ANY
well-formed sequence of the model's top-level operations (`inv_step`, `inv_run`): connects / reconnects,
max-count changes, full and incremental volume heartbeats, full and incremental EC heartbeats,
disconnects, the refresh round.  Inside a heartbeat the DataNode side changes first and the layouts are
brought up to date call by call; `InvP` is the invariant of those intermediate states (with the sets of
volume ids still pending) and `HbFacts` says that UpdateVolumes / DeltaUpdateVolumes hand the layouts
exactly the changes they made.  Well-formedness (`OpWf`) = the recorded assumptions of props/C11/prop.json:
a volume's layout key (collection, replication, ttl, disk type) is a function of its id, ids are in the
modelled range, one incremental message does not announce and delete the same volume.  Stale, repeated
and contradicting messages are all covered.

Consequences: `writable_inv_run` (every writable vid has enough copies and only writable located
replicas), `lookup_exact_run` (Spec `LookupExact`), `lookup_exact_partial` (Topology.Lookup answers with
exactly the registered connected servers whenever the layout has an entry for the id; otherwise the id is
registered nowhere as a normal volume and the answer is the EC shard map — the two open EC-lookup
findings live exactly there), `refresh_removes_full` (the size-limit conjunct holds right after a refresh
round; between rounds it is false of the code: `full_volume_offered_again`, open finding
ensureCorrectWritables/full-volume-offered-again), `size_limit_run_partial` (the size-limit conjunct as an
invariant — no volume that a refresh round saw full and that stayed full is offered — under the hypothesis
`NoReoffer` that excludes exactly that finding), `lookup_exact_all_partial` (`EcInv`: the EC shard map lists
exactly the connected servers holding each shard, hence Topology.Lookup is exact for EC volumes too, under
the hypothesis that no server disconnects while it has EC shards registered = the open finding
UnRegisterDataNode/ec-shards-of-disconnected-server-stay-in-lookup; witness `ec_stays_after_disconnect`),
`no_new_offer_while_oversized` / `register_remembers_oversized` / `oversized_never_offered_events` (the
size-limit conjunct for replicas that REGISTER at or over the limit, all layout event sequences: judge class
RegisterVolume/oversized-not-remembered), `full_heartbeat_lookup_exact` / `empty_full_heartbeat_unregisters`
(after a full heartbeat the location lists contain the server exactly for the reported volume ids, none
after a heartbeat without volumes: the judge clauses that compare lookups / copies with the servers' reports).
-/
import SwV.Model.C11
import SwV.Spec.C11
import SwV.Lemmas.C11Ec
import SwV.Gen.C11
namespace SwV.Props.C11
open SwV.Model.C11 SwV.Spec.C11

/-- the fact ensureCorrectWritables establishes for one vid of one layout -/
def Q (st : St) (k : Key) (vid : Nat) : Prop := enoughCopies st k vid = true ∧ isAllWritable st k vid = true

def WInv (st : St) : Prop := ∀ k, (st.wr k).Nodup ∧ ∀ vid, vid ∈ st.wr k → Q st k vid

/-- `WInv` implies the spec statement `WritableOk` -/
theorem winv_writableOk {st : St} (h : WInv st) : WritableOk st := by
  intro k vid hm
  have ⟨he, ha⟩ := (h k).2 vid hm
  refine ⟨he, ?_⟩
  intro s hs v hv
  unfold isAllWritable at ha
  have := List.all_eq_true.mp ha s hs
  rw [hv] at this
  simpa using this

theorem Q_congr {st st' : St} (k : Key) (vid : Nat) (h1 : locList st' k vid = locList st k vid)
    (h2 : st'.toCore = st.toCore) (h3 : st'.asMin = st.asMin) : Q st' k vid ↔ Q st k vid := by
  unfold Q enoughCopies isAllWritable volOf
  rw [h1, h2, h3]

/-- a step that only edits writables: every vid it keeps or adds is justified -/
theorem winv_of_wr {st st' : St} (h : WInv st) (hl : st'.locs = st.locs) (hc : st'.toCore = st.toCore)
    (ha : st'.asMin = st.asMin)
    (hw : ∀ k, (st'.wr k).Nodup ∧ ∀ vid, vid ∈ st'.wr k → vid ∈ st.wr k ∨ Q st k vid) : WInv st' := by
  intro k
  refine ⟨(hw k).1, ?_⟩
  intro vid hm
  rw [Q_congr k vid (by unfold locList; rw [hl]) hc ha]
  rcases (hw k).2 vid hm with h1 | h1
  · exact (h k).2 vid h1
  · exact h1

theorem nodup_erase {l : List Nat} (h : l.Nodup) (a : Nat) : (l.erase a).Nodup := h.erase a

theorem winv_removeWritable {st : St} (h : WInv st) (k : Key) (vid : Nat) : WInv (removeWritable st k vid) := by
  refine winv_of_wr h rfl rfl rfl ?_
  intro k'
  unfold removeWritable updK
  by_cases e : k' = k
  · subst e
    simp only [if_true]
    exact ⟨nodup_erase (h k').1 vid, fun v hv => Or.inl (List.mem_of_mem_erase hv)⟩
  · simp only [e, if_false]
    exact ⟨(h k').1, fun v hv => Or.inl hv⟩

theorem winv_setWritable {st : St} (h : WInv st) (k : Key) (vid : Nat) (hq : Q st k vid) : WInv (setWritable st k vid) := by
  unfold setWritable
  split
  · exact h
  · next hc =>
    refine winv_of_wr h rfl rfl rfl ?_
    intro k'
    unfold updK
    by_cases e : k' = k
    · subst e
      simp only [if_true]
      refine ⟨?_, ?_⟩
      · rw [List.nodup_append]
        refine ⟨(h k').1, by simp, ?_⟩
        intro a ha b hb
        simp at hb; subst hb
        intro e; subst e
        exact hc (by simpa using ha)
      · intro v hv
        rcases List.mem_append.mp hv with h1 | h1
        · exact Or.inl h1
        · simp at h1; subst h1; exact Or.inr hq
    · simp only [e, if_false]
      exact ⟨(h k').1, fun v hv => Or.inl hv⟩

/-- ensureCorrectWritables keeps the invariant whatever the state of its own vid was -/
theorem winv_ensure {st : St} (h : WInv st) (k : Key) (vid : Nat) : WInv (ensureWritables st k vid) := by
  unfold ensureWritables
  split
  · next hq =>
    split
    · exact winv_setWritable h k vid (by simpa [Q] using hq)
    · exact h
  · exact winv_removeWritable h k vid

/-- the invariant for all vids except `vid` of layout `k` (whose locations or replicas just changed) -/
def WInvExcept (st : St) (k0 : Key) (vid0 : Nat) : Prop :=
  ∀ k, (st.wr k).Nodup ∧ ∀ vid, vid ∈ st.wr k → ¬ (k = k0 ∧ vid = vid0) → Q st k vid

/-- C11 core: ensureCorrectWritables RE-ESTABLISHES the fact for its own vid from any state: after it,
    the vid is writable only if it has enough copies and all located replicas are writable -/
theorem ensure_spec {st : St} (k : Key) (vid : Nat) (h : WInvExcept st k vid) : WInv (ensureWritables st k vid) := by
  unfold ensureWritables
  split
  · next hq =>
    have hq : Q st k vid := by simpa [Q] using hq
    have hall : WInv st := by
      intro k'
      refine ⟨(h k').1, fun v hv => ?_⟩
      by_cases e : k' = k ∧ v = vid
      · obtain ⟨rfl, rfl⟩ := e; exact hq
      · exact (h k').2 v hv e
    split
    · exact winv_setWritable hall k vid hq
    · exact hall
  · intro k'
    unfold removeWritable updK
    by_cases e : k' = k
    · subst e
      simp only [if_true]
      refine ⟨nodup_erase (h k').1 vid, ?_⟩
      intro v hv
      have hne : v ≠ vid := by
        intro e; subst e
        exact (List.Nodup.mem_erase_iff (h k').1).mp hv |>.1 rfl
      have := (h k').2 v (List.mem_of_mem_erase hv) (fun ⟨_, e⟩ => hne e)
      exact (Q_congr k' v rfl rfl rfl).mpr this
    · simp only [e, if_false]
      refine ⟨(h k').1, ?_⟩
      intro v hv
      exact (Q_congr k' v rfl rfl rfl).mpr ((h k').2 v hv (fun ⟨e', _⟩ => e e'))

theorem except_of {st st1 : St} (k0 : Key) (vid0 : Nat) (h : WInv st) (hc : st1.toCore = st.toCore)
    (ha : st1.asMin = st.asMin)
    (hl : ∀ k vid, ¬ (k = k0 ∧ vid = vid0) → st1.locs k vid = st.locs k vid)
    (hw : ∀ k, (st1.wr k).Nodup ∧ ∀ v, v ∈ st1.wr k → v ∈ st.wr k) : WInvExcept st1 k0 vid0 := by
  intro k
  refine ⟨(hw k).1, ?_⟩
  intro v hv hne
  exact (Q_congr k v (by unfold locList; rw [hl k v hne]) hc ha).mpr ((h k).2 v ((hw k).2 v hv))

theorem touchKey_wr (st : St) (k : Key) : (touchKey st k).wr = st.wr ∧ (touchKey st k).locs = st.locs ∧
    (touchKey st k).toCore = st.toCore ∧ (touchKey st k).asMin = st.asMin ∧ (touchKey st k).ov = st.ov ∧ (touchKey st k).limit = st.limit := by
  unfold touchKey; split <;> exact ⟨rfl, rfl, rfl, rfl, rfl, rfl⟩

theorem winv_touchKey {st : St} (h : WInv st) (k : Key) : WInv (touchKey st k) := by
  have t := touchKey_wr st k
  exact winv_of_wr h t.2.1 t.2.2.1 t.2.2.2.1 (fun k' => by rw [t.1]; exact ⟨(h k').1, fun v hv => Or.inl hv⟩)

/-- Topology.RegisterVolumeLayout (RegisterVolume; EnsureCorrectWritables) keeps the invariant -/
theorem winv_register {st : St} (h : WInv st) (v : VInfo) (s : Nat) : WInv (registerLayout st v s) := by
  have h' := winv_touchKey h v.key
  unfold registerLayout
  apply ensure_spec
  apply except_of (st := touchKey st v.key) (st1 := registerVolume st v s) v.key v.id h' rfl rfl
  · intro k vid hne
    simp [registerVolume, updK2, hne]
  · intro k
    simp only [registerVolume]
    split
    · unfold updK
      by_cases e : k = v.key
      · subst e
        simp only [if_true]
        exact ⟨nodup_erase (h' _).1 v.id, fun x hx => List.mem_of_mem_erase hx⟩
      · simp only [e, if_false]
        exact ⟨(h' k).1, fun x hx => hx⟩
    · exact ⟨(h' k).1, fun x hx => hx⟩

/-- dropping an empty location list does not change any fact -/
theorem winv_dropEmpty {st : St} (h : WInv st) (k : Key) (vid : Nat) (he : locList st k vid = []) :
    WInv { st with locs := updK2 st.locs k vid none } := by
  intro k'
  refine ⟨(h k').1, fun v hv => ?_⟩
  refine (Q_congr (st' := { st with locs := updK2 st.locs k vid none }) (st := st) k' v ?_ rfl rfl).mpr ((h k').2 v hv)
  unfold locList updK2
  by_cases e : k' = k ∧ v = vid
  · obtain ⟨rfl, rfl⟩ := e
    simp only [and_self, if_true]
    exact he.symm
  · simp only [e, if_false]

/-- Topology.UnRegisterVolumeLayout keeps the invariant -/
theorem winv_unregister {st : St} (h : WInv st) (v : VInfo) (s : Nat) : WInv (unregisterLayout st v s) := by
  have h' := winv_touchKey h v.key
  simp only [unregisterLayout]
  split
  · exact h'
  · next l hl =>
    split
    · have h2 : WInv (ensureWritables ({ touchKey st v.key with
          locs := updK2 (touchKey st v.key).locs v.key v.id (some (l.erase s)),
          ov := updK2 (touchKey st v.key).ov v.key v.id (((touchKey st v.key).ov v.key v.id).erase s) } : St) v.key v.id) := by
        apply ensure_spec
        apply except_of (st := touchKey st v.key) (st1 := ({ touchKey st v.key with
          locs := updK2 (touchKey st v.key).locs v.key v.id (some (l.erase s)),
          ov := updK2 (touchKey st v.key).ov v.key v.id (((touchKey st v.key).ov v.key v.id).erase s) } : St)) v.key v.id h' rfl rfl
        · intro k vid hne; simp [updK2, hne]
        · intro k; exact ⟨(h' k).1, fun x hx => hx⟩
      split
      · next hemp =>
        apply winv_dropEmpty h2
        have : (ensureWritables ({ touchKey st v.key with
          locs := updK2 (touchKey st v.key).locs v.key v.id (some (l.erase s)),
          ov := updK2 (touchKey st v.key).ov v.key v.id (((touchKey st v.key).ov v.key v.id).erase s) } : St) v.key v.id).locs
            = updK2 (touchKey st v.key).locs v.key v.id (some (l.erase s)) := by
          unfold ensureWritables setWritable removeWritable
          split
          · split
            · split <;> rfl
            · rfl
          · rfl
        unfold locList
        rw [this]
        simp [updK2, List.isEmpty_iff.mp hemp]
      · exact h2
    · exact h'

/-! ## event sequences -/

/-- the layout-side events of the master -/
inductive Ev where
  | register (v : VInfo) (s : Nat)      -- RegisterVolumeLayout (new volume seen on s)
  | unregister (v : VInfo) (s : Nat)    -- UnRegisterVolumeLayout (volume gone from s)
  | ensure (k : Key) (vid : Nat)        -- EnsureCorrectWritables (read-only flag changed)
  | capacityFull (k : Key) (vid : Nat)  -- SetVolumeCapacityFull (refresh round)

def applyEv (st : St) : Ev → St
  | .register v s => registerLayout st v s
  | .unregister v s => unregisterLayout st v s
  | .ensure k vid => ensureWritables (touchKey st k) k vid
  | .capacityFull k vid => removeWritable (touchKey st k) k vid

theorem winv_init (limit : Nat) (asMin : Bool) (nVid : Nat) : WInv (init limit asMin nVid) := by
  intro k; exact ⟨by simp [init], by intro v hv; simp [init] at hv⟩

/-- C11 main theorem (layout mechanism): for ALL event sequences, every vid in a writables slice has
    enough copies and only writable located replicas -/
theorem writable_inv_events (st : St) (h : WInv st) (evs : List Ev) : WInv (evs.foldl applyEv st) := by
  induction evs generalizing st with
  | nil => exact h
  | cons e evs ih =>
    simp only [List.foldl_cons]
    apply ih
    cases e with
    | register v s => exact winv_register h v s
    | unregister v s => exact winv_unregister h v s
    | ensure k vid => exact winv_ensure (winv_touchKey h k) k vid
    | capacityFull k vid => exact winv_removeWritable (winv_touchKey h k) k vid

theorem writable_ok_events (limit : Nat) (asMin : Bool) (nVid : Nat) (evs : List Ev) :
    WritableOk (evs.foldl applyEv (init limit asMin nVid)) :=
  winv_writableOk (writable_inv_events _ (winv_init limit asMin nVid) evs)

/-- the full statement is false of the code in one respect (known finding
    ensureCorrectWritables/full-volume-offered-again): a volume whose registered size is over the limit is
    writable again after a replica came and went -/
theorem full_volume_offered_again :
    let k : Key := ⟨1, 0, 0, 1⟩
    let st := run (init 1000 false 12)
      [.conn 1 1 1 6 4, .conn 0 1 1 5 0, .inc 1 [⟨4, 0, false, false, k⟩] [], .full 1 [⟨4, 1046, false, false, k⟩],
       .refresh, .inc 0 [⟨4, 0, false, false, k⟩] [], .inc 0 [] [⟨4, 0, false, false, k⟩]]
    (st.wr k = [4]) ∧ (volOf st 1 4).map (·.size) = some 1046 := by decide


/-! ## lifting to the model's step function: the DataNode side of a volume heartbeat -/

/-- registered volumes carry the layout key of their volume id and sit on that key's disk type
    (volume attributes are a function of the volume id) -/
def RegKey (keyOf : Nat → Key) (c : Core) : Prop :=
  ∀ s t vid v, c.vols s t vid = some v → t = (keyOf vid).disk ∧ v.id = vid ∧ v.key = keyOf vid ∧ vid < c.nVid + 1

/-- well-formed volume message entry -/
def VOk (keyOf : Nat → Key) (c : Core) (v : VInfo) : Prop := v.key = keyOf v.id ∧ v.id < c.nVid + 1

theorem volOf_eq {keyOf : Nat → Key} (hk : ∀ vid, (keyOf vid).disk < 2) {c : Core} (h : RegKey keyOf c) (s vid : Nat) :
    c.volOf s vid = c.vols s (keyOf vid).disk vid := by
  unfold Core.volOf
  have hd : (keyOf vid).disk = 0 ∨ (keyOf vid).disk = 1 := by have := hk vid; omega
  rcases hd with hd | hd
  · rw [hd]
    cases h0 : c.vols s 0 vid with
    | some v => rfl
    | none =>
      cases h1 : c.vols s 1 vid with
      | none => rfl
      | some v => have := (h s 1 vid v h1).1; omega
  · rw [hd]
    cases h0 : c.vols s 0 vid with
    | some v => have := (h s 0 vid v h0).1; omega
    | none => rfl

@[simp] theorem upAdj_vols_eq (c : Core) (s t d) : (c.upAdj s t d).vols = c.vols := rfl
@[simp] theorem upAdj_conn_eq (c : Core) (s t d) : (c.upAdj s t d).conn = c.conn := rfl
@[simp] theorem upAdj_nVid_eq (c : Core) (s t d) : (c.upAdj s t d).nVid = c.nVid := rfl

theorem addOrUpdate_fields (c : Core) (s : Nat) (v : VInfo) :
    (c.addOrUpdate s v).1.vols = upd3 c.vols s v.key.disk v.id (some v) ∧
    (c.addOrUpdate s v).1.conn = c.conn ∧ (c.addOrUpdate s v).1.nVid = c.nVid ∧
    (c.addOrUpdate s v).2.1 = (c.vols s v.key.disk v.id).isNone ∧
    (c.addOrUpdate s v).2.2 = (match c.vols s v.key.disk v.id with | some old => old.ro != v.ro | none => false) := by
  cases h : c.vols s v.key.disk v.id with
  | none => refine ⟨?_, ?_, ?_, ?_, ?_⟩ <;> simp [Core.addOrUpdate, h]
  | some old =>
    by_cases hr : (old.remote != v.remote) = true
    · refine ⟨?_, ?_, ?_, ?_, ?_⟩ <;> simp [Core.addOrUpdate, h, hr]
    · refine ⟨?_, ?_, ?_, ?_, ?_⟩ <;> simp [Core.addOrUpdate, h, hr]

theorem regKey_addOrUpdate {keyOf : Nat → Key} {c : Core} (h : RegKey keyOf c) (s : Nat) (v : VInfo) (hv : VOk keyOf c v) :
    RegKey keyOf (c.addOrUpdate s v).1 := by
  obtain ⟨f1, _, f3, _, _⟩ := addOrUpdate_fields c s v
  intro s' t x u hu
  rw [f1] at hu
  rw [f3]
  unfold upd3 at hu
  split at hu
  · next e =>
    obtain ⟨rfl, rfl, rfl⟩ := e
    cases hu
    exact ⟨by rw [hv.1], rfl, hv.1, hv.2⟩
  · exact h s' t x u hu

theorem regKey_delVol {keyOf : Nat → Key} {c : Core} (h : RegKey keyOf c) (s t x : Nat) (r : Bool) :
    RegKey keyOf (c.delVol s t x r) := by
  intro s' t' x' u hu
  have : (c.delVol s t x r).vols = upd3 c.vols s t x none := rfl
  rw [this] at hu
  unfold upd3 at hu
  split at hu
  · cases hu
  · exact h s' t' x' u hu

/-! ### UpdateVolumes, second loop -/

theorem addAll_facts (s : Nat) (vs : List VInfo) (c : Core) :
    ((c.addAll s vs).1.conn = c.conn ∧ (c.addAll s vs).1.nVid = c.nVid) ∧
    (∀ s' t x, (s' ≠ s ∨ ∀ v ∈ vs, ¬ (v.key.disk = t ∧ v.id = x)) → (c.addAll s vs).1.vols s' t x = c.vols s' t x) ∧
    (∀ t x, (c.vols s t x).isSome = true → ((c.addAll s vs).1.vols s t x).isSome = true) ∧
    (∀ t x, c.vols s t x = none → ((c.addAll s vs).1.vols s t x).isSome = true →
        ∃ v ∈ (c.addAll s vs).2.1, v.id = x ∧ v.key.disk = t) ∧
    (∀ t x v v', c.vols s t x = some v → (c.addAll s vs).1.vols s t x = some v' → v.ro ≠ v'.ro →
        ∃ u ∈ (c.addAll s vs).2.2, u.id = x ∧ u.key.disk = t) ∧
    (∀ v ∈ (c.addAll s vs).2.1, v ∈ vs ∧ ((c.addAll s vs).1.vols s v.key.disk v.id).isSome = true) ∧
    (∀ v ∈ (c.addAll s vs).2.2, v ∈ vs) := by
  induction vs generalizing c with
  | nil =>
    refine ⟨⟨rfl, rfl⟩, fun _ _ _ _ => rfl, fun _ _ h => h, ?_, ?_, ?_, ?_⟩
    · intro t x h1 h2; simp [Core.addAll, h1] at h2
    · intro t x v v' h1 h2 h3; simp only [Core.addAll] at h2; rw [h1] at h2; cases h2; exact absurd rfl h3
    · intro v hv; simp [Core.addAll] at hv
    · intro v hv; simp [Core.addAll] at hv
  | cons a vs ih =>
    obtain ⟨f1, f2, f3, f4, f5⟩ := addOrUpdate_fields c s a
    obtain ⟨⟨i1, i1'⟩, i2, i3, i4, i5, i6, i7⟩ := ih (c.addOrUpdate s a).1
    simp only [Core.addAll]
    refine ⟨⟨i1.trans f2, i1'.trans f3⟩, ?_, ?_, ?_, ?_, ?_, ?_⟩
    · intro s' t x h
      rw [i2 s' t x (by
        rcases h with h | h
        · exact Or.inl h
        · exact Or.inr (fun v hv => h v (by simp [hv]))), f1]
      unfold upd3
      rcases h with h | h
      · simp [h]
      · have := h a (by simp)
        have : ¬ (s' = s ∧ t = a.key.disk ∧ x = a.id) := fun ⟨_, b, c⟩ => this ⟨b.symm, c.symm⟩
        simp [this]
    · intro t x h
      apply i3
      rw [f1]; unfold upd3; split
      · rfl
      · exact h
    · intro t x h1 h2
      by_cases e : t = a.key.disk ∧ x = a.id
      · obtain ⟨rfl, rfl⟩ := e
        rw [h1] at f4
        refine ⟨a, ?_, rfl, rfl⟩
        rw [f4]; simp
      · have hc1 : (c.addOrUpdate s a).1.vols s t x = none := by
          rw [f1]; simp only [upd3]
          rw [if_neg (fun hh => e hh.2)]; exact h1
        obtain ⟨v, hv, hh⟩ := i4 t x hc1 h2
        refine ⟨v, ?_, hh⟩
        split
        · exact List.mem_cons_of_mem _ hv
        · exact hv
    · intro t x v v' h1 h2 h3
      have sub : ∀ u, u ∈ (Core.addAll (c.addOrUpdate s a).1 s vs).2.2 →
          u ∈ (if (c.addOrUpdate s a).2.2 = true then a :: (Core.addAll (c.addOrUpdate s a).1 s vs).2.2 else (Core.addAll (c.addOrUpdate s a).1 s vs).2.2) := by
        intro u hu; split
        · exact List.mem_cons_of_mem _ hu
        · exact hu
      by_cases e : t = a.key.disk ∧ x = a.id
      · obtain ⟨rfl, rfl⟩ := e
        have hc1 : (c.addOrUpdate s a).1.vols s a.key.disk a.id = some a := by
          rw [f1]; simp [upd3]
        by_cases hro : v.ro = a.ro
        · obtain ⟨u, hu, hh⟩ := i5 _ _ a v' hc1 h2 (by rw [← hro]; exact h3)
          exact ⟨u, sub u hu, hh⟩
        · refine ⟨a, ?_, rfl, rfl⟩
          rw [h1] at f5
          have : (c.addOrUpdate s a).2.2 = true := by rw [f5]; simpa using hro
          rw [this]; simp
      · have hc1 : (c.addOrUpdate s a).1.vols s t x = some v := by
          rw [f1]; simp only [upd3]
          rw [if_neg (fun hh => e hh.2)]; exact h1
        obtain ⟨u, hu, hh⟩ := i5 t x v v' hc1 h2 h3
        exact ⟨u, sub u hu, hh⟩
    · intro v hv
      split at hv
      · rcases List.mem_cons.mp hv with rfl | hv
        · refine ⟨by simp, ?_⟩
          apply i3
          rw [f1]; simp [upd3]
        · have := i6 v hv
          exact ⟨by simp [this.1], this.2⟩
      · have := i6 v hv
        exact ⟨by simp [this.1], this.2⟩
    · intro v hv
      split at hv
      · rcases List.mem_cons.mp hv with rfl | hv
        · simp
        · simp [i7 v hv]
      · simp [i7 v hv]

theorem regKey_addAll {keyOf : Nat → Key} (s : Nat) (vs : List VInfo) (c : Core) (h : RegKey keyOf c)
    (hv : ∀ v ∈ vs, VOk keyOf c v) : RegKey keyOf (c.addAll s vs).1 := by
  induction vs generalizing c with
  | nil => exact h
  | cons a vs ih =>
    simp only [Core.addAll]
    apply ih _ (regKey_addOrUpdate h s a (hv a (by simp)))
    intro v hvv
    have := hv v (by simp [hvv])
    exact ⟨this.1, by rw [(addOrUpdate_fields c s a).2.2.1]; exact this.2⟩

/-! ### UpdateVolumes, first loop -/

theorem sweepGone_facts (s : Nat) (actual : List VInfo) (t n : Nat) (c : Core) :
    ((c.sweepGone s actual t n).1.conn = c.conn ∧ (c.sweepGone s actual t n).1.nVid = c.nVid) ∧
    (∀ s' t' x, (c.sweepGone s actual t n).1.vols s' t' x =
        if s' = s ∧ t' = t ∧ x < n ∧ actual.any (fun a => a.id == x) = false then none else c.vols s' t' x) ∧
    (∀ v ∈ (c.sweepGone s actual t n).2, ∃ x, x < n ∧ c.vols s t x = some v ∧ actual.any (fun a => a.id == x) = false) ∧
    (∀ x v, x < n → c.vols s t x = some v → actual.any (fun a => a.id == x) = false → v ∈ (c.sweepGone s actual t n).2) := by
  induction n with
  | zero =>
    refine ⟨⟨rfl, rfl⟩, ?_, ?_, ?_⟩
    · intro s' t' x; simp [Core.sweepGone]
    · intro v hv; simp [Core.sweepGone] at hv
    · intro x v hx; omega
  | succ n ih =>
    obtain ⟨⟨i1, i1'⟩, i2, i3, i4⟩ := ih
    have hn : (c.sweepGone s actual t n).1.vols s t n = c.vols s t n := by
      rw [i2]; simp
    simp only [Core.sweepGone]
    rw [hn]
    cases hc : c.vols s t n with
    | none =>
      simp only []
      refine ⟨⟨i1, i1'⟩, ?_, ?_, ?_⟩
      · intro s' t' x
        rw [i2]
        by_cases e : s' = s ∧ t' = t ∧ x = n
        · obtain ⟨rfl, rfl, rfl⟩ := e
          simp [hc]
        · by_cases e2 : s' = s ∧ t' = t ∧ x < n ∧ actual.any (fun a => a.id == x) = false
          · rw [if_pos e2, if_pos ⟨e2.1, e2.2.1, by omega, e2.2.2.2⟩]
          · rw [if_neg e2, if_neg]
            intro ⟨a, b, c', d⟩
            have : x ≠ n := fun h => e ⟨a, b, h⟩
            exact e2 ⟨a, b, by omega, d⟩
      · intro v hv
        obtain ⟨x, hx, h⟩ := i3 v hv
        exact ⟨x, by omega, h⟩
      · intro x v hx h1 h2
        have : x ≠ n := by intro e; subst e; rw [hc] at h1; cases h1
        exact i4 x v (by omega) h1 h2
    | some v0 =>
      simp only []
      by_cases ha : actual.any (fun a => a.id == n) = true
      · simp only [ha, if_true]
        refine ⟨⟨i1, i1'⟩, ?_, ?_, ?_⟩
        · intro s' t' x
          rw [i2]
          by_cases e2 : s' = s ∧ t' = t ∧ x < n ∧ actual.any (fun a => a.id == x) = false
          · rw [if_pos e2, if_pos ⟨e2.1, e2.2.1, by omega, e2.2.2.2⟩]
          · rw [if_neg e2, if_neg]
            intro ⟨a, b, c', d⟩
            have : x ≠ n := by intro h; subst h; rw [ha] at d; cases d
            exact e2 ⟨a, b, by omega, d⟩
        · intro v hv
          obtain ⟨x, hx, h⟩ := i3 v hv
          exact ⟨x, by omega, h⟩
        · intro x v hx h1 h2
          have : x ≠ n := by intro e; subst e; rw [ha] at h2; cases h2
          exact i4 x v (by omega) h1 h2
      · have ha' : actual.any (fun a => a.id == n) = false := by simpa using ha
        simp only [ha', Bool.false_eq_true, if_false]
        refine ⟨⟨i1, i1'⟩, ?_, ?_, ?_⟩
        · intro s' t' x
          show upd3 (c.sweepGone s actual t n).1.vols s t n none s' t' x = _
          unfold upd3
          by_cases e : s' = s ∧ t' = t ∧ x = n
          · obtain ⟨rfl, rfl, rfl⟩ := e
            simp [ha']
          · rw [if_neg e, i2]
            by_cases e2 : s' = s ∧ t' = t ∧ x < n ∧ actual.any (fun a => a.id == x) = false
            · rw [if_pos e2, if_pos ⟨e2.1, e2.2.1, by omega, e2.2.2.2⟩]
            · rw [if_neg e2, if_neg]
              intro ⟨a, b, c', d⟩
              have : x ≠ n := fun h => e ⟨a, b, h⟩
              exact e2 ⟨a, b, by omega, d⟩
        · intro v hv
          rcases List.mem_append.mp hv with hv | hv
          · obtain ⟨x, hx, h⟩ := i3 v hv
            exact ⟨x, by omega, h⟩
          · simp at hv; subst hv
            exact ⟨n, by omega, hc, ha'⟩
        · intro x v hx h1 h2
          by_cases e : x = n
          · subst e; rw [hc] at h1; cases h1; simp
          · exact List.mem_append_left _ (i4 x v (by omega) h1 h2)

theorem regKey_of_sub {keyOf : Nat → Key} {c c' : Core} (h : RegKey keyOf c) (hn : c'.nVid = c.nVid)
    (hs : ∀ s t x v, c'.vols s t x = some v → c.vols s t x = some v) : RegKey keyOf c' := by
  intro s t x v hv
  rw [hn]; exact h s t x v (hs s t x v hv)

/-- what the layout phase of a volume heartbeat of server `s` needs to know about its DataNode phase
    (`c` before, `c'` after; `news` / `dels` / `chg` = the lists handed to RegisterVolumeLayout,
    UnRegisterVolumeLayout and EnsureCorrectWritables): every change of the registered state is in one of
    the lists, and the lists only say what the DataNode now has -/
structure HbFacts (keyOf : Nat → Key) (s : Nat) (c c' : Core) (news dels chg : List VInfo) : Prop where
  conn : c'.conn = c.conn
  nVid : c'.nVid = c.nVid
  other : ∀ s' t x, s' ≠ s → c'.vols s' t x = c.vols s' t x
  regKey : RegKey keyOf c'
  covL : ∀ x, (c.vols s (keyOf x).disk x).isSome ≠ (c'.vols s (keyOf x).disk x).isSome →
    (∃ v ∈ news, v.id = x) ∨ (∃ v ∈ dels, v.id = x)
  covQ : ∀ x v v', c.vols s (keyOf x).disk x = some v → c'.vols s (keyOf x).disk x = some v' → v.ro ≠ v'.ro →
    (∃ u ∈ news, u.id = x) ∨ (∃ u ∈ chg, u.id = x)
  newsOk : ∀ v ∈ news, v.key = keyOf v.id ∧ (c'.vols s (keyOf v.id).disk v.id).isSome = true
  delsOk : ∀ v ∈ dels, v.key = keyOf v.id ∧ c'.vols s (keyOf v.id).disk v.id = none
  chgOk : ∀ v ∈ chg, v.key = keyOf v.id

theorem any_id_false {actual : List VInfo} {x : Nat} : actual.any (fun a => a.id == x) = false ↔ ∀ a ∈ actual, a.id ≠ x := by
  simp [List.any_eq_false]

/-- DataNode.UpdateVolumes (full heartbeat) hands the layouts exactly the changes it made -/
theorem hb_updateVolumes {keyOf : Nat → Key} (hk : ∀ vid, (keyOf vid).disk < 2) (s : Nat) (c : Core) (actual : List VInfo)
    (hr : RegKey keyOf c) (hv : ∀ v ∈ actual, VOk keyOf c v) :
    HbFacts keyOf s c (c.updateVolumes s actual).1 (c.updateVolumes s actual).2.1 (c.updateVolumes s actual).2.2.1
      (c.updateVolumes s actual).2.2.2 := by
  obtain ⟨⟨s01, s02⟩, s03, s04, s05⟩ := sweepGone_facts s actual 0 (c.nVid + 1) c
  obtain ⟨⟨s11, s12⟩, s13, s14, s15⟩ := sweepGone_facts s actual 1 (c.nVid + 1) (c.sweepGone s actual 0 (c.nVid + 1)).1
  obtain ⟨⟨a1, a1'⟩, a2, a3, a4, a5, a6, a7⟩ := addAll_facts s actual
    (Core.sweepGone (c.sweepGone s actual 0 (c.nVid + 1)).1 s actual 1 (c.nVid + 1)).1
  -- the state between the loops, at one slot
  have c2eq : ∀ s' t x, (Core.sweepGone (c.sweepGone s actual 0 (c.nVid + 1)).1 s actual 1 (c.nVid + 1)).1.vols s' t x =
      if s' = s ∧ t < 2 ∧ x < c.nVid + 1 ∧ actual.any (fun a => a.id == x) = false then none else c.vols s' t x := by
    intro s' t x
    rw [s13, s03]
    by_cases e1 : s' = s ∧ t = 1 ∧ x < c.nVid + 1 ∧ actual.any (fun a => a.id == x) = false
    · rw [if_pos e1, if_pos ⟨e1.1, by omega, e1.2.2⟩]
    · rw [if_neg e1]
      by_cases e0 : s' = s ∧ t = 0 ∧ x < c.nVid + 1 ∧ actual.any (fun a => a.id == x) = false
      · rw [if_pos e0, if_pos ⟨e0.1, by omega, e0.2.2⟩]
      · rw [if_neg e0, if_neg]
        intro ⟨h1, h2, h3⟩
        have : t = 0 ∨ t = 1 := by omega
        rcases this with h | h
        · exact e0 ⟨h1, h, h3⟩
        · exact e1 ⟨h1, h, h3⟩
  have c1eq1 : ∀ x, (c.sweepGone s actual 0 (c.nVid + 1)).1.vols s 1 x = c.vols s 1 x := by
    intro x; rw [s03]; simp
  have hrk2 : RegKey keyOf (Core.sweepGone (c.sweepGone s actual 0 (c.nVid + 1)).1 s actual 1 (c.nVid + 1)).1 := by
    apply regKey_of_sub hr (s12.trans s02)
    intro s' t x v h
    rw [c2eq] at h
    split at h
    · cases h
    · exact h
  have slot : ∀ v ∈ actual, v.key.disk = (keyOf v.id).disk := fun v h => by rw [(hv v h).1]
  unfold Core.updateVolumes
  simp only []
  refine ⟨a1.trans (s11.trans s01), a1'.trans (s12.trans s02), ?_, ?_, ?_, ?_, ?_, ?_, ?_⟩
  · intro s' t x hs
    rw [a2 s' t x (Or.inl hs), c2eq]
    simp [hs]
  · apply regKey_addAll s actual _ hrk2
    intro v h
    exact ⟨(hv v h).1, by rw [s12, s02]; exact (hv v h).2⟩
  · -- covL
    intro x hne
    have hd := hk x
    cases hc : c.vols s (keyOf x).disk x with
    | none =>
      rw [hc] at hne
      have h2 : (Core.sweepGone (c.sweepGone s actual 0 (c.nVid + 1)).1 s actual 1 (c.nVid + 1)).1.vols s (keyOf x).disk x = none := by
        rw [c2eq]; split
        · rfl
        · exact hc
      have h3 : ((Core.addAll (Core.sweepGone (c.sweepGone s actual 0 (c.nVid + 1)).1 s actual 1 (c.nVid + 1)).1 s actual).1.vols s (keyOf x).disk x).isSome = true := by
        cases h : ((Core.addAll (Core.sweepGone (c.sweepGone s actual 0 (c.nVid + 1)).1 s actual 1 (c.nVid + 1)).1 s actual).1.vols s (keyOf x).disk x).isSome
        · rw [h] at hne; simp at hne
        · rfl
      obtain ⟨v, hv1, hv2, _⟩ := a4 _ x h2 h3
      exact Or.inl ⟨v, hv1, hv2⟩
    | some v =>
      rw [hc] at hne
      obtain ⟨_, hid, _, hx⟩ := hr s _ x v hc
      by_cases ha : actual.any (fun a => a.id == x) = false
      · right
        refine ⟨v, ?_, hid⟩
        have : (keyOf x).disk = 0 ∨ (keyOf x).disk = 1 := by omega
        rcases this with h | h
        · rw [h] at hc
          exact List.mem_append_left _ (s05 x v hx hc ha)
        · rw [h] at hc
          exact List.mem_append_right _ (s15 x v hx (by rw [c1eq1]; exact hc) ha)
      · exfalso
        have h2 : ((Core.sweepGone (c.sweepGone s actual 0 (c.nVid + 1)).1 s actual 1 (c.nVid + 1)).1.vols s (keyOf x).disk x).isSome = true := by
          rw [c2eq, if_neg (fun hh => ha hh.2.2.2), hc]; rfl
        have := a3 _ x h2
        rw [this] at hne
        simp at hne
  · -- covQ
    intro x v v' h1 h3 hro
    obtain ⟨_, hid, _, hx⟩ := hr s _ x v h1
    have hd := hk x
    by_cases ha : actual.any (fun a => a.id == x) = false
    · left
      have h2 : (Core.sweepGone (c.sweepGone s actual 0 (c.nVid + 1)).1 s actual 1 (c.nVid + 1)).1.vols s (keyOf x).disk x = none := by
        rw [c2eq, if_pos ⟨rfl, hd, hx, ha⟩]
      obtain ⟨u, hu1, hu2, _⟩ := a4 _ x h2 (by rw [h3]; rfl)
      exact ⟨u, hu1, hu2⟩
    · right
      have h2 : (Core.sweepGone (c.sweepGone s actual 0 (c.nVid + 1)).1 s actual 1 (c.nVid + 1)).1.vols s (keyOf x).disk x = some v := by
        rw [c2eq, if_neg (fun hh => ha hh.2.2.2), h1]
      obtain ⟨u, hu1, hu2, _⟩ := a5 _ x v v' h2 h3 hro
      exact ⟨u, hu1, hu2⟩
  · intro v h
    obtain ⟨m, hs⟩ := a6 v h
    refine ⟨(hv v m).1, ?_⟩
    rw [← slot v m]; exact hs
  · intro v h
    have key : ∃ t x, t < 2 ∧ x < c.nVid + 1 ∧ c.vols s t x = some v ∧ actual.any (fun a => a.id == x) = false := by
      rcases List.mem_append.mp h with h | h
      · obtain ⟨x, hx, h1, h2⟩ := s04 v h
        exact ⟨0, x, by omega, hx, h1, h2⟩
      · obtain ⟨x, hx, h1, h2⟩ := s14 v h
        rw [c1eq1] at h1
        exact ⟨1, x, by omega, hx, h1, h2⟩
    obtain ⟨t, x, ht, hx, h1, h2⟩ := key
    obtain ⟨e1, e2, e3, _⟩ := hr s t x v h1
    subst e2
    refine ⟨e3, ?_⟩
    rw [a2 s _ _ (Or.inr (fun a ha hh => any_id_false.mp h2 a ha hh.2)), c2eq, if_pos ⟨rfl, hk _, hx, h2⟩]
  · intro v h
    exact (hv v (a7 v h)).1

/-! ### DeltaUpdateVolumes -/

theorem addAll_fst (s : Nat) (vs : List VInfo) (c : Core) :
    (c.addAll s vs).1 = vs.foldl (fun c v => (c.addOrUpdate s v).1) c := by
  induction vs generalizing c with
  | nil => rfl
  | cons a vs ih => simp only [Core.addAll, List.foldl_cons]; exact ih _

theorem addAll_listed (s : Nat) (vs : List VInfo) (c : Core) :
    ∀ v ∈ vs, ((c.addAll s vs).1.vols s v.key.disk v.id).isSome = true := by
  induction vs generalizing c with
  | nil => intro v h; cases h
  | cons a vs ih =>
    intro v h
    simp only [Core.addAll]
    rcases List.mem_cons.mp h with rfl | h
    · apply (addAll_facts s vs _).2.2.1
      rw [(addOrUpdate_fields c s v).1]; simp [upd3]
    · exact ih _ v h

/-- one deletion of DeltaUpdateVolumes (`delReg`): whether or not the volume was registered, afterwards it is not -/
theorem delReg_vols (c : Core) (s : Nat) (v : VInfo) (s' t x : Nat) :
    (c.delReg s v).vols s' t x = upd3 c.vols s v.key.disk v.id none s' t x := by
  unfold Core.delReg
  split
  · rfl
  · next h =>
    unfold upd3
    split
    · next e => obtain ⟨rfl, rfl, rfl⟩ := e; exact h
    · rfl

theorem delReg_conn_nVid (c : Core) (s : Nat) (v : VInfo) :
    (c.delReg s v).conn = c.conn ∧ (c.delReg s v).nVid = c.nVid := by
  unfold Core.delReg
  split <;> exact ⟨rfl, rfl⟩

theorem dels_facts (s : Nat) (ds : List VInfo) (c : Core) :
    ((ds.foldl (fun c v => c.delReg s v) c).conn = c.conn ∧
     (ds.foldl (fun c v => c.delReg s v) c).nVid = c.nVid) ∧
    (∀ s' t x, (ds.foldl (fun c v => c.delReg s v) c).vols s' t x =
      if s' = s ∧ ∃ v ∈ ds, v.key.disk = t ∧ v.id = x then none else c.vols s' t x) := by
  induction ds generalizing c with
  | nil => exact ⟨⟨rfl, rfl⟩, fun s' t x => by simp⟩
  | cons a ds ih =>
    obtain ⟨⟨i1, i2⟩, i3⟩ := ih (c.delReg s a)
    simp only [List.foldl_cons]
    refine ⟨⟨i1.trans (delReg_conn_nVid c s a).1, i2.trans (delReg_conn_nVid c s a).2⟩, ?_⟩
    intro s' t x
    rw [i3]
    rw [delReg_vols]
    by_cases e : s' = s ∧ ∃ v ∈ ds, v.key.disk = t ∧ v.id = x
    · rw [if_pos e, if_pos]
      obtain ⟨e1, v, hv, hh⟩ := e
      exact ⟨e1, v, by simp [hv], hh⟩
    · rw [if_neg e]
      unfold upd3
      by_cases e2 : s' = s ∧ t = a.key.disk ∧ x = a.id
      · rw [if_pos e2, if_pos]
        exact ⟨e2.1, a, by simp, e2.2.1.symm, e2.2.2.symm⟩
      · rw [if_neg e2]
        by_cases e3 : s' = s ∧ ∃ v ∈ a :: ds, v.key.disk = t ∧ v.id = x
        · exfalso
          obtain ⟨e1, v, hv, hh⟩ := e3
          rcases List.mem_cons.mp hv with rfl | hv
          · exact e2 ⟨e1, hh.1.symm, hh.2.symm⟩
          · exact e ⟨e1, v, hv, hh⟩
        · rw [if_neg e3]

/-- DataNode.DeltaUpdateVolumes (incremental heartbeat): the new and deleted messages are the changes -/
theorem hb_deltaUpdateVolumes {keyOf : Nat → Key} (s : Nat) (c : Core) (news dels : List VInfo)
    (hr : RegKey keyOf c) (hv : ∀ v ∈ news ++ dels, VOk keyOf c v)
    (hdis : ∀ d ∈ dels, ∀ n ∈ news, d.id ≠ n.id) :
    HbFacts keyOf s c (c.deltaUpdateVolumes s news dels) news dels [] := by
  obtain ⟨⟨d1, d2⟩, d3⟩ := dels_facts s dels c
  unfold Core.deltaUpdateVolumes
  rw [← addAll_fst]
  obtain ⟨⟨a1, a1'⟩, a2, a3, a4, a5, a6, a7⟩ := addAll_facts s news
    (dels.foldl (fun c v => c.delReg s v) c)
  have slot : ∀ v ∈ news ++ dels, v.key.disk = (keyOf v.id).disk := fun v h => by rw [(hv v h).1]
  have hrk1 : RegKey keyOf (dels.foldl (fun c v => c.delReg s v) c) := by
    apply regKey_of_sub hr d2
    intro s' t x v h
    rw [d3] at h
    split at h
    · cases h
    · exact h
  refine ⟨a1.trans d1, a1'.trans d2, ?_, ?_, ?_, ?_, ?_, ?_, ?_⟩
  · intro s' t x hs
    rw [a2 s' t x (Or.inl hs), d3]
    simp [hs]
  · apply regKey_addAll s news _ hrk1
    intro v h
    have := hv v (by simp [h])
    exact ⟨this.1, by rw [d2]; exact this.2⟩
  · intro x hne
    by_cases hn : ∃ v ∈ news, v.id = x
    · exact Or.inl hn
    · right
      have same : (Core.addAll (dels.foldl (fun c v => c.delReg s v) c) s news).1.vols s (keyOf x).disk x =
          (dels.foldl (fun c v => c.delReg s v) c).vols s (keyOf x).disk x :=
        a2 s _ x (Or.inr (fun v hv' hh => hn ⟨v, hv', hh.2⟩))
      rw [same, d3] at hne
      by_cases e : s = s ∧ ∃ v ∈ dels, v.key.disk = (keyOf x).disk ∧ v.id = x
      · obtain ⟨_, v, hv1, hv2⟩ := e
        exact ⟨v, hv1, hv2.2⟩
      · rw [if_neg e] at hne; exact absurd rfl hne
  · intro x v v' h1 h2 hro
    by_cases hn : ∃ u ∈ news, u.id = x
    · exact Or.inl hn
    · exfalso
      have same : (Core.addAll (dels.foldl (fun c v => c.delReg s v) c) s news).1.vols s (keyOf x).disk x =
          (dels.foldl (fun c v => c.delReg s v) c).vols s (keyOf x).disk x :=
        a2 s _ x (Or.inr (fun v hv' hh => hn ⟨v, hv', hh.2⟩))
      rw [same, d3] at h2
      split at h2
      · cases h2
      · rw [h1] at h2; cases h2; exact hro rfl
  · intro v h
    refine ⟨(hv v (by simp [h])).1, ?_⟩
    rw [← slot v (by simp [h])]
    exact addAll_listed s news _ v h
  · intro v h
    refine ⟨(hv v (by simp [h])).1, ?_⟩
    rw [a2 s _ _ (Or.inr (fun n hn hh => hdis v h n hn hh.2.symm)), d3, if_pos]
    exact ⟨rfl, v, h, slot v (by simp [h]), rfl⟩
  · intro v h; cases h

/-! ## the invariant of the whole master state -/

/-- C11 invariant: the writables are justified (`WInv`), and the location list of every volume id in
    its own layout is exactly the set of connected servers that have it registered -/
structure Inv (keyOf : Nat → Key) (st : St) : Prop where
  winv : WInv st
  wrKey : ∀ k vid, vid ∈ st.wr k → k = keyOf vid
  regKey : RegKey keyOf st.toCore
  locs_iff : ∀ vid s, s ∈ locList st (keyOf vid) vid ↔ (st.conn s = true ∧ (st.vols s (keyOf vid).disk vid).isSome = true)
  other : ∀ k vid, k ≠ keyOf vid → st.locs k vid = none
  nodup : ∀ vid, (locList st (keyOf vid) vid).Nodup
  keys : ∀ k vid, st.locs k vid ≠ none → k ∈ st.keys

/-- the invariant in the middle of a heartbeat of server `s`: the DataNode side is already updated, the
    layouts not yet; `PL` = volume ids whose location list may still be wrong about `s`, `PQ` = volume ids
    whose place in the writables may still be unjustified -/
structure InvP (keyOf : Nat → Key) (s : Nat) (PL PQ : Nat → Prop) (st : St) : Prop where
  wnodup : ∀ k, (st.wr k).Nodup
  wq : ∀ k vid, vid ∈ st.wr k → ¬ PQ vid → Q st k vid
  wrKey : ∀ k vid, vid ∈ st.wr k → k = keyOf vid
  regKey : RegKey keyOf st.toCore
  locs_iff : ∀ vid s', (s' ≠ s ∨ ¬ PL vid) →
    (s' ∈ locList st (keyOf vid) vid ↔ (st.conn s' = true ∧ (st.vols s' (keyOf vid).disk vid).isSome = true))
  other : ∀ k vid, k ≠ keyOf vid → st.locs k vid = none
  nodup : ∀ vid, (locList st (keyOf vid) vid).Nodup
  keys : ∀ k vid, st.locs k vid ≠ none → k ∈ st.keys

theorem inv_of_invP {keyOf : Nat → Key} {s : Nat} {PL PQ : Nat → Prop} {st : St} (h : InvP keyOf s PL PQ st)
    (hl : ∀ x, ¬ PL x) (hq : ∀ x, ¬ PQ x) : Inv keyOf st :=
  ⟨fun k => ⟨h.wnodup k, fun vid hv => h.wq k vid hv (hq vid)⟩, h.wrKey, h.regKey,
   fun vid s' => h.locs_iff vid s' (Or.inr (hl vid)), h.other, h.nodup, h.keys⟩

theorem Q_congr_vols {st st' : St} (k : Key) (vid : Nat) (h1 : st'.locs k vid = st.locs k vid)
    (h2 : st'.vols = st.vols) (h3 : st'.asMin = st.asMin) : Q st' k vid ↔ Q st k vid := by
  unfold Q enoughCopies isAllWritable volOf Core.volOf locList
  rw [h1, h2, h3]

/-- bookkeeping shared by all layout-side steps: only the entry of `vid0` in its own layout changes -/
theorem invP_transfer {keyOf : Nat → Key} {s : Nat} {PL PQ PL' PQ' : Nat → Prop} {st st' : St}
    (h : InvP keyOf s PL PQ st) (vid0 : Nat) (k0 : Key) (hk : k0 = keyOf vid0)
    (hcore : st'.toCore = st.toCore) (hasMin : st'.asMin = st.asMin)
    (hlocs : ∀ k vid, ¬ (k = k0 ∧ vid = vid0) → st'.locs k vid = st.locs k vid)
    (hkeys : ∀ k, k ∈ st.keys → k ∈ st'.keys)
    (hk0 : st'.locs (k0) vid0 ≠ none → k0 ∈ st'.keys)
    (hwn : ∀ k, (st'.wr k).Nodup)
    (hwr : ∀ k x, x ∈ st'.wr k → x ≠ vid0 → x ∈ st.wr k)
    (hwk : ∀ k, vid0 ∈ st'.wr k → k = k0)
    (hq0 : vid0 ∈ st'.wr (k0) → ¬ PQ' vid0 → Q st' (k0) vid0)
    (hloc0 : ∀ s', s' ≠ s → (s' ∈ locList st' (k0) vid0 ↔ s' ∈ locList st (k0) vid0))
    (hnd0 : (locList st' (k0) vid0).Nodup)
    (hs0 : ¬ PL' vid0 → (s ∈ locList st' (k0) vid0 ↔ (st.conn s = true ∧ (st.vols s k0.disk vid0).isSome = true)))
    (hPL : ∀ x, x ≠ vid0 → ¬ PL' x → ¬ PL x) (hPQ : ∀ x, x ≠ vid0 → ¬ PQ' x → ¬ PQ x) :
    InvP keyOf s PL' PQ' st' := by
  subst hk
  have hconn : st'.conn = st.conn := congrArg Core.conn hcore
  have hvols : st'.vols = st.vols := congrArg Core.vols hcore
  have hll : ∀ k vid, ¬ (k = keyOf vid0 ∧ vid = vid0) → locList st' k vid = locList st k vid := by
    intro k vid hne; unfold locList; rw [hlocs k vid hne]
  refine ⟨hwn, ?_, ?_, by rw [hcore]; exact h.regKey, ?_, ?_, ?_, ?_⟩
  · intro k x hx hpq
    by_cases e : x = vid0
    · subst e
      have := hwk k hx; subst this
      exact hq0 hx hpq
    · have hne : ¬ (k = keyOf vid0 ∧ x = vid0) := fun hh => e hh.2
      exact (Q_congr_vols k x (hlocs k x hne) hvols hasMin).mpr (h.wq k x (hwr k x hx e) (hPQ x e hpq))
  · intro k x hx
    by_cases e : x = vid0
    · subst e; exact hwk k hx
    · exact h.wrKey k x (hwr k x hx e)
  · intro vid s' hc
    rw [hconn, hvols]
    by_cases e : vid = vid0
    · subst e
      by_cases es : s' = s
      · subst es
        have hpl : ¬ PL' vid := by
          rcases hc with hc | hc
          · exact absurd rfl hc
          · exact hc
        rw [hs0 hpl]
      · rw [hloc0 s' es]
        exact h.locs_iff vid s' (Or.inl es)
    · rw [hll _ _ (fun hh => e hh.2)]
      apply h.locs_iff
      rcases hc with hc | hc
      · exact Or.inl hc
      · exact Or.inr (hPL vid e hc)
  · intro k vid hne
    have : ¬ (k = keyOf vid0 ∧ vid = vid0) := by
      intro ⟨e1, e2⟩; subst e2; exact hne e1
    rw [hlocs k vid this]; exact h.other k vid hne
  · intro vid
    by_cases e : vid = vid0
    · subst e; exact hnd0
    · rw [hll _ _ (fun hh => e hh.2)]; exact h.nodup vid
  · intro k vid hne
    by_cases e : k = keyOf vid0 ∧ vid = vid0
    · obtain ⟨rfl, rfl⟩ := e; exact hk0 hne
    · rw [hlocs k vid e] at hne
      exact hkeys k (h.keys k vid hne)

/-! ### the three layout calls -/

theorem ensure_facts (st1 : St) (k : Key) (vid : Nat) (hn : ∀ k', (st1.wr k').Nodup) :
    (ensureWritables st1 k vid).locs = st1.locs ∧ (ensureWritables st1 k vid).toCore = st1.toCore ∧
    (ensureWritables st1 k vid).asMin = st1.asMin ∧ (ensureWritables st1 k vid).keys = st1.keys ∧
    (∀ k', ((ensureWritables st1 k vid).wr k').Nodup) ∧
    (∀ k' x, x ∈ (ensureWritables st1 k vid).wr k' → x ∈ st1.wr k' ∨ (k' = k ∧ x = vid)) ∧
    (vid ∈ (ensureWritables st1 k vid).wr k → Q (ensureWritables st1 k vid) k vid) := by
  unfold ensureWritables
  split
  · next hq =>
    have hq : Q st1 k vid := by simpa [Q] using hq
    split
    · unfold setWritable
      split
      · exact ⟨rfl, rfl, rfl, rfl, hn, fun k' x hx => Or.inl hx, fun _ => hq⟩
      · next hc =>
        refine ⟨rfl, rfl, rfl, rfl, ?_, ?_, fun _ => (Q_congr k vid rfl rfl rfl).mpr hq⟩
        · intro k'
          simp only [updK]
          split
          · next e =>
            subst e
            rw [List.nodup_append]
            refine ⟨hn _, by simp, ?_⟩
            intro a ha b hb
            simp at hb; subst hb
            intro e; subst e
            exact hc (by simpa using ha)
          · exact hn k'
        · intro k' x hx
          simp only [updK] at hx
          split at hx
          · next e =>
            rcases List.mem_append.mp hx with h1 | h1
            · exact Or.inl (e ▸ h1)
            · simp at h1; exact Or.inr ⟨e, h1⟩
          · exact Or.inl hx
    · exact ⟨rfl, rfl, rfl, rfl, hn, fun k' x hx => Or.inl hx, fun _ => hq⟩
  · refine ⟨rfl, rfl, rfl, rfl, ?_, ?_, ?_⟩
    · intro k'
      simp only [removeWritable, updK]
      split
      · next e => subst e; exact (hn _).erase vid
      · exact hn k'
    · intro k' x hx
      simp only [removeWritable, updK] at hx
      split at hx
      · next e => subst e; exact Or.inl (List.mem_of_mem_erase hx)
      · exact Or.inl hx
    · intro hx
      simp only [removeWritable, updK, if_true] at hx
      exact absurd rfl ((List.Nodup.mem_erase_iff (hn k)).mp hx).1

theorem mem_touchKey (st : St) (k : Key) : k ∈ (touchKey st k).keys ∧ ∀ k', k' ∈ st.keys → k' ∈ (touchKey st k).keys := by
  unfold touchKey
  split
  · next h => exact ⟨by simpa using h, fun _ h' => h'⟩
  · exact ⟨by simp, fun k' h' => by simp [h']⟩

theorem mem_setLoc (l : List Nat) (s x : Nat) : x ∈ setLoc l s ↔ x ∈ l ∨ x = s := by
  unfold setLoc
  split
  · next h =>
    constructor
    · exact Or.inl
    · rintro (h' | rfl)
      · exact h'
      · simpa using h
  · simp

theorem nodup_setLoc {l : List Nat} (h : l.Nodup) (s : Nat) : (setLoc l s).Nodup := by
  unfold setLoc
  split
  · exact h
  · next hc =>
    rw [List.nodup_append]
    refine ⟨h, by simp, ?_⟩
    intro a ha b hb
    simp at hb; subst hb
    intro e; subst e
    exact hc (by simpa using ha)

/-- EnsureCorrectWritables for a volume id (read-only flag changed) settles its place in the writables -/
theorem invP_ensure {keyOf : Nat → Key} {s : Nat} {PL PQ : Nat → Prop} {st : St}
    (h : InvP keyOf s PL PQ st) (vid0 : Nat) :
    InvP keyOf s PL (fun x => PQ x ∧ x ≠ vid0) (ensureWritables (touchKey st (keyOf vid0)) (keyOf vid0) vid0) := by
  obtain ⟨t1, t2, t3, t4, _, _⟩ := touchKey_wr st (keyOf vid0)
  have hn1 : ∀ k', ((touchKey st (keyOf vid0)).wr k').Nodup := by rw [t1]; exact h.wnodup
  obtain ⟨e1, e2, e3, e4, e5, e6, e7⟩ := ensure_facts (touchKey st (keyOf vid0)) (keyOf vid0) vid0 hn1
  have mk := mem_touchKey st (keyOf vid0)
  have hll : locList (ensureWritables (touchKey st (keyOf vid0)) (keyOf vid0) vid0) (keyOf vid0) vid0 = locList st (keyOf vid0) vid0 := by
    unfold locList; rw [e1, t2]
  apply invP_transfer h vid0 (keyOf vid0) rfl (e2.trans t3) (e3.trans t4)
  · intro k vid _; rw [e1, t2]
  · intro k hk; rw [e4]; exact mk.2 k hk
  · intro _; rw [e4]; exact mk.1
  · exact e5
  · intro k x hx hne
    rcases e6 k x hx with h1 | h1
    · rw [t1] at h1; exact h1
    · exact absurd h1.2 hne
  · intro k hx
    rcases e6 k vid0 hx with h1 | h1
    · rw [t1] at h1; exact h.wrKey k vid0 h1
    · exact h1.1
  · intro hx _; exact e7 hx
  · intro s' _; rw [hll]
  · rw [hll]; exact h.nodup vid0
  · intro hpl; rw [hll]
    exact h.locs_iff vid0 s (Or.inr hpl)
  · intro x _ hp; exact hp
  · intro x hne hp hq; exact hp ⟨hq, hne⟩

/-- RegisterVolumeLayout for a volume the DataNode now has -/
theorem invP_register {keyOf : Nat → Key} {s : Nat} {PL PQ : Nat → Prop} {st : St}
    (h : InvP keyOf s PL PQ st) (v : VInfo) (hkey : v.key = keyOf v.id) (hc : st.conn s = true)
    (hreg : (st.vols s (keyOf v.id).disk v.id).isSome = true) :
    InvP keyOf s (fun x => PL x ∧ x ≠ v.id) (fun x => PQ x ∧ x ≠ v.id) (registerLayout st v s) := by
  obtain ⟨t1, t2, t3, t4, _, _⟩ := touchKey_wr st v.key
  have mk := mem_touchKey st v.key
  -- RegisterVolume
  have r_core : (registerVolume st v s).toCore = st.toCore := by simp [registerVolume, t3]
  have r_asMin : (registerVolume st v s).asMin = st.asMin := by simp [registerVolume, t4]
  have r_keys : (registerVolume st v s).keys = (touchKey st v.key).keys := rfl
  have r_locs : (registerVolume st v s).locs = updK2 st.locs v.key v.id (some (setLoc (locList st v.key v.id) s)) := by
    simp only [registerVolume, locList, t2]
  have r_wr : ∀ k', ((registerVolume st v s).wr k').Nodup ∧ ∀ x, x ∈ (registerVolume st v s).wr k' → x ∈ st.wr k' := by
    intro k'
    simp only [registerVolume, t1]
    split
    · unfold updK
      split
      · next e => subst e; exact ⟨(h.wnodup _).erase _, fun x hx => List.mem_of_mem_erase hx⟩
      · exact ⟨h.wnodup k', fun x hx => hx⟩
    · exact ⟨h.wnodup k', fun x hx => hx⟩
  obtain ⟨e1, e2, e3, e4, e5, e6, e7⟩ := ensure_facts (registerVolume st v s) v.key v.id (fun k' => (r_wr k').1)
  have hll : locList (registerLayout st v s) v.key v.id = setLoc (locList st v.key v.id) s := by
    unfold registerLayout locList; rw [e1, r_locs]; simp [updK2]
    rfl
  have hreg' : (st.vols s v.key.disk v.id).isSome = true := by rw [hkey]; exact hreg
  unfold registerLayout at hll ⊢
  apply invP_transfer h v.id v.key hkey (e2.trans r_core) (e3.trans r_asMin)
  · intro k vid hne; rw [e1, r_locs]; simp [updK2, hne]
  · intro k hk; rw [e4, r_keys]; exact mk.2 k hk
  · intro _; rw [e4, r_keys]; exact mk.1
  · exact e5
  · intro k x hx hne
    rcases e6 k x hx with h1 | h1
    · exact (r_wr k).2 x h1
    · exact absurd h1.2 hne
  · intro k hx
    rcases e6 k v.id hx with h1 | h1
    · rw [h.wrKey k v.id ((r_wr k).2 _ h1), hkey]
    · exact h1.1
  · intro hx _; exact e7 hx
  · intro s' hs'; rw [hll, mem_setLoc]; simp [hs']
  · rw [hll]; rw [hkey]; exact nodup_setLoc (h.nodup v.id) s
  · intro _; rw [hll, mem_setLoc]; simp [hreg', hc]
  · intro x hne hp hq; exact hp ⟨hq, hne⟩
  · intro x hne hp hq; exact hp ⟨hq, hne⟩

theorem InvP.mono {keyOf : Nat → Key} {s : Nat} {PL PQ PL' PQ' : Nat → Prop} {st : St} (h : InvP keyOf s PL PQ st)
    (hl : ∀ x, ¬ PL' x → ¬ PL x) (hq : ∀ x, ¬ PQ' x → ¬ PQ x) : InvP keyOf s PL' PQ' st :=
  ⟨h.wnodup, fun k vid hv hp => h.wq k vid hv (hq vid hp), h.wrKey, h.regKey,
   fun vid s' hc => h.locs_iff vid s' (hc.imp id (hl vid)), h.other, h.nodup, h.keys⟩

/-- UnRegisterVolumeLayout for a volume the DataNode no longer has -/
theorem invP_unregister {keyOf : Nat → Key} {s : Nat} {PL PQ : Nat → Prop} {st : St}
    (h : InvP keyOf s PL PQ st) (v : VInfo) (hkey : v.key = keyOf v.id)
    (hunreg : st.vols s (keyOf v.id).disk v.id = none) :
    InvP keyOf s (fun x => PL x ∧ x ≠ v.id) PQ (unregisterLayout st v s) := by
  obtain ⟨t1, t2, t3, t4, _, _⟩ := touchKey_wr st v.key
  have mk := mem_touchKey st v.key
  have hunreg' : (st.vols s v.key.disk v.id).isSome = false := by rw [hkey, hunreg]; rfl
  -- the cases in which nothing but the key list changes
  have caseA : s ∉ locList st v.key v.id → InvP keyOf s (fun x => PL x ∧ x ≠ v.id) PQ (touchKey st v.key) := by
    intro hs
    have hll : locList (touchKey st v.key) v.key v.id = locList st v.key v.id := by unfold locList; rw [t2]
    apply invP_transfer h v.id v.key hkey t3 t4
    · intro k vid _; rw [t2]
    · exact mk.2
    · intro _; exact mk.1
    · rw [t1]; exact h.wnodup
    · intro k x hx _; rw [t1] at hx; exact hx
    · intro k hx; rw [t1] at hx; rw [h.wrKey k _ hx, hkey]
    · intro hx hq; rw [t1] at hx
      exact (Q_congr_vols v.key v.id (by rw [t2]) (congrArg Core.vols t3) t4).mpr (h.wq _ _ hx hq)
    · intro s' _; rw [hll]
    · rw [hll, hkey]; exact h.nodup v.id
    · intro _; rw [hll, hunreg']; simp [hs]
    · intro x hne hp hq; exact hp ⟨hq, hne⟩
    · intro x _ hp; exact hp
  simp only [unregisterLayout]
  split
  · next hnone =>
    apply caseA
    unfold locList; rw [← t2, hnone]; simp
  · next l hl =>
    have hl' : locList st v.key v.id = l := by unfold locList; rw [← t2, hl]; rfl
    split
    · next hcont =>
      -- the entry of `s` is erased, EnsureCorrectWritables, an empty entry is dropped
      have hnd : l.Nodup := by rw [← hl', hkey]; exact h.nodup v.id
      have hn2 : ∀ k', (({ touchKey st v.key with
          locs := updK2 (touchKey st v.key).locs v.key v.id (some (l.erase s)),
          ov := updK2 (touchKey st v.key).ov v.key v.id (((touchKey st v.key).ov v.key v.id).erase s) } : St).wr k').Nodup := by
        intro k'; show ((touchKey st v.key).wr k').Nodup; rw [t1]; exact h.wnodup k'
      obtain ⟨e1, e2, e3, e4, e5, e6, e7⟩ := ensure_facts ({ touchKey st v.key with
          locs := updK2 (touchKey st v.key).locs v.key v.id (some (l.erase s)),
          ov := updK2 (touchKey st v.key).ov v.key v.id (((touchKey st v.key).ov v.key v.id).erase s) } : St) v.key v.id hn2
      have key : ∀ st' : St, st'.toCore = st.toCore → st'.asMin = st.asMin → st'.keys = (touchKey st v.key).keys →
          (∀ k vid, ¬ (k = v.key ∧ vid = v.id) → st'.locs k vid = st.locs k vid) →
          locList st' v.key v.id = l.erase s →
          (∀ k', (st'.wr k').Nodup) → (∀ k' x, x ∈ st'.wr k' → x ∈ st.wr k' ∨ (k' = v.key ∧ x = v.id)) →
          (v.id ∈ st'.wr v.key → Q st' v.key v.id) →
          InvP keyOf s (fun x => PL x ∧ x ≠ v.id) PQ st' := by
        intro st' c1 c2 c3 c4 c5 c6 c7 c8
        apply invP_transfer h v.id v.key hkey c1 c2 c4
        · intro k hk; rw [c3]; exact mk.2 k hk
        · intro _; rw [c3]; exact mk.1
        · exact c6
        · intro k x hx hne
          rcases c7 k x hx with h1 | h1
          · exact h1
          · exact absurd h1.2 hne
        · intro k hx
          rcases c7 k v.id hx with h1 | h1
          · rw [h.wrKey k _ h1, hkey]
          · exact h1.1
        · intro hx _; exact c8 hx
        · intro s' hs'; rw [c5, hl']; exact List.mem_erase_of_ne hs'
        · rw [c5]; exact hnd.erase s
        · intro _; rw [c5, hunreg']
          have : s ∉ l.erase s := fun hh => ((List.Nodup.mem_erase_iff hnd).mp hh).1 rfl
          simp [this]
        · intro x hne hp hq; exact hp ⟨hq, hne⟩
        · intro x _ hp; exact hp
      have hlocs3 : ∀ k vid, ¬ (k = v.key ∧ vid = v.id) →
          (ensureWritables ({ touchKey st v.key with
            locs := updK2 (touchKey st v.key).locs v.key v.id (some (l.erase s)),
            ov := updK2 (touchKey st v.key).ov v.key v.id (((touchKey st v.key).ov v.key v.id).erase s) } : St) v.key v.id).locs k vid
            = st.locs k vid := by
        intro k vid hne; rw [e1]; simp only [updK2, hne, if_false]; rw [t2]
      have hll3 : locList (ensureWritables ({ touchKey st v.key with
            locs := updK2 (touchKey st v.key).locs v.key v.id (some (l.erase s)),
            ov := updK2 (touchKey st v.key).ov v.key v.id (((touchKey st v.key).ov v.key v.id).erase s) } : St) v.key v.id) v.key v.id
            = l.erase s := by
        unfold locList; rw [e1]; simp [updK2]
      have hwr3 : ∀ k' x, x ∈ (ensureWritables ({ touchKey st v.key with
            locs := updK2 (touchKey st v.key).locs v.key v.id (some (l.erase s)),
            ov := updK2 (touchKey st v.key).ov v.key v.id (((touchKey st v.key).ov v.key v.id).erase s) } : St) v.key v.id).wr k' →
            x ∈ st.wr k' ∨ (k' = v.key ∧ x = v.id) := by
        intro k' x hx
        rcases e6 k' x hx with h1 | h1
        · left; have : x ∈ (touchKey st v.key).wr k' := h1; rw [t1] at this; exact this
        · exact Or.inr h1
      have c1 := e2.trans t3
      have c2 := e3.trans t4
      generalize ensureWritables ({ touchKey st v.key with
            locs := updK2 (touchKey st v.key).locs v.key v.id (some (l.erase s)),
            ov := updK2 (touchKey st v.key).ov v.key v.id (((touchKey st v.key).ov v.key v.id).erase s) } : St) v.key v.id = st3
        at e4 e5 e7 hlocs3 hll3 hwr3 c1 c2 ⊢
      split
      · next hemp =>
        have hempty : l.erase s = [] := List.isEmpty_iff.mp hemp
        apply key ({ st3 with locs := updK2 st3.locs v.key v.id none } : St) c1 c2 e4
        · intro k vid hne
          show updK2 _ v.key v.id none k vid = _
          simp only [updK2, hne, if_false]
          exact hlocs3 k vid hne
        · unfold locList; simp [updK2, hempty]
        · exact e5
        · exact hwr3
        · intro hx
          have hq : Q ({ st3 with locs := updK2 st3.locs v.key v.id none } : St) v.key v.id ↔ Q st3 v.key v.id := by
            exact Q_congr (st' := ({ st3 with locs := updK2 st3.locs v.key v.id none } : St)) (st := st3) v.key v.id
              (by rw [hll3]; unfold locList; simp [updK2, hempty]) rfl rfl
          exact hq.mpr (e7 hx)
      · exact key st3 c1 c2 e4 hlocs3 hll3 e5 hwr3 e7
    · next hcont =>
      apply caseA
      rw [hl']; simpa using hcont

/-! ### event lists -/

def clearsL : Ev → Nat → Prop
  | .register v _, x => x = v.id
  | .unregister v _, x => x = v.id
  | _, _ => False

def clearsQ : Ev → Nat → Prop
  | .register v _, x => x = v.id
  | .ensure _ vid, x => x = vid
  | _, _ => False

/-- a layout call of a heartbeat of `s` agrees with what the DataNode `c` now has -/
def EvOk (keyOf : Nat → Key) (s : Nat) (c : Core) : Ev → Prop
  | .register v s0 => s0 = s ∧ v.key = keyOf v.id ∧ c.conn s = true ∧ (c.vols s (keyOf v.id).disk v.id).isSome = true
  | .unregister v s0 => s0 = s ∧ v.key = keyOf v.id ∧ c.vols s (keyOf v.id).disk v.id = none
  | .ensure k vid => k = keyOf vid
  | .capacityFull _ _ => False

theorem touchKey_toCore (st : St) (k : Key) : (touchKey st k).toCore = st.toCore := (touchKey_wr st k).2.2.1
theorem ensureWritables_toCore (st : St) (k : Key) (v : Nat) : (ensureWritables st k v).toCore = st.toCore := by
  unfold ensureWritables setWritable removeWritable; split
  · split
    · split <;> rfl
    · rfl
  · rfl
theorem registerLayout_toCore (st : St) (v : VInfo) (s : Nat) : (registerLayout st v s).toCore = st.toCore := by
  unfold registerLayout; rw [ensureWritables_toCore]; simp [registerVolume, touchKey_toCore]
theorem unregisterLayout_toCore (st : St) (v : VInfo) (s : Nat) : (unregisterLayout st v s).toCore = st.toCore := by
  simp only [unregisterLayout]
  split
  · exact touchKey_toCore _ _
  · split
    · split
      · show (ensureWritables _ _ _).toCore = _; rw [ensureWritables_toCore]; exact touchKey_toCore _ _
      · rw [ensureWritables_toCore]; exact touchKey_toCore _ _
    · exact touchKey_toCore _ _
theorem setUnavailable_toCore (st : St) (v : VInfo) (s : Nat) : (setUnavailable st v s).toCore = st.toCore := by
  simp only [setUnavailable]
  split
  · exact touchKey_toCore _ _
  · split
    · split
      · show (touchKey st v.key).toCore = _; exact touchKey_toCore _ _
      · show (touchKey st v.key).toCore = _; exact touchKey_toCore _ _
    · exact touchKey_toCore _ _

theorem applyEv_core (st : St) (ev : Ev) : (applyEv st ev).toCore = st.toCore := by
  cases ev with
  | register v s => exact registerLayout_toCore st v s
  | unregister v s => exact unregisterLayout_toCore st v s
  | ensure k vid => show (ensureWritables _ _ _).toCore = _; rw [ensureWritables_toCore]; exact touchKey_toCore _ _
  | capacityFull k vid => show (touchKey st k).toCore = _; exact touchKey_toCore _ _

theorem invP_ev {keyOf : Nat → Key} {s : Nat} {PL PQ : Nat → Prop} {st : St} (h : InvP keyOf s PL PQ st)
    (ev : Ev) (hok : EvOk keyOf s st.toCore ev) :
    InvP keyOf s (fun x => PL x ∧ ¬ clearsL ev x) (fun x => PQ x ∧ ¬ clearsQ ev x) (applyEv st ev) := by
  cases ev with
  | register v s0 =>
    obtain ⟨rfl, h1, h2, h3⟩ := hok
    exact invP_register h v h1 h2 h3
  | unregister v s0 =>
    obtain ⟨rfl, h1, h2⟩ := hok
    exact (invP_unregister h v h1 h2).mono (fun x hx => hx) (fun x hx hq => hx ⟨hq, fun f => f⟩)
  | ensure k vid =>
    have hk : k = keyOf vid := hok
    subst hk
    exact (invP_ensure h vid).mono (fun x hx hl => hx ⟨hl, fun f => f⟩) (fun x hx => hx)
  | capacityFull k vid => exact hok.elim

/-- a list of layout calls that covers everything pending restores the invariant -/
theorem invP_evs {keyOf : Nat → Key} {s : Nat} (evs : List Ev) : ∀ (st : St) (PL PQ : Nat → Prop),
    InvP keyOf s PL PQ st → (∀ ev ∈ evs, EvOk keyOf s st.toCore ev) →
    (∀ x, PL x → ∃ ev ∈ evs, clearsL ev x) → (∀ x, PQ x → ∃ ev ∈ evs, clearsQ ev x) →
    Inv keyOf (evs.foldl applyEv st) ∧ (evs.foldl applyEv st).toCore = st.toCore := by
  induction evs with
  | nil =>
    intro st PL PQ h _ hl hq
    exact ⟨inv_of_invP h (fun x hx => by obtain ⟨_, hm, _⟩ := hl x hx; cases hm)
      (fun x hx => by obtain ⟨_, hm, _⟩ := hq x hx; cases hm), rfl⟩
  | cons ev evs ih =>
    intro st PL PQ h hok hl hq
    simp only [List.foldl_cons]
    have h1 := invP_ev h ev (hok ev (by simp))
    have hc := applyEv_core st ev
    have := ih (applyEv st ev) _ _ h1 (fun e he => by rw [hc]; exact hok e (by simp [he]))
      (fun x ⟨hx, hn⟩ => by
        obtain ⟨e, he, hcl⟩ := hl x hx
        rcases List.mem_cons.mp he with rfl | he
        · exact absurd hcl hn
        · exact ⟨e, he, hcl⟩)
      (fun x ⟨hx, hn⟩ => by
        obtain ⟨e, he, hcl⟩ := hq x hx
        rcases List.mem_cons.mp he with rfl | he
        · exact absurd hcl hn
        · exact ⟨e, he, hcl⟩)
    exact ⟨this.1, this.2.trans hc⟩

/-- the layout calls of a volume heartbeat -/
def hbEvs (s : Nat) (news dels chg : List VInfo) : List Ev :=
  news.map (fun v => Ev.register v s) ++ dels.map (fun v => Ev.unregister v s) ++ chg.map (fun v => Ev.ensure v.key v.id)

/-- a volume heartbeat (DataNode phase described by `HbFacts`, then the layout calls) keeps the invariant -/
theorem inv_heartbeat {keyOf : Nat → Key} (hk : ∀ vid, (keyOf vid).disk < 2) {st : St} (h : Inv keyOf st) (s : Nat)
    (hc : st.conn s = true) (c' : Core) (news dels chg : List VInfo)
    (F : HbFacts keyOf s st.toCore c' news dels chg) :
    Inv keyOf ((hbEvs s news dels chg).foldl applyEv { st with toCore := c' }) := by
  have hP : InvP keyOf s
      (fun x => (st.vols s (keyOf x).disk x).isSome ≠ (c'.vols s (keyOf x).disk x).isSome)
      (fun x => ∃ v v', st.vols s (keyOf x).disk x = some v ∧ c'.vols s (keyOf x).disk x = some v' ∧ v.ro ≠ v'.ro)
      ({ st with toCore := c' } : St) := by
    refine ⟨fun k => (h.winv k).1, ?_, h.wrKey, F.regKey, ?_,
      h.other, h.nodup, h.keys⟩
    · intro k vid hv hpq
      have hq := (h.winv k).2 vid hv
      have hkk := h.wrKey k vid hv
      subst hkk
      refine ⟨hq.1, ?_⟩
      have ha := hq.2
      unfold isAllWritable at ha ⊢
      rw [List.all_eq_true] at ha ⊢
      intro dn hdn
      have hdn' : dn ∈ locList st (keyOf vid) vid := hdn
      have old := ha dn hdn'
      show (match Core.volOf c' dn vid with | some v => !v.ro | none => true) = true
      have old' : (match Core.volOf st.toCore dn vid with | some v => !v.ro | none => true) = true := old
      rw [volOf_eq hk F.regKey]
      rw [volOf_eq hk h.regKey] at old'
      by_cases e : dn = s
      · subst e
        cases h2 : c'.vols dn (keyOf vid).disk vid with
        | none => rfl
        | some v' =>
          have := ((h.locs_iff vid dn).mp hdn').2
          cases h1 : st.vols dn (keyOf vid).disk vid with
          | none => rw [h1] at this; cases this
          | some v =>
            have h1' : st.toCore.vols dn (keyOf vid).disk vid = some v := h1
            rw [h1'] at old'
            have : v.ro = v'.ro := by
              by_cases q : v.ro = v'.ro
              · exact q
              · exact absurd ⟨v, v', h1, h2, q⟩ hpq
            simp only [] at old' ⊢
            rw [← this]; exact old'
      · rw [F.other dn _ _ e]; exact old'
    · intro vid s' hcond
      show s' ∈ locList st (keyOf vid) vid ↔ (c'.conn s' = true ∧ (c'.vols s' (keyOf vid).disk vid).isSome = true)
      rw [F.conn, h.locs_iff]
      by_cases e : s' = s
      · subst e
        rcases hcond with hh | hh
        · exact absurd rfl hh
        · have : (st.vols s' (keyOf vid).disk vid).isSome = (c'.vols s' (keyOf vid).disk vid).isSome :=
            Decidable.of_not_not hh
          rw [← this]
      · rw [F.other s' _ _ e]
  refine (invP_evs (hbEvs s news dels chg) _ _ _ hP ?_ ?_ ?_).1
  · intro ev hev
    unfold hbEvs at hev
    rcases List.mem_append.mp hev with hev | hev
    · rcases List.mem_append.mp hev with hev | hev
      · obtain ⟨v, hv, rfl⟩ := List.mem_map.mp hev
        exact ⟨rfl, (F.newsOk v hv).1, by show c'.conn s = true; rw [F.conn]; exact hc, (F.newsOk v hv).2⟩
      · obtain ⟨v, hv, rfl⟩ := List.mem_map.mp hev
        exact ⟨rfl, F.delsOk v hv⟩
    · obtain ⟨v, hv, rfl⟩ := List.mem_map.mp hev
      exact F.chgOk v hv
  · intro x hx
    rcases F.covL x hx with ⟨v, hv, rfl⟩ | ⟨v, hv, rfl⟩
    · exact ⟨Ev.register v s, List.mem_append_left _ (List.mem_append_left _ (List.mem_map.mpr ⟨v, hv, rfl⟩)), rfl⟩
    · exact ⟨Ev.unregister v s, List.mem_append_left _ (List.mem_append_right _ (List.mem_map.mpr ⟨v, hv, rfl⟩)), rfl⟩
  · intro x ⟨v, v', h1, h2, h3⟩
    rcases F.covQ x v v' h1 h2 h3 with ⟨u, hu, rfl⟩ | ⟨u, hu, rfl⟩
    · exact ⟨Ev.register u s, List.mem_append_left _ (List.mem_append_left _ (List.mem_map.mpr ⟨u, hu, rfl⟩)), rfl⟩
    · exact ⟨Ev.ensure u.key u.id, List.mem_append_right _ (List.mem_map.mpr ⟨u, hu, rfl⟩), rfl⟩

/-! ## every top-level operation of the model keeps the invariant -/

theorem syncFull_eq (st : St) (s : Nat) (actual : List VInfo) (hc : st.conn s = true) :
    syncFull st s actual =
      (hbEvs s (st.toCore.updateVolumes s actual).2.1 (st.toCore.updateVolumes s actual).2.2.1
        (st.toCore.updateVolumes s actual).2.2.2).foldl applyEv { st with toCore := (st.toCore.updateVolumes s actual).1 } := by
  simp only [syncFull, hc, Bool.not_true, Bool.false_eq_true, if_false, hbEvs, List.foldl_append, List.foldl_map]
  rfl

theorem syncInc_eq (st : St) (s : Nat) (news dels : List VInfo) (hc : st.conn s = true) :
    syncInc st s news dels =
      (hbEvs s news dels []).foldl applyEv { st with toCore := st.toCore.deltaUpdateVolumes s news dels } := by
  simp only [syncInc, hc, Bool.not_true, Bool.false_eq_true, if_false, hbEvs, List.foldl_append, List.foldl_map,
    List.map_nil, List.foldl_nil]
  rfl

/-- Topology.SyncDataNodeRegistration (full volume heartbeat) -/
theorem inv_full {keyOf : Nat → Key} (hk : ∀ vid, (keyOf vid).disk < 2) {st : St} (h : Inv keyOf st) (s : Nat)
    (actual : List VInfo) (hv : ∀ v ∈ actual, VOk keyOf st.toCore v) : Inv keyOf (syncFull st s actual) := by
  by_cases hc : st.conn s = true
  · rw [syncFull_eq st s actual hc]
    exact inv_heartbeat hk h s hc _ _ _ _ (hb_updateVolumes hk s st.toCore actual h.regKey hv)
  · have : st.conn s = false := by simpa using hc
    simp [syncFull, this]; exact h

/-- Topology.IncrementalSyncDataNodeRegistration -/
theorem inv_inc {keyOf : Nat → Key} (hk : ∀ vid, (keyOf vid).disk < 2) {st : St} (h : Inv keyOf st) (s : Nat)
    (news dels : List VInfo) (hv : ∀ v ∈ news ++ dels, VOk keyOf st.toCore v)
    (hdis : ∀ d ∈ dels, ∀ n ∈ news, d.id ≠ n.id) : Inv keyOf (syncInc st s news dels) := by
  by_cases hc : st.conn s = true
  · rw [syncInc_eq st s news dels hc]
    exact inv_heartbeat hk h s hc _ _ _ _ (hb_deltaUpdateVolumes s st.toCore news dels h.regKey hv hdis)
  · have : st.conn s = false := by simpa using hc
    simp [syncInc, this]; exact h

/-- the invariant only reads the registered volumes, the connection flags, the layouts and the writables -/
theorem inv_frame {keyOf : Nat → Key} {st st' : St} (h : Inv keyOf st) (h1 : st'.vols = st.vols) (h2 : st'.conn = st.conn)
    (h3 : st'.nVid = st.nVid) (h4 : st'.locs = st.locs) (h5 : st'.wr = st.wr) (h6 : st'.asMin = st.asMin)
    (h7 : ∀ k, k ∈ st.keys → k ∈ st'.keys) : Inv keyOf st' := by
  have hll : ∀ k vid, locList st' k vid = locList st k vid := by intro k vid; unfold locList; rw [h4]
  refine ⟨?_, ?_, ?_, ?_, ?_, ?_, ?_⟩
  · intro k
    rw [h5]
    exact ⟨(h.winv k).1, fun vid hv => (Q_congr_vols k vid (by rw [h4]) h1 h6).mpr ((h.winv k).2 vid hv)⟩
  · rw [h5]; exact h.wrKey
  · intro s t x v hv
    have : st.vols s t x = some v := by rw [← h1]; exact hv
    have := h.regKey s t x v this
    exact ⟨this.1, this.2.1, this.2.2.1, by show x < st'.nVid + 1; rw [h3]; exact this.2.2.2⟩
  · intro vid s; rw [hll, h2, h1]; exact h.locs_iff vid s
  · rw [h4]; exact h.other
  · intro vid; rw [hll]; exact h.nodup vid
  · intro k vid hne; rw [h4] at hne; exact h7 k (h.keys k vid hne)

/-! ### operations that do not touch volumes or layouts: max counts, EC heartbeats -/

/-- the part of the DataNode side the invariant reads -/
def CSame (c' c : Core) : Prop := c'.vols = c.vols ∧ c'.conn = c.conn ∧ c'.nVid = c.nVid

theorem CSame.trans {a b c : Core} (h1 : CSame a b) (h2 : CSame b c) : CSame a c :=
  ⟨h1.1.trans h2.1, h1.2.1.trans h2.2.1, h1.2.2.trans h2.2.2⟩

theorem csame_foldl {α : Type} (f : Core → α → Core) (hf : ∀ c a, CSame (f c a) c) (l : List α) (c : Core) :
    CSame (l.foldl f c) c := by
  induction l generalizing c with
  | nil => exact ⟨rfl, rfl, rfl⟩
  | cons a l ih => simp only [List.foldl_cons]; exact (ih _).trans (hf c a)

theorem csame_foldl_prod {α β : Type} (f : Core × β → α → Core × β) (hf : ∀ acc a, CSame (f acc a).1 acc.1) (l : List α)
    (acc : Core × β) : CSame (l.foldl f acc).1 acc.1 := by
  induction l generalizing acc with
  | nil => exact ⟨rfl, rfl, rfl⟩
  | cons a l ih => simp only [List.foldl_cons]; exact (ih _).trans (hf acc a)

theorem csame_adjustMax (c : Core) (s mh ms : Nat) : CSame (c.adjustMax s mh ms) c := by
  have h1 : ∀ (c : Core) t m, CSame (c.adjustMax1 s t m) c := by
    intro c t m; unfold Core.adjustMax1; split
    · exact ⟨rfl, rfl, rfl⟩
    · split <;> exact ⟨rfl, rfl, rfl⟩
  unfold Core.adjustMax
  split
  · exact (h1 _ _ _).trans (h1 _ _ _)
  · exact ⟨rfl, rfl, rfl⟩

theorem csame_updateEcShards (c : Core) (s : Nat) (actual : List EcInfo) : CSame (c.updateEcShards s actual).1 c := by
  have l1 := csame_foldl_prod (Core.ecStep1 s actual)
    (by intro acc e; unfold Core.ecStep1; split <;> exact ⟨rfl, rfl, rfl⟩) (c.ecOf s) (c, [], [])
  have l2 := csame_foldl_prod (Core.ecStep2 c s)
    (by intro acc e; unfold Core.ecStep2; split <;> exact ⟨rfl, rfl, rfl⟩) actual
    ((List.foldl (Core.ecStep1 s actual) (c, [], []) (c.ecOf s)).1, (List.foldl (Core.ecStep1 s actual) (c, [], []) (c.ecOf s)).2.1)
  unfold Core.updateEcShards
  simp only []
  split
  · exact l2.trans l1
  · exact ((csame_foldl (Core.ecStore s) (fun _ _ => ⟨rfl, rfl, rfl⟩) actual _).trans ⟨rfl, rfl, rfl⟩).trans (l2.trans l1)

theorem csame_deltaUpdateEcShards (c : Core) (s : Nat) (news dels : List EcInfo) :
    CSame (c.deltaUpdateEcShards s news dels) c := by
  unfold Core.deltaUpdateEcShards
  refine (csame_foldl _ ?_ dels _).trans (csame_foldl _ ?_ news c)
  · intro c e; simp only [Core.delEc]; split <;> exact ⟨rfl, rfl, rfl⟩
  · intro c e; exact ⟨rfl, rfl, rfl⟩

/-- the part of the layout side the invariant reads -/
def LSame (st' st : St) : Prop :=
  st'.toCore = st.toCore ∧ st'.locs = st.locs ∧ st'.wr = st.wr ∧ st'.asMin = st.asMin ∧ st'.keys = st.keys

theorem lsame_foldl {α : Type} (f : St → α → St) (hf : ∀ st a, LSame (f st a) st) (l : List α) (st : St) :
    LSame (l.foldl f st) st := by
  induction l generalizing st with
  | nil => exact ⟨rfl, rfl, rfl, rfl, rfl⟩
  | cons a l ih =>
    simp only [List.foldl_cons]
    have h1 := ih (f st a)
    have h2 := hf st a
    exact ⟨h1.1.trans h2.1, h1.2.1.trans h2.2.1, h1.2.2.1.trans h2.2.2.1, h1.2.2.2.1.trans h2.2.2.2.1,
      h1.2.2.2.2.trans h2.2.2.2.2⟩

theorem lsame_registerEc (st : St) (vid bits s : Nat) : LSame (registerEc st vid bits s) st := by
  unfold registerEc; apply lsame_foldl; intro _ _; exact ⟨rfl, rfl, rfl, rfl, rfl⟩
theorem lsame_unregisterEc (st : St) (vid bits s : Nat) : LSame (unregisterEc st vid bits s) st := by
  unfold unregisterEc; apply lsame_foldl; intro _ _; exact ⟨rfl, rfl, rfl, rfl, rfl⟩

theorem inv_of_same {keyOf : Nat → Key} {st : St} (h : Inv keyOf st) (c' : Core) (hc : CSame c' st.toCore) (st' : St)
    (hl : LSame st' { st with toCore := c' }) : Inv keyOf st' := by
  obtain ⟨l1, l2, l3, l4, l5⟩ := hl
  refine inv_frame h ?_ ?_ ?_ l2 l3 l4 (fun k hk => by rw [l5]; exact hk)
  · show st'.toCore.vols = _; rw [l1]; exact hc.1
  · show st'.toCore.conn = _; rw [l1]; exact hc.2.1
  · show st'.toCore.nVid = _; rw [l1]; exact hc.2.2

theorem inv_max {keyOf : Nat → Key} {st : St} (h : Inv keyOf st) (s mh ms : Nat) : Inv keyOf (adjustMax st s mh ms) :=
  inv_of_same h _ (csame_adjustMax st.toCore s mh ms) _ ⟨rfl, rfl, rfl, rfl, rfl⟩

theorem inv_ecfull {keyOf : Nat → Key} {st : St} (h : Inv keyOf st) (s : Nat) (es : List EcInfo) :
    Inv keyOf (syncEcFull st s es) := by
  unfold syncEcFull
  split
  · exact h
  · refine inv_of_same h _ (csame_updateEcShards st.toCore s es) _ ?_
    have a := lsame_foldl (fun st e => registerEc st e.1 e.2 s) (fun st e => lsame_registerEc st e.1 e.2 s)
      (st.toCore.updateEcShards s es).2.1 { st with toCore := (st.toCore.updateEcShards s es).1 }
    have b := lsame_foldl (fun st e => unregisterEc st e.1 e.2 s) (fun st e => lsame_unregisterEc st e.1 e.2 s)
      (st.toCore.updateEcShards s es).2.2
      ((st.toCore.updateEcShards s es).2.1.foldl (fun st e => registerEc st e.1 e.2 s) { st with toCore := (st.toCore.updateEcShards s es).1 })
    exact ⟨b.1.trans a.1, b.2.1.trans a.2.1, b.2.2.1.trans a.2.2.1, b.2.2.2.1.trans a.2.2.2.1, b.2.2.2.2.trans a.2.2.2.2⟩

theorem inv_ecinc {keyOf : Nat → Key} {st : St} (h : Inv keyOf st) (s : Nat) (ns ds : List EcInfo) :
    Inv keyOf (syncEcInc st s ns ds) := by
  unfold syncEcInc
  split
  · exact h
  · refine inv_of_same h _ (csame_deltaUpdateEcShards st.toCore s ns ds) _ ?_
    have a := lsame_foldl (fun st e => registerEc st e.id e.bits s) (fun st e => lsame_registerEc st e.id e.bits s)
      ns { st with toCore := st.toCore.deltaUpdateEcShards s ns ds }
    have b := lsame_foldl (fun st e => unregisterEc st e.id e.bits s) (fun st e => lsame_unregisterEc st e.id e.bits s)
      ds (ns.foldl (fun st e => registerEc st e.id e.bits s) { st with toCore := st.toCore.deltaUpdateEcShards s ns ds })
    exact ⟨b.1.trans a.1, b.2.1.trans a.2.1, b.2.2.1.trans a.2.2.1, b.2.2.2.1.trans a.2.2.2.1, b.2.2.2.2.trans a.2.2.2.2⟩

/-! ### connect -/

theorem Q_congr_on {st st' : St} (k : Key) (vid : Nat) (h1 : st'.locs k vid = st.locs k vid) (h3 : st'.asMin = st.asMin)
    (h2 : ∀ dn, dn ∈ locList st k vid → ∀ t, st'.vols dn t vid = st.vols dn t vid) : Q st' k vid ↔ Q st k vid := by
  have hl : locList st' k vid = locList st k vid := by unfold locList; rw [h1]
  have hv : ∀ dn, dn ∈ locList st k vid → volOf st' dn vid = volOf st dn vid := by
    intro dn hdn
    unfold volOf Core.volOf
    have a := h2 dn hdn 0
    have b := h2 dn hdn 1
    have a' : st'.toCore.vols dn 0 vid = st.toCore.vols dn 0 vid := a
    have b' : st'.toCore.vols dn 1 vid = st.toCore.vols dn 1 vid := b
    rw [a', b']
  unfold Q enoughCopies isAllWritable
  rw [hl, h3]
  constructor
  · intro ⟨a, b⟩
    refine ⟨a, ?_⟩
    rw [List.all_eq_true] at b ⊢
    intro dn hdn; rw [← hv dn hdn]; exact b dn hdn
  · intro ⟨a, b⟩
    refine ⟨a, ?_⟩
    rw [List.all_eq_true] at b ⊢
    intro dn hdn; rw [hv dn hdn]; exact b dn hdn

theorem connect_fields (c : Core) (s dc rack mh ms : Nat) (hc : c.conn s = false) :
    (c.connect s dc rack mh ms).conn = upd1 c.conn s true ∧
    (c.connect s dc rack mh ms).vols = (fun x => if x = s then fun _ _ => none else c.vols x) ∧
    (c.connect s dc rack mh ms).nVid = c.nVid := by
  unfold Core.connect
  simp only [hc, Bool.false_eq_true, if_false]
  split <;> exact ⟨rfl, rfl, rfl⟩

/-- a (re)connecting server starts from an empty DataNode -/
theorem inv_conn {keyOf : Nat → Key} {st : St} (h : Inv keyOf st) (s dc rack mh ms : Nat) :
    Inv keyOf (conn st s dc rack mh ms) := by
  by_cases hc : st.conn s = true
  · have : conn st s dc rack mh ms = st := by
      unfold SwV.Model.C11.conn Core.connect
      have hc' : st.toCore.conn s = true := hc
      simp [hc']
    rw [this]; exact h
  · have hc : st.conn s = false := by simpa using hc
    obtain ⟨f1, f2, f3⟩ := connect_fields st.toCore s dc rack mh ms hc
    have g1 : (conn st s dc rack mh ms).conn = upd1 st.conn s true := f1
    have g2 : (conn st s dc rack mh ms).vols = (fun x => if x = s then fun _ _ => none else st.vols x) := f2
    have hnot : ∀ vid, s ∉ locList st (keyOf vid) vid := by
      intro vid hm
      have := ((h.locs_iff vid s).mp hm).1
      rw [hc] at this; cases this
    have hll : ∀ k vid, locList (conn st s dc rack mh ms) k vid = locList st k vid := fun _ _ => rfl
    refine ⟨?_, h.wrKey, ?_, ?_, h.other, h.nodup, h.keys⟩
    · intro k
      refine ⟨(h.winv k).1, fun vid hv => ?_⟩
      have hk := h.wrKey k vid hv
      subst hk
      refine (Q_congr_on (st := st) (st' := conn st s dc rack mh ms) (keyOf vid) vid rfl rfl ?_).mpr ((h.winv _).2 vid hv)
      intro dn hdn t
      have : dn ≠ s := fun e => hnot vid (e ▸ hdn)
      simp [g2, this]
    · intro s' t x v hv
      have hv' : (conn st s dc rack mh ms).vols s' t x = some v := hv
      rw [g2] at hv'
      by_cases e : s' = s
      · simp [e] at hv'
      · simp only [e, if_false] at hv'
        have := h.regKey s' t x v hv'
        exact ⟨this.1, this.2.1, this.2.2.1, by show x < (st.toCore.connect s dc rack mh ms).nVid + 1; rw [f3]; exact this.2.2.2⟩
    · intro vid s'
      rw [hll, g1, g2]
      by_cases e : s' = s
      · subst e
        simp only [if_true, Option.isSome_none, Bool.false_eq_true, and_false, iff_false]
        exact hnot vid
      · simp only [upd1, e, if_false]
        exact h.locs_iff vid s'

/-! ### disconnect (UnRegisterDataNode) -/

theorem touchKey_withCore (st : St) (c : Core) (k : Key) :
    touchKey { st with toCore := c } k = { touchKey st k with toCore := c } := by
  unfold touchKey
  by_cases hk : k ∈ st.keys
  · simp [hk]
  · simp [hk]

/-- SetVolumeUnavailable never reads the DataNode side -/
theorem setUnavailable_withCore (st : St) (c : Core) (v : VInfo) (s : Nat) :
    setUnavailable { st with toCore := c } v s = { setUnavailable st v s with toCore := c } := by
  simp only [setUnavailable, touchKey_withCore]
  cases h : (touchKey st v.key).locs v.key v.id with
  | none => simp
  | some l =>
    dsimp only
    by_cases hc : l.contains s = true
    · by_cases hl : (l.erase s).length < copyCount v.key.rp
      · simp only [hc, hl, if_true, removeWritable]
      · simp only [hc, hl, if_true, if_false]
    · simp only [hc, Bool.false_eq_true, if_false]

theorem foldl_unavail_withCore (s : Nat) (l : List VInfo) (st : St) (c : Core) :
    l.foldl (fun st v => setUnavailable st v s) { st with toCore := c } =
      { l.foldl (fun st v => setUnavailable st v s) st with toCore := c } := by
  induction l generalizing st with
  | nil => rfl
  | cons a l ih => simp only [List.foldl_cons]; rw [setUnavailable_withCore, ih]

theorem foldl_unavail_core (s : Nat) (l : List VInfo) (st : St) :
    (l.foldl (fun st v => setUnavailable st v s) st).toCore = st.toCore := by
  induction l generalizing st with
  | nil => rfl
  | cons a l ih => simp only [List.foldl_cons]; rw [ih, setUnavailable_toCore]

/-- SetVolumeUnavailable for a volume of a server that is no longer connected -/
theorem invP_unavailable {keyOf : Nat → Key} {s : Nat} {PL PQ : Nat → Prop} {st : St}
    (h : InvP keyOf s PL PQ st) (v : VInfo) (hkey : v.key = keyOf v.id) (hdisc : st.conn s = false) :
    InvP keyOf s (fun x => PL x ∧ x ≠ v.id) PQ (setUnavailable st v s) := by
  obtain ⟨t1, t2, t3, t4, _, _⟩ := touchKey_wr st v.key
  have mk := mem_touchKey st v.key
  have caseA : s ∉ locList st v.key v.id → InvP keyOf s (fun x => PL x ∧ x ≠ v.id) PQ (touchKey st v.key) := by
    intro hs
    have hll : locList (touchKey st v.key) v.key v.id = locList st v.key v.id := by unfold locList; rw [t2]
    apply invP_transfer h v.id v.key hkey t3 t4
    · intro k vid _; rw [t2]
    · exact mk.2
    · intro _; exact mk.1
    · rw [t1]; exact h.wnodup
    · intro k x hx _; rw [t1] at hx; exact hx
    · intro k hx; rw [t1] at hx; rw [h.wrKey k _ hx, hkey]
    · intro hx hq; rw [t1] at hx
      exact (Q_congr_vols v.key v.id (by rw [t2]) (congrArg Core.vols t3) t4).mpr (h.wq _ _ hx hq)
    · intro s' _; rw [hll]
    · rw [hll, hkey]; exact h.nodup v.id
    · intro _; rw [hll, hdisc]; simp [hs]
    · intro x hne hp hq; exact hp ⟨hq, hne⟩
    · intro x _ hp; exact hp
  simp only [setUnavailable]
  split
  · next hnone =>
    apply caseA
    unfold locList; rw [← t2, hnone]; simp
  · next l hl =>
    have hl' : locList st v.key v.id = l := by unfold locList; rw [← t2, hl]; rfl
    split
    · next hcont =>
      have hmem : s ∈ l := by simpa using hcont
      have hnd : l.Nodup := by rw [← hl', hkey]; exact h.nodup v.id
      have hnot : s ∉ l.erase s := fun hh => ((List.Nodup.mem_erase_iff hnd).mp hh).1 rfl
      have key : ∀ st' : St, st'.toCore = st.toCore → st'.asMin = st.asMin → st'.keys = (touchKey st v.key).keys →
          st'.locs = updK2 st.locs v.key v.id (some (l.erase s)) →
          (∀ k', (st'.wr k').Nodup) → (∀ k' x, x ∈ st'.wr k' → x ∈ st.wr k') →
          (v.id ∈ st'.wr v.key → copyCount v.key.rp ≤ (l.erase s).length) →
          InvP keyOf s (fun x => PL x ∧ x ≠ v.id) PQ st' := by
        intro st' c1 c2 c3 c4 c6 c7 c8
        have c5 : locList st' v.key v.id = l.erase s := by unfold locList; rw [c4]; simp [updK2]
        apply invP_transfer h v.id v.key hkey c1 c2
        · intro k vid hne; rw [c4]; simp [updK2, hne]
        · intro k hk; rw [c3]; exact mk.2 k hk
        · intro _; rw [c3]; exact mk.1
        · exact c6
        · intro k x hx _; exact c7 k x hx
        · intro k hx; rw [h.wrKey k _ (c7 k _ hx), hkey]
        · intro hx hpq
          have hq := h.wq v.key v.id (c7 _ _ hx) hpq
          have hlen := c8 hx
          have hlen' : (l.erase s).length = l.length - 1 := List.length_erase_of_mem hmem
          obtain ⟨q1, q2⟩ := hq
          constructor
          · unfold enoughCopies at q1 ⊢
            rw [c5, c2]
            rw [hl'] at q1
            simp only [Bool.or_eq_true, beq_iff_eq, Bool.and_eq_true, decide_eq_true_eq] at q1 ⊢
            rcases q1 with q1 | q1
            · omega
            · by_cases e : (l.erase s).length = copyCount v.key.rp
              · exact Or.inl e
              · exact Or.inr ⟨q1.1, by omega⟩
          · unfold isAllWritable at q2 ⊢
            rw [c5]
            rw [hl'] at q2
            rw [List.all_eq_true] at q2 ⊢
            intro dn hdn
            have := q2 dn (List.mem_of_mem_erase hdn)
            unfold volOf at this ⊢
            rw [c1]; exact this
        · intro s' hs'; rw [c5, hl']; exact List.mem_erase_of_ne hs'
        · rw [c5]; exact hnd.erase s
        · intro _; rw [c5, hdisc]; simp [hnot]
        · intro x hne hp hq; exact hp ⟨hq, hne⟩
        · intro x _ hp; exact hp
      split
      · next hlt =>
        apply key
        · exact t3
        · exact t4
        · rfl
        · show updK2 (touchKey st v.key).locs v.key v.id (some (l.erase s)) = _; rw [t2]
        · intro k'
          show (updK (touchKey st v.key).wr v.key (((touchKey st v.key).wr v.key).erase v.id) k').Nodup
          rw [t1]; unfold updK; split
          · next e => subst e; exact (h.wnodup _).erase _
          · exact h.wnodup k'
        · intro k' x hx
          have hx' : x ∈ updK (touchKey st v.key).wr v.key (((touchKey st v.key).wr v.key).erase v.id) k' := hx
          rw [t1] at hx'; unfold updK at hx'; split at hx'
          · next e => subst e; exact List.mem_of_mem_erase hx'
          · exact hx'
        · intro hx
          have hx' : v.id ∈ updK (touchKey st v.key).wr v.key (((touchKey st v.key).wr v.key).erase v.id) v.key := hx
          rw [t1] at hx'; simp only [updK, if_true] at hx'
          exact absurd rfl ((List.Nodup.mem_erase_iff (h.wnodup _)).mp hx').1
      · next hge =>
        apply key
        · exact t3
        · exact t4
        · rfl
        · show updK2 (touchKey st v.key).locs v.key v.id (some (l.erase s)) = _; rw [t2]
        · intro k'; show ((touchKey st v.key).wr k').Nodup; rw [t1]; exact h.wnodup k'
        · intro k' x hx
          have hx' : x ∈ (touchKey st v.key).wr k' := hx
          rw [t1] at hx'; exact hx'
        · intro _; omega
    · next hcont =>
      apply caseA
      rw [hl']; simpa using hcont

theorem invP_unavails {keyOf : Nat → Key} {s : Nat} (l : List VInfo) : ∀ (st : St) (PL : Nat → Prop),
    InvP keyOf s PL (fun _ => False) st → st.conn s = false → (∀ v ∈ l, v.key = keyOf v.id) →
    (∀ x, PL x → ∃ v ∈ l, v.id = x) → Inv keyOf (l.foldl (fun st v => setUnavailable st v s) st) := by
  induction l with
  | nil =>
    intro st PL h _ _ hl
    exact inv_of_invP h (fun x hx => by obtain ⟨_, hm, _⟩ := hl x hx; cases hm) (fun _ f => f)
  | cons a l ih =>
    intro st PL h hd hk hl
    simp only [List.foldl_cons]
    refine ih _ _ (invP_unavailable h a (hk a (by simp)) hd) ?_ (fun v hv => hk v (by simp [hv])) ?_
    · show (setUnavailable st a s).toCore.conn s = false
      rw [setUnavailable_toCore]; exact hd
    · intro x ⟨hx, hne⟩
      obtain ⟨v, hv, rfl⟩ := hl x hx
      rcases List.mem_cons.mp hv with rfl | hv
      · exact absurd rfl hne
      · exact ⟨v, hv, rfl⟩

theorem mem_volumesOf {keyOf : Nat → Key} (hk : ∀ vid, (keyOf vid).disk < 2) {c : Core} (hr : RegKey keyOf c) (s : Nat) :
    (∀ v ∈ c.volumesOf s, v.key = keyOf v.id) ∧
    (∀ x v, c.vols s (keyOf x).disk x = some v → v ∈ c.volumesOf s) := by
  constructor
  · intro v hv
    unfold Core.volumesOf at hv
    simp only [List.mem_flatMap, List.mem_filterMap, List.mem_range] at hv
    obtain ⟨t, _, x, _, hx⟩ := hv
    obtain ⟨_, e2, e3, _⟩ := hr s t x v hx
    rw [e3, e2]
  · intro x v hv
    unfold Core.volumesOf
    simp only [List.mem_flatMap, List.mem_filterMap, List.mem_range]
    exact ⟨(keyOf x).disk, hk x, x, (hr s _ x v hv).2.2.2, hv⟩

/-- Topology.UnRegisterDataNode -/
theorem inv_disc {keyOf : Nat → Key} (hk : ∀ vid, (keyOf vid).disk < 2) {st : St} (h : Inv keyOf st) (s : Nat) :
    Inv keyOf (disc st s) := by
  by_cases hc : st.conn s = true
  · have e : disc st s = (volumesOf st s).foldl (fun st v => setUnavailable st v s) { st with toCore := st.toCore.disconnect s } := by
      rw [foldl_unavail_withCore]
      simp only [disc, hc, Bool.not_true, Bool.false_eq_true, if_false]
      rw [foldl_unavail_core]
    rw [e]
    obtain ⟨m1, m2⟩ := mem_volumesOf hk h.regKey s
    have hvols : (st.toCore.disconnect s).vols = st.vols := rfl
    have hconn : (st.toCore.disconnect s).conn = upd1 st.conn s false := rfl
    refine invP_unavails (volumesOf st s) _ (fun x => s ∈ locList st (keyOf x) x) ?_ ?_ m1 ?_
    · refine ⟨fun k => (h.winv k).1, ?_, h.wrKey, ?_, ?_, h.other, h.nodup, h.keys⟩
      · intro k vid hv _
        exact (Q_congr_vols (st' := { st with toCore := st.toCore.disconnect s }) (st := st) k vid rfl hvols rfl).mpr ((h.winv k).2 vid hv)
      · intro s' t x v hv; exact h.regKey s' t x v hv
      · intro vid s' hcond
        show s' ∈ locList st (keyOf vid) vid ↔ ((st.toCore.disconnect s).conn s' = true ∧ ((st.toCore.disconnect s).vols s' (keyOf vid).disk vid).isSome = true)
        rw [hconn, hvols]
        by_cases es : s' = s
        · subst es
          rcases hcond with hh | hh
          · exact absurd rfl hh
          · simp [upd1, hh]
        · simp only [upd1, es, if_false]; exact h.locs_iff vid s'
    · show (st.toCore.disconnect s).conn s = false
      rw [hconn]; simp [upd1]
    · intro x hx
      have := ((h.locs_iff x s).mp hx).2
      cases hv : st.vols s (keyOf x).disk x with
      | none => rw [hv] at this; cases this
      | some v => exact ⟨v, m2 x v hv, (h.regKey s _ x v hv).2.1⟩
  · have : st.conn s = false := by simpa using hc
    simp [disc, this]; exact h

/-! ### the refresh round (SetVolumeCapacityFull) -/

theorem inv_capacityFull {keyOf : Nat → Key} {st : St} (h : Inv keyOf st) (k : Key) (vid : Nat) :
    Inv keyOf (removeWritable (touchKey st k) k vid) := by
  obtain ⟨t1, t2, t3, t4, _, _⟩ := touchKey_wr st k
  have mk := mem_touchKey st k
  have hsub : ∀ k' x, x ∈ (removeWritable (touchKey st k) k vid).wr k' → x ∈ st.wr k' := by
    intro k' x hx
    have hx' : x ∈ updK (touchKey st k).wr k (((touchKey st k).wr k).erase vid) k' := hx
    rw [t1] at hx'; unfold updK at hx'; split at hx'
    · next e => subst e; exact List.mem_of_mem_erase hx'
    · exact hx'
  have hll : ∀ k' x, locList (removeWritable (touchKey st k) k vid) k' x = locList st k' x := by
    intro k' x; show ((touchKey st k).locs k' x).getD [] = _; rw [t2]; rfl
  refine ⟨winv_removeWritable (winv_touchKey h.winv k) k vid, fun k' x hx => h.wrKey k' x (hsub k' x hx), ?_, ?_, ?_, ?_, ?_⟩
  · intro s t x v hv
    have : st.toCore.vols s t x = some v := by rw [← t3]; exact hv
    have r := h.regKey s t x v this
    exact ⟨r.1, r.2.1, r.2.2.1, by show x < (touchKey st k).toCore.nVid + 1; rw [t3]; exact r.2.2.2⟩
  · intro x s
    rw [hll]
    show _ ↔ ((touchKey st k).toCore.conn s = true ∧ ((touchKey st k).toCore.vols s (keyOf x).disk x).isSome = true)
    rw [t3]; exact h.locs_iff x s
  · intro k' x hne; show (touchKey st k).locs k' x = none; rw [t2]; exact h.other k' x hne
  · intro x; rw [hll]; exact h.nodup x
  · intro k' x hne
    have : st.locs k' x ≠ none := by rw [← t2]; exact hne
    exact mk.2 k' (h.keys k' x this)

theorem foldl_inv_st {α : Type} (P : St → Prop) (f : St → α → St) (hf : ∀ st a, P st → P (f st a)) (l : List α) (st : St)
    (h : P st) : P (l.foldl f st) := by
  induction l generalizing st with
  | nil => exact h
  | cons a l ih => simp only [List.foldl_cons]; exact ih _ (hf st a h)

theorem inv_refresh {keyOf : Nat → Key} {st : St} (h : Inv keyOf st) (n : Nat) : Inv keyOf (refresh st n) := by
  unfold refresh
  refine foldl_inv_st (Inv keyOf) _ ?_ _ _ h
  intro st' s h'
  split
  · refine foldl_inv_st (Inv keyOf) _ ?_ _ _ h'
    intro st'' v h''
    split
    · exact inv_capacityFull h'' v.key v.id
    · exact h''
  · exact h'

/-! ## the main theorems -/

/-- well-formed operation: the volume messages carry ids in the modelled range and the attributes
    (collection, replication, ttl, disk type = the layout key) that belong to the volume id; one incremental
    message does not announce and delete the same volume.  (Nothing is asked of stale, repeated, reordered
    or contradicting messages, of EC messages, connects, disconnects or refresh rounds.) -/
def OpWf (keyOf : Nat → Key) (c : Core) : Op → Prop
  | .full _ vs => ∀ v ∈ vs, VOk keyOf c v
  | .inc _ ns ds => (∀ v ∈ ns ++ ds, VOk keyOf c v) ∧ ∀ d ∈ ds, ∀ n ∈ ns, d.id ≠ n.id
  | _ => True

def OpsWf (keyOf : Nat → Key) (st : St) : List Op → Prop
  | [] => True
  | op :: ops => OpWf keyOf st.toCore op ∧ OpsWf keyOf (step st op) ops

/-- every top-level operation of the model keeps the invariant -/
theorem inv_step {keyOf : Nat → Key} (hk : ∀ vid, (keyOf vid).disk < 2) {st : St} (h : Inv keyOf st) (op : Op)
    (hop : OpWf keyOf st.toCore op) : Inv keyOf (step st op) := by
  cases op with
  | conn s dc rack mh ms => exact inv_conn h s dc rack mh ms
  | max s mh ms => exact inv_max h s mh ms
  | full s vs => exact inv_full hk h s vs hop
  | inc s ns ds => exact inv_inc hk h s ns ds hop.1 hop.2
  | ecfull s es => exact inv_ecfull h s es
  | ecinc s ns ds => exact inv_ecinc h s ns ds
  | disc s => exact inv_disc hk h s
  | refresh => exact inv_refresh h maxSrv

theorem inv_init (keyOf : Nat → Key) (limit : Nat) (asMin : Bool) (nVid : Nat) : Inv keyOf (init limit asMin nVid) := by
  refine ⟨winv_init limit asMin nVid, ?_, ?_, ?_, ?_, ?_, ?_⟩
  · intro k vid hv; simp [init] at hv
  · intro s t x v hv; simp [init] at hv
  · intro vid s; simp [init, locList]
  · intro k vid _; rfl
  · intro vid; simp [init, locList]
  · intro k vid hne; exact absurd rfl hne

theorem inv_run {keyOf : Nat → Key} (hk : ∀ vid, (keyOf vid).disk < 2) {st : St} (h : Inv keyOf st) (ops : List Op)
    (hops : OpsWf keyOf st ops) : Inv keyOf (run st ops) := by
  induction ops generalizing st with
  | nil => exact h
  | cons op ops ih =>
    simp only [run, List.foldl_cons]
    exact ih (inv_step hk h op hops.1) hops.2

theorem opsWf_take {keyOf : Nat → Key} {st : St} (ops : List Op) (n : Nat) (h : OpsWf keyOf st ops) :
    OpsWf keyOf st (ops.take n) := by
  induction ops generalizing st n with
  | nil => simp [OpsWf]
  | cons op ops ih =>
    cases n with
    | zero => simp [OpsWf]
    | succ n => exact ⟨h.1, ih n h.2⟩

/-- C11, main theorem, part 1 (`writable_ok` lifted to the real step function): after EVERY operation of
    ANY well-formed sequence of the model's top-level operations — connects / reconnects, max-count
    changes, full and incremental volume heartbeats (read-only flips, size reports, stale, repeated and
    contradicting messages included), full and incremental EC heartbeats, disconnects, refresh rounds —
    every volume id in a writables slice has the number of locations its replication asks for (or more
    under replication-as-minimum) and every located replica is registered writable.  No hypothesis beyond
    well-formedness is needed: none of the open findings concerns these two conjuncts.
    (The third conjunct, "below the size limit", is false of the code — `full_volume_offered_again` —
    and holds in the form `refresh_removes_full` below.) -/
theorem writable_inv_run (keyOf : Nat → Key) (hk : ∀ vid, (keyOf vid).disk < 2) (limit : Nat) (asMin : Bool) (nVid : Nat)
    (ops : List Op) (hops : OpsWf keyOf (init limit asMin nVid) ops) (n : Nat) :
    WritableOk (run (init limit asMin nVid) (ops.take n)) :=
  winv_writableOk (inv_run hk (inv_init keyOf limit asMin nVid) _ (opsWf_take ops n hops)).winv

/-- C11, main theorem, part 2 (`lookup_exact`, layout level): after every operation the location list
    of a volume id in its layout is exactly the set of connected servers that have the volume registered -/
theorem lookup_exact_run (keyOf : Nat → Key) (hk : ∀ vid, (keyOf vid).disk < 2) (limit : Nat) (asMin : Bool) (nVid : Nat)
    (ops : List Op) (hops : OpsWf keyOf (init limit asMin nVid) ops) (n : Nat) :
    LookupExact (run (init limit asMin nVid) (ops.take n)) keyOf := by
  have h := inv_run hk (inv_init keyOf limit asMin nVid) _ (opsWf_take ops n hops)
  intro vid s
  rw [h.locs_iff vid s]
  have : volOf (run (init limit asMin nVid) (ops.take n)) s vid =
      (run (init limit asMin nVid) (ops.take n)).vols s (keyOf vid).disk vid := volOf_eq hk h.regKey s vid
  rw [this]
  constructor
  · intro ⟨a, b⟩; exact ⟨a, Option.isSome_iff_exists.mp b⟩
  · intro ⟨a, b⟩; exact ⟨a, Option.isSome_iff_exists.mpr b⟩

/-! ### Topology.Lookup -/

theorem findSome_unique {α β : Type} (f : α → Option β) (l : List α) (k0 : α) (b : β)
    (h1 : ∀ k ∈ l, k ≠ k0 → f k = none) (h2 : k0 ∈ l) (h3 : f k0 = some b) : l.findSome? f = some b := by
  induction l with
  | nil => cases h2
  | cons a l ih =>
    simp only [List.findSome?_cons]
    by_cases e : a = k0
    · subst e; rw [h3]
    · rw [h1 a (by simp) e]
      rcases List.mem_cons.mp h2 with h | h
      · exact absurd h.symm e
      · exact ih (fun k hk => h1 k (by simp [hk])) h

theorem findSome_none {α β : Type} (f : α → Option β) (l : List α) (h1 : ∀ k ∈ l, f k = none) : l.findSome? f = none := by
  induction l with
  | nil => rfl
  | cons a l ih =>
    simp only [List.findSome?_cons]
    rw [h1 a (by simp)]
    exact ih (fun k hk => h1 k (by simp [hk]))

/-- `Topology.Lookup` under the invariant: a volume id that has an entry in its layout is answered with
    exactly the connected servers it is registered on (an EMPTY entry — left behind by
    SetVolumeUnavailable — included: it answers "nowhere", which is exact for the normal volume and hides
    EC shards, the open finding SetVolumeUnavailable/empty-location-list-hides-ec-shards); a volume id
    without an entry is registered nowhere as a normal volume and is answered from the EC shard map
    (whose exactness fails by the open finding UnRegisterDataNode/ec-shards-of-disconnected-server-stay-in-lookup;
    with that finding excluded it is proved in `lookup_exact_all_partial`) -/
theorem lookup_exact_of_inv {keyOf : Nat → Key} (hk : ∀ vid, (keyOf vid).disk < 2) {st : St} (h : Inv keyOf st) (vid : Nat) :
    (st.locs (keyOf vid) vid ≠ none →
      ∀ s, s ∈ lookup st vid ↔ (st.conn s = true ∧ ∃ v, volOf st s vid = some v)) ∧
    (st.locs (keyOf vid) vid = none →
      lookup st vid = (List.range 14).flatMap (fun sh => st.ecLoc vid sh) ∧
      ∀ s, ¬ (st.conn s = true ∧ ∃ v, volOf st s vid = some v)) := by
  have hvol : ∀ s, volOf st s vid = st.vols s (keyOf vid).disk vid := fun s => volOf_eq hk h.regKey s vid
  constructor
  · intro hne s
    cases hl : st.locs (keyOf vid) vid with
    | none => exact absurd hl hne
    | some l =>
      have : lookup st vid = l := by
        unfold lookup
        rw [findSome_unique (fun k => st.locs k vid) st.keys (keyOf vid) l
          (fun k _ hk' => h.other k vid hk') (h.keys _ vid hne) hl]
      rw [this, hvol]
      have := h.locs_iff vid s
      unfold locList at this
      rw [hl] at this
      rw [show s ∈ l ↔ s ∈ (some l).getD [] from Iff.rfl, this]
      constructor
      · intro ⟨a, b⟩; exact ⟨a, Option.isSome_iff_exists.mp b⟩
      · intro ⟨a, b⟩; exact ⟨a, Option.isSome_iff_exists.mpr b⟩
  · intro hnone
    constructor
    · unfold lookup
      rw [findSome_none (fun k => st.locs k vid) st.keys]
      intro k _
      by_cases e : k = keyOf vid
      · subst e; exact hnone
      · exact h.other k vid e
    · intro s ⟨a, b⟩
      rw [hvol] at b
      have := (h.locs_iff vid s).mpr ⟨a, Option.isSome_iff_exists.mpr b⟩
      unfold locList at this
      rw [hnone] at this
      simp at this

/-- C11, main theorem, part 2 for `Topology.Lookup` itself, after every operation of every well-formed sequence -/
theorem lookup_exact_partial (keyOf : Nat → Key) (hk : ∀ vid, (keyOf vid).disk < 2) (limit : Nat) (asMin : Bool) (nVid : Nat)
    (ops : List Op) (hops : OpsWf keyOf (init limit asMin nVid) ops) (n : Nat) (vid : Nat) :
    let st := run (init limit asMin nVid) (ops.take n)
    (st.locs (keyOf vid) vid ≠ none →
      ∀ s, s ∈ lookup st vid ↔ (st.conn s = true ∧ ∃ v, volOf st s vid = some v)) ∧
    (st.locs (keyOf vid) vid = none →
      lookup st vid = (List.range 14).flatMap (fun sh => st.ecLoc vid sh) ∧
      ∀ s, ¬ (st.conn s = true ∧ ∃ v, volOf st s vid = some v)) :=
  lookup_exact_of_inv hk (inv_run hk (inv_init keyOf limit asMin nVid) _ (opsWf_take ops n hops)) vid

/-! ## the size-limit conjunct -/

theorem foldl_keep {α : Type} (f : St → α → St) (A G : St → Prop) (hA : ∀ st a, A st → A (f st a))
    (hG : ∀ st a, A st → G st → G (f st a)) (L : List α) (st : St) (h1 : A st) (h2 : G st) :
    A (L.foldl f st) ∧ G (L.foldl f st) := by
  induction L generalizing st with
  | nil => exact ⟨h1, h2⟩
  | cons a L ih => simp only [List.foldl_cons]; exact ih _ (hA st a h1) (hG st a h1 h2)

theorem foldl_hit {α : Type} (f : St → α → St) (A G : St → Prop) (hA : ∀ st a, A st → A (f st a))
    (hG : ∀ st a, A st → G st → G (f st a)) (a0 : α) (hit : ∀ st, A st → G (f st a0)) (L : List α) (st : St)
    (hm : a0 ∈ L) (h1 : A st) : A (L.foldl f st) ∧ G (L.foldl f st) := by
  induction L generalizing st with
  | nil => cases hm
  | cons a L ih =>
    simp only [List.foldl_cons]
    by_cases e : a0 = a
    · subst e
      exact foldl_keep f A G hA hG L _ (hA st a0 h1) (hit st h1)
    · rcases List.mem_cons.mp hm with h | h
      · exact absurd h e
      · exact ih _ h (hA st a h1)

/-- C11, size-limit conjunct, in the form the code guarantees it: right after a refresh round no volume
    that some connected server has registered at or over the size limit is offered for writes.  (Between
    refresh rounds the conjunct is false of the code: heartbeats do not look at sizes of known volumes, and
    ensureCorrectWritables re-offers a processed full volume — `full_volume_offered_again`, the open finding
    ensureCorrectWritables/full-volume-offered-again.) -/
theorem refresh_removes_full (st : St) (hn : ∀ k, (st.wr k).Nodup) (s : Nat) (hs : s < maxSrv) (hc : st.conn s = true)
    (v : VInfo) (hv : v ∈ volumesOf st s) (hfull : v.size ≥ st.limit) : v.id ∉ (refresh st maxSrv).wr v.key := by
  let A : St → Prop := fun st' => st'.toCore = st.toCore ∧ st'.limit = st.limit ∧ ∀ k, (st'.wr k).Nodup
  let G : St → Prop := fun st' => v.id ∉ st'.wr v.key
  -- one SetVolumeCapacityFull
  have wr_eq : ∀ (st' : St) (k : Key) (x : Nat), (removeWritable (touchKey st' k) k x).wr = updK st'.wr k ((st'.wr k).erase x) := by
    intro st' k x
    show updK (touchKey st' k).wr k (((touchKey st' k).wr k).erase x) = _
    rw [(touchKey_wr st' k).1]
  have gA : ∀ (st' : St) (a : VInfo), A st' →
      A (if a.size ≥ st'.limit then removeWritable (touchKey st' a.key) a.key a.id else st') := by
    intro st' a ⟨a1, a2, a3⟩
    split
    · refine ⟨(touchKey_wr st' a.key).2.2.1.trans a1, (touchKey_wr st' a.key).2.2.2.2.2.trans a2, ?_⟩
      intro k
      rw [wr_eq]; unfold updK; split
      · next e => subst e; exact (a3 _).erase _
      · exact a3 k
    · exact ⟨a1, a2, a3⟩
  have gG : ∀ (st' : St) (a : VInfo), A st' → G st' →
      G (if a.size ≥ st'.limit then removeWritable (touchKey st' a.key) a.key a.id else st') := by
    intro st' a _ hg
    split
    · intro hm
      rw [wr_eq] at hm; unfold updK at hm; split at hm
      · next e => rw [← e] at hm; exact hg (List.mem_of_mem_erase hm)
      · exact hg hm
    · exact hg
  have gHit : ∀ (st' : St), A st' →
      G (if v.size ≥ st'.limit then removeWritable (touchKey st' v.key) v.key v.id else st') := by
    intro st' ⟨_, a2, a3⟩
    rw [a2, if_pos hfull]
    intro hm
    rw [wr_eq] at hm; simp only [updK, if_true] at hm
    exact ((List.Nodup.mem_erase_iff (a3 _)).mp hm).1 rfl
  -- one server of the round
  have oA : ∀ (st' : St) (s' : Nat), A st' →
      A (if st'.conn s' = true then
          (volumesOf st' s').foldl (fun st v => if v.size ≥ st.limit then removeWritable (touchKey st v.key) v.key v.id else st) st'
         else st') := by
    intro st' s' ha
    split
    · exact (foldl_keep _ A (fun _ => True) gA (fun _ _ _ _ => trivial) _ _ ha trivial).1
    · exact ha
  have oG : ∀ (st' : St) (s' : Nat), A st' → G st' →
      G (if st'.conn s' = true then
          (volumesOf st' s').foldl (fun st v => if v.size ≥ st.limit then removeWritable (touchKey st v.key) v.key v.id else st) st'
         else st') := by
    intro st' s' ha hg
    split
    · exact (foldl_keep _ A G gA gG _ _ ha hg).2
    · exact hg
  have oHit : ∀ (st' : St), A st' →
      G (if st'.conn s = true then
          (volumesOf st' s).foldl (fun st v => if v.size ≥ st.limit then removeWritable (touchKey st v.key) v.key v.id else st) st'
         else st') := by
    intro st' ha
    have hc' : st'.conn s = true := by
      show st'.toCore.conn s = true; rw [ha.1]; exact hc
    have hv' : v ∈ volumesOf st' s := by
      show v ∈ st'.toCore.volumesOf s; rw [ha.1]; exact hv
    rw [if_pos hc']
    exact (foldl_hit _ A G gA gG v gHit _ _ hv' ha).2
  unfold refresh
  exact (foldl_hit _ A G oA oG s oHit (List.range maxSrv) st (List.mem_range.mpr hs) ⟨rfl, rfl, hn⟩).2

/-- after a refresh round of ANY well-formed history: no volume registered at or over the limit on a
    connected server is in the writables -/
theorem refresh_removes_full_run (keyOf : Nat → Key) (hk : ∀ vid, (keyOf vid).disk < 2) (limit : Nat) (asMin : Bool) (nVid : Nat)
    (ops : List Op) (hops : OpsWf keyOf (init limit asMin nVid) ops) (s : Nat) (hs : s < maxSrv)
    (hc : (run (init limit asMin nVid) ops).conn s = true) (v : VInfo)
    (hv : v ∈ volumesOf (run (init limit asMin nVid) ops) s) (hfull : v.size ≥ (run (init limit asMin nVid) ops).limit) :
    v.id ∉ (step (run (init limit asMin nVid) ops) .refresh).wr v.key := by
  have h := inv_run hk (inv_init keyOf limit asMin nVid) ops hops
  exact refresh_removes_full _ (fun k => (h.winv k).1) s hs hc v hv hfull

/-! ## the hypotheses are satisfiable -/

/-- a key assignment: collection and disk type by parity of the volume id, replication 000 -/
def exKey (vid : Nat) : Key := ⟨vid % 2, 0, 0, vid % 2⟩

theorem exKey_disk : ∀ vid, (exKey vid).disk < 2 := by
  intro vid; show vid % 2 < 2; omega

/-- a history with every kind of operation — a repeated "new" message, a stale delete for a volume that
    was never registered, a read-only flip, a volume that disappears from the full heartbeat, growth past the
    limit, EC messages, a refresh round, a disconnect and a reconnect elsewhere — is well-formed -/
def exOps : List Op :=
  [.conn 0 0 0 5 4, .conn 1 0 1 5 0, .max 0 7 9,
   .full 0 [⟨3, 10, false, false, exKey 3⟩, ⟨4, 20, false, false, exKey 4⟩],
   .inc 1 [⟨3, 0, false, false, exKey 3⟩] [],
   .inc 1 [⟨3, 0, false, false, exKey 3⟩] [],
   .inc 1 [] [⟨5, 0, false, false, exKey 5⟩],
   .full 0 [⟨3, 2000, true, false, exKey 3⟩],
   .ecinc 1 [⟨6, 0, 0, 7⟩] [], .ecfull 1 [⟨6, 0, 0, 3⟩],
   .refresh, .disc 0, .conn 0 1 1 5 0,
   .full 0 [⟨4, 20, false, false, exKey 4⟩], .inc 1 [] [⟨3, 0, false, false, exKey 3⟩]]

example : OpsWf exKey (init 1000 false 12) exOps := by
  simp only [exOps, OpsWf, OpWf, VOk]
  decide

/-- the conclusions at the end of that history, read off the theorems -/
example : WritableOk (run (init 1000 false 12) exOps) ∧ LookupExact (run (init 1000 false 12) exOps) exKey := by
  have hw : OpsWf exKey (init 1000 false 12) exOps := by
    simp only [exOps, OpsWf, OpWf, VOk]
    decide
  have h1 := writable_inv_run exKey exKey_disk 1000 false 12 exOps hw exOps.length
  have h2 := lookup_exact_run exKey exKey_disk 1000 false 12 exOps hw exOps.length
  rw [List.take_length] at h1 h2
  exact ⟨h1, h2⟩

/-- `refresh_removes_full` is not vacuous: a volume that grew past the limit while writable is still offered
    before the refresh round and no longer after it -/
example :
    let st := run (init 1000 false 12)
      [.conn 0 0 0 5 4, .full 0 [⟨4, 10, false, false, exKey 4⟩], .full 0 [⟨4, 2000, false, false, exKey 4⟩]]
    st.conn 0 = true ∧ (⟨4, 2000, false, false, exKey 4⟩ : VInfo) ∈ volumesOf st 0 ∧ 4 ∈ st.wr (exKey 4) ∧
      4 ∉ (step st .refresh).wr (exKey 4) := by decide


/-! ## the size-limit conjunct as an invariant, excluding the open finding -/

/-- some connected server has the volume registered at or over the size limit -/
def Full (st : St) (vid : Nat) : Prop :=
  ∃ s v, s < maxSrv ∧ st.conn s = true ∧ v ∈ volumesOf st s ∧ v.id = vid ∧ v.size ≥ st.limit

/-- the master state together with the set of volume ids the master "knows to be full": those the last
    refresh round saw full and that have been full ever since -/
def stepK (p : St × (Nat → Prop)) (op : Op) : St × (Nat → Prop) :=
  (step p.1 op,
   match op with
   | .refresh => Full (step p.1 op)
   | _ => fun vid => p.2 vid ∧ Full (step p.1 op) vid)

def runK (p : St × (Nat → Prop)) (ops : List Op) : St × (Nat → Prop) := ops.foldl stepK p

theorem runK_fst (p : St × (Nat → Prop)) (ops : List Op) : (runK p ops).1 = run p.1 ops := by
  induction ops generalizing p with
  | nil => rfl
  | cons op ops ih => simp only [runK, run, List.foldl_cons]; exact ih (stepK p op)

/-- the open finding ensureCorrectWritables/full-volume-offered-again, as a condition on one operation:
    the operation ADDS to some writables slice a volume that is registered at or over the size limit -/
def Reoffers (st : St) (op : Op) : Prop :=
  ∃ k vid, vid ∈ (step st op).wr k ∧ vid ∉ st.wr k ∧ Full (step st op) vid

/-- no volume known to be full is offered for writes -/
def KnownFullOk (keyOf : Nat → Key) (p : St × (Nat → Prop)) : Prop := ∀ vid, p.2 vid → vid ∉ p.1.wr (keyOf vid)

theorem refresh_frame (st : St) (n : Nat) : (refresh st n).toCore = st.toCore ∧ (refresh st n).limit = st.limit := by
  unfold refresh
  refine foldl_inv_st (fun x => x.toCore = st.toCore ∧ x.limit = st.limit) _ ?_ _ _ ⟨rfl, rfl⟩
  intro x s hx
  split
  · refine foldl_inv_st (fun y => y.toCore = st.toCore ∧ y.limit = st.limit) _ ?_ _ _ hx
    intro y v hy
    split
    · exact ⟨(touchKey_wr y v.key).2.2.1.trans hy.1, (touchKey_wr y v.key).2.2.2.2.2.trans hy.2⟩
    · exact hy
  · exact hx

/-- one operation keeps `KnownFullOk`: the refresh round by `refresh_removes_full`, every other operation
    unless it re-offers a full volume (the open finding) -/
theorem knownFull_step {keyOf : Nat → Key} (hk : ∀ vid, (keyOf vid).disk < 2) (p : St × (Nat → Prop)) (op : Op)
    (hi : Inv keyOf p.1) (h : KnownFullOk keyOf p) (hno : ¬ Reoffers p.1 op) : KnownFullOk keyOf (stepK p op) := by
  have other : ∀ kn' : Nat → Prop, (∀ vid, kn' vid → p.2 vid ∧ Full (step p.1 op) vid) →
      ∀ vid, kn' vid → vid ∉ (step p.1 op).wr (keyOf vid) := by
    intro kn' hkn vid hv hm
    obtain ⟨h1, h2⟩ := hkn vid hv
    exact hno ⟨keyOf vid, vid, hm, h vid h1, h2⟩
  cases op with
  | refresh =>
    intro vid hv
    obtain ⟨s, v, hs, hc, hm, hid, hsz⟩ := (hv : Full (step p.1 .refresh) vid)
    obtain ⟨f1, f2⟩ := refresh_frame p.1 maxSrv
    have hc' : p.1.conn s = true := by
      have : (refresh p.1 maxSrv).toCore.conn s = true := hc
      rw [f1] at this; exact this
    have hm' : v ∈ volumesOf p.1 s := by
      have : v ∈ (refresh p.1 maxSrv).toCore.volumesOf s := hm
      rw [f1] at this; exact this
    have hsz' : v.size ≥ p.1.limit := by
      have : v.size ≥ (refresh p.1 maxSrv).limit := hsz
      rw [f2] at this; exact this
    have hkey : v.key = keyOf v.id := (mem_volumesOf hk hi.regKey s).1 v hm'
    have := refresh_removes_full p.1 (fun k => (hi.winv k).1) s hs hc' v hm' hsz'
    rw [hkey, hid] at this
    exact this
  | conn s dc rack mh ms => exact other _ (fun _ hv => hv)
  | max s mh ms => exact other _ (fun _ hv => hv)
  | full s vs => exact other _ (fun _ hv => hv)
  | inc s ns ds => exact other _ (fun _ hv => hv)
  | ecfull s es => exact other _ (fun _ hv => hv)
  | ecinc s ns ds => exact other _ (fun _ hv => hv)
  | disc s => exact other _ (fun _ hv => hv)

/-- no operation of the sequence re-offers a full volume -/
def NoReoffer (st : St) : List Op → Prop
  | [] => True
  | op :: ops => ¬ Reoffers st op ∧ NoReoffer (step st op) ops

/-- C11, the size-limit conjunct as an invariant (partial: excluding the open finding
    ensureCorrectWritables/full-volume-offered-again = `Reoffers`): after every operation of a well-formed
    history in which no operation adds a full volume to a writables slice, no volume that a refresh round
    has seen full and that has been full ever since is offered for writes.  `full_volume_offered_again`
    shows that the hypothesis cannot be dropped. -/
theorem size_limit_run_partial (keyOf : Nat → Key) (hk : ∀ vid, (keyOf vid).disk < 2) (limit : Nat) (asMin : Bool) (nVid : Nat)
    (ops : List Op) (hops : OpsWf keyOf (init limit asMin nVid) ops) (hno : NoReoffer (init limit asMin nVid) ops) :
    KnownFullOk keyOf (runK (init limit asMin nVid, fun _ => False) ops) := by
  have key : ∀ (ops : List Op) (p : St × (Nat → Prop)), Inv keyOf p.1 → KnownFullOk keyOf p → OpsWf keyOf p.1 ops →
      NoReoffer p.1 ops → KnownFullOk keyOf (runK p ops) := by
    intro ops
    induction ops with
    | nil => intro p _ h _ _; exact h
    | cons op ops ih =>
      intro p hi h hw hn
      simp only [runK, List.foldl_cons]
      exact ih (stepK p op) (inv_step hk hi op hw.1) (knownFull_step hk p op hi h hn.1) hw.2 hn.2
  exact key ops _ (inv_init keyOf limit asMin nVid) (fun _ f => f.elim) hops hno

/-- `¬ Reoffers` in a form `decide` can evaluate on a concrete state (all quantifiers bounded): no volume
    registered at or over the limit on a connected server is in its layout's writables after the operation
    without having been there before -/
def notReoffersB (keyOf : Nat → Key) (st : St) (op : Op) : Bool :=
  (List.range maxSrv).all fun s => !((step st op).conn s) || (volumesOf (step st op) s).all fun v =>
    !(decide (v.size ≥ (step st op).limit)) || !((step st op).wr (keyOf v.id)).contains v.id || (st.wr (keyOf v.id)).contains v.id

theorem not_reoffers_of_B {keyOf : Nat → Key} {st : St} {op : Op} (hi : Inv keyOf (step st op))
    (hB : notReoffersB keyOf st op = true) : ¬ Reoffers st op := by
  intro ⟨k, vid, h1, h2, s, v, hs, hc, hm, hid, hsz⟩
  have hk := hi.wrKey k vid h1
  subst hk; subst hid
  unfold notReoffersB at hB
  rw [List.all_eq_true] at hB
  have h3 := hB s (List.mem_range.mpr hs)
  rw [hc] at h3
  simp only [Bool.not_true, Bool.false_or, List.all_eq_true] at h3
  have h4 := h3 v hm
  have e1 : decide (v.size ≥ (step st op).limit) = true := by simpa using hsz
  have e2 : ((step st op).wr (keyOf v.id)).contains v.id = true := by simpa using h1
  rw [e1, e2] at h4
  simp only [Bool.not_true, Bool.false_or] at h4
  exact h2 (by simpa using h4)

def NoReofferB (keyOf : Nat → Key) (st : St) : List Op → Prop
  | [] => True
  | op :: ops => notReoffersB keyOf st op = true ∧ NoReofferB keyOf (step st op) ops

theorem noReoffer_of_B {keyOf : Nat → Key} (hk : ∀ vid, (keyOf vid).disk < 2) (ops : List Op) : ∀ (st : St), Inv keyOf st →
    OpsWf keyOf st ops → NoReofferB keyOf st ops → NoReoffer st ops := by
  induction ops with
  | nil => intro _ _ _ _; trivial
  | cons op ops ih =>
    intro st hi hw hb
    have hi' := inv_step hk hi op hw.1
    exact ⟨not_reoffers_of_B hi' hb.1, ih _ hi' hw.2 hb.2⟩

/-- the hypotheses of `size_limit_run_partial` are satisfiable by a history in which a volume grows past the
    limit, is seen by a refresh round and stays full while heartbeats, a second server and a disconnect follow -/
def exOpsFull : List Op :=
  [.conn 0 0 0 5 4, .conn 1 0 1 5 0,
   .full 0 [⟨4, 10, false, false, exKey 4⟩, ⟨3, 10, false, false, exKey 3⟩],
   .full 0 [⟨4, 2000, false, false, exKey 4⟩, ⟨3, 10, false, false, exKey 3⟩],
   .refresh,
   .full 0 [⟨4, 2000, false, false, exKey 4⟩, ⟨3, 20, true, false, exKey 3⟩],
   .inc 1 [⟨5, 0, false, false, exKey 5⟩] [],
   .full 0 [⟨4, 2000, false, false, exKey 4⟩, ⟨3, 20, false, false, exKey 3⟩],
   .disc 1]

example : OpsWf exKey (init 1000 false 12) exOpsFull ∧ NoReoffer (init 1000 false 12) exOpsFull := by
  have hw : OpsWf exKey (init 1000 false 12) exOpsFull := by
    simp only [exOpsFull, OpsWf, OpWf, VOk]
    decide
  refine ⟨hw, noReoffer_of_B exKey_disk _ _ (inv_init exKey 1000 false 12) hw ?_⟩
  simp only [exOpsFull, NoReofferB]
  decide

/-- … and in that history volume 4 is known to be full at the end (the conclusion is about something) -/
example : (runK (init 1000 false 12, fun _ => False) exOpsFull).2 4 := by
  simp only [exOpsFull, runK, List.foldl_cons, List.foldl_nil, stepK]
  refine ⟨⟨⟨⟨?_, ?_⟩, ?_⟩, ?_⟩, ?_⟩ <;>
    exact ⟨0, ⟨4, 2000, false, false, exKey 4⟩, by decide, by decide, by decide, rfl, by decide⟩


section EcShardMap
open SwV.Lemmas.C11Ec

/-! ## the EC shard map -/

/-- EC side of the invariant (`D vid` = the disk type the shards of volume `vid` live on): the shard map
    lists, for every shard, exactly the connected servers that have the shard registered -/
structure EcInv (D : Nat → Nat) (st : St) : Prop where
  disk : ∀ s t vid, st.ecs s t vid ≠ 0 → t = D vid ∧ vid < st.nVid + 1
  iff : ∀ vid sh s, sh < 14 → (s ∈ st.ecLoc vid sh ↔ (st.conn s = true ∧ (st.ecs s (D vid) vid).testBit sh = true))
  nodup : ∀ vid sh, (st.ecLoc vid sh).Nodup

/-- conditions on the EC messages and on disconnects: the disk type of an EC volume is a function of its
    id, ids are in the modelled range, a full EC heartbeat lists a volume once — and NO SERVER THAT STILL HAS
    EC SHARDS REGISTERED DISCONNECTS (the open finding UnRegisterDataNode/ec-shards-of-disconnected-server-stay-in-lookup) -/
def EcWf (D : Nat → Nat) (c : Core) : Op → Prop
  | .ecfull _ es => (es.map (·.id)).Nodup ∧ ∀ e ∈ es, e.disk = D e.id ∧ e.id < c.nVid + 1
  | .ecinc _ ns ds => ∀ e ∈ ns ++ ds, e.disk = D e.id ∧ e.id < c.nVid + 1
  | .disc s => c.conn s = true → ∀ vid, vid < c.nVid + 1 → c.ecs s (D vid) vid = 0
  | _ => True

theorem ecinv_frame {D : Nat → Nat} {st st' : St} (h : EcInv D st) (h1 : st'.ecs = st.ecs) (h2 : st'.conn = st.conn)
    (h3 : st'.nVid = st.nVid) (h4 : st'.ecLoc = st.ecLoc) : EcInv D st' :=
  ⟨fun s t vid hz => by rw [h3]; exact h.disk s t vid (by rw [← h1]; exact hz),
   fun vid sh s hsh => by rw [h4, h2, h1]; exact h.iff vid sh s hsh,
   fun vid sh => by rw [h4]; exact h.nodup vid sh⟩

/-! ### the volume side never touches shards or the shard map -/

theorem addOrUpdate_ecs (c : Core) (s : Nat) (v : VInfo) : (c.addOrUpdate s v).1.ecs = c.ecs := by
  cases h : c.vols s v.key.disk v.id with
  | none => simp only [Core.addOrUpdate, h]; rfl
  | some old => simp only [Core.addOrUpdate, h]; split <;> rfl

theorem sweepGone_ecs (c : Core) (s : Nat) (actual : List VInfo) (t n : Nat) : (c.sweepGone s actual t n).1.ecs = c.ecs := by
  induction n with
  | zero => rfl
  | succ n ih =>
    simp only [Core.sweepGone]
    split
    · split
      · exact ih
      · exact ih
    · exact ih

theorem addAll_ecs (c : Core) (s : Nat) (vs : List VInfo) : (c.addAll s vs).1.ecs = c.ecs := by
  induction vs generalizing c with
  | nil => rfl
  | cons v vs ih => simp only [Core.addAll]; rw [ih, addOrUpdate_ecs]

theorem updateVolumes_ecs (c : Core) (s : Nat) (vs : List VInfo) : (c.updateVolumes s vs).1.ecs = c.ecs := by
  unfold Core.updateVolumes
  simp only []
  rw [addAll_ecs, sweepGone_ecs, sweepGone_ecs]

theorem deltaUpdateVolumes_ecs (c : Core) (s : Nat) (news dels : List VInfo) : (c.deltaUpdateVolumes s news dels).ecs = c.ecs := by
  unfold Core.deltaUpdateVolumes
  have h1 : ∀ (l : List VInfo) (c : Core), (l.foldl (fun c v => c.delReg s v) c).ecs = c.ecs := by
    intro l; induction l with
    | nil => intro c; rfl
    | cons a l ih => intro c; simp only [List.foldl_cons]; rw [ih]; unfold Core.delReg; split <;> rfl
  have h2 : ∀ (l : List VInfo) (c : Core), (l.foldl (fun c v => (c.addOrUpdate s v).1) c).ecs = c.ecs := by
    intro l; induction l with
    | nil => intro c; rfl
    | cons a l ih => intro c; simp only [List.foldl_cons]; rw [ih, addOrUpdate_ecs]
  rw [h2, h1]

theorem adjustMax_ecs (c : Core) (s mh ms : Nat) : (c.adjustMax s mh ms).ecs = c.ecs := by
  have h1 : ∀ (c : Core) t m, (c.adjustMax1 s t m).ecs = c.ecs := by
    intro c t m; unfold Core.adjustMax1; split
    · rfl
    · split <;> rfl
  unfold Core.adjustMax
  split
  · rw [h1, h1]
  · rfl

theorem touchKey_ecLoc (st : St) (k : Key) : (touchKey st k).ecLoc = st.ecLoc := by
  unfold touchKey; split <;> rfl
theorem ensureWritables_ecLoc (st : St) (k : Key) (v : Nat) : (ensureWritables st k v).ecLoc = st.ecLoc := by
  unfold ensureWritables setWritable removeWritable; split
  · split
    · split <;> rfl
    · rfl
  · rfl
theorem registerLayout_ecLoc (st : St) (v : VInfo) (s : Nat) : (registerLayout st v s).ecLoc = st.ecLoc := by
  unfold registerLayout; rw [ensureWritables_ecLoc]; simp [registerVolume, touchKey_ecLoc]
theorem unregisterLayout_ecLoc (st : St) (v : VInfo) (s : Nat) : (unregisterLayout st v s).ecLoc = st.ecLoc := by
  simp only [unregisterLayout]
  split
  · exact touchKey_ecLoc _ _
  · split
    · split
      · show (ensureWritables _ _ _).ecLoc = _; rw [ensureWritables_ecLoc]; exact touchKey_ecLoc _ _
      · rw [ensureWritables_ecLoc]; exact touchKey_ecLoc _ _
    · exact touchKey_ecLoc _ _
theorem setUnavailable_ecLoc (st : St) (v : VInfo) (s : Nat) : (setUnavailable st v s).ecLoc = st.ecLoc := by
  simp only [setUnavailable]
  split
  · exact touchKey_ecLoc _ _
  · split
    · split
      · show (touchKey st v.key).ecLoc = _; exact touchKey_ecLoc _ _
      · show (touchKey st v.key).ecLoc = _; exact touchKey_ecLoc _ _
    · exact touchKey_ecLoc _ _
theorem applyEv_ecLoc (st : St) (ev : Ev) : (applyEv st ev).ecLoc = st.ecLoc := by
  cases ev with
  | register v s => exact registerLayout_ecLoc st v s
  | unregister v s => exact unregisterLayout_ecLoc st v s
  | ensure k vid => show (ensureWritables _ _ _).ecLoc = _; rw [ensureWritables_ecLoc]; exact touchKey_ecLoc _ _
  | capacityFull k vid => show (touchKey st k).ecLoc = _; exact touchKey_ecLoc _ _

theorem foldl_ecLoc {α : Type} (f : St → α → St) (hf : ∀ st a, (f st a).ecLoc = st.ecLoc) (l : List α) (st : St) :
    (l.foldl f st).ecLoc = st.ecLoc := by
  induction l generalizing st with
  | nil => rfl
  | cons a l ih => simp only [List.foldl_cons]; rw [ih, hf]

theorem refresh_ecLoc (st : St) (n : Nat) : (refresh st n).ecLoc = st.ecLoc := by
  unfold refresh
  apply foldl_ecLoc
  intro st' s
  split
  · apply foldl_ecLoc
    intro st'' v
    split
    · show (touchKey st'' v.key).ecLoc = _; exact touchKey_ecLoc _ _
    · rfl
  · rfl

/-! ### every operation keeps the EC invariant -/

theorem evs_core_ecLoc (evs : List Ev) (st : St) :
    (evs.foldl applyEv st).toCore = st.toCore ∧ (evs.foldl applyEv st).ecLoc = st.ecLoc := by
  induction evs generalizing st with
  | nil => exact ⟨rfl, rfl⟩
  | cons ev evs ih =>
    simp only [List.foldl_cons]
    obtain ⟨i1, i2⟩ := ih (applyEv st ev)
    exact ⟨i1.trans (applyEv_core st ev), i2.trans (applyEv_ecLoc st ev)⟩

theorem updateVolumes_conn_nVid (c : Core) (s : Nat) (vs : List VInfo) :
    (c.updateVolumes s vs).1.conn = c.conn ∧ (c.updateVolumes s vs).1.nVid = c.nVid := by
  obtain ⟨⟨s01, s02⟩, _⟩ := sweepGone_facts s vs 0 (c.nVid + 1) c
  obtain ⟨⟨s11, s12⟩, _⟩ := sweepGone_facts s vs 1 (c.nVid + 1) (c.sweepGone s vs 0 (c.nVid + 1)).1
  obtain ⟨⟨a1, a1'⟩, _⟩ := addAll_facts s vs (Core.sweepGone (c.sweepGone s vs 0 (c.nVid + 1)).1 s vs 1 (c.nVid + 1)).1
  unfold Core.updateVolumes
  simp only []
  exact ⟨a1.trans (s11.trans s01), a1'.trans (s12.trans s02)⟩

theorem deltaUpdateVolumes_conn_nVid (c : Core) (s : Nat) (ns ds : List VInfo) :
    (c.deltaUpdateVolumes s ns ds).conn = c.conn ∧ (c.deltaUpdateVolumes s ns ds).nVid = c.nVid := by
  obtain ⟨⟨d1, d2⟩, _⟩ := dels_facts s ds c
  unfold Core.deltaUpdateVolumes
  rw [← addAll_fst]
  obtain ⟨⟨a1, a1'⟩, _⟩ := addAll_facts s ns (ds.foldl (fun c v => c.delReg s v) c)
  exact ⟨a1.trans d1, a1'.trans d2⟩

theorem ecinv_conn {D : Nat → Nat} {st : St} (h : EcInv D st) (s dc rack mh ms : Nat) : EcInv D (conn st s dc rack mh ms) := by
  by_cases hc : st.conn s = true
  · have : conn st s dc rack mh ms = st := by
      unfold SwV.Model.C11.conn Core.connect
      have hc' : st.toCore.conn s = true := hc
      simp [hc']
    rw [this]; exact h
  · have hc : st.conn s = false := by simpa using hc
    obtain ⟨f1, _, f3⟩ := connect_fields st.toCore s dc rack mh ms hc
    have f4 : (st.toCore.connect s dc rack mh ms).ecs = (fun x => if x = s then fun _ _ => 0 else st.ecs x) := by
      unfold Core.connect
      have hc' : st.toCore.conn s = false := hc
      simp only [hc', Bool.false_eq_true, if_false]
      split <;> rfl
    refine ⟨?_, ?_, h.nodup⟩
    · intro s' t vid hz
      have hz' : (st.toCore.connect s dc rack mh ms).ecs s' t vid ≠ 0 := hz
      rw [f4] at hz'
      by_cases e : s' = s
      · simp [e] at hz'
      · simp only [e, if_false] at hz'
        have := h.disk s' t vid hz'
        exact ⟨this.1, by show vid < (st.toCore.connect s dc rack mh ms).nVid + 1; rw [f3]; exact this.2⟩
    · intro vid sh s' hsh
      show s' ∈ st.ecLoc vid sh ↔ ((st.toCore.connect s dc rack mh ms).conn s' = true ∧
        ((st.toCore.connect s dc rack mh ms).ecs s' (D vid) vid).testBit sh = true)
      rw [f1, f4, h.iff vid sh s' hsh]
      by_cases e : s' = s
      · subst e; simp [hc]
      · simp [upd1, e]

theorem ecinv_disc {D : Nat → Nat} {st : St} (h : EcInv D st) (s : Nat)
    (hno : st.conn s = true → ∀ vid, vid < st.nVid + 1 → st.ecs s (D vid) vid = 0) : EcInv D (disc st s) := by
  by_cases hc : st.conn s = true
  · have hcore : (disc st s).toCore = st.toCore.disconnect s := by
      simp only [disc, hc, Bool.not_true, Bool.false_eq_true, if_false]
      rw [foldl_unavail_core]
    have hecl : (disc st s).ecLoc = st.ecLoc := by
      simp only [disc, hc, Bool.not_true, Bool.false_eq_true, if_false]
      exact foldl_ecLoc _ (fun st v => setUnavailable_ecLoc st v s) _ _
    have hecs : (disc st s).ecs = st.ecs := by show (disc st s).toCore.ecs = _; rw [hcore]; rfl
    have hconn : (disc st s).conn = upd1 st.conn s false := by show (disc st s).toCore.conn = _; rw [hcore]; rfl
    have hn : (disc st s).nVid = st.nVid := by show (disc st s).toCore.nVid = _; rw [hcore]; rfl
    refine ⟨fun s' t vid hz => by rw [hn]; exact h.disk s' t vid (by rw [← hecs]; exact hz), ?_,
      fun vid sh => by rw [hecl]; exact h.nodup vid sh⟩
    intro vid sh s' hsh
    rw [hecl, hconn, hecs, h.iff vid sh s' hsh]
    by_cases e : s' = s
    · subst e
      simp only [upd1, if_true, Bool.false_eq_true, false_and, iff_false, not_and]
      intro _ hb
      by_cases z : st.ecs s' (D vid) vid = 0
      · rw [z] at hb; simp at hb
      · have := hno hc vid (h.disk s' _ vid z).2
        exact z this
    · simp [upd1, e]
  · have : st.conn s = false := by simpa using hc
    simp [disc, this]; exact h

theorem hasBit_map (l : List EcInfo) (vid sh : Nat) :
    HasBit (l.map fun e => (e.id, e.bits)) vid sh ↔ ∃ e ∈ l, e.id = vid ∧ e.bits.testBit sh = true := by
  unfold HasBit
  constructor
  · rintro ⟨p, hp, h1, h2⟩
    obtain ⟨e, he, rfl⟩ := List.mem_map.mp hp
    exact ⟨e, he, h1, h2⟩
  · rintro ⟨e, he, h1, h2⟩
    exact ⟨(e.id, e.bits), List.mem_map.mpr ⟨e, he, rfl⟩, h1, h2⟩

theorem syncEcInc_eq (st : St) (s : Nat) (ns ds : List EcInfo) (hc : st.conn s = true) :
    syncEcInc st s ns ds =
      (ds.map fun e => (e.id, e.bits)).foldl (fun st p => unregisterEc st p.1 p.2 s)
        ((ns.map fun e => (e.id, e.bits)).foldl (fun st p => registerEc st p.1 p.2 s)
          ({ st with toCore := st.toCore.deltaUpdateEcShards s ns ds } : St)) := by
  simp only [syncEcInc, hc, Bool.not_true, Bool.false_eq_true, if_false, List.foldl_map]

theorem ecinv_ecinc {D : Nat → Nat} {st : St} (h : EcInv D st) (s : Nat) (ns ds : List EcInfo)
    (hw : ∀ e ∈ ns ++ ds, e.disk = D e.id ∧ e.id < st.nVid + 1) : EcInv D (syncEcInc st s ns ds) := by
  cases hc : st.conn s with
  | false => simp [syncEcInc, hc]; exact h
  | true =>
    rw [syncEcInc_eq st s ns ds hc]
    obtain ⟨⟨a1, a2, _⟩, a4⟩ := addEc_fold_spec s ns st.toCore
    obtain ⟨⟨d1, d2, _⟩, d4⟩ := delEc_fold_spec s ds (ns.foldl (fun c e => c.addEc s e) st.toCore)
    obtain ⟨r1, r2⟩ := registerAll_spec s (ns.map fun e => (e.id, e.bits)) ({ st with toCore := st.toCore.deltaUpdateEcShards s ns ds } : St) h.nodup
    obtain ⟨u1, u2⟩ := unregisterAll_spec s (ds.map fun e => (e.id, e.bits)) _ r2
    have kr := ekeep_foldl (fun st p => registerEc st p.1 p.2 s) (fun st p => ekeep_registerEc st p.1 p.2 s)
      (ns.map fun e => (e.id, e.bits)) ({ st with toCore := st.toCore.deltaUpdateEcShards s ns ds } : St)
    have ku := ekeep_foldl (fun st p => unregisterEc st p.1 p.2 s) (fun st p => ekeep_unregisterEc st p.1 p.2 s)
      (ds.map fun e => (e.id, e.bits))
      ((ns.map fun e => (e.id, e.bits)).foldl (fun st p => registerEc st p.1 p.2 s) ({ st with toCore := st.toCore.deltaUpdateEcShards s ns ds } : St))
    have hcoreF := ku.1.trans kr.1
    generalize (ds.map fun e => (e.id, e.bits)).foldl (fun st p => unregisterEc st p.1 p.2 s)
      ((ns.map fun e => (e.id, e.bits)).foldl (fun st p => registerEc st p.1 p.2 s) ({ st with toCore := st.toCore.deltaUpdateEcShards s ns ds } : St)) = stF
      at u1 u2 hcoreF
    have hcF : stF.toCore = ds.foldl (fun c e => c.delEc s e) (ns.foldl (fun c e => c.addEc s e) st.toCore) := hcoreF
    have bit : ∀ s' t vid sh, (stF.ecs s' t vid).testBit sh = true ↔
        (((st.ecs s' t vid).testBit sh = true ∨ (s' = s ∧ ∃ e ∈ ns, e.disk = t ∧ e.id = vid ∧ e.bits.testBit sh = true)) ∧
          ¬ (s' = s ∧ ∃ e ∈ ds, e.disk = t ∧ e.id = vid ∧ e.bits.testBit sh = true)) := by
      intro s' t vid sh
      show (stF.toCore.ecs s' t vid).testBit sh = true ↔ _
      rw [hcF, d4, a4]
    refine ⟨?_, ?_, u2⟩
    · intro s' t vid hz
      have hn : stF.nVid = st.nVid := by show stF.toCore.nVid = _; rw [hcF, d2, a2]
      rw [hn]
      obtain ⟨sh, hsh⟩ := Nat.exists_testBit_of_ne_zero hz
      rcases ((bit s' t vid sh).mp hsh).1 with g | ⟨_, e, he, g1, g2, _⟩
      · apply h.disk s' t vid
        intro z; rw [z] at g; simp at g
      · have := hw e (by simp [he])
        rw [← g1, ← g2]; exact this
    · intro vid sh x hsh
      have hconn : stF.conn = st.conn := by show stF.toCore.conn = _; rw [hcF, d1, a1]
      rw [u1 vid sh x hsh, r1 vid sh x hsh, hasBit_map, hasBit_map, hconn, bit]
      show ((x ∈ st.ecLoc vid sh ∨ _) ∧ _) ↔ _
      rw [h.iff vid sh x hsh]
      by_cases e : x = s
      · subst e
        simp only [true_and, hc]
        constructor
        · rintro ⟨g1 | ⟨e, he, g1, g2⟩, g3⟩
          · exact ⟨Or.inl g1, fun ⟨e', he', _, k2, k3⟩ => g3 ⟨e', he', k2, k3⟩⟩
          · exact ⟨Or.inr ⟨e, he, by rw [(hw e (by simp [he])).1, g1], g1, g2⟩, fun ⟨e', he', _, k2, k3⟩ => g3 ⟨e', he', k2, k3⟩⟩
        · rintro ⟨g1 | ⟨e, he, _, g1, g2⟩, g3⟩
          · exact ⟨Or.inl g1, fun ⟨e', he', k2, k3⟩ => g3 ⟨e', he', by rw [(hw e' (by simp [he'])).1, k2], k2, k3⟩⟩
          · exact ⟨Or.inr ⟨e, he, g1, g2⟩, fun ⟨e', he', k2, k3⟩ => g3 ⟨e', he', by rw [(hw e' (by simp [he'])).1, k2], k2, k3⟩⟩
      · simp [e]

theorem ecinv_ecfull {D : Nat → Nat} (hD : ∀ vid, D vid < 2) {st : St} (h : EcInv D st) (s : Nat) (es : List EcInfo)
    (hn : (es.map (·.id)).Nodup) (hw : ∀ e ∈ es, e.disk = D e.id ∧ e.id < st.nVid + 1) : EcInv D (syncEcFull st s es) := by
  unfold syncEcFull
  split
  · exact h
  · next hc =>
    have hc : st.conn s = true := by simpa using hc
    obtain ⟨cs1, cs2, cs3⟩ := csame_updateEcShards st.toCore s es
    obtain ⟨u1, u2⟩ := updateEcShards_ecs st.toCore s es
    have shard := updateEcShards_shard st.toCore s es D hD (fun t vid hz => h.disk s t vid hz) hn (fun e he => (hw e he).1)
    obtain ⟨r1, r2⟩ := registerAll_spec s (st.toCore.updateEcShards s es).2.1 ({ st with toCore := (st.toCore.updateEcShards s es).1 } : St) h.nodup
    obtain ⟨q1, q2⟩ := unregisterAll_spec s (st.toCore.updateEcShards s es).2.2 _ r2
    have kr := ekeep_foldl (fun st p => registerEc st p.1 p.2 s) (fun st p => ekeep_registerEc st p.1 p.2 s)
      (st.toCore.updateEcShards s es).2.1 ({ st with toCore := (st.toCore.updateEcShards s es).1 } : St)
    have ku := ekeep_foldl (fun st p => unregisterEc st p.1 p.2 s) (fun st p => ekeep_unregisterEc st p.1 p.2 s)
      (st.toCore.updateEcShards s es).2.2
      ((st.toCore.updateEcShards s es).2.1.foldl (fun st p => registerEc st p.1 p.2 s) ({ st with toCore := (st.toCore.updateEcShards s es).1 } : St))
    have hcoreF := ku.1.trans kr.1
    generalize (st.toCore.updateEcShards s es).2.2.foldl (fun st p => unregisterEc st p.1 p.2 s)
      ((st.toCore.updateEcShards s es).2.1.foldl (fun st p => registerEc st p.1 p.2 s) ({ st with toCore := (st.toCore.updateEcShards s es).1 } : St)) = stF
      at q1 q2 hcoreF
    have hcF : stF.toCore = (st.toCore.updateEcShards s es).1 := hcoreF
    have hconn : stF.conn = st.conn := by show stF.toCore.conn = _; rw [hcF]; exact cs2
    have hnv : stF.nVid = st.nVid := by show stF.toCore.nVid = _; rw [hcF]; exact cs3
    -- the server's shards come from the old registration or from the message
    have src : ∀ s' t vid, stF.ecs s' t vid ≠ 0 → st.ecs s' t vid ≠ 0 ∨ (s' = s ∧ ∃ e ∈ es, e.disk = t ∧ e.id = vid) := by
      intro s' t vid hz
      have hz' : (st.toCore.updateEcShards s es).1.ecs s' t vid ≠ 0 := by rw [← hcF]; exact hz
      by_cases hb : (((st.toCore.updateEcShards s es).2.1.isEmpty && (st.toCore.updateEcShards s es).2.2.isEmpty) = true)
      · rw [u1 hb] at hz'; exact Or.inl hz'
      · rw [u2 hb] at hz'
        by_cases e : s' = s
        · subst e
          simp only [if_true] at hz'
          by_cases hex : ∃ e ∈ es, e.disk = t ∧ e.id = vid
          · exact Or.inr ⟨rfl, hex⟩
          · exfalso
            apply hz'
            rw [SwV.Lemmas.C12Ec.store_ecs_other s' es _ s' t vid (Or.inr (fun e he hh => hex ⟨e, he, hh⟩))]
        · simp only [e, if_false] at hz'; exact Or.inl hz'
    have other : ∀ s' t vid, s' ≠ s → stF.ecs s' t vid = st.ecs s' t vid := by
      intro s' t vid hne
      show stF.toCore.ecs s' t vid = _
      rw [hcF]
      by_cases hb : (((st.toCore.updateEcShards s es).2.1.isEmpty && (st.toCore.updateEcShards s es).2.2.isEmpty) = true)
      · rw [u1 hb]
      · rw [u2 hb]; simp [hne]
    refine ⟨?_, ?_, q2⟩
    · intro s' t vid hz
      rw [hnv]
      rcases src s' t vid hz with g | ⟨_, e, he, g1, g2⟩
      · exact h.disk s' t vid g
      · have := hw e he
        rw [← g1, ← g2]; exact this
    · intro vid sh x hsh
      rw [q1 vid sh x hsh, r1 vid sh x hsh, hconn]
      show ((x ∈ st.ecLoc vid sh ∨ _) ∧ _) ↔ _
      rw [h.iff vid sh x hsh]
      by_cases e : x = s
      · subst e
        have := shard vid sh hsh
        have hF : (stF.ecs x (D vid) vid).testBit sh = ((st.toCore.updateEcShards x es).1.ecs x (D vid) vid).testBit sh := by
          show (stF.toCore.ecs x (D vid) vid).testBit sh = _; rw [hcF]
        rw [hF, this]
        simp only [true_and, hc]
      · rw [other x _ _ e]; simp [e]

/-- well-formed EC side of a history -/
def EcOpsWf (D : Nat → Nat) (st : St) : List Op → Prop
  | [] => True
  | op :: ops => EcWf D st.toCore op ∧ EcOpsWf D (step st op) ops

theorem ecinv_step {D : Nat → Nat} (hD : ∀ vid, D vid < 2) {st : St} (h : EcInv D st) (op : Op)
    (hop : EcWf D st.toCore op) : EcInv D (step st op) := by
  cases op with
  | conn s dc rack mh ms => exact ecinv_conn h s dc rack mh ms
  | max s mh ms => exact ecinv_frame h (adjustMax_ecs st.toCore s mh ms) (csame_adjustMax st.toCore s mh ms).2.1 (csame_adjustMax st.toCore s mh ms).2.2 rfl
  | full s vs =>
    by_cases hc : st.conn s = true
    · simp only [step]
      rw [syncFull_eq st s vs hc]
      have F := evs_core_ecLoc (hbEvs s (st.toCore.updateVolumes s vs).2.1 (st.toCore.updateVolumes s vs).2.2.1 (st.toCore.updateVolumes s vs).2.2.2)
        ({ st with toCore := (st.toCore.updateVolumes s vs).1 } : St)
      refine ecinv_frame h ?_ ?_ ?_ F.2
      · show (List.foldl applyEv _ _).toCore.ecs = _; rw [F.1]; exact updateVolumes_ecs st.toCore s vs
      · show (List.foldl applyEv _ _).toCore.conn = _; rw [F.1]
        exact (updateVolumes_conn_nVid st.toCore s vs).1
      · show (List.foldl applyEv _ _).toCore.nVid = _; rw [F.1]
        exact (updateVolumes_conn_nVid st.toCore s vs).2
    · have : st.conn s = false := by simpa using hc
      simp [step, syncFull, this]; exact h
  | inc s ns ds =>
    by_cases hc : st.conn s = true
    · simp only [step]
      rw [syncInc_eq st s ns ds hc]
      have F := evs_core_ecLoc (hbEvs s ns ds []) ({ st with toCore := st.toCore.deltaUpdateVolumes s ns ds } : St)
      refine ecinv_frame h ?_ ?_ ?_ F.2
      · show (List.foldl applyEv _ _).toCore.ecs = _; rw [F.1]; exact deltaUpdateVolumes_ecs st.toCore s ns ds
      · show (List.foldl applyEv _ _).toCore.conn = _; rw [F.1]
        exact (deltaUpdateVolumes_conn_nVid st.toCore s ns ds).1
      · show (List.foldl applyEv _ _).toCore.nVid = _; rw [F.1]
        exact (deltaUpdateVolumes_conn_nVid st.toCore s ns ds).2
    · have : st.conn s = false := by simpa using hc
      simp [step, syncInc, this]; exact h
  | ecfull s es => exact ecinv_ecfull hD h s es hop.1 hop.2
  | ecinc s ns ds => exact ecinv_ecinc h s ns ds hop
  | disc s => exact ecinv_disc h s hop
  | refresh =>
    have f := refresh_frame st maxSrv
    refine ecinv_frame h ?_ ?_ ?_ (refresh_ecLoc st maxSrv)
    · show (refresh st maxSrv).toCore.ecs = _; rw [f.1]
    · show (refresh st maxSrv).toCore.conn = _; rw [f.1]
    · show (refresh st maxSrv).toCore.nVid = _; rw [f.1]

theorem ecinv_init (D : Nat → Nat) (limit : Nat) (asMin : Bool) (nVid : Nat) : EcInv D (init limit asMin nVid) := by
  refine ⟨?_, ?_, ?_⟩
  · intro s t vid hz; exact absurd rfl hz
  · intro vid sh s _; simp [init]
  · intro vid sh; simp [init]

theorem ecinv_run {D : Nat → Nat} (hD : ∀ vid, D vid < 2) {st : St} (h : EcInv D st) (ops : List Op)
    (hops : EcOpsWf D st ops) : EcInv D (run st ops) := by
  induction ops generalizing st with
  | nil => exact h
  | cons op ops ih =>
    simp only [run, List.foldl_cons]
    exact ih (ecinv_step hD h op hops.1) hops.2

theorem ecOpsWf_take {D : Nat → Nat} {st : St} (ops : List Op) (n : Nat) (h : EcOpsWf D st ops) :
    EcOpsWf D st (ops.take n) := by
  induction ops generalizing st n with
  | nil => simp [EcOpsWf]
  | cons op ops ih =>
    cases n with
    | zero => simp [EcOpsWf]
    | succ n => exact ⟨h.1, ih n h.2⟩

/-- `Topology.Lookup` of a volume id that no layout has an entry for: exactly the connected servers that
    have at least one of its 14 shards registered -/
theorem ec_lookup_exact_of_inv {keyOf : Nat → Key} {D : Nat → Nat} {st : St} (hi : Inv keyOf st) (he : EcInv D st) (vid : Nat)
    (hnone : st.locs (keyOf vid) vid = none) :
    ∀ s, s ∈ lookup st vid ↔ (st.conn s = true ∧ ∃ sh, sh < 14 ∧ (st.ecs s (D vid) vid).testBit sh = true) := by
  intro s
  have : lookup st vid = (List.range 14).flatMap (fun sh => st.ecLoc vid sh) := by
    unfold lookup
    rw [findSome_none (fun k => st.locs k vid) st.keys]
    intro k _
    by_cases e : k = keyOf vid
    · subst e; exact hnone
    · exact hi.other k vid e
  rw [this]
  simp only [List.mem_flatMap, List.mem_range]
  constructor
  · rintro ⟨sh, hsh, hm⟩
    have := (he.iff vid sh s hsh).mp hm
    exact ⟨this.1, sh, hsh, this.2⟩
  · rintro ⟨hc, sh, hsh, hb⟩
    exact ⟨sh, hsh, (he.iff vid sh s hsh).mpr ⟨hc, hb⟩⟩

/-- C11, `lookup_exact` in full (partial: excluding exactly the two open EC-lookup findings).  After every
    operation of a well-formed history in which no server disconnects while it still has EC shards
    registered (`EcWf … (.disc s)`, the finding UnRegisterDataNode/ec-shards-of-disconnected-server-stay-in-lookup):
    * a volume id with an entry in its layout is answered with exactly the connected servers that have the
      volume registered — when that entry is empty the answer is "nowhere" although EC shards of the same id
      may be registered (the finding SetVolumeUnavailable/empty-location-list-hides-ec-shards lives in this case);
    * a volume id without an entry is answered with exactly the connected servers that have one of its
      EC shards registered. -/
theorem lookup_exact_all_partial (keyOf : Nat → Key) (D : Nat → Nat) (hk : ∀ vid, (keyOf vid).disk < 2) (hD : ∀ vid, D vid < 2)
    (limit : Nat) (asMin : Bool) (nVid : Nat) (ops : List Op) (hops : OpsWf keyOf (init limit asMin nVid) ops)
    (hec : EcOpsWf D (init limit asMin nVid) ops) (n : Nat) (vid : Nat) :
    let st := run (init limit asMin nVid) (ops.take n)
    (st.locs (keyOf vid) vid ≠ none →
      ∀ s, s ∈ lookup st vid ↔ (st.conn s = true ∧ ∃ v, volOf st s vid = some v)) ∧
    (st.locs (keyOf vid) vid = none →
      ∀ s, s ∈ lookup st vid ↔ (st.conn s = true ∧ ∃ sh, sh < 14 ∧ (st.ecs s (D vid) vid).testBit sh = true)) := by
  have hi := inv_run hk (inv_init keyOf limit asMin nVid) _ (opsWf_take ops n hops)
  have he := ecinv_run hD (ecinv_init D limit asMin nVid) _ (ecOpsWf_take ops n hec)
  exact ⟨(lookup_exact_of_inv hk hi vid).1, ec_lookup_exact_of_inv hi he vid⟩

/-- the EC hypotheses are satisfiable by the history `exOps` (EC shards on server 1, server 0 disconnects) … -/
example : EcOpsWf (fun _ => 0) (init 1000 false 12) exOps := by
  simp only [exOps, EcOpsWf, EcWf]
  decide

/-- … and they exclude the finding's witness: a server that disconnects with EC shards stays in the lookup -/
theorem ec_stays_after_disconnect :
    let st := run (init 1000 false 12) [.conn 1 0 0 5 0, .ecinc 1 [⟨6, 0, 0, 5⟩] [], .disc 1]
    lookup st 6 = [1, 1] ∧ st.conn 1 = false := by decide

end EcShardMap

/-! ## the size-limit conjunct for replicas that REGISTER at or over the limit

The judge clause `RegisterVolume/oversized-not-remembered`: a volume id is never PUT INTO the writables
while a replica that registered at/over the size limit (and has stayed registered so) is known.  On the
model this is the pair "RegisterVolume always remembers" (the deferred rememberOversizedVolume runs on
every path, also when the replica loop returns early at a read-only or unknown replica) and
"ensureCorrectWritables never adds a remembered volume", for ALL sequences of layout events. -/

theorem applyEv_limit (st : St) (ev : Ev) : (applyEv st ev).limit = st.limit := by
  cases ev with
  | register v s =>
    simp only [applyEv, registerLayout, ensureWritables, setWritable, removeWritable, registerVolume]
    repeat' split
    all_goals first | rfl | exact (touchKey_wr st v.key).2.2.2.2.2
  | unregister v s =>
    simp only [applyEv, unregisterLayout, ensureWritables, setWritable, removeWritable]
    repeat' split
    all_goals first | rfl | exact (touchKey_wr st v.key).2.2.2.2.2
  | ensure k vid =>
    simp only [applyEv, ensureWritables, setWritable, removeWritable]
    repeat' split
    all_goals first | rfl | exact (touchKey_wr st k).2.2.2.2.2
  | capacityFull k vid => exact (touchKey_wr st k).2.2.2.2.2

theorem ensureWritables_ov (st : St) (k : Key) (vid : Nat) : (ensureWritables st k vid).ov = st.ov := by
  simp only [ensureWritables, setWritable, removeWritable]
  repeat' split
  all_goals rfl

/-- ensureCorrectWritables adds a volume id to the writables only when no oversized replica is remembered -/
theorem ensureWritables_no_new_offer (st : St) (k0 : Key) (vid0 : Nat) (k : Key) (vid : Nat)
    (hw : vid ∉ st.wr k) (ho : st.ov k vid ≠ []) : vid ∉ (ensureWritables st k0 vid0).wr k := by
  by_cases e : k0 = k ∧ vid0 = vid
  · obtain ⟨rfl, rfl⟩ := e
    have hne : (st.ov k0 vid0).isEmpty = false := by
      cases h : st.ov k0 vid0 with
      | nil => exact absurd h ho
      | cons a l => rfl
    simp only [ensureWritables, hne, removeWritable]
    split
    · simpa using hw
    · simp only [updK, if_true]
      exact fun h => hw (List.mem_of_mem_erase h)
  · simp only [ensureWritables, setWritable, removeWritable]
    repeat' split
    all_goals first
      | exact hw
      | (simp only [updK]; split
         · rename_i hk; subst hk
           first
             | (intro h; rcases List.mem_append.mp h with h | h
                · exact hw h
                · simp at h; exact e ⟨rfl, h.symm⟩)
             | exact fun h => hw (List.mem_of_mem_erase h)
         · exact hw)

/-- C11, size-limit conjunct, registration form (layout mechanism, every event): no layout call puts a
    volume id into the writables while the layout remembers an oversized replica of it -/
theorem no_new_offer_while_oversized (st : St) (ev : Ev) (k : Key) (vid : Nat)
    (hw : vid ∉ st.wr k) (ho : (applyEv st ev).ov k vid ≠ []) : vid ∉ (applyEv st ev).wr k := by
  cases ev with
  | register v s =>
    simp only [applyEv, registerLayout] at ho ⊢
    rw [ensureWritables_ov] at ho
    apply ensureWritables_no_new_offer _ _ _ _ _ _ ho
    simp only [registerVolume, (touchKey_wr st v.key).1]
    split
    · simp only [updK]; split
      · rename_i hk; subst hk; exact fun h => hw (List.mem_of_mem_erase h)
      · exact hw
    · exact hw
  | unregister v s =>
    have t := touchKey_wr st v.key
    cases hl : (touchKey st v.key).locs v.key v.id with
    | none =>
      simp only [applyEv, unregisterLayout, hl]; rw [t.1]; exact hw
    | some l =>
      by_cases hc : l.contains s = true
      · by_cases he : (l.erase s).isEmpty = true
        · simp only [applyEv, unregisterLayout, hl, hc, he, if_true] at ho ⊢
          rw [ensureWritables_ov] at ho
          exact ensureWritables_no_new_offer _ _ _ _ _ (by rw [t.1]; exact hw) ho
        · have he2 : (l.erase s).isEmpty = false := by simpa using he
          simp only [applyEv, unregisterLayout, hl, hc, he2, if_true, Bool.false_eq_true, if_false] at ho ⊢
          rw [ensureWritables_ov] at ho
          exact ensureWritables_no_new_offer _ _ _ _ _ (by rw [t.1]; exact hw) ho
      · have hc2 : l.contains s = false := by simpa using hc
        simp only [applyEv, unregisterLayout, hl, hc2, Bool.false_eq_true, if_false]; rw [t.1]; exact hw
  | ensure k0 vid0 =>
    simp only [applyEv] at ho ⊢
    rw [ensureWritables_ov] at ho
    exact ensureWritables_no_new_offer _ _ _ _ _ (by rw [(touchKey_wr st k0).1]; exact hw) ho
  | capacityFull k0 vid0 =>
    simp only [applyEv, removeWritable, updK]
    split
    · rename_i hk; subst hk; rw [(touchKey_wr st k).1]; exact fun h => hw (List.mem_of_mem_erase h)
    · rw [(touchKey_wr st k0).1]; exact hw

/-- VolumeLayout.RegisterVolume remembers a replica that registers at or over the limit WHATEVER the
    read-only state of the replicas (`rememberOversizedVolume` is deferred: it also runs when the replica
    loop returns early) -/
theorem register_remembers_oversized (st : St) (v : VInfo) (s : Nat) (h : v.size ≥ st.limit) :
    s ∈ (applyEv st (.register v s)).ov v.key v.id := by
  simp only [applyEv, registerLayout, ensureWritables_ov, registerVolume, (touchKey_wr st v.key).2.2.2.2.2, h,
    updK2, and_self, if_true]
  exact (mem_setLoc _ s s).mpr (Or.inr rfl)

/-- the events that make the layout forget the replica of `vid` on server `s`: the server unregisters the
    volume, or registers it again below the limit -/
def Forgets (limit : Nat) (k : Key) (vid s : Nat) : Ev → Prop
  | .unregister v s' => v.key = k ∧ v.id = vid ∧ s' = s
  | .register v s' => v.key = k ∧ v.id = vid ∧ s' = s ∧ v.size < limit
  | _ => False

theorem oversized_stays_remembered (st : St) (ev : Ev) (k : Key) (vid s : Nat) (h : s ∈ st.ov k vid)
    (hf : ¬ Forgets st.limit k vid s ev) : s ∈ (applyEv st ev).ov k vid := by
  cases ev with
  | register v s' =>
    simp only [applyEv, registerLayout, ensureWritables_ov, registerVolume, (touchKey_wr st v.key).2.2.2.2.2,
      (touchKey_wr st v.key).2.2.2.2.1, updK2]
    split
    · rename_i hk; obtain ⟨rfl, rfl⟩ := hk
      split
      · exact (mem_setLoc _ s' s).mpr (Or.inl h)
      · rename_i hs
        by_cases e : s' = s
        · exact absurd ⟨rfl, rfl, e, by omega⟩ hf
        · exact (List.mem_erase_of_ne (fun x => e x.symm)).mpr h
    · exact h
  | unregister v s' =>
    simp only [applyEv, unregisterLayout]
    have t := touchKey_wr st v.key
    split
    · rw [t.2.2.2.2.1]; exact h
    · split
      · have key : s ∈ updK2 (touchKey st v.key).ov v.key v.id (((touchKey st v.key).ov v.key v.id).erase s') k vid := by
          simp only [updK2, t.2.2.2.2.1]
          split
          · rename_i hk; obtain ⟨rfl, rfl⟩ := hk
            by_cases e : s' = s
            · exact absurd ⟨rfl, rfl, e⟩ hf
            · exact (List.mem_erase_of_ne (fun x => e x.symm)).mpr h
          · exact h
        split <;> simp only [ensureWritables_ov] <;> exact key
      · rw [t.2.2.2.2.1]; exact h
  | ensure k0 vid0 => simp only [applyEv, ensureWritables_ov, (touchKey_wr st k0).2.2.2.2.1]; exact h
  | capacityFull k0 vid0 => simp only [applyEv, removeWritable, (touchKey_wr st k0).2.2.2.2.1]; exact h

/-- C11, size-limit conjunct, registration form, for ALL event sequences: a volume id that is not offered
    when a replica of it is remembered as oversized (in particular: right after that replica registered at
    or over the limit, `register_remembers_oversized`) is not offered after any sequence of layout events —
    registrations and removals of other replicas, read-only flips in either direction, refresh rounds —
    as long as that server neither unregisters the volume nor registers it again below the limit.
    (`oversized_registered_while_readonly_not_offered` is the model on the history of the judge class
    RegisterVolume/oversized-not-remembered.) -/
theorem oversized_never_offered_events (evs : List Ev) : ∀ (st : St) (k : Key) (vid s : Nat), s ∈ st.ov k vid → vid ∉ st.wr k →
    (∀ ev ∈ evs, ¬ Forgets st.limit k vid s ev) →
    vid ∉ (evs.foldl applyEv st).wr k ∧ s ∈ (evs.foldl applyEv st).ov k vid := by
  induction evs with
  | nil => intro st k vid s h hw _; exact ⟨hw, h⟩
  | cons ev evs ih =>
    intro st k vid s h hw hf
    simp only [List.foldl_cons]
    have h1 := oversized_stays_remembered st ev k vid s h (hf ev (List.mem_cons_self ..))
    have h2 := no_new_offer_while_oversized st ev k vid hw (List.ne_nil_of_mem h1)
    exact ih (applyEv st ev) k vid s h1 h2 (fun e he => by rw [applyEv_limit]; exact hf e (List.mem_cons_of_mem _ he))

/-- non-vacuity: a replica registers over the limit while read-only (single copy), then the read-only
    flag is cleared (`ensure`), a peer comes and goes: the hypotheses hold and the volume is never offered -/
example :
    let k : Key := ⟨0, 0, 0, 0⟩
    let st := applyEv (init 1000 false 12) (.register ⟨7, 1100, true, false, k⟩ 0)
    (0 ∈ st.ov k 7 ∧ 7 ∉ st.wr k) ∧
    (∀ ev ∈ [Ev.ensure k 7, .register ⟨7, 10, false, false, k⟩ 1, .unregister ⟨7, 10, false, false, k⟩ 1],
      ¬ Forgets st.limit k 7 0 ev) := by
  refine ⟨by decide, ?_⟩
  intro ev hev
  simp only [List.mem_cons, List.mem_nil_iff, or_false] at hev
  rcases hev with rfl | rfl | rfl <;> simp [Forgets]

/-- the model on the histories of the judge class RegisterVolume/oversized-not-remembered (real `step`):
    (1) a single-copy volume registers over the limit while read-only, the next full heartbeat clears the
    flag; (2) replication 001: the peer is read-only when the oversized replica registers, then the peer's
    flag is cleared.  In both the volume is remembered as oversized and is NOT offered. -/
theorem oversized_registered_while_readonly_not_offered :
    let k0 : Key := ⟨0, 0, 0, 0⟩
    let k1 : Key := ⟨0, 1, 0, 0⟩
    let a := run (init 1000 false 12)
      [.conn 0 0 0 5 0, .full 0 [⟨7, 1100, true, false, k0⟩], .full 0 [⟨7, 1100, false, false, k0⟩]]
    let b := run (init 1000 false 12)
      [.conn 0 0 0 5 0, .conn 1 0 1 5 0, .full 0 [⟨7, 10, true, false, k1⟩], .full 1 [⟨7, 1000, false, false, k1⟩],
       .full 0 [⟨7, 10, false, false, k1⟩]]
    (a.wr k0 = [] ∧ a.ov k0 7 = [0] ∧ enoughCopies a k0 7 = true ∧ isAllWritable a k0 7 = true) ∧
    (b.wr k1 = [] ∧ b.ov k1 7 = [1] ∧ enoughCopies b k1 7 = true ∧ isAllWritable b k1 7 = true) := by decide


/-- the registration form of the size-limit conjunct only speaks of volume ids PUT INTO the writables: an id
    that is already offered stays offered when a further replica registers at/over the limit under
    replication-as-minimum (enough copies, all writable, oversized: ensureCorrectWritables merely does not add).
    Open finding ensureCorrectWritables/oversized-replica-joins-offered-volume
    (corpus/C11/oversized_replica_joins_offered_volume.ops). -/
theorem oversized_replica_joins_offered_volume :
    let k : Key := ⟨0, 0, 0, 0⟩
    let st := run (init 1000 true 12)
      [.conn 2 1 1 6 0, .full 2 [⟨1, 10, false, false, k⟩], .conn 1 0 1 7 0, .full 1 [⟨1, 1024, false, false, k⟩]]
    st.wr k = [1] ∧ st.ov k 1 = [1] ∧ (volOf st 1 1).map (·.size) = some 1024 := by decide

/-! ## a full heartbeat is authoritative: registered = reported

The judge clauses `lookup-returns-server-that-reported-volume-gone` / `writable-without-enough-reported-copies`
compare the master with what the SERVERS said.  On the model: after a full heartbeat of a connected server
the volumes registered on it are exactly the volumes the heartbeat lists — in particular none after a
heartbeat WITHOUT volumes — and by `Inv.locs_iff` so are the location lists (= lookups). -/

theorem updateVolumes_exact {keyOf : Nat → Key} (hk : ∀ vid, (keyOf vid).disk < 2) (s : Nat) (c : Core) (actual : List VInfo)
    (hv : ∀ v ∈ actual, VOk keyOf c v) (x : Nat) (hx : x < c.nVid + 1) :
    ((c.updateVolumes s actual).1.vols s (keyOf x).disk x).isSome = true ↔ ∃ a ∈ actual, a.id = x := by
  obtain ⟨_, s03, _, _⟩ := sweepGone_facts s actual 0 (c.nVid + 1) c
  obtain ⟨⟨_, s12⟩, s13, _, _⟩ := sweepGone_facts s actual 1 (c.nVid + 1) (c.sweepGone s actual 0 (c.nVid + 1)).1
  obtain ⟨_, _, _, a4, _, a6, _⟩ := addAll_facts s actual
    (Core.sweepGone (c.sweepGone s actual 0 (c.nVid + 1)).1 s actual 1 (c.nVid + 1)).1
  have hn : (c.sweepGone s actual 0 (c.nVid + 1)).1.nVid = c.nVid := (sweepGone_facts s actual 0 (c.nVid + 1) c).1.2
  constructor
  · intro h
    by_cases hany : actual.any (fun a => a.id == x) = true
    · obtain ⟨a, ha, e⟩ := List.any_eq_true.mp hany
      exact ⟨a, ha, by simpa using e⟩
    · have hany : actual.any (fun a => a.id == x) = false := by simpa using hany
      -- swept on both disks, so it must be new
      have hnone : (Core.sweepGone (c.sweepGone s actual 0 (c.nVid + 1)).1 s actual 1 (c.nVid + 1)).1.vols s (keyOf x).disk x = none := by
        rw [s13, s03]
        have := hk x
        by_cases e1 : (keyOf x).disk = 1
        · rw [if_pos ⟨rfl, e1, by omega, hany⟩]
        · rw [if_neg (fun h => e1 h.2.1), if_pos ⟨rfl, by omega, hx, hany⟩]
      obtain ⟨v, hv1, hv2, _⟩ := a4 (keyOf x).disk x hnone h
      exact ⟨v, (a6 v hv1).1, hv2⟩
  · intro ⟨a, ha, e⟩
    have := addAll_listed s actual (Core.sweepGone (c.sweepGone s actual 0 (c.nVid + 1)).1 s actual 1 (c.nVid + 1)).1 a ha
    rw [(hv a ha).1, e] at this
    exact this

theorem syncFull_toCore (st : St) (s : Nat) (actual : List VInfo) (hc : st.conn s = true) :
    (syncFull st s actual).toCore = (st.toCore.updateVolumes s actual).1 := by
  rw [syncFull_eq st s actual hc]
  exact (evs_core_ecLoc _ _).1

/-- C11, lookups against what the server reported: after a full heartbeat of a connected server `s`, `s` is
    in the location list of a volume id exactly when the heartbeat lists that id.  After a heartbeat
    without volumes (`vs = []`) the server is in no location list. -/
theorem full_heartbeat_lookup_exact {keyOf : Nat → Key} (hk : ∀ vid, (keyOf vid).disk < 2) {st : St} (h : Inv keyOf st)
    (s : Nat) (vs : List VInfo) (hv : ∀ v ∈ vs, VOk keyOf st.toCore v) (hc : st.conn s = true) (x : Nat) (hx : x < st.nVid + 1) :
    s ∈ locList (syncFull st s vs) (keyOf x) x ↔ ∃ a ∈ vs, a.id = x := by
  have hi := inv_full hk h s vs hv
  rw [hi.locs_iff x s]
  have e : (syncFull st s vs).toCore = (st.toCore.updateVolumes s vs).1 := syncFull_toCore st s vs hc
  have e1 : (syncFull st s vs).conn s = true := by
    show (syncFull st s vs).toCore.conn s = true
    rw [e, (updateVolumes_conn_nVid st.toCore s vs).1]; exact hc
  have e2 : (syncFull st s vs).vols = (st.toCore.updateVolumes s vs).1.vols := by
    show (syncFull st s vs).toCore.vols = _
    rw [e]
  rw [e2, updateVolumes_exact hk s st.toCore vs hv x hx]
  exact ⟨fun h => h.2, fun h => ⟨e1, h⟩⟩

/-- the empty full heartbeat: the server leaves every location list, and (by `WInv`) a volume that is still
    offered has enough copies among the OTHER servers -/
theorem empty_full_heartbeat_unregisters {keyOf : Nat → Key} (hk : ∀ vid, (keyOf vid).disk < 2) {st : St} (h : Inv keyOf st)
    (s : Nat) (hc : st.conn s = true) (x : Nat) (hx : x < st.nVid + 1) :
    s ∉ locList (syncFull st s []) (keyOf x) x ∧
    (x ∈ (syncFull st s []).wr (keyOf x) → enoughCopies (syncFull st s []) (keyOf x) x = true) := by
  constructor
  · intro hm
    obtain ⟨a, ha, _⟩ := (full_heartbeat_lookup_exact hk h s [] (fun v hv => by cases hv) hc x hx).mp hm
    cases ha
  · intro hw
    exact (((inv_full hk h s [] (fun v hv => by cases hv)).winv (keyOf x)).2 x hw).1

/-- non-vacuity + the model on the history of the judge classes: two servers hold vid 3 (replication 001),
    it is offered; server 1 sends a full heartbeat without volumes: lookup = [0], not offered -/
theorem empty_full_heartbeat_example :
    let k : Key := ⟨0, 1, 0, 0⟩
    let st := run (init 1000 false 12)
      [.conn 0 0 0 5 0, .conn 1 0 1 5 0, .full 0 [⟨3, 10, false, false, k⟩], .full 1 [⟨3, 10, false, false, k⟩]]
    (st.wr k = [3] ∧ lookup st 3 = [0, 1] ∧ st.conn 1 = true) ∧
    (lookup (step st (.full 1 [])) 3 = [0] ∧ (step st (.full 1 [])).wr k = []) := by decide

/-! ## T1 bridges: facts regenerated from the source by `extract` (props/C11/extract.json → `SwV.Gen.C11`)

Each theorem states the text of a decisive Go condition as it stands in the working tree together with the
model expression that mirrors it; an edit to the Go condition changes the generated string (or the translated
function) and breaks the theorem of that name. -/

/-- `ReplicaPlacement.GetCopyCount` (translated from the source) is `copyCount` on the digits of the
    replica placement byte. -/
theorem bridge_copy_count (rp : Nat) (h : rp < 1000) :
    SwV.Gen.C11.ReplicaPlacement_GetCopyCount ((rp % 10 : Nat) : Int) ((rp % 100 / 10 : Nat) : Int) ((rp / 100 : Nat) : Int)
      = ((copyCount rp : Nat) : Int) := by
  simp only [SwV.Gen.C11.ReplicaPlacement_GetCopyCount, SwV.Go.wrapS, copyCount]
  omega

example : SwV.Gen.C11.ReplicaPlacement_GetCopyCount 1 2 0 = ((copyCount 21 : Nat) : Int) := bridge_copy_count 21 (by decide)

/-- `VolumeLayout.enoughCopies` -/
theorem bridge_enough_copies :
    SwV.Gen.C11.enough_locations = "locations := vl.vid2location[vid].Length()" ∧
    SwV.Gen.C11.enough_desired = "desired := vl.rp.GetCopyCount()" ∧
    SwV.Gen.C11.enough_result = "locations == desired || (vl.replicationAsMin && locations > desired)" ∧
    ∀ (st : St) (k : Key) (vid : Nat), enoughCopies st k vid =
      (let locations := (locList st k vid).length
       let desired := copyCount k.rp
       locations == desired || (st.asMin && decide (locations > desired))) :=
  ⟨by decide, by decide, by decide, fun _ _ _ => rfl⟩

/-- `VolumeLayout.ensureCorrectWritables` -/
theorem bridge_ensure_writables :
    SwV.Gen.C11.ensure_cond = "vl.enoughCopies(vid) && vl.isAllWritable(vid)" ∧
    SwV.Gen.C11.ensure_not_oversized = "!vl.oversizedVolumes.IsTrue(vid)" ∧
    ∀ (st : St) (k : Key) (vid : Nat), ensureWritables st k vid =
      (if enoughCopies st k vid && isAllWritable st k vid then
         (if !(!(st.ov k vid).isEmpty) then setWritable st k vid else st)
       else removeWritable st k vid) := by
  refine ⟨by decide, by decide, fun st k vid => ?_⟩
  simp [ensureWritables]

/-- `VolumeLayout.isAllWritable`: only a replica that is known (`getError == nil`) and read-only counts -/
theorem bridge_all_writable :
    SwV.Gen.C11.allw_known = "getError == nil" ∧ SwV.Gen.C11.allw_readonly = "v.ReadOnly" ∧
    ∀ (st : St) (k : Key) (vid : Nat), isAllWritable st k vid =
      !((locList st k vid).any fun dn => match volOf st dn vid with | some v => v.ro | none => false) := by
  refine ⟨by decide, by decide, fun st k vid => ?_⟩
  simp only [isAllWritable, List.all_eq_not_any_not]
  congr 2; funext dn; cases volOf st dn vid <;> simp

/-- `VolumeLayout.RegisterVolume`: the loop over the location list leaves the writables alone only when
    every replica is known and writable; `rememberOversizedVolume` / `isOversized` -/
theorem bridge_register_volume :
    SwV.Gen.C11.reg_new_list = "!ok" ∧ SwV.Gen.C11.reg_known = "err == nil" ∧
    SwV.Gen.C11.reg_readonly = "vInfo.ReadOnly" ∧
    SwV.Gen.C11.oversized_cond = "vl.isOversized(v)" ∧
    SwV.Gen.C11.oversized_def = "uint64(v.Size) >= vl.volumeSizeLimit" ∧
    ∀ (st : St) (v : VInfo) (s : Nat),
      (registerVolume st v s).ov v.key v.id =
        (if v.size ≥ (touchKey st v.key).limit then setLoc ((touchKey st v.key).ov v.key v.id) s
         else ((touchKey st v.key).ov v.key v.id).erase s) := by
  refine ⟨by decide, by decide, by decide, by decide, by decide, fun st v s => ?_⟩
  simp [registerVolume, updK2]

/-- `VolumeLayout.UnRegisterVolume` and `SetVolumeUnavailable` -/
theorem bridge_unregister :
    SwV.Gen.C11.unreg_unknown = "!ok" ∧ SwV.Gen.C11.unreg_removed = "location.Remove(dn)" ∧
    SwV.Gen.C11.unreg_empty = "location.Length() == 0" ∧
    SwV.Gen.C11.unavail_removed = "location.Remove(dn)" ∧
    SwV.Gen.C11.unavail_too_few = "location.Length() < vl.rp.GetCopyCount()" := by decide

/-- the writable list, the location list, lookup, the refresh round and the EC shard map -/
theorem bridge_lists :
    SwV.Gen.C11.remove_match = "id == vid" ∧ SwV.Gen.C11.remove_found = "toDeleteIndex >= 0" ∧
    SwV.Gen.C11.setw_present = "v == vid" ∧
    SwV.Gen.C11.loclist_set_same = "loc.Ip == dnll.list[i].Ip && loc.Port == dnll.list[i].Port" ∧
    SwV.Gen.C11.loclist_remove_same = "loc.Ip == dnl.Ip && loc.Port == dnl.Port" ∧
    SwV.Gen.C11.lookup_all_collections = "collection == \"\"" ∧
    SwV.Gen.C11.lookup_first_hit = "list != nil" ∧ SwV.Gen.C11.lookup_ec = "found" ∧
    SwV.Gen.C11.full_was_writable = "!vl.SetVolumeCapacityFull(volumeInfo.Id)" ∧
    SwV.Gen.C11.collect_full = "v.Size >= volumeSizeLimit" ∧
    SwV.Gen.C11.ec_add_present = "n.Id() == dn.Id()" ∧ SwV.Gen.C11.ec_del_match = "n.Id() == dn.Id()" ∧
    SwV.Gen.C11.ec_del_absent = "foundIndex < 0" ∧
    SwV.Gen.C11.ec_reg_new = "!found" ∧ SwV.Gen.C11.ec_unreg_unknown = "!found" := by decide

/-- weakest supplement: hashes of the whole mirrored functions -/
theorem bridge_pins :
    SwV.Gen.C11.src_RegisterVolume = "9fdd7237216919b4" ∧
    SwV.Gen.C11.src_UnRegisterVolume = "6a27b017d8a8eaaf" ∧
    SwV.Gen.C11.src_SetVolumeUnavailable = "6c405a10c6006900" ∧
    SwV.Gen.C11.src_ensureCorrectWritables = "c9cc1ac32e193f8c" ∧
    SwV.Gen.C11.src_isAllWritable = "63519f7ee4b9ad67" ∧
    SwV.Gen.C11.src_VolumeLayout_Lookup = "7e24f3c76b87f7fe" ∧
    SwV.Gen.C11.src_Topology_Lookup = "1cdb6325d172c88a" ∧
    SwV.Gen.C11.src_RegisterVolumeLayout = "439697d78fa5ee70" ∧
    SwV.Gen.C11.src_UnRegisterVolumeLayout = "3496bcad33705d52" ∧
    SwV.Gen.C11.src_SyncDataNodeRegistration = "a7f75c220bd2baf8" ∧
    SwV.Gen.C11.src_IncrementalSyncDataNodeRegistration = "6047ff96b0c3c5c7" ∧
    SwV.Gen.C11.src_UnRegisterDataNode = "e112359b6ff7e7cb" ∧
    SwV.Gen.C11.src_SyncDataNodeEcShards = "3170ee30d6bd5e35" ∧
    SwV.Gen.C11.src_IncrementalSyncDataNodeEcShards = "63a4b7e55327dfb9" ∧
    SwV.Gen.C11.src_RegisterEcShards = "7f2bc10ef4e02a33" ∧
    SwV.Gen.C11.src_UnRegisterEcShards = "4d8b5e959b714d10" := by decide

end SwV.Props.C11
