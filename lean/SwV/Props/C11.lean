/-
C11 — property theorems: the writable set reflects the registered state.

`WInv` (= Spec `WritableOk` + no duplicates in the writables slices): every vid offered for writes has
the right number of locations and only writable located replicas.  Proved here for the LAYOUT
MECHANISM over all event sequences: `ensure_spec` (ensureCorrectWritables recomputes the fact from
scratch for its vid and leaves every other vid alone) and `writable_inv_events` (any sequence of
RegisterVolume+Ensure / UnRegisterVolume / EnsureCorrectWritables / SetVolumeCapacityFull events keeps
the invariant, the DataNode side being fixed between events).  The interleaving with DataNode-side
changes inside one heartbeat, SetVolumeUnavailable, and `lookup_exact` are covered by the
correspondence check (model = implementation on every step, judge on every step).
-/
import SwV.Model.C11
import SwV.Spec.C11
namespace SwV.Props.C11
open SwV.Model.C11 SwV.Spec.C11

/-- the fact ensureCorrectWritables establishes for one vid of one layout -/
def Q (st : St) (k : Key) (vid : Nat) : Prop := enoughCopies st k vid = true ∧ isAllWritable st k vid = true

def WInv (st : St) : Prop := ∀ k, (st.wr k).Nodup ∧ ∀ vid, vid ∈ st.wr k → Q st k vid

/-- `WInv` implies the spec statement `WritableOk` -/
theorem winv_writableOk {st : St} (h : WInv st) : WritableOk st := by
  intro k vid hm
  have ⟨he, ha⟩ := (h k).2 vid hm
  refine ⟨he, ?_⟩
  intro s hs v hv
  unfold isAllWritable at ha
  have := List.all_eq_true.mp ha s hs
  rw [hv] at this
  simpa using this

theorem Q_congr {st st' : St} (k : Key) (vid : Nat) (h1 : locList st' k vid = locList st k vid)
    (h2 : st'.toCore = st.toCore) (h3 : st'.asMin = st.asMin) : Q st' k vid ↔ Q st k vid := by
  unfold Q enoughCopies isAllWritable volOf
  rw [h1, h2, h3]

/-- a step that only edits writables: every vid it keeps or adds is justified -/
theorem winv_of_wr {st st' : St} (h : WInv st) (hl : st'.locs = st.locs) (hc : st'.toCore = st.toCore)
    (ha : st'.asMin = st.asMin)
    (hw : ∀ k, (st'.wr k).Nodup ∧ ∀ vid, vid ∈ st'.wr k → vid ∈ st.wr k ∨ Q st k vid) : WInv st' := by
  intro k
  refine ⟨(hw k).1, ?_⟩
  intro vid hm
  rw [Q_congr k vid (by unfold locList; rw [hl]) hc ha]
  rcases (hw k).2 vid hm with h1 | h1
  · exact (h k).2 vid h1
  · exact h1

theorem nodup_erase {l : List Nat} (h : l.Nodup) (a : Nat) : (l.erase a).Nodup := h.erase a

theorem winv_removeWritable {st : St} (h : WInv st) (k : Key) (vid : Nat) : WInv (removeWritable st k vid) := by
  refine winv_of_wr h rfl rfl rfl ?_
  intro k'
  unfold removeWritable updK
  by_cases e : k' = k
  · subst e
    simp only [if_true]
    exact ⟨nodup_erase (h k').1 vid, fun v hv => Or.inl (List.mem_of_mem_erase hv)⟩
  · simp only [e, if_false]
    exact ⟨(h k').1, fun v hv => Or.inl hv⟩

theorem winv_setWritable {st : St} (h : WInv st) (k : Key) (vid : Nat) (hq : Q st k vid) : WInv (setWritable st k vid) := by
  unfold setWritable
  split
  · exact h
  · next hc =>
    refine winv_of_wr h rfl rfl rfl ?_
    intro k'
    unfold updK
    by_cases e : k' = k
    · subst e
      simp only [if_true]
      refine ⟨?_, ?_⟩
      · rw [List.nodup_append]
        refine ⟨(h k').1, by simp, ?_⟩
        intro a ha b hb
        simp at hb; subst hb
        intro e; subst e
        exact hc (by simpa using ha)
      · intro v hv
        rcases List.mem_append.mp hv with h1 | h1
        · exact Or.inl h1
        · simp at h1; subst h1; exact Or.inr hq
    · simp only [e, if_false]
      exact ⟨(h k').1, fun v hv => Or.inl hv⟩

/-- ensureCorrectWritables keeps the invariant whatever the state of its own vid was -/
theorem winv_ensure {st : St} (h : WInv st) (k : Key) (vid : Nat) : WInv (ensureWritables st k vid) := by
  unfold ensureWritables
  split
  · next hq =>
    split
    · exact winv_setWritable h k vid (by simpa [Q] using hq)
    · exact h
  · exact winv_removeWritable h k vid

/-- the invariant for all vids except `vid` of layout `k` (whose locations or replicas just changed) -/
def WInvExcept (st : St) (k0 : Key) (vid0 : Nat) : Prop :=
  ∀ k, (st.wr k).Nodup ∧ ∀ vid, vid ∈ st.wr k → ¬ (k = k0 ∧ vid = vid0) → Q st k vid

/-- C11 core: ensureCorrectWritables RE-ESTABLISHES the fact for its own vid from any state: after it,
    the vid is writable only if it has enough copies and all located replicas are writable -/
theorem ensure_spec {st : St} (k : Key) (vid : Nat) (h : WInvExcept st k vid) : WInv (ensureWritables st k vid) := by
  unfold ensureWritables
  split
  · next hq =>
    have hq : Q st k vid := by simpa [Q] using hq
    have hall : WInv st := by
      intro k'
      refine ⟨(h k').1, fun v hv => ?_⟩
      by_cases e : k' = k ∧ v = vid
      · obtain ⟨rfl, rfl⟩ := e; exact hq
      · exact (h k').2 v hv e
    split
    · exact winv_setWritable hall k vid hq
    · exact hall
  · intro k'
    unfold removeWritable updK
    by_cases e : k' = k
    · subst e
      simp only [if_true]
      refine ⟨nodup_erase (h k').1 vid, ?_⟩
      intro v hv
      have hne : v ≠ vid := by
        intro e; subst e
        exact (List.Nodup.mem_erase_iff (h k').1).mp hv |>.1 rfl
      have := (h k').2 v (List.mem_of_mem_erase hv) (fun ⟨_, e⟩ => hne e)
      exact (Q_congr k' v rfl rfl rfl).mpr this
    · simp only [e, if_false]
      refine ⟨(h k').1, ?_⟩
      intro v hv
      exact (Q_congr k' v rfl rfl rfl).mpr ((h k').2 v hv (fun ⟨e', _⟩ => e e'))

theorem except_of {st st1 : St} (k0 : Key) (vid0 : Nat) (h : WInv st) (hc : st1.toCore = st.toCore)
    (ha : st1.asMin = st.asMin)
    (hl : ∀ k vid, ¬ (k = k0 ∧ vid = vid0) → st1.locs k vid = st.locs k vid)
    (hw : ∀ k, (st1.wr k).Nodup ∧ ∀ v, v ∈ st1.wr k → v ∈ st.wr k) : WInvExcept st1 k0 vid0 := by
  intro k
  refine ⟨(hw k).1, ?_⟩
  intro v hv hne
  exact (Q_congr k v (by unfold locList; rw [hl k v hne]) hc ha).mpr ((h k).2 v ((hw k).2 v hv))

theorem touchKey_wr (st : St) (k : Key) : (touchKey st k).wr = st.wr ∧ (touchKey st k).locs = st.locs ∧
    (touchKey st k).toCore = st.toCore ∧ (touchKey st k).asMin = st.asMin ∧ (touchKey st k).ov = st.ov ∧ (touchKey st k).limit = st.limit := by
  unfold touchKey; split <;> exact ⟨rfl, rfl, rfl, rfl, rfl, rfl⟩

theorem winv_touchKey {st : St} (h : WInv st) (k : Key) : WInv (touchKey st k) := by
  have t := touchKey_wr st k
  exact winv_of_wr h t.2.1 t.2.2.1 t.2.2.2.1 (fun k' => by rw [t.1]; exact ⟨(h k').1, fun v hv => Or.inl hv⟩)

/-- Topology.RegisterVolumeLayout (RegisterVolume; EnsureCorrectWritables) keeps the invariant -/
theorem winv_register {st : St} (h : WInv st) (v : VInfo) (s : Nat) : WInv (registerLayout st v s) := by
  have h' := winv_touchKey h v.key
  unfold registerLayout
  apply ensure_spec
  apply except_of (st := touchKey st v.key) (st1 := registerVolume st v s) v.key v.id h' rfl rfl
  · intro k vid hne
    simp [registerVolume, updK2, hne]
  · intro k
    simp only [registerVolume]
    split
    · unfold updK
      by_cases e : k = v.key
      · subst e
        simp only [if_true]
        exact ⟨nodup_erase (h' _).1 v.id, fun x hx => List.mem_of_mem_erase hx⟩
      · simp only [e, if_false]
        exact ⟨(h' k).1, fun x hx => hx⟩
    · exact ⟨(h' k).1, fun x hx => hx⟩

/-- dropping an empty location list does not change any fact -/
theorem winv_dropEmpty {st : St} (h : WInv st) (k : Key) (vid : Nat) (he : locList st k vid = []) :
    WInv { st with locs := updK2 st.locs k vid none } := by
  intro k'
  refine ⟨(h k').1, fun v hv => ?_⟩
  refine (Q_congr (st' := { st with locs := updK2 st.locs k vid none }) (st := st) k' v ?_ rfl rfl).mpr ((h k').2 v hv)
  unfold locList updK2
  by_cases e : k' = k ∧ v = vid
  · obtain ⟨rfl, rfl⟩ := e
    simp only [and_self, if_true]
    exact he.symm
  · simp only [e, if_false]

/-- Topology.UnRegisterVolumeLayout keeps the invariant -/
theorem winv_unregister {st : St} (h : WInv st) (v : VInfo) (s : Nat) : WInv (unregisterLayout st v s) := by
  have h' := winv_touchKey h v.key
  simp only [unregisterLayout]
  split
  · exact h'
  · next l hl =>
    split
    · have h2 : WInv (ensureWritables ({ touchKey st v.key with
          locs := updK2 (touchKey st v.key).locs v.key v.id (some (l.erase s)),
          ov := updK2 (touchKey st v.key).ov v.key v.id (((touchKey st v.key).ov v.key v.id).erase s) } : St) v.key v.id) := by
        apply ensure_spec
        apply except_of (st := touchKey st v.key) (st1 := ({ touchKey st v.key with
          locs := updK2 (touchKey st v.key).locs v.key v.id (some (l.erase s)),
          ov := updK2 (touchKey st v.key).ov v.key v.id (((touchKey st v.key).ov v.key v.id).erase s) } : St)) v.key v.id h' rfl rfl
        · intro k vid hne; simp [updK2, hne]
        · intro k; exact ⟨(h' k).1, fun x hx => hx⟩
      split
      · next hemp =>
        apply winv_dropEmpty h2
        have : (ensureWritables ({ touchKey st v.key with
          locs := updK2 (touchKey st v.key).locs v.key v.id (some (l.erase s)),
          ov := updK2 (touchKey st v.key).ov v.key v.id (((touchKey st v.key).ov v.key v.id).erase s) } : St) v.key v.id).locs
            = updK2 (touchKey st v.key).locs v.key v.id (some (l.erase s)) := by
          unfold ensureWritables setWritable removeWritable
          split
          · split
            · split <;> rfl
            · rfl
          · rfl
        unfold locList
        rw [this]
        simp [updK2, List.isEmpty_iff.mp hemp]
      · exact h2
    · exact h'

/-! ## event sequences -/

/-- the layout-side events of the master -/
inductive Ev where
  | register (v : VInfo) (s : Nat)      -- RegisterVolumeLayout (new volume seen on s)
  | unregister (v : VInfo) (s : Nat)    -- UnRegisterVolumeLayout (volume gone from s)
  | ensure (k : Key) (vid : Nat)        -- EnsureCorrectWritables (read-only flag changed)
  | capacityFull (k : Key) (vid : Nat)  -- SetVolumeCapacityFull (refresh round)

def applyEv (st : St) : Ev → St
  | .register v s => registerLayout st v s
  | .unregister v s => unregisterLayout st v s
  | .ensure k vid => ensureWritables (touchKey st k) k vid
  | .capacityFull k vid => removeWritable (touchKey st k) k vid

theorem winv_init (limit : Nat) (asMin : Bool) (nVid : Nat) : WInv (init limit asMin nVid) := by
  intro k; exact ⟨by simp [init], by intro v hv; simp [init] at hv⟩

/-- C11 main theorem (layout mechanism): for ALL event sequences, every vid in a writables slice has
    enough copies and only writable located replicas -/
theorem writable_inv_events (st : St) (h : WInv st) (evs : List Ev) : WInv (evs.foldl applyEv st) := by
  induction evs generalizing st with
  | nil => exact h
  | cons e evs ih =>
    simp only [List.foldl_cons]
    apply ih
    cases e with
    | register v s => exact winv_register h v s
    | unregister v s => exact winv_unregister h v s
    | ensure k vid => exact winv_ensure (winv_touchKey h k) k vid
    | capacityFull k vid => exact winv_removeWritable (winv_touchKey h k) k vid

theorem writable_ok_events (limit : Nat) (asMin : Bool) (nVid : Nat) (evs : List Ev) :
    WritableOk (evs.foldl applyEv (init limit asMin nVid)) :=
  winv_writableOk (writable_inv_events _ (winv_init limit asMin nVid) evs)

/-- the full statement is false of the code in one respect (known finding
    ensureCorrectWritables/full-volume-offered-again): a volume whose registered size is over the limit is
    writable again after a replica came and went -/
theorem full_volume_offered_again :
    let k : Key := ⟨1, 0, 0, 1⟩
    let st := run (init 1000 false 12)
      [.conn 1 1 1 6 4, .conn 0 1 1 5 0, .inc 1 [⟨4, 0, false, false, k⟩] [], .full 1 [⟨4, 1046, false, false, k⟩],
       .refresh, .inc 0 [⟨4, 0, false, false, k⟩] [], .inc 0 [] [⟨4, 0, false, false, k⟩]]
    (st.wr k = [4]) ∧ (volOf st 1 4).map (·.size) = some 1046 := by decide

end SwV.Props.C11
