/-
C38 — concurrent volume operations are linearizable per file id.

The content is C01 (every sequential history of the model is a history of the key-value
specification) plus the ATOMICITY ASSUMPTION: every call takes effect in one atomic step
(`dataFileAccessLock` around syncWrite / syncDelete / readNeedle; the batched worker applies
its whole batch inside one critical section) at some instant between its invocation and its
response.  The theorem below is deliberately thin: GIVEN atomic steps, the order of the steps
is a linearization.  The assumption itself is validated at run time (Drv/C38.lean searches a
linearization of recorded histories from the real Store with the model's step function).
-/
import SwV.Model.C01
import SwV.Spec.C01
import SwV.Spec.C38
import SwV.Lemmas.C01
import SwV.Props.C01
import SwV.Lemmas.C38
import SwV.Lemmas.C38b
import SwV.Gen.C38

namespace SwV.Props.C38
open SwV.Model.C01 SwV.Spec.C01 SwV.Lemmas.C01 SwV.Spec.C38 SwV.Props.C01

/-- one completed call of a concurrent execution: who, what, the output it returned, and the
    instants of invocation, of its atomic step, and of its response -/
structure Call where
  client : Nat
  op  : Op
  out : MOut
  inv : Nat
  lin : Nat
  ret : Nat

/-- An execution with atomic steps, listed in the order of the steps: the steps happen at
    distinct increasing instants, each inside its call's interval, and every call returned
    the output its step produced when the steps are applied to the volume in that order. -/
def AtomicRun (st0 : Vol) (calls : List Call) : Prop :=
  calls.Pairwise (fun a b => a.lin < b.lin) ∧
  (∀ a ∈ calls, a.inv < a.lin ∧ a.lin < a.ret) ∧
  (run st0 (calls.map (·.op))).2 = calls.map (·.out)

/-- real-time order: whenever call i had returned before call j was invoked, i comes first -/
def RespectsRealTime (calls : List Call) : Prop :=
  ∀ i j (hi : i < calls.length) (hj : j < calls.length), calls[i].ret < calls[j].inv → i < j

/-- Every interleaving of atomic steps of concurrent clients is a sequential history that
    respects real-time order; outside the C01 exclusions it is a history of the key-value
    SPECIFICATION and the volume's final contents are the specification's final state. -/
theorem atomic_steps_linearizable (st0 : Vol) (hI : Inv st0) (calls : List Call) (h : AtomicRun st0 calls) :
    RespectsRealTime calls ∧
    (Admissible (abs st0) (calls.map (·.op)) →
      (srun (abs st0) (calls.map (·.op))).2 = calls.map (fun a => absOut a.out) ∧
      abs (run st0 (calls.map (·.op))).1 = (srun (abs st0) (calls.map (·.op))).1) := by
  obtain ⟨hsorted, hint, hout⟩ := h
  constructor
  · intro i j hi hj hlt
    have hi' := hint calls[i] (List.getElem_mem hi)
    have hj' := hint calls[j] (List.getElem_mem hj)
    rcases Nat.lt_trichotomy i j with hij | hij | hij
    · exact hij
    · subst hij; omega
    · have := (List.pairwise_iff_getElem.mp hsorted) j i hj hi hij
      omega
  · intro hA
    obtain ⟨_, hs, ho⟩ := volume_refines_kv_partial (calls.map (·.op)) st0 hI hA
    refine ⟨?_, hs⟩
    rw [← ho, hout, List.map_map]
    rfl

/-- the hypotheses are satisfiable: two overlapping calls whose steps happen in the order write, read -/
example : AtomicRun (Vol.init (0, 0))
    [⟨1, .write 1 7 { data := "61" }, .w (.ok false), 1, 3, 6⟩,
     ⟨2, .read 1 7, .r (.ok 1 7 6 { data := "61" }), 2, 4, 5⟩] := by
  refine ⟨by simp, by simp, by decide⟩

/-- a sequential execution (each call returns before the next is invoked) is linearized in its
    own order: the real-time clause then pins the order completely -/
theorem sequential_history_is_its_own_linearization (calls : List Call)
    (hseq : calls.Pairwise (fun a b => a.ret < b.inv)) (hint : ∀ a ∈ calls, a.inv < a.lin ∧ a.lin < a.ret) :
    calls.Pairwise (fun a b => a.lin < b.lin) := by
  induction calls with
  | nil => exact List.Pairwise.nil
  | cons a rest ih =>
    rw [List.pairwise_cons] at hseq ⊢
    refine ⟨?_, ih hseq.2 (fun b hb => hint b (List.mem_cons_of_mem _ hb))⟩
    intro b hb
    have ha := hint a List.mem_cons_self
    have hb' := hint b (List.mem_cons_of_mem _ hb)
    have := hseq.1 b hb
    omega

/-- the search used on recorded histories answers `found` on an empty history and never
    invents calls: with no pending call there is nothing to order -/
theorem linearize_empty {σ : Type} (stepf : σ → Op → σ × List String) (okf : Rcd → List String → Bool)
    (st0 : σ) (fuel : Nat) : linearize stepf okf st0 [] fuel = .found := by
  simp [linearize, search]

/-! ## T1 bridges for the ATOMICITY ASSUMPTION (props/C38/extract.json → `SwV.Gen.C38`)

The step function itself (`doWriteRequest`, `doDeleteRequest`, `readNeedle`, `isFileUnchanged`) is bridged in
`SwV.Props.C01` (imported above; regenerated through props/C01/extract.json).  What C38 adds is WHERE those
steps run: under `dataFileAccessLock` in `syncWrite` / `syncDelete`, and for the batched (fsync) path inside
the single critical section of `startWorker`.  Lock placement is not an expression the extractor can name, so
it is pinned by the hash of the whole (short) functions: moving an `Unlock`, adding a lock-free fast path or
releasing the lock around `Sync()` breaks `bridge_atomicity_pins`. -/

/-- which path a call takes and what the batch worker applies to each request -/
theorem bridge_worker_steps :
    SwV.Gen.C38.write_path_choice = "!fsync" ∧
    SwV.Gen.C38.worker_empty_batch = "len(currentRequests) == 0" ∧
    SwV.Gen.C38.worker_is_write = "currentRequests[i].IsWriteRequest" ∧
    SwV.Gen.C38.worker_write_arg = "currentRequests[i].N" ∧
    SwV.Gen.C38.worker_delete_arg = "currentRequests[i].N" ∧
    SwV.Gen.C38.worker_rollback_cond = "currentRequests[i].IsSucceed()" := by decide

/-- the functions that hold `dataFileAccessLock` around the atomic step -/
theorem bridge_atomicity_pins :
    SwV.Gen.C38.src_syncWrite = "474a364d8c232e39" ∧ SwV.Gen.C38.src_syncDelete = "fda0258c18889fe6" ∧
    SwV.Gen.C38.src_writeNeedle2 = "5a500af09b68573a" ∧ SwV.Gen.C38.src_deleteNeedle2 = "c119c730acc1e08e" ∧
    SwV.Gen.C38.src_startWorker = "34ecf45dfe50dd6b" ∧ SwV.Gen.C38.src_asyncRequestAppend = "808761d9be4fb006" := by
  decide

/-- the step functions applied inside those critical sections are the ones bridged for C01 -/
theorem bridge_step_functions :
    SwV.Gen.C01.src_doWriteRequest = "673b0ac565c7bfce" ∧ SwV.Gen.C01.src_doDeleteRequest = "bb4f3b7b20271c7d" ∧
    SwV.Gen.C01.src_readNeedle = "f3764387cee126f8" ∧ SwV.Gen.C01.src_isFileUnchanged = "9b0c84174250e52d" := by
  decide

/-! ## the per-key decomposition of the run-time search is sound (was: trusted base)

The driver does not search one linearization of a whole recorded history; for every file id `k` it runs
`linearize modelStep strict (Vol.init _) (subHistory calls k)` and accepts when each answers `found`.
The section proves that this accept condition yields a linearization of the WHOLE history:

  * `frame_and_locality_spec` / `frame_and_locality_model` — a step on id `a` leaves the view of every other id
    unchanged and its own output/new view depend on the old view of `a` only (C01 specification `sstep`, and the
    C01 model `step` the driver runs, for states whose index offsets point into the log);
  * `ops_on_different_ids_commute` — hence two operations on different ids commute;
  * `search_accept_is_linearization` — an accepting search returns an explicit linearization of its input;
  * `linearizable_of_per_key` — the composition (per-key orders are merged by invocation stamp of their heads).

Hypotheses = what the driver checks on every history (`bad-stamps`, `global-toggle-in-history`) plus distinct line
numbers, which hold by construction (`line := n`). -/

open SwV.Lemmas.C38

/-- FRAME lemma for the C01 specification -/
theorem frame_and_locality_spec : Local sstep sview (fun _ => True) := local_sstep

/-- FRAME lemma for the C01 model's step function with token outputs (the oracle of the search) -/
theorem frame_and_locality_model : Local modelStep mview minv := local_modelStep

/-- operations on different file ids commute in the C01 specification: same outputs in either order and the same
    resulting entry for every id (and the same flags) -/
theorem ops_on_different_ids_commute (s : KV) (o1 o2 : Op) (h1 : keyed o1 = true) (h2 : keyed o2 = true)
    (hne : opId o1 ≠ opId o2) :
    (sstep s o1).2 = (sstep (sstep s o2).1 o1).2 ∧ (sstep (sstep s o1).1 o2).2 = (sstep s o2).2 ∧
    ∀ k, sview (sstep (sstep s o1).1 o2).1 k = sview (sstep (sstep s o2).1 o1).1 k :=
  commute_of_local local_sstep s trivial o1 o2 h1 h2 hne

example : keyed (.write 1 7 { data := "61" }) = true ∧ keyed (.delete 2 0) = true ∧
    opId (.write 1 7 { data := "61" }) ≠ opId (.delete 2 0) := by decide

/-- the same for the model (observed through the per-id view) -/
theorem model_ops_on_different_ids_commute (st : Vol) (hI : minv st) (o1 o2 : Op) (h1 : keyed o1 = true)
    (h2 : keyed o2 = true) (hne : opId o1 ≠ opId o2) :
    (modelStep st o1).2 = (modelStep (modelStep st o2).1 o1).2 ∧
    (modelStep (modelStep st o1).1 o2).2 = (modelStep st o2).2 ∧
    ∀ k, mview (modelStep (modelStep st o1).1 o2).1 k = mview (modelStep (modelStep st o2).1 o1).1 k :=
  commute_of_local local_modelStep st hI o1 o2 h1 h2 hne

example : minv (Vol.init (0, 0)) := minv_init _

/-- an accepting search run IS a linearization: a permutation of the calls in which whoever comes first was
    invoked before the later one returned, and in which the oracle reproduces every recorded output -/
theorem search_accept_is_linearization {σ : Type} (stepf : σ → Op → σ × List String) (okf : Rcd → List String → Bool)
    (st0 : σ) (calls : List Rcd) (fuel : Nat) (hd : DistinctLines calls)
    (h : linearize stepf okf st0 calls fuel = .found) : ∃ order, IsLin stepf okf st0 calls order :=
  linearize_sound stepf okf st0 calls fuel hd h

/-- COMPOSITION (locality of linearizability): if the search accepts the sub-history of every file id, the whole
    history has a linearization — for every okf (strict, or strict-or-wildcard). -/
theorem linearizable_of_per_key (okf : Rcd → List String → Bool) (ttl : Nat × Nat) (calls : List Rcd) (fuel : Nat)
    (hstamps : ∀ c ∈ calls, c.inv < c.ret) (hkeyed : ∀ c ∈ calls, keyed c.op = true) (hlines : DistinctLines calls)
    (hacc : ∀ k ∈ keysOf calls, linearize modelStep okf (Vol.init ttl) (subHistory calls k) fuel = .found) :
    ∃ order, IsLin modelStep okf (Vol.init ttl) calls order := by
  apply compose local_modelStep okf (Vol.init ttl) (minv_init ttl) calls hstamps hkeyed
  intro k
  by_cases hk : k ∈ keysOf calls
  · exact linearize_sound _ _ _ _ fuel (distinct_filter calls _ hlines) (hacc k hk)
  · rw [subHistory_nil_of_not_mem calls k hk]
    exact ⟨[], isLin_nil _ _ _⟩

/-- conversely a linearization of the whole history restricts to one of every sub-history, so a sub-history
    WITHOUT linearization (`history/not-linearizable` for one key) refutes linearizability of the whole -/
theorem per_key_of_linearizable (okf : Rcd → List String → Bool) (ttl : Nat × Nat) (calls order : List Rcd)
    (hkeyed : ∀ c ∈ calls, keyed c.op = true) (h : IsLin modelStep okf (Vol.init ttl) calls order) (k : Nat) :
    IsLin modelStep okf (Vol.init ttl) (subHistory calls k) (subHistory order k) :=
  project local_modelStep okf (Vol.init ttl) (minv_init ttl) calls order hkeyed h k

/-- what the linearization says, unfolded: real-time order is respected -/
theorem linearization_respects_real_time {σ : Type} {stepf : σ → Op → σ × List String} {okf : Rcd → List String → Bool}
    {st0 : σ} {calls order : List Rcd} (h : IsLin stepf okf st0 calls order) :
    order.Pairwise (fun c d => ¬ d.ret < c.inv) := by
  have := h.rt
  unfold RealTimeOk at this
  exact List.Pairwise.imp (fun hcd => by omega) this

def hw : Rcd := ⟨1, 1, 6, .write 1 7 { data := "61" }, ["ok", "0"], 1⟩
def hr : Rcd := ⟨2, 2, 5, .read 1 7, (modelStep (modelStep (Vol.init (0, 0)) hw.op).1 (.read 1 7)).2, 2⟩
def hd2 : Rcd := ⟨3, 3, 4, .delete 2 0, ["ok", "0"], 3⟩

/-- the hypotheses are satisfiable and the search accepts: two overlapping calls on id 1, one on id 2 -/
example : (∀ c ∈ [hw, hr, hd2], c.inv < c.ret) ∧ (∀ c ∈ [hw, hr, hd2], keyed c.op = true) ∧ DistinctLines [hw, hr, hd2] ∧
    keysOf [hw, hr, hd2] = [1, 2] := by
  refine ⟨by decide, by decide, by unfold DistinctLines; decide, by decide⟩
/-- … and on that history the search accepts every sub-history (the accept condition of `linearizable_of_per_key`) -/
example : ∀ k ∈ keysOf [hw, hr, hd2], linearize modelStep strict (Vol.init (0, 0)) (subHistory [hw, hr, hd2] k) 10 = .found := by
  have hk : keysOf [hw, hr, hd2] = [1, 2] := by decide
  rw [hk]
  intro k hkm
  simp only [List.mem_cons, List.not_mem_nil, or_false] at hkm
  rcases hkm with rfl | rfl
  · have : subHistory [hw, hr, hd2] 1 = [hw, hr] := by rfl
    rw [this]
    simp [linearize, search, search.tryAll, minimal, hw, hr, strict, modelStep]
    rw [if_pos (by decide)]
  · have : subHistory [hw, hr, hd2] 2 = [hd2] := by rfl
    rw [this]
    simp [linearize, search, search.tryAll, minimal, hd2, strict, modelStep]
    rw [if_pos (by decide)]

end SwV.Props.C38
