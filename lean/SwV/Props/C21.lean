/-
C21 — property theorems: hard links share one file.

`Cons s h` (Lemmas/C21): identity h has no record and no names, or a file record for h whose
counter is the number of stored names carrying h. `ConsAll` = every non-zero identity.
All statements are about the executable model (SwV/Model/C18.lean), which the correspondence
check compares with the real Filer after every operation (stored entries, FindEntry and
listing views, link records).
-/
import SwV.Model.C18
import SwV.Gen.C21
import SwV.Spec.C21
import SwV.Lemmas.C18
import SwV.Lemmas.C21

namespace SwV.Props.C21
open SwV.Model.C18 SwV.Spec.C21 SwV.Lemmas.C18 SwV.Lemmas.C21

/-! ### links_share -/

/-- all names of an identity that has its record show the record (content, attributes, counter) through FindEntry -/
theorem links_share (s : St) (p q : RPath) (a b r : Entry) (ha : lookup p s.ents = some a) (hb : lookup q s.ents = some b)
    (hab : a.hl = b.hl) (h0 : a.hl ≠ 0) (hr : kvGet s a.hl = some r) : find s p = some r ∧ find s q = some r := by
  have h0b : b.hl ≠ 0 := hab ▸ h0
  constructor
  · simp [find, ha, h0, hr]
  · rw [hab] at hr
    simp [find, hb, h0b, hr]

/-- in a consistent state every name of an identity shows the same thing -/
theorem links_share_consistent (s : St) (inv : TreeInv s) (c : ConsAll s) (p q : RPath) (a b : Entry)
    (ha : (p, a) ∈ s.ents) (hb : (q, b) ∈ s.ents) (hab : a.hl = b.hl) (h0 : a.hl ≠ 0) : find s p = find s q := by
  rcases (find_of_cons inv ha).2 h0 (c _ h0) with ⟨r, hg, hf, _⟩
  have h0b : b.hl ≠ 0 := hab ▸ h0
  rcases (find_of_cons inv hb).2 h0b (c _ h0b) with ⟨r', hg', hf', _⟩
  rw [← hab, hg] at hg'
  rw [hf, hf', Option.some.inj hg']

/-- the record of identity ex.hl after a write through one of its names -/
theorem write_record (s : St) (inv : TreeInv s) (c : ConsAll s) (p : RPath) (ex : Entry) (hm : (p, ex) ∈ s.ents)
    (hk : ex.hl ≠ 0) (tag : Nat) (chunks : List Nat) :
    ∃ e, kvGet (step s (.write p tag chunks)).1 ex.hl = some e ∧ e.chunks = chunks ∧ e.tag = tag ∧ e.hl = ex.hl := by
  rcases (find_of_cons inv hm).2 hk (c _ hk) with ⟨r, hg, hf, hrl, hrf, hrc⟩
  have hl := lookup_of_mem_nodup inv.nodup hm
  cases p with
  | nil => exact absurd rfl (inv.parent _ hm).1
  | cons n par =>
    simp only [step, hf, createEntry, Bool.false_eq_true, if_false, hrf, bne_self_eq_false]
    have hne : ({ isDir := false, tag := tag, chunks := chunks, hl := r.hl, cnt := r.cnt } : Entry).hl ≠ 0 := by
      simp [hrl, hk]
    have hkv := kv_wInsert_same s (n :: par) { isDir := false, tag := tag, chunks := chunks, hl := r.hl, cnt := r.cnt } ex
      hne hl (Or.inl (by simp [hrl]))
    refine ⟨{ isDir := false, tag := tag, chunks := chunks, hl := r.hl, cnt := r.cnt }, ?_, rfl, rfl, hrl⟩
    rw [kvGet_congr hkv, kvGet_kvPut]
    simp [hrl]

/-- MAIN (links_share): an update made through ANY name of an identity shows through EVERY name of it -/
theorem write_visible_through_all_names (s : St) (inv : TreeInv s) (c : ConsAll s) (p : RPath) (ex : Entry)
    (hm : (p, ex) ∈ s.ents) (hk : ex.hl ≠ 0) (tag : Nat) (chunks : List Nat) :
    ∀ (q : RPath) (b : Entry), (q, b) ∈ (step s (.write p tag chunks)).1.ents → b.hl = ex.hl →
      ∃ v, find (step s (.write p tag chunks)).1 q = some v ∧ v.chunks = chunks ∧ v.tag = tag := by
  intro q b hq hb
  have inv' : TreeInv (step s (.write p tag chunks)).1 := inv_step inv (by simp [OpOk])
  have c' := consAll_write inv c p tag chunks
  rcases write_record s inv c p ex hm hk tag chunks with ⟨e, he, hec, het, _⟩
  have hb0 : b.hl ≠ 0 := hb ▸ hk
  rcases (find_of_cons inv' hq).2 hb0 (c' _ hb0) with ⟨r, hg, hf, _⟩
  rw [hb, he] at hg
  cases hg
  exact ⟨e, hf, hec, het⟩

example : ∃ (s : St) (p : RPath) (ex : Entry), TreeInv s ∧ (p, ex) ∈ s.ents ∧ ex.hl ≠ 0 :=
  ⟨run {} [.create ["a"] { isDir := false, tag := 1, chunks := [1], hl := 0, cnt := 0 } false, .link ["a"] ["b"] 1],
   ["b"], { isDir := false, tag := 1, chunks := [1], hl := 1, cnt := 2 },
   inv_run _ _ inv_empty (by simp [OpOk]), by decide, by decide⟩

/-! ### counter_eq_names -/

/-- operations under which the counter invariant is proved: write through a name, link with a fresh identity for a
    plain source, unlink / delete of a file (any flags), create or overwrite with a plain entry where no linked name is.
    Excluded = exactly the known findings: rename (drops the link), a plain entry over a linked name, raw updates,
    deletes of directories (metadata-only recursive delete forgets the links below). -/
def Allowed (s : St) : Op → Prop
  | .write _ _ _ => True
  | .link src _ h => LinkFresh s src h
  | .unlink p => ∀ o, find s p = some o → o.isDir = false
  | .delete p _ _ _ => ∀ o, find s p = some o → o.isDir = false
  | .create p e _ => e.hl = 0 ∧ ∀ ex, (p, ex) ∈ s.ents → ex.hl = 0
  | _ => False

/-- one step keeps every identity's counter equal to its number of names, and its record present exactly while
    names exist -/
theorem counter_eq_names_step (s : St) (op : Op) (inv : TreeInv s) (c : ConsAll s) (ok : Allowed s op) :
    ConsAll (step s op).1 := by
  cases op with
  | write p tag chunks => exact consAll_write inv c p tag chunks
  | link src dst h => exact consAll_link inv c src dst h ok
  | unlink p => exact consAll_unlink inv c p ok
  | create p e x => exact consAll_create_plain inv c p e x ok.1 ok.2
  | delete p r i d => exact consAll_delete_file inv c p r i d ok
  | update p e => exact absurd ok (by simp [Allowed])
  | rename a b => exact absurd ok (by simp [Allowed])

/-- every operation of the history is allowed in the state it is applied to -/
def AllowedRun : St → List Op → Prop
  | _, [] => True
  | s, op :: t => Allowed s op ∧ AllowedRun (step s op).1 t

theorem allowed_opOk (s : St) (op : Op) (h : Allowed s op) : OpOk op := by
  cases op with
  | create p e x => intro _; exact h.1
  | update p e => exact absurd h (by simp [Allowed])
  | _ => simp [OpOk]

/-- MAIN (counter_eq_names): after ANY history of write / link / unlink the counter of every identity equals its
    number of names (by induction over the history) -/
theorem counter_eq_names_run (ops : List Op) : ∀ (s : St), TreeInv s → ConsAll s → AllowedRun s ops →
    ConsAll (run s ops) ∧ TreeInv (run s ops) := by
  induction ops with
  | nil => intro s inv c _; exact ⟨c, inv⟩
  | cons op t ih =>
    intro s inv c ok
    simp only [run, List.foldl]
    exact ih _ (inv_step inv (allowed_opOk s op ok.1)) (counter_eq_names_step s op inv c ok.1) ok.2

theorem consAll_empty : ConsAll {} := by
  intro h _
  simp [Cons, kvGet, nameCount]

theorem counter_eq_names (ops : List Op) (ok : AllowedRun {} ops) : ConsAll (run {} ops) :=
  (counter_eq_names_run ops {} inv_empty consAll_empty ok).1

example : AllowedRun {} [.write ["a"] 1 [1], .link ["a"] ["b"] 1, .unlink ["a"]] := by
  refine ⟨trivial, ?_, ?_, trivial⟩
  · intro ex _ _
    exact ⟨by decide, by decide⟩
  · intro o ho
    have : find (step (step {} (.write ["a"] 1 [1])).1 (.link ["a"] ["b"] 1)).1 ["a"]
        = some { isDir := false, tag := 1, chunks := [1], hl := 1, cnt := 2 } := by decide
    rw [this] at ho
    cases ho
    rfl

/-- "the shared record disappears exactly when the last name is removed" -/
theorem record_iff_names (s : St) (h : Nat) (c : Cons s h) : kvGet s h = none ↔ nameCount s.ents h = 0 := by
  unfold Cons at c
  cases hg : kvGet s h with
  | none => rw [hg] at c; simp [c]
  | some r => rw [hg] at c; simp [c.2.2.1]

/-- consistency is what the judge checks (`counterOk` over the implementation's dump) -/
theorem counterOk_of_cons (s : St) (h : Nat) (c : Cons s h) : counterOk s.ents s.kv h = true := by
  have hn : (namesOf s.ents h).length = nameCount s.ents h := by
    simp [namesOf, nameCount, List.countP_eq_length_filter]
  have hr : record s.kv h = kvGet s h := rfl
  unfold Cons at c
  unfold counterOk
  rw [hn, hr]
  cases hg : kvGet s h with
  | none => rw [hg] at c; simp [c]
  | some r => rw [hg] at c; simp [c.2.2.1, c.2.2.2]

/-! ### what is NOT true of the code (known findings): witnesses

FULL-STRENGTH statement: `ConsAll` and "a renamed name stays a name of its identity" hold after EVERY operation.
False for rename, for a plain overwrite of a linked name, and for a metadata-only recursive delete: -/

def linkedPair : St := run {} [.create ["a"] { isDir := false, tag := 1, chunks := [1], hl := 0, cnt := 0 } false, .link ["a"] ["b"] 1]

/-- rename/drops-hard-link: the renamed name is a plain file afterwards (moveSelfEntry copies no HardLinkId) -/
theorem rename_drops_hard_link_witness :
    (lookup ["b"] linkedPair.ents).map (·.hl) = some 1 ∧
    (lookup ["d"] (step linkedPair (.rename ["b"] ["d"])).1.ents).map (·.hl) = some 0 := by decide

/-- create/counter-above-names: a plain entry over a linked name leaves the counter at 2 with one name -/
theorem overwrite_keeps_counter_witness :
    let s' := (step linkedPair (.create ["a"] { isDir := false, tag := 4, chunks := [2], hl := 0, cnt := 0 } false)).1
    (kvGet s' 1).map (·.cnt) = some 2 ∧ nameCount s'.ents 1 = 1 := by decide

/-- delete-meta-only/counter-above-names: metadata-only recursive delete of the directory of a name -/
theorem meta_only_delete_keeps_counter_witness :
    let s := run {} [.create ["c", "a"] { isDir := false, tag := 1, chunks := [1], hl := 0, cnt := 0 } false, .link ["c", "a"] ["b"] 1]
    let s' := (step s (.delete ["a"] true false false)).1
    (kvGet s' 1).map (·.cnt) = some 2 ∧ nameCount s'.ents 1 = 1 := by decide

/-- the stored copy of the OTHER name keeps the old content after a write (what a leveldb2 listing shows) -/
theorem listing_stale_witness :
    let s' := (step linkedPair (.write ["b"] 2 [2])).1
    (children s' []).map (fun x => (x.1, x.2.chunks)) = [("a", [1]), ("b", [2])] ∧
    (find s' ["a"]).map (·.chunks) = some [2] := by decide

/-! ### tie to the source (T1): the Go functions this model mirrors are the ones it was written against -/

/-- a source edit of any mirrored function changes its hash and breaks this obligation (the model must then be
    re-read against the code; the correspondence check says whether behaviour changed) -/
theorem bridge_source_pins :
    SwV.Gen.C21.src_handleUpdateToHardLinks = "33f7d51202e82d7e" ∧
    SwV.Gen.C21.src_setHardLink = "ec3767ce94f9ae6b" ∧
    SwV.Gen.C21.src_maybeReadHardLink = "e36b9e844d02cbd6" ∧
    SwV.Gen.C21.src_DeleteHardLink = "a2ddc84588aadf75" ∧
    SwV.Gen.C21.src_InsertEntry = "bbabe9f3d4e7edec" ∧
    SwV.Gen.C21.src_UpdateEntry = "f7fe3164dd69a486" ∧
    SwV.Gen.C21.src_FindEntry = "f1b72d3fe965f0cb" ∧
    SwV.Gen.C21.src_DeleteOneEntry = "f25f2d182ec2dcf7" ∧
    SwV.Gen.C21.src_ListDirectoryPrefixedEntries = "e6f15774cc588814" ∧
    SwV.Gen.C21.src_moveSelfEntry = "6fb6d3093248b367" := by
  decide

end SwV.Props.C21
