/-
C06 — property theorems (only theorems here; helper lemmas live in SwV/Lemmas/C06.lean).

The model (SwV/Model/C06.lean) is parametric in the shard count `k`, the block lengths `L`, `S`
and the operators of the two large-row loop guards.  The values the CODE uses are regenerated
from the Go source into SwV/Gen/C06.lean on every check run; the `bridge_*` theorems pin them,
and the `…_production` theorems instantiate the parametric theorems AT the regenerated values, so
editing a constant or a comparison operator in Go changes what Lean has to check here.
-/
import SwV.Model.C06
import SwV.Spec.C06
import SwV.Gen.C06
import SwV.Lemmas.C06
import SwV.Model.C06RS
import SwV.Lemmas.C06RS
import SwV.Lemmas.C06Certs
import SwV.Lemmas.C06MDS
import SwV.Lemmas.C06Chunks

namespace SwV.Props.C06
open SwV.Model.C06 SwV.Spec.C06 SwV.Lemmas.C06

/-! ### values regenerated from the source -/

def genK : Nat := SwV.Gen.C06.DataShardsCount.toNat
def genM : Nat := SwV.Gen.C06.ParityShardsCount.toNat
def genL : Nat := SwV.Gen.C06.ErasureCodingLargeBlockSize.toNat
def genS : Nat := SwV.Gen.C06.ErasureCodingSmallBlockSize.toNat
/-- operator of `for remainingSize > largeBlockSize*DataShardsCount` (encodeDatFile) -/
def genEncStrict : Option Bool := guardStrictOfText SwV.Gen.C06.encLargeLoopCond
/-- operator of `for datFileSize > DataShardsCount*ErasureCodingLargeBlockSize` (WriteDatFile; it was `>=`
    before the repair, /repo commit e82dce52) -/
def genDecStrict : Option Bool := guardStrictOfText SwV.Gen.C06.decLargeLoopCond

/-! ### bridges (T1) -/

theorem bridge_constants :
    SwV.Gen.C06.DataShardsCount = 10 ∧ SwV.Gen.C06.ParityShardsCount = 4 ∧
    SwV.Gen.C06.TotalShardsCount = SwV.Gen.C06.DataShardsCount + SwV.Gen.C06.ParityShardsCount ∧
    SwV.Gen.C06.ErasureCodingLargeBlockSize = 1024 * 1024 * 1024 ∧
    SwV.Gen.C06.ErasureCodingSmallBlockSize = 1024 * 1024 := by decide

/-- the assumptions of the parametric theorems hold of the production constants -/
theorem bridge_constants_admissible : 0 < genK ∧ 0 < genS ∧ 0 < genL ∧ genS ∣ genL ∧ (256 * 1024) ∣ genS := by
  decide

theorem bridge_enc_guard :
    SwV.Gen.C06.encLargeLoopCond = "remainingSize > largeBlockSize*DataShardsCount" ∧
    SwV.Gen.C06.encSmallLoopCond = "remainingSize > 0" ∧ genEncStrict = some true := by decide

/-- the decoder's guards as repaired by /repo commit e82dce52 (`fix: WriteDatFile copies a row of large blocks
    only while datFileSize > …`): re-introducing `>=` breaks this obligation and `bridge_guards_equal` -/
theorem bridge_dec_guard :
    SwV.Gen.C06.decLargeLoopCond = "datFileSize > DataShardsCount*ErasureCodingLargeBlockSize" ∧
    SwV.Gen.C06.decSmallLoopCond = "datFileSize > 0" ∧ genDecStrict = some true := by decide

/-- encoder and decoder read the SAME comparison operator in their large-row loops (whatever it is) -/
theorem bridge_guards_equal : genEncStrict = genDecStrict ∧ genEncStrict.isSome = true := by decide

/-- LocateEcShardNeedle calls LocateData with the production block sizes and `10 * shard size` -/
theorem bridge_locate_call :
    SwV.Gen.C06.locCallLarge = "ErasureCodingLargeBlockSize" ∧
    SwV.Gen.C06.locCallSmall = "ErasureCodingSmallBlockSize" ∧
    SwV.Gen.C06.locCallDatSize = "DataShardsCount * shard.ecdFileSize" := by decide

/-- the hand-modelled expressions of LocateData -/
theorem bridge_locate_exprs :
    SwV.Gen.C06.locRowsExpr = "nLargeBlockRows := int((datSize + DataShardsCount*smallBlockLength) / (largeBlockLength * DataShardsCount))" ∧
    SwV.Gen.C06.locSwitchCond = "isLargeBlock && blockIndex == nLargeBlockRows*DataShardsCount" ∧
    SwV.Gen.C06.locFitCond = "int64(size) <= blockRemaining" := by decide

/-- the functions whose loops are modelled by hand are unchanged (normalised source hash) -/
theorem bridge_source_pins :
    SwV.Gen.C06.src_LocateData = "04cac66f7204e4cb" ∧ SwV.Gen.C06.src_encodeDatFile = "98a46bfab029a1d7" ∧
    SwV.Gen.C06.src_encodeData = "1ca502f75d4a3392" ∧ SwV.Gen.C06.src_encodeDataOneBatch = "86174d22bcec4731" ∧
    SwV.Gen.C06.src_WriteDatFile = "bf3f735eeab11244" ∧ SwV.Gen.C06.src_rebuildEcFiles = "ebc0ceb2eb561136" := by decide

/-! ### the EC read path returns exactly the stored bytes

FULL-STRENGTH statement (DESIGN §5 `ec_read_exact`):
  ∀ k L S (0<k, 0<S, S ∣ L) D off size, off+size ≤ |D| →
      ecRead k L S (layout k L S strict D) off size = some (D[off, off+size))
is FALSE of the model and of the code (finding LocateEcShardNeedle/large-row-count-from-shard-size):
see `ec_read_exact_false_witness`.  It holds exactly outside `rowCountAmbiguous`. -/

/-- reading any byte range of `D` through LocateData (fed `k * shardSize`) and the shard files
    returns `D[off, off+size)`, for every block geometry and every file whose trailing small rows
    do not fill a large block (minus one small block) -/
theorem ec_read_exact_partial (k L S : Nat) (strict : Bool) (D : List Nat) (off size : Nat)
    (hk : 0 < k) (hL : 0 < L) (hS : 0 < S) (hD : off + size ≤ D.length)
    (hg : rowCountAmbiguous k L S strict D.length = false) :
    ecRead k L S (layout k L S strict D) off size = some ((D.drop off).take size) := by
  have hg' : (nSmallRows k L S strict D.length + 1) * S < L := by
    unfold rowCountAmbiguous at hg
    simpa using hg
  exact ecRead_layout k L S _ _ D _ hk hL hS (layout_isLayout k L S strict D)
    (layout_head_length k L S strict D hk) (length_le_rows k L S strict D.length hk hS) hg' off size hD

/-- hypotheses of `ec_read_exact_partial` are satisfiable (two large rows, one small row) -/
example : rowCountAmbiguous 10 50 10 true 1001 = false ∧ 0 + 1001 ≤ (List.replicate 1001 7).length :=
  ⟨by decide, by rw [List.length_replicate]; omega⟩

/-- the excluded sizes, in the words of DESIGN §6: with `S ∣ L`, `|D| mod kL ∈ (kL − 2kS, kL]` -/
theorem ambiguous_of_mod (k q S n : Nat) (hk : 0 < k) (hS : 0 < S) (hn : 0 < n)
    (h : k * (q * S) < smallArea k (q * S) true n + 2 * (k * S)) :
    rowCountAmbiguous k (q * S) S true n = true := by
  unfold rowCountAmbiguous
  simp only [decide_eq_true_eq]
  have hkS : 0 < k * S := Nat.mul_pos hk hS
  have hceil := le_ceil_mul (smallArea k (q * S) true n) (k * S) hkS
  -- nS * kS ≥ area > kqS − 2kS  ⇒  (nS + 2) > q  ⇒  (nS + 1) * S ≥ q * S
  have h1 : q * (k * S) = k * (q * S) := by grind
  have h2 : q * (k * S) < (nSmallRows k (q * S) S true n + 2) * (k * S) := by
    have : (nSmallRows k (q * S) S true n + 2) * (k * S) = nSmallRows k (q * S) S true n * (k * S) + 2 * (k * S) := by
      rw [Nat.add_mul]
    unfold nSmallRows at this ⊢
    omega
  have h3 : q < nSmallRows k (q * S) S true n + 2 := lt_of_mul_lt _ _ _ h2
  exact Nat.mul_le_mul_right S (by omega)

/-- the full-strength statement fails inside the excluded region: `k = 2, L = 4, S = 1`, an 8-byte
    file (exactly one row of large blocks, encoded as four small rows): the read of the whole file
    returns other bytes; a 6-byte file cannot be read at all -/
theorem ec_read_exact_false_witness :
    rowCountAmbiguous 2 4 1 true 8 = true ∧
    ecRead 2 4 1 (layout 2 4 1 true [1, 2, 3, 4, 5, 6, 7, 8]) 0 8 = some [1, 3, 5, 7, 2, 4, 6, 8] ∧
    ecRead 2 4 1 (layout 2 4 1 true [1, 2, 3, 4, 5, 6]) 0 1 = none := by decide

/-- production instance: at the regenerated constants (1 GiB / 1 MiB, 10 data shards, the encoder's
    guard operator) every needle of a volume whose size is outside the ambiguous window is served exactly -/
theorem ec_read_exact_production (strict : Bool) (hs : genEncStrict = some strict) (D : List Nat) (off size : Nat)
    (hD : off + size ≤ D.length) (hg : rowCountAmbiguous genK genL genS strict D.length = false) :
    ecRead genK genL genS (layout genK genL genS strict D) off size = some ((D.drop off).take size) :=
  ec_read_exact_partial genK genL genS strict D off size (by decide) (by decide) (by decide) hD hg

/-- at the production constants the ambiguous window is the last 20 MiB before every multiple of 10 GiB -/
theorem ambiguous_window_production :
    rowCountAmbiguous genK genL genS true (10 * genL - 20 * genS) = false ∧
    rowCountAmbiguous genK genL genS true (10 * genL - 20 * genS + 1) = true ∧
    rowCountAmbiguous genK genL genS true (10 * genL) = true ∧
    rowCountAmbiguous genK genL genS true (10 * genL + 1) = false := by decide


/-! ### decoding the data shards gives back the data file

FULL-STRENGTH statement (DESIGN §5 `ec_decode_exact`):
  ∀ k L S D, decode k L S <decoder guard> (layout k L S <encoder guard> D) |D| = some D
now HOLDS of the operators the code uses (`ec_decode_exact` below): both loops read `>`.

History (finding WriteDatFile/large-row-guard-differs-from-encoder, FIXED by /repo commit e82dce52): the
decoder used `>=` while the encoder used `>`, and the statement was false when `|D|` is a positive multiple of
`k·L`.  `ec_decode_exact_partial`, `large_rows_agree` and `ec_decode_exact_false_witness` are kept as theorems
about the OLD operator pair (they are parametric in the operators, so they still type-check): they document
what the repair removed and what a patch that re-introduces `>=` would bring back. -/

/-- with the same guard operator on both sides the round trip is exact for EVERY file -/
theorem ec_decode_exact_same_guard (k L S : Nat) (strict : Bool) (D : List Nat)
    (hk : 0 < k) (hL : 0 < L) (hS : 0 < S) :
    decode k L S strict (layout k L S strict D) D.length = some D :=
  decode_layout k L S strict strict D hk hL hS rfl

/-- `>` and `>=` count the same number of large rows except at positive multiples of `k·L` -/
theorem large_rows_agree (k L n : Nat) (hkL : 0 < k * L) (hx : ¬ (0 < n ∧ n % (k * L) = 0)) :
    nLargeRows k L false n = nLargeRows k L true n := by
  unfold nLargeRows
  simp only [Bool.false_eq_true, if_false, if_true]
  by_cases h0 : n = 0
  · subst h0; simp
  · have hm : 0 < n % (k * L) := by omega
    have hlt := Nat.mod_lt n hkL
    have hdm := Nat.div_add_mod n (k * L)
    have hc : k * L * (n / (k * L)) = n / (k * L) * (k * L) := Nat.mul_comm _ _
    have : n - 1 = n / (k * L) * (k * L) + (n % (k * L) - 1) := by omega
    rw [this, (div_mod_block (k * L) (n / (k * L)) (n % (k * L) - 1) (by omega)).1]

/-- the operators of the code BEFORE the repair (encoder strict, decoder inclusive): exact for every file whose
    size is not a positive multiple of `k·L` -/
theorem ec_decode_exact_partial (k L S : Nat) (D : List Nat) (hk : 0 < k) (hL : 0 < L) (hS : 0 < S)
    (hx : ¬ (0 < D.length ∧ D.length % (k * L) = 0)) :
    decode k L S false (layout k L S true D) D.length = some D :=
  decode_layout k L S true false D hk hL hS (large_rows_agree k L D.length (Nat.mul_pos hk hL) hx)

example : ¬ (0 < (List.replicate 7 1).length ∧ (List.replicate 7 1).length % (2 * 4) = 0) := by decide

/-- with the pre-repair operator pair the excluded sizes really fail: `k = 2, L = 4, S = 1`, an 8-byte file
    (and with the repaired pair the same file decodes exactly) -/
theorem ec_decode_exact_false_witness :
    decode 2 4 1 false (layout 2 4 1 true [1, 2, 3, 4, 5, 6, 7, 8]) 8 = some [1, 3, 5, 7, 2, 4, 6, 8] ∧
    decode 2 4 1 true (layout 2 4 1 true [1, 2, 3, 4, 5, 6, 7, 8]) 8 = some [1, 2, 3, 4, 5, 6, 7, 8] := by decide

/-- production instance, parameterised by the operators read from the source: whatever the two
    extracted operators are, decoding is exact when they coincide, and otherwise for every size that
    is not a positive multiple of 10 GiB -/
theorem ec_decode_exact_production (es ds : Bool) (he : genEncStrict = some es) (hd : genDecStrict = some ds)
    (D : List Nat) (hx : es = ds ∨ ¬ (0 < D.length ∧ D.length % (genK * genL) = 0)) :
    decode genK genL genS ds (layout genK genL genS es D) D.length = some D := by
  have hk : 0 < genK := by decide
  have hL : 0 < genL := by decide
  have hS : 0 < genS := by decide
  apply decode_layout genK genL genS es ds D hk hL hS
  rcases hx with h | h
  · rw [h]
  · have := large_rows_agree genK genL D.length (Nat.mul_pos hk hL) h
    cases es <;> cases ds <;> simp_all

/-- the operators in the source today are both `>` (before /repo commit e82dce52 this obligation read
    `genDecStrict = some false`, under the name `guards_differ_today`) -/
theorem guards_equal_today : genEncStrict = some true ∧ genDecStrict = some true := by decide

/-- FULL STRENGTH, no hypothesis on the file: at the constants and the two operators regenerated from the source,
    decoding the data shards of ANY data file `D` with its original size returns `D`.  `es`/`ds` are whatever the
    extractor read from encodeDatFile/WriteDatFile; `bridge_guards_equal` makes them the same operator and
    `ec_decode_exact_same_guard` does the rest -/
theorem ec_decode_exact (es ds : Bool) (he : genEncStrict = some es) (hd : genDecStrict = some ds) (D : List Nat) :
    decode genK genL genS ds (layout genK genL genS es D) D.length = some D := by
  have h : es = ds := by
    have := bridge_guards_equal.1
    rw [he, hd] at this
    exact Option.some.inj this
  subst h
  exact ec_decode_exact_same_guard genK genL genS es D (by decide) (by decide) (by decide)

/-- the hypotheses of `ec_decode_exact` are satisfied by the extracted operators, including on the sizes the
    pre-repair code got wrong (`|D| = 10·genL`: same number of large rows on both sides) -/
example : genEncStrict = some true ∧ genDecStrict = some true ∧
    nLargeRows genK genL true (10 * genL) = 0 ∧ nLargeRows genK genL false (10 * genL) = 1 := by decide


/-! ### rebuilding lost shards (relative to the MDS assumption on Reed–Solomon, see prop.json trusted_base) -/

/-- any set of at most `m` lost shards is regenerated byte-identically: over every range of columns in
    which the 14 shards are codewords (which is what `encode` produces), the Reconstruct step of
    rebuildEcFiles returns exactly the original columns, whatever shards were erased -/
theorem ec_rebuild (cd : Codec) (k m : Nat) (hmds : MDS cd k m)
    (shards : List (List Nat)) (mask : List Bool)
    (hmask : mask.length = k + m) (hlost : (mask.filter (· == false)).length ≤ m)
    (start cnt : Nat) (hcw : ∀ p, start ≤ p → p < start + cnt → IsCodewordAt cd k m shards p) :
    reconChunk cd (eraseShards shards mask) start cnt
      = some ((List.range cnt).map fun t => columnAt shards (start + t)) :=
  reconChunk_codewords cd k m hmds shards mask hmask hlost cnt start hcw

/-- the MDS hypothesis is satisfiable (a 2-fold repetition code: k = 1, m = 1) -/
example : MDS { parity := fun d => d, recon := fun c => some (let x := (c.filterMap id).headD 0; c.map fun _ => x) } 1 1 := by
  intro data mask hd _ hm hl
  match data, mask, hd, hm with
  | [x], [b0, b1], _, _ =>
    cases b0 <;> cases b1 <;> simp_all [List.filter]

/-! ### the encoder model produces the layout the read path and the decoder were proved against -/

/-- encodeDatFile/encodeData/encodeDataOneBatch (two loops, batches of `buf` bytes, zero fill) write
    exactly the closed-form layout, for every file and every admissible geometry -/
theorem enc_layout (c : EncCfg) (D : List Nat)
    (hk : 0 < c.k) (hL : 0 < c.L) (hS : 0 < c.S) (hb : 0 < c.buf) (hbL : c.buf ∣ c.L) (hbS : c.buf ∣ c.S) :
    (List.range c.k).map (dataShard c D) = layout c.k c.L c.S c.strict D := by
  unfold layout
  apply List.map_congr_left
  intro i _
  exact dataShard_eq_layout c D i hk hL hS hb hbL hbS

example : (0 < 10 ∧ 0 < 50 ∧ 0 < 10 ∧ 0 < 5) ∧ (5 ∣ 50) ∧ (5 ∣ 10) := by decide

/-- read path over the shards the ENCODER MODEL writes -/
theorem ec_read_exact_encoded_partial (c : EncCfg) (D : List Nat) (off size : Nat)
    (hk : 0 < c.k) (hL : 0 < c.L) (hS : 0 < c.S) (hb : 0 < c.buf) (hbL : c.buf ∣ c.L) (hbS : c.buf ∣ c.S)
    (hD : off + size ≤ D.length) (hg : rowCountAmbiguous c.k c.L c.S c.strict D.length = false) :
    ecRead c.k c.L c.S ((List.range c.k).map (dataShard c D)) off size = some ((D.drop off).take size) := by
  rw [enc_layout c D hk hL hS hb hbL hbS]
  exact ec_read_exact_partial c.k c.L c.S c.strict D off size hk hL hS hD hg

/-- decoder (guard operator `ds`) over the shards the ENCODER MODEL writes -/
theorem ec_decode_exact_encoded_partial (c : EncCfg) (ds : Bool) (D : List Nat)
    (hk : 0 < c.k) (hL : 0 < c.L) (hS : 0 < c.S) (hb : 0 < c.buf) (hbL : c.buf ∣ c.L) (hbS : c.buf ∣ c.S)
    (hx : c.strict = ds ∨ ¬ (0 < D.length ∧ D.length % (c.k * c.L) = 0)) :
    decode c.k c.L c.S ds ((List.range c.k).map (dataShard c D)) D.length = some D := by
  rw [enc_layout c D hk hL hS hb hbL hbS]
  apply decode_layout c.k c.L c.S c.strict ds D hk hL hS
  rcases hx with h | h
  · rw [h]
  · have := large_rows_agree c.k c.L D.length (Nat.mul_pos hk hL) h
    cases hs : c.strict <;> cases ds <;> simp_all

/-- FULL STRENGTH over the shards the ENCODER MODEL writes with the production call
    `generateEcFiles(base, 256*1024, ErasureCodingLargeBlockSize, ErasureCodingSmallBlockSize)` and the extracted
    operators: the decoder returns the data file, for every data file -/
theorem ec_decode_exact_encoded (es ds : Bool) (he : genEncStrict = some es) (hd : genDecStrict = some ds) (D : List Nat) :
    decode genK genL genS ds ((List.range genK).map (dataShard ⟨genK, genL, genS, 256 * 1024, es⟩ D)) D.length = some D := by
  have h := ec_decode_exact_encoded_partial ⟨genK, genL, genS, 256 * 1024, es⟩ ds D (show 0 < genK by decide)
    (show 0 < genL by decide) (show 0 < genS by decide) (show 0 < 256 * 1024 by decide)
    (show (256 * 1024) ∣ genL by decide) (show (256 * 1024) ∣ genS by decide)
    (Or.inl (by
      have := bridge_guards_equal.1
      rw [he, hd] at this
      exact Option.some.inj this))
  exact h

/-- the production call `generateEcFiles(base, 256*1024, ErasureCodingLargeBlockSize, ErasureCodingSmallBlockSize)`
    satisfies the hypotheses of `enc_layout` -/
theorem enc_layout_production (strict : Bool) (D : List Nat) :
    (List.range genK).map (dataShard ⟨genK, genL, genS, 256 * 1024, strict⟩ D) = layout genK genL genS strict D :=
  enc_layout ⟨genK, genL, genS, 256 * 1024, strict⟩ D (show 0 < genK by decide) (show 0 < genL by decide) (show 0 < genS by decide)
    (show 0 < 256 * 1024 by decide) (show (256 * 1024) ∣ genL by decide) (show (256 * 1024) ∣ genS by decide)

/-! ### the concrete Reed–Solomon code: MDS is a theorem, not an assumption

`rsParity` (SwV/Model/C06RS.lean) is the parity part of the encoding matrix of `reedsolomon.New(10, 4)`; the
harness recovers the matrix from the real library (encoding the ten unit vectors) and the driver compares it
with `rsParity` on every run (`config` line).  GF(2^8) is the model's `gfMul` (polynomial 0x11D), whose field
laws are proved in SwV/Lemmas/C06RS.lean. -/

/-- the literal matrix is what `buildMatrix(10, 14)` constructs: vandermonde(14,10) · (top square)⁻¹, computed
    here with the model's GF(2^8) arithmetic and Gauss–Jordan inversion -/
theorem rs_matrix_is_buildMatrix : rsMatrixBuilt = some (generator 10 rsParity) := by decide +kernel

/-- GF(2^8) multiplication of the model is commutative, associative, distributes over xor, has unit 1 — on bytes -/
theorem gf256_laws (a b c : Nat) (ha : a < 256) (hb : b < 256) (hc : c < 256) :
    gfMul a b = gfMul b a ∧ gfMul a (gfMul b c) = gfMul (gfMul a b) c ∧
    gfMul a (b ^^^ c) = gfMul a b ^^^ gfMul a c ∧ gfMul 1 a = a ∧ gfMul a b < 256 :=
  ⟨gfMul_comm a b ha hb, gfMul_assoc a b c ha hb hc, gfMul_add_right a b c, gfMul_one_left a ha, gfMul_lt a b ha⟩

/-- MDS, matrix form: for EVERY erasure pattern that loses at most 4 of the 14 shards (all 1471 patterns, i.e.
    every 10-row subset of the 14×10 generator matrix, C(14,10) = 1001 of them, arises as `selectedRows`), the ten
    selected rows of `[I ; rsParity]` have a left inverse over GF(2^8): a 10×10 byte matrix `inv` with
    `inv · rows = I`, hence `inv · (rows · d) = d` for every data column `d` -/
theorem rs_mds (mask : List Bool) (hm : mask.length = 14) (hl : (mask.filter (· == false)).length ≤ 4) :
    ∃ inv : List (List Nat),
      (selectedRows mask).length = 10 ∧ (∀ row ∈ inv, IsBytes row) ∧
      inv.map (fun row => vecMat 10 row (selectedRows mask)) = (List.range 10).map (identityRow 10) ∧
      ∀ d : List Nat, d.length = 10 → IsBytes d → matVec inv (matVec (selectedRows mask) d) = d := by
  obtain ⟨c, _, hc⟩ := certDM_spec mask hm hl
  obtain ⟨h1, h2, h3⟩ := checkCert_spec mask c hc
  refine ⟨unpackInv c, h1, unpackInv_bytes c, h3, ?_⟩
  intro d hd hb
  have e1 : matVec (unpackInv c) (matVec (selectedRows mask) d)
      = ((unpackInv c).map (fun row => vecMat 10 row (selectedRows mask))).map (fun r => gfDot r d) := by
    unfold matVec
    rw [List.map_map]
    apply List.map_congr_left
    intro row hrow
    exact gfDot_matVec 10 d hb row (selectedRows mask) (unpackInv_bytes c row hrow) h2
  rw [e1, h3]
  exact matVec_identity10 d hd hb

/-- MDS, as the design states it: any 10 of the 14 bytes of a codeword column determine the data column (and
    with it the other 4 bytes) -/
theorem rs_any_ten_determine (d d' : List Nat) (hd : d.length = 10) (hd' : d'.length = 10)
    (hb : IsBytes d) (hb' : IsBytes d') (mask : List Bool) (hm : mask.length = 14)
    (hl : (mask.filter (· == false)).length ≤ 4)
    (hagree : ∀ i, mask.getD i false = true →
      (d ++ matVec rsParity d).getD i 0 = (d' ++ matVec rsParity d').getD i 0) : d = d' :=
  rs_determines_data d d' hd hd' hb hb' mask hm hl hagree

/-- the assumption `MDS` of `ec_rebuild`, proved for the concrete codec on byte columns: the model decoder
    (`gfRecon`, the one the driver runs against `Reconstruct`, with the certified decoding matrix) returns the
    whole codeword from any erasure pattern losing at most 4 shards -/
theorem rs_codec_mds : MDSBytes rsCodec 10 4 := rsCodec_mdsBytes

/-- `ec_rebuild` WITHOUT the MDS hypothesis: for the concrete Reed–Solomon codec any set of at most 4 lost shards
    is regenerated byte-identically over every range of columns in which the 14 shards are codewords of bytes -/
theorem ec_rebuild_concrete (shards : List (List Nat)) (mask : List Bool)
    (hmask : mask.length = 14) (hlost : (mask.filter (· == false)).length ≤ 4)
    (start cnt : Nat) (hcw : ∀ p, start ≤ p → p < start + cnt → IsByteCodewordAt rsCodec 10 4 shards p) :
    reconChunk rsCodec (eraseShards shards mask) start cnt
      = some ((List.range cnt).map fun t => columnAt shards (start + t)) :=
  reconChunk_codewords_bytes rsCodec 10 4 rsCodec_mdsBytes shards mask hmask hlost cnt start hcw

/-- non-vacuity: a column of bytes with its parity is a byte codeword; a 4-shard loss; and the decoder run -/
example : IsByteCodewordAt rsCodec 10 4
    ((([1, 2, 3, 4, 5, 6, 7, 8, 9, 10] : List Nat) ++ matVec rsParity [1, 2, 3, 4, 5, 6, 7, 8, 9, 10]).map fun x => [x]) 0 :=
  ⟨[1, 2, 3, 4, 5, 6, 7, 8, 9, 10], rfl, by decide, by decide, by decide⟩
example : ([false, true, false, true, true, false, true, true, true, true, true, true, false, true].filter (· == false)).length ≤ 4 := by
  decide
set_option maxRecDepth 100000 in
example : rsCodec.recon (eraseCol ([1, 2, 3, 4, 5, 6, 7, 8, 9, 10] ++ matVec rsParity [1, 2, 3, 4, 5, 6, 7, 8, 9, 10])
      [false, true, false, true, true, false, true, true, true, true, true, true, false, true])
    = some ([1, 2, 3, 4, 5, 6, 7, 8, 9, 10] ++ matVec rsParity [1, 2, 3, 4, 5, 6, 7, 8, 9, 10]) := by decide +kernel

/-! ### the rebuilder's chunk loop (shards larger than one rebuild buffer)

rebuildEcFiles reads, reconstructs and writes `C = ErasureCodingSmallBlockSize` bytes per iteration.  For shards
far above `C` the driver follows the loop on the shard LENGTHS (`rebuildLen`; each chunk's content is covered by
`ec_rebuild_concrete`), and the harness reports per regenerated shard its length and one equality flag per chunk
of the ORIGINAL shard file; `rebuildChunksJudge` is the judge "regenerated byte-identically" over such a report. -/

/-- the length-level read phase is the read phase of the byte-level model `rebuild` -/
theorem rebuild_reads_len (C start : Nat) (present : List (Option (List Nat))) (ibds : Nat) :
    rebuildReads C start present ibds = rebuildReadsLen C start (present.map (·.map List.length)) ibds :=
  rebuildReads_len C start present ibds

/-- shard files of one common length that is a multiple of the chunk size (every production shard: `nL·L + nS·S`
    with `C = S ∣ L`), at least `k` of them present, ANY number of chunks `q`: the loop ends without error having
    written exactly the original length to every regenerated shard — and the report the model then predicts
    (original length, every chunk equal) is accepted by the chunk judge for every set of lost shards -/
theorem rebuild_chunks_model_passes (k m C q : Nat) (mask : List Bool) (lost : List Nat) (hC : 0 < C) (hk0 : 0 < k)
    (hk : k ≤ (mask.filter id).length) :
    rebuildLen k C (uniformLens (q * C) mask) = some (q * C) ∧
    rebuildChunksJudge m C (q * C) lost true (lost.map fun _ => (q * C, List.replicate q true)) = none :=
  ⟨rebuildLen_uniform k C q mask hC hk0 hk, chunksJudge_all_equal m C q lost⟩

/-- non-vacuity: 3 chunks, shards 0 and 12 lost of 14 -/
example : (0 < 4 ∧ 0 < 10) ∧
    10 ≤ (([false, true, true, true, true, true, true, true, true, true, true, true, false, true] : List Bool).filter id).length := by
  decide

/-- the judge is not vacuous: a regenerated shard whose second and third chunk repeat the first (right length, first
    flag set, the others not — what a rebuild that keeps reconstructed buffers across iterations writes), a short
    one, and a report that does not cover the whole shard are all rejected; the exact one passes -/
example : rebuildChunksJudge 4 4 12 [0, 12] true [(12, [true, true, true]), (12, [true, false, false])]
    = some "rebuildEcFiles/regenerated-differs-after-first-chunk" := by decide
example : rebuildChunksJudge 4 4 12 [0] true [(4, [true, false, false])] = some "rebuildEcFiles/regenerated-length-differs" := by decide
example : rebuildChunksJudge 4 4 12 [0] true [(12, [true])] = some "rebuildEcFiles/regenerated-not-fully-compared" := by decide
example : rebuildChunksJudge 4 4 12 [0] false [] = some "rebuildEcFiles/regenerated-differs" := by decide
example : rebuildChunksJudge 4 4 12 [0, 12] true [(12, [true, true, true]), (12, [true, true, true])] = none := by decide

end SwV.Props.C06
