/-
C06 — property theorems (only theorems here; helper lemmas live in SwV/Lemmas/C06.lean).

The model (SwV/Model/C06.lean) is parametric in the shard count `k`, the block lengths `L`, `S`
and the operators of the two large-row loop guards.  The values the CODE uses are regenerated
from the Go source into SwV/Gen/C06.lean on every check run; the `bridge_*` theorems pin them,
and the `…_production` theorems instantiate the parametric theorems AT the regenerated values, so
editing a constant or a comparison operator in Go changes what Lean has to check here.
-/
import SwV.Model.C06
import SwV.Spec.C06
import SwV.Gen.C06
import SwV.Lemmas.C06

namespace SwV.Props.C06
open SwV.Model.C06 SwV.Spec.C06 SwV.Lemmas.C06

/-! ### values regenerated from the source -/

def genK : Nat := SwV.Gen.C06.DataShardsCount.toNat
def genM : Nat := SwV.Gen.C06.ParityShardsCount.toNat
def genL : Nat := SwV.Gen.C06.ErasureCodingLargeBlockSize.toNat
def genS : Nat := SwV.Gen.C06.ErasureCodingSmallBlockSize.toNat
/-- operator of `for remainingSize > largeBlockSize*DataShardsCount` (encodeDatFile) -/
def genEncStrict : Option Bool := guardStrictOfText SwV.Gen.C06.encLargeLoopCond
/-- operator of `for datFileSize >= DataShardsCount*ErasureCodingLargeBlockSize` (WriteDatFile) -/
def genDecStrict : Option Bool := guardStrictOfText SwV.Gen.C06.decLargeLoopCond

/-! ### bridges (T1) -/

theorem bridge_constants :
    SwV.Gen.C06.DataShardsCount = 10 ∧ SwV.Gen.C06.ParityShardsCount = 4 ∧
    SwV.Gen.C06.TotalShardsCount = SwV.Gen.C06.DataShardsCount + SwV.Gen.C06.ParityShardsCount ∧
    SwV.Gen.C06.ErasureCodingLargeBlockSize = 1024 * 1024 * 1024 ∧
    SwV.Gen.C06.ErasureCodingSmallBlockSize = 1024 * 1024 := by decide

/-- the assumptions of the parametric theorems hold of the production constants -/
theorem bridge_constants_admissible : 0 < genK ∧ 0 < genS ∧ 0 < genL ∧ genS ∣ genL ∧ (256 * 1024) ∣ genS := by
  decide

theorem bridge_enc_guard :
    SwV.Gen.C06.encLargeLoopCond = "remainingSize > largeBlockSize*DataShardsCount" ∧
    SwV.Gen.C06.encSmallLoopCond = "remainingSize > 0" ∧ genEncStrict = some true := by decide

theorem bridge_dec_guard :
    SwV.Gen.C06.decLargeLoopCond = "datFileSize >= DataShardsCount*ErasureCodingLargeBlockSize" ∧
    SwV.Gen.C06.decSmallLoopCond = "datFileSize > 0" ∧ genDecStrict = some false := by decide

/-- LocateEcShardNeedle calls LocateData with the production block sizes and `10 * shard size` -/
theorem bridge_locate_call :
    SwV.Gen.C06.locCallLarge = "ErasureCodingLargeBlockSize" ∧
    SwV.Gen.C06.locCallSmall = "ErasureCodingSmallBlockSize" ∧
    SwV.Gen.C06.locCallDatSize = "DataShardsCount * shard.ecdFileSize" := by decide

/-- the hand-modelled expressions of LocateData -/
theorem bridge_locate_exprs :
    SwV.Gen.C06.locRowsExpr = "nLargeBlockRows := int((datSize + DataShardsCount*smallBlockLength) / (largeBlockLength * DataShardsCount))" ∧
    SwV.Gen.C06.locSwitchCond = "isLargeBlock && blockIndex == nLargeBlockRows*DataShardsCount" ∧
    SwV.Gen.C06.locFitCond = "int64(size) <= blockRemaining" := by decide

/-- the functions whose loops are modelled by hand are unchanged (normalised source hash) -/
theorem bridge_source_pins :
    SwV.Gen.C06.src_LocateData = "04cac66f7204e4cb" ∧ SwV.Gen.C06.src_encodeDatFile = "98a46bfab029a1d7" ∧
    SwV.Gen.C06.src_encodeData = "1ca502f75d4a3392" ∧ SwV.Gen.C06.src_encodeDataOneBatch = "86174d22bcec4731" ∧
    SwV.Gen.C06.src_WriteDatFile = "f66c1cc77b0ef747" ∧ SwV.Gen.C06.src_rebuildEcFiles = "ebc0ceb2eb561136" := by decide

/-! ### the EC read path returns exactly the stored bytes

FULL-STRENGTH statement (DESIGN §5 `ec_read_exact`):
  ∀ k L S (0<k, 0<S, S ∣ L) D off size, off+size ≤ |D| →
      ecRead k L S (layout k L S strict D) off size = some (D[off, off+size))
is FALSE of the model and of the code (finding LocateEcShardNeedle/large-row-count-from-shard-size):
see `ec_read_exact_false_witness`.  It holds exactly outside `rowCountAmbiguous`. -/

/-- reading any byte range of `D` through LocateData (fed `k * shardSize`) and the shard files
    returns `D[off, off+size)`, for every block geometry and every file whose trailing small rows
    do not fill a large block (minus one small block) -/
theorem ec_read_exact_partial (k L S : Nat) (strict : Bool) (D : List Nat) (off size : Nat)
    (hk : 0 < k) (hL : 0 < L) (hS : 0 < S) (hD : off + size ≤ D.length)
    (hg : rowCountAmbiguous k L S strict D.length = false) :
    ecRead k L S (layout k L S strict D) off size = some ((D.drop off).take size) := by
  have hg' : (nSmallRows k L S strict D.length + 1) * S < L := by
    unfold rowCountAmbiguous at hg
    simpa using hg
  exact ecRead_layout k L S _ _ D _ hk hL hS (layout_isLayout k L S strict D)
    (layout_head_length k L S strict D hk) (length_le_rows k L S strict D.length hk hS) hg' off size hD

/-- hypotheses of `ec_read_exact_partial` are satisfiable (two large rows, one small row) -/
example : rowCountAmbiguous 10 50 10 true 1001 = false ∧ 0 + 1001 ≤ (List.replicate 1001 7).length :=
  ⟨by decide, by rw [List.length_replicate]; omega⟩

/-- the excluded sizes, in the words of DESIGN §6: with `S ∣ L`, `|D| mod kL ∈ (kL − 2kS, kL]` -/
theorem ambiguous_of_mod (k q S n : Nat) (hk : 0 < k) (hS : 0 < S) (hn : 0 < n)
    (h : k * (q * S) < smallArea k (q * S) true n + 2 * (k * S)) :
    rowCountAmbiguous k (q * S) S true n = true := by
  unfold rowCountAmbiguous
  simp only [decide_eq_true_eq]
  have hkS : 0 < k * S := Nat.mul_pos hk hS
  have hceil := le_ceil_mul (smallArea k (q * S) true n) (k * S) hkS
  -- nS * kS ≥ area > kqS − 2kS  ⇒  (nS + 2) > q  ⇒  (nS + 1) * S ≥ q * S
  have h1 : q * (k * S) = k * (q * S) := by grind
  have h2 : q * (k * S) < (nSmallRows k (q * S) S true n + 2) * (k * S) := by
    have : (nSmallRows k (q * S) S true n + 2) * (k * S) = nSmallRows k (q * S) S true n * (k * S) + 2 * (k * S) := by
      rw [Nat.add_mul]
    unfold nSmallRows at this ⊢
    omega
  have h3 : q < nSmallRows k (q * S) S true n + 2 := lt_of_mul_lt _ _ _ h2
  exact Nat.mul_le_mul_right S (by omega)

/-- the full-strength statement fails inside the excluded region: `k = 2, L = 4, S = 1`, an 8-byte
    file (exactly one row of large blocks, encoded as four small rows): the read of the whole file
    returns other bytes; a 6-byte file cannot be read at all -/
theorem ec_read_exact_false_witness :
    rowCountAmbiguous 2 4 1 true 8 = true ∧
    ecRead 2 4 1 (layout 2 4 1 true [1, 2, 3, 4, 5, 6, 7, 8]) 0 8 = some [1, 3, 5, 7, 2, 4, 6, 8] ∧
    ecRead 2 4 1 (layout 2 4 1 true [1, 2, 3, 4, 5, 6]) 0 1 = none := by decide

/-- production instance: at the regenerated constants (1 GiB / 1 MiB, 10 data shards, the encoder's
    guard operator) every needle of a volume whose size is outside the ambiguous window is served exactly -/
theorem ec_read_exact_production (strict : Bool) (hs : genEncStrict = some strict) (D : List Nat) (off size : Nat)
    (hD : off + size ≤ D.length) (hg : rowCountAmbiguous genK genL genS strict D.length = false) :
    ecRead genK genL genS (layout genK genL genS strict D) off size = some ((D.drop off).take size) :=
  ec_read_exact_partial genK genL genS strict D off size (by decide) (by decide) (by decide) hD hg

/-- at the production constants the ambiguous window is the last 20 MiB before every multiple of 10 GiB -/
theorem ambiguous_window_production :
    rowCountAmbiguous genK genL genS true (10 * genL - 20 * genS) = false ∧
    rowCountAmbiguous genK genL genS true (10 * genL - 20 * genS + 1) = true ∧
    rowCountAmbiguous genK genL genS true (10 * genL) = true ∧
    rowCountAmbiguous genK genL genS true (10 * genL + 1) = false := by decide

end SwV.Props.C06
