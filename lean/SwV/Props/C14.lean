/-
C14 theorems: one master vacuum round (Model/C14) against the spec (Spec/C14), for ALL layouts —
any number of replicas, any outcome vector.
-/
import SwV.Model.C14
import SwV.Spec.C14
import SwV.Gen.C14
namespace SwV.Props.C14
open SwV.Model.C14 SwV.Spec.C14

/-- what the driver observes of a model round -/
def observe (l : Layout) : List ObsRep := l.reps.map fun r => { rep := r, got := rpcs l r }

/-! ## which RPCs a replica receives -/

theorem compact_mem_iff (l : Layout) (r : Rep) :
    Rpc.compact ∈ rpcs l r ↔ l.readOnly = false ∧ needVacuum l = true ∧ r.chk = .ok := by
  unfold rpcs
  cases h1 : l.readOnly <;> cases h2 : needVacuum l <;> cases h3 : compactOk l <;>
    by_cases h4 : r.chk = .ok <;> simp [h4]

theorem commit_mem_iff (l : Layout) (r : Rep) :
    Rpc.commit ∈ rpcs l r ↔ l.readOnly = false ∧ needVacuum l = true ∧ r.chk = .ok ∧ compactOk l = true := by
  unfold rpcs
  cases h1 : l.readOnly <;> cases h2 : needVacuum l <;> cases h3 : compactOk l <;>
    by_cases h4 : r.chk = .ok <;> simp [h4]

theorem cleanup_mem_iff (l : Layout) (r : Rep) :
    Rpc.cleanup ∈ rpcs l r ↔ l.readOnly = false ∧ needVacuum l = true ∧ r.chk = .ok ∧ compactOk l = false := by
  unfold rpcs
  cases h1 : l.readOnly <;> cases h2 : needVacuum l <;> cases h3 : compactOk l <;>
    by_cases h4 : r.chk = .ok <;> simp [h4]

theorem commit_implies_all_compacted (l : Layout) (r : Rep) (h : Rpc.commit ∈ rpcs l r) :
    ∀ q ∈ l.reps, Rpc.compact ∈ rpcs l q → q.cmp = .ok := by
  intro q hq hc
  have hcm := (commit_mem_iff l r).1 h
  have hcq := (compact_mem_iff l q).1 hc
  have hall := hcm.2.2.2
  unfold compactOk vacuumList at hall
  rw [List.all_eq_true] at hall
  have := hall q (by simp [List.mem_filter, hq, hcq.2.2])
  simpa using this

theorem commit_sequence (l : Layout) (r : Rep) (h : Rpc.commit ∈ rpcs l r) :
    rpcs l r = [.check, .compact, .commit] := by
  have hcm := (commit_mem_iff l r).1 h
  unfold rpcs
  simp [hcm.1, hcm.2.1, hcm.2.2.1, hcm.2.2.2]

/-- **commit_only_after_all_compacted** (full): a replica is sent VacuumVolumeCommit only if EVERY
    replica that was sent VacuumVolumeCompact compacted successfully, and the replica itself was
    checked and compacted first: its RPC sequence is exactly check, compact, commit. -/
theorem commit_only_after_all_compacted (l : Layout) (r : Rep) (h : Rpc.commit ∈ rpcs l r) :
    (∀ q ∈ l.reps, Rpc.compact ∈ rpcs l q → q.cmp = .ok) ∧ rpcs l r = [.check, .compact, .commit] :=
  ⟨commit_implies_all_compacted l r h, commit_sequence l r h⟩

example : ∃ (l : Layout) (r : Rep), Rpc.commit ∈ rpcs l r :=
  ⟨⟨1, [⟨false, false, .ok, .ok, .ok, true⟩]⟩, ⟨false, false, .ok, .ok, .ok, true⟩, by decide⟩

/-- commit and cleanup never both happen in a round, and cleanup means some compaction failed -/
theorem cleanup_excludes_commit (l : Layout) (r q : Rep) (h : Rpc.cleanup ∈ rpcs l r) : Rpc.commit ∉ rpcs l q := by
  intro hc
  have a := (cleanup_mem_iff l r).1 h
  have b := (commit_mem_iff l q).1 hc
  rw [a.2.2.2] at b
  exact absurd b.2.2.2 (by simp)

/-- the executable judge used on the implementation accepts every model round -/
theorem commit_judge_accepts_model (l : Layout) : commitJudge (observe l) = none := by
  unfold commitJudge
  have h1 : ((observe l).any (fun o => o.got.contains .commit) && (observe l).any (fun o => o.got.contains .compact && o.rep.cmp != .ok)) = false := by
    rw [Bool.and_eq_false_iff]
    by_cases hc : (observe l).any (fun o => o.got.contains .commit) = true
    · right
      rw [List.any_eq_true] at hc
      obtain ⟨o, ho, hoc⟩ := hc
      unfold observe at ho
      rw [List.mem_map] at ho
      obtain ⟨r, hr, rfl⟩ := ho
      have hmem : Rpc.commit ∈ rpcs l r := by simpa using hoc
      rw [List.any_eq_false]
      intro o' ho'
      unfold observe at ho'
      rw [List.mem_map] at ho'
      obtain ⟨q, hq, rfl⟩ := ho'
      simp only [Bool.and_eq_true, bne_iff_ne, ne_eq, not_and, Decidable.not_not]
      intro hq'
      have : Rpc.compact ∈ rpcs l q := by simpa using hq'
      exact commit_implies_all_compacted l r hmem q hq this
    · left; simpa using hc
  have h2 : (observe l).any (fun o => o.got.contains .commit && !(o.got.takeWhile (· != .commit)).contains .compact) = false := by
    rw [List.any_eq_false]
    intro o ho
    unfold observe at ho
    rw [List.mem_map] at ho
    obtain ⟨r, _, rfl⟩ := ho
    by_cases hm : Rpc.commit ∈ rpcs l r
    · have := commit_sequence l r hm
      simp [this]
    · simp [hm]
  rw [h1, h2]
  simp

/-! ## writable after the round -/

theorem saidReadOnly_observe (l : Layout) :
    saidReadOnly (observe l) = (vacuums l && compactOk l && commitSaysReadOnly l) := by
  unfold saidReadOnly observe commitSaysReadOnly vacuums vacuumList
  rw [List.any_map]
  cases h1 : l.readOnly <;> cases h2 : needVacuum l <;> cases h3 : compactOk l
  all_goals
    simp only [Bool.not_true, Bool.not_false, Bool.false_and, Bool.true_and, Bool.and_true, Bool.and_false]
  all_goals first
    | (rw [List.any_eq_false]; intro r _; simp [Function.comp, rpcs, h1, h2, h3]; done)
    | skip
  -- the remaining case: not read-only, vacuum needed, all compacted
  rw [List.any_filter]
  congr 1
  funext r
  by_cases h4 : r.chk = .ok <;> simp [Function.comp, rpcs, h1, h2, h3, h4]

/-- writable_restored — FULL statement, FALSE of the code:
      ∀ l, writableAfter l = writableExpected l.writableBefore (observe l)
    (see the three witnesses below). What holds: the statement for every round in which no
    compaction and no commit failed, on a volume that is not oversized. The excluded inputs are
    exactly the known-finding classes
      batchVacuumVolumeCompact/failed-compaction-leaves-volume-unwritable,
      batchVacuumVolumeCommit/failed-commit-leaves-volume-unwritable,
      batchVacuumVolumeCommit/oversized-volume-becomes-writable. -/
theorem writable_restored_partial (l : Layout)
    (hphase : vacuums l = true → compactOk l = true ∧ commitOk l = true)
    (hov : l.oversized = false) :
    writableAfter l = writableExpected l.writableBefore (observe l) := by
  unfold writableExpected
  rw [saidReadOnly_observe]
  unfold writableAfter
  cases hv : vacuums l
  · simp
  · obtain ⟨hc, hm⟩ := hphase hv
    have hro : l.readOnly = false := by
      unfold vacuums at hv
      cases h : l.readOnly <;> simp_all
    simp [hc, hm, Layout.writableBefore, hov, hro, Bool.and_comm]

example : ∃ l : Layout, (vacuums l = true → compactOk l = true ∧ commitOk l = true) ∧ l.oversized = false ∧ vacuums l = true :=
  ⟨⟨1, [⟨false, false, .ok, .ok, .ok, true⟩]⟩, by decide⟩

/-- the judge accepts every model round outside the three finding classes -/
theorem writable_judge_accepts_model_partial (l : Layout)
    (hphase : vacuums l = true → compactOk l = true ∧ commitOk l = true) (hov : l.oversized = false) :
    writableJudge l.writableBefore (writableAfter l) (observe l) = none := by
  unfold writableJudge
  rw [writable_restored_partial l hphase hov]
  simp

/-- exact characterisation of the defect: after a failed compaction or commit the volume is out of
    `writables`, whatever it was before -/
theorem unwritable_after_failed_phase (l : Layout) (hv : vacuums l = true)
    (hf : compactOk l = false ∨ commitOk l = false) : writableAfter l = false := by
  unfold writableAfter
  rcases hf with h | h <;> simp [hv, h]

/-- a round that does not get past the check phase changes nothing and sends at most the check -/
theorem no_effect_without_vacuum (l : Layout) (hv : vacuums l = false) :
    writableAfter l = l.writableBefore ∧ ∀ r, rpcs l r = [] ∨ rpcs l r = [.check] := by
  refine ⟨by unfold writableAfter; simp [hv], ?_⟩
  intro r
  unfold vacuums at hv
  unfold rpcs
  cases h1 : l.readOnly
  · right
    have : needVacuum l = false := by simpa [h1] using hv
    simp [this]
  · left; simp

/-! witnesses: the full `writable_restored` fails (each is a recorded finding) -/

def wCompactFails : Layout := ⟨2, [⟨false, false, .ok, .ok, .ok, true⟩, ⟨false, false, .ok, .err, .ok, true⟩]⟩
def wCommitFails : Layout := ⟨2, [⟨false, false, .ok, .ok, .ok, true⟩, ⟨false, false, .ok, .ok, .err, true⟩]⟩
def wOversized : Layout := ⟨1, [⟨false, true, .ok, .ok, .ok, true⟩]⟩

theorem writable_restored_fails_compact :
    writableAfter wCompactFails ≠ writableExpected wCompactFails.writableBefore (observe wCompactFails) := by decide
theorem writable_restored_fails_commit :
    writableAfter wCommitFails ≠ writableExpected wCommitFails.writableBefore (observe wCommitFails) := by decide
theorem writable_restored_fails_oversized :
    writableAfter wOversized ≠ writableExpected wOversized.writableBefore (observe wOversized) := by decide
/-- after a failed commit some replicas HAVE committed (the commit loop does not stop) -/
theorem commit_failure_is_partial : Rpc.commit ∈ rpcs wCommitFails ⟨false, false, .ok, .ok, .ok, true⟩ ∧ commitOk wCommitFails = false := by decide

/-! ## bridges: the pinned source of the round (a source edit breaks these obligations; the timeout
    arms, which the quick tier does not wait for, are tied here) -/

theorem bridge_check_timer : SwV.Gen.C14.check_timer = "time.Minute * time.Duration(t.volumeSizeLimit/1024/1024/1000+1)" := by decide
theorem bridge_compact_timer : SwV.Gen.C14.compact_timer = "3 * time.Minute * time.Duration(t.volumeSizeLimit/1024/1024/1000+1)" := by decide
theorem bridge_check_threshold : SwV.Gen.C14.check_threshold_cond = "resp.GarbageRatio >= garbageThreshold" := by decide
theorem bridge_src_check : SwV.Gen.C14.src_batchVacuumVolumeCheck = "070e9955e1b16ddf" := by decide
theorem bridge_src_compact : SwV.Gen.C14.src_batchVacuumVolumeCompact = "0c8f95dc0c694aae" := by decide
theorem bridge_src_commit : SwV.Gen.C14.src_batchVacuumVolumeCommit = "4c01a2773ba077c0" := by decide
theorem bridge_src_cleanup : SwV.Gen.C14.src_batchVacuumVolumeCleanup = "c22676725fd0caba" := by decide
theorem bridge_src_round : SwV.Gen.C14.src_vacuumOneVolumeLayout = "26505cab76697360" := by decide
theorem bridge_src_setVolumeAvailable : SwV.Gen.C14.src_SetVolumeAvailable = "88ba78bb63aed4a8" := by decide
theorem bridge_src_removeFromWritable : SwV.Gen.C14.src_removeFromWritable = "d043d8ad96387755" := by decide
theorem bridge_src_ensureCorrectWritables : SwV.Gen.C14.src_ensureCorrectWritables = "c9cc1ac32e193f8c" := by decide

end SwV.Props.C14
