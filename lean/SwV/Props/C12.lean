/-
C12 — property theorems: master capacity accounting.

Main result `counters_eq_recount_partial`: for every operation sequence of the model — ALL operation
kinds: connects, max-count changes, full and incremental volume heartbeats, full and incremental EC
heartbeats, disconnects, refresh rounds — the invariant `CountersOk` (every disk counter = recount of
what is registered on the disk; node = disk; rack / data center / topology = sums over the connected
servers) is preserved.  Incremental deletions need NO condition any more: `DeltaUpdateVolumes` was repaired in /repo
(bf7edee2: a deletion message for a volume that is not registered is ignored; fb6f0331: the remote flag is
taken from the registered volume), the model mirrors the repaired code (`Core.delReg`), and the former
hypothesis `DelsOk` (= the findings inc/volume-count and inc/remote-volume-count) is gone; the former
failing histories are now proved exact below (`delete_unregistered_recount_exact`,
`delete_remote_incremental_recount_exact`).  What is left in `OpOkE` is
well-formedness of the messages (ids and disk types in the modelled range; a full EC heartbeat lists a
volume once and under the disk type its shards are registered on — the recorded assumptions of
props/C12/prop.json).  The EC conjunct through `UpdateEcShards` rests on `popcount_diff`
(popcount(new) − popcount(old) = popcount(new \ old) − popcount(old \ new), Lemmas/C12Ec).
-/
import SwV.Model.C11
import SwV.Spec.C12
import SwV.Lemmas.C12
import SwV.Lemmas.C12Ec
import SwV.Gen.C12
namespace SwV.Props.C12
open SwV.Model.C11 SwV.Spec.C12 SwV.Lemmas.C12 SwV.Lemmas.C12Ec

/-! ## effect of UpAdjustDiskUsageDelta on the fields -/

@[simp] theorem upAdj_vols (c : Core) (s t d) : (c.upAdj s t d).vols = c.vols := rfl
@[simp] theorem upAdj_ecs (c : Core) (s t d) : (c.upAdj s t d).ecs = c.ecs := rfl
@[simp] theorem upAdj_conn (c : Core) (s t d) : (c.upAdj s t d).conn = c.conn := rfl
@[simp] theorem upAdj_nVid (c : Core) (s t d) : (c.upAdj s t d).nVid = c.nVid := rfl
theorem upAdj_cDisk (c : Core) (s t d s' t') :
    (c.upAdj s t d).cDisk s' t' = if s' = s ∧ t' = t then (c.cDisk s t).add d else c.cDisk s' t' := by
  by_cases h : s' = s ∧ t' = t
  · obtain ⟨rfl, rfl⟩ := h; simp [Core.upAdj, Core.nodeUp, upd2]
  · simp [Core.upAdj, Core.nodeUp, upd2, h]

/-! ## disk level: one registered volume changes, the delta matches -/

theorem diskvol_step {c c' : Core} (h : DiskVolOk c) (s t vid : Nat) (x : Option VInfo) (d : Counts)
    (hn : c'.nVid = c.nVid) (hconn : c'.conn = c.conn) (hvols : c'.vols = upd3 c.vols s t vid x)
    (hdisk : ∀ s' t', c'.cDisk s' t' = if s' = s ∧ t' = t then (c.cDisk s t).add d else c.cDisk s' t')
    (hvid : vid < c.nVid + 1)
    (hdv : d.vol = volBit x - volBit (c.vols s t vid)) (hdr : d.rem = remBit x - remBit (c.vols s t vid)) :
    DiskVolOk c' := by
  constructor
  · intro s' t' hc
    rw [hconn] at hc
    rw [hdisk]
    unfold recountVol
    rw [hn, hvols]
    by_cases e : s' = s ∧ t' = t
    · obtain ⟨rfl, rfl⟩ := e
      rw [if_pos ⟨rfl, rfl⟩]
      have := sumI_upd (n := c.nVid + 1) (s := vid)
        (f := fun v => volBit (c.vols s' t' v))
        (g := fun v => volBit (upd3 c.vols s' t' vid x s' t' v))
        (d := d.vol) hvid
        (by intro i hi; simp [upd3, hi])
        (by simp only [upd3, and_self, if_true]; rw [hdv]; omega)
      have hv := h.vol s' t' hc
      unfold recountVol at hv
      rw [this, ← hv]; simp [Counts.add]
    · rw [if_neg e, h.vol s' t' hc]
      unfold recountVol
      apply sumI_congr
      intro i _
      have : ¬ (s' = s ∧ t' = t ∧ i = vid) := fun ⟨a, b, _⟩ => e ⟨a, b⟩
      simp [upd3, this]
  · intro s' t' hc
    rw [hconn] at hc
    rw [hdisk]
    unfold recountRem
    rw [hn, hvols]
    by_cases e : s' = s ∧ t' = t
    · obtain ⟨rfl, rfl⟩ := e
      rw [if_pos ⟨rfl, rfl⟩]
      have := sumI_upd (n := c.nVid + 1) (s := vid)
        (f := fun v => remBit (c.vols s' t' v))
        (g := fun v => remBit (upd3 c.vols s' t' vid x s' t' v))
        (d := d.rem) hvid
        (by intro i hi; simp [upd3, hi])
        (by simp only [upd3, and_self, if_true]; rw [hdr]; omega)
      have hv := h.rem s' t' hc
      unfold recountRem at hv
      rw [this, ← hv]; simp [Counts.add]
    · rw [if_neg e, h.rem s' t' hc]
      unfold recountRem
      apply sumI_congr
      intro i _
      have : ¬ (s' = s ∧ t' = t ∧ i = vid) := fun ⟨a, b, _⟩ => e ⟨a, b⟩
      simp [upd3, this]

/-- nothing registered changes and the volume / remote counters of no disk change -/
theorem diskvol_frame {c c' : Core} (h : DiskVolOk c)
    (hn : c'.nVid = c.nVid) (hconn : c'.conn = c.conn) (hvols : c'.vols = c.vols)
    (hv : ∀ s t, (c'.cDisk s t).vol = (c.cDisk s t).vol) (hr : ∀ s t, (c'.cDisk s t).rem = (c.cDisk s t).rem) :
    DiskVolOk c' := by
  constructor
  · intro s t hc; rw [hconn] at hc; rw [hv, h.vol s t hc]; unfold recountVol; rw [hn, hvols]
  · intro s t hc; rw [hconn] at hc; rw [hr, h.rem s t hc]; unfold recountRem; rw [hn, hvols]

theorem diskec_frame {c c' : Core} (h : DiskEcOk c)
    (hn : c'.nVid = c.nVid) (hconn : c'.conn = c.conn) (hecs : c'.ecs = c.ecs)
    (he : ∀ s t, (c'.cDisk s t).ec = (c.cDisk s t).ec) : DiskEcOk c' := by
  intro s t hc; rw [hconn] at hc; rw [he, h s t hc]; unfold recountEc; rw [hn, hecs]

theorem diskec_step {c c' : Core} (h : DiskEcOk c) (s t vid x : Nat) (d : Counts)
    (hn : c'.nVid = c.nVid) (hconn : c'.conn = c.conn) (hecs : c'.ecs = upd3 c.ecs s t vid x)
    (hdisk : ∀ s' t', c'.cDisk s' t' = if s' = s ∧ t' = t then (c.cDisk s t).add d else c.cDisk s' t')
    (hvid : vid < c.nVid + 1) (hde : d.ec = (popcount x : Int) - (popcount (c.ecs s t vid) : Int)) :
    DiskEcOk c' := by
  intro s' t' hc
  rw [hconn] at hc
  rw [hdisk]
  unfold recountEc
  rw [hn, hecs]
  by_cases e : s' = s ∧ t' = t
  · obtain ⟨rfl, rfl⟩ := e
    rw [if_pos ⟨rfl, rfl⟩]
    have := sumI_upd (n := c.nVid + 1) (s := vid)
      (f := fun v => (popcount (c.ecs s' t' v) : Int))
      (g := fun v => (popcount (upd3 c.ecs s' t' vid x s' t' v) : Int))
      (d := d.ec) hvid
      (by intro i hi; simp [upd3, hi])
      (by simp only [upd3, and_self, if_true]; rw [hde]; omega)
    have hv := h s' t' hc
    unfold recountEc at hv
    rw [this, ← hv]; simp [Counts.add]
  · rw [if_neg e, h s' t' hc]
    unfold recountEc
    apply sumI_congr
    intro i _
    have : ¬ (s' = s ∧ t' = t ∧ i = vid) := fun ⟨a, b, _⟩ => e ⟨a, b⟩
    simp [upd3, this]

/-! ## primitives preserve the invariant -/

/-- the invariant; the EC conjunct is carried under the flag `w` (full EC heartbeats drop it) -/
structure Ok (c : Core) (N : Nat) (w : Prop) : Prop where
  hier : HierOk c N
  vols : DiskVolOk c
  ec : w → DiskEcOk c

theorem hier_of_eq {c c' : Core} {N : Nat} (h : HierOk c N)
    (h1 : c'.conn = c.conn) (h2 : c'.dcOf = c.dcOf) (h3 : c'.rackOf = c.rackOf) (h4 : c'.cNode = c.cNode)
    (h5 : c'.cRack = c.cRack) (h6 : c'.cDc = c.cDc) (h7 : c'.cTopo = c.cTopo) (h8 : c'.cDisk = c.cDisk) : HierOk c' N :=
  ⟨by intro s t hc; rw [h1] at hc; rw [h4, h8]; exact h.node s t hc, sums_of_eq h.sums h1 h2 h3 h4 h5 h6 h7⟩

/-- a registered volume is added / replaced / deleted and the disk's counters move by the matching delta -/
theorem ok_setVol {c : Core} {N : Nat} {w : Prop} (h : Ok c N w) (s t vid : Nat) (x : Option VInfo) (d : Counts)
    (hc : c.conn s = true) (hs : s < N) (hvid : vid < c.nVid + 1)
    (hdv : d.vol = volBit x - volBit (c.vols s t vid)) (hdr : d.rem = remBit x - remBit (c.vols s t vid))
    (hde : d.ec = 0) :
    Ok (Core.upAdj { c with vols := upd3 c.vols s t vid x } s t d) N w := by
  refine ⟨hier_upAdj (hier_of_eq h.hier rfl rfl rfl rfl rfl rfl rfl rfl) hc hs, ?_, ?_⟩
  · exact diskvol_step h.vols s t vid x d rfl rfl rfl (fun s' t' => by rw [upAdj_cDisk]) hvid hdv hdr
  · intro hw
    refine diskec_frame (h.ec hw) rfl rfl rfl ?_
    intro s' t'
    rw [upAdj_cDisk]
    split
    · next e => obtain ⟨rfl, rfl⟩ := e; simp [Counts.add, hde]
    · rfl

/-- a volume record is replaced without any counter change -/
theorem ok_setVol0 {c : Core} {N : Nat} {w : Prop} (h : Ok c N w) (s t vid : Nat) (x : Option VInfo)
    (hvid : vid < c.nVid + 1)
    (hdv : volBit x = volBit (c.vols s t vid)) (hdr : remBit x = remBit (c.vols s t vid)) :
    Ok { c with vols := upd3 c.vols s t vid x } N w := by
  refine ⟨hier_of_eq h.hier rfl rfl rfl rfl rfl rfl rfl rfl, ?_, fun hw => diskec_frame (h.ec hw) rfl rfl rfl (fun _ _ => rfl)⟩
  refine diskvol_step h.vols s t vid x {} rfl rfl rfl ?_ hvid (by simp [hdv]) (by simp [hdr])
  intro s' t'
  split
  · next e => obtain ⟨rfl, rfl⟩ := e; simp
  · rfl

/-- EC shard bits of one volume change and the disk's EC counter moves by the matching delta -/
theorem ok_setEc {c : Core} {N : Nat} {w : Prop} (h : Ok c N w) (s t vid x : Nat) (d : Counts)
    (hc : c.conn s = true) (hs : s < N) (hvid : vid < c.nVid + 1)
    (hdv : d.vol = 0) (hdr : d.rem = 0)
    (hde : d.ec = (popcount x : Int) - (popcount (c.ecs s t vid) : Int)) :
    Ok (Core.upAdj { c with ecs := upd3 c.ecs s t vid x } s t d) N w := by
  refine ⟨hier_upAdj (hier_of_eq h.hier rfl rfl rfl rfl rfl rfl rfl rfl) hc hs, ?_, ?_⟩
  · refine diskvol_frame h.vols rfl rfl rfl ?_ ?_ <;>
    · intro s' t'
      rw [upAdj_cDisk]
      split
      · next e => obtain ⟨rfl, rfl⟩ := e; simp [Counts.add, hdv, hdr]
      · rfl
  · intro hw
    exact diskec_step (h.ec hw) s t vid x d rfl rfl rfl (fun s' t' => by rw [upAdj_cDisk]) hvid hde

/-- a counter delta that carries no volume / remote / EC component (max-count changes) -/
theorem ok_upAdj0 {c : Core} {N : Nat} {w : Prop} (h : Ok c N w) (s t : Nat) (d : Counts)
    (hc : c.conn s = true) (hs : s < N) (hdv : d.vol = 0) (hdr : d.rem = 0) (hde : d.ec = 0) :
    Ok (c.upAdj s t d) N w := by
  refine ⟨hier_upAdj h.hier hc hs, ?_, ?_⟩
  · refine diskvol_frame h.vols rfl rfl rfl ?_ ?_ <;>
    · intro s' t'
      rw [upAdj_cDisk]
      split
      · next e => obtain ⟨rfl, rfl⟩ := e; simp [Counts.add, hdv, hdr]
      · rfl
  · intro hw
    refine diskec_frame (h.ec hw) rfl rfl rfl ?_
    intro s' t'
    rw [upAdj_cDisk]
    split
    · next e => obtain ⟨rfl, rfl⟩ := e; simp [Counts.add, hde]
    · rfl

/-! ## DataNode-level operations -/

/-- what every operation except connect/disconnect keeps -/
def Same (c' c : Core) : Prop := c'.conn = c.conn ∧ c'.nVid = c.nVid

theorem Same.refl (c : Core) : Same c c := ⟨rfl, rfl⟩
theorem Same.trans {a b c : Core} (h1 : Same a b) (h2 : Same b c) : Same a c := ⟨h1.1.trans h2.1, h1.2.trans h2.2⟩

theorem ok_addOrUpdate {c : Core} {N : Nat} {w : Prop} (h : Ok c N w) (s : Nat) (v : VInfo)
    (hc : c.conn s = true) (hs : s < N) (hv : v.id < c.nVid + 1) :
    Ok (c.addOrUpdate s v).1 N w ∧ Same (c.addOrUpdate s v).1 c := by
  cases heq : c.vols s v.key.disk v.id with
  | none =>
    simp only [Core.addOrUpdate, heq]
    refine ⟨ok_setVol h s v.key.disk v.id (some v) _ hc hs hv ?_ ?_ rfl, ⟨rfl, rfl⟩⟩
    · simp [volBit, heq]
    · simp [remBit, heq]
  | some old =>
    by_cases hr : (old.remote != v.remote) = true
    · simp only [Core.addOrUpdate, heq, hr, if_true]
      refine ⟨ok_setVol h s v.key.disk v.id (some v) { rem := Core.b2i v.remote - Core.b2i old.remote } hc hs hv ?_ ?_ rfl, ⟨rfl, rfl⟩⟩
      · simp [volBit, heq]
      · simp [remBit, heq]
    · simp only [Core.addOrUpdate, heq, hr]
      refine ⟨ok_setVol0 h s v.key.disk v.id (some v) hv ?_ ?_, ⟨rfl, rfl⟩⟩
      · simp [volBit, heq]
      · have : old.remote = v.remote := by simpa using hr
        simp [remBit, heq, this]

theorem ok_delVol {c : Core} {N : Nat} {w : Prop} (h : Ok c N w) (s t vid : Nat) (old : VInfo)
    (hc : c.conn s = true) (hs : s < N) (hv : vid < c.nVid + 1) (hreg : c.vols s t vid = some old) :
    Ok (c.delVol s t vid old.remote) N w ∧ Same (c.delVol s t vid old.remote) c := by
  unfold Core.delVol
  refine ⟨ok_setVol h s t vid none _ hc hs hv ?_ ?_ rfl, ⟨rfl, rfl⟩⟩
  · simp [volBit, hreg]
  · simp [remBit, hreg]

theorem ok_sweepGone {c : Core} {N : Nat} {w : Prop} (h : Ok c N w) (s : Nat) (actual : List VInfo) (t : Nat)
    (hc : c.conn s = true) (hs : s < N) (n : Nat) (hn : n ≤ c.nVid + 1) :
    Ok (c.sweepGone s actual t n).1 N w ∧ Same (c.sweepGone s actual t n).1 c := by
  induction n with
  | zero => exact ⟨h, Same.refl c⟩
  | succ n ih =>
    have ih := ih (by omega)
    simp only [Core.sweepGone]
    split
    · next v heq =>
      split
      · exact ih
      · have hc' : (c.sweepGone s actual t n).1.conn s = true := by rw [ih.2.1]; exact hc
        have := ok_delVol ih.1 s t n v hc' hs (by rw [ih.2.2]; omega) heq
        exact ⟨this.1, this.2.trans ih.2⟩
    · exact ih

theorem ok_addAll {c : Core} {N : Nat} {w : Prop} (h : Ok c N w) (s : Nat) (vs : List VInfo)
    (hc : c.conn s = true) (hs : s < N) (hv : ∀ v ∈ vs, v.id < c.nVid + 1) :
    Ok (c.addAll s vs).1 N w ∧ Same (c.addAll s vs).1 c := by
  induction vs generalizing c with
  | nil => exact ⟨h, Same.refl c⟩
  | cons v vs ih =>
    simp only [Core.addAll]
    have h1 := ok_addOrUpdate h s v hc hs (hv v (by simp))
    have h2 := ih h1.1 (by rw [h1.2.1]; exact hc) (fun x hx => by rw [h1.2.2]; exact hv x (by simp [hx]))
    exact ⟨h2.1, h2.2.trans h1.2⟩

/-- DataNode.UpdateVolumes (full volume heartbeat) keeps the accounting exact -/
theorem ok_updateVolumes {c : Core} {N : Nat} {w : Prop} (h : Ok c N w) (s : Nat) (vs : List VInfo)
    (hc : c.conn s = true) (hs : s < N) (hv : ∀ v ∈ vs, v.id < c.nVid + 1) :
    Ok (c.updateVolumes s vs).1 N w ∧ Same (c.updateVolumes s vs).1 c := by
  unfold Core.updateVolumes
  have g0 := ok_sweepGone h s vs 0 hc hs (c.nVid + 1) (by omega)
  have g1 := ok_sweepGone g0.1 s vs 1 (by rw [g0.2.1]; exact hc) hs (c.nVid + 1) (by rw [g0.2.2]; omega)
  have a := ok_addAll g1.1 s vs (by rw [g1.2.1, g0.2.1]; exact hc) hs (fun x hx => by rw [g1.2.2, g0.2.2]; exact hv x hx)
  exact ⟨a.1, a.2.trans (g1.2.trans g0.2)⟩

/-- one deletion message of an incremental heartbeat (`delReg`): a registered volume is deleted with the
    decrement its registration calls for; a message for a volume that is not registered changes nothing -/
theorem ok_delReg {c : Core} {N : Nat} {w : Prop} (h : Ok c N w) (s : Nat) (v : VInfo)
    (hc : c.conn s = true) (hs : s < N) (hv : v.id < c.nVid + 1) :
    Ok (c.delReg s v) N w ∧ Same (c.delReg s v) c := by
  unfold Core.delReg
  split
  · next old hreg => exact ok_delVol h s v.key.disk v.id old hc hs hv hreg
  · exact ⟨h, Same.refl c⟩

/-- the deletions of DeltaUpdateVolumes keep the accounting exact for ANY deletion messages (ids in the
    modelled range): duplicates, stale messages, messages for remote volumes -/
theorem ok_dels {c : Core} {N : Nat} {w : Prop} (h : Ok c N w) (s : Nat) (ds : List VInfo)
    (hc : c.conn s = true) (hs : s < N) (hd : ∀ v ∈ ds, v.id < c.nVid + 1) :
    Ok (ds.foldl (fun c v => c.delReg s v) c) N w ∧
      Same (ds.foldl (fun c v => c.delReg s v) c) c := by
  induction ds generalizing c with
  | nil => exact ⟨h, Same.refl c⟩
  | cons v vs ih =>
    simp only [List.foldl_cons]
    have h1 := ok_delReg h s v hc hs (hd v (by simp))
    have h2 := ih h1.1 (by rw [h1.2.1]; exact hc) (fun x hx => by rw [h1.2.2]; exact hd x (by simp [hx]))
    exact ⟨h2.1, h2.2.trans h1.2⟩

theorem ok_news {c : Core} {N : Nat} {w : Prop} (h : Ok c N w) (s : Nat) (vs : List VInfo)
    (hc : c.conn s = true) (hs : s < N) (hv : ∀ v ∈ vs, v.id < c.nVid + 1) :
    Ok (vs.foldl (fun c v => (c.addOrUpdate s v).1) c) N w ∧ Same (vs.foldl (fun c v => (c.addOrUpdate s v).1) c) c := by
  induction vs generalizing c with
  | nil => exact ⟨h, Same.refl c⟩
  | cons v vs ih =>
    simp only [List.foldl_cons]
    have h1 := ok_addOrUpdate h s v hc hs (hv v (by simp))
    have h2 := ih h1.1 (by rw [h1.2.1]; exact hc) (fun x hx => by rw [h1.2.2]; exact hv x (by simp [hx]))
    exact ⟨h2.1, h2.2.trans h1.2⟩

/-- DataNode.DeltaUpdateVolumes (incremental heartbeat) keeps the accounting exact, whatever it deletes -/
theorem ok_deltaUpdateVolumes {c : Core} {N : Nat} {w : Prop} (h : Ok c N w) (s : Nat) (news dels : List VInfo)
    (hc : c.conn s = true) (hs : s < N) (hv : ∀ v ∈ news, v.id < c.nVid + 1) (hd : ∀ v ∈ dels, v.id < c.nVid + 1) :
    Ok (c.deltaUpdateVolumes s news dels) N w ∧ Same (c.deltaUpdateVolumes s news dels) c := by
  unfold Core.deltaUpdateVolumes
  have h1 := ok_dels h s dels hc hs hd
  have h2 := ok_news h1.1 s news (by rw [h1.2.1]; exact hc) hs (fun x hx => by rw [h1.2.2]; exact hv x hx)
  exact ⟨h2.1, h2.2.trans h1.2⟩

theorem ok_adjustMax1 {c : Core} {N : Nat} {w : Prop} (h : Ok c N w) (s t m : Nat)
    (hc : c.conn s = true) (hs : s < N) : Ok (c.adjustMax1 s t m) N w ∧ Same (c.adjustMax1 s t m) c := by
  unfold Core.adjustMax1
  split
  · exact ⟨h, Same.refl c⟩
  · split
    · exact ⟨h, Same.refl c⟩
    · exact ⟨ok_upAdj0 h s t _ hc hs rfl rfl rfl, ⟨rfl, rfl⟩⟩

/-- DataNode.AdjustMaxVolumeCounts -/
theorem ok_adjustMax {c : Core} {N : Nat} {w : Prop} (h : Ok c N w) (s mh ms : Nat) (hs : s < N) :
    Ok (c.adjustMax s mh ms) N w ∧ Same (c.adjustMax s mh ms) c := by
  unfold Core.adjustMax
  split
  · next hc =>
    have h1 := ok_adjustMax1 h s 0 mh hc hs
    have h2 := ok_adjustMax1 h1.1 s 1 ms (by rw [h1.2.1]; exact hc) hs
    exact ⟨h2.1, h2.2.trans h1.2⟩
  · exact ⟨h, Same.refl c⟩

/-- GetOrCreateDataNode: a fresh DataNode is linked, then one Disk per reported type -/
theorem ok_connect {c : Core} {N : Nat} {w : Prop} (h : Ok c N w) (s dc rack mh ms : Nat) (hs : s < N) :
    Ok (c.connect s dc rack mh ms) N w ∧ (c.connect s dc rack mh ms).nVid = c.nVid := by
  unfold Core.connect
  split
  · exact ⟨h, rfl⟩
  · next hc =>
    have hc : c.conn s = false := by simpa using hc
    -- the freshly linked, empty node
    have h1 : Ok ({ c with
        conn := upd1 c.conn s true, dcOf := upd1 c.dcOf s dc, rackOf := upd1 c.rackOf s rack
        vols := fun x => if x = s then fun _ _ => none else c.vols x
        ecs := fun x => if x = s then fun _ _ => 0 else c.ecs x
        cDisk := fun x => if x = s then fun _ => {} else c.cDisk x
        cNode := fun x => if x = s then fun _ => {} else c.cNode x } : Core) N w := by
      refine ⟨⟨?_, ⟨?_, ?_, ?_⟩⟩, ⟨?_, ?_⟩, ?_⟩
      · intro s' t' hc'
        by_cases e : s' = s
        · subst e; simp
        · have : c.conn s' = true := by simpa [upd1, e] using hc'
          simpa [e] using h.hier.node s' t' this
      · intro d r t ht
        rw [show _ = c.cRack d r t from rfl, h.hier.sums.rack d r t ht]
        apply sumC_congr; intro i _
        by_cases e : i = s
        · subst e; simp [live, upd1, hc]
        · simp [live, upd1, e]
      · intro d t ht
        rw [show _ = c.cDc d t from rfl, h.hier.sums.dc d t ht]
        apply sumC_congr; intro i _
        by_cases e : i = s
        · subst e; simp [live, upd1, hc]
        · simp [live, upd1, e]
      · intro t ht
        rw [show _ = c.cTopo t from rfl, h.hier.sums.topo t ht]
        apply sumC_congr; intro i _
        by_cases e : i = s
        · subst e; simp [live, upd1, hc]
        · simp [live, upd1, e]
      · intro s' t' hc'
        by_cases e : s' = s
        · subst e
          simp only [recountVol, if_true]
          rw [sumI_zero (fun i _ => by simp [volBit])]
        · have : c.conn s' = true := by simpa [upd1, e] using hc'
          simpa [recountVol, e] using h.vols.vol s' t' this
      · intro s' t' hc'
        by_cases e : s' = s
        · subst e
          simp only [recountRem, if_true]
          rw [sumI_zero (fun i _ => by simp [remBit])]
        · have : c.conn s' = true := by simpa [upd1, e] using hc'
          simpa [recountRem, e] using h.vols.rem s' t' this
      · intro hw s' t' hc'
        by_cases e : s' = s
        · subst e
          simp only [recountEc, if_true]
          rw [sumI_zero (fun i _ => by simp [popcount, popAux])]
        · have : c.conn s' = true := by simpa [upd1, e] using hc'
          simpa [recountEc, e] using h.ec hw s' t' this
    have h2 := ok_upAdj0 h1 s 0 { max := (mh : Int) } (by simp [upd1]) hs rfl rfl rfl
    dsimp only
    split
    · exact ⟨ok_upAdj0 h2 s 1 { max := (ms : Int) } (by simp [upd1]) hs rfl rfl rfl, rfl⟩
    · exact ⟨h2, rfl⟩

/-- UnRegisterDataNode: the node's usages are subtracted upwards and the node is unlinked -/
theorem ok_disconnect {c : Core} {N : Nat} {w : Prop} (h : Ok c N w) (s : Nat) (hc : c.conn s = true) (hs : s < N) :
    Ok (c.disconnect s) N w ∧ (c.disconnect s).nVid = c.nVid := by
  have s1 : Sums (c.nodeUp s 0 (c.cNode s 0).neg) N := sums_nodeUp h.hier.sums hc hs
  have s2 : Sums ((c.nodeUp s 0 (c.cNode s 0).neg).nodeUp s 1 ((c.nodeUp s 0 (c.cNode s 0).neg).cNode s 1).neg) N :=
    sums_nodeUp s1 hc hs
  have z : ∀ t, t < 2 → ((c.nodeUp s 0 (c.cNode s 0).neg).nodeUp s 1 ((c.nodeUp s 0 (c.cNode s 0).neg).cNode s 1).neg).cNode s t = {} := by
    intro t ht
    have : t = 0 ∨ t = 1 := by omega
    rcases this with rfl | rfl <;> simp [Core.nodeUp, upd2]
  have oth : ∀ s' t, s' ≠ s → ((c.nodeUp s 0 (c.cNode s 0).neg).nodeUp s 1 ((c.nodeUp s 0 (c.cNode s 0).neg).cNode s 1).neg).cNode s' t = c.cNode s' t := by
    intro s' t e; simp [Core.nodeUp, upd2, e]
  unfold Core.disconnect
  refine ⟨⟨⟨?_, ⟨?_, ?_, ?_⟩⟩, ⟨?_, ?_⟩, ?_⟩, rfl⟩
  · intro s' t' hc'
    have hc0 : upd1 c.conn s false s' = true := hc'
    have e : s' ≠ s := by intro e; subst e; simp [upd1] at hc0
    have : c.conn s' = true := by simpa [upd1, e] using hc0
    show _ = c.cDisk s' t'
    rw [← h.hier.node s' t' this]; exact oth s' t' e
  · intro d r t ht
    show ((c.nodeUp s 0 (c.cNode s 0).neg).nodeUp s 1 ((c.nodeUp s 0 (c.cNode s 0).neg).cNode s 1).neg).cRack d r t = _
    rw [s2.rack d r t ht]
    apply sumC_congr; intro i _
    by_cases e : i = s
    · subst e; simp only [live, upd1, if_true]; rw [z t ht]; simp [Core.nodeUp, hc]
    · simp [live, upd1, e, Core.nodeUp]
  · intro d t ht
    show ((c.nodeUp s 0 (c.cNode s 0).neg).nodeUp s 1 ((c.nodeUp s 0 (c.cNode s 0).neg).cNode s 1).neg).cDc d t = _
    rw [s2.dc d t ht]
    apply sumC_congr; intro i _
    by_cases e : i = s
    · subst e; simp only [live, upd1, if_true]; rw [z t ht]; simp [Core.nodeUp, hc]
    · simp [live, upd1, e, Core.nodeUp]
  · intro t ht
    show ((c.nodeUp s 0 (c.cNode s 0).neg).nodeUp s 1 ((c.nodeUp s 0 (c.cNode s 0).neg).cNode s 1).neg).cTopo t = _
    rw [s2.topo t ht]
    apply sumC_congr; intro i _
    by_cases e : i = s
    · subst e; simp only [live, upd1, if_true]; rw [z t ht]; simp [Core.nodeUp, hc]
    · simp [live, upd1, e, Core.nodeUp]
  · intro s' t' hc'
    have hc0 : upd1 c.conn s false s' = true := hc'
    have e : s' ≠ s := by intro e; subst e; simp [upd1] at hc0
    have : c.conn s' = true := by simpa [upd1, e] using hc0
    exact h.vols.vol s' t' this
  · intro s' t' hc'
    have hc0 : upd1 c.conn s false s' = true := hc'
    have e : s' ≠ s := by intro e; subst e; simp [upd1] at hc0
    have : c.conn s' = true := by simpa [upd1, e] using hc0
    exact h.vols.rem s' t' this
  · intro hw s' t' hc'
    have hc0 : upd1 c.conn s false s' = true := hc'
    have e : s' ≠ s := by intro e; subst e; simp [upd1] at hc0
    have : c.conn s' = true := by simpa [upd1, e] using hc0
    exact h.ec hw s' t' this

/-! ## EC shards -/

theorem ok_addEc {c : Core} {N : Nat} {w : Prop} (h : Ok c N w) (s : Nat) (e : EcInfo)
    (hc : c.conn s = true) (hs : s < N) (hv : e.id < c.nVid + 1) : Ok (c.addEc s e) N w ∧ Same (c.addEc s e) c :=
  ⟨ok_setEc h s e.disk e.id _ _ hc hs hv rfl rfl rfl, ⟨rfl, rfl⟩⟩

theorem ok_delEc {c : Core} {N : Nat} {w : Prop} (h : Ok c N w) (s : Nat) (e : EcInfo)
    (hc : c.conn s = true) (hs : s < N) (hv : e.id < c.nVid + 1) : Ok (c.delEc s e) N w ∧ Same (c.delEc s e) c := by
  simp only [Core.delEc]
  split
  · exact ⟨h, Same.refl c⟩
  · exact ⟨ok_setEc h s e.disk e.id _ _ hc hs hv rfl rfl rfl, ⟨rfl, rfl⟩⟩

theorem ok_foldl {α : Type} {N : Nat} {w : Prop} (f : Core → α → Core) (s : Nat) (c0 : Core)
    (hf : ∀ c a, Ok c N w → c.conn s = true → c.nVid = c0.nVid → Ok (f c a) N w ∧ Same (f c a) c)
    (l : List α) {c : Core} (h : Ok c N w) (hc : c.conn s = true) (hn : c.nVid = c0.nVid) :
    Ok (l.foldl f c) N w ∧ Same (l.foldl f c) c := by
  induction l generalizing c with
  | nil => exact ⟨h, Same.refl c⟩
  | cons a l ih =>
    simp only [List.foldl_cons]
    have h1 := hf c a h hc hn
    have h2 := ih h1.1 (by rw [h1.2.1]; exact hc) (by rw [h1.2.2]; exact hn)
    exact ⟨h2.1, h2.2.trans h1.2⟩

/-- DataNode.DeltaUpdateEcShards (incremental EC heartbeat) keeps the accounting exact -/
theorem ok_deltaUpdateEcShards {c : Core} {N : Nat} {w : Prop} (h : Ok c N w) (s : Nat) (news dels : List EcInfo)
    (hc : c.conn s = true) (hs : s < N) (hv : ∀ e ∈ news ++ dels, e.id < c.nVid + 1) :
    Ok (c.deltaUpdateEcShards s news dels) N w ∧ Same (c.deltaUpdateEcShards s news dels) c := by
  unfold Core.deltaUpdateEcShards
  have key : ∀ (l : List EcInfo) (g : Core → Nat → EcInfo → Core),
      (∀ c e, Ok c N w → c.conn s = true → e.id < c.nVid + 1 → Ok (g c s e) N w ∧ Same (g c s e) c) →
      (∀ e ∈ l, e.id < c.nVid + 1) →
      ∀ c', Ok c' N w → c'.conn s = true → c'.nVid = c.nVid →
        Ok (l.foldl (fun c e => g c s e) c') N w ∧ Same (l.foldl (fun c e => g c s e) c') c' := by
    intro l g hg hl
    induction l with
    | nil => intro c' h' _ _; exact ⟨h', Same.refl c'⟩
    | cons a l ih =>
      intro c' h' hc' hn'
      simp only [List.foldl_cons]
      have h1 := hg c' a h' hc' (by rw [hn']; exact hl a (by simp))
      have h2 := ih (fun e he => hl e (by simp [he])) (g c' s a) h1.1 (by rw [h1.2.1]; exact hc') (by rw [h1.2.2]; exact hn')
      exact ⟨h2.1, h2.2.trans h1.2⟩
  have h1 := key news Core.addEc (fun c e a b d => ok_addEc a s e b hs d) (fun e he => hv e (by simp [he])) c h hc rfl
  have h2 := key dels Core.delEc (fun c e a b d => ok_delEc a s e b hs d) (fun e he => hv e (by simp [he])) _ h1.1
    (by rw [h1.2.1]; exact hc) h1.2.2
  exact ⟨h2.1, h2.2.trans h1.2⟩

theorem okF_upAdj {c : Core} {N : Nat} {w : Prop} (h : Ok c N w) (s t : Nat) (d : Counts)
    (hc : c.conn s = true) (hs : s < N) (hdv : d.vol = 0) (hdr : d.rem = 0) : Ok (c.upAdj s t d) N False := by
  refine ⟨hier_upAdj h.hier hc hs, ?_, fun f => f.elim⟩
  refine diskvol_frame h.vols rfl rfl rfl ?_ ?_ <;>
  · intro s' t'
    rw [upAdj_cDisk]
    split
    · next e => obtain ⟨rfl, rfl⟩ := e; simp [Counts.add, hdv, hdr]
    · rfl

theorem okF_ecs {c : Core} {N : Nat} (h : Ok c N False) (e : Nat → Nat → Nat → Nat) : Ok { c with ecs := e } N False :=
  ⟨hier_of_eq h.hier rfl rfl rfl rfl rfl rfl rfl rfl, diskvol_frame h.vols rfl rfl rfl (fun _ _ => rfl) (fun _ _ => rfl), fun f => f.elim⟩

theorem foldl_prod_inv {β γ : Type} (P : Core → Prop) (f : Core × β → γ → Core × β)
    (hf : ∀ acc x, P acc.1 → P (f acc x).1) (l : List γ) (init : Core × β) (h : P init.1) : P (l.foldl f init).1 := by
  induction l generalizing init with
  | nil => exact h
  | cons a l ih => simp only [List.foldl_cons]; exact ih _ (hf init a h)

theorem foldl_inv {γ : Type} (P : Core → Prop) (f : Core → γ → Core)
    (hf : ∀ c x, P c → P (f c x)) (l : List γ) (init : Core) (h : P init) : P (l.foldl f init) := by
  induction l generalizing init with
  | nil => exact h
  | cons a l ih => simp only [List.foldl_cons]; exact ih _ (hf init a h)

/-- DataNode.UpdateEcShards (full EC heartbeat): the hierarchy and the volume counters stay exact
    for ANY message (the EC counter needs a well-formed message: `ok_updateEcShards_ec` below) -/
theorem ok_updateEcShards {c : Core} {N : Nat} {w : Prop} (h : Ok c N w) (s : Nat) (actual : List EcInfo)
    (hc : c.conn s = true) (hs : s < N) :
    Ok (c.updateEcShards s actual).1 N False ∧ Same (c.updateEcShards s actual).1 c := by
  let P : Core → Prop := fun c' => Ok c' N False ∧ Same c' c
  have h0 : P c := ⟨⟨h.hier, h.vols, fun f => f.elim⟩, Same.refl c⟩
  have stepP : ∀ c' t d, P c' → d.vol = 0 → d.rem = 0 → P (c'.upAdj s t d) := by
    intro c' t d hp hv hr
    exact ⟨okF_upAdj hp.1 s t d (by rw [hp.2.1]; exact hc) hs hv hr, Same.trans ⟨rfl, rfl⟩ hp.2⟩
  unfold Core.updateEcShards
  have l1 := foldl_prod_inv P (Core.ecStep1 s actual)
    (by
      intro acc e hp
      unfold Core.ecStep1
      split
      · exact stepP _ _ _ hp rfl rfl
      · exact stepP _ _ _ hp rfl rfl)
    (c.ecOf s) (c, [], []) h0
  have l2 := foldl_prod_inv P (Core.ecStep2 c s)
    (by
      intro acc e hp
      unfold Core.ecStep2
      split
      · exact hp
      · exact stepP _ _ _ hp rfl rfl)
    actual ((List.foldl (Core.ecStep1 s actual) (c, [], []) (c.ecOf s)).1, (List.foldl (Core.ecStep1 s actual) (c, [], []) (c.ecOf s)).2.1) l1
  simp only []
  split
  · exact l2
  · refine foldl_inv P _ ?_ actual _ ?_
    · intro c' e hp; exact ⟨okF_ecs hp.1 _, hp.2⟩
    · exact ⟨okF_ecs l2.1 _, l2.2⟩

/-! ## the layout side does not touch the DataNode/Disk side -/

@[simp] theorem touchKey_core (st : St) (k : Key) : (touchKey st k).toCore = st.toCore := by
  unfold touchKey; split <;> rfl
@[simp] theorem removeWritable_core (st : St) (k : Key) (v : Nat) : (removeWritable st k v).toCore = st.toCore := rfl
@[simp] theorem setWritable_core (st : St) (k : Key) (v : Nat) : (setWritable st k v).toCore = st.toCore := by
  unfold setWritable; split <;> rfl
@[simp] theorem ensureWritables_core (st : St) (k : Key) (v : Nat) : (ensureWritables st k v).toCore = st.toCore := by
  unfold ensureWritables; split
  · split
    · simp
    · rfl
  · rfl
@[simp] theorem registerLayout_core (st : St) (v : VInfo) (s : Nat) : (registerLayout st v s).toCore = st.toCore := by
  simp [registerLayout, registerVolume]
@[simp] theorem unregisterLayout_core (st : St) (v : VInfo) (s : Nat) : (unregisterLayout st v s).toCore = st.toCore := by
  simp only [unregisterLayout]
  split
  · simp
  · split
    · split <;> simp
    · simp
@[simp] theorem setUnavailable_core (st : St) (v : VInfo) (s : Nat) : (setUnavailable st v s).toCore = st.toCore := by
  simp only [setUnavailable]
  split
  · simp
  · split
    · split <;> simp
    · simp

theorem foldl_core {α : Type} (f : St → α → St) (hf : ∀ st a, (f st a).toCore = st.toCore) (l : List α) (st : St) :
    (l.foldl f st).toCore = st.toCore := by
  induction l generalizing st with
  | nil => rfl
  | cons a l ih => simp only [List.foldl_cons]; rw [ih, hf]

@[simp] theorem registerEc_core (st : St) (vid bits s : Nat) : (registerEc st vid bits s).toCore = st.toCore := by
  unfold registerEc; apply foldl_core; intro _ _; rfl
@[simp] theorem unregisterEc_core (st : St) (vid bits s : Nat) : (unregisterEc st vid bits s).toCore = st.toCore := by
  unfold unregisterEc; apply foldl_core; intro _ _; rfl

/-- the DataNode/Disk side of one operation -/
def stepCore (c : Core) : Op → Core
  | .conn s dc rack h ssd => c.connect s dc rack h ssd
  | .max s h ssd => c.adjustMax s h ssd
  | .full s vs => if c.conn s then (c.updateVolumes s vs).1 else c
  | .inc s ns ds => if c.conn s then c.deltaUpdateVolumes s ns ds else c
  | .ecfull s es => if c.conn s then (c.updateEcShards s es).1 else c
  | .ecinc s ns ds => if c.conn s then c.deltaUpdateEcShards s ns ds else c
  | .disc s => if c.conn s then c.disconnect s else c
  | .refresh => c

theorem step_core (st : St) (op : Op) : (step st op).toCore = stepCore st.toCore op := by
  cases op with
  | conn s dc rack h ssd => rfl
  | max s h ssd => rfl
  | full s vs =>
    simp only [step, syncFull, stepCore]
    cases hc : st.conn s <;> simp [foldl_core]
  | inc s ns ds =>
    simp only [step, syncInc, stepCore]
    cases hc : st.conn s <;> simp [foldl_core]
  | ecfull s es =>
    simp only [step, syncEcFull, stepCore]
    cases hc : st.conn s <;> simp [foldl_core]
  | ecinc s ns ds =>
    simp only [step, syncEcInc, stepCore]
    cases hc : st.conn s <;> simp [foldl_core]
  | disc s =>
    simp only [step, disc, stepCore]
    cases hc : st.conn s <;> simp [foldl_core]
  | refresh =>
    simp only [step, refresh, stepCore]
    refine foldl_core _ ?_ _ _
    intro st' s
    split
    · refine foldl_core _ ?_ _ _
      intro st'' v; split <;> simp
    · rfl

/-! ## the property theorems -/

/-- well-formed operation in state `c` with `N` modelled servers: indices in range, nothing else -/
def OpOk (c : Core) (N : Nat) : Op → Prop
  | .conn s _ _ _ _ => s < N
  | .max s _ _ => s < N
  | .full s vs => s < N ∧ ∀ v ∈ vs, v.id < c.nVid + 1
  | .inc s ns ds => s < N ∧ ∀ v ∈ ns ++ ds, v.id < c.nVid + 1
  | .ecfull s _ => s < N
  | .ecinc s ns ds => s < N ∧ ∀ e ∈ ns ++ ds, e.id < c.nVid + 1
  | .disc s => s < N
  | .refresh => True

def isEcFull : Op → Prop
  | .ecfull _ _ => True
  | _ => False

theorem Ok.mono {c : Core} {N : Nat} {w w' : Prop} (h : Ok c N w) (hw : w' → w) : Ok c N w' :=
  ⟨h.hier, h.vols, fun x => h.ec (hw x)⟩

/-- one operation preserves the invariant; a full EC heartbeat keeps everything but the EC conjunct -/
theorem ok_step {c : Core} {N : Nat} {w : Prop} (h : Ok c N w) (op : Op) (hop : OpOk c N op) :
    Ok (stepCore c op) N (w ∧ ¬ isEcFull op) ∧ (stepCore c op).nVid = c.nVid := by
  cases op with
  | conn s dc rack mh ms =>
    have := ok_connect h s dc rack mh ms hop
    exact ⟨this.1.mono (·.1), this.2⟩
  | max s mh ms =>
    have := ok_adjustMax h s mh ms hop
    exact ⟨this.1.mono (·.1), this.2.2⟩
  | full s vs =>
    simp only [stepCore]
    split
    · next hc => have := ok_updateVolumes h s vs hc hop.1 hop.2; exact ⟨this.1.mono (·.1), this.2.2⟩
    · exact ⟨h.mono (·.1), rfl⟩
  | inc s ns ds =>
    simp only [stepCore]
    split
    · next hc =>
      have := ok_deltaUpdateVolumes h s ns ds hc hop.1 (fun v hv => hop.2 v (by simp [hv])) (fun v hv => hop.2 v (by simp [hv]))
      exact ⟨this.1.mono (·.1), this.2.2⟩
    · exact ⟨h.mono (·.1), rfl⟩
  | ecfull s es =>
    simp only [stepCore]
    split
    · next hc => have := ok_updateEcShards h s es hc hop; exact ⟨this.1.mono (fun x => (x.2 trivial).elim), this.2.2⟩
    · exact ⟨h.mono (fun x => (x.2 trivial).elim), rfl⟩
  | ecinc s ns ds =>
    simp only [stepCore]
    split
    · next hc => have := ok_deltaUpdateEcShards h s ns ds hc hop.1 hop.2; exact ⟨this.1.mono (·.1), this.2.2⟩
    · exact ⟨h.mono (·.1), rfl⟩
  | disc s =>
    simp only [stepCore]
    split
    · next hc => have := ok_disconnect h s hc hop; exact ⟨this.1.mono (·.1), this.2⟩
    · exact ⟨h.mono (·.1), rfl⟩
  | refresh => exact ⟨h.mono (·.1), rfl⟩

/-- every operation of the sequence is well-formed in the state it is applied to -/
def OpsOk (st : St) (N : Nat) : List Op → Prop
  | [] => True
  | op :: ops => OpOk st.toCore N op ∧ OpsOk (step st op) N ops

theorem ok_init (limit : Nat) (asMin : Bool) (nVid N : Nat) : Ok (init limit asMin nVid).toCore N True := by
  refine ⟨⟨?_, ⟨?_, ?_, ?_⟩⟩, ⟨?_, ?_⟩, ?_⟩
  · intro s t hc; simp [init] at hc
  · intro d r t _
    show ({} : Counts) = _
    induction N with
    | zero => rfl
    | succ n ih => simp only [sumC]; rw [← ih]; simp [live, init]
  · intro d t _
    show ({} : Counts) = _
    induction N with
    | zero => rfl
    | succ n ih => simp only [sumC]; rw [← ih]; simp [live, init]
  · intro t _
    show ({} : Counts) = _
    induction N with
    | zero => rfl
    | succ n ih => simp only [sumC]; rw [← ih]; simp [live, init]
  · intro s t hc; simp [init] at hc
  · intro s t hc; simp [init] at hc
  · intro _ s t hc; simp [init] at hc

theorem ok_run {st : St} {N : Nat} {w : Prop} (h : Ok st.toCore N w) (ops : List Op) (hops : OpsOk st N ops) :
    Ok (run st ops).toCore N (w ∧ ∀ op ∈ ops, ¬ isEcFull op) := by
  induction ops generalizing st w with
  | nil => exact h.mono (·.1)
  | cons op ops ih =>
    simp only [run, List.foldl_cons]
    have h1 := (ok_step h op hops.1).1
    rw [← step_core] at h1
    have h2 := ih h1 hops.2
    exact h2.mono (fun ⟨hw, hall⟩ => ⟨⟨hw, hall op (by simp)⟩, fun o ho => hall o (by simp [ho])⟩)

/-- C12, invariant step: `counters_eq_recount` is preserved by every operation other than a full EC
    heartbeat, for every operation with indices in range (`OpOk`) -/
theorem counters_step_partial (st : St) (N : Nat) (op : Op) (h : CountersOk st.toCore N)
    (hop : OpOk st.toCore N op) (hne : ¬ isEcFull op) : CountersOk (step st op).toCore N := by
  have := (ok_step (w := True) ⟨h.hier, h.vols, fun _ => h.ec⟩ op hop).1
  rw [← step_core] at this
  exact ⟨this.hier, this.vols, this.ec ⟨trivial, hne⟩⟩

/-- C12 for sequences without full EC heartbeats (no condition on the EC messages at all); superseded by
    `counters_eq_recount_partial` below, which covers every operation kind -/
theorem counters_run_noEcFull_partial (limit : Nat) (asMin : Bool) (nVid N : Nat) (ops : List Op)
    (hops : OpsOk (init limit asMin nVid) N ops) (hne : ∀ op ∈ ops, ¬ isEcFull op) :
    CountersOk (run (init limit asMin nVid) ops).toCore N := by
  have := ok_run (ok_init limit asMin nVid N) ops hops
  exact ⟨this.hier, this.vols, this.ec ⟨trivial, hne⟩⟩

/-- C12 for ALL operation sequences (full EC heartbeats included): the propagation through the five
    levels and the volume / remote-volume counters are exact -/
theorem hier_vols_run (limit : Nat) (asMin : Bool) (nVid N : Nat) (ops : List Op)
    (hops : OpsOk (init limit asMin nVid) N ops) :
    HierOk (run (init limit asMin nVid) ops).toCore N ∧ DiskVolOk (run (init limit asMin nVid) ops).toCore := by
  have := ok_run (ok_init limit asMin nVid N) ops hops
  exact ⟨this.hier, this.vols⟩

/-! ## full EC heartbeats: the EC shard counter through `UpdateEcShards` -/

/-- DataNode.UpdateEcShards (full EC heartbeat) keeps the WHOLE accounting exact, EC shard counters included -/
theorem ok_updateEcShards_ec {c : Core} {N : Nat} (h : Ok c N True) (s : Nat) (actual : List EcInfo)
    (hc : c.conn s = true) (hs : s < N) (w : EcFullOk c s actual) (hd : EcDisksOk c) :
    Ok (c.updateEcShards s actual).1 N True ∧ Same (c.updateEcShards s actual).1 c := by
  have h1 := ok_updateEcShards h s actual hc hs
  exact ⟨⟨h1.1.hier, h1.1.vols, fun _ => diskEc_updateEcShards c s actual (h.ec trivial) hc w hd⟩, h1.2⟩

/-! ### shards are registered on the two modelled disk types only (`EcDisksOk` is an invariant) -/

@[simp] theorem nodeUp_ecs (c : Core) (s t d) : (c.nodeUp s t d).ecs = c.ecs := rfl

theorem addOrUpdate_ecs (c : Core) (s : Nat) (v : VInfo) : (c.addOrUpdate s v).1.ecs = c.ecs := by
  cases h : c.vols s v.key.disk v.id with
  | none => simp only [Core.addOrUpdate, h]; rfl
  | some old => simp only [Core.addOrUpdate, h]; split <;> rfl

theorem sweepGone_ecs (c : Core) (s : Nat) (actual : List VInfo) (t n : Nat) : (c.sweepGone s actual t n).1.ecs = c.ecs := by
  induction n with
  | zero => rfl
  | succ n ih =>
    simp only [Core.sweepGone]
    split
    · split
      · exact ih
      · exact ih
    · exact ih

theorem addAll_ecs (c : Core) (s : Nat) (vs : List VInfo) : (c.addAll s vs).1.ecs = c.ecs := by
  induction vs generalizing c with
  | nil => rfl
  | cons v vs ih => simp only [Core.addAll]; rw [ih, addOrUpdate_ecs]

theorem updateVolumes_ecs (c : Core) (s : Nat) (vs : List VInfo) : (c.updateVolumes s vs).1.ecs = c.ecs := by
  unfold Core.updateVolumes
  simp only []
  rw [addAll_ecs, sweepGone_ecs, sweepGone_ecs]

theorem deltaUpdateVolumes_ecs (c : Core) (s : Nat) (news dels : List VInfo) : (c.deltaUpdateVolumes s news dels).ecs = c.ecs := by
  unfold Core.deltaUpdateVolumes
  have h1 : ∀ (l : List VInfo) (c : Core), (l.foldl (fun c v => c.delReg s v) c).ecs = c.ecs := by
    intro l; induction l with
    | nil => intro c; rfl
    | cons a l ih => intro c; simp only [List.foldl_cons]; rw [ih]; unfold Core.delReg; split <;> rfl
  have h2 : ∀ (l : List VInfo) (c : Core), (l.foldl (fun c v => (c.addOrUpdate s v).1) c).ecs = c.ecs := by
    intro l; induction l with
    | nil => intro c; rfl
    | cons a l ih => intro c; simp only [List.foldl_cons]; rw [ih, addOrUpdate_ecs]
  rw [h2, h1]

theorem adjustMax_ecs (c : Core) (s mh ms : Nat) : (c.adjustMax s mh ms).ecs = c.ecs := by
  have h1 : ∀ (c : Core) t m, (c.adjustMax1 s t m).ecs = c.ecs := by
    intro c t m; unfold Core.adjustMax1; split
    · rfl
    · split <;> rfl
  unfold Core.adjustMax
  split
  · rw [h1, h1]
  · rfl

theorem ecDisks_connect {c : Core} (hd : EcDisksOk c) (s dc rack mh ms : Nat) : EcDisksOk (c.connect s dc rack mh ms) := by
  unfold Core.connect
  split
  · exact hd
  · dsimp only
    have key : ∀ s' t vid, 2 ≤ t → (if s' = s then (fun _ _ => 0 : Nat → Nat → Nat) else c.ecs s') t vid = 0 := by
      intro s' t vid ht
      split
      · rfl
      · exact hd s' t vid ht
    split
    · intro s' t vid ht; exact key s' t vid ht
    · intro s' t vid ht; exact key s' t vid ht

theorem ecDisks_deltaUpdateEcShards {c : Core} (hd : EcDisksOk c) (s : Nat) (news dels : List EcInfo)
    (hr : ∀ e ∈ news ++ dels, e.disk < 2) : EcDisksOk (c.deltaUpdateEcShards s news dels) := by
  unfold Core.deltaUpdateEcShards
  have setP : ∀ (c : Core) (e : EcInfo) (x : Nat), EcDisksOk c → e.disk < 2 → ∀ s' t vid, 2 ≤ t → upd3 c.ecs s e.disk e.id x s' t vid = 0 := by
    intro c e x hd he s' t vid ht
    have : ¬ (s' = s ∧ t = e.disk ∧ vid = e.id) := fun ⟨_, b, _⟩ => by omega
    simp only [upd3, this, if_false]
    exact hd s' t vid ht
  have h1 : ∀ (l : List EcInfo), (∀ e ∈ l, e.disk < 2) → ∀ c : Core, EcDisksOk c → EcDisksOk (l.foldl (fun c e => c.addEc s e) c) := by
    intro l; induction l with
    | nil => intro _ c hc; exact hc
    | cons a l ih =>
      intro hl c hc
      simp only [List.foldl_cons]
      refine ih (fun e he => hl e (by simp [he])) _ ?_
      intro s' t vid ht
      exact setP c a _ hc (hl a (by simp)) s' t vid ht
  have h2 : ∀ (l : List EcInfo), (∀ e ∈ l, e.disk < 2) → ∀ c : Core, EcDisksOk c → EcDisksOk (l.foldl (fun c e => c.delEc s e) c) := by
    intro l; induction l with
    | nil => intro _ c hc; exact hc
    | cons a l ih =>
      intro hl c hc
      simp only [List.foldl_cons]
      refine ih (fun e he => hl e (by simp [he])) _ ?_
      simp only [Core.delEc]
      split
      · exact hc
      · intro s' t vid ht
        exact setP c a _ hc (hl a (by simp)) s' t vid ht
  exact h2 dels (fun e he => hr e (by simp [he])) _ (h1 news (fun e he => hr e (by simp [he])) c hd)

/-- the conditions on EC messages: modelled disk types, and `EcFullOk` for a full EC heartbeat
    (each volume listed once, under the disk type its shards are registered on) -/
def EcOpOk (c : Core) : Op → Prop
  | .ecfull s es => c.conn s = true → EcFullOk c s es
  | .ecinc _ ns ds => ∀ e ∈ ns ++ ds, e.disk < 2
  | _ => True

/-- well-formed operation: `OpOk` (ranges) + `EcOpOk` -/
def OpOkE (c : Core) (N : Nat) (op : Op) : Prop := OpOk c N op ∧ EcOpOk c op

theorem ecDisks_step {c : Core} (hd : EcDisksOk c) (op : Op) (he : EcOpOk c op) : EcDisksOk (stepCore c op) := by
  cases op with
  | conn s dc rack mh ms => exact ecDisks_connect hd s dc rack mh ms
  | max s mh ms => intro s' t vid ht; simp only [stepCore]; rw [adjustMax_ecs]; exact hd s' t vid ht
  | full s vs =>
    simp only [stepCore]; split
    · intro s' t vid ht; rw [updateVolumes_ecs]; exact hd s' t vid ht
    · exact hd
  | inc s ns ds =>
    simp only [stepCore]; split
    · intro s' t vid ht; rw [deltaUpdateVolumes_ecs]; exact hd s' t vid ht
    · exact hd
  | ecfull s es =>
    simp only [stepCore]; split
    · next hc => exact ecDisks_updateEcShards c s es hd (fun e h => ((he hc).range e h).2)
    · exact hd
  | ecinc s ns ds =>
    simp only [stepCore]; split
    · exact ecDisks_deltaUpdateEcShards hd s ns ds he
    · exact hd
  | disc s =>
    simp only [stepCore]; split
    · exact hd
    · exact hd
  | refresh => exact hd

/-- one operation — of ANY kind — preserves the complete invariant -/
theorem okE_step {c : Core} {N : Nat} (h : Ok c N True) (hd : EcDisksOk c) (op : Op) (hop : OpOkE c N op) :
    Ok (stepCore c op) N True ∧ EcDisksOk (stepCore c op) := by
  refine ⟨?_, ecDisks_step hd op hop.2⟩
  cases op with
  | ecfull s es =>
    simp only [stepCore]
    split
    · next hc => exact (ok_updateEcShards_ec h s es hc hop.1 (hop.2 hc) hd).1
    · exact h
  | conn s dc rack mh ms => exact (ok_step h _ hop.1).1.mono (fun _ => ⟨trivial, fun f => f⟩)
  | max s mh ms => exact (ok_step h _ hop.1).1.mono (fun _ => ⟨trivial, fun f => f⟩)
  | full s vs => exact (ok_step h _ hop.1).1.mono (fun _ => ⟨trivial, fun f => f⟩)
  | inc s ns ds => exact (ok_step h _ hop.1).1.mono (fun _ => ⟨trivial, fun f => f⟩)
  | ecinc s ns ds => exact (ok_step h _ hop.1).1.mono (fun _ => ⟨trivial, fun f => f⟩)
  | disc s => exact (ok_step h _ hop.1).1.mono (fun _ => ⟨trivial, fun f => f⟩)
  | refresh => exact (ok_step h _ hop.1).1.mono (fun _ => ⟨trivial, fun f => f⟩)

/-- every operation of the sequence is well-formed (`OpOkE`) in the state it is applied to -/
def OpsOkE (st : St) (N : Nat) : List Op → Prop
  | [] => True
  | op :: ops => OpOkE st.toCore N op ∧ OpsOkE (step st op) N ops

theorem okE_run {st : St} {N : Nat} (h : Ok st.toCore N True) (hd : EcDisksOk st.toCore) (ops : List Op)
    (hops : OpsOkE st N ops) : Ok (run st ops).toCore N True ∧ EcDisksOk (run st ops).toCore := by
  induction ops generalizing st with
  | nil => exact ⟨h, hd⟩
  | cons op ops ih =>
    simp only [run, List.foldl_cons]
    have h1 := okE_step h hd op hops.1
    rw [← step_core] at h1
    exact ih h1.1 h1.2 hops.2

/-- C12, invariant step for EVERY operation kind (full EC heartbeats included) -/
theorem counters_step_all_partial (st : St) (N : Nat) (op : Op) (h : CountersOk st.toCore N)
    (hd : EcDisksOk st.toCore) (hop : OpOkE st.toCore N op) : CountersOk (step st op).toCore N := by
  have := (okE_step (N := N) ⟨h.hier, h.vols, fun _ => h.ec⟩ hd op hop).1
  rw [← step_core] at this
  exact ⟨this.hier, this.vols, this.ec trivial⟩

/-- C12, main theorem: after ANY well-formed operation sequence from the empty topology — connects,
    max-count changes, full and incremental volume heartbeats, full and incremental EC heartbeats,
    disconnects, refresh rounds — every disk's volume / remote / EC counters equal the recount of what is
    registered on it, every node equals its disk, and every rack, data center and the topology equal the
    sums over their connected servers.  `OpsOkE` is well-formedness of the messages only (ids and disk types
    in the modelled range; a full EC heartbeat lists an EC volume once, under the disk type its shards are
    registered on); no condition on what an incremental heartbeat deletes (duplicate, stale, remote). -/
theorem counters_eq_recount_partial (limit : Nat) (asMin : Bool) (nVid N : Nat) (ops : List Op)
    (hops : OpsOkE (init limit asMin nVid) N ops) : CountersOk (run (init limit asMin nVid) ops).toCore N := by
  have := (okE_run (ok_init limit asMin nVid N) (fun _ _ _ _ => rfl) ops hops).1
  exact ⟨this.hier, this.vols, this.ec trivial⟩

/-- `OpOkE` in a form `decide` can evaluate (bounded quantifiers only) -/
def OpOkB (c : Core) (N : Nat) : Op → Prop
  | .conn s _ _ _ _ => s < N
  | .max s _ _ => s < N
  | .full s vs => s < N ∧ ∀ v ∈ vs, v.id < c.nVid + 1
  | .inc s ns ds => s < N ∧ ∀ v ∈ ns ++ ds, v.id < c.nVid + 1
  | .ecfull s es => s < N ∧ (c.conn s = true →
      (es.map (·.id)).Nodup ∧ (∀ e ∈ es, e.id < c.nVid + 1 ∧ e.disk < 2) ∧ ∀ e ∈ es, ∀ t, t < 2 → c.ecs s t e.id ≠ 0 → t = e.disk)
  | .ecinc s ns ds => s < N ∧ (∀ e ∈ ns ++ ds, e.id < c.nVid + 1) ∧ ∀ e ∈ ns ++ ds, e.disk < 2
  | .disc s => s < N
  | .refresh => True

instance (c : Core) (N : Nat) (op : Op) : Decidable (OpOkB c N op) := by
  cases op <;> unfold OpOkB <;> infer_instance

theorem opOkE_of_B (c : Core) (N : Nat) (op : Op) : OpOkB c N op → OpOkE c N op := by
  cases op with
  | conn s dc rack mh ms => intro h; exact ⟨h, trivial⟩
  | max s mh ms => intro h; exact ⟨h, trivial⟩
  | full s vs => intro h; exact ⟨h, trivial⟩
  | inc s ns ds => intro h; exact ⟨h, trivial⟩
  | ecfull s es => intro h; exact ⟨h.1, fun hc => ⟨(h.2 hc).1, (h.2 hc).2.1, (h.2 hc).2.2⟩⟩
  | ecinc s ns ds => intro h; exact ⟨⟨h.1, h.2.1⟩, h.2.2⟩
  | disc s => intro h; exact ⟨h, trivial⟩
  | refresh => intro _; exact ⟨trivial, trivial⟩

/-- the hypotheses of the main theorem are satisfiable by a history with every kind of operation,
    including full EC heartbeats that add, change and drop several EC volumes at once -/
example : OpsOkE (init 1000 false 12) 4
    [.conn 0 0 0 5 4, .conn 1 0 1 5 0, .max 0 7 9, .full 0 [⟨3, 10, false, true, ⟨0, 1, 0, 0⟩⟩],
     .inc 1 [⟨3, 0, false, false, ⟨0, 1, 0, 0⟩⟩] [], .ecinc 1 [⟨5, 0, 0, 7⟩] [⟨5, 0, 0, 2⟩],
     .ecfull 1 [⟨5, 0, 0, 12⟩, ⟨6, 0, 1, 3⟩], .ecfull 1 [⟨6, 0, 1, 5⟩, ⟨7, 0, 0, 1⟩],
     .inc 1 [] [⟨3, 0, false, false, ⟨0, 1, 0, 0⟩⟩], .refresh, .disc 0] := by
  have wf : ∀ (c : Core) (N : Nat) (op : Op), decide (OpOkB c N op) = true → OpOkE c N op := fun c N op h => opOkE_of_B c N op (of_decide_eq_true h)
  refine ⟨wf _ _ _ (by decide), wf _ _ _ (by decide), wf _ _ _ (by decide), wf _ _ _ (by decide), wf _ _ _ (by decide),
    wf _ _ _ (by decide), wf _ _ _ (by decide), wf _ _ _ (by decide), wf _ _ _ (by decide), wf _ _ _ (by decide),
    wf _ _ _ (by decide), trivial⟩

/-- the well-formedness condition "a full EC heartbeat lists a volume once" is needed: UpdateEcShards
    adds the shard count of every message entry whose volume was not registered at entry, so a
    duplicated entry is counted twice (volume servers build the message from a map and never do this) -/
theorem ecfull_duplicate_entry_counts_twice :
    let st := run (init 1000 false 12) [.conn 0 0 0 5 0, .ecfull 0 [⟨3, 0, 0, 7⟩, ⟨3, 0, 0, 7⟩]]
    (st.cDisk 0 0).ec = 6 ∧ recountEc st.toCore 0 0 = 3 := by decide

/-! ## the two repaired findings: the histories that used to break the recount are now exact

Before bf7edee2 / fb6f0331 the model (like the code) gave `(st.cDisk 0 0).vol = -1` resp.
`(st.cDisk 0 0).rem = 1` on these histories (corpus/C12/delete_unregistered.ops,
corpus/C12/delete_remote_incremental.ops); the judge classes inc/volume-count and
inc/remote-volume-count stay in the judge, so a regression of the code is reported. -/

/-- a deletion message for a volume that is not registered (never registered, or already deleted: the
    second message of a duplicate) is within the hypotheses of the main theorem -/
example : OpsOkE (init 1000 false 12) 4
    [.conn 0 0 0 5 0, .inc 0 [] [⟨3, 0, false, false, ⟨0, 0, 0, 0⟩⟩],
     .inc 0 [⟨3, 0, false, false, ⟨0, 0, 0, 0⟩⟩] [], .inc 0 [] [⟨3, 0, false, false, ⟨0, 0, 0, 0⟩⟩, ⟨3, 0, false, false, ⟨0, 0, 0, 0⟩⟩]] := by
  have wf : ∀ (c : Core) (N : Nat) (op : Op), decide (OpOkB c N op) = true → OpOkE c N op := fun c N op h => opOkE_of_B c N op (of_decide_eq_true h)
  exact ⟨wf _ _ _ (by decide), wf _ _ _ (by decide), wf _ _ _ (by decide), wf _ _ _ (by decide), trivial⟩

/-- former finding inc/volume-count: a delete for a volume that is not registered leaves the counters alone -/
theorem delete_unregistered_recount_exact :
    let st := run (init 1000 false 12) [.conn 0 0 0 5 0, .inc 0 [] [⟨3, 0, false, false, ⟨0, 0, 0, 0⟩⟩]]
    (st.cDisk 0 0).vol = 0 ∧ recountVol st.toCore 0 0 = 0 ∧ (st.cTopo 0).vol = 0 := by decide

/-- former finding inc/remote-volume-count: a remote volume deleted by an incremental (short) message,
    whose `remote` field is always false, takes the remote counter back to 0 -/
theorem delete_remote_incremental_recount_exact :
    let st := run (init 1000 false 12)
      [.conn 0 0 0 5 0, .full 0 [⟨3, 10, false, true, ⟨0, 0, 0, 0⟩⟩], .inc 0 [] [⟨3, 0, false, false, ⟨0, 0, 0, 0⟩⟩]]
    (st.cDisk 0 0).rem = 0 ∧ recountRem st.toCore 0 0 = 0 ∧ (st.cDisk 0 0).vol = 0 ∧ (st.cTopo 0).rem = 0 := by decide

/-- the old behaviour, kept as a parametric definition: every deletion message decrements, with the
    remote flag of the message.  On the two histories it breaks the recount — this is what the judge
    classes inc/volume-count and inc/remote-volume-count detect in the implementation. -/
def deltaUpdateVolumesOld (c : Core) (s : Nat) (news dels : List VInfo) : Core :=
  let c := dels.foldl (fun c v => c.delVol s v.key.disk v.id v.remote) c
  news.foldl (fun c v => (c.addOrUpdate s v).1) c

theorem old_delete_unregistered_breaks_recount :
    let c := ((init 1000 false 12).toCore.connect 0 0 0 5 0)
    let c' := deltaUpdateVolumesOld c 0 [] [⟨3, 0, false, false, ⟨0, 0, 0, 0⟩⟩]
    (c'.cDisk 0 0).vol = -1 ∧ recountVol c' 0 0 = 0 := by decide

theorem old_delete_remote_incremental_breaks_recount :
    let c := (((init 1000 false 12).toCore.connect 0 0 0 5 0).updateVolumes 0 [⟨3, 10, false, true, ⟨0, 0, 0, 0⟩⟩]).1
    let c' := deltaUpdateVolumesOld c 0 [] [⟨3, 0, false, false, ⟨0, 0, 0, 0⟩⟩]
    (c'.cDisk 0 0).rem = 1 ∧ recountRem c' 0 0 = 0 := by decide

/-- the repaired and the old DeltaUpdateVolumes agree exactly on the inputs the old hypothesis `DelsOk`
    admitted: every deletion names a volume registered at that moment with the message's remote flag -/
theorem delReg_eq_old_of_registered (c : Core) (s : Nat) (v old : VInfo)
    (hreg : c.vols s v.key.disk v.id = some old) (hrem : old.remote = v.remote) :
    c.delReg s v = c.delVol s v.key.disk v.id v.remote := by
  simp [Core.delReg, hreg, hrem]

/-- the hypotheses of the main theorem are satisfiable by a history with every kind of operation -/
example : OpsOk (init 1000 false 12) 4
    [.conn 0 0 0 5 4, .conn 1 0 1 5 0, .max 0 7 9, .full 0 [⟨3, 10, false, true, ⟨0, 1, 0, 0⟩⟩],
     .inc 1 [⟨3, 0, false, false, ⟨0, 1, 0, 0⟩⟩] [], .ecinc 1 [⟨5, 0, 0, 7⟩] [⟨5, 0, 0, 2⟩], .refresh, .disc 0] := by
  simp only [OpsOk, OpOk, List.mem_cons, List.mem_append, List.not_mem_nil, or_false, forall_eq, forall_eq_or_imp, and_true]
  decide

/-! ## T1 bridges: facts regenerated from the source by `extract` (props/C12/extract.json → `SwV.Gen.C12`)

Each theorem states the text of the decisive Go statements as they stand in the working tree together with the
model expression that mirrors them; an edit to the Go code changes the generated string and breaks the theorem
of that name. -/

/-- `DiskUsageCounts.addDiskUsageCounts` and `DiskUsages.negative` are field-wise (`Counts.add`, `Counts.neg`;
    `activeVolumeCount` is not modelled). -/
theorem bridge_counts_add_neg :
    SwV.Gen.C12.add_vol = "a.volumeCount += b.volumeCount" ∧
    SwV.Gen.C12.add_rem = "a.remoteVolumeCount += b.remoteVolumeCount" ∧
    SwV.Gen.C12.add_ec = "a.ecShardCount += b.ecShardCount" ∧
    SwV.Gen.C12.add_max = "a.maxVolumeCount += b.maxVolumeCount" ∧
    SwV.Gen.C12.neg_vol = "a.volumeCount = -b.volumeCount" ∧
    SwV.Gen.C12.neg_rem = "a.remoteVolumeCount = -b.remoteVolumeCount" ∧
    SwV.Gen.C12.neg_ec = "a.ecShardCount = -b.ecShardCount" ∧
    SwV.Gen.C12.neg_max = "a.maxVolumeCount = -b.maxVolumeCount" ∧
    (∀ a b : Counts, a.add b = { vol := a.vol + b.vol, rem := a.rem + b.rem, ec := a.ec + b.ec, max := a.max + b.max }) ∧
    (∀ b : Counts, b.neg = { vol := -b.vol, rem := -b.rem, ec := -b.ec, max := -b.max }) :=
  ⟨by decide, by decide, by decide, by decide, by decide, by decide, by decide, by decide, fun _ _ => rfl, fun _ => rfl⟩

/-- `NodeImpl.UpAdjustDiskUsageDelta`: every level adds the SAME delta and hands it to its parent (`upAdj`,
    `nodeUp`); link / unlink apply the child's usages resp. their negative. -/
theorem bridge_up_adjust :
    SwV.Gen.C12.up_adds = "diskUsage" ∧ SwV.Gen.C12.up_has_parent = "n.parent != nil" ∧
    SwV.Gen.C12.up_passes_same_delta = "deltaDiskUsages" ∧
    SwV.Gen.C12.link_cond = "n.children[node.Id()] == nil" ∧ SwV.Gen.C12.link_delta = "node.GetDiskUsages()" ∧
    SwV.Gen.C12.unlink_cond = "node != nil" ∧ SwV.Gen.C12.unlink_delta = "node.GetDiskUsages().negative()" ∧
    (∀ (c : Core) (s t : Nat) (d : Counts),
      (c.upAdj s t d).cDisk s t = (c.cDisk s t).add d ∧ (c.upAdj s t d).cNode s t = (c.cNode s t).add d ∧
      (c.upAdj s t d).cRack (c.dcOf s) (c.rackOf s) t = (c.cRack (c.dcOf s) (c.rackOf s) t).add d ∧
      (c.upAdj s t d).cDc (c.dcOf s) t = (c.cDc (c.dcOf s) t).add d ∧
      (c.upAdj s t d).cTopo t = (c.cTopo t).add d) := by
  refine ⟨by decide, by decide, by decide, by decide, by decide, by decide, by decide, fun c s t d => ?_⟩
  simp [Core.upAdj, Core.nodeUp, upd1, upd2, upd3]

/-- `Disk.doAddOrUpdateVolume` -/
theorem bridge_add_or_update :
    SwV.Gen.C12.addvol_new = "!ok" ∧ SwV.Gen.C12.addvol_vol = "deltaDiskUsage.volumeCount = 1" ∧
    SwV.Gen.C12.addvol_new_remote = "v.IsRemote()" ∧
    SwV.Gen.C12.addvol_new_remote_delta = "deltaDiskUsage.remoteVolumeCount = 1" ∧
    SwV.Gen.C12.addvol_remote_changed = "oldV.IsRemote() != v.IsRemote()" ∧
    SwV.Gen.C12.addvol_now_remote_delta = "deltaDiskUsage.remoteVolumeCount = 1" ∧
    SwV.Gen.C12.addvol_was_remote = "oldV.IsRemote()" ∧
    SwV.Gen.C12.addvol_was_remote_delta = "deltaDiskUsage.remoteVolumeCount = -1" ∧
    SwV.Gen.C12.addvol_changed_ro = "isChangedRO = d.volumes[v.Id].ReadOnly != v.ReadOnly" ∧
    -- a new volume: +1 volume, +1 remote if remote
    (∀ (c : Core) (s : Nat) (v : VInfo), c.vols s v.key.disk v.id = none →
      c.addOrUpdate s v =
        (Core.upAdj { c with vols := upd3 c.vols s v.key.disk v.id (some v) } s v.key.disk
           { vol := 1, rem := if v.remote then 1 else 0 }, true, false)) ∧
    -- a known volume: the remote counter moves only when the flag changed, by +1 (now remote) or -1 (was remote)
    (∀ (c : Core) (s : Nat) (v old : VInfo), c.vols s v.key.disk v.id = some old →
      (c.addOrUpdate s v).2 = (false, old.ro != v.ro) ∧
      (c.addOrUpdate s v).1.cDisk s v.key.disk =
        (if old.remote != v.remote then (c.cDisk s v.key.disk).add { rem := if old.remote then -1 else 1 }
         else c.cDisk s v.key.disk)) := by
  refine ⟨by decide, by decide, by decide, by decide, by decide, by decide, by decide, by decide, by decide, ?_, ?_⟩
  · intro c s v h
    simp [Core.addOrUpdate, h, Core.b2i]
  · intro c s v old h
    simp only [Core.addOrUpdate, h]
    cases ho : old.remote <;> cases hv : v.remote <;>
      simp [Core.upAdj, Core.nodeUp, upd2, Core.b2i]

/-- the deletions of `DataNode.UpdateVolumes` / `DeltaUpdateVolumes` (`delVol`): -1 volume, -1 remote if remote;
    `DeltaUpdateVolumes` looks the volume of the (short) deletion message up among the registered volumes of the
    disk, skips the message when it is not found and asks the REGISTERED volume whether it is remote (`delReg`;
    the repairs bf7edee2 and fb6f0331 — reverting either changes a text below) -/
theorem bridge_delete_volume :
    SwV.Gen.C12.upd_gone = "!ok" ∧ SwV.Gen.C12.upd_gone_vol = "deltaDiskUsage.volumeCount = -1" ∧
    SwV.Gen.C12.upd_gone_remote = "v.IsRemote()" ∧
    SwV.Gen.C12.upd_gone_remote_delta = "deltaDiskUsage.remoteVolumeCount = -1" ∧
    SwV.Gen.C12.delta_del_lookup = "registered, found := disk.volumes[v.Id]" ∧
    SwV.Gen.C12.delta_del_skip = "!found" ∧
    SwV.Gen.C12.delta_del_vol = "deltaDiskUsage.volumeCount = -1" ∧
    SwV.Gen.C12.delta_del_remote = "registered.IsRemote()" ∧
    SwV.Gen.C12.delta_del_remote_delta = "deltaDiskUsage.remoteVolumeCount = -1" ∧
    (∀ (c : Core) (s t vid : Nat) (remote : Bool), c.delVol s t vid remote =
      Core.upAdj { c with vols := upd3 c.vols s t vid none } s t { vol := -1, rem := if remote then -1 else 0 }) ∧
    -- not found: nothing changes
    (∀ (c : Core) (s : Nat) (v : VInfo), c.vols s v.key.disk v.id = none → c.delReg s v = c) ∧
    -- found: the registered volume decides about the remote counter, the message's flag is not looked at
    (∀ (c : Core) (s : Nat) (v registered : VInfo), c.vols s v.key.disk v.id = some registered →
      c.delReg s v = Core.upAdj { c with vols := upd3 c.vols s v.key.disk v.id none } s v.key.disk
        { vol := -1, rem := if registered.remote then -1 else 0 }) := by
  refine ⟨by decide, by decide, by decide, by decide, by decide, by decide, by decide, by decide, by decide,
    fun c s t vid remote => ?_, fun c s v h => ?_, fun c s v registered h => ?_⟩
  · cases remote <;> simp [Core.delVol, Core.b2i]
  · simp [Core.delReg, h]
  · cases hr : registered.remote <;> simp [Core.delReg, h, Core.delVol, Core.b2i, hr]

/-- `DataNode.AdjustMaxVolumeCounts` (`adjustMax1`) -/
theorem bridge_adjust_max :
    SwV.Gen.C12.max_zero_skip = "maxVolumeCount == 0" ∧
    SwV.Gen.C12.max_same_skip = "currentDiskUsage.maxVolumeCount == int64(maxVolumeCount)" ∧
    SwV.Gen.C12.max_delta = "deltaDiskUsage.maxVolumeCount = int64(maxVolumeCount) - currentDiskUsage.maxVolumeCount" ∧
    (∀ (c : Core) (s t m : Nat), c.adjustMax1 s t m =
      (if m = 0 then c else if (c.cNode s t).max = (m : Int) then c
       else c.upAdj s t { max := (m : Int) - (c.cNode s t).max })) :=
  ⟨by decide, by decide, by decide, fun _ _ _ _ => rfl⟩

/-- `DataNode.UpdateEcShards`, `Disk.AddOrUpdateEcShard`, `Disk.DeleteEcShard`: the shard-count deltas -/
theorem bridge_ec_counts :
    SwV.Gen.C12.ec_gone = "!ok" ∧ SwV.Gen.C12.ec_gone_count = "deletedShardCount += ecShards.ShardIdCount()" ∧
    SwV.Gen.C12.ec_more = "a.ShardIdCount() > 0" ∧ SwV.Gen.C12.ec_more_count = "newShardCount += a.ShardIdCount()" ∧
    SwV.Gen.C12.ec_less = "d.ShardIdCount() > 0" ∧ SwV.Gen.C12.ec_less_count = "deletedShardCount += d.ShardIdCount()" ∧
    SwV.Gen.C12.ec_delta_existing = "deltaDiskUsage.ecShardCount = int64(newShardCount - deletedShardCount)" ∧
    SwV.Gen.C12.ec_known_skip = "dn.hasEcShards(ecShards.VolumeId)" ∧
    SwV.Gen.C12.ec_delta_new = "deltaDiskUsage.ecShardCount = int64(ecShards.ShardIdCount())" ∧
    SwV.Gen.C12.ec_store_cond = "len(newShards) > 0 || len(deletedShards) > 0" ∧
    SwV.Gen.C12.ecadd_new = "!ok" ∧ SwV.Gen.C12.ecadd_new_delta = "delta = s.ShardBits.ShardIdCount()" ∧
    SwV.Gen.C12.ecadd_plus = "existing.ShardBits = existing.ShardBits.Plus(s.ShardBits)" ∧
    SwV.Gen.C12.ecadd_old_delta = "delta = existing.ShardBits.ShardIdCount() - oldCount" ∧
    SwV.Gen.C12.ecadd_apply = "deltaDiskUsage.ecShardCount = int64(delta)" ∧
    SwV.Gen.C12.ecdel_known = "ok" ∧
    SwV.Gen.C12.ecdel_minus = "existing.ShardBits = existing.ShardBits.Minus(s.ShardBits)" ∧
    SwV.Gen.C12.ecdel_delta = "delta := existing.ShardBits.ShardIdCount() - oldCount" ∧
    SwV.Gen.C12.ecdel_drop_empty = "existing.ShardBits.ShardIdCount() == 0" := by decide

/-- weakest supplement: hashes of the whole mirrored functions -/
theorem bridge_pins :
    SwV.Gen.C12.src_UpAdjustDiskUsageDelta = "004cbaf1c856040f" ∧
    SwV.Gen.C12.src_addDiskUsageCounts = "26dfb5415ac6d7e9" ∧
    SwV.Gen.C12.src_negative = "e9f92856e93cda2b" ∧
    SwV.Gen.C12.src_doAddOrUpdateVolume = "6b540a4e1cc26df2" ∧
    SwV.Gen.C12.src_UpdateVolumes = "27f7efacbefa0684" ∧
    SwV.Gen.C12.src_DeltaUpdateVolumes = "1545b25ee4d79be7" ∧
    SwV.Gen.C12.src_AdjustMaxVolumeCounts = "de287af7e03e24c1" ∧
    SwV.Gen.C12.src_UpdateEcShards = "446c66596f37f067" ∧
    SwV.Gen.C12.src_doUpdateEcShards = "dfb40d6ff9cb0fb9" ∧
    SwV.Gen.C12.src_Disk_AddOrUpdateEcShard = "2ce4921c707fe3d8" ∧
    SwV.Gen.C12.src_Disk_DeleteEcShard = "5e79fcda643184a1" ∧
    SwV.Gen.C12.src_doLinkChildNode = "68809e04f9f160ea" ∧
    SwV.Gen.C12.src_UnlinkChildNode = "2cd1e267fb9f2b9d" ∧
    SwV.Gen.C12.src_GetOrCreateDataNode = "d5b94e23343a7c49" := by decide

end SwV.Props.C12
