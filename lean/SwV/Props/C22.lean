/-
C22 — Metadata change subscribers see every change once, in order.

Model: SwV.Model.C22 (the log buffer and the subscribe loop as atomic steps).  Spec: SwV.Spec.C22
(`DeliveryPrefix`: what a subscriber has received is a prefix of the timestamp-ordered changes
later than its start).

FULL STATEMENT (false of the code, see `witness`):
    ∀ cfg ops, ∀ r ∈ (run ⟨init cfg, []⟩ ops).rds, DeliveryPrefix (run ⟨init cfg, []⟩ ops).lb.log r.got r.t0
PROVED: `delivery_prefix_partial` — the same for every schedule in which no memory read happens at a
position T for which a recycled, not yet flush-acknowledged entry later than T exists (`ReadSafe`,
checked at each memory read: `SafeRun`).  `delivery_prefix_flush_keeps_up` instantiates it for the
schedules in which a sealed buffer is never recycled before its flush was acknowledged.
An empty current buffer after an interval seal only DELAYS delivery (`read_after_seal_is_nil`);
the delay is allowed by `DeliveryPrefix` and loses nothing (the main theorem covers `sealNow`).
Data-race freedom is a runtime fact and not covered by any theorem here.
-/
import SwV.Lemmas.C22
import SwV.Gen.C22
namespace SwV.Props.C22
open SwV.Model.C22 SwV.Spec.C22 SwV.Lemmas.C22

/-- what the subscribe loop maintains: everything in the window (t0, T] has been delivered, nothing else -/
def RInv (lb : LB) (r : Rd) : Prop :=
  r.got = window r.t0 r.T lb.log ∧ (r.T = r.t0 ∨ (r.t0 ≤ r.T ∧ r.T ≤ (lb.lastTs : Int)))

theorem RInv_congr {lb : LB} {r r' : Rd} (h : RInv lb r) (h0 : r'.t0 = r.t0) (hT : r'.T = r.T) (hg : r'.got = r.got) :
    RInv lb r' := by
  unfold RInv at *; rw [h0, hT, hg]; exact h

theorem RInv_lb {lb lb' : LB} {r : Rd} (h : RInv lb r) (hl : lb'.log = lb.log) (ht : lb'.lastTs = lb.lastTs) : RInv lb' r := by
  unfold RInv at *; rw [hl, ht]; exact h

/-- delivering the run of entries that immediately follows T keeps the window exact -/
theorem RInv_deliver (lb : LB) (r r' : Rd) (l A C : List Nat) (hi : LInv lb) (hr : RInv lb r)
    (hlog : lb.log = A ++ l ++ C) (hA : ∀ t ∈ A, (t : Int) ≤ r.T) (hl : ∀ t ∈ l, r.T < (t : Int))
    (h0 : r'.t0 = r.t0) (hT : r'.T = lastOr l r.T) (hg : r'.got = r.got ++ l) : RInv lb r' := by
  unfold lastOr at hT
  cases hlast : l.getLast? with
  | none =>
    have : l = [] := List.getLast?_eq_none_iff.mp hlast
    subst this
    rw [hlast] at hT
    exact RInv_congr hr h0 hT (by simpa using hg)
  | some x =>
    rw [hlast] at hT
    simp only at hT
    obtain ⟨D, hD⟩ := List.getLast?_eq_some_iff.mp hlast
    subst hD
    have hs : Sorted (A ++ (D ++ [x]) ++ C) := by rw [← hlog]; exact hi.sorted
    have hw := window_mid A D C x r.T hs hA hl
    have hxT : r.T < (x : Int) := hl x (by simp)
    have hxl : x ∈ lb.log := by rw [hlog]; simp
    have hxb := hi.bound x hxl
    have ht0 : r.t0 ≤ r.T := by rcases hr.2 with h | h <;> omega
    unfold RInv
    rw [h0, hT, hg, hr.1]
    refine ⟨?_, Or.inr ⟨by omega, by omega⟩⟩
    rw [← window_split lb.log r.t0 r.T x ht0 (by omega) hi.sorted, hlog, hw]

theorem RInv_add (lb : LB) (r : Rd) (ets dlen : Nat) (_hi : LInv lb) (hr : RInv lb r) : RInv (add lb ets dlen) r := by
  have ha := add_log lb ets dlen
  have hgt := fixTs_gt lb ets
  unfold RInv at *
  rw [ha.1, ha.2, window_append]
  have : window r.t0 r.T [fixTs lb ets] = [] := window_eq_nil (fun t ht h => by
    simp at ht; subst ht
    rcases hr.2 with h' | h' <;> omega)
  rw [this, List.append_nil]
  refine ⟨hr.1, ?_⟩
  rcases hr.2 with h | h
  · exact Or.inl h
  · exact Or.inr ⟨h.1, by omega⟩

theorem fwrite_log (s : LB) : (fwrite s).log = s.log ∧ (fwrite s).lastTs = s.lastTs := by
  unfold fwrite; split <;> simp

theorem fack_log (s : LB) : (fack s).log = s.log ∧ (fack s).lastTs = s.lastTs := by
  unfold fack; split <;> simp

theorem readFrom_buf_not_resume (lb : LB) (T : Int) (l : List Nat) (h : readFrom lb T = .buf l) :
    ¬ (lb.lastFlush ≠ zeroT ∧ lb.lastFlush > T) := by
  intro c; unfold readFrom at h; rw [if_pos c] at h; cases h

theorem lastOr_ge (l : List Nat) (T : Int) (h : ∀ t ∈ l, T < (t : Int)) : T ≤ lastOr l T := by
  unfold lastOr
  cases hl : l.getLast? with
  | none => simp
  | some x =>
    obtain ⟨D, hD⟩ := List.getLast?_eq_some_iff.mp hl
    have := h x (by rw [hD]; simp)
    simp; omega

/-- `LoopProcessLogData` keeps the window exact as long as its first read is safe -/
theorem memLoop_RInv (lb : LB) (hi : LInv lb) : ∀ (f : Nat) (r : Rd), RInv lb r → ReadSafe lb r.T → RInv lb (memLoop lb f r) := by
  intro f
  induction f with
  | zero => intro r hr _; exact RInv_congr hr rfl rfl rfl
  | succ f ih =>
    intro r hr hsafe
    unfold memLoop
    cases hrf : readFrom lb r.T with
    | resume => exact RInv_congr hr rfl rfl rfl
    | nil => exact RInv_congr hr rfl rfl rfl
    | buf l =>
      simp only
      obtain ⟨A, C, hlog, hA, hl⟩ := readFrom_spec lb r.T l hi hsafe hrf
      have hr2 : RInv lb { r with T := lastOr l r.T, got := r.got ++ l } :=
        RInv_deliver lb r _ l A C hi hr hlog hA hl rfl rfl rfl
      refine ih _ hr2 ?_
      have hnr := readFrom_buf_not_resume lb r.T l hrf
      have hd : ∀ t ∈ lb.dropped, (t : Int) ≤ r.T := by
        rcases hsafe with h | h
        · exact absurd h hnr
        · exact h
      have hge := lastOr_ge l r.T hl
      exact Or.inr (fun t ht => by have := hd t ht; simp only; omega)

theorem sorted_prefix {a b : List Nat} (h : Sorted (a ++ b)) : Sorted a := (List.pairwise_append.mp h).1

/-- one step of a subscriber (disk phase or memory phase) -/
theorem rstep_RInv (lb : LB) (r : Rd) (hi : LInv lb) (hr : RInv lb r) (hsafe : r.onDisk = false → ReadSafe lb r.T) :
    RInv lb (rstep lb r) := by
  unfold rstep
  by_cases hd : r.onDisk = true
  · rw [if_pos hd]
    simp only
    by_cases hne : diskRead lb r.T ≠ []
    · rw [if_pos hne]
      have hsd : Sorted lb.disk := by
        have := hi.sorted; rw [hi.dseg, List.append_assoc] at this; exact sorted_prefix this
      obtain ⟨A, hA, hle⟩ := split_gt lb.disk r.T hsd
      have hlog : lb.log = A ++ diskRead lb r.T ++ (qflat lb.queue ++ lb.cur.ents) := by
        rw [hi.dseg]; unfold diskRead; rw [← hA]; simp [List.append_assoc]
      refine RInv_deliver lb r _ (diskRead lb r.T) A _ hi hr hlog hle ?_ rfl rfl rfl
      intro t ht
      unfold diskRead at ht
      simpa using (List.mem_filter.mp ht).2
    · rw [if_neg hne]
      split
      · exact hr
      · exact RInv_congr hr rfl rfl rfl
  · rw [if_neg hd]
    exact memLoop_RInv lb hi _ r hr (hsafe (by simpa using hd))

-- ---------------------------------------------------------------- schedules

/-- the only obligation on a schedule: each memory read is `ReadSafe` at the reader's position -/
def SafeStep (s : Sys) : Op → Prop
  | .rstep i => match s.rds[i]? with
    | some r => r.onDisk = true ∨ ReadSafe s.lb r.T
    | none => True
  | _ => True

def SafeRun (s : Sys) : List Op → Prop
  | [] => True
  | o :: os => SafeStep s o ∧ SafeRun (step s o) os

def SInv (s : Sys) : Prop := LInv s.lb ∧ ∀ r ∈ s.rds, RInv s.lb r

theorem modifyAt_mem (f : Rd → Rd) : ∀ (rs : List Rd) (i : Nat) (r' : Rd), r' ∈ modifyAt f rs i →
    r' ∈ rs ∨ ∃ r, rs[i]? = some r ∧ r' = f r := by
  intro rs
  induction rs with
  | nil => intro i r' h; simp [modifyAt] at h
  | cons x xs ih =>
    intro i r' h
    cases i with
    | zero =>
      simp only [modifyAt] at h
      rcases List.mem_cons.mp h with h | h
      · exact Or.inr ⟨x, by simp, h⟩
      · exact Or.inl (by simp [h])
    | succ k =>
      simp only [modifyAt] at h
      rcases List.mem_cons.mp h with h | h
      · exact Or.inl (by simp [h])
      · rcases ih k r' h with h | ⟨r, hr, he⟩
        · exact Or.inl (by simp [h])
        · exact Or.inr ⟨r, by simpa using hr, he⟩

theorem step_SInv (s : Sys) (o : Op) (hi : SInv s) (hs : SafeStep s o) : SInv (step s o) := by
  obtain ⟨hl, hr⟩ := hi
  cases o with
  | add ts dlen => exact ⟨LInv_add _ _ _ hl, fun r h => RInv_add _ _ _ _ hl (hr r h)⟩
  | sealNow =>
    have := copyToFlush_log s.lb
    exact ⟨LInv_copyToFlush _ hl, fun r h => RInv_lb (hr r h) this.1 this.2.1⟩
  | fwrite =>
    have := fwrite_log s.lb
    exact ⟨LInv_fwrite _ hl, fun r h => RInv_lb (hr r h) this.1 this.2⟩
  | fack =>
    have := fack_log s.lb
    exact ⟨LInv_fack _ hl, fun r h => RInv_lb (hr r h) this.1 this.2⟩
  | newReader T =>
    refine ⟨hl, fun r h => ?_⟩
    simp only [step] at h
    rcases List.mem_append.mp h with h | h
    · exact hr r h
    · simp at h; subst h
      refine ⟨?_, Or.inl rfl⟩
      show [] = window T T s.lb.log
      exact (window_eq_nil (fun t _ h => by omega)).symm
  | rstep i =>
    refine ⟨hl, fun r' h => ?_⟩
    simp only [step] at h
    rcases modifyAt_mem _ _ _ _ h with h | ⟨r, hri, he⟩
    · exact hr r' h
    · subst he
      have hmem : r ∈ s.rds := List.mem_of_getElem? hri
      refine rstep_RInv s.lb r hl (hr r hmem) ?_
      intro hd
      simp only [SafeStep, hri] at hs
      rcases hs with h | h
      · rw [hd] at h; cases h
      · exact h

theorem run_SInv : ∀ (ops : List Op) (s : Sys), SInv s → SafeRun s ops → SInv (run s ops) := by
  intro ops
  induction ops with
  | nil => intro s h _; exact h
  | cons o os ih => intro s h hs; exact ih _ (step_SInv s o h hs.1) hs.2

def start (cfg : Cfg) : Sys := { lb := init cfg }

theorem start_SInv (cfg : Cfg) (h : 0 < cfg.prevCount) : SInv (start cfg) :=
  ⟨LInv_init cfg h, by simp [start]⟩

/-- MAIN THEOREM.  For every configuration, every schedule of appends (any timestamps, any sizes),
    interval seals, flush writes, flush acknowledgements, new subscribers (any start) and subscriber
    steps in which every memory read is `ReadSafe`, every subscriber has received exactly a prefix of
    the timestamp-ordered changes later than its start: no skip, no duplicate, in order. -/
theorem delivery_prefix_partial (cfg : Cfg) (hc : 0 < cfg.prevCount) (ops : List Op) (hs : SafeRun (start cfg) ops) :
    ∀ r ∈ (run (start cfg) ops).rds, DeliveryPrefix (run (start cfg) ops).lb.log r.got r.t0 := by
  intro r hr
  obtain ⟨hl, hrs⟩ := run_SInv ops _ (start_SInv cfg hc) hs
  have := hrs r hr
  unfold DeliveryPrefix
  rw [this.1]
  exact window_prefix _ _ _ hl.sorted

/-- what is delivered is strictly increasing (hence duplicate-free) -/
theorem delivery_strictly_increasing (cfg : Cfg) (hc : 0 < cfg.prevCount) (ops : List Op) (hs : SafeRun (start cfg) ops) :
    ∀ r ∈ (run (start cfg) ops).rds, r.got.Pairwise (· < ·) := by
  intro r hr
  obtain ⟨hl, hrs⟩ := run_SInv ops _ (start_SInv cfg hc) hs
  rw [(hrs r hr).1]
  exact List.Pairwise.sublist List.filter_sublist hl.sorted

/-- the log itself: `AddToBuffer` makes timestamps strictly increasing whatever the inputs are (no hypothesis on the schedule) -/
theorem log_invariant_all_schedules (ops : List Op) :
    ∀ s, LInv s.lb → LInv (run s ops).lb := by
  induction ops with
  | nil => intro s h; exact h
  | cons o os ih =>
    intro s h
    refine ih _ ?_
    cases o with
    | add ts dlen => exact LInv_add _ _ _ h
    | sealNow => exact LInv_copyToFlush _ h
    | fwrite => exact LInv_fwrite _ h
    | fack => exact LInv_fack _ h
    | newReader T => exact h
    | rstep i => exact h

/-- every recycled entry is covered by an acknowledged flush -/
def Acked (lb : LB) : Prop := ∀ t ∈ lb.dropped, lb.lastFlush ≠ zeroT ∧ (t : Int) ≤ lb.lastFlush

theorem acked_readSafe (lb : LB) (h : Acked lb) (T : Int) : ReadSafe lb T := by
  by_cases hc : ∀ t ∈ lb.dropped, (t : Int) ≤ T
  · exact Or.inr hc
  · left
    have : ∃ t, t ∈ lb.dropped ∧ ¬ (t : Int) ≤ T := Classical.not_forall.mp hc |>.elim fun t ht =>
      ⟨t, Classical.not_imp.mp ht⟩
    obtain ⟨t, ht, hgt⟩ := this
    have := h t ht
    exact ⟨this.1, by omega⟩

/-- all states visited by a schedule satisfy `Acked`: no sealed buffer is recycled before its flush is acknowledged -/
def AckedRun (s : Sys) : List Op → Prop
  | [] => True
  | o :: os => Acked s.lb ∧ AckedRun (step s o) os

theorem ackedRun_safeRun : ∀ (ops : List Op) (s : Sys), AckedRun s ops → SafeRun s ops := by
  intro ops
  induction ops with
  | nil => intro s _; trivial
  | cons o os ih =>
    intro s h
    refine ⟨?_, ih _ h.2⟩
    cases o with
    | rstep i =>
      simp only [SafeStep]
      split
      · exact Or.inr (acked_readSafe _ h.1 _)
      · trivial
    | _ => trivial

/-- COROLLARY for the schedules the code handles by design: while every sealed buffer is flush-acknowledged
    before it is recycled, every subscriber sees every change once, in order. -/
theorem delivery_prefix_flush_keeps_up (cfg : Cfg) (hc : 0 < cfg.prevCount) (ops : List Op) (ha : AckedRun (start cfg) ops) :
    ∀ r ∈ (run (start cfg) ops).rds, DeliveryPrefix (run (start cfg) ops).lb.log r.got r.t0 :=
  delivery_prefix_partial cfg hc ops (ackedRun_safeRun ops _ ha)

/-- DELAY, not loss: right after an interval seal the current buffer is empty and every read at a
    non-negative position returns nothing (nil) or is sent to the disk — it never returns a wrong buffer. -/
theorem read_after_seal_is_nil (lb : LB) (hi : LInv lb) (hp : lb.cur.pos > 0) (T : Int) (hT : 0 ≤ T) :
    readFrom (sealNow lb) T = .nil ∨ readFrom (sealNow lb) T = .resume := by
  unfold sealNow copyToFlush
  rw [if_pos hp]
  cases hprev : lb.prev with
  | nil => exact absurd hprev hi.prevNe
  | cons old rest =>
    simp only
    unfold readFrom
    simp only
    by_cases c1 : lb.lastFlush ≠ zeroT ∧ lb.lastFlush > T
    · rw [if_pos c1]; exact Or.inr rfl
    · rw [if_neg c1]
      by_cases c2 : T = 0
      · rw [if_pos c2]; exact Or.inl rfl
      · rw [if_neg c2, if_pos (by omega)]; exact Or.inl rfl


/-- `AddToBuffer` makes the logged timestamps strictly increasing for EVERY schedule and every input
    timestamp sequence (no hypothesis) -/
theorem log_strictly_increasing (cfg : Cfg) (hc : 0 < cfg.prevCount) (ops : List Op) :
    (run (start cfg) ops).lb.log.Pairwise (· < ·) :=
  (log_invariant_all_schedules ops _ (LInv_init cfg hc)).sorted

-- ---------------------------------------------------------------- the excluded case is real

instance (lb : LB) (T : Int) : Decidable (ReadSafe lb T) := by unfold ReadSafe; infer_instance
instance (s : Sys) (o : Op) : Decidable (SafeStep s o) := by
  unfold SafeStep
  cases o with
  | rstep i => simp only; split <;> infer_instance
  | _ => simp only; infer_instance
instance decSafeRun : (ops : List Op) → (s : Sys) → Decidable (SafeRun s ops)
  | [], _ => isTrue trivial
  | o :: os, s => by
    unfold SafeRun
    exact @instDecidableAnd _ _ _ (decSafeRun os (step s o))
instance (lb : LB) : Decidable (Acked lb) := by unfold Acked; infer_instance
instance decAckedRun : (ops : List Op) → (s : Sys) → Decidable (AckedRun s ops)
  | [], _ => isTrue trivial
  | o :: os, s => by
    unfold AckedRun
    exact @instDecidableAnd _ _ _ (decAckedRun os (step s o))
instance (log got : List Nat) (t0 : Int) : Decidable (DeliveryPrefix log got t0) := by
  unfold DeliveryPrefix; infer_instance

/-- the constants of the real build: hash of the harness' partition key, BufferSize, PreviousBufferCount, 1 h -/
def realCfg : Cfg := ⟨-2104701234, 4194304, 3, 3600000000000⟩

/-- corpus/C22/witness_recycled_unflushed.ops: the subscriber has read 1000; the buffer [1000, 2000] is
    sealed and, four rotations later, recycled while flushFn is still blocked; the next memory read is
    handed the oldest retained buffer. -/
def witnessOps : List Op :=
  [.newReader 0, .add 1000 5, .rstep 0, .rstep 0, .add 2000 5, .add 4000000000000 5, .add 8000000000000 5,
   .add 12000000000000 5, .add 16000000000000 5, .rstep 0]

/-- WITNESS: the full statement is false of the code — event 2000 is skipped -/
theorem witness :
    (run (start realCfg) witnessOps).lb.log = [1000, 2000, 4000000000000, 8000000000000, 12000000000000, 16000000000000] ∧
    (run (start realCfg) witnessOps).rds.map (·.got) = [[1000, 4000000000000, 8000000000000, 12000000000000, 16000000000000]] := by
  decide

theorem delivery_prefix_fails_without_readSafe :
    ¬ ∀ r ∈ (run (start realCfg) witnessOps).rds, DeliveryPrefix (run (start realCfg) witnessOps).lb.log r.got r.t0 := by
  decide

/-- and the witness is exactly an excluded schedule: its last memory read is not `ReadSafe` -/
theorem witness_is_excluded : ¬ SafeRun (start realCfg) witnessOps := by decide

/-- the hypotheses of the theorems are satisfiable by schedules that rotate, flush and read -/
def goodOps : List Op :=
  [.newReader 0, .add 1000 5, .rstep 0, .rstep 0, .add 2000 5, .add 4000000000000 5, .fwrite, .fack,
   .add 8000000000000 5, .fwrite, .fack, .add 12000000000000 5, .fwrite, .fack, .add 16000000000000 5, .rstep 0, .rstep 0, .rstep 0]

example : SafeRun (start realCfg) goodOps := by decide
example : AckedRun (start realCfg) goodOps := by decide
example : (run (start realCfg) goodOps).rds.map (·.got) = [[1000, 2000, 4000000000000, 8000000000000, 12000000000000, 16000000000000]] := by decide
example : 0 < realCfg.prevCount := by decide


-- ---------------------------------------------------------------- source tie (regenerated from /repo on every run)

/-- the configuration the theorems are instantiated with is the one of the source tree -/
theorem bridge_consts : (realCfg.bufSize : Int) = SwV.Gen.C22.BufferSize ∧ (realCfg.prevCount : Int) = SwV.Gen.C22.PreviousBufferCount
    ∧ 0 < SwV.Gen.C22.PreviousBufferCount := by decide

/-- the comparisons the model mirrors (`fixTs`, `needRotate`, `readFrom`, `bsearch`, `locate`) are the ones in the source -/
theorem bridge_conditions :
    SwV.Gen.C22.addFixupCond = "m.lastTsNs >= eventTsNs" ∧
    SwV.Gen.C22.addRotateCond = "m.startTime.Add(m.flushInterval).Before(ts) || len(m.buf)-m.pos < size+4" ∧
    SwV.Gen.C22.readResumeCond = "!m.lastFlushTime.IsZero() && m.lastFlushTime.After(lastReadTime)" ∧
    SwV.Gen.C22.readSearchCond = "t <= lastTs" ∧
    SwV.Gen.C22.readSearchHitCond = "prevT <= lastTs" ∧
    SwV.Gen.C22.locateCond = "t > lastReadTs" := by decide

/-- the functions modelled statement by statement (`copyToFlush`, `fack`, `memLoop`) are unchanged; `SealBuffer` is pinned
    at its REPAIRED text (the oldest byte slice is recycled, see findings.json) -/
theorem bridge_pins :
    SwV.Gen.C22.src_SealBuffer = "49ef37a949883d36" ∧ SwV.Gen.C22.src_copyToFlush = "200cfaf5ef2d87a1" ∧
    SwV.Gen.C22.src_loopFlush = "548e8b458718ff9a" ∧ SwV.Gen.C22.src_LoopProcessLogData = "3a30c65e01c32225" := by decide

end SwV.Props.C22
