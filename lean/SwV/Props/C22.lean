/-
C22 — Metadata change subscribers see every change once, in order.

Model: SwV.Model.C22 (the log buffer and the subscribe loop as atomic steps).  Spec: SwV.Spec.C22
(`DeliveryPrefix`: what a subscriber has received is a prefix of the timestamp-ordered changes
later than its start).

FULL STATEMENT (false of the code, see `witness`):
    ∀ cfg ops, ∀ r ∈ (run ⟨init cfg, []⟩ ops).rds, DeliveryPrefix (run ⟨init cfg, []⟩ ops).lb.log r.got r.t0
PROVED: `delivery_prefix_partial` — the same for every schedule in which no memory read happens at a
position T for which a recycled, not yet flush-acknowledged entry later than T exists (`ReadSafe`,
checked at each memory read: `SafeRun`).  `delivery_prefix_flush_keeps_up` instantiates it for the
schedules in which a sealed buffer is never recycled before its flush was acknowledged.
An empty current buffer after an interval seal only DELAYS delivery (`read_after_seal_is_nil`);
the delay is allowed by `DeliveryPrefix` and loses nothing (the main theorem covers `sealNow`).
Data-race freedom is a runtime fact and not covered by any theorem here.
-/
import SwV.Lemmas.C22
import SwV.Lemmas.C22Disk
import SwV.Gen.C22
namespace SwV.Props.C22
open SwV.Model.C22 SwV.Spec.C22 SwV.Lemmas.C22

/-- what the subscribe loop maintains: everything in the window (t0, T] has been delivered, nothing else -/
def RInv (lb : LB) (r : Rd) : Prop :=
  r.got = window r.t0 r.T lb.log ∧ (r.T = r.t0 ∨ (r.t0 ≤ r.T ∧ r.T ≤ (lb.lastTs : Int)))

theorem RInv_congr {lb : LB} {r r' : Rd} (h : RInv lb r) (h0 : r'.t0 = r.t0) (hT : r'.T = r.T) (hg : r'.got = r.got) :
    RInv lb r' := by
  unfold RInv at *; rw [h0, hT, hg]; exact h

theorem RInv_lb {lb lb' : LB} {r : Rd} (h : RInv lb r) (hl : lb'.log = lb.log) (ht : lb'.lastTs = lb.lastTs) : RInv lb' r := by
  unfold RInv at *; rw [hl, ht]; exact h

/-- delivering the run of entries that immediately follows T keeps the window exact -/
theorem RInv_deliver (lb : LB) (r r' : Rd) (l A C : List Nat) (hi : LInv lb) (hr : RInv lb r)
    (hlog : lb.log = A ++ l ++ C) (hA : ∀ t ∈ A, (t : Int) ≤ r.T) (hl : ∀ t ∈ l, r.T < (t : Int))
    (h0 : r'.t0 = r.t0) (hT : r'.T = lastOr l r.T) (hg : r'.got = r.got ++ l) : RInv lb r' := by
  unfold lastOr at hT
  cases hlast : l.getLast? with
  | none =>
    have : l = [] := List.getLast?_eq_none_iff.mp hlast
    subst this
    rw [hlast] at hT
    exact RInv_congr hr h0 hT (by simpa using hg)
  | some x =>
    rw [hlast] at hT
    simp only at hT
    obtain ⟨D, hD⟩ := List.getLast?_eq_some_iff.mp hlast
    subst hD
    have hs : Sorted (A ++ (D ++ [x]) ++ C) := by rw [← hlog]; exact hi.sorted
    have hw := window_mid A D C x r.T hs hA hl
    have hxT : r.T < (x : Int) := hl x (by simp)
    have hxl : x ∈ lb.log := by rw [hlog]; simp
    have hxb := hi.bound x hxl
    have ht0 : r.t0 ≤ r.T := by rcases hr.2 with h | h <;> omega
    unfold RInv
    rw [h0, hT, hg, hr.1]
    refine ⟨?_, Or.inr ⟨by omega, by omega⟩⟩
    rw [← window_split lb.log r.t0 r.T x ht0 (by omega) hi.sorted, hlog, hw]

theorem RInv_add (lb : LB) (r : Rd) (ets dlen : Nat) (_hi : LInv lb) (hr : RInv lb r) : RInv (add lb ets dlen) r := by
  have ha := add_log lb ets dlen
  have hgt := fixTs_gt lb ets
  unfold RInv at *
  rw [ha.1, ha.2, window_append]
  have : window r.t0 r.T [fixTs lb ets] = [] := window_eq_nil (fun t ht h => by
    simp at ht; subst ht
    rcases hr.2 with h' | h' <;> omega)
  rw [this, List.append_nil]
  refine ⟨hr.1, ?_⟩
  rcases hr.2 with h | h
  · exact Or.inl h
  · exact Or.inr ⟨h.1, by omega⟩

theorem fwrite_log (s : LB) : (fwrite s).log = s.log ∧ (fwrite s).lastTs = s.lastTs := by
  unfold fwrite; split <;> simp

theorem fack_log (s : LB) : (fack s).log = s.log ∧ (fack s).lastTs = s.lastTs := by
  unfold fack; split <;> simp

theorem readFrom_buf_not_resume (lb : LB) (T : Int) (l : List Nat) (h : readFrom lb T = .buf l) :
    ¬ (lb.lastFlush ≠ zeroT ∧ lb.lastFlush > T) := by
  intro c; unfold readFrom at h; rw [if_pos c] at h; cases h

theorem lastOr_ge (l : List Nat) (T : Int) (h : ∀ t ∈ l, T < (t : Int)) : T ≤ lastOr l T := by
  unfold lastOr
  cases hl : l.getLast? with
  | none => simp
  | some x =>
    obtain ⟨D, hD⟩ := List.getLast?_eq_some_iff.mp hl
    have := h x (by rw [hD]; simp)
    simp; omega

/-- `LoopProcessLogData` keeps the window exact as long as its first read is safe -/
theorem memLoop_RInv (lb : LB) (hi : LInv lb) : ∀ (f : Nat) (r : Rd), RInv lb r → ReadSafe lb r.T → RInv lb (memLoop lb f r) := by
  intro f
  induction f with
  | zero => intro r hr _; exact RInv_congr hr rfl rfl rfl
  | succ f ih =>
    intro r hr hsafe
    unfold memLoop
    cases hrf : readFrom lb r.T with
    | resume => exact RInv_congr hr rfl rfl rfl
    | nil => exact RInv_congr hr rfl rfl rfl
    | buf l =>
      simp only
      obtain ⟨A, C, hlog, hA, hl⟩ := readFrom_spec lb r.T l hi hsafe hrf
      have hr2 : RInv lb { r with T := lastOr l r.T, got := r.got ++ l } :=
        RInv_deliver lb r _ l A C hi hr hlog hA hl rfl rfl rfl
      refine ih _ hr2 ?_
      have hnr := readFrom_buf_not_resume lb r.T l hrf
      have hd : ∀ t ∈ lb.dropped, (t : Int) ≤ r.T := by
        rcases hsafe with h | h
        · exact absurd h hnr
        · exact h
      have hge := lastOr_ge l r.T hl
      exact Or.inr (fun t ht => by have := hd t ht; simp only; omega)

theorem sorted_prefix {a b : List Nat} (h : Sorted (a ++ b)) : Sorted a := (List.pairwise_append.mp h).1

/-- one step of a subscriber (disk phase or memory phase) -/
theorem rstep_RInv (lb : LB) (r : Rd) (hi : LInv lb) (hr : RInv lb r) (hsafe : r.onDisk = false → ReadSafe lb r.T) :
    RInv lb (rstep lb r) := by
  unfold rstep
  by_cases hd : r.onDisk = true
  · rw [if_pos hd]
    simp only
    by_cases hne : diskRead lb r.T ≠ []
    · rw [if_pos hne]
      have hsd : Sorted lb.disk := by
        have := hi.sorted; rw [hi.dseg, List.append_assoc] at this; exact sorted_prefix this
      obtain ⟨A, hA, hle⟩ := split_gt lb.disk r.T hsd
      have hlog : lb.log = A ++ diskRead lb r.T ++ (qflat lb.queue ++ lb.cur.ents) := by
        rw [hi.dseg]; unfold diskRead; rw [← hA]; simp [List.append_assoc]
      refine RInv_deliver lb r _ (diskRead lb r.T) A _ hi hr hlog hle ?_ rfl rfl rfl
      intro t ht
      unfold diskRead at ht
      simpa using (List.mem_filter.mp ht).2
    · rw [if_neg hne]
      split
      · exact hr
      · exact RInv_congr hr rfl rfl rfl
  · rw [if_neg hd]
    exact memLoop_RInv lb hi _ r hr (hsafe (by simpa using hd))

-- ---------------------------------------------------------------- schedules

/-- the only obligation on a schedule: each memory read is `ReadSafe` at the reader's position -/
def SafeStep (s : Sys) : Op → Prop
  | .rstep i => match s.rds[i]? with
    | some r => r.onDisk = true ∨ ReadSafe s.lb r.T
    | none => True
  | _ => True

def SafeRun (s : Sys) : List Op → Prop
  | [] => True
  | o :: os => SafeStep s o ∧ SafeRun (step s o) os

def SInv (s : Sys) : Prop := LInv s.lb ∧ ∀ r ∈ s.rds, RInv s.lb r

theorem modifyAt_mem (f : Rd → Rd) : ∀ (rs : List Rd) (i : Nat) (r' : Rd), r' ∈ modifyAt f rs i →
    r' ∈ rs ∨ ∃ r, rs[i]? = some r ∧ r' = f r := by
  intro rs
  induction rs with
  | nil => intro i r' h; simp [modifyAt] at h
  | cons x xs ih =>
    intro i r' h
    cases i with
    | zero =>
      simp only [modifyAt] at h
      rcases List.mem_cons.mp h with h | h
      · exact Or.inr ⟨x, by simp, h⟩
      · exact Or.inl (by simp [h])
    | succ k =>
      simp only [modifyAt] at h
      rcases List.mem_cons.mp h with h | h
      · exact Or.inl (by simp [h])
      · rcases ih k r' h with h | ⟨r, hr, he⟩
        · exact Or.inl (by simp [h])
        · exact Or.inr ⟨r, by simpa using hr, he⟩

theorem step_SInv (s : Sys) (o : Op) (hi : SInv s) (hs : SafeStep s o) : SInv (step s o) := by
  obtain ⟨hl, hr⟩ := hi
  cases o with
  | add ts dlen => exact ⟨LInv_add _ _ _ hl, fun r h => RInv_add _ _ _ _ hl (hr r h)⟩
  | sealNow =>
    have := copyToFlush_log s.lb
    exact ⟨LInv_copyToFlush _ hl, fun r h => RInv_lb (hr r h) this.1 this.2.1⟩
  | fwrite =>
    have := fwrite_log s.lb
    exact ⟨LInv_fwrite _ hl, fun r h => RInv_lb (hr r h) this.1 this.2⟩
  | fack =>
    have := fack_log s.lb
    exact ⟨LInv_fack _ hl, fun r h => RInv_lb (hr r h) this.1 this.2⟩
  | newReader T =>
    refine ⟨hl, fun r h => ?_⟩
    simp only [step] at h
    rcases List.mem_append.mp h with h | h
    · exact hr r h
    · simp at h; subst h
      refine ⟨?_, Or.inl rfl⟩
      show [] = window T T s.lb.log
      exact (window_eq_nil (fun t _ h => by omega)).symm
  | rstep i =>
    refine ⟨hl, fun r' h => ?_⟩
    simp only [step] at h
    rcases modifyAt_mem _ _ _ _ h with h | ⟨r, hri, he⟩
    · exact hr r' h
    · subst he
      have hmem : r ∈ s.rds := List.mem_of_getElem? hri
      refine rstep_RInv s.lb r hl (hr r hmem) ?_
      intro hd
      simp only [SafeStep, hri] at hs
      rcases hs with h | h
      · rw [hd] at h; cases h
      · exact h

theorem run_SInv : ∀ (ops : List Op) (s : Sys), SInv s → SafeRun s ops → SInv (run s ops) := by
  intro ops
  induction ops with
  | nil => intro s h _; exact h
  | cons o os ih => intro s h hs; exact ih _ (step_SInv s o h hs.1) hs.2

def start (cfg : Cfg) : Sys := { lb := init cfg }

theorem start_SInv (cfg : Cfg) (h : 0 < cfg.prevCount) : SInv (start cfg) :=
  ⟨LInv_init cfg h, by simp [start]⟩

/-- MAIN THEOREM.  For every configuration, every schedule of appends (any timestamps, any sizes),
    interval seals, flush writes, flush acknowledgements, new subscribers (any start) and subscriber
    steps in which every memory read is `ReadSafe`, every subscriber has received exactly a prefix of
    the timestamp-ordered changes later than its start: no skip, no duplicate, in order. -/
theorem delivery_prefix_partial (cfg : Cfg) (hc : 0 < cfg.prevCount) (ops : List Op) (hs : SafeRun (start cfg) ops) :
    ∀ r ∈ (run (start cfg) ops).rds, DeliveryPrefix (run (start cfg) ops).lb.log r.got r.t0 := by
  intro r hr
  obtain ⟨hl, hrs⟩ := run_SInv ops _ (start_SInv cfg hc) hs
  have := hrs r hr
  unfold DeliveryPrefix
  rw [this.1]
  exact window_prefix _ _ _ hl.sorted

/-- what is delivered is strictly increasing (hence duplicate-free) -/
theorem delivery_strictly_increasing (cfg : Cfg) (hc : 0 < cfg.prevCount) (ops : List Op) (hs : SafeRun (start cfg) ops) :
    ∀ r ∈ (run (start cfg) ops).rds, r.got.Pairwise (· < ·) := by
  intro r hr
  obtain ⟨hl, hrs⟩ := run_SInv ops _ (start_SInv cfg hc) hs
  rw [(hrs r hr).1]
  exact List.Pairwise.sublist List.filter_sublist hl.sorted

/-- the log itself: `AddToBuffer` makes timestamps strictly increasing whatever the inputs are (no hypothesis on the schedule) -/
theorem log_invariant_all_schedules (ops : List Op) :
    ∀ s, LInv s.lb → LInv (run s ops).lb := by
  induction ops with
  | nil => intro s h; exact h
  | cons o os ih =>
    intro s h
    refine ih _ ?_
    cases o with
    | add ts dlen => exact LInv_add _ _ _ h
    | sealNow => exact LInv_copyToFlush _ h
    | fwrite => exact LInv_fwrite _ h
    | fack => exact LInv_fack _ h
    | newReader T => exact h
    | rstep i => exact h

/-- every recycled entry is covered by an acknowledged flush -/
def Acked (lb : LB) : Prop := ∀ t ∈ lb.dropped, lb.lastFlush ≠ zeroT ∧ (t : Int) ≤ lb.lastFlush

theorem acked_readSafe (lb : LB) (h : Acked lb) (T : Int) : ReadSafe lb T := by
  by_cases hc : ∀ t ∈ lb.dropped, (t : Int) ≤ T
  · exact Or.inr hc
  · left
    have : ∃ t, t ∈ lb.dropped ∧ ¬ (t : Int) ≤ T := Classical.not_forall.mp hc |>.elim fun t ht =>
      ⟨t, Classical.not_imp.mp ht⟩
    obtain ⟨t, ht, hgt⟩ := this
    have := h t ht
    exact ⟨this.1, by omega⟩

/-- all states visited by a schedule satisfy `Acked`: no sealed buffer is recycled before its flush is acknowledged -/
def AckedRun (s : Sys) : List Op → Prop
  | [] => True
  | o :: os => Acked s.lb ∧ AckedRun (step s o) os

theorem ackedRun_safeRun : ∀ (ops : List Op) (s : Sys), AckedRun s ops → SafeRun s ops := by
  intro ops
  induction ops with
  | nil => intro s _; trivial
  | cons o os ih =>
    intro s h
    refine ⟨?_, ih _ h.2⟩
    cases o with
    | rstep i =>
      simp only [SafeStep]
      split
      · exact Or.inr (acked_readSafe _ h.1 _)
      · trivial
    | _ => trivial

/-- COROLLARY for the schedules the code handles by design: while every sealed buffer is flush-acknowledged
    before it is recycled, every subscriber sees every change once, in order. -/
theorem delivery_prefix_flush_keeps_up (cfg : Cfg) (hc : 0 < cfg.prevCount) (ops : List Op) (ha : AckedRun (start cfg) ops) :
    ∀ r ∈ (run (start cfg) ops).rds, DeliveryPrefix (run (start cfg) ops).lb.log r.got r.t0 :=
  delivery_prefix_partial cfg hc ops (ackedRun_safeRun ops _ ha)

/-- DELAY, not loss: right after an interval seal the current buffer is empty and every read at a
    non-negative position returns nothing (nil) or is sent to the disk — it never returns a wrong buffer. -/
theorem read_after_seal_is_nil (lb : LB) (hi : LInv lb) (hp : lb.cur.pos > 0) (T : Int) (hT : 0 ≤ T) :
    readFrom (sealNow lb) T = .nil ∨ readFrom (sealNow lb) T = .resume := by
  unfold sealNow copyToFlush
  rw [if_pos hp]
  cases hprev : lb.prev with
  | nil => exact absurd hprev hi.prevNe
  | cons old rest =>
    simp only
    unfold readFrom
    simp only
    by_cases c1 : lb.lastFlush ≠ zeroT ∧ lb.lastFlush > T
    · rw [if_pos c1]; exact Or.inr rfl
    · rw [if_neg c1]
      by_cases c2 : T = 0
      · rw [if_pos c2]; exact Or.inl rfl
      · rw [if_neg c2, if_pos (by omega)]; exact Or.inl rfl


/-- `AddToBuffer` makes the logged timestamps strictly increasing for EVERY schedule and every input
    timestamp sequence (no hypothesis) -/
theorem log_strictly_increasing (cfg : Cfg) (hc : 0 < cfg.prevCount) (ops : List Op) :
    (run (start cfg) ops).lb.log.Pairwise (· < ·) :=
  (log_invariant_all_schedules ops _ (LInv_init cfg hc)).sorted

-- ---------------------------------------------------------------- the excluded case is real

instance (lb : LB) (T : Int) : Decidable (ReadSafe lb T) := by unfold ReadSafe; infer_instance
instance (s : Sys) (o : Op) : Decidable (SafeStep s o) := by
  unfold SafeStep
  cases o with
  | rstep i => simp only; split <;> infer_instance
  | _ => simp only; infer_instance
instance decSafeRun : (ops : List Op) → (s : Sys) → Decidable (SafeRun s ops)
  | [], _ => isTrue trivial
  | o :: os, s => by
    unfold SafeRun
    exact @instDecidableAnd _ _ _ (decSafeRun os (step s o))
instance (lb : LB) : Decidable (Acked lb) := by unfold Acked; infer_instance
instance decAckedRun : (ops : List Op) → (s : Sys) → Decidable (AckedRun s ops)
  | [], _ => isTrue trivial
  | o :: os, s => by
    unfold AckedRun
    exact @instDecidableAnd _ _ _ (decAckedRun os (step s o))
instance (log got : List Nat) (t0 : Int) : Decidable (DeliveryPrefix log got t0) := by
  unfold DeliveryPrefix; infer_instance

/-- the constants of the real build: hash of the harness' partition key, BufferSize, PreviousBufferCount, 1 h -/
def realCfg : Cfg := ⟨-2104701234, 4194304, 3, 3600000000000⟩

/-- corpus/C22/witness_recycled_unflushed.ops: the subscriber has read 1000; the buffer [1000, 2000] is
    sealed and, four rotations later, recycled while flushFn is still blocked; the next memory read is
    handed the oldest retained buffer. -/
def witnessOps : List Op :=
  [.newReader 0, .add 1000 5, .rstep 0, .rstep 0, .add 2000 5, .add 4000000000000 5, .add 8000000000000 5,
   .add 12000000000000 5, .add 16000000000000 5, .rstep 0]

/-- WITNESS: the full statement is false of the code — event 2000 is skipped -/
theorem witness :
    (run (start realCfg) witnessOps).lb.log = [1000, 2000, 4000000000000, 8000000000000, 12000000000000, 16000000000000] ∧
    (run (start realCfg) witnessOps).rds.map (·.got) = [[1000, 4000000000000, 8000000000000, 12000000000000, 16000000000000]] := by
  decide

theorem delivery_prefix_fails_without_readSafe :
    ¬ ∀ r ∈ (run (start realCfg) witnessOps).rds, DeliveryPrefix (run (start realCfg) witnessOps).lb.log r.got r.t0 := by
  decide

/-- and the witness is exactly an excluded schedule: its last memory read is not `ReadSafe` -/
theorem witness_is_excluded : ¬ SafeRun (start realCfg) witnessOps := by decide

/-- the hypotheses of the theorems are satisfiable by schedules that rotate, flush and read -/
def goodOps : List Op :=
  [.newReader 0, .add 1000 5, .rstep 0, .rstep 0, .add 2000 5, .add 4000000000000 5, .fwrite, .fack,
   .add 8000000000000 5, .fwrite, .fack, .add 12000000000000 5, .fwrite, .fack, .add 16000000000000 5, .rstep 0, .rstep 0, .rstep 0]

example : SafeRun (start realCfg) goodOps := by decide
example : AckedRun (start realCfg) goodOps := by decide
example : (run (start realCfg) goodOps).rds.map (·.got) = [[1000, 2000, 4000000000000, 8000000000000, 12000000000000, 16000000000000]] := by decide
example : 0 < realCfg.prevCount := by decide


-- ---------------------------------------------------------------- the persisted-log path (Model/C22Disk)

/- FULL STATEMENT for one call of `ReadPersistedLogBuffer` (FALSE of the code, see `disk_witness`):

     theorem disk_delivery_exact (files : List Seg) (T : Int) : (persistedRead files T).1 = expected (persisted files) T

   `logFlushFunc` names a segment file after the minute of the flushed buffer's START, the buffer holds
   entries up to one flush interval later, and `ReadPersistedLogBuffer` skips files by NAME.  -/

/-- one call of `ReadPersistedLogBuffer` from `T` hands over exactly the persisted changes later than `T`,
    once and in order, PROVIDED no segment file whose name sorts before `T`'s minute holds an entry later
    than `T` (`NoStraddle`, the excluded inputs = finding ReadPersistedLogBuffer/skips-segment-file-by-name)
    and at most 366 day directories follow the start date (`FewDays`: one call lists no more) -/
theorem disk_delivery_exact_partial (files : List Seg) (T : Int) (hn : NoStraddle files T) (hd : FewDays files T) :
    (persistedRead files T).1 = expected (persisted files) T :=
  persistedRead_fst files T hn hd

/-- … in particular for EVERY start time when no flushed buffer crosses a minute boundary -/
theorem disk_delivery_exact_within_minute (files : List Seg) (T : Int) (hT : 0 ≤ T) (hw : WithinMinute files)
    (hd : FewDays files T) : (persistedRead files T).1 = expected (persisted files) T :=
  persistedRead_fst files T (withinMinute_noStraddle files hw T hT) hd

/-- the `lastTsNs` returned is the last change handed over (0 iff none): the subscribe loop continues from there -/
theorem disk_last_ts (files : List Seg) (T : Int) (hs : (persisted files).Pairwise (· < ·)) (hne : ∀ F ∈ files, F.ents ≠ [])
    (hpos : ∀ t ∈ persisted files, 0 < t) :
    ((persistedRead files T).1 = [] → (persistedRead files T).2 = 0) ∧
    ((persistedRead files T).1 ≠ [] → (persistedRead files T).1.getLast? = some (persistedRead files T).2 ∧ (persistedRead files T).2 ≠ 0) :=
  persistedRead_snd files T hs hne hpos

/-- the production configuration: flush interval `filer.LogFlushInterval` = 1 minute -/
def prodCfg : Cfg := ⟨-2104701234, 4194304, 3, 60000000000⟩

/-- corpus/C22/witness_segment_skipped_by_name.ops: events at 12:26:40 and 12:27:10 (2020-09-13 UTC) share a buffer -/
def diskWitnessOps : List DOp := [.add 1600000000000000000 5, .add 1600000030000000000 5, .sealNow]

def witnessFiles : List Seg := [⟨18518, 746, [1600000000000000000, 1600000030000000000]⟩]

/-- the production flush function writes both events to 2020-09-13/12-26.segment -/
theorem disk_witness_layout : (drun (dstart prodCfg) diskWitnessOps).d.files = witnessFiles := by decide

/-- WITNESS: the full statement is false — from 12:27:05 nothing is handed over although 12:27:10 is persisted -/
theorem disk_witness :
    persistedRead witnessFiles 1600000025000000000 = ([], 0) ∧
    expected (persisted witnessFiles) 1600000025000000000 = [1600000030000000000] := by decide

theorem disk_delivery_exact_fails : ¬ ∀ (files : List Seg) (T : Int), (persistedRead files T).1 = expected (persisted files) T := by
  intro h
  have := h witnessFiles 1600000025000000000
  revert this
  decide

/-- … and the witness is exactly an excluded input -/
theorem disk_witness_is_excluded : ¬ NoStraddle witnessFiles 1600000025000000000 := by decide

/-- non-vacuity: from the first event the same layout is read exactly -/
example : NoStraddle witnessFiles 1600000000000000000 ∧ FewDays witnessFiles 1600000000000000000 := by decide
example : (persistedRead witnessFiles 1600000000000000000) = ([1600000030000000000], 1600000030000000000) := by decide
example : WithinMinute [⟨18518, 746, [1600000000000000000, 1600000010000000000]⟩, ⟨18518, 747, [1600000030000000000]⟩] := by decide

/-! ### the subscriber over the real disk path -/

theorem disk_deliver_RInv (lb : LB) (r r' : Rd) (hi : LInv lb) (hr : RInv lb r)
    (h0 : r'.t0 = r.t0) (hT : r'.T = lastOr (diskRead lb r.T) r.T) (hg : r'.got = r.got ++ diskRead lb r.T) : RInv lb r' := by
  have hsd : Sorted lb.disk := by
    have := hi.sorted; rw [hi.dseg, List.append_assoc] at this; exact sorted_prefix this
  obtain ⟨A, hA, hle⟩ := split_gt lb.disk r.T hsd
  have hlog : lb.log = A ++ diskRead lb r.T ++ (qflat lb.queue ++ lb.cur.ents) := by
    rw [hi.dseg]; unfold diskRead; rw [← hA]; simp [List.append_assoc]
  refine RInv_deliver lb r _ (diskRead lb r.T) A _ hi hr hlog hle ?_ h0 hT hg
  intro t ht
  unfold diskRead at ht
  simpa using (List.mem_filter.mp ht).2

/-- what a schedule must satisfy at a subscriber step: a disk read does not start inside a straddling
    segment file, a memory read is `ReadSafe` -/
def DSafeStep (s : DSys) : DOp → Prop
  | .rstep i => match s.rds[i]? with
    | some r => if r.onDisk = true then NoStraddle s.d.files r.T ∧ FewDays s.d.files r.T else ReadSafe s.d.lb r.T
    | none => True
  | _ => True

def DSafeRun (s : DSys) : List DOp → Prop
  | [] => True
  | o :: os => DSafeStep s o ∧ DSafeRun (dstep s o) os

def DSInv (s : DSys) : Prop := DInv s.d ∧ ∀ r ∈ s.rds, RInv s.d.lb r

theorem rstepD_RInv (d : DLB) (r : Rd) (hd : DInv d) (hr : RInv d.lb r)
    (hsafe : if r.onDisk = true then NoStraddle d.files r.T ∧ FewDays d.files r.T else ReadSafe d.lb r.T) :
    RInv d.lb (rstepD d r) := by
  unfold rstepD
  by_cases ho : r.onDisk = true
  · rw [if_pos ho] at hsafe ⊢
    have hsd : Sorted d.lb.disk := by
      have := hd.linv.sorted; rw [hd.linv.dseg, List.append_assoc] at this; exact sorted_prefix this
    have h1 : (persistedRead d.files r.T).1 = diskRead d.lb r.T := by
      rw [persistedRead_fst d.files r.T hsafe.1 hsafe.2, hd.flat]; rfl
    obtain ⟨h2a, h2b⟩ := persistedRead_snd d.files r.T (by rw [hd.flat]; exact hsd) hd.nonempty
      (by rw [hd.flat]; intro t ht; exact (hd.linv.bound t (disk_sub_log _ hd.linv t ht)).1)
    rw [h1] at h2a h2b
    generalize hpr : persistedRead d.files r.T = pr at h1 h2a h2b
    obtain ⟨l, last⟩ := pr
    simp only at h1 h2a h2b ⊢
    subst h1
    by_cases hl : diskRead d.lb r.T = []
    · have hz := h2a hl
      subst hz
      rw [hl]
      simp only [ne_eq, not_true_eq_false, if_false, List.append_nil]
      split <;> exact RInv_congr hr rfl rfl rfl
    · obtain ⟨hlast, hnz⟩ := h2b hl
      rw [if_pos hnz]
      refine disk_deliver_RInv d.lb r _ hd.linv hr rfl ?_ rfl
      unfold lastOr; rw [hlast]
  · rw [if_neg ho] at hsafe ⊢
    exact memLoop_RInv d.lb hd.linv _ r hr hsafe

theorem dstep_DSInv (s : DSys) (o : DOp) (hi : DSInv s) (hs : DSafeStep s o) : DSInv (dstep s o) := by
  obtain ⟨hd, hr⟩ := hi
  cases o with
  | add ts dlen =>
    obtain ⟨h1, _, h3, h4⟩ := DInv_settle _ (DInv_add s.d ts dlen hd)
    exact ⟨h1, fun r h => RInv_lb (RInv_add _ _ _ _ hd.linv (hr r h)) h3 h4⟩
  | sealNow =>
    obtain ⟨h1, _, h3, h4⟩ := DInv_settle _ (DInv_seal s.d hd)
    have := copyToFlush_log s.d.lb
    exact ⟨h1, fun r h => RInv_lb (RInv_lb (hr r h) this.1 this.2.1) h3 h4⟩
  | newReader T =>
    refine ⟨hd, fun r h => ?_⟩
    simp only [dstep] at h
    rcases List.mem_append.mp h with h | h
    · exact hr r h
    · simp at h; subst h
      refine ⟨?_, Or.inl rfl⟩
      show [] = window T T s.d.lb.log
      exact (window_eq_nil (fun t _ h => by omega)).symm
  | rstep i =>
    refine ⟨hd, fun r' h => ?_⟩
    simp only [dstep] at h
    rcases modifyAt_mem _ _ _ _ h with h | ⟨r, hri, he⟩
    · exact hr r' h
    · subst he
      have hmem : r ∈ s.rds := List.mem_of_getElem? hri
      simp only [DSafeStep, hri] at hs
      exact rstepD_RInv s.d r hd (hr r hmem) hs

theorem drun_DSInv : ∀ (ops : List DOp) (s : DSys), DSInv s → DSafeRun s ops → DSInv (drun s ops) := by
  intro ops
  induction ops with
  | nil => intro s h _; exact h
  | cons o os ih => intro s h hs; exact ih _ (dstep_DSInv s o h hs.1) hs.2

/-- MAIN THEOREM over the real disk path.  The log buffer with its PRODUCTION flush function (sealed
    buffers are appended to the segment file named after the minute of their start; the flush keeps up)
    and subscribers whose disk phase is `ReadPersistedLogBuffer` (directory walk, files skipped by name,
    `lastTsNs` of the last file): for every schedule of appends (any timestamps), interval seals, new
    subscribers (any start) and subscriber steps in which no disk read starts inside a straddling segment
    file and every memory read is `ReadSafe`, every subscriber has received exactly a prefix of the
    timestamp-ordered changes later than its start. -/
theorem delivery_prefix_disk_partial (cfg : Cfg) (hc : 0 < cfg.prevCount) (ops : List DOp) (hs : DSafeRun (dstart cfg) ops) :
    ∀ r ∈ (drun (dstart cfg) ops).rds, DeliveryPrefix (drun (dstart cfg) ops).d.lb.log r.got r.t0 := by
  intro r hr
  obtain ⟨hd, hrs⟩ := drun_DSInv ops _ ⟨DInv_init cfg hc, by simp [dstart]⟩ hs
  unfold DeliveryPrefix
  rw [(hrs r hr).1]
  exact window_prefix _ _ _ hd.linv.sorted

/-- the segment files ARE the flat persisted log of the buffer model, whatever the schedule: the engine's
    `disk` abstraction (concatenation of the flushed buffers) is what the production flush function writes -/
theorem files_are_the_flushed_log (cfg : Cfg) (hc : 0 < cfg.prevCount) (ops : List DOp) :
    persisted (drun (dstart cfg) ops).d.files = (drun (dstart cfg) ops).d.lb.disk ∧
    (drun (dstart cfg) ops).d.lb.queue = [] := by
  have key : ∀ (ops : List DOp) (s : DSys), DInv s.d → s.d.lb.queue = [] →
      DInv (drun s ops).d ∧ (drun s ops).d.lb.queue = [] := by
    intro ops
    induction ops with
    | nil => intro s h hq; exact ⟨h, hq⟩
    | cons o os ih =>
      intro s h hq
      cases o with
      | add ts dlen => obtain ⟨h1, h2, _, _⟩ := DInv_settle _ (DInv_add s.d ts dlen h); exact ih _ h1 h2
      | sealNow => obtain ⟨h1, h2, _, _⟩ := DInv_settle _ (DInv_seal s.d h); exact ih _ h1 h2
      | newReader T => exact ih _ h hq
      | rstep i => exact ih _ h hq
  obtain ⟨h1, h2⟩ := key ops (dstart cfg) (DInv_init cfg hc) (by simp [dstart, init])
  exact ⟨h1.flat, h2⟩

instance (s : DSys) (o : DOp) : Decidable (DSafeStep s o) := by
  unfold DSafeStep
  cases o with
  | rstep i => simp only; split <;> infer_instance
  | _ => simp only; infer_instance
instance decDSafeRun : (ops : List DOp) → (s : DSys) → Decidable (DSafeRun s ops)
  | [], _ => isTrue trivial
  | o :: os, s => by
    unfold DSafeRun
    exact @instDecidableAnd _ _ _ (decDSafeRun os (dstep s o))

/-- the subscriber of the witness corpus: starts at 12:27:05, loses 12:27:10 for good -/
def diskSubWitnessOps : List DOp :=
  [.add 1600000000000000000 5, .add 1600000030000000000 5, .sealNow, .newReader 1600000025000000000,
   .rstep 0, .rstep 0, .rstep 0, .add 1600000200000000000 5, .sealNow, .rstep 0, .rstep 0]

theorem disk_sub_witness :
    (drun (dstart prodCfg) diskSubWitnessOps).rds.map (·.got) = [[1600000200000000000]] ∧
    ¬ ∀ r ∈ (drun (dstart prodCfg) diskSubWitnessOps).rds,
        DeliveryPrefix (drun (dstart prodCfg) diskSubWitnessOps).d.lb.log r.got r.t0 := by decide

theorem disk_sub_witness_is_excluded : ¬ DSafeRun (dstart prodCfg) diskSubWitnessOps := by decide

/-- non-vacuity of `delivery_prefix_disk_partial`: the same schedule with the subscriber starting at the first event -/
def diskGoodOps : List DOp :=
  [.add 1600000000000000000 5, .add 1600000030000000000 5, .sealNow, .newReader 1600000000000000000,
   .rstep 0, .rstep 0, .add 1600000200000000000 5, .sealNow, .rstep 0, .rstep 0, .rstep 0]

example : DSafeRun (dstart prodCfg) diskGoodOps := by decide
example : (drun (dstart prodCfg) diskGoodOps).rds.map (·.got) = [[1600000030000000000, 1600000200000000000]] := by decide

-- ---------------------------------------------------------------- source tie (regenerated from /repo on every run)

/-- the configuration the theorems are instantiated with is the one of the source tree -/
theorem bridge_consts : (realCfg.bufSize : Int) = SwV.Gen.C22.BufferSize ∧ (realCfg.prevCount : Int) = SwV.Gen.C22.PreviousBufferCount
    ∧ 0 < SwV.Gen.C22.PreviousBufferCount := by decide

/-- the comparisons the model mirrors (`fixTs`, `needRotate`, `readFrom`, `bsearch`, `locate`) are the ones in the source -/
theorem bridge_conditions :
    SwV.Gen.C22.addFixupCond = "m.lastTsNs >= eventTsNs" ∧
    SwV.Gen.C22.addRotateCond = "m.startTime.Add(m.flushInterval).Before(ts) || len(m.buf)-m.pos < size+4" ∧
    SwV.Gen.C22.readResumeCond = "!m.lastFlushTime.IsZero() && m.lastFlushTime.After(lastReadTime)" ∧
    SwV.Gen.C22.readSearchCond = "t <= lastTs" ∧
    SwV.Gen.C22.readSearchHitCond = "prevT <= lastTs" ∧
    SwV.Gen.C22.locateCond = "t > lastReadTs" := by decide

/-- the functions modelled statement by statement (`copyToFlush`, `fack`, `memLoop`) are unchanged; `SealBuffer` is pinned
    at its REPAIRED text (the oldest byte slice is recycled, see findings.json) -/
theorem bridge_pins :
    SwV.Gen.C22.src_SealBuffer = "49ef37a949883d36" ∧ SwV.Gen.C22.src_copyToFlush = "200cfaf5ef2d87a1" ∧
    SwV.Gen.C22.src_loopFlush = "548e8b458718ff9a" ∧ SwV.Gen.C22.src_LoopProcessLogData = "3a30c65e01c32225" := by decide

/-- the disk path: the flush interval of the production buffer, the name a segment file gets (minute of the
    buffer's START time), the by-name skipping of `ReadPersistedLogBuffer` and the `TsNs > start` filter of
    `ReadEachLogEntry` are the ones Model/C22Disk mirrors (`prodCfg`, `logFlush`, `selected`, `readSeg`) -/
theorem bridge_disk :
    SwV.Gen.C22.LogFlushInterval = prodCfg.interval ∧
    SwV.Gen.C22.flushNameFormat = "\"%s/%04d-%02d-%02d/%02d-%02d.segment\"" ∧
    SwV.Gen.C22.flushNameHour = "startTime.Hour()" ∧ SwV.Gen.C22.flushNameMinute = "startTime.Minute()" ∧
    SwV.Gen.C22.diskSkipDayCond = "dayEntry.Name() == startDate" ∧
    SwV.Gen.C22.diskSkipCond = "strings.Compare(hourMinuteEntry.Name(), startHourMinute) < 0" ∧
    SwV.Gen.C22.diskEntryCond = "logEntry.TsNs <= ns" := by decide

theorem bridge_disk_pins :
    SwV.Gen.C22.src_logFlushFunc = "8ce3841f445d052e" ∧ SwV.Gen.C22.src_ReadPersistedLogBuffer = "e841cfed381c635c" ∧
    SwV.Gen.C22.src_ReadEachLogEntry = "c596ed5be434ba36" ∧ SwV.Gen.C22.src_appendToFile = "c1e53426675633a4" := by decide

end SwV.Props.C22
