/-
C29 — S3 keys never escape their bucket.

FULL STATEMENT: for every bucket B and every string x a client can send (key, upload id, batch-delete
name), the filer path the handlers resolve — `filepath.Clean(/buckets/B[/.uploads]/x)`, the router cleans
nothing (`SkipClean(true)`, validated end to end by the correspondence runs) — has `/buckets/B` as a
component-wise prefix.                                                          (path_contained)

It is FALSE of the code (`upload_id_escapes`, `batch_name_escapes`, `key_escapes_after_percent_decoding`,
`copy_source_escapes_buckets_dir`, `complete_key_escapes`, by `decide`; the same strings are replayed on the real router in
corpus/C29/witnesses.ops, where another bucket is read, deleted, and directories are created outside).

PROVED for all inputs (`path_contained_partial`): if no segment of x is ".." the resolved path stays
below the base directory, whatever else x contains ("", ".", ".uploads", names of other buckets, any
bytes) — so ".." segments (after percent-decoding) are exactly the excluded inputs.
-/
import SwV.Model.C29
import SwV.Spec.C29
import SwV.Gen.C29
namespace SwV.Props.C29
open SwV.Model.C19 (Bytes)
open SwV.Model.C29 SwV.Spec.C29

theorem cleanAux_no_dotdot : ∀ (xs acc : List Bytes), (∀ s ∈ xs, s ≠ dotdot) →
    cleanAux acc xs = acc.reverse ++ xs.filter normal
  | [], acc, _ => by simp [cleanAux]
  | s :: rest, acc, h => by
    have hs : s ≠ dotdot := h s (by simp)
    have ih := fun acc' => cleanAux_no_dotdot rest acc' (fun t ht => h t (by simp [ht]))
    unfold cleanAux
    by_cases h1 : s = [] ∨ s = dot
    · have : normal s = false := by
        cases h1 with
        | inl e => subst e; rfl
        | inr e => subst e; rfl
      simp [h1, ih, this]
    · have hn : normal s = true := by
        simp only [not_or] at h1
        simp [normal, h1.1, h1.2, hs]
      simp [h1, hs, ih, hn]

/-- MAIN (partial): without ".." segments the cleaned path keeps the base directory as a prefix. -/
theorem path_contained_partial (base xs : List Bytes) (hb : ∀ s ∈ base, normal s = true) (hx : ∀ s ∈ xs, s ≠ dotdot) :
    clean (base ++ xs) = base ++ xs.filter normal ∧ isPrefixOf base (clean (base ++ xs)) = true := by
  have hbd : ∀ s ∈ base, s ≠ dotdot := by
    intro s hs e; have := hb s hs; rw [e] at this; revert this; decide
  have h1 : clean (base ++ xs) = base ++ xs.filter normal := by
    unfold clean
    rw [cleanAux_no_dotdot (base ++ xs) [] (by
      intro s hs
      cases List.mem_append.1 hs with
      | inl h => exact hbd s h
      | inr h => exact hx s h)]
    simp only [List.reverse_nil, List.nil_append, List.filter_append]
    congr 1
    exact List.filter_eq_self.2 hb
  refine ⟨h1, ?_⟩
  rw [h1]
  simp [isPrefixOf]

/-- the bucket directory, the uploads folder below it: both are legitimate bases -/
theorem bucket_base_normal (b : Bytes) (h : normal b = true) :
    (∀ s ∈ [buckets, b], normal s = true) ∧ (∀ s ∈ [buckets, b, uploads], normal s = true) := by
  have h1 : normal buckets = true := by decide
  have h2 : normal uploads = true := by decide
  constructor
  · intro s hs; simp at hs; rcases hs with e | e <;> simp [e, h, h1]
  · intro s hs; simp at hs; rcases hs with e | e | e <;> simp [e, h, h1, h2]

/-- corollary for the request model: a request none of whose strings contains a ".." segment
    (after percent-decoding of the key) addresses only paths inside the bucket -/
theorem object_route_contained (b key : Bytes) (hb : normal b = true)
    (hk : ∀ s ∈ splitSlash (pctDecode key), s ≠ dotdot) :
    contained b [clean ([buckets, b] ++ splitSlash (pctDecode key))] = true := by
  simp only [contained, List.all_cons, List.all_nil, Bool.and_true]
  exact (path_contained_partial [buckets, b] _ (bucket_base_normal b hb).1 hk).2

def s (x : String) : Bytes := x.toList.map Char.toNat

example : ∀ t ∈ splitSlash (pctDecode (s "a//./.uploads/other/%2F")), t ≠ dotdot := by decide

/-! ### refutations of the full statement (the known findings) -/

theorem upload_id_escapes :
    clean ([buckets, s "bkt", uploads] ++ splitSlash (s "../../other")) = [buckets, s "other"] := by decide

theorem batch_name_escapes :
    clean ([buckets, s "bkt"] ++ splitSlash (s "../../topsecret")) = [s "topsecret"] := by decide

theorem key_escapes_after_percent_decoding :
    contained (s "bkt") (addressed (s "bkt") "get" (s "%2e%2e/other/secret") [] []) = false := by decide

theorem copy_source_escapes_buckets_dir :
    clean ([buckets] ++ splitSlash (pctDecode (s "bkt/../../etc/secret"))) = [s "etc", s "secret"] := by decide

/-- CompleteMultipartUpload: the upload id is a plain name below `.uploads`, the KEY carries the "..":
    the completed object is addressed at /buckets/newbkt/obj (finding CompleteMultipartUploadHandler/writes-outside-bucket;
    the filer creates the cleaned parent chain, i.e. the directory /buckets/newbkt) -/
theorem complete_key_escapes :
    addressed (s "bkt") "mpdone" (s "../newbkt/obj") (s "up1") []
      = [[buckets, s "bkt", uploads, s "up1"], [buckets, s "newbkt", s "obj"]] ∧
    contained (s "bkt") (addressed (s "bkt") "mpdone" (s "../newbkt/obj") (s "up1") []) = false ∧
    reqJudge "mpdone" (s "../newbkt/obj") [] [s "/buckets/newbkt"] [s "/buckets/newbkt"] [s "/buckets/newbkt"]
      = some "CompleteMultipartUploadHandler/writes-outside-bucket" ∧
    reqJudge "mpdone" (s "../other/d/planted") [] [s "/buckets/other/d"] [] []
      = some "CompleteMultipartUploadHandler/reads-outside-bucket" := by decide

/-- helpers agree with what the judge assumes -/
theorem uploads_folder_shape (b : Bytes) : genUploadsFolder b = joinSegs [buckets, b, uploads] := by
  simp [genUploadsFolder, joinSegs]

/-! ## T1 bridges: facts regenerated from the source by `extract` (props/C29/extract.json → `SwV.Gen.C29`)

Each theorem states the text of a filer-path / filer-URL construction site as it stands in the working tree
together with the model equation that mirrors it; an edit to the Go code changes the generated string and
breaks the theorem of that name. -/

/-- `getBucketAndObject` (the object always starts with "/") and `urlPathEscape` (escape every "/"-separated
    part, keep the separators: the filer sees the same segments after decoding) -/
theorem bridge_request_to_key :
    SwV.Gen.C29.gbo_bucket = "bucket = vars[\"bucket\"]" ∧ SwV.Gen.C29.gbo_object = "object = vars[\"object\"]" ∧
    SwV.Gen.C29.gbo_no_lead_slash = "!strings.HasPrefix(object, \"/\")" ∧
    SwV.Gen.C29.gbo_add_lead_slash = "object = \"/\" + object" ∧
    SwV.Gen.C29.esc_split_what = "object" ∧ SwV.Gen.C29.esc_split_sep = "\"/\"" ∧
    SwV.Gen.C29.esc_part = "part" ∧ SwV.Gen.C29.esc_join_sep = "\"/\"" := by decide

/-- the object routes PUT / GET / HEAD / DELETE / POST-policy address `BucketsPath/bucket` + escaped key
    (model: route default case of `addressed`) -/
theorem bridge_object_urls :
    SwV.Gen.C29.put_url = "uploadUrl := fmt.Sprintf(\"http://%s%s/%s%s\", s3a.option.Filer, s3a.option.BucketsPath, bucket, urlPathEscape(object))" ∧
    SwV.Gen.C29.get_url = "destUrl := fmt.Sprintf(\"http://%s%s/%s%s\", s3a.option.Filer, s3a.option.BucketsPath, bucket, urlPathEscape(object))" ∧
    SwV.Gen.C29.head_url = "destUrl := fmt.Sprintf(\"http://%s%s/%s%s\", s3a.option.Filer, s3a.option.BucketsPath, bucket, urlPathEscape(object))" ∧
    SwV.Gen.C29.delete_url = "destUrl := fmt.Sprintf(\"http://%s%s/%s%s?recursive=true\", s3a.option.Filer, s3a.option.BucketsPath, bucket, urlPathEscape(object))" ∧
    SwV.Gen.C29.post_url = "uploadUrl := fmt.Sprintf(\"http://%s%s/%s%s\", s3a.option.Filer, s3a.option.BucketsPath, bucket, urlPathEscape(object))" ∧
    (∀ (b key uid : Bytes) (names : List Bytes),
      addressed b "put" key uid names = [clean ([buckets, b] ++ splitSlash (pctDecode key))] ∧
      addressed b "get" key uid names = [clean ([buckets, b] ++ splitSlash (pctDecode key))] ∧
      addressed b "del" key uid names = [clean ([buckets, b] ++ splitSlash (pctDecode key))]) :=
  ⟨rfl, rfl, rfl, rfl, rfl, fun _ _ _ _ => ⟨rfl, rfl, rfl⟩⟩

/-- `genUploadsFolder` and the multipart routes (`BucketsPath/bucket/.uploads` + "/" + upload id) -/
theorem bridge_uploads_folder :
    SwV.Gen.C29.uploads_fmt = "\"%s/%s/.uploads\"" ∧ SwV.Gen.C29.uploads_root = "s3a.option.BucketsPath" ∧
    SwV.Gen.C29.uploads_bucket = "bucket" ∧
    String.ofList (uploads.map Char.ofNat) = ".uploads" ∧ String.ofList (buckets.map Char.ofNat) = "buckets" ∧
    (∀ b : Bytes, genUploadsFolder b = [slash] ++ buckets ++ [slash] ++ b ++ [slash] ++ uploads) ∧
    SwV.Gen.C29.part_url = "uploadUrl := fmt.Sprintf(\"http://%s%s/%s/%04d.part?collection=%s\", s3a.option.Filer, s3a.genUploadsFolder(bucket), uploadID, partID, bucket)" ∧
    SwV.Gen.C29.part_exists_dir = "s3a.genUploadsFolder(bucket)" ∧ SwV.Gen.C29.part_exists_name = "uploadID" ∧
    SwV.Gen.C29.copypart_dst_url = "dstUrl := fmt.Sprintf(\"http://%s%s/%s/%04d.part?collection=%s\", s3a.option.Filer, s3a.genUploadsFolder(dstBucket), uploadID, partID, dstBucket)" ∧
    SwV.Gen.C29.done_upload_dir = "uploadDirectory := s3a.genUploadsFolder(*input.Bucket) + \"/\" + *input.UploadId" ∧
    SwV.Gen.C29.done_rm_dir = "s3a.genUploadsFolder(*input.Bucket)" ∧ SwV.Gen.C29.done_rm_name = "*input.UploadId" ∧
    SwV.Gen.C29.abort_exists_dir = "s3a.genUploadsFolder(*input.Bucket)" ∧ SwV.Gen.C29.abort_exists_name = "*input.UploadId" ∧
    SwV.Gen.C29.abort_rm_dir = "s3a.genUploadsFolder(*input.Bucket)" ∧ SwV.Gen.C29.abort_rm_name = "*input.UploadId" ∧
    SwV.Gen.C29.parts_list_dir = "s3a.genUploadsFolder(*input.Bucket) + \"/\" + *input.UploadId" ∧
    (∀ (b key uid : Bytes) (names : List Bytes),
      addressed b "mpabort" key uid names = [clean ([buckets, b] ++ [uploads] ++ splitSlash uid)] ∧
      addressed b "mppart" key uid names = [clean ([buckets, b] ++ [uploads] ++ splitSlash uid)] ∧
      addressed b "mplist" key uid names = [clean ([buckets, b] ++ [uploads] ++ splitSlash uid)] ∧
      addressed b "mpdone" key uid names =
        [clean ([buckets, b] ++ [uploads] ++ splitSlash uid), clean ([buckets, b] ++ splitSlash (pctDecode key))]) :=
  ⟨rfl, rfl, rfl, by decide, by decide, fun _ => rfl, rfl, rfl, rfl, rfl,
   rfl, rfl, rfl, rfl, rfl, rfl, rfl, rfl,
   fun _ _ _ _ => ⟨rfl, rfl, rfl, rfl⟩⟩

/-- CompleteMultipartUpload writes the final object at `BucketsPath/bucket/Dir(key)` + "/" + `Base(key)` -/
theorem bridge_complete_target :
    SwV.Gen.C29.done_entry_name = "entryName := filepath.Base(*input.Key)" ∧
    SwV.Gen.C29.done_dir_name = "dirName := filepath.Dir(*input.Key)" ∧
    SwV.Gen.C29.done_full_dir = "dirName = fmt.Sprintf(\"%s/%s/%s\", s3a.option.BucketsPath, *input.Bucket, dirName)" ∧
    SwV.Gen.C29.done_mkfile_dir = "dirName" ∧ SwV.Gen.C29.done_mkfile_name = "entryName" :=
  ⟨rfl, rfl, rfl, rfl, rfl⟩

/-- copy sources: `pathToBucketAndObject` and the source / destination URLs -/
theorem bridge_copy_source :
    SwV.Gen.C29.p2bo_trim = "path = strings.TrimPrefix(path, \"/\")" ∧
    SwV.Gen.C29.p2bo_split = "parts := strings.SplitN(path, \"/\", 2)" ∧
    SwV.Gen.C29.p2bo_has_object = "len(parts) == 2" ∧
    SwV.Gen.C29.copy_src_split = "srcBucket, srcObject := pathToBucketAndObject(cpSrcPath)" ∧
    SwV.Gen.C29.copy_dst_url = "dstUrl := fmt.Sprintf(\"http://%s%s/%s%s?collection=%s\", s3a.option.Filer, s3a.option.BucketsPath, dstBucket, dstObject, dstBucket)" ∧
    SwV.Gen.C29.copy_src_url = "srcUrl := fmt.Sprintf(\"http://%s%s/%s%s\", s3a.option.Filer, s3a.option.BucketsPath, srcBucket, srcObject)" ∧
    SwV.Gen.C29.copypart_src_split = "srcBucket, srcObject := pathToBucketAndObject(cpSrcPath)" ∧
    SwV.Gen.C29.copypart_src_url = "srcUrl := fmt.Sprintf(\"http://%s%s/%s%s\", s3a.option.Filer, s3a.option.BucketsPath, srcBucket, srcObject)" ∧
    (∀ (p b o : Bytes), cutFirstSlash (if p.head? = some slash then p.drop 1 else p) = some (b, o) →
      pathToBucketAndObject p = (b, [slash] ++ o)) ∧
    (∀ (p : Bytes), cutFirstSlash (if p.head? = some slash then p.drop 1 else p) = none →
      pathToBucketAndObject p = ((if p.head? = some slash then p.drop 1 else p), [slash])) := by
  refine ⟨rfl, rfl, rfl, rfl, rfl, rfl, rfl, rfl, ?_, ?_⟩
  · intro p b o h; simp only [pathToBucketAndObject, h]
  · intro p h; simp only [pathToBucketAndObject, h]

/-- batch delete: every listed name is resolved below `BucketsPath/bucket` (model route "bdel") -/
theorem bridge_batch_delete :
    SwV.Gen.C29.bdel_last_sep = "lastSeparator := strings.LastIndex(object.ObjectName, \"/\")" ∧
    SwV.Gen.C29.bdel_has_dir = "lastSeparator > 0 && lastSeparator+1 < len(object.ObjectName)" ∧
    SwV.Gen.C29.bdel_name = "entryName = object.ObjectName[lastSeparator+1:]" ∧
    SwV.Gen.C29.bdel_dir = "parentDirectoryPath = \"/\" + object.ObjectName[:lastSeparator]" ∧
    SwV.Gen.C29.bdel_full_dir = "parentDirectoryPath = fmt.Sprintf(\"%s/%s%s\", s3a.option.BucketsPath, bucket, parentDirectoryPath)" ∧
    SwV.Gen.C29.bdel_call_dir = "parentDirectoryPath" ∧ SwV.Gen.C29.bdel_call_name = "entryName" ∧
    (∀ (b key uid : Bytes) (names : List Bytes),
      addressed b "bdel" key uid names = names.map fun n => clean ([buckets, b] ++ splitSlash n)) :=
  ⟨rfl, rfl, rfl, rfl, rfl, rfl, rfl, fun _ _ _ _ => rfl⟩

/-- weakest supplement: hashes of the whole mirrored functions; `util.JoinPath` / `util.Join` (= `clean`) is
    where every filer entry point resolves `directory + "/" + name` -/
theorem bridge_pins :
    SwV.Gen.C29.src_getBucketAndObject = "5930b7fd405180b1" ∧ SwV.Gen.C29.src_urlPathEscape = "e3d53def12d52dca" ∧
    SwV.Gen.C29.src_genUploadsFolder = "642f7a8fe1ad052c" ∧ SwV.Gen.C29.src_pathToBucketAndObject = "f0b67e2a47959e2d" ∧
    SwV.Gen.C29.src_GetObjectHandler = "5cb3c0048f36219d" ∧ SwV.Gen.C29.src_HeadObjectHandler = "9b148520d9b7927b" ∧
    SwV.Gen.C29.src_DeleteObjectHandler = "38edd39c6fcc0bad" ∧ SwV.Gen.C29.src_DirAndName = "e60a0f7d0a5a6e53" ∧
    SwV.Gen.C29.src_JoinPath = "d79f570ab2892ed9" ∧ SwV.Gen.C29.src_Join = "4f2a33a966f6ce1f" := by decide

end SwV.Props.C29
