/-
C29 — S3 keys never escape their bucket.

FULL STATEMENT: for every bucket B and every string x a client can send (key, upload id, batch-delete
name), the filer path the handlers resolve — `filepath.Clean(/buckets/B[/.uploads]/x)`, the router cleans
nothing (`SkipClean(true)`, validated end to end by the correspondence runs) — has `/buckets/B` as a
component-wise prefix.                                                          (path_contained)

It is FALSE of the code (`upload_id_escapes`, `batch_name_escapes`, `key_escapes_after_percent_decoding`,
`copy_source_escapes_buckets_dir`, by `decide`; the same strings are replayed on the real router in
corpus/C29/witnesses.ops, where another bucket is read, deleted, and directories are created outside).

PROVED for all inputs (`path_contained_partial`): if no segment of x is ".." the resolved path stays
below the base directory, whatever else x contains ("", ".", ".uploads", names of other buckets, any
bytes) — so ".." segments (after percent-decoding) are exactly the excluded inputs.
-/
import SwV.Model.C29
import SwV.Spec.C29
namespace SwV.Props.C29
open SwV.Model.C19 (Bytes)
open SwV.Model.C29 SwV.Spec.C29

theorem cleanAux_no_dotdot : ∀ (xs acc : List Bytes), (∀ s ∈ xs, s ≠ dotdot) →
    cleanAux acc xs = acc.reverse ++ xs.filter normal
  | [], acc, _ => by simp [cleanAux]
  | s :: rest, acc, h => by
    have hs : s ≠ dotdot := h s (by simp)
    have ih := fun acc' => cleanAux_no_dotdot rest acc' (fun t ht => h t (by simp [ht]))
    unfold cleanAux
    by_cases h1 : s = [] ∨ s = dot
    · have : normal s = false := by
        cases h1 with
        | inl e => subst e; rfl
        | inr e => subst e; rfl
      simp [h1, ih, this]
    · have hn : normal s = true := by
        simp only [not_or] at h1
        simp [normal, h1.1, h1.2, hs]
      simp [h1, hs, ih, hn]

/-- MAIN (partial): without ".." segments the cleaned path keeps the base directory as a prefix. -/
theorem path_contained_partial (base xs : List Bytes) (hb : ∀ s ∈ base, normal s = true) (hx : ∀ s ∈ xs, s ≠ dotdot) :
    clean (base ++ xs) = base ++ xs.filter normal ∧ isPrefixOf base (clean (base ++ xs)) = true := by
  have hbd : ∀ s ∈ base, s ≠ dotdot := by
    intro s hs e; have := hb s hs; rw [e] at this; revert this; decide
  have h1 : clean (base ++ xs) = base ++ xs.filter normal := by
    unfold clean
    rw [cleanAux_no_dotdot (base ++ xs) [] (by
      intro s hs
      cases List.mem_append.1 hs with
      | inl h => exact hbd s h
      | inr h => exact hx s h)]
    simp only [List.reverse_nil, List.nil_append, List.filter_append]
    congr 1
    exact List.filter_eq_self.2 hb
  refine ⟨h1, ?_⟩
  rw [h1]
  simp [isPrefixOf]

/-- the bucket directory, the uploads folder below it: both are legitimate bases -/
theorem bucket_base_normal (b : Bytes) (h : normal b = true) :
    (∀ s ∈ [buckets, b], normal s = true) ∧ (∀ s ∈ [buckets, b, uploads], normal s = true) := by
  have h1 : normal buckets = true := by decide
  have h2 : normal uploads = true := by decide
  constructor
  · intro s hs; simp at hs; rcases hs with e | e <;> simp [e, h, h1]
  · intro s hs; simp at hs; rcases hs with e | e | e <;> simp [e, h, h1, h2]

/-- corollary for the request model: a request none of whose strings contains a ".." segment
    (after percent-decoding of the key) addresses only paths inside the bucket -/
theorem object_route_contained (b key : Bytes) (hb : normal b = true)
    (hk : ∀ s ∈ splitSlash (pctDecode key), s ≠ dotdot) :
    contained b [clean ([buckets, b] ++ splitSlash (pctDecode key))] = true := by
  simp only [contained, List.all_cons, List.all_nil, Bool.and_true]
  exact (path_contained_partial [buckets, b] _ (bucket_base_normal b hb).1 hk).2

def s (x : String) : Bytes := x.toList.map Char.toNat

example : ∀ t ∈ splitSlash (pctDecode (s "a//./.uploads/other/%2F")), t ≠ dotdot := by decide

/-! ### refutations of the full statement (the known findings) -/

theorem upload_id_escapes :
    clean ([buckets, s "bkt", uploads] ++ splitSlash (s "../../other")) = [buckets, s "other"] := by decide

theorem batch_name_escapes :
    clean ([buckets, s "bkt"] ++ splitSlash (s "../../topsecret")) = [s "topsecret"] := by decide

theorem key_escapes_after_percent_decoding :
    contained (s "bkt") (addressed (s "bkt") "get" (s "%2e%2e/other/secret") [] []) = false := by decide

theorem copy_source_escapes_buckets_dir :
    clean ([buckets] ++ splitSlash (pctDecode (s "bkt/../../etc/secret"))) = [s "etc", s "secret"] := by decide

/-- helpers agree with what the judge assumes -/
theorem uploads_folder_shape (b : Bytes) : genUploadsFolder b = joinSegs [buckets, b, uploads] := by
  simp [genUploadsFolder, joinSegs]

end SwV.Props.C29
