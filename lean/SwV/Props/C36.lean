/-
C36 — property theorems about the string model of the replication path decisions
(SwV/Model/C36.lean; tied to Replicator.Replicate and genProcessFunction by the correspondence check).
-/
import SwV.Model.C36
import SwV.Spec.C36

namespace SwV.Props.C36
open SwV.Model.C36 SwV.Spec.C36

/-- splitting into components commutes with cutting at a slash -/
theorem compsAux_append_slash (a b cur : Str) : compsAux (a ++ '/' :: b) cur = compsAux a cur ++ comps b := by
  induction a generalizing cur with
  | nil =>
    simp only [List.nil_append, compsAux, if_true, comps]
    by_cases h : cur = [] <;> simp [h]
  | cons c cs ih =>
    simp only [List.cons_append, compsAux]
    by_cases hc : c = '/'
    · simp only [hc, if_true]
      by_cases h : cur = [] <;> simp [h, ih]
    · simp only [hc, if_false, ih]

theorem comps_append_slash (a b : Str) : comps (a ++ '/' :: b) = comps a ++ comps b :=
  compsAux_append_slash a b []

/-- FULL-STRENGTH statement "a change is applied iff its path is inside the source directory
    (component-wise)" is FALSE of the model and of the code: `strings.HasPrefix(key, dir)` accepts the
    sibling `/data2/x` for the source `/data` and mirrors it to `/backup/2/x` (known findings
    */replicates-sibling-of-source-dir). -/
theorem maps_inside_ignores_outside_witness :
    inside "/data".toList "/data2/x".toList = false ∧
    replicate "/data".toList "/backup".toList false false true false "/data2/x".toList none (some false) "/data2".toList
      = [.create "/backup/2/x".toList] ∧
    syncEv "/data".toList "/backup".toList false true "/data2".toList none (some (false, "x".toList)) "/data2".toList
      = some [.create "/backup/2/x".toList] := by decide

/-- PARTIAL: whatever the code accepts is inside the source directory, EXCEPT when the accepted path
    continues the source directory's last name (hypothesis `hb` names exactly the excluded inputs: the
    source path ends with a slash, or the path is the source path, or the next character is a slash) -/
theorem accepted_is_inside_partial (src key : Str) (h : hasPrefix key src = true)
    (hb : (∃ d, src = d ++ ['/']) ∨ key = src ∨ (key.drop src.length).head? = some '/') :
    inside src key = true := by
  simp only [hasPrefix, List.isPrefixOf_iff_prefix] at h
  obtain ⟨rest, rfl⟩ := h
  simp only [inside, List.isPrefixOf_iff_prefix]
  rcases hb with ⟨d, rfl⟩ | hk | hs
  · have h1 : comps (d ++ ['/']) = comps d := by
      have := comps_append_slash d []
      simpa [comps, compsAux] using this
    have h2 : comps (d ++ ['/'] ++ rest) = comps d ++ comps rest := by
      have := comps_append_slash d rest
      simpa using this
    rw [h1, h2]; exact List.prefix_append _ _
  · have : rest = [] := by
      have := congrArg List.length hk
      simpa using this
    subst this; simp
  · simp only [List.drop_left] at hs
    cases rest with
    | nil => simp at hs
    | cons c r =>
      simp only [List.head?_cons, Option.some.injEq] at hs
      subst hs
      rw [comps_append_slash]; exact List.prefix_append _ _

/-- what is not even a string prefix is ignored: no sink call at all -/
theorem ignores_non_prefix (src snk : Str) (isFiler incr found fromOther : Bool) (key : Str) (old new : Option Bool) (np : Str)
    (h : hasPrefix key src = false) : replicate src snk isFiler incr found fromOther key old new np = [] := by
  simp [replicate, h]

/-- a path outside by components whose first differing component does not merely extend the source
    directory's last name is ignored (contrapositive reading of the partial theorem for `/dat/x`, `/x`, …) -/
theorem ignores_outside_partial (src snk : Str) (isFiler incr found fromOther : Bool) (key : Str) (old new : Option Bool) (np : Str)
    (hout : inside src key = false)
    (hb : (∃ d, src = d ++ ['/']) ∨ key = src ∨ (key.drop src.length).head? = some '/' ∨ hasPrefix key src = false) :
    replicate src snk isFiler incr found fromOther key old new np = [] := by
  by_cases h : hasPrefix key src = true
  · rcases hb with h1 | h2 | h3 | h4
    · have := accepted_is_inside_partial src key h (Or.inl h1); simp [this] at hout
    · have := accepted_is_inside_partial src key h (Or.inr (Or.inl h2)); simp [this] at hout
    · have := accepted_is_inside_partial src key h (Or.inr (Or.inr h3)); simp [this] at hout
    · simp [h] at h4
  · exact ignores_non_prefix _ _ _ _ _ _ _ _ _ _ (by simpa using h)

/-- changes that originated from the other cluster are never re-applied through a filer sink -/
theorem no_reapply_from_target (src snk : Str) (incr found : Bool) (key : Str) (old new : Option Bool) (np : Str) :
    replicate src snk true incr found true key old new np = [] := by
  simp [replicate]

/-- FULL-STRENGTH "a rename from outside into the source directory creates the entry" is FALSE for the
    sync process function: the event is dropped by the first guard (known finding
    genProcessFunction/ignores-rename-into-source-dir); and a rename whose new parent is shorter than the
    source path panics (genProcessFunction/panics) -/
theorem sync_rename_into_ignored_witness :
    syncEv "/data".toList "/backup".toList false true "/dat".toList (some (false, "x".toList)) (some (false, "x".toList)) "/data".toList = some [] ∧
    syncEv "/data/".toList "/backup".toList false true "/data/d".toList (some (false, "y".toList)) (some (false, "x".toList)) "/data".toList = none := by
  decide

example : hasPrefix "/data/x".toList "/data".toList = true ∧ ("/data/x".toList.drop "/data".toList.length).head? = some '/' := by decide

end SwV.Props.C36
