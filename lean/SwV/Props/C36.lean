/-
C36 — property theorems about the string model of the replication path decisions
(SwV/Model/C36.lean; tied to Replicator.Replicate and genProcessFunction by the correspondence check).
-/
import SwV.Model.C36
import SwV.Spec.C36
import SwV.Lemmas.C36
import SwV.Gen.C36

namespace SwV.Props.C36
open SwV.Model.C36 SwV.Spec.C36

/-- splitting into components commutes with cutting at a slash -/
theorem compsAux_append_slash (a b cur : Str) : compsAux (a ++ '/' :: b) cur = compsAux a cur ++ comps b := by
  induction a generalizing cur with
  | nil =>
    simp only [List.nil_append, compsAux, if_true, comps]
    by_cases h : cur = [] <;> simp [h]
  | cons c cs ih =>
    simp only [List.cons_append, compsAux]
    by_cases hc : c = '/'
    · simp only [hc, if_true]
      by_cases h : cur = [] <;> simp [h, ih]
    · simp only [hc, if_false, ih]

theorem comps_append_slash (a b : Str) : comps (a ++ '/' :: b) = comps a ++ comps b :=
  compsAux_append_slash a b []

/-- FULL-STRENGTH statement "a change is applied iff its path is inside the source directory
    (component-wise)" is FALSE of the model and of the code: `strings.HasPrefix(key, dir)` accepts the
    sibling `/data2/x` for the source `/data` and mirrors it to `/backup/2/x` (known findings
    */replicates-sibling-of-source-dir). -/
theorem maps_inside_ignores_outside_witness :
    inside "/data".toList "/data2/x".toList = false ∧
    replicate "/data".toList "/backup".toList false false true false "/data2/x".toList none (some false) "/data2".toList
      = [.create "/backup/2/x".toList] ∧
    syncEv "/data".toList "/backup".toList false true "/data2".toList none (some (false, "x".toList)) "/data2".toList
      = some [.create "/backup/2/x".toList] := by decide

/-- PARTIAL: whatever the code accepts is inside the source directory, EXCEPT when the accepted path
    continues the source directory's last name (hypothesis `hb` names exactly the excluded inputs: the
    source path ends with a slash, or the path is the source path, or the next character is a slash) -/
theorem accepted_is_inside_partial (src key : Str) (h : hasPrefix key src = true)
    (hb : (∃ d, src = d ++ ['/']) ∨ key = src ∨ (key.drop src.length).head? = some '/') :
    inside src key = true := by
  simp only [hasPrefix, List.isPrefixOf_iff_prefix] at h
  obtain ⟨rest, rfl⟩ := h
  simp only [inside, List.isPrefixOf_iff_prefix]
  rcases hb with ⟨d, rfl⟩ | hk | hs
  · have h1 : comps (d ++ ['/']) = comps d := by
      have := comps_append_slash d []
      simpa [comps, compsAux] using this
    have h2 : comps (d ++ ['/'] ++ rest) = comps d ++ comps rest := by
      have := comps_append_slash d rest
      simpa using this
    rw [h1, h2]; exact List.prefix_append _ _
  · have : rest = [] := by
      have := congrArg List.length hk
      simpa using this
    subst this; simp
  · simp only [List.drop_left] at hs
    cases rest with
    | nil => simp at hs
    | cons c r =>
      simp only [List.head?_cons, Option.some.injEq] at hs
      subst hs
      rw [comps_append_slash]; exact List.prefix_append _ _

/-- what is not even a string prefix is ignored: no sink call at all -/
theorem ignores_non_prefix (src snk : Str) (isFiler incr found fromOther : Bool) (key : Str) (old new : Option Bool) (np : Str)
    (h : hasPrefix key src = false) : replicate src snk isFiler incr found fromOther key old new np = [] := by
  simp [replicate, h]

/-- a path outside by components whose first differing component does not merely extend the source
    directory's last name is ignored (contrapositive reading of the partial theorem for `/dat/x`, `/x`, …) -/
theorem ignores_outside_partial (src snk : Str) (isFiler incr found fromOther : Bool) (key : Str) (old new : Option Bool) (np : Str)
    (hout : inside src key = false)
    (hb : (∃ d, src = d ++ ['/']) ∨ key = src ∨ (key.drop src.length).head? = some '/' ∨ hasPrefix key src = false) :
    replicate src snk isFiler incr found fromOther key old new np = [] := by
  by_cases h : hasPrefix key src = true
  · rcases hb with h1 | h2 | h3 | h4
    · have := accepted_is_inside_partial src key h (Or.inl h1); simp [this] at hout
    · have := accepted_is_inside_partial src key h (Or.inr (Or.inl h2)); simp [this] at hout
    · have := accepted_is_inside_partial src key h (Or.inr (Or.inr h3)); simp [this] at hout
    · simp [h] at h4
  · exact ignores_non_prefix _ _ _ _ _ _ _ _ _ _ (by simpa using h)

/-- changes that originated from the other cluster are never re-applied through a filer sink -/
theorem no_reapply_from_target (src snk : Str) (incr found : Bool) (key : Str) (old new : Option Bool) (np : Str) :
    replicate src snk true incr found true key old new np = [] := by
  simp [replicate]

/-- FULL-STRENGTH "a rename from outside into the source directory creates the entry" is FALSE for the
    sync process function: the event is dropped by the first guard (known finding
    genProcessFunction/ignores-rename-into-source-dir); and a rename whose new parent is shorter than the
    source path panics (genProcessFunction/panics) -/
theorem sync_rename_into_ignored_witness :
    syncEv "/data".toList "/backup".toList false true "/dat".toList (some (false, "x".toList)) (some (false, "x".toList)) "/data".toList = some [] ∧
    syncEv "/data/".toList "/backup".toList false true "/data/d".toList (some (false, "y".toList)) (some (false, "x".toList)) "/data".toList = none := by
  decide

example : hasPrefix "/data/x".toList "/data".toList = true ∧ ("/data/x".toList.drop "/data".toList.length).head? = some '/' := by decide

/-! ## T1 bridges: facts regenerated from the source by `extract` (props/C36/extract.json → `SwV.Gen.C36`)

Each theorem states the text of the decisive Go conditions / call arguments as they stand in the working tree
together with the model expression that mirrors them; an edit to the Go code changes the generated string and
breaks the theorem of that name. -/

/-- the two guards of `Replicator.Replicate` and the key mapping -/
theorem bridge_replicate_guards :
    SwV.Gen.C36.rep_from_other = "message.IsFromOtherCluster && r.sink.GetName() == \"filer\"" ∧
    SwV.Gen.C36.rep_outside = "!strings.HasPrefix(key, r.source.Dir)" ∧
    SwV.Gen.C36.rep_incremental = "r.sink.IsIncremental()" ∧
    SwV.Gen.C36.rep_new_key = "newKey := util.Join(r.sink.GetSinkToDirectory(), dateKey, key[len(r.source.Dir):])" ∧
    SwV.Gen.C36.rep_key_is_new_key = "key = newKey" ∧
    (∀ (src snk : Str) (isFiler incr found fromOther : Bool) (key : Str) (old new : Option Bool) (np : Str),
      (fromOther && isFiler) = true → replicate src snk isFiler incr found fromOther key old new np = []) ∧
    (∀ (src snk : Str) (isFiler incr found fromOther : Bool) (key : Str) (old new : Option Bool) (np : Str),
      (!hasPrefix key src) = true → replicate src snk isFiler incr found fromOther key old new np = []) ∧
    (∀ (src snk : Str) (isFiler incr found fromOther : Bool) (key : Str) (d : Bool) (np : Str),
      (fromOther && isFiler) = false → hasPrefix key src = true →
      replicate src snk isFiler incr found fromOther key (some d) none np =
        [.del (join [snk, dateKey incr, key.drop src.length]) d true]) := by
  refine ⟨by decide, by decide, by decide, by decide, by decide, ?_, ?_, ?_⟩
  · intro src snk isFiler incr found fromOther key old new np h
    simp [replicate, h]
  · intro src snk isFiler incr found fromOther key old new np h
    unfold replicate; simp only [h, if_true]; split <;> rfl
  · intro src snk isFiler incr found fromOther key d np h1 h2
    simp [replicate, h1, h2]

/-- which sink call `Replicate` makes, on which key, with which delete-chunks flag -/
theorem bridge_replicate_calls :
    SwV.Gen.C36.rep_is_delete = "message.OldEntry != nil && message.NewEntry == nil" ∧
    SwV.Gen.C36.rep_delete_key = "key" ∧ SwV.Gen.C36.rep_delete_chunks = "message.DeleteChunks" ∧
    SwV.Gen.C36.rep_is_create = "message.OldEntry == nil && message.NewEntry != nil" ∧
    SwV.Gen.C36.rep_create_key = "key" ∧
    SwV.Gen.C36.rep_is_empty = "message.OldEntry == nil && message.NewEntry == nil" ∧
    SwV.Gen.C36.rep_update_key = "key" ∧ SwV.Gen.C36.rep_update_parent = "message.NewParentPath" ∧
    SwV.Gen.C36.rep_found = "foundExisting" ∧
    SwV.Gen.C36.rep_fallback_delete_key = "key" ∧ SwV.Gen.C36.rep_fallback_delete_chunks = "false" ∧
    SwV.Gen.C36.rep_fallback_create_key = "key" ∧
    (∀ (src snk : Str) (incr found : Bool) (key : Str) (d n : Bool) (np : Str), hasPrefix key src = true →
      replicate src snk false incr found false key (some d) (some n) np =
        (let k := join [snk, dateKey incr, key.drop src.length]
         if found then [.update k np] else [.update k np, .del k d false, .create k])) := by
  refine ⟨by decide, by decide, by decide, by decide, by decide, by decide, by decide, by decide, by decide,
    by decide, by decide, by decide, ?_⟩
  intro src snk incr found key d n np h
  simp [replicate, h]

/-- `FullPath.Child` and `buildKey` (filer.sync / filer.backup) -/
theorem bridge_build_key :
    SwV.Gen.C36.child_cond = "strings.HasSuffix(dir, \"/\")" ∧
    SwV.Gen.C36.key_not_incremental = "!dataSink.IsIncremental()" ∧
    SwV.Gen.C36.key_plain = "key = util.Join(targetPath, string(sourceKey)[len(sourcePath):])" ∧
    SwV.Gen.C36.key_dated = "key = util.Join(targetPath, dateKey, string(sourceKey)[len(sourcePath):])" ∧
    (∀ (dir name : Str), child dir name = if dir.getLast? = some '/' then dir ++ name else dir ++ '/' :: name) ∧
    (∀ (src tgt k : Str), buildKey src tgt false k = join [tgt, k.drop src.length]) ∧
    (∀ (src tgt k : Str), buildKey src tgt true k = join [tgt, dateKey true, k.drop src.length]) :=
  ⟨by decide, by decide, by decide, by decide, fun _ _ => rfl, fun _ _ _ => rfl, fun _ _ _ => rfl⟩

/-- the guards of the filer.sync process function: directory, delete, create -/
theorem bridge_sync_guards :
    SwV.Gen.C36.sync_old_key = "sourceOldKey = util.FullPath(resp.Directory).Child(message.OldEntry.Name)" ∧
    SwV.Gen.C36.sync_new_key = "sourceNewKey = util.FullPath(message.NewParentPath).Child(message.NewEntry.Name)" ∧
    SwV.Gen.C36.sync_dir_outside = "!strings.HasPrefix(resp.Directory, sourcePath)" ∧
    SwV.Gen.C36.sync_is_delete = "message.OldEntry != nil && message.NewEntry == nil" ∧
    SwV.Gen.C36.sync_delete_outside = "!strings.HasPrefix(string(sourceOldKey), sourcePath)" ∧
    SwV.Gen.C36.sync_delete_key_src = "sourceOldKey" ∧
    SwV.Gen.C36.sync_is_create = "message.OldEntry == nil && message.NewEntry != nil" ∧
    SwV.Gen.C36.sync_create_outside = "!strings.HasPrefix(string(sourceNewKey), sourcePath)" ∧
    SwV.Gen.C36.sync_create_key_src = "sourceNewKey" ∧
    SwV.Gen.C36.sync_is_empty = "message.OldEntry == nil && message.NewEntry == nil" ∧
    (∀ (src tgt : Str) (incr found : Bool) (dir : Str) (old new : Option (Bool × Str)) (np : Str),
      (!hasPrefix dir src) = true → syncEv src tgt incr found dir old new np = some []) ∧
    (∀ (src tgt : Str) (incr found : Bool) (dir : Str) (o : Bool × Str) (np : Str), hasPrefix dir src = true →
      syncEv src tgt incr found dir (some o) none np =
        (if !hasPrefix (child dir o.2) src then some []
         else some [.del (buildKey src tgt incr (child dir o.2)) o.1 true])) ∧
    (∀ (src tgt : Str) (incr found : Bool) (dir : Str) (n : Bool × Str) (np : Str), hasPrefix dir src = true →
      syncEv src tgt incr found dir none (some n) np =
        (if !hasPrefix (child np n.2) src then some []
         else some [.create (buildKey src tgt incr (child np n.2))])) := by
  refine ⟨by decide, by decide, by decide, by decide, by decide, by decide, by decide, by decide, by decide,
    by decide, ?_, ?_, ?_⟩
  · intro src tgt incr found dir old new np h
    simp only [syncEv, h, if_true]
  · intro src tgt incr found dir o np h
    simp [syncEv, h]
  · intro src tgt incr found dir n np h
    simp [syncEv, h]

/-- the update (rename) branch of the process function -/
theorem bridge_sync_update :
    SwV.Gen.C36.sync_old_inside = "strings.HasPrefix(string(sourceOldKey), sourcePath)" ∧
    SwV.Gen.C36.sync_new_inside = "strings.HasPrefix(string(sourceNewKey), sourcePath)" ∧
    SwV.Gen.C36.sync_both_not_incremental = "!dataSink.IsIncremental()" ∧
    SwV.Gen.C36.sync_update_old_key = "oldKey := util.Join(targetPath, string(sourceOldKey)[len(sourcePath):])" ∧
    SwV.Gen.C36.sync_update_new_parent = "message.NewParentPath = util.Join(targetPath, message.NewParentPath[len(sourcePath):])" ∧
    SwV.Gen.C36.sync_update_key = "string(oldKey)" ∧ SwV.Gen.C36.sync_update_parent = "message.NewParentPath" ∧
    SwV.Gen.C36.sync_found = "foundExisting" ∧
    SwV.Gen.C36.sync_fallback_delete_key = "string(oldKey)" ∧ SwV.Gen.C36.sync_fallback_delete_chunks = "false" ∧
    SwV.Gen.C36.sync_both_create_key = "newKey := buildKey(dataSink, message, targetPath, sourceNewKey, sourcePath)" ∧
    SwV.Gen.C36.sync_both_create_arg = "newKey" ∧
    SwV.Gen.C36.sync_moved_out_not_incremental = "!dataSink.IsIncremental()" ∧
    SwV.Gen.C36.sync_moved_out_key_src = "sourceOldKey" ∧
    SwV.Gen.C36.sync_moved_in = "strings.HasPrefix(string(sourceNewKey), sourcePath)" ∧
    SwV.Gen.C36.sync_moved_in_key_src = "sourceNewKey" ∧
    (∀ (src tgt : Str) (found : Bool) (dir : Str) (o n : Bool × Str) (np : Str), hasPrefix dir src = true →
      hasPrefix (child dir o.2) src = true → hasPrefix (child np n.2) src = true → src.length ≤ np.length →
      syncEv src tgt false found dir (some o) (some n) np =
        (let oldT := join [tgt, (child dir o.2).drop src.length]
         let parent := join [tgt, np.drop src.length]
         if found then some [.update oldT parent]
         else some [.update oldT parent, .del oldT o.1 false, .create (buildKey src tgt false (child np n.2))])) ∧
    (∀ (src tgt : Str) (incr found : Bool) (dir : Str) (o n : Bool × Str) (np : Str), hasPrefix dir src = true →
      hasPrefix (child dir o.2) src = false → hasPrefix (child np n.2) src = true →
      syncEv src tgt incr found dir (some o) (some n) np = some [.create (buildKey src tgt incr (child np n.2))]) := by
  refine ⟨by decide, by decide, by decide, by decide, by decide, by decide, by decide, by decide, by decide,
    by decide, by decide, by decide, by decide, by decide, by decide, by decide, ?_, ?_⟩
  · intro src tgt found dir o n np h1 h2 h3 h4
    have : ¬ np.length < src.length := by omega
    simp [syncEv, h1, h2, h3, this]
  · intro src tgt incr found dir o n np h1 h2 h3
    simp [syncEv, h1, h2, h3]

/-- weakest supplement: hashes of the whole mirrored functions (`escapeKey` is the identity off Windows) -/
theorem bridge_pins :
    SwV.Gen.C36.src_Replicate = "7bf4b7e35d42c8d6" ∧ SwV.Gen.C36.src_genProcessFunction = "11459a516e797fab" ∧
    SwV.Gen.C36.src_buildKey = "7cd07c41109d6a7c" ∧ SwV.Gen.C36.src_escapeKey = "6da2b6fc158f4d6a" ∧
    SwV.Gen.C36.src_Child = "b20f273dc7210176" ∧ SwV.Gen.C36.src_Join = "4f2a33a966f6ce1f" := by decide

/-! ## the mapped key, component-wise (`util.Join` / `buildKey` read as a path-component computation)

`InsideStr src p` (Lemmas/C36.lean) = the code's string test `strings.HasPrefix(p, src)` PLUS the boundary condition
(source path ends in '/', or p = src, or the next character of p is '/').  Accepted paths without the boundary
condition are exactly the recorded sibling-prefix findings (`*/replicates-sibling-of-source-dir`,
`genProcessFunction/treats-sibling-as-inside-on-rename`); the remaining hypotheses of `SyncClear` name the other
findings (first guard on the event directory: `…/ignores-rename-into-source-dir`, `…/trailing-slash-source-ignores-top-level`;
new parent inside: `…/panics`). -/

open SwV.Lemmas.C36

/-- `util.Join`, component-wise, for ALL argument lists: the components of the parts in order
    (empty parts, doubled and trailing slashes vanish) -/
theorem join_is_component_concat (parts : List Str) : comps (join parts) = parts.flatMap comps := comps_join parts

/-- MAPPED KEY (Replicator.Replicate): for every key inside the source directory the sink key is
    `sinkDir ⧸ [date] ⧸ (key relative to the source directory)`, and the sink calls are exactly those of the event kind -/
theorem mapped_key_exact_partial (src snk : Str) (isFiler incr found fromOther : Bool) (key : Str)
    (old new : Option Bool) (np : Str) (hin : InsideStr src key) (hf : (fromOther && isFiler) = false) :
    ∃ k, comps k = mappedComps src snk incr key ∧
      replicate src snk isFiler incr found fromOther key old new np =
        (match old, new with
         | some d, none => [.del k d true]
         | none, some _ => [.create k]
         | none, none => []
         | some d, some _ => if found then [.update k np] else [.update k np, .del k d false, .create k]) := by
  refine ⟨join [snk, dateKey incr, key.drop src.length], comps_mapped snk incr hin, ?_⟩
  unfold replicate
  simp only [hf, hin.1, Bool.false_eq_true, if_false, Bool.not_true]
  cases old <;> cases new <;> rfl

example : InsideStr "/data".toList "/data/d/x".toList ∧ InsideStr "/data/".toList "/data/x".toList ∧
    InsideStr "/".toList "/x".toList ∧ ¬ InsideStr "/data".toList "/data2/x".toList := by decide

/-- … hence the model passes the specification's judge on every inside event that is not filtered -/
theorem replicate_realises_spec_partial (src snk : Str) (isFiler incr found fromOther : Bool) (key : Str)
    (old new : Option Bool) (np : Str) (hin : InsideStr src key) (hf : (fromOther && isFiler) = false) :
    replJudge src snk incr false key old new (replicate src snk isFiler incr found fromOther key old new np) = none := by
  obtain ⟨k, hk, hcalls⟩ := mapped_key_exact_partial src snk isFiler incr found fromOther key old new np hin hf
  rw [hcalls]
  unfold replJudge
  by_cases hroot : atRoot src key = true
  · simp [hroot]
  · simp only [hroot, inside_of_insideStr hin, Bool.false_eq_true, if_false, Bool.not_true]
    cases old <;> cases new <;> (try cases found) <;> simp [callKeyComps, hk]

/-- the events of filer.sync / filer.backup on which path strings and path components agree -/
def SyncClear (src : Str) (incr : Bool) (dir : Str) (old new : Option (Bool × Str)) (np : Str) : Prop :=
  hasPrefix dir src = true ∧
  (∀ o, old = some o → InsideStr src (child dir o.2)) ∧
  (∀ n, new = some n → InsideStr src (child np n.2) ∨ OutsideStr src (child np n.2)) ∧
  (∀ o n, old = some o → new = some n → InsideStr src (child np n.2) → incr = false → InsideStr src np)

/-- MAPPED KEY (genProcessFunction / buildKey): create, delete, update and BOTH halves of a rename.  On a clear
    event the process function does not panic and its sink calls realise the mirror specification: the delete /
    create / update keys (and the new parent of a rename) are `target ⧸ [date] ⧸ (path relative to source)`;
    a rename out of the source directory deletes the mapped old key (non-incremental sinks). -/
theorem mapped_key_exact_sync_partial (src tgt : Str) (incr found : Bool) (dir : Str) (old new : Option (Bool × Str))
    (np : Str) (h : SyncClear src incr dir old new np) :
    ∃ cs, syncEv src tgt incr found dir old new np = some cs ∧
      realises (expectSync src tgt incr (old.map fun o => child dir o.2) (new.map fun n => child np n.2) np) cs = true := by
  obtain ⟨hdir, hold, hnew, hnp⟩ := h
  cases old with
  | none =>
    cases new with
    | none => exact ⟨[], by simp [syncEv, hdir], by simp [expectSync, realises]⟩
    | some n =>
      rcases hnew n rfl with hin | hout
      · refine ⟨[.create (buildKey src tgt incr (child np n.2))], by simp [syncEv, hdir, hin.1], ?_⟩
        simp [expectSync, inside_of_insideStr hin, realises, comps_buildKey tgt incr hin]
      · refine ⟨[], by simp [syncEv, hdir, not_prefix_of_outsideStr hout], ?_⟩
        simp [expectSync, hout.1, realises]
  | some o =>
    have hino := hold o rfl
    cases new with
    | none =>
      refine ⟨[.del (buildKey src tgt incr (child dir o.2)) o.1 true], by simp [syncEv, hdir, hino.1], ?_⟩
      simp [expectSync, inside_of_insideStr hino, realises, comps_buildKey tgt incr hino]
    | some n =>
      rcases hnew n rfl with hin | hout
      · cases incr with
        | true =>
          refine ⟨[.create (buildKey src tgt true (child np n.2))], by simp [syncEv, hdir, hino.1, hin.1], ?_⟩
          simp [expectSync, inside_of_insideStr hino, inside_of_insideStr hin, realises, comps_buildKey tgt true hin]
        | false =>
          have hnpi := hnp o n rfl rfl hin rfl
          have hlen : ¬ np.length < src.length := by
            have := hnpi.1
            simp only [hasPrefix, List.isPrefixOf_iff_prefix] at this
            have := this.length_le
            omega
          cases found with
          | true =>
            refine ⟨[.update (join [tgt, (child dir o.2).drop src.length]) (join [tgt, np.drop src.length])],
              by simp [syncEv, hdir, hino.1, hin.1, hlen], ?_⟩
            simp [expectSync, inside_of_insideStr hino, inside_of_insideStr hin, realises,
              comps_mapped_plain tgt hino, comps_mapped_plain tgt hnpi]
          | false =>
            refine ⟨[.update (join [tgt, (child dir o.2).drop src.length]) (join [tgt, np.drop src.length]),
                .del (join [tgt, (child dir o.2).drop src.length]) o.1 false,
                .create (buildKey src tgt false (child np n.2))],
              by simp [syncEv, hdir, hino.1, hin.1, hlen], ?_⟩
            simp [expectSync, inside_of_insideStr hino, inside_of_insideStr hin, realises,
              comps_mapped_plain tgt hino, comps_mapped_plain tgt hnpi, comps_buildKey tgt false hin]
      · have hnp' := not_prefix_of_outsideStr hout
        cases incr with
        | true =>
          refine ⟨[], by simp [syncEv, hdir, hino.1, hnp'], ?_⟩
          simp [expectSync, inside_of_insideStr hino, hout.1, realises]
        | false =>
          refine ⟨[.del (buildKey src tgt false (child dir o.2)) o.1 true], by simp [syncEv, hdir, hino.1, hnp'], ?_⟩
          simp [expectSync, inside_of_insideStr hino, hout.1, realises, comps_buildKey tgt false hino]

/-- a rename inside the watched tree satisfies the hypotheses (and so do its create / delete halves) -/
example : SyncClear "/data".toList false "/data/d".toList (some (false, "x".toList)) (some (false, "y".toList)) "/data/e".toList := by
  refine ⟨by decide, ?_, ?_, ?_⟩
  · intro o ho; cases ho; decide
  · intro n hn; cases hn; exact Or.inl (by decide)
  · intro o n ho hn _ _; decide

/-- … hence the judge of the correspondence check accepts the model on every clear event -/
theorem sync_realises_spec_partial (src tgt : Str) (incr found : Bool) (dir : Str) (old new : Option (Bool × Str))
    (np : Str) (h : SyncClear src incr dir old new np) :
    syncJudge src tgt incr (old.map fun o => child dir o.2) (new.map fun n => child np n.2) np
      (syncEv src tgt incr found dir old new np) = none := by
  obtain ⟨cs, hcs, hre⟩ := mapped_key_exact_sync_partial src tgt incr found dir old new np h
  rw [hcs]
  unfold syncJudge
  split
  · rfl
  · simp [hre]

/-- OUTSIDE IS IGNORED (component-wise form): an event all of whose paths are outside the source directory by
    components — and are not sibling-prefixes of it — produces no sink call, for both entry points -/
theorem outside_ignored_partial (src tgt : Str) (incr found : Bool) (dir : Str) (old new : Option (Bool × Str)) (np : Str)
    (hold : ∀ o, old = some o → OutsideStr src (child dir o.2))
    (hnew : ∀ n, new = some n → OutsideStr src (child np n.2)) :
    syncEv src tgt incr found dir old new np = some [] := by
  unfold syncEv
  by_cases hdir : hasPrefix dir src = true
  · simp only [hdir, Bool.not_true, Bool.false_eq_true, if_false]
    cases old with
    | none =>
      cases new with
      | none => rfl
      | some n => simp [not_prefix_of_outsideStr (hnew n rfl)]
    | some o =>
      cases new with
      | none => simp [not_prefix_of_outsideStr (hold o rfl)]
      | some n => simp [not_prefix_of_outsideStr (hold o rfl), not_prefix_of_outsideStr (hnew n rfl)]
  · simp [hdir]

theorem outside_ignored_replicate_partial (src snk : Str) (isFiler incr found fromOther : Bool) (key : Str)
    (old new : Option Bool) (np : Str) (hout : OutsideStr src key) :
    replicate src snk isFiler incr found fromOther key old new np = [] :=
  ignores_non_prefix _ _ _ _ _ _ _ _ _ _ (not_prefix_of_outsideStr hout)

example : OutsideStr "/data".toList "/dat/x".toList ∧ OutsideStr "/data".toList "/other/data/x".toList ∧
    ¬ OutsideStr "/data".toList "/data2/x".toList := by decide

/-! ------------------------------------------------------------------------------------------------
## LocalSink behind the process function (localsink tree comparison, `lsync` lines)

Model: `Tree`, `lsDelete` / `lsCreate` / `lsUpdate`, `lsyncRun` (Model/C36.lean); judge: `srcApply`,
`mirror`, `lsyncJudge` (Spec/C36.lean).

FULL-STRENGTH statement "after every well-formed event sequence the files below the sink directory
are exactly the mapped files of the watched subtree (`listing` restricted to files = `mirror`)" is
FALSE of the model and of the code — two witnesses below (`localsink_rename_keeps_old_path`,
`localsink_nonempty_directory_kept`); the judge reports them as
`LocalSink.UpdateEntry/rename-keeps-old-path` and `LocalSink.DeleteEntry/non-empty-directory-kept`.
------------------------------------------------------------------------------------------------ -/

/-- the judge's mapped key is the specification's `mappedComps` relative to the sink directory -/
theorem mirrorKey_eq_mappedComps (src p : Str) : mirrorKey src (comps p) = mappedComps src [] false p := by
  simp [mirrorKey, mappedComps, comps, compsAux]

/-- `LocalSink.CreateEntry` never materialises a directory entry -/
theorem lsCreate_directory_noop (t : Tree) (key : Str) : lsCreate t key true = (t, true) := by
  simp [lsCreate]

/-- `LocalSink.UpdateEntry` on a key that is a file in the sink directory (its parent being a
    directory, as the tree invariant says) answers "found" and leaves the tree as it is — for EVERY
    new parent path, which is why a rename of a mirrored file never moves it -/
theorem lsUpdate_existing_file (t : Tree) (key : Str) (hm : isMultiPart key = false)
    (hf : stat t (comps key) = .file) (hd : stat t (comps key).dropLast = .dir) :
    lsUpdate t key false = (t, true, true) := by
  simp [lsUpdate, lsCreate, fileExists, hm, hf, hd]

theorem rename_of_existing_file_keeps_tree (t : Tree) (key np : Str) (hm : isMultiPart key = false)
    (hf : stat t (comps key) = .file) (hd : stat t (comps key).dropLast = .dir) :
    lsFound t [.update key np] = true ∧ applyCalls t false [.update key np] = (t, true) := by
  simp [lsFound, applyCalls, lsUpdate_existing_file t key hm hf hd]

example : isMultiPart "/t/x".toList = false ∧ stat ⟨[["t", "x"].map String.toList], [["t"].map String.toList]⟩ (comps "/t/x".toList) = .file ∧
    stat ⟨[["t", "x"].map String.toList], [["t"].map String.toList]⟩ (comps "/t/x".toList).dropLast = .dir := by decide

def evCreateF (dir name : String) : LEv := ⟨dir.toList, none, some (false, name.toList), dir.toList⟩
def evDelete (isDir : Bool) (dir name : String) : LEv := ⟨dir.toList, some (isDir, name.toList), none, []⟩
def evRenameF (dir name dir' name' : String) : LEv := ⟨dir.toList, some (false, name.toList), some (false, name'.toList), dir'.toList⟩

def finalListing (src : String) (evs : List LEv) : List String :=
  match (lsyncRun src.toList "/t".toList false Tree.empty evs).getLast? with
  | some r => (listing (comps "/t".toList) r.1).map String.ofList
  | none => []

/-- witness against the full statement: create /data/x, rename it to /data/y — the sink directory still
    holds `x` and no `y` (UpdateEntry re-creates the OLD key and ignores the new parent path) -/
theorem localsink_rename_keeps_old_path :
    finalListing "/data" [evCreateF "/data" "x", evRenameF "/data" "x" "/data" "y"] = ["x"] ∧
    (srcApply SrcTree.empty (evCreateF "/data" "x") >>= (srcApply · (evRenameF "/data" "x" "/data" "y"))).map (mirror "/data".toList)
      = some ["y".toList] := by decide

/-- witness against the full statement: create /data/d/y, delete the directory /data/d — `os.Remove`
    fails on the non-empty directory, the error is only logged, `d/y` stays -/
theorem localsink_nonempty_directory_kept :
    finalListing "/data" [evCreateF "/data/d" "y", evDelete true "/data" "d"] = ["d/", "d/y"] ∧
    (srcApply SrcTree.empty (evCreateF "/data/d" "y") >>= (srcApply · (evDelete true "/data" "d"))).map (mirror "/data".toList)
      = some [] := by decide

/-- …while deleting the children first (what the filer's recursive delete announces) is mirrored -/
theorem localsink_children_first_delete_mirrored :
    finalListing "/data" [evCreateF "/data/d" "y", evCreateF "/data" "x", evDelete false "/data/d" "y", evDelete true "/data" "d"] = ["x"] := by decide


end SwV.Props.C36
