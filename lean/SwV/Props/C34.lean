/-
C34 — theorems. The model's decision procedure (`check`, a chain of early returns in the order of the Go code)
is characterised declaratively (`authorized_iff`), shown sound for the file-level reading of the property
(`authorized_names_target`), and the handler is shown to touch nothing when it rejects (`rejected_touches_nothing`).
-/
import SwV.Model.C34
import SwV.Spec.C34
import SwV.Gen.C34
namespace SwV.Props.C34
open SwV.Model.C34 SwV.Spec.C34

/-- the key a request of this method is checked against -/
def keyFor (cfg : Cfg) (method : String) : List Char := if isWrite method then cfg.wkey else cfg.rkey

/-- MAIN: a request is let through exactly when no key is configured for its kind, or the presented string is the
    described token and that token is well-formed, HMAC, signed (untampered) with exactly that key, inside its time
    window, and its fid claim is `vid,fid` with the sub-file suffix of `fid` removed. -/
theorem authorized_iff (cfg : Cfg) (method : String) (vid fid s : List Char) (t : Tok) :
    authorized (check cfg method vid fid s t) = true ↔
      keyFor cfg method = [] ∨
      (s ≠ [] ∧ s = t.str ∧ t.wellFormed = true ∧ isHmac t.alg = true ∧ t.sigOk = true ∧ t.signKey = keyFor cfg method ∧
        t.expOk = true ∧ t.nbfOk = true ∧ t.iatOk = true ∧ t.fid = vid ++ ',' :: stripDelta fid) := by
  unfold check keyFor
  by_cases hk : (if isWrite method then cfg.wkey else cfg.rkey) = []
  · simp [hk, authorized]
  · simp only [hk, if_false, false_or]
    by_cases h1 : s = []
    · simp [h1, authorized]
    · by_cases h2 : s ≠ t.str ∨ t.wellFormed = false
      · simp only [h1, h2, if_true, if_false, authorized]
        rcases h2 with h2 | h2 <;> simp [h2]
      · have h2a : s = t.str := by
          cases hs : decide (s = t.str) <;> simp_all
        have h2b : t.wellFormed = true := by
          cases hw : t.wellFormed <;> simp_all
        simp only [h1, h2, if_false]
        by_cases h3 : isHmac t.alg = false
        · simp [h3, authorized]
        · have h3' : isHmac t.alg = true := by cases hh : isHmac t.alg <;> simp_all
          simp only [h3, if_false]
          by_cases h4 : t.sigOk = false ∨ t.signKey ≠ (if isWrite method then cfg.wkey else cfg.rkey)
          · simp only [h4, if_true, authorized]
            rcases h4 with h4 | h4 <;> simp [h4]
          · have h4a : t.sigOk = true := by cases hh : t.sigOk <;> simp_all
            have h4b : t.signKey = (if isWrite method then cfg.wkey else cfg.rkey) := by
              cases hd : decide (t.signKey = (if isWrite method then cfg.wkey else cfg.rkey)) <;> simp_all
            simp only [h4, if_false]
            by_cases h5 : (t.expOk && t.nbfOk && t.iatOk) = false
            · have hno : ¬ (t.expOk = true ∧ t.nbfOk = true ∧ t.iatOk = true) := by
                intro ⟨a, b, c⟩; simp [a, b, c] at h5
              simp only [h5, if_true, authorized]
              constructor
              · intro hh; simp at hh
              · rintro ⟨_, _, _, _, _, _, a, b, c, _⟩; exact absurd ⟨a, b, c⟩ hno
            · have h5' : t.expOk = true ∧ t.nbfOk = true ∧ t.iatOk = true := by
                cases ha : t.expOk <;> cases hb : t.nbfOk <;> cases hc : t.iatOk <;> simp_all
              simp only [h5, if_false]
              by_cases h6 : t.fid = vid ++ ',' :: stripDelta fid
              · simp [h6, authorized, h1, h2a, h2b, h3', h4a, h4b, h5'.1, h5'.2.1, h5'.2.2]
                rw [← h2a]; exact h1
              · simp [h6, authorized]

example : authorized (check ⟨"w".toList, []⟩ "POST" "3".toList "01637037d6".toList "tok".toList
    ⟨"tok".toList, true, "HS256", "w".toList, true, true, true, true, "3,01637037d6".toList⟩) = true := by decide

/-- with a key configured, no token means no access -/
theorem missing_token_rejected (cfg : Cfg) (method : String) (vid fid : List Char) (t : Tok)
    (hk : keyFor cfg method ≠ []) : authorized (check cfg method vid fid [] t) = false := by
  cases h : authorized (check cfg method vid fid [] t)
  · rfl
  · rcases (authorized_iff cfg method vid fid [] t).mp h with h' | h'
    · exact absurd h' hk
    · exact absurd rfl h'.1

/-- tokens of another algorithm family (none, RS256, …) never pass -/
theorem non_hmac_rejected (cfg : Cfg) (method : String) (vid fid s : List Char) (t : Tok)
    (hk : keyFor cfg method ≠ []) (ha : isHmac t.alg = false) : authorized (check cfg method vid fid s t) = false := by
  cases h : authorized (check cfg method vid fid s t)
  · rfl
  · rcases (authorized_iff cfg method vid fid s t).mp h with h' | h'
    · exact absurd h' hk
    · rw [h'.2.2.2.1] at ha; cases ha

/-- tokens signed with any other key, tampered tokens, expired / not-yet-valid tokens never pass -/
theorem bad_signature_or_time_rejected (cfg : Cfg) (method : String) (vid fid s : List Char) (t : Tok)
    (hk : keyFor cfg method ≠ [])
    (hb : t.sigOk = false ∨ t.signKey ≠ keyFor cfg method ∨ t.expOk = false ∨ t.nbfOk = false ∨ t.iatOk = false) :
    authorized (check cfg method vid fid s t) = false := by
  cases h : authorized (check cfg method vid fid s t)
  · rfl
  · rcases (authorized_iff cfg method vid fid s t).mp h with h' | h'
    · exact absurd h' hk
    · obtain ⟨_, _, _, _, a, b, c, d, e, _⟩ := h'
      rcases hb with hb | hb | hb | hb | hb
      · rw [a] at hb; cases hb
      · exact absurd b hb
      · rw [c] at hb; cases hb
      · rw [d] at hb; cases hb
      · rw [e] at hb; cases hb

/-- file-level soundness: when a key is configured and the request passes, the token's claim denotes (file-id grammar
    of C08) exactly the file the path addresses, sub-file suffix ignored -/
theorem authorized_names_target (cfg : Cfg) (method : String) (vid fid s : List Char) (t : Tok)
    (hk : keyFor cfg method ≠ []) (h : authorized (check cfg method vid fid s t) = true) :
    tokenGood (keyFor cfg method) t = true ∧ SwV.Model.C08.parseFid t.fid = fileOf vid (stripDelta fid) := by
  rcases (authorized_iff cfg method vid fid s t).mp h with h' | h'
  · exact absurd h' hk
  · obtain ⟨_, _, a, b, c, d, e, f, g, i⟩ := h'
    constructor
    · simp [tokenGood, a, b, c, d, e, f, g]
    · rw [i]; rfl

/-- a token for another file is rejected: the claim must be the very string `vid,base` -/
theorem other_file_rejected (cfg : Cfg) (method : String) (vid fid s : List Char) (t : Tok)
    (hk : keyFor cfg method ≠ []) (hf : t.fid ≠ vid ++ ',' :: stripDelta fid) :
    authorized (check cfg method vid fid s t) = false := by
  cases h : authorized (check cfg method vid fid s t)
  · rfl
  · rcases (authorized_iff cfg method vid fid s t).mp h with h' | h'
    · exact absurd h' hk
    · exact absurd h'.2.2.2.2.2.2.2.2.2 hf

/-- the sub-file suffix: `base_n` (base non-empty, no '_' in n) is checked as `base` -/
theorem stripDelta_suffix (base ds : List Char) (hb : base ≠ []) (hd : '_' ∉ ds) :
    stripDelta (base ++ '_' :: ds) = base := by
  have key : ∀ (b : List Char), lastIndexOf '_' (b ++ '_' :: ds) = some b.length := by
    intro b
    induction b with
    | nil =>
      have : lastIndexOf '_' ds = none := by
        induction ds with
        | nil => rfl
        | cons x xs ih =>
          have hx : x ≠ '_' := fun e => hd (by simp [e])
          have hxs : '_' ∉ xs := fun e => hd (by simp [e])
          simp [lastIndexOf, ih hxs, hx]
      simp [lastIndexOf, this]
    | cons x xs ih => simp [lastIndexOf, ih]
  unfold stripDelta cutLastPositive
  rw [key base]
  have : base.length > 0 := List.length_pos_iff.mpr hb
  simp [this]

example : stripDelta "01637037d6_12".toList = "01637037d6".toList := by decide

/-- ORDER: a rejected request leaves the store as it was, whatever the handler's effect would have been -/
theorem rejected_touches_nothing {σ : Type} (cfg : Cfg) (method : String) (path qjwt auth : List Char) (t : Tok)
    (effect : σ → σ) (s : σ) (h : (handle cfg method path qjwt auth t effect s).status401 = true) :
    (handle cfg method path qjwt auth t effect s).store = s := by
  unfold handle at h ⊢
  generalize parseURLPath path = p at h ⊢
  obtain ⟨vid, fid⟩ := p
  dsimp only at h ⊢
  by_cases ha : authorized (check cfg method vid fid (getJwt qjwt auth) t) = true
  · simp [ha] at h
  · simp [ha]

/-- reads never change the store -/
theorem read_touches_nothing {σ : Type} (cfg : Cfg) (method : String) (path qjwt auth : List Char) (t : Tok)
    (effect : σ → σ) (s : σ) (h : isWrite method = false) :
    (handle cfg method path qjwt auth t effect s).store = s := by
  unfold handle
  generalize parseURLPath path = p
  obtain ⟨vid, fid⟩ := p
  dsimp only
  split <;> simp [h]

/-! ## T1: the claim comparison is an EQUALITY on the fid after the `_n` suffix is stripped -/

/-- once the token passed the key/format/signature/time checks, the verdict is decided by one EQUALITY between the fid
    claim and `vid,fid` with the sub-file suffix removed — not a prefix, not a containment test -/
theorem claim_comparison_is_equality (cfg : Cfg) (method : String) (vid fid : List Char) (t : Tok)
    (hk : keyFor cfg method ≠ []) (hs : t.str ≠ []) (hw : t.wellFormed = true) (ha : isHmac t.alg = true)
    (hsig : t.sigOk = true) (hkey : t.signKey = keyFor cfg method) (he : t.expOk = true) (hn : t.nbfOk = true) (hi : t.iatOk = true) :
    authorized (check cfg method vid fid t.str t) = true ↔ t.fid = vid ++ ',' :: stripDelta fid := by
  rw [authorized_iff]
  constructor
  · rintro (h | h)
    · exact absurd h hk
    · exact h.2.2.2.2.2.2.2.2.2
  · intro h; exact Or.inr ⟨hs, rfl, hw, ha, hsig, hkey, he, hn, hi, h⟩

/-- … so a claim that is only a PREFIX of the target is rejected, however the target is addressed: any valid token
    whose fid claim differs from `vid,stripDelta fid` gives 401 -/
theorem other_claim_rejected (cfg : Cfg) (method : String) (vid fid s : List Char) (t : Tok)
    (hk : keyFor cfg method ≠ []) (hne : t.fid ≠ vid ++ ',' :: stripDelta fid) :
    authorized (check cfg method vid fid s t) = false := by
  cases h : authorized (check cfg method vid fid s t) with
  | false => rfl
  | true =>
    rcases (authorized_iff cfg method vid fid s t).mp h with h1 | h1
    · exact absurd h1 hk
    · exact absurd h1.2.2.2.2.2.2.2.2.2 hne

/-- witness (the sub-file form `B_n` with a claim that is a strict textual prefix of B, and the empty claim):
    needle 0x163 cookie 7037d6ab addressed as `01637037d6ab_0`, token for `1,01637037d6` (needle 0x01 cookie 637037d6) -/
theorem prefix_claim_witness :
    let t : Tok := ⟨"tok".toList, true, "HS256", "k".toList, true, true, true, true, "1,01637037d6".toList⟩
    check ⟨"k".toList, []⟩ "DELETE" "1".toList "01637037d6ab_0".toList "tok".toList t = .fidMismatch ∧
    check ⟨"k".toList, []⟩ "DELETE" "1".toList "01637037d6ab_0".toList "tok".toList { t with fid := [] } = .fidMismatch ∧
    check ⟨"k".toList, []⟩ "DELETE" "1".toList "01637037d6_0".toList "tok".toList t = .ok := by decide

example : ∃ (cfg : Cfg) (method : String) (vid fid : List Char) (t : Tok), keyFor cfg method ≠ [] ∧ t.fid ≠ vid ++ ',' :: stripDelta fid ∧ t.str ≠ [] :=
  ⟨⟨"k".toList, []⟩, "DELETE", "1".toList, "01637037d6ab_0".toList,
    ⟨"tok".toList, true, "HS256", "k".toList, true, true, true, true, "1,01637037d6".toList⟩, by decide, by decide, by decide⟩

/-- bridge: the source text of the comparison in `maybeCheckJwtAuthorization` (regenerated on every check) is `==` between the
    claim and `vid+","+fid`, after `fid = fid[:sepIndex]` for `sepIndex := strings.LastIndex(fid, "_")`, `sepIndex > 0` —
    what `check`'s last step and `stripDelta` model; replacing the equality by a prefix/contains test breaks this obligation -/
theorem bridge_claim_comparison :
    SwV.Gen.C34.claim_cmp = "sc.Fid == vid+\",\"+fid" ∧
    SwV.Gen.C34.delta_sep = "sepIndex := strings.LastIndex(fid, \"_\")" ∧
    SwV.Gen.C34.delta_cond = "sepIndex > 0" ∧
    SwV.Gen.C34.delta_strip = "fid = fid[:sepIndex]" ∧
    (∀ fid : List Char, stripDelta fid = (cutLastPositive '_' fid).1) := by
  refine ⟨by decide, by decide, by decide, by decide, fun _ => rfl⟩

/-! ## bridges: the modelled functions are pinned to the source text they were read from (regenerated on every check) -/

/-- an edit of any of these functions (e.g. moving the check after the Store access) breaks this obligation -/
theorem bridge_source_pins :
    SwV.Gen.C34.src_maybeCheckJwtAuthorization = "a7aaa84ea0076d91" ∧
    SwV.Gen.C34.src_GetJwt = "5dd17d49c931ebea" ∧
    SwV.Gen.C34.src_DecodeJwt = "bbd47ba7b5469b39" ∧
    SwV.Gen.C34.src_parseURLPath = "7944ea4a4dd4abde" ∧
    SwV.Gen.C34.src_PostHandler = "d71ebc4b835f65ab" ∧
    SwV.Gen.C34.src_DeleteHandler = "77decf1f3bbb4b4c" := by
  decide

end SwV.Props.C34
