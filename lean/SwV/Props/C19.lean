/-
C19 — property theorems. They are about the executable model in SwV/Model/C19.lean, which the
correspondence check compares with the real Filer on leveldb, leveldb2, leveldb3 and the
generic-path store on every run.
-/
import SwV.Model.C19
import SwV.Spec.C19
import SwV.Lemmas.C19
import SwV.Gen.C19

namespace SwV.Props.C19
open SwV.Model.C19 SwV.Spec.C19 SwV.Lemmas.C19

/-- the directory as the specification sees it: the non-empty child names in key order -/
def childNames (nameOf : Bytes → Bytes) (dk : Bytes) (db : Db) : List Bytes :=
  ((children nameOf dk db).map (·.1)).filter fun n => decide (n ≠ [])

/-- well-formed directory keys: every key under the directory's prefix is prefix ++ name
    (leveldb: names without 0x00; leveldb2/3: always, md5 has 16 bytes) -/
def KeysWF (nameOf : Bytes → Bytes) (dk : Bytes) (db : Db) : Prop :=
  ∀ e ∈ db, isPrefix dk e.key = true → e.key = dk ++ nameOf e.key

theorem childNames_sorted (nameOf : Bytes → Bytes) (dk : Bytes) (db : Db) (hs : SortedDb db) (hwf : KeysWF nameOf dk db) :
    SortedNames (childNames nameOf dk db) := by
  unfold childNames SortedNames SortedBy
  refine List.Pairwise.sublist List.filter_sublist ?_
  rw [List.pairwise_map]
  exact children_sorted nameOf dk db hs hwf

/-! ### reachable databases are sorted -/

theorem mem_dbPut (e : Ent) (db : Db) (y : Ent) (h : y ∈ dbPut e db) : y = e ∨ y ∈ db := by
  induction db with
  | nil => simp [dbPut] at h; exact Or.inl h
  | cons x xs ih =>
    unfold dbPut at h
    split at h
    · simp only [List.mem_cons] at h ⊢; rcases h with h | h | h <;> simp [h]
    · split at h
      · simp only [List.mem_cons] at h ⊢; rcases h with h | h <;> simp [h]
      · simp only [List.mem_cons] at h ⊢
        rcases h with h | h
        · simp [h]
        · rcases ih h with h | h <;> simp [h]

/-- every database built by Put (and Delete) operations is strictly sorted: the hypothesis
    `SortedDb` of the theorems above holds for every reachable store state -/
theorem dbPut_sorted (e : Ent) (db : Db) (hs : SortedDb db) : SortedDb (dbPut e db) := by
  induction db with
  | nil => simp [dbPut, SortedDb]
  | cons x xs ih =>
    have hx := (List.pairwise_cons.1 hs).1
    have hs' : SortedDb xs := (List.pairwise_cons.1 hs).2
    unfold dbPut
    split
    · rename_i hlt
      refine List.pairwise_cons.2 ⟨?_, hs⟩
      intro y hy
      simp only [List.mem_cons] at hy
      rcases hy with rfl | hy
      · exact hlt
      · exact ltB_trans _ _ _ hlt (hx y hy)
    · rename_i hlt
      split
      · rename_i heq
        refine List.pairwise_cons.2 ⟨?_, hs'⟩
        intro y hy; rw [heq]; exact hx y hy
      · rename_i hne
        refine List.pairwise_cons.2 ⟨?_, ih hs'⟩
        intro y hy
        rcases mem_dbPut e xs y hy with rfl | hy
        · cases h : ltB x.key y.key with
          | true => rfl
          | false => exact absurd (ltB_total _ _ (by simpa using hlt) h) hne
        · exact hx y hy

theorem dbDel_sorted (k : Bytes) (db : Db) (hs : SortedDb db) : SortedDb (dbDel k db) :=
  List.Pairwise.sublist List.filter_sublist hs

/-! ### the store loop -/

/-- STORE LEVEL, all sorted databases, all requests with `start = "" ∨ prefix ≤ start`:
    `ListDirectoryPrefixedEntries` of leveldb/leveldb2/leveldb3 hands out exactly the first `limit`
    children that have the prefix and lie after the start, in name order (foreign keys — other
    directories, kv entries — never leak in, the scan stops exactly at the end of the prefix range) -/
theorem store_scan_exact_partial (nameOf : Bytes → Bytes) (dk : Bytes) (db : Db) (start : Bytes) (incl : Bool) (limit : Nat)
    (pfx : Bytes) (hs : SortedDb db) (hwf : KeysWF nameOf dk db) (hstart : start = [] ∨ ltB start pfx = false) :
    storeList nameOf dk db start incl limit pfx = ((children nameOf dk db).filter (sel start incl pfx)).take limit :=
  storeList_exact nameOf dk db start incl limit pfx hs hwf hstart

/-- FULL-STRENGTH store exactness (without `hstart`) is FALSE — known finding
    leveldb/start-before-prefix-stops-early: names a2 b1 b2, prefix b, start a1 ⇒ nothing -/
theorem store_scan_start_before_prefix_witness :
    let dk : Bytes := [47, 100, 0]
    let db : Db := [⟨dk ++ [97, 50], false⟩, ⟨dk ++ [98, 49], false⟩, ⟨dk ++ [98, 50], false⟩]
    storeList nameAfterLastNul dk db [97, 49] false 10 [98] = [] ∧
    ((children nameAfterLastNul dk db).filter (sel [97, 49] false [98])).take 10 = [([98, 49], false), ([98, 50], false)] := by
  decide

/-! ### listing_exact -/

/-- the refill loop of `StreamListDirectoryEntries` over any store path that satisfies `DirListLive` -/
theorem stream_of_dirListLive (k : Kind) (dk : Bytes) (db : Db) (r : Req) (Ok : Bytes → Prop)
    (hdl : DirListLive k dk (effPrefix r) db Ok) (hok : Ok r.start)
    (hlive : ∀ p ∈ children k.nameOf dk db, p.2 = false) (hgood : GoodReq r) :
    (stream k dk db r).map (·.1) = some (specList (childNames k.nameOf dk db) r) := by
  unfold stream
  have hlen : (selected k.nameOf dk db r.start r.incl (effPrefix r)).length < (db.length + 3) * (db.length + 3) := by
    have h1 : (selected k.nameOf dk db r.start r.incl (effPrefix r)).length ≤ db.length := by
      unfold selected children
      refine Nat.le_trans (List.length_filter_le _ _) ?_
      rw [List.length_map]
      exact List.length_filter_le _ _
    have h2 : db.length + 3 ≤ (db.length + 3) * (db.length + 3) := Nat.le_mul_of_pos_right _ (by omega)
    omega
  rw [streamLoop_live' k dk (effPrefix r) _ r.excl db Ok hdl hlive _ r.start r.incl r.limit hok hlen]
  rw [refill_exact _ _ _ _ (by rw [List.length_map]; exact hlen)]
  congr 1
  unfold specList childNames selected
  congr 1
  simp only [List.filter_map, List.filter_filter]
  congr 1
  apply List.filter_congr
  intro x _
  simp only [Function.comp, sel]
  rw [← passes_iff_matches r hgood x.1]
  cases decide (x.1 ≠ []) <;> cases isPrefix (effPrefix r) x.1 <;> cases afterStart r.start r.incl x.1 <;>
    cases passes (effPrefix r) (splitPattern r.pattern).2 r.excl x.1 <;> rfl

/-- MAIN: for every sorted database, every directory without expired entries and every request in the
    domain (prefix xor well-split pattern, start not before the effective prefix),
    `Filer.StreamListDirectoryEntries` delivers exactly `take limit (filter matches (filter afterStart names))`:
    ordered, duplicate-free, complete up to the limit — through the native store loop and the
    missed-count refill loop. -/
theorem listing_exact_partial (k : Kind) (dk : Bytes) (db : Db) (r : Req) (hs : SortedDb db) (hwf : KeysWF k.nameOf dk db)
    (hlive : ∀ p ∈ children k.nameOf dk db, p.2 = false) (hgood : GoodReq r)
    (hnat : k.native = true ∨ effPrefix r = []) (hstart : r.start = [] ∨ ltB r.start (effPrefix r) = false) :
    (stream k dk db r).map (·.1) = some (specList (childNames k.nameOf dk db) r) :=
  stream_of_dirListLive k dk db r _ (dirListLive_native k dk (effPrefix r) db hnat hs hwf hlive) hstart hlive hgood

/-- MAIN, generic path: the same for stores WITHOUT native prefix listing
    (`FilerStoreWrapper.prefixFilterEntries`, as repaired): every start name is fine here, the
    start-before-prefix defect does not exist on this path -/
theorem listing_exact_generic_partial (k : Kind) (dk : Bytes) (db : Db) (r : Req) (hgen : k.native = false) (hs : SortedDb db)
    (hwf : KeysWF k.nameOf dk db) (hlive : ∀ p ∈ children k.nameOf dk db, p.2 = false) (hgood : GoodReq r) :
    (stream k dk db r).map (·.1) = some (specList (childNames k.nameOf dk db) r) := by
  by_cases hp : effPrefix r = []
  · exact listing_exact_partial k dk db r hs hwf hlive hgood (Or.inr hp) (Or.inr (by rw [hp]; exact ltB_nil_right _))
  · exact stream_of_dirListLive k dk db r _ (dirListLive_generic k dk (effPrefix r) db hgen hp hs hwf hlive) trivial hlive hgood

/-- non-vacuity of `listing_exact_generic_partial`: generic store, names a ab b ba bb c, prefix b, start a (before the
    prefix!), limit 2 ⇒ [b, ba] -/
example :
    let dk : Bytes := [47, 100, 0]
    let db : Db := [⟨dk ++ [97], false⟩, ⟨dk ++ [97, 98], false⟩, ⟨dk ++ [98], false⟩, ⟨dk ++ [98, 97], false⟩,
      ⟨dk ++ [98, 98], false⟩, ⟨dk ++ [99], false⟩]
    (stream .mem dk db ⟨[97], false, 2, [98], [], []⟩).map (·.1) = some [[98], [98, 97]] := by
  decide +kernel

/-- non-vacuity of `listing_exact_partial`: a leveldb directory {a, ab, b}, pattern `a*`, limit 1, start a (exclusive) ⇒ [ab] -/
example :
    let dk : Bytes := [47, 100, 0]
    let db : Db := [⟨[47, 0, 100], false⟩, ⟨dk ++ [97], false⟩, ⟨dk ++ [97, 98], false⟩, ⟨dk ++ [98], false⟩, ⟨[47, 100, 50, 0, 97], false⟩]
    (stream .leveldb dk db ⟨[97], false, 1, [], [97, 42], []⟩).map (·.1) = some [[97, 98]] := by
  decide +kernel

/-- FULL-STRENGTH listing exactness is FALSE outside `GoodReq` — known finding splitPattern/literal-pattern-ignored:
    pattern "ab" (no wildcard) lists every child -/
theorem literal_pattern_ignored_witness :
    let dk : Bytes := [47, 100, 0]
    let db : Db := [⟨dk ++ [97], false⟩, ⟨dk ++ [97, 98], false⟩]
    let r : Req := ⟨[], false, 10, [], [97, 98], []⟩
    (stream .leveldb dk db r).map (·.1) = some [[97], [97, 98]] ∧ specList (childNames nameAfterLastNul dk db) r = [[97, 98]] := by
  decide +kernel

/-- … known finding splitPattern/question-mark-in-prefix: pattern "?*" lists only names with a literal '?' -/
theorem question_mark_in_prefix_witness :
    let dk : Bytes := [47, 100, 0]
    let db : Db := [⟨dk ++ [97, 98], false⟩, ⟨dk ++ [98, 98], false⟩]
    let r : Req := ⟨[], false, 10, [], [63, 42], []⟩
    (stream .leveldb dk db r).map (·.1) = some [] ∧ specList (childNames nameAfterLastNul dk db) r = [[97, 98], [98, 98]] := by
  decide +kernel

/-- … known finding leveldb/start-before-prefix-stops-early at the filer level -/
theorem start_before_prefix_witness :
    let dk : Bytes := [47, 100, 0]
    let db : Db := [⟨dk ++ [97, 50], false⟩, ⟨dk ++ [98, 49], false⟩, ⟨dk ++ [98, 50], false⟩]
    let r : Req := ⟨[97, 49], false, 10, [98], [], []⟩
    (stream .leveldb dk db r).map (·.1) = some [] ∧ specList (childNames nameAfterLastNul dk db) r = [[98, 49], [98, 50]] := by
  decide +kernel

/-- … and FALSE with expired entries under a pattern — known finding
    StreamListDirectoryEntries/restart-after-expired-refill: names aa, aab (expired), bbb; pattern `*a*` ⇒ aa aa -/
theorem restart_after_expired_refill_witness :
    let dk : Bytes := [47, 100, 0]
    let db : Db := [⟨dk ++ [97, 97], false⟩, ⟨dk ++ [97, 97, 98], true⟩, ⟨dk ++ [98, 98, 98], false⟩]
    let r : Req := ⟨[], false, 4, [], [42, 97, 42], []⟩
    (stream .leveldb dk db r).map (·.1) = some [[97, 97], [97, 97]] := by
  decide +kernel

/-! ### expired entries -/

/-- the live (not expired) non-empty child names in key order -/
def liveChildNames (nameOf : Bytes → Bytes) (dk : Bytes) (db : Db) : List Bytes :=
  (((children nameOf dk db).filter fun p => !p.2).map (·.1)).filter fun n => decide (n ≠ [])

theorem passes_nil (pfx n : Bytes) : passes pfx [] [] n = true := by
  unfold passes; simp

/-- EXPIRED ENTRIES: for every sorted database — expired entries anywhere — and every request without
    pattern/exclude filter (start not before the prefix), the listing skips the expired entries
    WITHOUT shortening the page: it is `take limit` of the matching LIVE names. (With a pattern the
    statement is false: `restart_after_expired_refill_witness`.) -/
theorem listing_exact_expired_partial (k : Kind) (dk : Bytes) (db : Db) (r : Req) (hs : SortedDb db)
    (hwf : ∀ e ∈ db, isPrefix dk e.key = true → e.key = dk ++ k.nameOf e.key)
    (hpat : r.pattern = []) (hexcl : r.excl = [])
    (hnat : k.native = true ∨ r.pfx = []) (hstart : r.start = [] ∨ ltB r.start r.pfx = false) :
    (stream k dk db r).map (·.1) = some (specList (liveChildNames k.nameOf dk db) r) := by
  have heff : effPrefix r = r.pfx := by unfold effPrefix; rw [hpat, splitPattern_nil]; simp
  have hrest : (splitPattern r.pattern).2 = [] := by rw [hpat, splitPattern_nil]
  unfold stream
  rw [heff, hrest, hexcl]
  obtain ⟨m, hm⟩ : ∃ m, (db.length + 3) * (db.length + 3) = m + 1 := ⟨(db.length + 3) * (db.length + 3) - 1, by
    have : 0 < (db.length + 3) * (db.length + 3) := Nat.mul_pos (by omega) (by omega)
    omega⟩
  rw [hm]
  unfold streamLoop
  have hlen : (selected k.nameOf dk db r.start r.incl r.pfx).length < db.length + 2 := by
    have h1 : (selected k.nameOf dk db r.start r.incl r.pfx).length ≤ db.length := by
      unfold selected children
      refine Nat.le_trans (List.length_filter_le _ _) ?_
      rw [List.length_map]
      exact List.length_filter_le _ _
    omega
  have hv := listValid_exact k dk r.pfx hnat (db.length + 2) db r.start r.incl r.limit hs hwf hstart hlen
  rw [refill_exact _ _ _ _ hlen] at hv
  generalize listValid k dk r.pfx (db.length + 2) db r.start r.incl r.limit = t at hv ⊢
  obtain ⟨o, last, db'⟩ := t
  simp only at hv ⊢
  have hf : o.filter (passes r.pfx [] []) = o := by
    rw [List.filter_eq_self]; intro n _; exact passes_nil _ _
  rw [hf]
  simp only [Nat.sub_self, if_true, Option.map_some, Option.some.injEq]
  rw [hv, List.map_take]
  unfold specList liveChildNames selected
  congr 1
  simp only [List.filter_map, List.filter_filter]
  congr 1
  apply List.filter_congr
  intro x _
  simp only [Function.comp, sel, matchesReq, hpat, hexcl]
  cases x.2 <;> cases decide (x.1 ≠ []) <;> cases isPrefix r.pfx x.1 <;> cases afterStart r.start r.incl x.1 <;> simp

/-- non-vacuity: names a, ab (expired), b, c; limit 2 ⇒ the page is still full: [a, b] -/
example :
    let dk : Bytes := [47, 100, 0]
    let db : Db := [⟨dk ++ [97], false⟩, ⟨dk ++ [97, 98], true⟩, ⟨dk ++ [98], false⟩, ⟨dk ++ [99], false⟩]
    (stream .leveldb dk db ⟨[], false, 2, [], [], []⟩).map (·.1) = some [[97], [98]] := by
  decide +kernel

/-! ### pagination -/

/-- following the last returned name: the next request starts (exclusively) at a name that has the
    effective prefix, so it is always inside the domain of `listing_exact_partial` — whatever the
    store (the start-before-prefix defect cannot be reached by paginating) -/
theorem page_after_returned_name (k : Kind) (dk : Bytes) (db : Db) (r : Req) (last : Bytes) (hs : SortedDb db)
    (hwf : KeysWF k.nameOf dk db) (hlive : ∀ p ∈ children k.nameOf dk db, p.2 = false) (hgood : GoodReq r)
    (hnat : k.native = true ∨ effPrefix r = []) (hlast : isPrefix (effPrefix r) last = true) :
    (stream k dk db { r with start := last, incl := false }).map (·.1) =
      some (specList (childNames k.nameOf dk db) { r with start := last, incl := false }) := by
  have heff : effPrefix { r with start := last, incl := false } = effPrefix r := rfl
  have hgood' : GoodReq { r with start := last, incl := false } := hgood
  exact listing_exact_partial k dk db { r with start := last, incl := false } hs hwf hlive hgood'
    (by rw [heff]; exact hnat) (by rw [heff]; exact Or.inr (not_lt_of_isPrefix _ _ hlast))

/-- PAGINATION: on the specification, following the last returned name page after page (limit ≥ 1)
    enumerates every match exactly once, in order: the concatenation of the pages IS
    `filter matches (sorted names)` — for all directory contents and requests -/
theorem pagination_complete (sorted : List Bytes) (r : Req) (hs : SortedNames sorted) (hne : ∀ n ∈ sorted, n ≠ [])
    (hlim : 0 < r.limit) (fuel : Nat) (hf : (specAll sorted r).length < fuel) :
    pages sorted r fuel [] = specAll sorted r := by
  have hall : (specAll sorted r).filter (fun x => ltB [] x) = specAll sorted r := by
    rw [List.filter_eq_self]
    intro n hn
    have : n ∈ sorted := (List.mem_filter.1 hn).1
    exact (ltB_nil n).2 (hne n this)
  have := pages_eq sorted r hs hlim fuel [] (by rw [hall]; exact hf)
  rw [this, hall]

/-- the hypotheses of `pagination_complete` hold for every directory the model can hold -/
theorem pagination_complete_model (k : Kind) (dk : Bytes) (db : Db) (r : Req) (hs : SortedDb db) (hwf : KeysWF k.nameOf dk db)
    (hlim : 0 < r.limit) :
    pages (childNames k.nameOf dk db) r ((specAll (childNames k.nameOf dk db) r).length + 1) [] =
      specAll (childNames k.nameOf dk db) r := by
  apply pagination_complete _ r (childNames_sorted k.nameOf dk db hs hwf) _ hlim _ (by omega)
  intro n hn
  have := (List.mem_filter.1 hn).2
  simpa using this

/-- non-vacuity: three names, limit 2, pattern `*` -/
example : pages [[97], [97, 98], [98]] ⟨[], false, 2, [], [42], []⟩ 4 [] = [[97], [97, 98], [98]] := by decide +kernel

/-! ### bridges to the regenerated source facts (T1) -/

/-- the loop conditions the model transcribes are the ones in the source: stop at the first key without
    the prefix, exclusive-start skip, limit test, the two refill loops and the generic filter loop -/
theorem bridge_loop_conditions :
    SwV.Gen.C19.stopCondLeveldb = "!bytes.HasPrefix(key, directoryPrefix)" ∧
    SwV.Gen.C19.stopCondLeveldb2 = "!bytes.HasPrefix(key, directoryPrefix)" ∧
    SwV.Gen.C19.stopCondLeveldb3 = "!bytes.HasPrefix(key, directoryPrefix)" ∧
    SwV.Gen.C19.skipStartLeveldb = "fileName == startFileName && !includeStartFile" ∧
    SwV.Gen.C19.skipStartLeveldb2 = "fileName == startFileName && !includeStartFile" ∧
    SwV.Gen.C19.skipStartLeveldb3 = "fileName == startFileName && !includeStartFile" ∧
    SwV.Gen.C19.limitCondLeveldb = "limit < 0" ∧
    SwV.Gen.C19.missedLoopCond = "missedCount > 0 && err == nil" ∧
    SwV.Gen.C19.expiredLoopCond = "expiredCount > 0 && err == nil" ∧
    SwV.Gen.C19.prefixFilterLoopCond = "count < limit && len(notPrefixed) > 0" := by
  decide

/-- the functions the model transcribes are unchanged (source hashes; a source edit breaks this obligation) -/
theorem bridge_pinned_sources :
    SwV.Gen.C19.src_leveldb_ListDirectoryPrefixedEntries = "55c449cc448d5492" ∧
    SwV.Gen.C19.src_leveldb2_ListDirectoryPrefixedEntries = "b73984763a9dab44" ∧
    SwV.Gen.C19.src_leveldb3_ListDirectoryPrefixedEntries = "0f74e02cbce29af0" ∧
    SwV.Gen.C19.src_leveldb_genDirectoryKeyPrefix = "2da9a70a6bf1b3c0" ∧
    SwV.Gen.C19.src_leveldb_getNameFromKey = "548a39a2097fd1fe" ∧
    SwV.Gen.C19.src_leveldb2_genDirectoryKeyPrefix = "c73927f75b8280fe" ∧
    SwV.Gen.C19.src_leveldb3_genDirectoryKeyPrefix = "061269bdf0241cc2" ∧
    SwV.Gen.C19.src_findDB = "3d0a7a5505f282f2" ∧
    SwV.Gen.C19.src_prefixFilterEntries = "39c051133885193c" ∧
    SwV.Gen.C19.src_wrapper_ListDirectoryPrefixedEntries = "e6f15774cc588814" ∧
    SwV.Gen.C19.src_StreamListDirectoryEntries = "5df12bdf1ebaa2bb" ∧
    SwV.Gen.C19.src_doListPatternMatchedEntries = "19b99b4533a3048c" ∧
    SwV.Gen.C19.src_doListValidEntries = "ebb85eee918a1190" ∧
    SwV.Gen.C19.src_doListDirectoryEntries = "8c89010a0f6ddc2d" ∧
    SwV.Gen.C19.src_splitPattern = "21a04c190ee16b79" := by
  decide

end SwV.Props.C19
