/-
C24 — property theorems. The model (SwV/Model/C24.lean) is tied to the Go code by the
correspondence check on every run; protobuf and gzip enter only through `Codec.Sound`.
-/
import SwV.Model.C24
import SwV.Spec.C24
import SwV.Lemmas.C08
import SwV.Gen.C24

namespace SwV.Props.C24
open SwV.Model.C08 SwV.Model.C24 SwV.Spec.C24 SwV.Lemmas.C08

/-! ### a marshalled entry is never mistaken for gzip data -/

/-- 1f is not a protobuf tag byte (its wire type would be 7), so nothing that starts with a tag
    byte passes `IsGzippedContent` -/
theorem no_false_gzip (t : Nat) (rest : Bytes) (h : validTagByte t = true) : looksGzip (t :: rest) = false := by
  cases rest with
  | nil => rfl
  | cons b r =>
    simp only [looksGzip, validTagByte] at *
    have : t ≠ 31 := by intro h31; subst h31; simp at h
    simp [this]

/-- the first byte of every marshalled entry is one of three tags, all valid -/
theorem firstTag_valid (e : Entry) : validTagByte (firstTag e) = true := by
  unfold firstTag; split
  · decide
  · split <;> decide

/-- … hence `MaybeDecompressData` leaves every plain marshalled entry alone -/
theorem marshal_not_gzip (C : Codec) (hC : C.Sound) (e : Entry) : looksGzip (C.marshal e) = false := by
  have h := hC.first_byte e
  cases hm : C.marshal e with
  | nil => rfl
  | cons t rest =>
    rw [hm] at h
    simp only [List.head?_cons, Option.some.injEq] at h
    rw [h]; exact no_false_gzip _ _ (firstTag_valid e)

/-- the witness that the test matters: a value starting 1f 8b WOULD be sent through gunzip -/
theorem looksGzip_witness : looksGzip [31, 139, 8, 0] = true := by decide

/-! ### value round trip (any number of chunks, either side of the gzip threshold) -/

theorem value_roundtrip (C : Codec) (hC : C.Sound) (e : Entry) : loadValue C (storeValue C e) = some e := by
  have hng := marshal_not_gzip C hC e
  unfold loadValue storeValue
  split
  · unfold maybeGzip
    rw [if_neg (by simp [hng])]
    split
    · unfold maybeDecompress; rw [if_neg (by simp [hng])]; exact hC.proto_rt e
    · unfold maybeDecompress; rw [if_pos (hC.gzip_magic _), hC.gzip_rt]; exact hC.proto_rt e
  · unfold maybeDecompress; rw [if_neg (by simp [hng])]; exact hC.proto_rt e

/-! ### find / list after insert -/

theorem kvGet_put_same (s : KV) (k v : Bytes) : kvGet (kvPut s k v) k = some v := by
  simp [kvGet, kvPut]

theorem kvGet_put_other (s : KV) (k k' v : Bytes) (h : k ≠ k') : kvGet (kvPut s k v) k' = kvGet s k' := by
  simp [kvGet, kvPut, h]

/-- lookup after insert/update returns the canonical form of the written entry — for every entry,
    every key and whatever the store held before -/
theorem find_insert (C : Codec) (hC : C.Sound) (key : Bytes) (s : KV) (e : Entry) :
    find C key (SwV.Model.C24.insert C key s e) = some (afterEntry (beforeEntry e)) := by
  unfold find SwV.Model.C24.insert
  rw [kvGet_put_same]
  simp only [value_roundtrip C hC, Option.map_some]

/-- … and leaves every other key alone -/
theorem find_insert_other (C : Codec) (key key' : Bytes) (s : KV) (e : Entry) (h : key ≠ key') :
    find C key' (SwV.Model.C24.insert C key s e) = find C key' s := by
  unfold find SwV.Model.C24.insert
  rw [kvGet_put_other _ _ _ _ h]

/-- listing through the native prefixed path returns the stored form (no AfterEntryDeserialization) -/
theorem list_insert (C : Codec) (hC : C.Sound) (key : Bytes) (s : KV) (e : Entry) :
    listRaw C key (SwV.Model.C24.insert C key s e) = some (beforeEntry e) := by
  unfold listRaw SwV.Model.C24.insert
  rw [kvGet_put_same]
  simp only [value_roundtrip C hC]

/-! ### distinct paths have distinct keys -/

/-- leveldb: `dir 00 name` determines (dir, name) when directory paths contain no 0x00 -/
theorem keyLeveldb_injective : ∀ (d1 d2 n1 n2 : Bytes), (∀ b ∈ d1, b ≠ 0) → (∀ b ∈ d2, b ≠ 0) →
    keyLeveldb d1 n1 = keyLeveldb d2 n2 → d1 = d2 ∧ n1 = n2
  | [], [], n1, n2, _, _, h => by simpa [keyLeveldb] using h
  | [], b :: d2, n1, n2, _, h2, h => by
    simp [keyLeveldb] at h; exact absurd h.1.symm (h2 b (by simp))
  | a :: d1, [], n1, n2, h1, _, h => by
    simp [keyLeveldb] at h; exact absurd h.1 (h1 a (by simp))
  | a :: d1, b :: d2, n1, n2, h1, h2, h => by
    simp only [keyLeveldb, List.cons_append, List.cons.injEq] at h
    have := keyLeveldb_injective d1 d2 n1 n2 (fun x hx => h1 x (by simp [hx])) (fun x hx => h2 x (by simp [hx]))
      (by simpa [keyLeveldb] using h.2)
    exact ⟨by rw [h.1, this.1], this.2⟩

/-- leveldb2/leveldb3: `md5(dir) name` determines (dir, name) for a fixed-length injective hash (trusted: md5) -/
theorem keyMd5_injective (h : Bytes → Bytes) (hlen : ∀ d, (h d).length = 16) (hinj : ∀ d1 d2, h d1 = h d2 → d1 = d2)
    (d1 d2 n1 n2 : Bytes) (heq : keyMd5 h d1 n1 = keyMd5 h d2 n2) : d1 = d2 ∧ n1 = n2 := by
  unfold keyMd5 at heq
  have := List.append_inj heq (by rw [hlen, hlen])
  exact ⟨hinj _ _ this.1, this.2⟩

/-- so an insert at one path never changes what another path reads (leveldb) -/
theorem find_insert_other_path (C : Codec) (d1 d2 n1 n2 : Bytes) (s : KV) (e : Entry) (hd1 : ∀ b ∈ d1, b ≠ 0)
    (hd2 : ∀ b ∈ d2, b ≠ 0) (hne : ¬ (d1 = d2 ∧ n1 = n2)) :
    find C (keyLeveldb d2 n2) (SwV.Model.C24.insert C (keyLeveldb d1 n1) s e) = find C (keyLeveldb d2 n2) s :=
  find_insert_other C _ _ s e (fun h => hne (keyLeveldb_injective d1 d2 n1 n2 hd1 hd2 h))

/-! ### what comes back IS what was written (Spec.sameEntry) -/

theorem effId_after_before (s : List Char) (f : Option Fid) :
    effId (afterId (beforeId s f).1 (beforeId s f).2).1 (afterId (beforeId s f).1 (beforeId s f).2).2 = writtenId s f := by
  unfold beforeId writtenId canonId
  by_cases hs : s = []
  · subst hs
    cases f with
    | none => simp [afterId, effId]
    | some g => simp [afterId, effId]
  · simp only [hs, ne_eq, not_false_eq_true, if_true]
    cases hp : parseFid s with
    | some g => simp [afterId, effId]
    | none =>
      cases f with
      | none => simp [afterId, effId, hs]
      | some g => simp [afterId, effId, hs]

theorem effId_before (s : List Char) (f : Option Fid) :
    effId (beforeId s f).1 (beforeId s f).2 = writtenId s f := by
  unfold beforeId writtenId canonId
  by_cases hs : s = []
  · subst hs
    cases f <;> simp [effId]
  · simp only [hs, ne_eq, not_false_eq_true, if_true]
    cases hp : parseFid s with
    | some g => simp [effId]
    | none => simp [effId, hs]

theorem sameChunks_after_before (cs : List Chunk) : sameChunks cs ((cs.map beforeChunk).map afterChunk) = true := by
  induction cs with
  | nil => rfl
  | cons c cs ih =>
    simp only [List.map_cons, sameChunks, ih, Bool.and_true]
    simp only [sameChunk, afterChunk, beforeChunk, effId_after_before, decide_true, and_self]

theorem sameChunks_before (cs : List Chunk) : sameChunks cs (cs.map beforeChunk) = true := by
  induction cs with
  | nil => rfl
  | cons c cs ih =>
    simp only [List.map_cons, sameChunks, ih, Bool.and_true]
    simp only [sameChunk, beforeChunk, effId_before, decide_true, and_self]

/-- MAIN: what lookup (and the wrapper's listing) returns after an insert is the written entry in
    the sense of the specification: all fields equal, every chunk's effective file id is the
    canonical form of the written id -/
theorem find_returns_written (C : Codec) (hC : C.Sound) (key : Bytes) (s : KV) (e : Entry) :
    ∃ r, find C key (SwV.Model.C24.insert C key s e) = some r ∧ sameEntry e r = true := by
  refine ⟨_, find_insert C hC key s e, ?_⟩
  have h := sameChunks_after_before e.chunks
  simp only [List.map_map] at h
  simp [sameEntry, afterEntry, beforeEntry, canonMime, h]

/-- the same through the native prefixed listing path -/
theorem list_returns_written (C : Codec) (hC : C.Sound) (key : Bytes) (s : KV) (e : Entry) :
    ∃ r, listRaw C key (SwV.Model.C24.insert C key s e) = some r ∧ sameEntry e r = true := by
  refine ⟨_, list_insert C hC key s e, ?_⟩
  simp [sameEntry, beforeEntry, canonMime, sameChunks_before]

/-- non-vacuity: a sound codec exists (tag byte followed by an injective stand-in encoding is
    not constructible without the byte format, so we exhibit soundness on the model level with
    the identity-on-a-table codec for one entry) -/
example : sameEntry ⟨[], 0, "application/octet-stream".toList, [⟨"3,0001637037d6".toList, none, [], none, "p"⟩], []⟩
    (afterEntry (beforeEntry ⟨[], 0, "application/octet-stream".toList, [⟨"3,0001637037d6".toList, none, [], none, "p"⟩], []⟩)) = true := by
  decide +kernel

/-! ### concurrent writers: atomic inserts of distinct paths commute -/

theorem kvGet_insertAll_absent (C : Codec) (k : Bytes) : ∀ (l : List (Bytes × Entry)) (s : KV), k ∉ l.map (·.1) →
    kvGet (insertAll C s l) k = kvGet s k := by
  intro l
  induction l with
  | nil => intro s _; rfl
  | cons p t ih =>
    intro s h
    simp only [List.map_cons, List.mem_cons, not_or] at h
    unfold insertAll
    simp only [List.foldl_cons]
    have := ih (SwV.Model.C24.insert C p.1 s p.2) h.2
    unfold insertAll at this
    rw [this]
    unfold SwV.Model.C24.insert
    exact kvGet_put_other _ _ _ _ (fun hk => h.1 hk.symm)

theorem kvGet_insertAll_mem (C : Codec) (k : Bytes) (e : Entry) : ∀ (l : List (Bytes × Entry)) (s : KV), (l.map (·.1)).Nodup →
    (k, e) ∈ l → kvGet (insertAll C s l) k = some (storeValue C (beforeEntry e)) := by
  intro l
  induction l with
  | nil => intro s _ h; cases h
  | cons p t ih =>
    intro s hnd hmem
    simp only [List.map_cons, List.nodup_cons] at hnd
    rcases List.mem_cons.1 hmem with h | h
    · subst h
      have := kvGet_insertAll_absent C k t (SwV.Model.C24.insert C k s e) hnd.1
      unfold insertAll at this ⊢
      simp only [List.foldl_cons]
      rw [this]
      unfold SwV.Model.C24.insert
      exact kvGet_put_same _ _ _
    · have := ih (SwV.Model.C24.insert C p.1 s p.2) hnd.2 h
      unfold insertAll at this ⊢
      simp only [List.foldl_cons]
      exact this

/-- CONCURRENT WRITERS: whatever order (permutation `l'`) the atomic inserts of a batch with pairwise
    distinct keys are executed in, and whatever the store held before, every entry of the batch is found
    afterwards and reads back as what ITS writer wrote -/
theorem concurrent_inserts_commute (C : Codec) (hC : C.Sound) (s : KV) (l l' : List (Bytes × Entry))
    (hperm : l'.Perm l) (hnd : (l.map (·.1)).Nodup) (k : Bytes) (e : Entry) (hmem : (k, e) ∈ l) :
    find C k (insertAll C s l') = some (afterEntry (beforeEntry e)) ∧
    ∃ r, find C k (insertAll C s l') = some r ∧ sameEntry e r = true := by
  have hnd' : (l'.map (·.1)).Nodup := (List.Perm.nodup_iff (List.Perm.map _ hperm)).2 hnd
  have hmem' : (k, e) ∈ l' := (List.Perm.mem_iff hperm).2 hmem
  have hfind : find C k (insertAll C s l') = some (afterEntry (beforeEntry e)) := by
    unfold find
    rw [kvGet_insertAll_mem C k e l' s hnd' hmem']
    simp only [value_roundtrip C hC, Option.map_some]
  refine ⟨hfind, _, hfind, ?_⟩
  have := find_returns_written C hC k [] e
  obtain ⟨r, hr, hs⟩ := this
  rw [find_insert C hC k [] e] at hr
  cases hr; exact hs

/-- … in particular two orders of the same batch give the same answer for every key of the batch -/
theorem concurrent_inserts_order_irrelevant (C : Codec) (hC : C.Sound) (s : KV) (l l' : List (Bytes × Entry))
    (hperm : l'.Perm l) (hnd : (l.map (·.1)).Nodup) (k : Bytes) (e : Entry) (hmem : (k, e) ∈ l) :
    find C k (insertAll C s l') = find C k (insertAll C s l) := by
  rw [(concurrent_inserts_commute C hC s l l' hperm hnd k e hmem).1,
    (concurrent_inserts_commute C hC s l l (List.Perm.refl l) hnd k e hmem).1]

/-! ### hard links: lookup and native listing disagree (known finding) -/

/-- FULL-STRENGTH "equal via lookup and via listing" is FALSE for hard links — known finding
    Filer.ListDirectoryEntries/hard-link-not-resolved: after a second link of the file was written
    (`shared`), lookup resolves the link, the native prefixed listing returns the stale own copy -/
theorem hardlink_listing_stale_witness :
    let own : Entry := ⟨["1", "1", "420", "0", "0", "-", "-", "0", "-", "-", "-", "-", "-", "5"], 420, [], [], ["-", "01aa", "1", "6331", "-"]⟩
    let shared : Entry := ⟨["1", "1", "420", "0", "0", "-", "-", "0", "-", "-", "-", "-", "-", "7"], 420, [], [], ["-", "01aa", "2", "63326332", "-"]⟩
    readResolved own (some shared) = shared ∧ readRaw own (some shared) = own ∧ sameEntry shared (readRaw own (some shared)) = false := by
  decide +kernel

/-- without a hard link id both read paths agree up to `AfterEntryDeserialization`, i.e. on every effective file id
    (`find_returns_written` / `list_returns_written` above) -/
theorem readResolved_no_hardlink (own : Entry) (shared : Option Entry) (h : hardLinkId own = "-") :
    readResolved own shared = afterEntry (readRaw own shared) := by
  unfold readResolved readRaw; rw [if_pos h]

/-! ### canonical file ids -/

/-- what `parseFid` returns is in range -/
theorem parseFid_bounds (s : List Char) (g : Fid) (h : parseFid s = some g) :
    g.vid < 2 ^ 32 ∧ g.key < 2 ^ 64 ∧ g.cookie < 2 ^ 32 := by
  unfold parseFid at h
  split at h
  · cases h
  · rename_i v kc _
    split at h
    · cases h
    · rename_i vid hv
      split at h
      · cases h
      · rename_i k c hkc
        cases h
        refine ⟨Nat.mod_lt _ (by decide), ?_, ?_⟩
        · unfold parseNeedleIdCookie at hkc
          split at hkc; · cases hkc
          split at hkc; · cases hkc
          simp only at hkc
          split at hkc
          · rename_i k' c' hk hc
            cases hkc
            unfold parseUint at hk
            split at hk
            · cases hk
            · split at hk
              · cases hk; assumption
              · cases hk
          · cases hkc
        · unfold parseNeedleIdCookie at hkc
          split at hkc; · cases hkc
          split at hkc; · cases hkc
          simp only at hkc
          split at hkc
          · rename_i k' c' hk hc
            cases hkc
            unfold parseUint at hc
            split at hc
            · cases hc
            · split at hc
              · cases hc; assumption
              · cases hc
          · cases hkc

/-- a Fid with key 0 formats to a string that does not parse (8 hex characters are "too short") -/
theorem parseFid_key0 (v c : Nat) : parseFid (fidString ⟨v, 0, c⟩) = none := by
  unfold parseFid fidString
  simp only
  rw [splitAtComma_sep _ _ (natToDec_ne_nil v) (natToDec_no_comma v)]
  simp only
  have h0 : dropLeadingZeroBytes (beBytes 8 0) = [] := by decide
  have hl : (formatNeedleIdCookie 0 c).length = 8 := by
    unfold formatNeedleIdCookie
    rw [h0, List.nil_append, hexOfBytes_length, beBytes_length]
  have : parseNeedleIdCookie (formatNeedleIdCookie 0 c) = none := by
    unfold parseNeedleIdCookie; rw [hl]; simp
  rw [this]
  split <;> rfl

/-- formatting what was parsed either no longer parses (key 0) or parses to the same value -/
theorem parse_format_parse (s : List Char) (g : Fid) (h : parseFid s = some g) :
    parseFid (fidString g) = none ∨ parseFid (fidString g) = some g := by
  obtain ⟨hv, hk, hc⟩ := parseFid_bounds s g h
  rcases g with ⟨v, k, c⟩
  by_cases hk0 : k = 0
  · left; subst hk0; exact parseFid_key0 v c
  · right; exact fid_roundtrip_lemma v k c (by omega) hk hv hc

/-- canonicalising file ids is idempotent, for EVERY string -/
theorem fid_canonical_idempotent (s : List Char) : canonId (canonId s) = canonId s := by
  unfold canonId
  cases h : parseFid s with
  | none => simp [h]
  | some g =>
    simp only
    rcases parse_format_parse s g h with h' | h' <;> simp [h']

/-- … and value-preserving: a string that denotes (volume, key ≠ 0, cookie) is replaced by a string
    that denotes the same triple -/
theorem fid_canonical_value_preserving (s : List Char) (g : Fid) (h : parseFid s = some g) (hk : g.key ≠ 0) :
    parseFid (canonId s) = some g := by
  obtain ⟨hv, hk', hc⟩ := parseFid_bounds s g h
  unfold canonId; rw [h]
  rcases g with ⟨v, k, c⟩
  exact fid_roundtrip_lemma v k c (by simp at hk; omega) hk' hv hc

/-- FULL-STRENGTH value preservation is FALSE for key 0 (outside the domain: needle keys start at 1) -/
theorem fid_key0_not_preserved_witness :
    parseFid "3,00000000000000001234abcd".toList = some ⟨3, 0, 0x1234abcd⟩ ∧
    parseFid (canonId "3,00000000000000001234abcd".toList) = none := by
  decide +kernel

/-- non-vacuity of `fid_canonical_value_preserving` -/
example : parseFid (canonId "3,0001637037d6".toList) = some ⟨3, 1, 0x637037d6⟩ :=
  fid_canonical_value_preserving _ _ (by decide +kernel) (by decide)

/-! ### bridges to the regenerated source facts (T1) -/

/-- the three stores gzip above the same threshold the model uses, and `IsGzippedContent` tests the
    two magic bytes of `looksGzip` -/
theorem bridge_gzip_threshold_and_magic :
    SwV.Gen.C24.gzipCondLeveldb = "len(entry.Chunks) > 50" ∧ SwV.Gen.C24.gzipCondLeveldb2 = "len(entry.Chunks) > 50" ∧
    SwV.Gen.C24.gzipCondLeveldb3 = "len(entry.Chunks) > 50" ∧
    SwV.Gen.C24.gzipMagicTest = "data[0] == 31 && data[1] == 139" ∧ SwV.Gen.C24.gzipMagicLenGuard = "len(data) < 2" := by
  decide

/-- `GzipData` returns the bytes of a buffer it allocated itself (`buf := new(bytes.Buffer)`), so the value a
    store hands to `db.Put` is private to that insert — the fact behind "an insert is one atomic step" — and
    the function is otherwise unchanged -/
theorem bridge_gzip_fresh_buffer :
    SwV.Gen.C24.gzipOutputBuffer = "buf := new(bytes.Buffer)" ∧ SwV.Gen.C24.src_GzipData = "c0dd50744adf9eeb" := by
  decide

/-- the functions the model transcribes are unchanged (source hashes) -/
theorem bridge_pinned_sources :
    SwV.Gen.C24.src_BeforeEntrySerialization = "aebc786f3bb2d4fa" ∧ SwV.Gen.C24.src_AfterEntryDeserialization = "259c0eea2ce14d16" ∧
    SwV.Gen.C24.src_MaybeGzipData = "5103381fbc7c42f6" ∧ SwV.Gen.C24.src_MaybeDecompressData = "c15859469e3aa682" ∧
    SwV.Gen.C24.src_EncodeAttributesAndChunks = "03f8be5d30c4833d" ∧ SwV.Gen.C24.src_IsGzippedContent = "8372add8b26a7de0" ∧
    SwV.Gen.C24.src_ToExistingProtoEntry = "c5fa3ea5fdf7885b" := by
  decide

end SwV.Props.C24
