/-
C25  Filer HTTP writes store exactly the request body.

Theorems about the MODEL of the filer's write handlers (SwV.Model.C25, tied to the Go code by the
correspondence check).  "What is stored" is always read back through the C17 model of the filer's chunk
reader (`readBack` = viewFromChunks + readAt) and the resolution step is discharged with C17's overlay
theorem `readAt_eq_overlay_model` — the theorems below are about the bytes a reader gets, not about a
private notion of content.

  stored_eq_body            FULL for error-free bodies outside the class `InlineDropsRest`
  inline_drops_rest         the excluded class characterised exactly (+ witness): known findings
                            uploadReaderToChunks/{etc-file,inline-limit-above-chunk-size}-keeps-first-chunk-only
  append_contiguous_partial hypothesis `extent chunks = FileSize attribute` = complement of the known finding
                            saveMetaData/append-offset-from-FileSize-attr (+ witness of the full statement failing)
  failed_body_not_committed FULL for failing bodies outside the class `InlineHidesError`: the request is answered
                            499, the entry at the path stays what it was, and exactly the chunks uploaded before
                            the failing read (they tile the whole reads before the error) are handed to
                            Filer.DeleteChunks.  (Finding uploadReaderToChunks/read-error-treated-as-eof, repaired
                            in /repo by c68165d2: before it EVERY failing body was answered 201 and those chunks
                            were committed as the file.)
  upload_failure_not_committed  FULL: every attempt to store one of the request's chunks is refused (dataToChunk gives
                            up after three) ⇒ 500, the entry at the path stays what it was, every other chunk of the
                            request — also those that complete after the failure — goes to Filer.DeleteChunks;
                            upload_failure_judge_ok: the model passes the judge clause `uploadFailJudge`;
                            upload_has_chunk: which (body, k) have such a chunk
  failed_body_hidden_by_inline  the excluded class characterised exactly (+ witness): the first read was taken as
                            the inline content, the loop never reads on and never meets the error — the same two
                            open …-keeps-first-chunk-only findings as `inline_drops_rest`
-/
import SwV.Model.C25
import SwV.Spec.C25
import SwV.Props.C17
import SwV.Lemmas.C25
import SwV.Gen.C25
namespace SwV.Props.C25
open SwV.Model.C25 SwV.Spec.C25 SwV.Lemmas.C25
open SwV.Model.C17 (maxInt64)

/-- the first read is taken as the inline content although the body is longer than one read -/
def InlineDropsRest (cs limit : Nat) (isAppend etc : Bool) (body : List Nat) : Prop :=
  isAppend = false ∧ (cs < limit ∨ etc = true) ∧ cs < body.length

/-- every chunk lies inside [0, content.length) and shows bytes of `content` at its offset, and the chunks
    cover [0, content.length).  (`inside` is needed: see `tiles_needs_inside`.) -/
structure Tiles (cs : List MChunk) (content : List Nat) : Prop where
  inside : ∀ c ∈ cs, c.off + c.data.length ≤ content.length
  agree : ∀ c ∈ cs, ∀ i, i < c.data.length → content[c.off + i]? = c.data[i]?
  cover : ∀ p, p < content.length → ∃ c ∈ cs, c.off ≤ p ∧ p < c.off + c.data.length

theorem getD_of_lt (l : List Nat) (i : Nat) (h : i < l.length) : l.getD i 0 = l[i] := by
  simp [List.getD_eq_getElem?_getD, h]

/-! ### resolution: what a reader gets from a tiling chunk list -/

/-- resolution lemma: through C17's `readAt_eq_overlay_model` (via `readBack_spec`) every delivered byte is
    `ByteOk`; for a tiling chunk list `ByteOk` determines the byte -/
theorem readBack_of_tiles (e : Entry) (content : List Nat) (h : Tiles e.chunks content) (hc : e.content = [])
    (hfs : e.fileSize = content.length) (hmax : content.length ≤ maxInt64) : readBack e = content := by
  have hext : extent e.chunks ≤ content.length := extent_le _ _ (fun c hc => h.inside c hc)
  have hsize : e.size = content.length := by
    simp only [Entry.size, hc, List.length_nil]; omega
  by_cases h0 : content.length = 0
  · have hnil : content = [] := List.eq_nil_of_length_eq_zero h0
    unfold readBack
    rw [if_pos (by omega)]
    simp [hc, hnil]
  · obtain ⟨hl, hb⟩ := readBack_spec e (by rw [hc]; simp only [List.length_nil]; omega) (by omega)
    apply List.ext_getElem (by omega)
    intro i h1 h2
    have hbi := hb i (by omega)
    rw [getD_of_lt _ _ h1] at hbi
    refine byteOk_of_agree e.chunks i content[i] _ ?_ (h.cover i h2) hbi
    intro mc hmc hlo hhi
    have := h.agree mc hmc (i - mc.off) (by omega)
    rw [← this]
    have heq : mc.off + (i - mc.off) = i := by omega
    rw [heq]
    exact List.getElem?_eq_getElem h2

example : Tiles ([⟨0, 1, [7, 8]⟩, ⟨2, 1, [9]⟩] : List MChunk) [7, 8, 9] := by
  refine ⟨by decide, ?_, by decide⟩
  intro c hc i hi
  simp only [List.mem_cons, List.not_mem_nil, or_false] at hc
  rcases hc with rfl | rfl
  · have : i = 0 ∨ i = 1 := by simp at hi; omega
    rcases this with rfl | rfl <;> rfl
  · have : i = 0 := by simp at hi; omega
    subst this; rfl

/-- without `inside` the resolution lemma is false: an EMPTY chunk beyond the content satisfies `agree`
    vacuously but extends the file (Entry.size = chunk extent), and the reader zero-fills up to it -/
theorem tiles_needs_inside :
    let e : Entry := { fileSize := 1, content := [], chunks := [⟨0, 1, [1]⟩, ⟨5, 1, []⟩] }
    (∀ c ∈ e.chunks, ∀ i, i < c.data.length → ([1] : List Nat)[c.off + i]? = c.data[i]?) ∧
    (∀ p, p < ([1] : List Nat).length → ∃ c ∈ e.chunks, c.off ≤ p ∧ p < c.off + c.data.length) ∧
    (readBack e).length = 5 := by
  intro e
  refine ⟨?_, by decide, ?_⟩
  · intro c hc i hi
    simp only [e, List.mem_cons, List.not_mem_nil, or_false] at hc
    rcases hc with rfl | rfl
    · have : i = 0 := by simp at hi; omega
      subst this; rfl
    · simp at hi
  · exact (readBack_spec e (by decide) (by decide)).1

/-! ### the handler, by cases of saveMetaData -/

theorem handle_fresh (existing : Option Entry) (m : Method) (hm : m ≠ .postRaw) (isAppend : Bool)
    (hfresh : isAppend = false ∨ existing = none) (cs limit : Nat) (etc : Bool) (gen : Nat) (avail : List Nat) (fails : Bool)
    (hr : (uploadReaderToChunks cs limit isAppend etc gen avail fails).readErr = false) :
    handle existing m isAppend cs limit etc gen avail fails =
      (201, some { fileSize := (uploadReaderToChunks cs limit isAppend etc gen avail fails).chunkOffset,
                   content := (uploadReaderToChunks cs limit isAppend etc gen avail fails).small,
                   chunks := (uploadReaderToChunks cs limit isAppend etc gen avail fails).chunks }, []) := by
  have hsave : ∀ u, saveMetaData existing isAppend u = .ok { fileSize := u.chunkOffset, content := u.small, chunks := u.chunks } := by
    intro u
    unfold saveMetaData
    rcases hfresh with h | h
    · subst h; simp
    · subst h; cases isAppend <;> simp
  unfold handle
  cases m with
  | postRaw => exact absurd rfl hm
  | put => simp [hsave, hr]
  | postMultipart => simp [hsave, hr]

theorem handle_append (p : Entry) (hinl : p.content = []) (m : Method) (hm : m ≠ .postRaw)
    (cs limit : Nat) (etc : Bool) (gen : Nat) (avail : List Nat) (fails : Bool)
    (hr : (uploadReaderToChunks cs limit true etc gen avail fails).readErr = false) :
    handle (some p) m true cs limit etc gen avail fails =
      (201, some { fileSize := p.fileSize + (uploadReaderToChunks cs limit true etc gen avail fails).chunkOffset,
                   content := [],
                   chunks := p.chunks ++ (uploadReaderToChunks cs limit true etc gen avail fails).chunks.map (shift p.fileSize) }, []) := by
  have hsave : ∀ u, saveMetaData (some p) true u =
      .ok { fileSize := p.fileSize + u.chunkOffset, content := [], chunks := p.chunks ++ u.chunks.map (shift p.fileSize) } := by
    intro u
    unfold saveMetaData
    simp [hinl]
  unfold handle
  cases m with
  | postRaw => exact absurd rfl hm
  | put => simp [hsave, hr]
  | postMultipart => simp [hsave, hr]

/-- an error-free body never makes the upload loop remember a read error -/
theorem upload_readErr_nofail (cs limit : Nat) (isAppend etc : Bool) (gen : Nat) (avail : List Nat) :
    (uploadReaderToChunks cs limit isAppend etc gen avail false).readErr = false :=
  loop_readErr_nofail cs limit (!isAppend) etc gen _ _ _ _

/-- error-free body, inline branch not taken: everything is uploaded as chunks tiling the body -/
theorem upload_nofail (cs limit gen : Nat) (hcs : 0 < cs) (isAppend etc : Bool) (avail : List Nat) (fuel : Nat)
    (hf : avail.length < fuel)
    (hni : avail = [] ∨ isAppend = true ∨ (etc = false ∧ limit ≤ min cs avail.length)) :
    ∃ new, uploadLoop cs limit (!isAppend) etc gen false fuel avail 0 [] = ⟨new, avail.length, [], false⟩ ∧ Tiles new avail := by
  obtain ⟨new, h1, h2⟩ := loop_nofail cs limit (!isAppend) etc gen hcs fuel avail 0 [] hf (by
    rcases hni with h | h | h
    · exact Or.inl h
    · exact Or.inr (Or.inr (Or.inl (by simp [h])))
    · exact Or.inr (Or.inr (Or.inr h)))
  refine ⟨new, by simpa using h1, ?_, ?_, ?_⟩
  · intro c hc; simpa using h2.hi c hc
  · intro c hc i hi; simpa using h2.agree c hc i hi
  · intro q hq; simpa using h2.cover q hq

/-! ### MAIN 1: PUT/POST stores the body -/

/-- an entry whose inline content covers its size reads back as that content -/
theorem readBack_inline (piece : List Nat) :
    readBack { fileSize := piece.length, content := piece, chunks := [] } = piece := by
  unfold readBack
  simp [Entry.size, extent]

/-- FULL for error-free bodies outside the class `InlineDropsRest`: a PUT / multipart POST (no append, or
    append to a name that does not exist) is answered 201 and a reader of the stored entry gets the body -/
theorem stored_eq_body (cs limit gen : Nat) (hcs : 0 < cs) (body : List Nat) (hmax : body.length ≤ maxInt64)
    (m : Method) (hm : m ≠ .postRaw) (isAppend etc : Bool) (existing : Option Entry)
    (hfresh : isAppend = false ∨ existing = none)
    (hno : ¬ InlineDropsRest cs limit isAppend etc body) :
    ∃ e, handle existing m isAppend cs limit etc gen body false = (201, some e, []) ∧ readBack e = body := by
  refine ⟨_, handle_fresh existing m hm isAppend hfresh cs limit etc gen body false (upload_readErr_nofail ..), ?_⟩
  by_cases hin : isAppend = false ∧ body ≠ [] ∧ ((body.take cs).length < limit ∨ etc = true)
  · obtain ⟨ha, hne, hl⟩ := hin
    have hlen : body.length ≤ cs := by
      apply Nat.le_of_not_lt
      intro hlt
      apply hno
      refine ⟨ha, ?_, hlt⟩
      simp only [List.length_take] at hl
      rcases hl with hl | hl
      · exact Or.inl (by omega)
      · exact Or.inr hl
    have htk : body.take cs = body := List.take_of_length_le hlen
    have hpos : body.length ≠ 0 := fun h => hne (List.eq_nil_of_length_eq_zero h)
    have hu : uploadReaderToChunks cs limit isAppend etc gen body false = ⟨[], body.length, body, false⟩ := by
      subst ha
      unfold uploadReaderToChunks uploadLoop
      rw [htk] at hl ⊢
      simp [hpos, hl]
    rw [hu]
    exact readBack_inline body
  · have hni : body = [] ∨ isAppend = true ∨ (etc = false ∧ limit ≤ min cs body.length) := by
      by_cases hb : body = []
      · exact Or.inl hb
      · cases isAppend with
        | true => exact Or.inr (Or.inl rfl)
        | false =>
          refine Or.inr (Or.inr ?_)
          simp only [List.length_take] at hin
          cases etc with
          | true => exact absurd ⟨trivial, hb, Or.inr rfl⟩ hin
          | false =>
            refine ⟨rfl, ?_⟩
            apply Nat.le_of_not_lt
            intro hlt
            exact hin ⟨trivial, hb, Or.inl hlt⟩
    obtain ⟨new, hu, ht⟩ := upload_nofail cs limit gen hcs isAppend etc body (body.length + 1) (by omega) hni
    have hu' : uploadReaderToChunks cs limit isAppend etc gen body false = ⟨new, body.length, [], false⟩ := hu
    rw [hu']
    exact readBack_of_tiles _ body ht rfl rfl hmax

example : 0 < 4 ∧ ([1, 2, 3, 4, 5, 6] : List Nat).length ≤ maxInt64 ∧ Method.put ≠ .postRaw ∧
    (false = false ∨ (none : Option Entry) = none) ∧ ¬ InlineDropsRest 4 2 false false [1, 2, 3, 4, 5, 6] := by
  unfold InlineDropsRest; decide

/-! ### the excluded class (known findings …-keeps-first-chunk-only) -/

/-- exactly on `InlineDropsRest` the request is answered 201 and only the first read is stored -/
theorem inline_drops_rest (cs limit gen : Nat) (hcs : 0 < cs) (body : List Nat) (m : Method) (hm : m ≠ .postRaw) (etc : Bool)
    (existing : Option Entry) (h : InlineDropsRest cs limit false etc body) :
    ∃ e, handle existing m false cs limit etc gen body false = (201, some e, []) ∧ readBack e = body.take cs ∧ readBack e ≠ body := by
  obtain ⟨-, hl, hlt⟩ := h
  refine ⟨_, handle_fresh existing m hm false (Or.inl rfl) cs limit etc gen body false (upload_readErr_nofail ..), ?_⟩
  have hpl : (body.take cs).length = cs := by simp only [List.length_take]; omega
  have hu : uploadReaderToChunks cs limit false etc gen body false = ⟨[], (body.take cs).length, body.take cs, false⟩ := by
    unfold uploadReaderToChunks uploadLoop
    have h0 : cs ≠ 0 := by omega
    simp [hpl, h0, hl]
  rw [hu]
  have hrb := readBack_inline (body.take cs)
  refine ⟨hrb, ?_⟩
  rw [hrb]
  intro heq
  have := congrArg List.length heq
  omega

example : 0 < 4 ∧ Method.put ≠ .postRaw ∧ InlineDropsRest 4 8 false false [1, 2, 3, 4, 5, 6] := by
  unfold InlineDropsRest; decide

/-- witness: chunk size 4, inline limit 8, body of 6 bytes: answered 201, the stored file is the first 4 bytes -/
theorem inline_drops_rest_witness :
    handle none .put false 4 8 false 1 [1, 2, 3, 4, 5, 6] false = (201, some ⟨4, [1, 2, 3, 4], []⟩, []) ∧
    readBack ⟨4, [1, 2, 3, 4], []⟩ = [1, 2, 3, 4] := by
  decide

/-! ### MAIN 3: a failing body is reported as failed and nothing is committed
     (finding uploadReaderToChunks/read-error-treated-as-eof, repaired in /repo by c68165d2) -/

/-- the first read (one whole chunk, delivered before the failure) is taken as the inline content: the loop
    stops reading and never meets the error -/
def InlineHidesError (cs limit : Nat) (isAppend etc : Bool) (avail : List Nat) : Prop :=
  isAppend = false ∧ (cs < limit ∨ etc = true) ∧ cs ≤ avail.length

/-- the upload loop on a failing body outside `InlineHidesError`: the read error is remembered, and what was
    uploaded are chunks tiling the whole reads before the error -/
theorem upload_fails (cs limit gen : Nat) (hcs : 0 < cs) (isAppend etc : Bool) (avail : List Nat)
    (hno : ¬ InlineHidesError cs limit isAppend etc avail) :
    ∃ del j, uploadReaderToChunks cs limit isAppend etc gen avail true = ⟨del, j * cs, [], true⟩ ∧
      j * cs ≤ avail.length ∧ avail.length < (j + 1) * cs ∧ Tiles del (avail.take (j * cs)) := by
  have hdm := Nat.div_add_mod avail.length cs
  have hml := Nat.mod_lt avail.length hcs
  rw [Nat.mul_comm] at hdm
  have hsm : (avail.length / cs + 1) * cs = avail.length / cs * cs + cs := Nat.succ_mul _ _
  have hj1 : avail.length / cs * cs ≤ avail.length := by omega
  have hj2 : avail.length < (avail.length / cs + 1) * cs := by omega
  clear hdm hml hsm
  generalize avail.length / cs = j at hj1 hj2
  have hcases : isAppend = true ∨ (etc = false ∧ limit ≤ cs) ∨ avail.length < cs := by
    unfold InlineHidesError at hno
    cases isAppend with
    | true => exact Or.inl rfl
    | false =>
      refine Or.inr ?_
      by_cases hl : avail.length < cs
      · exact Or.inr hl
      · refine Or.inl ?_
        cases etc with
        | true => exact absurd ⟨rfl, Or.inr rfl, by omega⟩ hno
        | false =>
          refine ⟨rfl, ?_⟩
          apply Nat.le_of_not_lt
          intro h
          exact hno ⟨rfl, Or.inl h, by omega⟩
  have hpl : (avail.take (j * cs)).length = j * cs := by simp only [List.length_take]; omega
  have hfe := loop_fails cs limit (!isAppend) etc gen hcs (avail.length + 1) avail 0 [] j (by omega) hj1 hj2
    (by
      rcases hcases with h | h | h
      · exact Or.inr (Or.inl (by simp [h]))
      · exact Or.inr (Or.inr (Or.inl h))
      · exact Or.inr (Or.inr (Or.inr h)))
  obtain ⟨new, hu, ht⟩ := upload_nofail cs limit gen hcs isAppend etc (avail.take (j * cs)) (avail.length + 1)
    (by omega) (by
      rcases hcases with h | ⟨h, h'⟩ | h
      · exact Or.inr (Or.inl h)
      · cases j with
        | zero => exact Or.inl (by simp)
        | succ j =>
          have hsj : (j + 1) * cs = j * cs + cs := Nat.succ_mul j cs
          exact Or.inr (Or.inr ⟨h, by omega⟩)
      · cases j with
        | zero => exact Or.inl (by simp)
        | succ j =>
          have hsj : (j + 1) * cs = j * cs + cs := Nat.succ_mul j cs
          omega)
  refine ⟨new, j, ?_, hj1, hj2, ht⟩
  unfold uploadReaderToChunks
  rw [hfe, hu, hpl]

example : 0 < 4 ∧ ¬ InlineHidesError 4 0 false false [1, 2, 3, 4, 5, 6] := by
  unfold InlineHidesError; decide

/-- FULL for failing bodies outside the class `InlineHidesError` (the property's third clause): whatever the
    body delivered before it failed (`avail`), whatever is stored at the path, PUT or multipart POST, append or
    not — the request is answered 499, the entry at the path is what it was, and the chunks handed to
    Filer.DeleteChunks are ALL chunks this request uploaded: they tile exactly the whole reads before the error -/
theorem failed_body_not_committed (cs limit gen : Nat) (hcs : 0 < cs) (avail : List Nat) (m : Method) (hm : m ≠ .postRaw)
    (isAppend etc : Bool) (existing : Option Entry) (hno : ¬ InlineHidesError cs limit isAppend etc avail) :
    ∃ del j, handle existing m isAppend cs limit etc gen avail true = (499, existing, del) ∧
      del = (uploadReaderToChunks cs limit isAppend etc gen avail true).chunks ∧
      j * cs ≤ avail.length ∧ avail.length < (j + 1) * cs ∧ Tiles del (avail.take (j * cs)) := by
  obtain ⟨del, j, hu, h1, h2, ht⟩ := upload_fails cs limit gen hcs isAppend etc avail hno
  refine ⟨del, j, ?_, by rw [hu], h1, h2, ht⟩
  unfold handle
  cases m with
  | postRaw => exact absurd rfl hm
  | put => simp [hu]
  | postMultipart => simp [hu]

example : 0 < 4 ∧ Method.put ≠ .postRaw ∧ ¬ InlineHidesError 4 0 true false [1, 2, 3, 4, 5, 6] := by
  unfold InlineHidesError; decide

/-- in particular no failing body outside the class is answered 2xx, and a reader of the path gets what it got before -/
theorem failed_body_reported_failed (cs limit gen : Nat) (hcs : 0 < cs) (avail : List Nat) (m : Method) (hm : m ≠ .postRaw)
    (isAppend etc : Bool) (existing : Option Entry) (hno : ¬ InlineHidesError cs limit isAppend etc avail) :
    is2xx (handle existing m isAppend cs limit etc gen avail true).1 = false ∧
    contentOpt (handle existing m isAppend cs limit etc gen avail true).2.1 = contentOpt existing := by
  obtain ⟨del, j, h, -⟩ := failed_body_not_committed cs limit gen hcs avail m hm isAppend etc existing hno
  rw [h]
  exact ⟨by simp [is2xx], rfl⟩

example : 0 < 4 ∧ Method.postMultipart ≠ .postRaw ∧ ¬ InlineHidesError 4 8 false false [1, 2, 3] := by
  unfold InlineHidesError; decide

/-- a raw (non-multipart) POST is refused before any read of the body -/
theorem raw_post_refused (existing : Option Entry) (isAppend : Bool) (cs limit : Nat) (etc : Bool) (gen : Nat)
    (avail : List Nat) (fails : Bool) :
    handle existing .postRaw isAppend cs limit etc gen avail fails = (500, existing, []) := rfl

/-- the excluded class characterised exactly: the first whole chunk is stored inline, the request is answered
    201, the read error is never met (open findings …-keeps-first-chunk-only: "the rest of the body is dropped") -/
theorem failed_body_hidden_by_inline (cs limit gen : Nat) (hcs : 0 < cs) (avail : List Nat) (m : Method) (hm : m ≠ .postRaw)
    (etc : Bool) (existing : Option Entry) (h : InlineHidesError cs limit false etc avail) :
    ∃ e, handle existing m false cs limit etc gen avail true = (201, some e, []) ∧ readBack e = avail.take cs := by
  obtain ⟨-, hl, hge⟩ := h
  have hpl : (avail.take cs).length = cs := by simp only [List.length_take]; omega
  have hu : uploadReaderToChunks cs limit false etc gen avail true = ⟨[], (avail.take cs).length, avail.take cs, false⟩ := by
    unfold uploadReaderToChunks uploadLoop
    have h0 : cs ≠ 0 := by omega
    have hnl : ¬ avail.length < cs := by omega
    simp [hpl, h0, hl, hnl]
  refine ⟨_, handle_fresh existing m hm false (Or.inl rfl) cs limit etc gen avail true (by rw [hu]), ?_⟩
  rw [hu]
  exact readBack_inline (avail.take cs)

example : 0 < 4 ∧ Method.put ≠ .postRaw ∧ InlineHidesError 4 8 false false [1, 2, 3, 4, 5, 6] := by
  unfold InlineHidesError; decide

/-- witness of the repaired behaviour: chunk size 4, the body [1..10] fails after 6 bytes: answered 499, nothing
    stored, the one uploaded chunk [1,2,3,4] handed to deletion (before the repair: 201, file = [1,2,3,4]) -/
theorem failed_body_witness :
    handle none .put false 4 0 false 1 (([1, 2, 3, 4, 5, 6, 7, 8, 9, 10] : List Nat).take 6) true
      = (499, none, [⟨0, 1, [1, 2, 3, 4]⟩]) ∧
    handle (some ⟨3, [], [⟨0, 1, [7, 8, 9]⟩]⟩) .postMultipart true 4 0 false 2 [1, 2, 3, 4, 5, 6, 7, 8, 9] true
      = (499, some ⟨3, [], [⟨0, 1, [7, 8, 9]⟩]⟩, [⟨0, 2, [1, 2, 3, 4]⟩, ⟨4, 2, [5, 6, 7, 8]⟩]) := by
  decide

/-- witness of the excluded class: inline limit 8 above chunk size 4, the body fails after 6 bytes: answered 201,
    the file is the first chunk (the error is dropped with the rest of the body) -/
theorem failed_body_hidden_witness :
    handle none .put false 4 8 false 1 [1, 2, 3, 4, 5, 6] true = (201, some ⟨4, [1, 2, 3, 4], []⟩, []) := by
  decide

theorem append_inline_refused (cs limit gen : Nat) (body : List Nat) (m : Method) (etc : Bool) (p : Entry) (h : p.content ≠ []) :
    handle (some p) m true cs limit etc gen body false = (500, some p, []) := by
  have hr := upload_readErr_nofail cs limit true etc gen body
  unfold handle
  cases m <;> simp [saveMetaData, h, hr]

/-- whether or not the body fails: an append to an inline entry is answered with an error and leaves the entry -/
theorem append_inline_unchanged (cs limit gen : Nat) (body : List Nat) (m : Method) (etc : Bool) (p : Entry) (h : p.content ≠ [])
    (fails : Bool) :
    ∃ st del, handle (some p) m true cs limit etc gen body fails = (st, some p, del) ∧ (st = 500 ∨ st = 499) := by
  cases hr : (uploadReaderToChunks cs limit true etc gen body fails).readErr with
  | false =>
    refine ⟨500, [], ?_, Or.inl rfl⟩
    unfold handle
    cases m <;> simp [saveMetaData, h, hr]
  | true =>
    cases m with
    | postRaw => exact ⟨500, [], rfl, Or.inl rfl⟩
    | put =>
      exact ⟨499, (uploadReaderToChunks cs limit true etc gen body fails).chunks, by unfold handle; simp [hr], Or.inr rfl⟩
    | postMultipart =>
      exact ⟨499, (uploadReaderToChunks cs limit true etc gen body fails).chunks, by unfold handle; simp [hr], Or.inr rfl⟩

example : ({ fileSize := 1, content := [7], chunks := [] } : Entry).content ≠ [] := by decide

/-! ### MAIN 2: append -/

theorem readBack_empty (e : Entry) (h : e.size = 0) : readBack e = [] := by
  unfold readBack
  rw [if_pos (by omega), h]
  rfl

/-- `_partial` (hypothesis `hattr` = the complement of the known finding saveMetaData/append-offset-from-FileSize-attr):
    an append to a chunked entry whose FileSize attribute equals its chunk extent is answered 201 and a reader
    gets the old content followed by the body -/
theorem append_contiguous_partial (cs limit gen : Nat) (hcs : 0 < cs) (body : List Nat) (m : Method) (hm : m ≠ .postRaw) (etc : Bool)
    (p : Entry) (hinl : p.content = []) (hattr : extent p.chunks = p.fileSize)
    (hmax : p.fileSize + body.length ≤ maxInt64) :
    ∃ e, handle (some p) m true cs limit etc gen body false = (201, some e, []) ∧ readBack e = readBack p ++ body := by
  obtain ⟨new, hu, ht⟩ := upload_nofail cs limit gen hcs true etc body (body.length + 1) (by omega) (Or.inr (Or.inl rfl))
  have hu' : uploadReaderToChunks cs limit true etc gen body false = ⟨new, body.length, [], false⟩ := hu
  refine ⟨_, handle_append p hinl m hm cs limit etc gen body false (upload_readErr_nofail ..), ?_⟩
  rw [hu']
  generalize he : ({ fileSize := p.fileSize + body.length, content := [],
                     chunks := p.chunks ++ new.map (shift p.fileSize) } : Entry) = e
  have hec : e.content = [] := by rw [← he]
  have hech : e.chunks = p.chunks ++ new.map (shift p.fileSize) := by rw [← he]
  have hefs : e.fileSize = p.fileSize + body.length := by rw [← he]
  have hpsize : p.size = p.fileSize := by
    simp only [Entry.size, hinl, List.length_nil]; omega
  -- the appended chunks lie in [F, F + |body|) and show body there
  have hnew : ∀ mc ∈ new.map (shift p.fileSize), ∃ n ∈ new, mc.off = n.off + p.fileSize ∧ mc.data = n.data := by
    intro mc hmc
    obtain ⟨n, hn, rfl⟩ := List.mem_map.1 hmc
    exact ⟨n, hn, rfl, rfl⟩
  have hext : extent e.chunks ≤ p.fileSize + body.length := by
    apply extent_le
    intro c hc
    rw [hech] at hc
    rcases List.mem_append.1 hc with hc | hc
    · have := le_extent p.chunks c hc; omega
    · obtain ⟨n, hn, h1, h2⟩ := hnew c hc
      have := ht.inside n hn
      simp only [MChunk.stop, h1, h2]; omega
  have hesize : e.size = p.fileSize + body.length := by
    simp only [Entry.size, hec, List.length_nil]; omega
  by_cases h0 : p.fileSize + body.length = 0
  · have hb : body = [] := List.eq_nil_of_length_eq_zero (by omega)
    rw [readBack_empty e (by omega), readBack_empty p (by omega), hb]
    rfl
  · obtain ⟨hl, hb⟩ := readBack_spec e (by rw [hec]; simp only [List.length_nil]; omega) (by omega)
    have hpl : (readBack p).length = p.fileSize := by
      by_cases hp0 : p.fileSize = 0
      · rw [readBack_empty p (by omega), hp0]; rfl
      · have := (readBack_spec p (by rw [hinl]; simp only [List.length_nil]; omega) (by omega)).1
        omega
    apply List.ext_getElem (by simp only [List.length_append]; omega)
    intro i h1 h2
    have hbi := hb i (by omega)
    rw [getD_of_lt _ _ h1, hech] at hbi
    by_cases hi : i < p.fileSize
    · -- below the old size: no new chunk covers i, C17's content byte is determined (distinct keys)
      rw [List.getElem_append_left (by omega)]
      have hold := byteOk_append_left p.chunks (new.map (shift p.fileSize)) i _ (by
        intro mc hmc hcov
        obtain ⟨n, hn, h1, h2⟩ := hnew mc hmc
        omega) hbi
      have hpb := (readBack_spec p (by rw [hinl]; simp only [List.length_nil]; omega) (by omega)).2 i (by omega)
      rw [getD_of_lt _ _ (by omega)] at hpb
      exact SwV.Props.C17.byteOk_unique _ (keysDistinct_toC17 p.chunks) hold hpb
    · -- at and beyond the old size: only new chunks cover i, and they tile the body
      rw [List.getElem_append_right (by omega)]
      simp only [hpl]
      have hib : i - p.fileSize < body.length := by simp only [List.length_append] at h2; omega
      refine byteOk_of_agree _ i _ _ ?_ ?_ hbi
      · intro mc hmc hlo hhi
        rcases List.mem_append.1 hmc with hc | hc
        · have := le_extent p.chunks mc hc
          simp only [MChunk.stop] at this
          omega
        · obtain ⟨n, hn, e1, e2⟩ := hnew mc hc
          rw [e2] at hhi ⊢
          have := ht.agree n hn (i - mc.off) (by omega)
          rw [← this]
          have heq : n.off + (i - mc.off) = i - p.fileSize := by omega
          rw [heq]
          exact List.getElem?_eq_getElem hib
      · obtain ⟨n, hn, c1, c2⟩ := ht.cover (i - p.fileSize) hib
        refine ⟨shift p.fileSize n, List.mem_append_right _ (List.mem_map_of_mem hn), ?_, ?_⟩
        · simp only [shift]; omega
        · simp only [shift]; omega

example : ∃ p : Entry, 0 < 4 ∧ Method.put ≠ .postRaw ∧ p.content = [] ∧ extent p.chunks = p.fileSize ∧
    p.fileSize + ([9] : List Nat).length ≤ maxInt64 :=
  ⟨{ fileSize := 3, content := [], chunks := [⟨0, 1, [1, 2, 3]⟩] }, by decide⟩

open SwV.Model.C17 (Chunk Node resolveList resolveNode outside sortChunks viewFromChunks nonOverlapping) in
/-- the full statement (without `hattr`) is false: an entry made over gRPC with the FileSize attribute unset;
    the appended chunk lands at offset 0 and overlays the old content -/
theorem append_overlays_witness :
    let p : Entry := { fileSize := 0, content := [], chunks := [⟨0, 1, [1, 2, 3]⟩] }
    let e : Entry := { fileSize := 1, content := [], chunks := [⟨0, 1, [1, 2, 3]⟩, ⟨0, 2, [9]⟩] }
    handle (some p) .put true 4 0 false 2 [9] false = (201, some e, []) ∧
    readBack e = [9, 2, 3] ∧ readBack p = [1, 2, 3] ∧ readBack e ≠ readBack p ++ [9] := by
  intro p e
  have h1 : readBack e = [9, 2, 3] := by
    have hc : toC17 e.chunks = [⟨0, 3, 1, 0, 0⟩, ⟨0, 1, 2, 1, 1⟩] := by decide
    have hr : resolveList 0 (0 + maxInt64) [Node.data ⟨0, 3, 1, 0, 0⟩, Node.data ⟨0, 1, 2, 1, 1⟩]
        = [⟨0, 3, 1, 0, 0⟩, ⟨0, 1, 2, 1, 1⟩] := by
      simp [resolveList, resolveNode, outside, maxInt64]
    have hsrt : sortChunks [⟨0, 3, 1, 0, 0⟩, ⟨0, 1, 2, 1, 1⟩] = [⟨0, 3, 1, 0, 0⟩, ⟨0, 1, 2, 1, 1⟩] :=
      List.mergeSort_of_pairwise (by decide)
    unfold readBack
    rw [if_neg (by decide)]
    simp only [hc, List.map]
    unfold viewFromChunks nonOverlapping
    rw [hr, hsrt]
    decide
  have h2 : readBack p = [1, 2, 3] := by
    have hc : toC17 p.chunks = [⟨0, 3, 1, 0, 0⟩] := by decide
    have hr : resolveList 0 (0 + maxInt64) [Node.data ⟨0, 3, 1, 0, 0⟩] = [⟨0, 3, 1, 0, 0⟩] := by
      simp [resolveList, resolveNode, outside, maxInt64]
    have hsrt : sortChunks [⟨0, 3, 1, 0, 0⟩] = [⟨0, 3, 1, 0, 0⟩] := List.mergeSort_of_pairwise (by decide)
    unfold readBack
    rw [if_neg (by decide)]
    simp only [hc, List.map]
    unfold viewFromChunks nonOverlapping
    rw [hr, hsrt]
    decide
  refine ⟨by decide, h1, h2, ?_⟩
  rw [h1, h2]
  decide

/-! ### MAIN 4: a chunk upload that fails for good is reported as failed and nothing is committed
     (the sticky `uploadErr` of uploadReaderToChunks; regression class uploadReaderToChunks/chunk-upload-failure-committed) -/

/-- FULL: whatever is stored at the path, PUT or multipart POST, append or not, any body / chunk size / inline limit:
    when every attempt to store the chunk read `k`-th is refused — and the request does upload such a chunk — all
    three attempts of dataToChunk are used up, the request is answered 500, the entry at the path is what it was, and
    every OTHER chunk the request uploaded (the ones before and the ones that completed after the failure) is handed
    to Filer.DeleteChunks -/
theorem upload_failure_not_committed (existing : Option Entry) (m : Method) (hm : m ≠ .postRaw) (isAppend : Bool)
    (cs limit : Nat) (etc : Bool) (gen : Nat) (body : List Nat) (k : Nat)
    (hk : k < (uploadReaderToChunks cs limit isAppend etc gen body false).chunks.length) :
    handleUploadFail existing m isAppend cs limit etc gen body k =
      (500, existing, (uploadReaderToChunks cs limit isAppend etc gen body false).chunks.eraseIdx k) ∧
    refusedAttempts m isAppend cs limit etc gen body k = 3 := by
  cases m with
  | postRaw => exact absurd rfl hm
  | put => exact ⟨by simp [handleUploadFail, hk], by simp [refusedAttempts, hk, uploadAttempts]⟩
  | postMultipart => exact ⟨by simp [handleUploadFail, hk], by simp [refusedAttempts, hk, uploadAttempts]⟩

/-- the MODEL satisfies the judge clause for refused chunk uploads (`uploadFailJudge`, stated from the property
    text) — for every request description `q` the judge could be asked about, every stored entry, method, body,
    chunk size, inline limit and every index `k` of a chunk the request uploads -/
theorem upload_failure_judge_ok (q : Req) (existing : Option Entry) (m : Method) (isAppend : Bool)
    (cs limit : Nat) (etc : Bool) (gen : Nat) (body : List Nat) (k : Nat)
    (hk : m = .postRaw ∨ k < (uploadReaderToChunks cs limit isAppend etc gen body false).chunks.length) :
    uploadFailJudge q existing (handleUploadFail existing m isAppend cs limit etc gen body k).1
      (handleUploadFail existing m isAppend cs limit etc gen body k).2.1 = none := by
  have h : (handleUploadFail existing m isAppend cs limit etc gen body k).1 = 500 ∧
      (handleUploadFail existing m isAppend cs limit etc gen body k).2.1 = existing := by
    cases m with
    | postRaw => exact ⟨rfl, rfl⟩
    | put =>
      rcases hk with hk | hk
      · cases hk
      · simp [handleUploadFail, hk]
    | postMultipart =>
      rcases hk with hk | hk
      · cases hk
      · simp [handleUploadFail, hk]
  rw [h.1, h.2]
  simp [uploadFailJudge, is2xx]

/-- which requests upload a chunk read `k`-th: every error-free body that reaches beyond `k` whole chunks, unless its
    first read is taken as the inline content (`hni`: an append, or not below /etc with the inline limit at most the
    first read) — so the two theorems above speak about every failing chunk index of every chunked body -/
theorem upload_has_chunk (cs limit gen : Nat) (hcs : 0 < cs) (isAppend etc : Bool) (body : List Nat) (k : Nat)
    (hni : isAppend = true ∨ (etc = false ∧ limit ≤ min cs body.length)) (hk : k * cs < body.length) :
    k < (uploadReaderToChunks cs limit isAppend etc gen body false).chunks.length := by
  have := loop_count cs limit (!isAppend) etc gen hcs (body.length + 1) body 0 [] k (by omega)
    (by
      rcases hni with h | h
      · exact Or.inr (Or.inl (by simp [h]))
      · exact Or.inr (Or.inr h)) hk
  simpa [uploadReaderToChunks] using this

/-- a three-chunk body over an existing file, the FIRST chunk refused: the premises of the theorems hold … -/
example : Method.put ≠ .postRaw ∧ 0 < 4 ∧ (false = true ∨ (false = false ∧ 0 ≤ min 4 ([1, 2, 3, 4, 5, 6, 7, 8, 9] : List Nat).length)) ∧
    0 * 4 < ([1, 2, 3, 4, 5, 6, 7, 8, 9] : List Nat).length ∧
    0 < (uploadReaderToChunks 4 0 false false 2 [1, 2, 3, 4, 5, 6, 7, 8, 9] false).chunks.length := by decide

/-- … and the model answers 500, keeps the old file, uses three assigns and hands the two chunks that completed
    after the failure to deletion; an append with its middle chunk refused likewise -/
theorem upload_failure_witness :
    handleUploadFail (some ⟨3, [], [⟨0, 1, [7, 8, 9]⟩]⟩) .put false 4 0 false 2 [1, 2, 3, 4, 5, 6, 7, 8, 9] 0
      = (500, some ⟨3, [], [⟨0, 1, [7, 8, 9]⟩]⟩, [⟨4, 2, [5, 6, 7, 8]⟩, ⟨8, 2, [9]⟩]) ∧
    refusedAttempts .put false 4 0 false 2 [1, 2, 3, 4, 5, 6, 7, 8, 9] 0 = 3 ∧
    handleUploadFail (some ⟨3, [], [⟨0, 1, [7, 8, 9]⟩]⟩) .postMultipart true 4 0 false 2 [1, 2, 3, 4, 5, 6, 7, 8, 9] 1
      = (500, some ⟨3, [], [⟨0, 1, [7, 8, 9]⟩]⟩, [⟨0, 2, [1, 2, 3, 4]⟩, ⟨8, 2, [9]⟩]) ∧
    -- a body without a chunk read 5th: nothing is refused, the request is the fault-free one
    handleUploadFail none .put false 4 0 false 1 [1, 2, 3, 4, 5] 5 = handle none .put false 4 0 false 1 [1, 2, 3, 4, 5] false ∧
    refusedAttempts .put false 4 0 false 1 [1, 2, 3, 4, 5] 5 = 0 := by
  decide

/-- the judge clause is not vacuous: what the seeded regression produces (a later chunk's success clears the error:
    201, FileSize 9, the first chunk missing from the entry) is classified, and so is an error answer that changed the file -/
theorem upload_failure_judge_rejects :
    uploadFailJudge ⟨false, false, 4, 0, false, [1, 2, 3, 4, 5, 6, 7, 8, 9], none⟩ (some ⟨3, [], [⟨0, 1, [7, 8, 9]⟩]⟩) 201
      (some ⟨9, [], [⟨4, 2, [5, 6, 7, 8]⟩, ⟨8, 2, [9]⟩]⟩) = some "uploadReaderToChunks/chunk-upload-failure-committed" ∧
    uploadFailJudge ⟨false, false, 4, 0, false, [1, 2, 3, 4, 5], none⟩ (some ⟨3, [], [⟨0, 1, [7, 8, 9]⟩]⟩) 500
      (some ⟨1, [], [⟨0, 2, [5]⟩]⟩) = some "write/failed-request-changed-file" ∧
    uploadFailJudge ⟨false, false, 4, 0, false, [1, 2, 3, 4, 5], none⟩ none 201
      (some ⟨5, [], [⟨0, 1, [1, 2, 3, 4]⟩, ⟨4, 1, [5]⟩]⟩) = none := by
  decide

/-! ### bridges: the model's branch conditions are the ones in the source (regenerated from /repo on every check) -/

/-- the loop of uploadReaderToChunks ends on a read error or when nothing was read (`uploadLoop`'s first two tests) … -/
theorem bridge_upload_break : SwV.Gen.C25.upload_break_cond = "err != nil || dataSize == 0" := by decide
/-- … remembering the error (`readErr := true`; nil when only `dataSize == 0` held) … -/
theorem bridge_upload_read_err : SwV.Gen.C25.upload_read_err_assign = "readErr = err" := by decide
/-- … which becomes the function's error after the in-flight uploads, spelled so that autoChunk answers 499 … -/
theorem bridge_upload_read_err_cond : SwV.Gen.C25.upload_read_err_cond = "uploadErr == nil && readErr != nil" := by decide
theorem bridge_upload_read_err_report :
    SwV.Gen.C25.upload_read_err_report = "uploadErr = fmt.Errorf(\"read input: %v\", readErr)" := by decide
theorem bridge_read_input_status_cond :
    SwV.Gen.C25.read_input_status_cond = "strings.HasPrefix(err.Error(), \"read input:\")" := by decide
theorem bridge_read_input_status : SwV.Gen.C25.read_input_status = "499" := by decide
/-- … and the chunks uploaded so far go to Filer.DeleteChunks (`handle`'s third component) -/
theorem bridge_upload_err_delete : SwV.Gen.C25.upload_err_delete_arg = "fileChunks" := by decide
/-- the inline branch is only considered for the first read of a non-append request (`off = 0 ∧ inlineOK`) … -/
theorem bridge_upload_first_read : SwV.Gen.C25.upload_first_read_cond = "chunkOffset == 0 && !isAppend(r)" := by decide
/-- … and taken when that read is shorter than the limit or the path is below /etc (`piece.length < limit ∨ etc`) -/
theorem bridge_upload_inline :
    SwV.Gen.C25.upload_inline_cond = "dataSize < fs.option.SaveToFilerLimit || strings.HasPrefix(r.URL.Path, filer.DirectoryEtcRoot)" := by decide
theorem bridge_upload_last_chunk : SwV.Gen.C25.upload_last_chunk_cond = "dataSize < int64(chunkSize)" := by decide
/-- saveMetaData moves appended chunks by the FileSize ATTRIBUTE (`shift e.fileSize`) and adds chunkOffset to it -/
theorem bridge_append_offset : SwV.Gen.C25.append_offset_assign = "chunk.Offset += int64(entry.FileSize)" := by decide
theorem bridge_append_filesize : SwV.Gen.C25.append_filesize_assign = "entry.FileSize += uint64(chunkOffset)" := by decide
theorem bridge_append_inline_refused : SwV.Gen.C25.append_inline_refused_cond = "len(entry.Content) > 0" := by decide
/-- the public chunk size is a multiple of 1 MiB: the harness enters below this line (VerifPostHandlerChunkBytes) -/
theorem bridge_chunk_size : SwV.Gen.C25.chunk_size_assign = "chunkSize := 1024 * 1024 * maxMB" := by decide
/-- pinned sources of the modelled functions (a source edit breaks the obligation and asks for a model review) -/
theorem bridge_src_upload : SwV.Gen.C25.src_uploadReaderToChunks = "ed1fc11962c16667" := by decide
theorem bridge_src_save : SwV.Gen.C25.src_saveMetaData = "6dd0252be60d4eb8" := by decide
theorem bridge_src_put : SwV.Gen.C25.src_doPutAutoChunk = "ad44a5197caf5b0e" := by decide
theorem bridge_src_post : SwV.Gen.C25.src_doPostAutoChunk = "54e27d98baaab27d" := by decide
theorem bridge_src_autoChunk : SwV.Gen.C25.src_autoChunk = "2797d32df966388f" := by decide
theorem bridge_src_dataToChunk : SwV.Gen.C25.src_dataToChunk = "dae63355c35f662b" := by decide
theorem bridge_src_postHandler : SwV.Gen.C25.src_PostHandler = "dc65882417be28d1" := by decide
theorem bridge_src_hook : SwV.Gen.C25.src_VerifPostHandlerChunkBytes = "c1df5c57e94214bf" := by decide

end SwV.Props.C25
