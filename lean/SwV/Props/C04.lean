/-
C04 — Compaction is invisible to readers: property theorems.

`beforeCommit` = the volume after `Compact`/`Compact2` at `s0` and the operations `ops` that ran
while the copy was in flight (they are applied to the OLD files, so its reads are the reads
"without compaction": `reads_ignore_compaction`); `afterCommit` = the volume `CommitCompact` loads.

Full-strength statement (FALSE of the code, see the `*_witness` theorems):
    ∀ s0 ops alg k, view (afterCommit s0 alg now ops order t) t' k = view (beforeCommit s0 alg now ops) t' k
Proved: `compaction_invisible_partial` (the statement outside the named classes = the recorded
findings) and, without any exclusion, `no_resurrection`.
-/
import SwV.Lemmas.C04
import SwV.Lemmas.C04b
import SwV.Gen.C04
namespace SwV.Props.C04
open SwV.Model.C01 SwV.Model.C04 SwV.Spec.C04 SwV.Lemmas.C04

def beforeCommit (s0 : CVol) (alg nowSec : Nat) (ops : List (Nat × Op)) : CVol :=
  runOps (compact s0 alg nowSec) ops

def afterCommit (s0 : CVol) (alg nowSec : Nat) (ops : List (Nat × Op)) (order : List Nat) (t : Nat) : CVol :=
  commit (beforeCommit s0 alg nowSec ops) order t

/-- the .cpd/.cpx written at `s0` -/
def snapOf (s0 : CVol) (alg nowSec : Nat) : Snap :=
  let keep := keepOf s0 alg nowSec
  { log := keep.map (·.2.1), ats := keep.map (·.2.2), cpx := cpxOf keep, idxLen := s0.ilog.length, rev := s0.rev }

/-- the committed files loaded WITHOUT the integrity check's truncation -/
def loadedNoCut (s2 : CVol) (f : Files) : CVol :=
  { s2 with v := { s2.v with log := f.1, idx := reloadIdx s2.kind f.2.2 }, ats := f.2.1 }

/-! ## the excluded input classes (= the recorded findings) -/

/-- classes `VisitNeedle/empty-blob-dropped`, `read/committed-empty-blob-lost-after-reload`,
    `makeupDiff/empty-blob-treated-as-delete`: the id holds an empty blob -/
def EmptyBlob (s : CVol) (k : Nat) : Prop := ∃ off, s.v.idx k = some ⟨off, 0⟩

/-- classes `compact/*` (C09's vacuum-filter findings): the id was not rewritten during the copy and
    the vacuum filter (LastModified + VOLUME ttl ≤ now) drops its live record -/
def TtlDropped (s0 s2 : CVol) (nowSec : Nat) (k : Nat) : Prop :=
  lastFor (s2.ilog.drop s0.ilog.length) k = none ∧
  ∃ e r, s0.v.idx k = some e ∧ 0 < e.size ∧ recAt s0.v.log e.off = some r ∧
    dropsTtl s0 nowSec r (atOf s0.ats e.off) = true

/-- class `CommitCompact/dat-truncated-behind-last-index-entry` does not strike: the reload's
    integrity check finds the record of the LAST idx entry at the end of the .dat -/
def truncates (s2 : CVol) (order : List Nat) (t : Nat) : Bool :=
  match s2.snap with
  | some sn => (match makeup s2 sn order t with
                | some f => (cutAt f.2.2 f.1).isSome
                | none => false)
  | none => false

def NoTruncation (s2 : CVol) (order : List Nat) (t : Nat) : Prop := truncates s2 order t = false

/-- `order` (the iteration order of makeupDiff's Go map) mentions every key updated during the copy -/
def Covers (s0 s2 : CVol) (order : List Nat) : Prop :=
  ∀ k, (lastFor (s2.ilog.drop s0.ilog.length) k).isSome = true → k ∈ order

/-! ## the core: the committed files, key by key -/

theorem wf_compact {s0 : CVol} (hw : WF s0) (alg nowSec : Nat) : WF (compact s0 alg nowSec) :=
  ⟨hw.bound, hw.own, hw.mem, hw.len⟩

theorem core (s0 : CVol) (hw : WF s0) (hnz : s0.ilog ≠ []) (alg nowSec : Nat) (ops : List (Nat × Op)) (order : List Nat) (t : Nat)
    (hcov : Covers s0 (beforeCommit s0 alg nowSec ops) order) :
    (beforeCommit s0 alg nowSec ops).snap = some (snapOf s0 alg nowSec) ∧
    ∃ f, makeup (beforeCommit s0 alg nowSec ops) (snapOf s0 alg nowSec) order t = some f ∧
      ∀ t' k, view (loadedNoCut (beforeCommit s0 alg nowSec ops) f) t' k = view (beforeCommit s0 alg nowSec ops) t' k ∨
        (view (loadedNoCut (beforeCommit s0 alg nowSec ops) f) t' k = none ∧
          (EmptyBlob (beforeCommit s0 alg nowSec ops) k ∨ TtlDropped s0 (beforeCommit s0 alg nowSec ops) nowSec k)) := by
  obtain ⟨ext, exta, suf, hs⟩ := suf_run (suf_refl (wf_compact hw alg nowSec)) ops
  have hsound := keepOf_sound hw alg nowSec
  have hcomp := keepOf_complete hw alg nowSec
  generalize hs2 : beforeCommit s0 alg nowSec ops = s2 at *
  have hs2' : runOps (compact s0 alg nowSec) ops = s2 := hs2
  rw [hs2'] at hs
  generalize hkeep : keepOf s0 alg nowSec = keep at *
  have hsn : snapOf s0 alg nowSec = Snap.mk (keep.map (·.2.1)) (keep.map (·.2.2)) (cpxOf keep) s0.ilog.length s0.rev := by
    simp [snapOf, hkeep]
  have hsnap : s2.snap = some (snapOf s0 alg nowSec) := by
    rw [hs.hsnap]; simp [compact, snapOf]
  refine ⟨hsnap, ?_⟩
  have hil : s2.ilog = s0.ilog ++ suf := hs.hilog
  have hlog : s2.v.log = s0.v.log ++ ext := hs.hlog
  have hats : s2.ats = s0.ats ++ exta := hs.hats
  have hsuf : s2.ilog.drop s0.ilog.length = suf := by rw [hil]; simp
  unfold Covers at hcov
  rw [hsuf] at hcov
  -- makeupDiff
  have hmk : ∃ mrecs mats ments,
      makeup s2 (snapOf s0 alg nowSec) order t = some (keep.map (·.2.1) ++ mrecs, keep.map (·.2.2) ++ mats, cpxOf keep ++ ments) ∧
      mrecs.length = mats.length ∧ MkOK s2 suf order (keep.map (·.2.1) ++ mrecs) (keep.map (·.2.2) ++ mats) ments := by
    unfold makeup
    rw [hsn]
    simp only
    by_cases hlen : s2.ilog.length = 0 ∨ s2.ilog.length ≤ s0.ilog.length
    · have : suf = [] := by
        have : s2.ilog.length = s0.ilog.length + suf.length := by rw [hil]; simp
        apply List.eq_nil_of_length_eq_zero; omega
      subst this
      refine ⟨[], [], [], by rw [if_pos hlen]; simp, rfl, ?_, ?_⟩
      · intro e he; cases he
      · intro k _ e he; simp [lastFor] at he
    · simp only [hlen, if_false]
      have hrev : s2.rev = s0.rev := hs.hrev
      have hnz' : ¬ s0.ilog.length = 0 := fun h => hnz (List.eq_nil_of_length_eq_zero h)
      simp only [hrev, ne_eq, not_true_eq_false, if_false, hsuf, hnz']
      apply makeupFold_char
      · intro k e he hv
        have hk := hs.key k
        rw [he] at hk
        have hv' := (validEnt_iff e).1 hv
        have hidx := hk.2.1 (by omega)
        have hb := hs.bound k _ hidx
        exact recAt_of_bound hb.1 hb.2
      · simp
  obtain ⟨mrecs, mats, ments, hmake, hmlen, hMk1, hMk2⟩ := hmk
  refine ⟨_, hmake, ?_⟩
  intro t' k
  have hrel := reload_char s2.kind (cpxOf keep ++ ments) k
  rw [lastFor_append] at hrel
  have hkey := hs.key k
  cases hsk : lastFor suf k with
  | some e =>
    -- the key was written or deleted while the copy ran: makeupDiff replays its last idx entry
    rw [hsk] at hkey
    have hko : k ∈ order := hcov k (by simp [hsk])
    have hm := hMk2 k hko e hsk
    by_cases hv : validEnt e = true
    · simp only [hv, if_true] at hm
      obtain ⟨j, r, hlast, hj, hr, hL, hA⟩ := hm
      have hv' := (validEnt_iff e).1 hv
      rw [hlast] at hrel
      simp only [Option.some_or] at hrel
      have hvj : validEnt ⟨k, j, e.size⟩ = true := (validEnt_iff _).2 ⟨by simp; omega, hv'.2⟩
      have hidx' := hrel.2
      simp only [hvj, if_true] at hidx'
      have hidx2 := hkey.2.1 (by omega)
      have hown := hs.own k _ r hidx2 hr
      have hrs : r.size = e.size := hown.2 (by show (0 : Int) ≤ e.size; omega)
      left
      have h3 : view (loadedNoCut s2 (keep.map (·.2.1) ++ mrecs, keep.map (·.2.2) ++ mats, cpxOf keep ++ ments)) t' k
          = if SwV.Model.C09.readable (needleOf r.c (atOf s2.ats e.off)) t' = true then some (r.cookie, r.c) else none := by
        have := view_live (s := loadedNoCut s2 (keep.map (·.2.1) ++ mrecs, keep.map (·.2.2) ++ mats, cpxOf keep ++ ments))
          (k := k) (off := j) (sz := e.size) (r := r) t' hidx' (by omega) hv'.2
          (by show recAt (keep.map (·.2.1) ++ mrecs) j = some r; rw [recAt_eq _ (by omega)]; exact hL)
          hrs
        rw [this]
        have ha : atOf (loadedNoCut s2 (keep.map (·.2.1) ++ mrecs, keep.map (·.2.2) ++ mats, cpxOf keep ++ ments)).ats j
            = atOf s2.ats e.off := by
          show atOf (keep.map (·.2.2) ++ mats) j = _
          unfold atOf
          rw [List.getD_eq_getElem?_getD, hA]; rfl
        rw [ha]
      rw [h3, view_live t' hidx2 hv'.1 hv'.2 hr hrs]
    · simp only [hv] at hm
      obtain ⟨sz, hlast⟩ := hm
      rw [hlast] at hrel
      simp only [Option.some_or] at hrel
      have hnv : ¬ validEnt ⟨k, 0, sz⟩ = true := by simp [validEnt]
      have hidx' := hrel.2
      simp only [hnv, if_false] at hidx'
      have hpost : view (loadedNoCut s2 (keep.map (·.2.1) ++ mrecs, keep.map (·.2.2) ++ mats, cpxOf keep ++ ments)) t' k = none := by
        rcases hidx' with h | ⟨e', h, hneg⟩
        · exact view_none_idx t' h
        · exact view_neg t' h hneg
      have hv' : ¬ (e.off ≠ 0 ∧ 0 < e.size) := fun h => hv ((validEnt_iff e).2 h)
      by_cases hneg : e.size < 0
      · obtain ⟨e', he', hn'⟩ := hkey.2.2 hneg
        left; rw [hpost, view_neg t' he' hn']
      · have hz : e.size = 0 := by have := hkey.1; omega
        right
        refine ⟨hpost, Or.inl ⟨e.off, ?_⟩⟩
        have := hkey.2.1 (by omega)
        rw [this, hz]
  | none =>
    -- the key was not touched while the copy ran: only the copied record (if any) counts
    rw [hsk] at hkey
    have hkey0 : s2.v.idx k = s0.v.idx k := hkey
    have hmn : lastFor ments k = none :=
      lastFor_none_of_not_mem (fun e he hek => by have := (hMk1 e he).2; rw [hek, hsk] at this; simp at this)
    rw [hmn, Option.none_or, lastFor_cpxOf] at hrel
    cases hc : lastFor (cpxEnts keep) k with
    | none =>
      rw [hc] at hrel
      have hpost : view (loadedNoCut s2 (keep.map (·.2.1) ++ mrecs, keep.map (·.2.2) ++ mats, cpxOf keep ++ ments)) t' k = none :=
        view_none_idx t' hrel.2
      cases hi : s0.v.idx k with
      | none => left; rw [hpost, view_none_idx t' (hkey0.trans hi)]
      | some e =>
        by_cases hneg : e.size < 0
        · left; rw [hpost, view_neg t' (hkey0.trans hi) hneg]
        · by_cases hz : e.size = 0
          · right; refine ⟨hpost, Or.inl ⟨e.off, ?_⟩⟩
            rw [hkey0, hi]; cases e; simp only at hz; rw [hz]
          · have hb := hw.bound k e hi
            obtain ⟨r, hr⟩ := recAt_of_bound hb.1 hb.2
            by_cases hd : dropsTtl s0 nowSec r (atOf s0.ats e.off) = true
            · right; exact ⟨hpost, Or.inr ⟨by rw [hsuf]; exact hsk, e, r, hi, by omega, hr, hd⟩⟩
            · exfalso
              have hmem := hcomp k e r hi (by omega) hr (by simpa using hd)
              obtain ⟨c, hc1, hc2⟩ := cpxEnts_of_mem hmem
              have hid := (hw.own k e r hi hr).1
              exact lastFor_none_mem hc c hc1 (by rw [hc2]; exact hid)
    | some c =>
      rw [hc] at hrel
      obtain ⟨hcm, hck⟩ := lastFor_some hc
      obtain ⟨p, hp, hoff, hkeyp, hsize⟩ := mem_cpxEnts hcm
      have hpm : p ∈ keep := List.mem_iff_getElem?.2 ⟨_, hp⟩
      obtain ⟨hr0, ha0, hi0, hnn⟩ := hsound p hpm
      have hidk : p.2.1.id = k := by rw [← hkeyp, hck]
      rw [hidk] at hi0
      have hidx2 : s2.v.idx k = some ⟨p.1, p.2.1.size⟩ := hkey0.trans hi0
      by_cases hpos : 0 < p.2.1.size
      · have hvc : validEnt c = true := (validEnt_iff c).2 ⟨by omega, by omega⟩
        have hidx' := hrel.2
        simp only [hvc, if_true] at hidx'
        have hb0 := recAt_some_bound hr0
        left
        have hlt : c.off - 1 < (keep.map (·.2.1)).length := by
          have := (List.getElem?_eq_some_iff.1 hp).1; simpa using this
        have hL : recAt (keep.map (·.2.1) ++ mrecs) c.off = some p.2.1 := by
          rw [recAt_eq _ (by omega), List.getElem?_append_left hlt, List.getElem?_map, hp]; rfl
        have hA : atOf (keep.map (·.2.2) ++ mats) c.off = p.2.2 := by
          unfold atOf
          rw [List.getD_eq_getElem?_getD, List.getElem?_append_left (by simpa using hlt), List.getElem?_map, hp]; rfl
        have h3 := view_live (s := loadedNoCut s2 (keep.map (·.2.1) ++ mrecs, keep.map (·.2.2) ++ mats, cpxOf keep ++ ments))
          (k := k) (off := c.off) (sz := c.size) (r := p.2.1) t' hidx' (by omega) (by omega) hL hsize.symm
        have hA' : atOf (loadedNoCut s2 (keep.map (·.2.1) ++ mrecs, keep.map (·.2.2) ++ mats, cpxOf keep ++ ments)).ats c.off = p.2.2 := hA
        rw [h3, hA']
        have hr2 : recAt s2.v.log p.1 = some p.2.1 := by rw [hlog]; exact recAt_append_left ext hr0
        have ha2 : atOf s2.ats p.1 = p.2.2 := by
          rw [hats, atOf_append_left _ _ hb0.1 (by rw [hw.len]; exact hb0.2), ha0]
        rw [view_live t' hidx2 hb0.1 hpos hr2 rfl, ha2]
      · have hz : p.2.1.size = 0 := by omega
        have hnv : ¬ validEnt c = true := fun h => by have := ((validEnt_iff c).1 h).2; omega
        have hidx' := hrel.2
        simp only [hnv, if_false] at hidx'
        have hpost : view (loadedNoCut s2 (keep.map (·.2.1) ++ mrecs, keep.map (·.2.2) ++ mats, cpxOf keep ++ ments)) t' k = none := by
          rcases hidx' with h | ⟨e', h, hneg⟩
          · exact view_none_idx t' h
          · exact view_neg t' h hneg
        right
        exact ⟨hpost, Or.inl ⟨p.1, by rw [hidx2, hz]⟩⟩


/-! ## the theorems -/

/-- **Compaction is invisible to readers** — partial: for EVERY well-formed volume `s0` whose .idx is not
    empty when the copy starts (on an empty .idx makeupDiff's backward loop underflows and the whole
    compaction is discarded: `discarded_on_empty_idx_witness`; in particular
    every volume reached from a fresh one, `wf_reachable`), both copy algorithms, every list of
    operations issued while the copy runs, every iteration order of makeupDiff's map and all clocks,
    the read of id `k` after `CommitCompact` equals the read before it — unless `k` holds an empty blob,
    or its record is removed by the vacuum TTL filter, or the reload truncates the .dat (the three
    families of recorded findings). -/
theorem compaction_invisible_partial (s0 : CVol) (hw : WF s0) (hnz : s0.ilog ≠ []) (alg nowSec : Nat) (ops : List (Nat × Op))
    (order : List Nat) (t t' k : Nat)
    (hcov : Covers s0 (beforeCommit s0 alg nowSec ops) order)
    (hne : ¬ EmptyBlob (beforeCommit s0 alg nowSec ops) k)
    (httl : ¬ TtlDropped s0 (beforeCommit s0 alg nowSec ops) nowSec k)
    (hcut : NoTruncation (beforeCommit s0 alg nowSec ops) order t) :
    view (afterCommit s0 alg nowSec ops order t) t' k = view (beforeCommit s0 alg nowSec ops) t' k := by
  obtain ⟨hsnap, f, hmk, hv⟩ := core s0 hw hnz alg nowSec ops order t hcov
  unfold NoTruncation truncates at hcut
  rw [hsnap] at hcut; simp only [hmk] at hcut
  have hcut : cutAt f.2.2 f.1 = none := by
    cases hc : cutAt f.2.2 f.1 with
    | none => rfl
    | some n => rw [hc] at hcut; simp at hcut
  have h1 : view (afterCommit s0 alg nowSec ops order t) t' k = view (loadedNoCut (beforeCommit s0 alg nowSec ops) f) t' k := by
    unfold afterCommit commit
    rw [hsnap]; simp only [hmk]
    rw [view_reload_nocut _ hcut]
    apply view_congr <;> rfl
  rw [h1]
  rcases hv t' k with h | ⟨_, h | h⟩
  · exact h
  · exact absurd h hne
  · exact absurd h httl

/-- **No resurrection** — full: whatever was written, deleted, compacted (either algorithm) and
    replayed, an id that is not readable before the commit is not readable after it. -/
theorem no_resurrection (s0 : CVol) (hw : WF s0) (hnz : s0.ilog ≠ []) (alg nowSec : Nat) (ops : List (Nat × Op))
    (order : List Nat) (t t' k : Nat)
    (hcov : Covers s0 (beforeCommit s0 alg nowSec ops) order)
    (hgone : view (beforeCommit s0 alg nowSec ops) t' k = none) :
    view (afterCommit s0 alg nowSec ops order t) t' k = none := by
  obtain ⟨hsnap, f, hmk, hv⟩ := core s0 hw hnz alg nowSec ops order t hcov
  have h1 : view (afterCommit s0 alg nowSec ops order t) t' k = view (loadedNoCut (beforeCommit s0 alg nowSec ops) f) t' k ∨
      view (afterCommit s0 alg nowSec ops order t) t' k = none := by
    unfold afterCommit commit
    rw [hsnap]; simp only [hmk]
    rcases view_reload_cut { beforeCommit s0 alg nowSec ops with
        v := { (beforeCommit s0 alg nowSec ops).v with log := f.1 }, ats := f.2.1, ilog := f.2.2,
        rev := (snapOf s0 alg nowSec).rev + 1, snap := none } t' k with h | h
    · left; rw [h]; apply view_congr <;> rfl
    · right; exact h
  rcases h1 with h1 | h1
  · rw [h1]
    rcases hv t' k with h | ⟨h, _⟩
    · rw [h]; exact hgone
    · exact h
  · exact h1

/-- the theorems for histories that start from a fresh volume: pre-ops, during-ops, both algorithms -/
theorem compaction_invisible_from_fresh (kind : Kind) (ttl : Nat × Nat) (pre ops : List (Nat × Op)) (alg nowSec : Nat)
    (order : List Nat) (t t' k : Nat) :
    let s0 := runOps (CVol.init kind ttl) pre
    s0.ilog ≠ [] → Covers s0 (beforeCommit s0 alg nowSec ops) order →
    (view (beforeCommit s0 alg nowSec ops) t' k = none → view (afterCommit s0 alg nowSec ops order t) t' k = none) ∧
    (¬ EmptyBlob (beforeCommit s0 alg nowSec ops) k → ¬ TtlDropped s0 (beforeCommit s0 alg nowSec ops) nowSec k →
      NoTruncation (beforeCommit s0 alg nowSec ops) order t →
      view (afterCommit s0 alg nowSec ops order t) t' k = view (beforeCommit s0 alg nowSec ops) t' k) := by
  intro s0 hnz hcov
  have hw := wf_reachable kind ttl pre
  exact ⟨no_resurrection s0 hw hnz alg nowSec ops order t t' k hcov,
    fun h1 h2 h3 => compaction_invisible_partial s0 hw hnz alg nowSec ops order t t' k hcov h1 h2 h3⟩


/-! ## reads before the commit = reads without compaction; judge predicates -/


theorem opStep_snap (s : CVol) (x : Option Snap) (t : Nat) (op : Op) :
    opStep { s with snap := x } t op = ({ (opStep s t op).1 with snap := x }, (opStep s t op).2) := by
  unfold opStep
  by_cases h : (step s.v op).1.log.length = s.v.log.length
  · simp only [h, if_true]; cases op <;> rfl
  · simp only [h, if_false]; cases op <;> rfl

theorem runOps_snap (s : CVol) (x : Option Snap) (ops : List (Nat × Op)) :
    runOps { s with snap := x } ops = { runOps s ops with snap := x } := by
  induction ops generalizing s with
  | nil => rfl
  | cons o ops ih =>
    obtain ⟨t, op⟩ := o
    simp only [runOps, opStep_snap]
    exact ih _

/-- the reads before the commit are the reads of the volume WITHOUT compaction: `Compact`/`Compact2`
    only write .cpd/.cpx, the operations in flight are applied to the old files -/
theorem reads_ignore_compaction (s0 : CVol) (alg nowSec : Nat) (ops : List (Nat × Op)) (t k : Nat) :
    view (beforeCommit s0 alg nowSec ops) t k = view (runOps s0 ops) t k := by
  unfold beforeCommit compact
  rw [runOps_snap]
  rfl

/-- the judge's class predicates are the theorem's exclusion predicates -/
theorem emptyBlob_iff (s : CVol) (k : Nat) : EmptyBlob s k ↔ isEmptyBlob s k = true := by
  unfold EmptyBlob isEmptyBlob
  cases h : s.v.idx k with
  | none => simp
  | some e =>
    obtain ⟨o, sz⟩ := e
    simp

/-- … and so is the vacuum-filter class: the theorem's `TtlDropped` (stated over the volume `s0` the copy started from)
    is the judge's executable `ttlDropped` (computed from the state right before the commit) -/
theorem ttlDropped_iff (s0 : CVol) (hw : WF s0) (alg nowSec : Nat) (ops : List (Nat × Op)) (k : Nat) :
    TtlDropped s0 (beforeCommit s0 alg nowSec ops) nowSec k ↔ ttlDropped (beforeCommit s0 alg nowSec ops) nowSec k = true := by
  obtain ⟨ext, exta, suf, hs⟩ := suf_run (suf_refl (wf_compact hw alg nowSec)) ops
  have hsnap : (beforeCommit s0 alg nowSec ops).snap = some (snapOf s0 alg nowSec) := by
    unfold beforeCommit compact
    rw [runOps_snap]
    rfl
  have hvt0 : (beforeCommit s0 alg nowSec ops).v.volTtl = s0.v.volTtl := by
    unfold beforeCommit
    rw [runOps_volTtl]
    rfl
  generalize hs2 : beforeCommit s0 alg nowSec ops = s2 at *
  have hs2' : runOps (compact s0 alg nowSec) ops = s2 := hs2
  rw [hs2'] at hs
  have hil : s2.ilog = s0.ilog ++ suf := hs.hilog
  have hlog : s2.v.log = s0.v.log ++ ext := hs.hlog
  have hats : s2.ats = s0.ats ++ exta := hs.hats
  have hsuf : suffixOf s2 = suf := by
    unfold suffixOf
    rw [hsnap]
    show s2.ilog.drop s0.ilog.length = suf
    rw [hil]; simp
  have hsuf' : s2.ilog.drop s0.ilog.length = suf := by rw [hil]; simp
  have hdrop : ∀ r a, dropsTtl s2 nowSec r a = dropsTtl s0 nowSec r a := by
    intro r a
    unfold dropsTtl volTtlOf
    rw [hvt0]
  unfold TtlDropped ttlDropped
  rw [hsuf, hsuf']
  cases hsk : lastFor suf k with
  | some e => simp
  | none =>
    have hkey := hs.key k
    rw [hsk] at hkey
    have hkey0 : s2.v.idx k = s0.v.idx k := hkey
    simp only [Option.isNone_none, Bool.true_and, true_and]
    unfold liveRec
    rw [hkey0]
    cases hi : s0.v.idx k with
    | none => simp
    | some e =>
      simp only
      by_cases hpos : 0 < e.size
      · simp only [hpos, if_true]
        have hb := hw.bound k e hi
        obtain ⟨r, hr⟩ := recAt_of_bound hb.1 hb.2
        have hr2 : recAt s2.v.log e.off = some r := by rw [hlog]; exact recAt_append_left ext hr
        have ha2 : atOf s2.ats e.off = atOf s0.ats e.off := by
          rw [hats]; exact atOf_append_left _ _ hb.1 (by rw [hw.len]; exact hb.2)
        rw [hr2, ha2]
        simp only [Option.map_some, hdrop]
        constructor
        · rintro ⟨e', r', he', _, hr', hd⟩
          cases he'
          rw [hr] at hr'
          cases hr'
          exact hd
        · intro hd
          exact ⟨e, r, rfl, hpos, hr, hd⟩
      · simp only [hpos, if_false]
        constructor
        · rintro ⟨e', r', he', hp', _⟩
          cases he'
          exact absurd hp' hpos
        · intro h; cases h

/-! ## the index-based algorithm never truncates -/

/-- **Compact2 never truncates**: for EVERY well-formed volume, the index-based copy (`Compact2` /
    copyDataBasedOnIndexFile: .cpd written in the ascending key order of the loaded .idx, .cpx saved in the same order),
    every operation list issued while the copy runs, every iteration order of makeupDiff's map: the committed files are
    such that the reload's integrity check cuts nothing off — the last .idx entry points at the last record of the .dat
    or is a tombstone with offset 0.  (For the scan-based `Compact` this is FALSE: `truncation_witness`, the recorded
    finding CommitCompact/dat-truncated-behind-last-index-entry.) -/
theorem compact2_never_truncates (s0 : CVol) (hw : WF s0) (alg : Nat) (halg : alg ≠ 1) (nowSec : Nat) (ops : List (Nat × Op))
    (order : List Nat) (t : Nat) : NoTruncation (beforeCommit s0 alg nowSec ops) order t := by
  have hsnap : (beforeCommit s0 alg nowSec ops).snap = some (snapOf s0 alg nowSec) := by
    unfold beforeCommit compact
    rw [runOps_snap]
    rfl
  unfold NoTruncation truncates
  rw [hsnap]
  simp only
  cases hm : makeup (beforeCommit s0 alg nowSec ops) (snapOf s0 alg nowSec) order t with
  | none => rfl
  | some f =>
    have ht : TailOK (snapOf s0 alg nowSec).log (snapOf s0 alg nowSec).cpx := by
      simp only [snapOf, keepOf, halg, if_false]
      exact tailOK_keepIdx hw nowSec
    simp [cutAt_none_of_tailOK (makeup_tailOK _ _ _ _ _ hm ht)]

/-- **Compaction by Compact2 is invisible to readers** — `compaction_invisible_partial` without the `NoTruncation`
    hypothesis: the only excluded inputs are empty blobs and records removed by the vacuum TTL filter -/
theorem compaction_invisible_compact2_partial (s0 : CVol) (hw : WF s0) (hnz : s0.ilog ≠ []) (alg : Nat) (halg : alg ≠ 1)
    (nowSec : Nat) (ops : List (Nat × Op)) (order : List Nat) (t t' k : Nat)
    (hcov : Covers s0 (beforeCommit s0 alg nowSec ops) order)
    (hne : ¬ EmptyBlob (beforeCommit s0 alg nowSec ops) k)
    (httl : ¬ TtlDropped s0 (beforeCommit s0 alg nowSec ops) nowSec k) :
    view (afterCommit s0 alg nowSec ops order t) t' k = view (beforeCommit s0 alg nowSec ops) t' k :=
  compaction_invisible_partial s0 hw hnz alg nowSec ops order t t' k hcov hne httl
    (compact2_never_truncates s0 hw alg halg nowSec ops order t)

/-- the same with the judge's executable class predicates as hypotheses -/
theorem compaction_invisible_compact2_judged (s0 : CVol) (hw : WF s0) (hnz : s0.ilog ≠ []) (alg : Nat) (halg : alg ≠ 1)
    (nowSec : Nat) (ops : List (Nat × Op)) (order : List Nat) (t t' k : Nat)
    (hcov : Covers s0 (beforeCommit s0 alg nowSec ops) order)
    (hne : isEmptyBlob (beforeCommit s0 alg nowSec ops) k = false)
    (httl : ttlDropped (beforeCommit s0 alg nowSec ops) nowSec k = false) :
    view (afterCommit s0 alg nowSec ops order t) t' k = view (beforeCommit s0 alg nowSec ops) t' k :=
  compaction_invisible_compact2_partial s0 hw hnz alg halg nowSec ops order t t' k hcov
    (fun h => by rw [(emptyBlob_iff _ _).mp h] at hne; cases hne)
    (fun h => by rw [(ttlDropped_iff s0 hw alg nowSec ops k).mp h] at httl; cases httl)

/-- the statement of the property, literally: reads(commit(compact s) during) = reads(apply during s) -/
theorem compaction_invisible_vs_uncompacted (s0 : CVol) (hw : WF s0) (hnz : s0.ilog ≠ []) (alg nowSec : Nat) (ops : List (Nat × Op))
    (order : List Nat) (t t' k : Nat)
    (hcov : Covers s0 (beforeCommit s0 alg nowSec ops) order)
    (hne : ¬ EmptyBlob (beforeCommit s0 alg nowSec ops) k)
    (httl : ¬ TtlDropped s0 (beforeCommit s0 alg nowSec ops) nowSec k)
    (hcut : NoTruncation (beforeCommit s0 alg nowSec ops) order t) :
    view (afterCommit s0 alg nowSec ops order t) t' k = view (runOps s0 ops) t' k := by
  rw [compaction_invisible_partial s0 hw hnz alg nowSec ops order t t' k hcov hne httl hcut, reads_ignore_compaction]

/-! ## the full-strength statement is false of the code: witnesses (replayed on the real code in corpus/C04/witnesses.ops) -/


def blob (d : String) : Content := { data := d }
def fresh : CVol := CVol.init .mem (0, 0)

/-- write 2, write 1, Compact (scan), commit: id 1 is cut off -/
theorem truncation_witness :
    let s0 := runOps fresh [(1, .write 2 7 (blob "aa")), (2, .write 1 7 (blob "bb"))]
    view (beforeCommit s0 1 100 []) 9 1 = some (7, blob "bb") ∧ view (afterCommit s0 1 100 [] [] 5) 9 1 = none ∧
    view (afterCommit s0 2 100 [] [] 5) 9 1 = some (7, blob "bb") := by decide

theorem empty_blob_witness :
    let s0 := runOps fresh [(1, .write 1 7 (blob ""))]
    view (beforeCommit s0 1 100 []) 9 1 = some (0, Content.empty) ∧ view (afterCommit s0 1 100 [] [] 5) 9 1 = none ∧
    view (afterCommit s0 2 100 [] [] 5) 9 1 = none ∧
    view (beforeCommit fresh 2 100 [(3, .write 1 7 (blob ""))]) 9 1 = some (0, Content.empty) ∧
    view (afterCommit fresh 2 100 [(3, .write 1 7 (blob ""))] [1] 5) 9 1 = none := by decide

/-- a needle with TTL 2 months on a volume without TTL, written at ns 1, read at ns 9: dropped by the filter -/
theorem ttl_filter_witness :
    let c : Content := { data := "aa", fl := { hasTtl := true, hasLm := true }, lm := 50, ttl := (2, 5) }
    let s0 := runOps fresh [(1, .write 1 7 c)]
    view (beforeCommit s0 2 100 []) 9 1 = some (7, c) ∧ view (afterCommit s0 2 100 [] [] 5) 9 1 = none := by decide

/-- `Compact` on a volume whose .idx is still empty + a write while the copy runs: makeupDiff fails
    (loop underflow), the commit discards .cpd/.cpx and reloads the old files: nothing is compacted
    (reads unaffected) -/
theorem discarded_on_empty_idx_witness :
    (afterCommit fresh 2 100 [(3, .write 1 7 (blob "aa"))] [1] 5).rev = 0 ∧
    view (afterCommit fresh 2 100 [(3, .write 1 7 (blob "aa"))] [1] 5) 9 1 = some (7, blob "aa") := by decide

/-- the hypotheses of `compaction_invisible_partial` are satisfiable -/
example :
    let s0 := runOps fresh [(1, .write 1 7 (blob "aa")), (2, .write 2 7 (blob "bb")), (3, .delete 1 7)]
    s0.ilog ≠ [] ∧ Covers s0 (beforeCommit s0 2 100 []) [] ∧ ¬ EmptyBlob (beforeCommit s0 2 100 []) 2 ∧
    NoTruncation (beforeCommit s0 2 100 []) [] 5 ∧
    view (afterCommit s0 2 100 [] [] 5) 9 2 = some (7, blob "bb") ∧ view (afterCommit s0 2 100 [] [] 5) 9 1 = none := by
  refine ⟨by decide, ?_, ?_, by unfold NoTruncation; decide, by decide, by decide⟩
  · intro k hk
    simp [beforeCommit, runOps, compact, lastFor] at hk
  · intro ⟨off, h⟩
    have h2 : (beforeCommit (runOps fresh [(1, .write 1 7 (blob "aa")), (2, .write 2 7 (blob "bb")), (3, .delete 1 7)]) 2 100 []).v.idx 2
        = some ⟨2, 6⟩ := by decide
    rw [h2] at h
    simp at h


/-- non-vacuity: the history of `truncation_witness` (write 2, write 1) with the index-based algorithm and a write in flight -/
example :
    let s0 := runOps fresh [(1, .write 2 7 (blob "aa")), (2, .write 1 7 (blob "bb"))]
    WF s0 ∧ s0.ilog ≠ [] ∧ (2 : Nat) ≠ 1 ∧ Covers s0 (beforeCommit s0 2 100 [(3, .write 3 7 (blob "cc"))]) [3] ∧
    isEmptyBlob (beforeCommit s0 2 100 [(3, .write 3 7 (blob "cc"))]) 1 = false ∧
    ttlDropped (beforeCommit s0 2 100 [(3, .write 3 7 (blob "cc"))]) 100 1 = false ∧
    view (afterCommit s0 2 100 [(3, .write 3 7 (blob "cc"))] [3] 5) 9 1 = some (7, blob "bb") ∧
    truncates (beforeCommit s0 1 100 []) [] 5 = true := by
  refine ⟨wf_reachable _ _ _, by decide, by decide, ?_, by decide, by decide, by decide, by decide⟩
  intro k hk
  have hsuf : (beforeCommit (runOps fresh [(1, .write 2 7 (blob "aa")), (2, .write 1 7 (blob "bb"))]) 2 100
      [(3, .write 3 7 (blob "cc"))]).ilog.drop (runOps fresh [(1, .write 2 7 (blob "aa")), (2, .write 1 7 (blob "bb"))]).ilog.length
      = [⟨3, 3, 6⟩] := by decide
  rw [hsuf] at hk
  by_cases h3 : k = 3
  · simp [h3]
  · exfalso
    have : ¬ (3 = k) := fun h => h3 h.symm
    simp [lastFor, this] at hk


/-! ## T1: regenerated predicates and the sources the model mirrors -/

/-- makeupDiff's `!offset.IsZero() && size != 0 && size.IsValid()` with the regenerated `Size.IsValid` -/
theorem bridge_validEnt (e : IEnt) :
    validEnt e = (e.off != 0 && (e.size != 0 && SwV.Gen.C04.Size_IsValid e.size)) := by
  simp only [validEnt, SwV.Gen.C04.Size_IsValid]
  by_cases h0 : e.off = 0 <;> by_cases h1 : 0 < e.size <;> simp [h0, h1] <;> omega

/-- MemDb.LoadFromIdx / SaveToIdx: `offset.IsZero() || size.IsDeleted()` with the regenerated `Size.IsDeleted` -/
theorem bridge_isDeleted (e : IEnt) :
    (e.off = 0 ∨ e.size < 0) ↔ (e.off = 0 ∨ SwV.Gen.C04.Size_IsDeleted e.size = true) := by
  simp only [SwV.Gen.C04.Size_IsDeleted, Bool.or_eq_true, decide_eq_true_eq]
  constructor
  · rintro (h | h)
    · exact Or.inl h
    · exact Or.inr (Or.inl h)
  · rintro (h | h | h)
    · exact Or.inl h
    · exact Or.inr h
    · exact Or.inr (by omega)

/-- The vacuum TTL filter never removes a record whose (client-supplied) LastModified lies AHEAD of
    the clock the compaction samples — whatever the volume TTL, the needle TTL and the append time:
    `LastModified + ttl ≤ now` cannot hold.  (An age computed as the unsigned difference
    `now - LastModified` would wrap and declare such a blob expired.) -/
theorem lm_ahead_of_clock_not_filtered (s : CVol) (nowSec : Nat) (r : Rec) (a : Nat) (h : nowSec < r.c.lm) :
    dropsTtl s nowSec r a = false := by
  simp only [dropsTtl, SwV.Model.C09.vacuumDrops, needleOf, Bool.and_eq_false_iff]
  exact Or.inr (decide_eq_false (by omega))

/-- hence the judge's "removed by the TTL filter" class predicate is false for such a blob: if the
    commit makes it unreadable, the judge reports an unrecorded class -/
theorem lm_ahead_of_clock_not_ttlDropped (pre : CVol) (nowSec id : Nat) (r : Rec) (a : Nat)
    (hl : liveRec pre id = some (r, a)) (h : nowSec < r.c.lm) : ttlDropped pre nowSec id = false := by
  simp only [ttlDropped, hl, lm_ahead_of_clock_not_filtered pre nowSec r a h, Bool.and_false]

/-- non-vacuity: a 1-hour TTL volume, a blob stamped 5 s ahead of the clock: kept by both algorithms, readable after the commit -/
example :
    let c : Content := { Content.empty with data := "78", fl := { Content.empty.fl with hasLm := true }, lm := 1005 }
    let s0 := (opStep (CVol.init .mem (1, 2)) 1000000000000 (.write 1 7 c)).1
    (∀ alg ∈ [1, 2], (keepOf s0 alg 1000).length = 1 ∧
      (view (afterCommit s0 alg 1000 [] [] 1001000000000) 1002000000000 1).isSome = true) ∧
    (liveRec s0 1).isSome = true := by decide

theorem bridge_sources :
    SwV.Gen.C04.src_Compact = "90495a2118886275" ∧ SwV.Gen.C04.src_Compact2 = "e70b46c9bcaa8dc1" ∧
    SwV.Gen.C04.src_CommitCompact = "7f99dd45edb5a3be" ∧ SwV.Gen.C04.src_makeupDiff = "a55a493df66118bc" ∧
    SwV.Gen.C04.src_Vacuum_VisitNeedle = "93d511a40ba8dc87" ∧ SwV.Gen.C04.src_copyDataBasedOnIndexFile = "fb8c6ae27b972798" ∧
    SwV.Gen.C04.src_copyDataAndGenerateIndexFile = "4929fef742c2c200" ∧ SwV.Gen.C04.src_LoadFromReaderAt = "26c7678c20a773f8" ∧
    SwV.Gen.C04.src_SaveToIdx = "4c8eb9f62c2ea7b0" ∧ SwV.Gen.C04.src_CheckAndFixVolumeDataIntegrity = "87c670d5bb65451b" ∧
    SwV.Gen.C04.src_verifyNeedleIntegrity = "1d2593cc976353eb" ∧ SwV.Gen.C04.src_doLoading = "005ccece1c6fa4f7" := by decide

end SwV.Props.C04
