/-
C03 — property theorems: a volume survives a crash without serving wrong data.
Statements are about the byte-level model of the loader (SwV/Model/C03.lean: CheckAndFixVolumeDataIntegrity,
index loading, readNeedle, doWriteRequest), which the correspondence run ties to the real code at every crash
point of generated histories. `crc` is a parameter.

FULL-STRENGTH statement (property text): for EVERY crash state (any prefix of .dat, any prefix of .idx that
respects the write order) the volume reopens, every committed blob reads back exactly, deleted ones stay
deleted, and the volume accepts and serves new writes.  It is FALSE of the code for three families of crash
states (known findings, witnesses below); `crash_safe_partial` proves it for the remaining record-aligned
index prefixes with ARBITRARY data-file tails.
-/
import SwV.Model.C03
import SwV.Spec.C03
import SwV.Gen.C03
import SwV.Lemmas.C03

namespace SwV.Props.C03
open SwV.Model.C02 SwV.Model.C03 SwV.Spec.C03 SwV.Lemmas.C02 SwV.Lemmas.C03

/-- the last index entry of the crash state: a put of `n` whose record starts at the end of `pre` -/
def lastPut (n : Needle) (pre : Bytes) : Entry := ⟨n.id, pre.length / 8, recSize n⟩

/-- Recovery. The index is entry-aligned and ends with a put whose record is completely in the data file;
    the data file continues with ANY bytes (a torn record, records that were not indexed yet, garbage).
    Reopening succeeds, the volume is writable, the whole index is kept and the data file is cut back to the
    end of the last indexed record. -/
theorem recover_last_put (rows : Nat) (hrows : 0 < rows) (crc : Bytes → UInt32) (n : Needle) (h : WF crc n) (pre tail idxPre : Bytes)
    (hoff : pre.length % 8 = 0) (hpre : 8 ≤ pre.length) (hoffr : pre.length / 8 < 2 ^ 32)
    (hidx : idxPre.length % 16 = 0) :
    load rows crc (pre ++ (encode 3 n ++ tail)) (idxPre ++ entryBytes (lastPut n pre)) =
      { panicked := false, failed := false, readOnly := false,
        dat := ⟨pre ++ encode 3 n, pre.length + actualSize (recSize n) 3⟩,
        idx := idxPre ++ entryBytes (lastPut n pre),
        map := loadCompact (idxEntries (idxPre ++ entryBytes (lastPut n pre))) } := by
  have e1 : ¬ ((idxPre ++ entryBytes (lastPut n pre)).length % 16 ≠ 0) := by
    rw [List.length_append, entryBytes_length]; omega
  have hc := checkAndFix_last_put crc n h pre tail idxPre hoff hpre hoffr hidx
  unfold load
  rw [if_neg e1]
  unfold lastPut
  rw [hc]
  unfold loadChecked
  simp only [Bool.false_eq_true, if_false, walkIndex_all rows hrows]

/-- Reads after recovery. In a loaded, non-panicked volume whose map comes from index entries `es`, a key whose
    LAST entry is a put pointing at the record of a well-formed needle `m` with data reads back exactly `m.data`. -/
theorem recovered_blob_reads_back (crc : Bytes → UInt32) (m : Needle) (hm : WF crc m) (hd : 0 < m.data.length)
    (p post : Bytes) (hoff : p.length % 8 = 0) (hp : 8 ≤ p.length)
    (es1 es2 : List Entry) (hlast : ∀ x ∈ es2, x.key ≠ m.id)
    (v : Vol) (hv : v.panicked = false) (hvf : v.failed = false) (hdat : v.dat.bytes = p ++ (encode 3 m ++ post))
    (hmap : v.map = loadCompact (es1 ++ (⟨m.id, p.length / 8, recSize m⟩ : Entry) :: es2)) :
    readNeedle crc v m.id = .data m.data := by
  have hpos : 0 < recSize m := by unfold recSize; simp only [hd, if_true]; omega
  have hget := mget_loadCompact_put es1 es2 ⟨m.id, p.length / 8, recSize m⟩ (by simp only []; omega) (by simp only []; omega) hlast
  unfold readNeedle
  simp only [hv, hvf, Bool.false_eq_true, or_self, if_false, hmap, hget]
  have e1 : ¬ (p.length / 8 = 0) := by omega
  have e2 : ¬ ((recSize m : Int) < 0) := by omega
  have e3 : ¬ ((recSize m : Int) = 0) := by omega
  have e4 : p.length / 8 * 8 = p.length := by omega
  simp only [e1, e2, e3, if_false, e4, hdat, readData_at crc 3 m hm p post]
  simp [SwV.Spec.C02.expectedDecode, hd, storedBody]

/-- Deleted ones stay deleted: a key whose last index entry is a tombstone (or any entry the loader treats as a
    deletion) never reads as data. -/
theorem recovered_deleted_stays_deleted (crc : Bytes → UInt32) (e : Entry) (hs : ¬ (e.off ≠ 0 ∧ e.size > 0))
    (es1 es2 : List Entry) (hlast : ∀ x ∈ es2, x.key ≠ e.key)
    (v : Vol) (hmap : v.map = loadCompact (es1 ++ e :: es2)) (bs : Bytes) :
    readNeedle crc v e.key ≠ .data bs := by
  unfold readNeedle
  split
  · simp
  · rw [hmap]
    cases hg : mget (loadCompact (es1 ++ e :: es2)) e.key with
    | none => simp
    | some os =>
      obtain ⟨o, s⟩ := os
      have hnp := mget_loadCompact_del es1 es2 e hs hlast o s hg
      have hnz := loadCompact_nonzero _ _ (mget_mem _ _ _ _ hg)
      simp only [] at hnz
      have hneg : s < 0 := by omega
      simp only []
      split
      · simp
      · simp

/-- New writes are accepted and served: on a writable volume whose cached data-file size is not below the real
    size, writing a well-formed needle with a fresh id succeeds and reads back exactly. -/
theorem recovered_accepts_and_serves_write (crc : Bytes → UInt32) (x : Needle) (hx : WF crc x) (hd : 0 < x.data.length)
    (v : Vol) (hp : v.panicked = false) (hf : v.failed = false) (hro : v.readOnly = false) (hfresh : mget v.map x.id = none)
    (hsz : v.dat.bytes.length ≤ v.dat.size) (hal : v.dat.size % 8 = 0) (h8 : 8 ≤ v.dat.size) :
    (writeNeedle crc v x).2 = .ok ∧ readNeedle crc (writeNeedle crc v x).1 x.id = .data x.data := by
  have hpos : 0 < recSize x := by unfold recSize; simp only [hd, if_true]; omega
  rw [writeNeedle_fresh crc v x hp hf hro hfresh]
  refine ⟨rfl, ?_⟩
  have e4 : v.dat.size / 8 * 8 = v.dat.size := by omega
  have hpre : (v.dat.bytes ++ List.replicate (v.dat.size - v.dat.bytes.length) (0 : UInt8)).length = v.dat.size := by
    rw [List.length_append, List.length_replicate]; omega
  have hrd := readData_at crc 3 x hx (v.dat.bytes ++ List.replicate (v.dat.size - v.dat.bytes.length) 0) []
  rw [hpre, List.append_nil, List.append_assoc] at hrd
  have hdata : (SwV.Spec.C02.expectedDecode 3 x).body.data = x.data := by
    simp [SwV.Spec.C02.expectedDecode, hd, storedBody]
  rw [← hdata]
  have key := readNeedle_of_get crc (Vol.mk v.panicked v.failed v.readOnly (appendRec v.dat (encode 3 x))
      (v.idx ++ entryBytes ⟨x.id, v.dat.size / 8, recSize x⟩) (mset v.map x.id (v.dat.size / 8) (recSize x)))
      x.id (v.dat.size / 8) (recSize x) (SwV.Spec.C02.expectedDecode 3 x) hp hf (mget_mset_same _ _ _ _) (by omega) (by omega)
      (by rw [e4]; exact hrd)
  exact key

/-- `crash_safe_partial`: the property for every crash state whose index prefix is entry-aligned and ends with a
    put (data-file tail arbitrary, byte-granular): reopen succeeds and is writable; every blob (with data) whose
    index entry is the last one of its key reads back exactly; keys whose last entry is a tombstone stay
    deleted; a fresh write is accepted and served.
    Excluded crash states = the three known findings: index not a multiple of 16 bytes (`torn_index_panics`),
    last index entry a tombstone with bytes behind its record (`tombstone_tail_read_only_witness`), committed
    EMPTY blobs (`empty_blob_lost_witness`). -/
theorem crash_safe_partial (rows : Nat) (hrows : 0 < rows) (crc : Bytes → UInt32) (n : Needle) (h : WF crc n) (pre tail idxPre : Bytes)
    (hoff : pre.length % 8 = 0) (hpre : 8 ≤ pre.length) (hoffr : pre.length / 8 < 2 ^ 32)
    (hidx : idxPre.length % 16 = 0) :
    let v := load rows crc (pre ++ (encode 3 n ++ tail)) (idxPre ++ entryBytes (lastPut n pre))
    v.panicked = false ∧ v.failed = false ∧ v.readOnly = false ∧ v.idx = idxPre ++ entryBytes (lastPut n pre) ∧
    v.dat.bytes = pre ++ encode 3 n ∧
    -- committed blobs read back exactly
    (∀ (m : Needle) (p post : Bytes) (es1 es2 : List Entry), WF crc m → 0 < m.data.length →
        pre ++ encode 3 n = p ++ (encode 3 m ++ post) → p.length % 8 = 0 → 8 ≤ p.length →
        idxEntries (idxPre ++ entryBytes (lastPut n pre)) = es1 ++ (⟨m.id, p.length / 8, recSize m⟩ : Entry) :: es2 →
        (∀ x ∈ es2, x.key ≠ m.id) → readNeedle crc v m.id = .data m.data) ∧
    -- deleted ones stay deleted
    (∀ (e : Entry) (es1 es2 : List Entry), ¬ (e.off ≠ 0 ∧ e.size > 0) →
        idxEntries (idxPre ++ entryBytes (lastPut n pre)) = es1 ++ e :: es2 → (∀ x ∈ es2, x.key ≠ e.key) →
        ∀ bs, readNeedle crc v e.key ≠ .data bs) ∧
    -- new writes are accepted and served
    (∀ (x : Needle), WF crc x → 0 < x.data.length → mget v.map x.id = none →
        (writeNeedle crc v x).2 = .ok ∧ readNeedle crc (writeNeedle crc v x).1 x.id = .data x.data) := by
  intro v
  have hv : v = _ := recover_last_put rows hrows crc n h pre tail idxPre hoff hpre hoffr hidx
  have ha := actualSize_mod8 (recSize n) 3
  refine ⟨by rw [hv], by rw [hv], by rw [hv], by rw [hv], by rw [hv], ?_, ?_, ?_⟩
  · intro m p post es1 es2 hm hd hsplit hpo hp8 hes hlast
    exact recovered_blob_reads_back crc m hm hd p post hpo hp8 es1 es2 hlast v (by rw [hv]) (by rw [hv]) (by rw [hv]; exact hsplit)
      (by rw [hv]; simp only []; rw [hes])
  · intro e es1 es2 hs hes hlast bs
    exact recovered_deleted_stays_deleted crc e hs es1 es2 hlast v (by rw [hv]; simp only []; rw [hes]) bs
  · intro x hx hd hfresh
    have hlen : (pre ++ encode 3 n).length = pre.length + actualSize (recSize n) 3 := by
      rw [List.length_append, encode_length crc 3 n h]
    exact recovered_accepts_and_serves_write crc x hx hd v (by rw [hv]) (by rw [hv]) (by rw [hv]) hfresh
      (by rw [hv]; simp only []; omega) (by rw [hv]; simp only []; omega) (by rw [hv]; simp only []; omega)

/-- The index walker (`WalkIndexFile`, batches of `rows` = `idx.RowsToRead` entries) hands every complete entry
    of the index to the loader and returns no error, for EVERY index length and every positive batch size — in
    particular when the index holds an exact multiple of the batch (the final read then returns 0 bytes with
    io.EOF and the loop must be entered once more to `return nil`). -/
theorem walk_visits_every_entry (rows : Nat) (hrows : 0 < rows) (idx : Bytes) :
    walkIndex rows idx = (idxEntries idx, false) := walkIndex_all rows hrows idx

/-- … so a volume never fails to mount because of the number of index entries: whenever the integrity check
    passes, the load does not fail and the map is built from all entries -/
theorem load_never_fails_on_entry_count (rows : Nat) (hrows : 0 < rows) (r : Dat × Bytes × Bool) (hr : r.2.2 = false) :
    (loadChecked rows r).failed = false ∧ (loadChecked rows r).map = loadCompact (idxEntries r.2.1) := by
  unfold loadChecked
  simp only [hr, Bool.false_eq_true, if_false, walkIndex_all rows hrows]
  exact ⟨trivial, trivial⟩

/-- the walker model's exit path the boundary case depends on: with the loop condition grouped as
    `count > 0 && (e == nil || e == io.EOF)` a full last batch would end in `return e` = io.EOF; the model
    (and the code, see `bridge_walk_loop`) re-enters the loop on `e == io.EOF` alone. Concrete boundary: 2 batches of 1 row. -/
theorem walk_exact_batch_boundary_witness :
    walkIndex 1 (entryBytes ⟨1, 1, 6⟩ ++ entryBytes ⟨2, 6, 7⟩) = ([⟨1, 1, 6⟩, ⟨2, 6, 7⟩], false) ∧
    walkIndex 2 (entryBytes ⟨1, 1, 6⟩ ++ entryBytes ⟨2, 6, 7⟩) = ([⟨1, 1, 6⟩, ⟨2, 6, 7⟩], false) := by
  decide +kernel

/-! ### the excluded crash states (known findings): the full-strength statement is false there -/

/-- finding reopen/panic-on-torn-index-entry: ANY index whose size is not a multiple of 16 makes the loader panic -/
theorem torn_index_panics (rows : Nat) (crc : Bytes → UInt32) (dat idx : Bytes) (h : idx.length % 16 ≠ 0) :
    (load rows crc dat idx).panicked = true := by
  unfold load; simp [h]

def crc0 : Bytes → UInt32 := fun _ => 0
def w1 : Needle := { cookie := 1, id := 1, flags := 0, data := [7] }
def w0 : Needle := { cookie := 1, id := 1, flags := 0, data := [] }
def w2 : Needle := { cookie := 2, id := 2, flags := 0, data := [9] }

/-- finding read/committed-empty-blob-lost-after-reload: put of an empty blob, both files complete, no crash at all -/
theorem empty_blob_lost_witness :
    readNeedle crc0 (load 1024 crc0 (superBlock ++ encode 3 w0) (entryBytes ⟨1, 1, 0⟩)) 1 = .notFound := by
  decide +kernel

/-- finding write/read-only-after-tail-behind-tombstone: put 1, delete 1 (both indexed), then ONE byte of the
    next record reached the data file ⇒ the volume is opened read-only; without that byte it is writable -/
theorem tombstone_tail_read_only_witness :
    (load 1024 crc0 (superBlock ++ (encode 3 w1 ++ (encode 3 w0 ++ [0x11]))) (entryBytes ⟨1, 1, 6⟩ ++ entryBytes ⟨1, 6, -1⟩)).readOnly = true ∧
    (load 1024 crc0 (superBlock ++ (encode 3 w1 ++ (encode 3 w0 ++ []))) (entryBytes ⟨1, 1, 6⟩ ++ entryBytes ⟨1, 6, -1⟩)).readOnly = false := by
  decide +kernel

/-! ### bridges (T1) -/

theorem bridge_consts :
    SwV.Gen.C03.NeedleMapEntrySize = 16 ∧ SwV.Gen.C03.NeedlePaddingSize = 8 ∧ SwV.Gen.C03.NeedleHeaderSize = 16 ∧
    SwV.Gen.C03.OffsetSize = 4 ∧ SwV.Gen.C03.TimestampSize = 8 ∧ SwV.Gen.C03.TombstoneFileSize = -1 ∧
    SwV.Gen.C03.NeedleChecksumSize = 4 ∧ SwV.Gen.C03.CurrentVersion = 3 ∧ SwV.Gen.C03.SuperBlockSize = 8 := by decide

/-- the size of a tombstone record that `verifyDeletedNeedleIntegrity` subtracts from the file size -/
theorem bridge_tombstone_size : SwV.Gen.C03.GetActualSize 0 3 = (actualSize 0 3 : Nat) := by decide

/-- the loader's classification of index entries (`size.IsValid()` else-branch = deletion) -/
theorem bridge_size_predicates (s : Int) :
    SwV.Gen.C03.Size_IsValid s = decide (s > 0) ∧ SwV.Gen.C03.Size_IsDeleted s = decide (s < 0) := by
  simp only [SwV.Gen.C03.Size_IsValid, SwV.Gen.C03.Size_IsDeleted]
  constructor
  · by_cases h : s > 0 <;> simp [h] <;> omega
  · by_cases h : s < 0 <;> simp [h] <;> omega

/-- the batch size the model's walker is instantiated with (driver: `Gen.C03.RowsToRead`) is positive -/
theorem bridge_rows_to_read : 0 < SwV.Gen.C03.RowsToRead ∧ SwV.Gen.C03.RowsToRead = 1024 := by decide

/-- `WalkIndexFile`'s loop and early-exit conditions are the ones `walkFrom`/`walkIndex` transcribe
    (Go precedence: `(count > 0 && e == nil) || e == io.EOF`) -/
theorem bridge_walk_loop :
    SwV.Gen.C03.walkLoopCond = "count > 0 && e == nil || e == io.EOF" ∧
    SwV.Gen.C03.walkEmptyCond = "count == 0 && e == io.EOF" ∧ SwV.Gen.C03.src_WalkIndexFile = "49505c0b1e8672d9" := by decide

theorem bridge_check_loop : SwV.Gen.C03.checkLoopCond = "i <= 10 && indexSize >= int64(i)*NeedleMapEntrySize" := by decide

theorem bridge_source_pins :
    SwV.Gen.C03.src_CheckAndFixVolumeDataIntegrity = "87c670d5bb65451b" ∧ SwV.Gen.C03.src_doCheckAndFixVolumeData = "fd075d386a587aa4" ∧
    SwV.Gen.C03.src_verifyNeedleIntegrity = "1d2593cc976353eb" ∧ SwV.Gen.C03.src_verifyDeletedNeedleIntegrity = "8864012c351f9361" ∧
    SwV.Gen.C03.src_verifyIndexFileIntegrity = "1be1c34c98e69240" ∧ SwV.Gen.C03.src_doLoading = "005ccece1c6fa4f7" ∧
    SwV.Gen.C03.src_load = "56b358c422f18403" ∧ SwV.Gen.C03.src_NewDiskFile = "ff8f8a960654f499" := by decide

/-! ### non-vacuity: the hypotheses of `crash_safe_partial` hold for a two-record volume with a torn third record -/
example : WF crc0 w2 ∧ (superBlock ++ encode 3 w1).length % 8 = 0 ∧ 8 ≤ (superBlock ++ encode 3 w1).length ∧
    (entryBytes ⟨1, 1, 6⟩).length % 16 = 0 := by decide +kernel
example : readNeedle crc0 (load 1024 crc0 ((superBlock ++ encode 3 w1) ++ (encode 3 w2 ++ [1, 2, 3]))
    (entryBytes ⟨1, 1, 6⟩ ++ entryBytes (lastPut w2 (superBlock ++ encode 3 w1)))) 1 = .data [7] := by decide +kernel

end SwV.Props.C03
