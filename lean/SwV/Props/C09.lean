/-
C09 — property theorems (only theorems here; helper lemmas live in SwV/Lemmas/C09.lean).
The model (SwV/Model/C09.lean) is tied to the Go code by the correspondence check on every run and by the
`bridge_*` theorems to definitions REGENERATED from the source (SwV/Gen/C09.lean).
-/
import SwV.Model.C09
import SwV.Spec.C09
import SwV.Gen.C09
import SwV.Lemmas.C09
import SwV.Lemmas.C09b

namespace SwV.Props.C09
open SwV.Model.C08 SwV.Model.C09 SwV.Spec.C09 SwV.Lemmas.C09

/-! ### The read window -/

/-- `ttl_window`: a needle that carries a non-zero TTL and the LastModified flag is returned by `readNeedle`
    exactly while `now < AppendAtNs + ttl` -/
theorem ttl_window (n : Needle) (nowNs : Nat) (h1 : n.hasTtl = true) (h2 : ttlMinutes n.ttl ≠ 0) (h3 : n.hasLM = true) :
    readable n nowNs = true ↔ nowNs < n.appendNs + ttlMinutes n.ttl * 60 * nsPerSec := by
  simp [readable, h1, h2, h3]

/-- … and every other needle is returned at all times (no TTL flag, a TTL of 0 minutes, or no LastModified flag) -/
theorem ttl_window_unbounded (n : Needle) (nowNs : Nat)
    (h : n.hasTtl = false ∨ ttlMinutes n.ttl = 0 ∨ n.hasLM = false) : readable n nowNs = true := by
  unfold readable
  rcases h with h | h | h
  · simp [h]
  · by_cases h1 : n.hasTtl = true <;> simp [h1, h]
  · by_cases h1 : n.hasTtl = true <;> by_cases h2 : ttlMinutes n.ttl = 0 <;> simp [h1, h2, h]

/-- the model's read decision IS the promise of the spec, for every needle of the upload path and every time -/
theorem read_refines_promise (n : Needle) (nowNs : Nat) (h : n.hasLM = true) : readable n nowNs = live n nowNs := by
  unfold readable live promisedNs
  by_cases h1 : n.hasTtl = true <;> by_cases h2 : ttlMinutes n.ttl = 0 <;> simp [h1, h2, h]

/-! ### No early removal: compaction -/

/- FULL-STRENGTH statement (false of the model and of the code, findings compact/*):
     ∀ vt n now, readable n now = true → vacuumDrops vt n (now / nsPerSec) = false -/

/-- witnesses of the four ways compaction removes a needle that a read still returns
    (now = 2 000 000 000 s; 1h needle on a volume without TTL; 1h needle on a 5m volume;
     client-supplied LastModified two hours back; 137y volume whose seconds wrap in uint32) -/
theorem no_early_removal_compaction_witness :
    (readable ⟨true, ⟨1, 2⟩, true, 1999999800, 1999999800 * nsPerSec⟩ (2000000000 * nsPerSec) = true ∧
      vacuumDrops emptyTTL ⟨true, ⟨1, 2⟩, true, 1999999800, 1999999800 * nsPerSec⟩ 2000000000 = true) ∧
    (readable ⟨true, ⟨1, 2⟩, true, 1999999100, 1999999100 * nsPerSec⟩ (2000000000 * nsPerSec) = true ∧
      vacuumDrops ⟨5, 1⟩ ⟨true, ⟨1, 2⟩, true, 1999999100, 1999999100 * nsPerSec⟩ 2000000000 = true) ∧
    (readable ⟨true, ⟨1, 2⟩, true, 1999992800, 2000000000 * nsPerSec⟩ (2000000000 * nsPerSec) = true ∧
      vacuumDrops ⟨1, 2⟩ ⟨true, ⟨1, 2⟩, true, 1999992800, 2000000000 * nsPerSec⟩ 2000000000 = true) ∧
    (readable ⟨true, ⟨137, 6⟩, true, 1970000000, 1970000000 * nsPerSec⟩ (2000000000 * nsPerSec) = true ∧
      vacuumDrops ⟨137, 6⟩ ⟨true, ⟨137, 6⟩, true, 1970000000, 1970000000 * nsPerSec⟩ 2000000000 = true) := by
  decide

/-- `no_early_removal`, compaction, partial: if the needle's TTL is positive and not longer than the volume's,
    the volume TTL in seconds fits uint32, and LastModified precedes the append by less than `δ` seconds,
    then a needle that a read would still return `δ` seconds from now is NOT dropped by a compaction now.
    (`δ = 1`: LastModified is the second of the append — the server-stamped case.) -/
theorem no_early_removal_compaction_partial (vt : TTL) (n : Needle) (nowNs δ : Nat)
    (hflags : n.hasTtl = true → n.hasLM = true ∧ 0 < ttlMinutes n.ttl ∧ ttlMinutes n.ttl ≤ ttlMinutes vt)
    (hov : ttlMinutes vt * 60 < 4294967296)
    (hskew : n.appendNs < (n.lm + δ) * nsPerSec)
    (hlive : readable n (nowNs + δ * nsPerSec) = true) :
    vacuumDrops vt n (nowNs / nsPerSec) = false := by
  by_cases h1 : n.hasTtl = true
  · obtain ⟨h3, h2, hle⟩ := hflags h1
    have hw := (ttl_window n (nowNs + δ * nsPerSec) h1 (by omega) h3).1 hlive
    simp only [vacuumDrops, h1, Bool.true_and, decide_eq_false_iff_not, u32, two32]
    simp only [nsPerSec] at *
    omega
  · simp [vacuumDrops, h1]

/-! ### No early removal: expiry-driven volume deletion -/

/-- witnesses: (a) 1h needle on a 5m volume, both 15 minutes old: the heartbeat deletes the volume, the needle is live;
    (b) fresh 1h volume (lastModified 0), blob written now with a client-supplied LastModified 100 000 s back -/
theorem no_early_removal_expiry_witness :
    (let n : Needle := ⟨true, ⟨1, 2⟩, true, 1999999100, 1999999100 * nsPerSec⟩
     let v : Vol := ⟨⟨5, 1⟩, 1999999100, [(1, n)], true, 2 ^ 30⟩
     SwV.Model.C09.read v 1 (2000000000 * nsPerSec) = .ok ∧ hbDecision v 2000000000 = .deleted ∧
     SwV.Model.C09.read (step v (2000000000 * nsPerSec) .heartbeat) 1 (2000000000 * nsPerSec) = .novol) ∧
    (let v0 : Vol := ⟨⟨1, 2⟩, 0, [], true, 2 ^ 30⟩
     let v := step v0 (2000000000 * nsPerSec) (.put 1 emptyTTL true 1999900000)
     SwV.Model.C09.read v 1 (2000000000 * nsPerSec) = .ok ∧ hbDecision v 2000000000 = .deleted) := by
  decide

/-- `no_early_removal`, expiry, partial: if the needle has a positive TTL not longer than the volume's and the
    volume's lastModified is less than `δ ≥ 1` seconds older than the needle's append, then a heartbeat never
    deletes the volume while a read would still return the needle `δ - 1` seconds from now (δ = 1: now). -/
theorem no_early_removal_expiry_partial (v : Vol) (n : Needle) (nowNs δ : Nat)
    (h1 : n.hasTtl = true) (h3 : n.hasLM = true) (h2 : 0 < ttlMinutes n.ttl)
    (hle : ttlMinutes n.ttl ≤ ttlMinutes v.ttl)
    (hδ : 1 ≤ δ)
    (hskew : n.appendNs < (v.lm + δ) * nsPerSec)
    (hlive : readable n (nowNs + (δ - 1) * nsPerSec) = true) :
    hbDecision v (nowNs / nsPerSec) ≠ .deleted := by
  have hw := (ttl_window n _ h1 (by omega) h3).1 hlive
  intro hd
  unfold hbDecision at hd
  split at hd
  · cases hd
  · split at hd
    · cases hd
    · split at hd
      · rename_i hl
        unfold volExpiredLongEnough at hl
        split at hl
        · cases hl
        · simp only [decide_eq_true_eq] at hl
          simp only [nsPerSec] at *
          split at hl <;> omega
      · cases hd

/-! ### Histories: honest writes are never removed early -/

theorem inv_init (t : TTL) (lim : Nat) : Inv ⟨t, 0, [], true, lim⟩ := by
  intro kn hkn; cases hkn

/-- the invariant `Inv` (every record is `Good`) is preserved by compaction, heartbeat and an honest reload
    executed at a clock that is not behind the volume's lastModified -/
theorem inv_maintenance (v : Vol) (nowNs : Nat) (op : Op) (hinv : Inv v) (hop : HonestOp v nowNs op)
    (hnp : ∀ k t b l, op ≠ .put k t b l) (hclock : v.lm ≤ nowNs / nsPerSec) :
    Inv (step v nowNs op) := by
  cases op with
  | put key t hasLM lm => exact (hnp key t hasLM lm rfl).elim
  | compact =>
    by_cases ha : v.alive = true
    · simp only [step, ha, Bool.not_true, Bool.false_eq_true, if_false]
      intro kn hkn
      simp only [List.mem_filter] at hkn
      exact good_mono _ _ _ _ (hinv kn hkn.1) hclock
    · simpa [step, ha] using hinv
  | heartbeat =>
    simp only [step]
    split
    · intro kn hkn; simp at hkn
    · exact hinv
  | reload mtime =>
    by_cases ha : v.alive = true
    · simp only [step, ha, Bool.not_true, Bool.false_eq_true, if_false]
      intro kn hkn
      exact good_mono _ _ _ _ (hinv kn hkn) hop
    · simpa [step, ha] using hinv

/-- … and by an honest write: server-stamped LastModified, TTL empty (inherits the volume's) or positive and not
    longer than the volume's; the volume TTL itself is empty or positive -/
theorem inv_put (v : Vol) (nowNs key : Nat) (t : TTL) (hinv : Inv v)
    (ht : t = emptyTTL ∨ (0 < ttlMinutes t ∧ ttlMinutes t ≤ ttlMinutes v.ttl))
    (hvt : v.ttl = emptyTTL ∨ 0 < ttlMinutes v.ttl) :
    Inv (step v nowNs (.put key t true (nowNs / nsPerSec))) := by
  by_cases ha : v.alive = true
  · have hE : ∀ f t', effectiveTtl v.ttl t = (f, t') →
        (f = true → 0 < ttlMinutes t' ∧ ttlMinutes t' ≤ ttlMinutes v.ttl) ∧ (f = false → ttlMinutes v.ttl = 0) := by
      intro f t' he
      unfold effectiveTtl at he
      by_cases h1 : t = emptyTTL
      · by_cases h2 : v.ttl = emptyTTL
        · simp [h1, h2] at he
          obtain ⟨rfl, rfl⟩ := he
          exact ⟨fun h => (by cases h), fun _ => (by rw [h2]; decide)⟩
        · simp [h1, h2] at he
          obtain ⟨rfl, rfl⟩ := he
          rcases hvt with hv | hv
          · exact (h2 hv).elim
          · exact ⟨fun _ => ⟨hv, Nat.le_refl _⟩, fun h => by cases h⟩
      · simp [h1] at he
        obtain ⟨rfl, rfl⟩ := he
        rcases ht with ht | ⟨hp, hl⟩
        · exact (h1 ht).elim
        · exact ⟨fun _ => ⟨hp, hl⟩, fun h => by cases h⟩
    simp only [step, ha, Bool.not_true, Bool.false_eq_true, if_false, if_true]
    generalize he : effectiveTtl v.ttl t = ft
    obtain ⟨f, t'⟩ := ft
    obtain ⟨e1, e2⟩ := hE f t' he
    intro kn hkn
    simp only [List.mem_cons, List.mem_filter] at hkn
    rcases hkn with rfl | ⟨hm, _⟩
    · refine ⟨fun hf => ⟨rfl, e1 hf⟩, ?_, ?_, fun hf => e2 hf⟩
      · simp [nsPerSec]; omega
      · simp only []; split <;> omega
    · exact good_mono _ _ _ _ (hinv kn hm) (by simp only []; split <;> omega)
  · simpa [step, ha] using hinv

/-- MAIN: in a volume whose records are all honest (`Inv`, preserved along every honest history by `inv_step`),
    neither compaction nor a heartbeat (expiry) executed now takes away a key that a read one second from now
    would still return — the read one second from now still returns it afterwards. -/
theorem no_early_removal_honest (v : Vol) (nowNs key : Nat) (op : Op) (hop : op = .compact ∨ op = .heartbeat)
    (hinv : Inv v) (hov : ttlMinutes v.ttl * 60 < 4294967296)
    (h : SwV.Model.C09.read v key (nowNs + nsPerSec) = .ok) :
    SwV.Model.C09.read (step v nowNs op) key (nowNs + nsPerSec) = .ok := by
  unfold SwV.Model.C09.read at h
  by_cases ha : v.alive = true
  · simp only [ha, Bool.not_true, Bool.false_eq_true, if_false] at h
    unfold lookup at h
    cases hf : v.needles.find? (fun x => decide (x.1 = key)) with
    | none => simp [hf] at h
    | some kn =>
      simp only [hf, Option.map_some] at h
      have hr : readable kn.2 (nowNs + nsPerSec) = true := by
        by_cases hr : readable kn.2 (nowNs + nsPerSec) = true
        · exact hr
        · simp [hr] at h
      have hmem : kn ∈ v.needles := List.mem_of_find?_eq_some hf
      obtain ⟨g1, g2, g3, g4⟩ := hinv kn hmem
      rcases hop with rfl | rfl
      · -- compaction: the record passes the vacuum filter, so the index still finds it
        have hkeep : vacuumDrops v.ttl kn.2 (nowNs / nsPerSec) = false :=
          no_early_removal_compaction_partial v.ttl kn.2 nowNs 1 g1 hov g2 (by simpa using hr)
        have hf' := find_filter v.needles (fun x => !vacuumDrops v.ttl x.2 (nowNs / nsPerSec)) key kn hf (by simp [hkeep])
        simp [step, ha, SwV.Model.C09.read, lookup, hf', hr]
      · -- heartbeat: the volume is not deleted
        have hnd : hbDecision v (nowNs / nsPerSec) ≠ .deleted := by
          by_cases hh : kn.2.hasTtl = true
          · obtain ⟨a1, a2, a3⟩ := g1 hh
            exact no_early_removal_expiry_partial v kn.2 nowNs 2 hh a1 a2 a3 (by omega)
              (Nat.lt_of_lt_of_le g2 (Nat.mul_le_mul_right _ (by omega))) (by simpa using hr)
          · have hz := g4 (by simpa using hh)
            intro hd
            simp [hbDecision, ha, volExpired, hz] at hd
        have hs : step v nowNs .heartbeat = v := by
          simp only [step]
          try (split <;> first | rfl | (rename_i hd; exact (hnd hd).elim))
        rw [hs]
        simp [SwV.Model.C09.read, ha, lookup, hf, hr]
  · simp [ha] at h

/-! ### Histories, explicitly: induction over a timed operation list with overwrites and deletes -/

/-- one honest step of a history (write, OVERWRITE = write of a key that is there, DELETE, compaction, heartbeat,
    reload) keeps the invariant: `inv_put` / `inv_maintenance` / `inv_delete` -/
theorem inv_hstep (v : Vol) (t : Nat) (o : HOp) (hinv : Inv v) (hlm : v.lm ≤ t / nsPerSec)
    (hvt : v.ttl = emptyTTL ∨ 0 < ttlMinutes v.ttl) (ho : HonestH v t o) : Inv (hstep v t o) := by
  cases o with
  | del key => exact inv_delete v t key hinv
  | op o =>
    cases o with
    | put key tt hasLM lm =>
      obtain ⟨⟨h1, h2, h3⟩, _⟩ := ho
      subst h1 h2
      exact inv_put v t key tt hinv h3 hvt
    | compact => exact inv_maintenance v t .compact hinv ho.1 (by intro k t' b l h; cases h) hlm
    | heartbeat => exact inv_maintenance v t .heartbeat hinv ho.1 (by intro k t' b l h; cases h) hlm
    | reload mtime => exact inv_maintenance v t (.reload mtime) hinv ho.1 (by intro k t' b l h; cases h) hlm

/-- the induction: along every honest timed history the invariant holds (and the volume TTL never changes) -/
theorem inv_history (h : List (Nat × HOp)) : ∀ (v : Vol) (last : Nat), Inv v → v.lm ≤ last / nsPerSec →
    (v.ttl = emptyTTL ∨ 0 < ttlMinutes v.ttl) → HonestRun v last h →
    Inv (hrun v h) ∧ (hrun v h).ttl = v.ttl := by
  induction h with
  | nil => intro v last hinv _ _ _; exact ⟨hinv, rfl⟩
  | cons x r ih =>
    intro v last hinv hlm hvt hh
    obtain ⟨t, o⟩ := x
    obtain ⟨hle, ho, hr⟩ := hh
    have hlm' : v.lm ≤ t / nsPerSec := Nat.le_trans hlm (Nat.div_le_div_right hle)
    have httl := hstep_ttl v t o
    have IH := ih (hstep v t o) t (inv_hstep v t o hinv hlm' hvt ho) (lm_hstep v t o hlm' ho) (by rw [httl]; exact hvt) hr
    exact ⟨IH.1, IH.2.trans httl⟩

/-- MAIN (histories): for EVERY list of honest operations — writes with a server-stamped LastModified and a TTL that is
    empty or not longer than the volume's, overwrites, deletes, compactions, heartbeats, reloads, at clocks that never
    run backwards — from the empty volume, at EVERY prefix of the history: neither a compaction nor an expiry-driven
    heartbeat executed at any time `nowNs` removes a needle that a read one second later would return (the read one
    second later still returns it afterwards). -/
theorem no_early_removal_history (t0 : TTL) (lim : Nat) (ht0 : t0 = emptyTTL ∨ 0 < ttlMinutes t0)
    (hov : ttlMinutes t0 * 60 < 4294967296) (h : List (Nat × HOp)) (hh : HonestRun ⟨t0, 0, [], true, lim⟩ 0 h) :
    ∀ pre rest, h = pre ++ rest → ∀ (nowNs key : Nat) (op : Op), op = .compact ∨ op = .heartbeat →
      SwV.Model.C09.read (hrun ⟨t0, 0, [], true, lim⟩ pre) key (nowNs + nsPerSec) = .ok →
      SwV.Model.C09.read (step (hrun ⟨t0, 0, [], true, lim⟩ pre) nowNs op) key (nowNs + nsPerSec) = .ok := by
  intro pre rest hpr nowNs key op hop hread
  subst hpr
  have hp := honestRun_prefix pre rest _ _ hh
  obtain ⟨hinv, httl⟩ := inv_history pre ⟨t0, 0, [], true, lim⟩ 0 (inv_init t0 lim) (Nat.zero_le _) ht0 hp
  exact no_early_removal_honest _ nowNs key op hop hinv (by rw [httl]; exact hov) hread

/-- non-vacuity: a 1-hour volume; write key 1 at second 5, OVERWRITE it at second 6, write key 2, DELETE key 2, compact
    at second 8, heartbeat at second 9, reload: an honest history; key 1 is readable at the end -/
def exampleHistory : List (Nat × HOp) := [
  (5 * nsPerSec, .op (.put 1 emptyTTL true 5)),
  (6 * nsPerSec, .op (.put 1 ⟨30, 1⟩ true 6)),
  (6 * nsPerSec + 7, .op (.put 2 emptyTTL true 6)),
  (7 * nsPerSec, .del 2),
  (8 * nsPerSec, .op .compact),
  (9 * nsPerSec, .op .heartbeat),
  (9 * nsPerSec, .op (.reload 9))]

example : HonestRun ⟨⟨1, 2⟩, 0, [], true, 1000⟩ 0 exampleHistory ∧
    SwV.Model.C09.read (hrun ⟨⟨1, 2⟩, 0, [], true, 1000⟩ exampleHistory) 1 (10 * nsPerSec) = .ok ∧
    SwV.Model.C09.read (hrun ⟨⟨1, 2⟩, 0, [], true, 1000⟩ exampleHistory) 2 (10 * nsPerSec) = .notfound := by
  refine ⟨⟨by decide, ⟨⟨rfl, by decide, Or.inl rfl⟩, fun m h => by cases h⟩,
    by decide, ⟨⟨rfl, by decide, Or.inr (by decide)⟩, fun m h => by cases h⟩,
    by decide, ⟨⟨rfl, by decide, Or.inl rfl⟩, fun m h => by cases h⟩,
    by decide, trivial,
    by decide, ⟨trivial, fun m h => by cases h⟩,
    by decide, ⟨trivial, fun m h => by cases h⟩,
    by decide, ⟨(by show (_ : Nat) ≤ 9; decide), fun m h => by cases h; decide⟩, trivial⟩, by decide, by decide⟩

/-! ### Filer seconds → volume TTL -/

/- FULL-STRENGTH statement (false, finding sec2ttl/rounds-down):
     ∀ s, 0 < s → s < 2^31 → volMinutes s = 0 ∨ s ≤ 60 * volMinutes s -/

/-- exact characterisation: the volume TTL chosen by `SecondsToTTL` (regenerated from the source) and read back by
    `ReadTTL`/`Minutes` lasts at least `s` seconds IFF `s` is an exact multiple (count ≤ 255) of one of the six units -/
theorem filer_ttl_covered_iff (s : Int) (h0 : 0 < s) (h1 : s < 2147483648) :
    (s ≤ 60 * (volMinutes s : Int)) ↔ exactUnit s := covered_iff s h0 h1

/-- 90 s is stored in a volume that promises less than 90 s ("1m") -/
theorem filer_ttl_rounds_down_witness : ¬ ((90 : Int) ≤ 60 * (volMinutes 90 : Int)) ∧ ¬ ((15361 : Int) ≤ 60 * (volMinutes 15361 : Int)) := by
  rw [covered_iff 90 (by decide) (by decide), covered_iff 15361 (by decide) (by decide)]
  unfold exactUnit
  omega

theorem filer_ttl_covered_partial (s : Int) (h0 : 0 < s) (h1 : s < 2147483648) (hx : exactUnit s) :
    s ≤ 60 * (volMinutes s : Int) := (covered_iff s h0 h1).2 hx

/-! ### Filer: a visible entry never points at expired data -/

/-- `Filer.FindEntry` / listing: an entry is visible exactly while `now ≤ Crtime + TtlSec` (or it has no TTL);
    Mtime plays no role, so appends and touches do not extend its life -/
theorem entry_visible_iff (e : FEntry) (nowNs : Nat) :
    entryVisible e nowNs = true ↔ e.ttlSec = 0 ∨ nowNs ≤ (e.crtime + e.ttlSec) * nsPerSec := by
  simp [entryVisible]

/- FULL-STRENGTH statement (false because of finding sec2ttl/rounds-down):
     every chunk of a visible entry, stored with ttl string SecondsToTTL(TtlSec), is readable. -/

/-- witness: entry with TtlSec = 90 created at second 1000, chunk in a "1m" volume: at second 1070 the entry is
    visible and its chunk is gone -/
theorem visible_entry_expired_chunk_witness :
    entryVisible ⟨90, 1000, 1000, [⟨⟨1, 1⟩, 1000 * nsPerSec⟩]⟩ (1070 * nsPerSec) = true ∧
    chunkReadable ⟨⟨1, 1⟩, 1000 * nsPerSec⟩ (1070 * nsPerSec) = false := by decide

/-- partial: if the chunk's volume TTL covers the entry's TtlSec and the chunk was written less than `δ` seconds
    before the entry's Crtime (or any time after it — appends), then whenever the entry is still visible `δ` seconds
    from now, the chunk is readable now. (δ = 0: chunk written after Crtime, same instant.) -/
theorem visible_chunk_readable_partial (e : FEntry) (c : Chunk) (nowNs δ : Nat)
    (hc : Covers e.ttlSec c) (hskew : e.crtime * nsPerSec < c.appendNs + δ * nsPerSec)
    (hvis : entryVisible e (nowNs + δ * nsPerSec) = true) : chunkReadable c nowNs = true := by
  unfold chunkReadable
  by_cases hm : ttlMinutes c.ttl = 0
  · exact ttl_window_unbounded _ _ (Or.inr (Or.inl hm))
  · have he : c.ttl ≠ emptyTTL := by intro h; rw [h] at hm; exact hm (by decide)
    have hflag : (chunkNeedle c).hasTtl = true := by simp [chunkNeedle, he]
    rw [ttl_window (chunkNeedle c) nowNs hflag hm rfl]
    obtain ⟨h0, h1⟩ := hc
    have hs : e.ttlSec ≠ 0 := fun h => hm (h0 h)
    have hle : e.ttlSec ≤ 60 * ttlMinutes c.ttl := by rcases h1 with h | h; exact (hm h).elim; exact h
    have hv := (entry_visible_iff e _).1 hvis
    simp only [chunkNeedle, nsPerSec] at *
    omega

/-- the chunk TTL the filer asks for (`SecondsToTTL(TtlSec)`, regenerated from the source, read by `ReadTTL`)
    covers TtlSec whenever TtlSec is an exact unit multiple — the complement is finding sec2ttl/rounds-down -/
theorem filer_assign_covers_partial (s : Nat) (c : Chunk) (h0 : 0 < s) (h1 : s < 2147483648)
    (hx : exactUnit (s : Int)) (hc : c.ttl = (readTTL (SwV.Gen.C09.SecondsToTTL (s : Int)).toList).1) :
    Covers s c := by
  have h := (covered_iff (s : Int) (by omega) (by omega)).2 hx
  have hm : volMinutes (s : Int) = ttlMinutes c.ttl := by rw [hc]; rfl
  rw [hm] at h
  exact ⟨fun hs => by omega, Or.inr (by omega)⟩

theorem finv_init (δ nowNs : Nat) : FInv δ [] nowNs := by intro ke hke; cases hke

theorem finv_mono (δ : Nat) (st : FStore) (a b : Nat) (h : FInv δ st a) (hab : a ≤ b) : FInv δ st b :=
  fun ke hke => ⟨(h ke hke).1, Nat.le_trans (h ke hke).2 hab⟩

/-- FindEntry and listing only delete entries -/
theorem finv_find (δ : Nat) (st : FStore) (nowNs k : Nat) (h : FInv δ st nowNs) : FInv δ (ffind st nowNs k).2 nowNs :=
  fun ke hke => h ke (ffind_store_subset st nowNs k ke hke)

theorem finv_list (δ : Nat) (st : FStore) (nowNs : Nat) (h : FInv δ st nowNs) : FInv δ (flist st nowNs) nowNs :=
  fun ke hke => h ke (List.mem_filter.1 hke).1

/-- CreateEntry (create, or update-after-create: append / touch / new TtlSec) preserves the invariant when the
    submitted entry's Crtime is not in the future and each of its chunks is covered for the submitted TtlSec and is
    either a chunk of the still-visible old entry (kept) or was written less than `δ` seconds ago -/
theorem finv_put (δ : Nat) (st : FStore) (nowNs k : Nat) (e : FEntry) (hinv : FInv δ st nowNs)
    (hcr : e.crtime * nsPerSec ≤ nowNs)
    (hch : ∀ c ∈ e.chunks, Covers e.ttlSec c ∧
      ((∃ o, (ffind st nowNs k).1 = some o ∧ c ∈ o.chunks) ∨ nowNs < c.appendNs + δ * nsPerSec)) :
    FInv δ (fput st nowNs k e) nowNs := by
  have hsub := ffind_store_subset st nowNs k
  have hold := ffind_some st nowNs k
  unfold fput
  generalize ffind st nowNs k = r at hch hsub hold ⊢
  obtain ⟨old, st1⟩ := r
  simp only [] at hch hsub hold ⊢
  intro ke hke
  simp only [List.mem_cons, List.mem_filter] at hke
  rcases hke with rfl | ⟨hm, _⟩
  · cases old with
    | none =>
      refine ⟨fun c hc => ?_, hcr⟩
      obtain ⟨h1, h2⟩ := hch c hc
      refine ⟨h1, ?_⟩
      rcases h2 with ⟨o, ho, _⟩ | h2
      · cases ho
      · simp only [nsPerSec] at *; omega
    | some o =>
      obtain ⟨⟨kn, hkn, rfl⟩, _⟩ := hold o rfl
      obtain ⟨go, gcr⟩ := hinv kn hkn
      refine ⟨fun c hc => ?_, gcr⟩
      obtain ⟨h1, h2⟩ := hch c hc
      refine ⟨h1, ?_⟩
      rcases h2 with ⟨o', ho', hc'⟩ | h2
      · cases ho'
        exact (go c hc').2
      · show kn.2.crtime * nsPerSec < c.appendNs + δ * nsPerSec
        simp only [nsPerSec] at *; omega
  · exact hinv ke (hsub ke hm)

/-- MAIN (filer): along every history that keeps `FInv` (create at t0 with TtlSec, later updates/appends that keep old
    chunks — `finv_put`, `finv_find`, `finv_list`, `finv_mono`), an entry that FindEntry still returns `δ` seconds
    from now only has chunks that are readable now. -/
theorem visible_never_points_at_expired (δ : Nat) (st : FStore) (nowNs k : Nat) (e : FEntry)
    (hinv : FInv δ st nowNs) (hf : (ffind st (nowNs + δ * nsPerSec) k).1 = some e) :
    ∀ c ∈ e.chunks, chunkReadable c nowNs = true := by
  obtain ⟨⟨kn, hkn, rfl⟩, hv⟩ := ffind_some st _ k e hf
  intro c hc
  obtain ⟨g, _⟩ := hinv kn hkn
  exact visible_chunk_readable_partial kn.2 c nowNs δ (g c hc).1 (g c hc).2 hv

/-! ### Bridges to the regenerated source facts (T1) -/

theorem bridge_ttl_minutes (c u : Nat) (hc : c < 256) :
    SwV.Gen.C09.TTL_Minutes c u = (ttlMinutes ⟨c, u⟩ : Nat) := bridge_minutes c u hc

theorem bridge_constants :
    SwV.Gen.C09.MAX_TTL_VOLUME_REMOVAL_DELAY = (maxRemovalDelay : Int) ∧ SwV.Gen.C09.SuperBlockSize = 8 ∧
    SwV.Gen.C09.LastModifiedBytesLength = 5 := by decide

/-- the functions the model mirrors by hand are pinned: an edit of their source changes the hash and breaks this -/
theorem bridge_pins :
    SwV.Gen.C09.src_readNeedle = "f3764387cee126f8" ∧ SwV.Gen.C09.src_expired = "cf47f37966c26e15" ∧
    SwV.Gen.C09.src_expiredLongEnough = "95aaed9accc2f78c" ∧ SwV.Gen.C09.src_VisitNeedle = "93d511a40ba8dc87" ∧
    SwV.Gen.C09.src_copyDataBasedOnIndexFile = "fb8c6ae27b972798" ∧
    SwV.Gen.C09.src_FindEntry = "97a4529ec5f4b108" ∧ SwV.Gen.C09.src_doListDirectoryEntries = "8c89010a0f6ddc2d" ∧
    SwV.Gen.C09.src_UpdateEntry = "42f0d53b6e3a8052" := ⟨rfl, rfl, rfl, rfl, rfl, rfl, rfl, rfl⟩

/-! ### non-vacuity -/
example : Covers 3600 ⟨⟨1, 2⟩, 5⟩ := ⟨fun h => (by cases h), Or.inr (by decide)⟩
example : FGood 0 ⟨3600, 10, 10, [⟨⟨1, 2⟩, 10 * nsPerSec + 1⟩]⟩ := by
  intro c hc; simp at hc; subst hc; exact ⟨⟨fun h => (by cases h), Or.inr (by decide)⟩, by decide⟩
example : exactUnit 7200 := by unfold exactUnit; omega
example : Good ⟨1, 2⟩ 100 ⟨true, ⟨1, 2⟩, true, 100, 100 * nsPerSec + 5⟩ := by
  refine ⟨fun _ => ⟨rfl, by decide, by decide⟩, by decide, by decide, fun h => by cases h⟩
example : HonestOp ⟨⟨1, 2⟩, 0, [], true, 1⟩ (5 * nsPerSec) (.put 1 emptyTTL true 5) := ⟨rfl, by decide, Or.inl rfl⟩

end SwV.Props.C09
