/-
C15 — theorems about the volume-planner model (Model/C15.lean) and the spec (Spec/C15.lean).

Proved for ALL inputs / ALL sequences of approved steps:
* `goodMove_target_new`, `approved_moves_never_colocate`: a move approved by `isGoodMove` never targets a
  server that holds a replica, and along any sequence of approved moves the replicas of a volume stay on
  pairwise different servers;
* `repair_never_colocates`, `approved_copies_never_colocate`: the same for copies approved by
  `satisfyReplicaPlacement`;
* `repair_copy_within_limits`: a copy approved by `satisfyReplicaPlacement` keeps the replica set within the
  limits of the replication setting xyz (at most x+1 data centers, at most y+1 racks in any data center,
  at most z+1 replicas in any rack), by induction along any sequence of approved copies
  (`approved_copies_within_limits`);
* `fix_copy_has_free_slot`: a copy planned by volume.fix.replication goes to a server whose
  MaxVolumeCount − VolumeCount is positive in the snapshot.
FALSE of the code (negations proved on witnesses; the corpus holds the same inputs as open findings):
* `move_preserves_placement` — `isGoodMove` turns a satisfied 120 placement (3 racks + 1 dc) into 2 + 2
  (`move_breaks_120_witness`); for the shapes the judge checks on every run see Spec.satisfies;
* `target_has_capacity` — the balance guard approves a move onto a full server (`balance_full_target_witness`),
  the evacuate guard has no capacity term at all (`evac_full_target_witness`).
-/
import SwV.Model.C15
import SwV.Spec.C15
namespace SwV.Props.C15
open SwV.Model.C15 SwV.Spec.C15

/-! ### no two replicas on one server -/

theorem goodMove_target_new (rp : RP) (reps : List Loc) (src dst : Loc)
    (h : isGoodMove rp reps src dst = true) : dst ∉ reps := by
  intro hmem
  have hany : reps.any (fun r => r.id == dst.id && r.rack == dst.rack && r.dc == dst.dc) = true :=
    List.any_eq_true.mpr ⟨dst, hmem, by simp⟩
  simp [isGoodMove, hany] at h

theorem mem_adjust (l : List Loc) (src dst x : Loc) (h : x ∈ adjustReps l src dst) : x ∈ l ∨ x = dst := by
  induction l with
  | nil => simp [adjustReps] at h
  | cons r rest ih =>
    unfold adjustReps at h
    by_cases hr : r = src
    · simp [hr] at h
      rcases h with h | h
      · exact Or.inr h
      · exact Or.inl (List.mem_cons_of_mem _ h)
    · simp [hr] at h
      rcases h with h | h
      · exact Or.inl (by simp [h])
      · rcases ih h with h' | h'
        · exact Or.inl (List.mem_cons_of_mem _ h')
        · exact Or.inr h'

/-- `adjustAfterMove` keeps the replicas on different servers when the target held none -/
theorem adjust_nodup (reps : List Loc) (src dst : Loc) (hn : reps.Nodup) (hd : dst ∉ reps) :
    (adjustReps reps src dst).Nodup := by
  induction reps with
  | nil => simp [adjustReps]
  | cons r rest ih =>
    have hn' := List.nodup_cons.mp hn
    have hd' : dst ≠ r ∧ dst ∉ rest := by
      constructor
      · intro e; exact hd (by simp [e])
      · intro e; exact hd (List.mem_cons_of_mem _ e)
    unfold adjustReps
    by_cases hr : r = src
    · simp only [hr, if_true]
      exact List.nodup_cons.mpr ⟨hd'.2, hn'.2⟩
    · simp only [hr, if_false]
      refine List.nodup_cons.mpr ⟨?_, ih hn'.2 hd'.2⟩
      intro hm
      rcases mem_adjust _ _ _ _ hm with h | h
      · exact hn'.1 h
      · exact hd'.1 h.symm

/-- any sequence of moves, each approved by `isGoodMove` on the replica list the earlier ones produced -/
def runMoves (rp : RP) : List Loc → List (Loc × Loc) → Option (List Loc)
  | reps, [] => some reps
  | reps, (s, d) :: rest => if isGoodMove rp reps s d then runMoves rp (adjustReps reps s d) rest else none

theorem approved_moves_never_colocate (rp : RP) (steps : List (Loc × Loc)) :
    ∀ (reps out : List Loc), reps.Nodup → runMoves rp reps steps = some out → out.Nodup := by
  induction steps with
  | nil => intro reps out hn h; simp [runMoves] at h; exact h ▸ hn
  | cons st rest ih =>
    intro reps out hn h
    obtain ⟨s, d⟩ := st
    unfold runMoves at h
    by_cases hg : isGoodMove rp reps s d = true
    · simp only [hg, if_true] at h
      exact ih _ _ (adjust_nodup reps s d hn (goodMove_target_new rp reps s d hg)) h
    · simp [hg] at h

example : runMoves ⟨0, 1, 0⟩ [⟨1, 1, 1⟩, ⟨1, 2, 2⟩] [(⟨1, 1, 1⟩, ⟨1, 3, 3⟩)] = some [⟨1, 3, 3⟩, ⟨1, 2, 2⟩] := by decide

theorem repair_never_colocates (rp : RP) (reps : List Loc) (loc : Loc)
    (h : satisfyRP rp reps loc = true) : loc ∉ reps := by
  intro hmem
  have hany : reps.any (· == loc) = true := List.any_eq_true.mpr ⟨loc, hmem, by simp⟩
  simp [satisfyRP, hany] at h

/-! ### counting lemmas -/

theorem mem_distinct {α : Type} [DecidableEq α] (a : α) (l : List α) : a ∈ distinct l ↔ a ∈ l := by
  induction l with
  | nil => simp [distinct]
  | cons b rest ih =>
    unfold distinct
    by_cases hb : b ∈ distinct rest
    · simp only [hb, if_true]
      constructor
      · intro h; exact List.mem_cons_of_mem _ (ih.mp h)
      · intro h
        rcases List.mem_cons.mp h with h | h
        · exact h ▸ hb
        · exact ih.mpr h
    · simp only [hb, if_false, List.mem_cons, ih]

theorem distinct_cons_length {α : Type} [DecidableEq α] (a : α) (l : List α) :
    (distinct (a :: l)).length = if a ∈ l then (distinct l).length else (distinct l).length + 1 := by
  show (if a ∈ distinct l then distinct l else a :: distinct l).length = _
  by_cases h : a ∈ l
  · simp [h, (mem_distinct a l).mpr h]
  · have : a ∉ distinct l := fun e => h ((mem_distinct a l).mp e)
    simp [h, this]

theorem cnt_cons {α : Type} [DecidableEq α] (a b : α) (l : List α) :
    cnt a (b :: l) = cnt a l + (if b = a then 1 else 0) := by
  unfold cnt
  by_cases h : b = a <;> simp [List.filter_cons, h]

theorem cnt_pos_of_mem {α : Type} [DecidableEq α] (a : α) (l : List α) (h : a ∈ l) : cnt a l > 0 := by
  induction l with
  | nil => simp at h
  | cons b rest ih =>
    rw [cnt_cons]
    rcases List.mem_cons.mp h with h | h
    · simp [h]
    · have := ih h; omega

theorem cnt_zero_of_not_mem {α : Type} [DecidableEq α] (a : α) (l : List α) (h : a ∉ l) : cnt a l = 0 := by
  induction l with
  | nil => rfl
  | cons b rest ih =>
    rw [cnt_cons]
    have hb : ¬ b = a := fun e => h (by simp [e])
    have := ih (fun e => h (List.mem_cons_of_mem _ e))
    simp [hb, this]

/-! ### a repair copy stays within the limits of the replication setting -/

def inDc (p : List Loc) (d : Nat) : List Nat := (p.filter (fun r => r.dc == d)).map (·.rack)

/-- at most x+1 data centers, at most y+1 racks in a data center, at most z+1 replicas in a rack -/
structure WithinLimits (rp : RP) (p : List Loc) : Prop where
  dcs : (distinct (p.map (·.dc))).length ≤ rp.x + 1
  racks : ∀ d, (distinct (inDc p d)).length ≤ rp.y + 1
  same : ∀ d r, cnt r (inDc p d) ≤ rp.z + 1

theorem inDc_cons (loc : Loc) (p : List Loc) (d : Nat) :
    inDc (loc :: p) d = if loc.dc = d then loc.rack :: inDc p d else inDc p d := by
  unfold inDc
  by_cases h : loc.dc = d <;> simp [List.filter_cons, h]

theorem inDc_nil_of_not_mem (p : List Loc) (d : Nat) (h : d ∉ p.map (·.dc)) : inDc p d = [] := by
  unfold inDc
  induction p with
  | nil => rfl
  | cons r rest ih =>
    have h1 : ¬ r.dc = d := fun e => h (by simp [e])
    have h2 : d ∉ rest.map (·.dc) := fun e => h (by simp at e ⊢; exact Or.inr e)
    simp [List.filter_cons, h1, ih h2]

theorem repair_copy_within_limits (rp : RP) (p : List Loc) (loc : Loc)
    (hl : WithinLimits rp p) (h : satisfyRP rp p loc = true) : WithinLimits rp (loc :: p) := by
  unfold satisfyRP at h
  simp only [] at h
  split at h
  · simp at h
  · -- is the data center new?
    by_cases hdc : loc.dc ∈ p.map (·.dc)
    · have hpos := cnt_pos_of_mem _ _ hdc
      have hne : (cnt loc.dc (p.map (·.dc)) == 0) = false := by simp; omega
      simp only [hne, Bool.false_eq_true, if_false] at h
      split at h
      · simp at h
      · -- same data center; is the rack new there?
        have hfilter : (p.filter (fun r => r.dc == loc.dc)).map (·.rack) = inDc p loc.dc := rfl
        rw [hfilter] at h
        by_cases hrk : loc.rack ∈ inDc p loc.dc
        · have hpos2 := cnt_pos_of_mem _ _ hrk
          have hne2 : (cnt loc.rack (inDc p loc.dc) == 0) = false := by simp; omega
          simp only [hne2, Bool.false_eq_true, if_false] at h
          split at h
          · simp at h
          · have hz : cnt loc.rack (inDc p loc.dc) < rp.z + 1 := by simpa using h
            refine ⟨?_, ?_, ?_⟩
            · have := hl.dcs
              simp only [List.map_cons, distinct_cons_length, hdc, if_true]; exact this
            · intro d
              rw [inDc_cons]
              by_cases hd : loc.dc = d
              · subst hd; simp only [if_true, distinct_cons_length, hrk]; exact hl.racks _
              · simp only [hd, if_false]; exact hl.racks d
            · intro d r
              rw [inDc_cons]
              by_cases hd : loc.dc = d
              · subst hd
                simp only [if_true, cnt_cons]
                by_cases hr : loc.rack = r
                · subst hr; simp; omega
                · simp [hr]; exact hl.same _ r
              · simp only [hd, if_false]; exact hl.same d r
        · have hz0 := cnt_zero_of_not_mem _ _ hrk
          simp only [hz0, beq_self_eq_true, if_true] at h
          have hy : (distinct (inDc p loc.dc)).length < rp.y + 1 := by simpa using h
          refine ⟨?_, ?_, ?_⟩
          · have := hl.dcs
            simp only [List.map_cons, distinct_cons_length, hdc, if_true]; exact this
          · intro d
            rw [inDc_cons]
            by_cases hd : loc.dc = d
            · subst hd; simp only [if_true, distinct_cons_length, hrk, if_false]; omega
            · simp only [hd, if_false]; exact hl.racks d
          · intro d r
            rw [inDc_cons]
            by_cases hd : loc.dc = d
            · subst hd
              simp only [if_true, cnt_cons]
              by_cases hr : loc.rack = r
              · subst hr; simp [hz0]
              · simp [hr]; exact hl.same _ r
            · simp only [hd, if_false]; exact hl.same d r
    · have hz0 := cnt_zero_of_not_mem _ _ hdc
      simp only [hz0, beq_self_eq_true, if_true] at h
      have hx : (distinct (p.map (·.dc))).length < rp.x + 1 := by simpa using h
      have hnil := inDc_nil_of_not_mem p loc.dc hdc
      refine ⟨?_, ?_, ?_⟩
      · simp only [List.map_cons, distinct_cons_length, hdc, if_false]; omega
      · intro d
        rw [inDc_cons]
        by_cases hd : loc.dc = d
        · subst hd; simp [hnil, distinct]
        · simp only [hd, if_false]; exact hl.racks d
      · intro d r
        rw [inDc_cons]
        by_cases hd : loc.dc = d
        · subst hd
          simp only [if_true, hnil, cnt_cons]
          by_cases hr : loc.rack = r <;> simp [hr, cnt]
        · simp only [hd, if_false]; exact hl.same d r

/-- any sequence of copies, each approved by `satisfyReplicaPlacement` on the replicas so far -/
def runCopies (rp : RP) : List Loc → List Loc → Option (List Loc)
  | reps, [] => some reps
  | reps, l :: rest => if satisfyRP rp reps l then runCopies rp (l :: reps) rest else none

theorem approved_copies_within_limits (rp : RP) (locs : List Loc) :
    ∀ (reps out : List Loc), WithinLimits rp reps → reps.Nodup → runCopies rp reps locs = some out →
      WithinLimits rp out ∧ out.Nodup := by
  induction locs with
  | nil => intro reps out hl hn h; simp [runCopies] at h; exact h ▸ ⟨hl, hn⟩
  | cons l rest ih =>
    intro reps out hl hn h
    unfold runCopies at h
    by_cases hg : satisfyRP rp reps l = true
    · simp only [hg, if_true] at h
      exact ih _ _ (repair_copy_within_limits rp reps l hl hg)
        (List.nodup_cons.mpr ⟨repair_never_colocates rp reps l hg, hn⟩) h
    · simp [hg] at h

theorem limits_nil (rp : RP) : WithinLimits rp [] := ⟨by simp [distinct], by intro d; simp [inDc, distinct], by intro d r; simp [inDc, cnt]⟩

example : runCopies ⟨1, 1, 0⟩ [⟨1, 1, 1⟩] [⟨2, 1, 4⟩, ⟨1, 2, 2⟩] = some [⟨1, 2, 2⟩, ⟨2, 1, 4⟩, ⟨1, 1, 1⟩] := by decide

/-! ### capacity -/

/-- a copy planned by volume.fix.replication goes to a server with MaxVolumeCount − VolumeCount > 0 (snapshot) -/
theorem fix_copy_has_free_slot (t : Topo) (vid s d : Nat) (h : fixTokOk t (.copy vid s d) = true) :
    ∃ src dn, pickSource (replicasOf t vid) = some src ∧ t.find? (·.loc.id == d) = some dn ∧ capFree dn src.dt > 0 := by
  unfold fixTokOk at h
  cases hs : pickSource (replicasOf t vid) with
  | none => simp [hs] at h
  | some src =>
    cases hd : t.find? (·.loc.id == d) with
    | none => simp [hs, hd] at h
    | some dn =>
      simp only [hs, hd, Bool.and_eq_true, fixCand] at h
      exact ⟨src, dn, rfl, rfl, by simpa using h.1.2.1⟩

/-! ### what is false of the code -/

/-- `move_preserves_placement` fails: replication 120 on dc1/{r1,r2,r3} + dc2/r1 is satisfied, `isGoodMove`
    approves dc1/r3 → dc2/r2, and the result is not a 120 placement (class …/placement-broken). -/
theorem move_breaks_120_witness :
    let reps : List Loc := [⟨1, 1, 1⟩, ⟨1, 2, 2⟩, ⟨1, 3, 3⟩, ⟨2, 1, 4⟩]
    satisfies ⟨1, 2, 0⟩ reps = true ∧ isGoodMove ⟨1, 2, 0⟩ reps ⟨1, 3, 3⟩ ⟨2, 2, 5⟩ = true ∧
    satisfies ⟨1, 2, 0⟩ (adjustReps reps ⟨1, 3, 3⟩ ⟨2, 2, 5⟩) = false := by decide

def wFull : Topo :=
  [⟨⟨1, 1, 2⟩, [⟨1, 4, [⟨4, 986, 10, false, 1, 1040⟩, ⟨6, 860, 120, true, 0, 1061⟩, ⟨8, 1086, 0, true, 2, 1080⟩, ⟨9, 1060, 0, false, 1, 1090⟩]⟩]⟩,
   ⟨⟨2, 1, 4⟩, [⟨1, 4, [⟨10, 899, 0, false, 0, 1100⟩, ⟨11, 582, 0, false, 0, 1110⟩]⟩]⟩]

/-- `target_has_capacity` fails for volume.balance: the guard approves moving volume 11 onto server 2,
    whose ssd disk is full (corpus/C15/balance_target_full.ops). -/
theorem balance_full_target_witness :
    (mkPhase ⟨1, some 0, none, 1000⟩ false wFull (initReps wFull)).stepOk 11 4 2 = true ∧
    freeAt wFull 2 1 = 0 := by decide

def wEvac : Topo :=
  [⟨⟨1, 1, 1⟩, [⟨0, 1, [⟨1, 10, 0, false, 0, 1000⟩]⟩]⟩, ⟨⟨1, 1, 2⟩, [⟨0, 1, [⟨2, 10, 0, false, 0, 1010⟩]⟩]⟩]

/-- … and for volumeServer.evacuate (corpus/C15/evac_target_full.ops). -/
theorem evac_full_target_witness :
    (wEvac.head?.map fun this => evacOk wEvac this 0 ⟨1, 10, 0, false, 0, 1000⟩ (some 2)) = some true ∧
    freeAt wEvac 2 0 = 0 := by decide

end SwV.Props.C15
