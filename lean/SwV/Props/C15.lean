/-
C15 — theorems about the volume-planner model (Model/C15.lean) and the spec (Spec/C15.lean).

Proved for ALL inputs / ALL sequences of approved steps:
* `goodMove_target_new`, `approved_moves_never_colocate`: a move approved by `isGoodMove` never targets a
  server that holds a replica, and along any sequence of approved moves the replicas of a volume stay on
  pairwise different servers;
* `repair_never_colocates`, `approved_copies_never_colocate`: the same for copies approved by
  `satisfyReplicaPlacement`;
* `repair_copy_within_limits`: a copy approved by `satisfyReplicaPlacement` keeps the replica set within the
  limits of the replication setting xyz (at most x+1 data centers, at most y+1 racks in any data center,
  at most z+1 replicas in any rack), by induction along any sequence of approved copies
  (`approved_copies_within_limits`);
* `move_preserves_placement_partial`, `approved_moves_preserve_placement`: for every replication setting
  outside z = 0 ∧ x ≥ 1 ∧ y ≥ 2 a move approved by `isGoodMove` (any sequence of them) keeps a placement that
  satisfies xyz satisfying it; `mixed_shape_never_moved`: for z ≥ 1 ∧ x+y ≥ 1 this holds because no replica of a
  satisfied placement is ever approved to move; `move_breaks_outside_class`: the class is exact (all 256 bytes);
  `move_preserves_placement_iff`: for z = 0 and ANY x, y an approved move preserves the placement iff some data
  center keeps y+1 racks (`mainDcSurvives`, the test `isGoodMove` lacks); `judge_class_matches_theorem`;
* `fix_copy_has_free_slot`, `fix_target_has_capacity`: a copy planned by volume.fix.replication goes to a server
  whose MaxVolumeCount − VolumeCount is positive in the snapshot;
* `balance_target_guard`, `balance_target_has_capacity_partial`: what the selected-volume-count guard of
  volume.balance guarantees (selected+1 ≤ MaxVolumeCount of the target when selected ≤ max overall);
* `bridge_*`: the guard texts the model was written from (regenerated from the source on every run).
FALSE of the code (negations proved on witnesses; the corpus holds the same inputs as open findings):
* `move_preserves_placement` — `isGoodMove` turns a satisfied 120 placement (3 racks + 1 dc) into 2 + 2
  (`move_breaks_120_witness`, every setting with z = 0, x ≥ 1, y ≥ 2: `move_breaks_outside_class`);
* `target_has_capacity` — the balance guard approves a move onto a full server (`balance_full_target_witness`),
  the evacuate guard has no capacity term at all (`evac_full_target_witness`).
-/
import SwV.Model.C15
import SwV.Spec.C15
import SwV.Lemmas.C15
import SwV.Gen.C15
namespace SwV.Props.C15
open SwV.Model.C15 SwV.Spec.C15 SwV.Lemmas.C15

/-! ### no two replicas on one server -/

theorem goodMove_target_new (rp : RP) (reps : List Loc) (src dst : Loc)
    (h : isGoodMove rp reps src dst = true) : dst ∉ reps := by
  intro hmem
  have hany : reps.any (fun r => r.id == dst.id && r.rack == dst.rack && r.dc == dst.dc) = true :=
    List.any_eq_true.mpr ⟨dst, hmem, by simp⟩
  simp [isGoodMove, hany] at h

theorem mem_adjust (l : List Loc) (src dst x : Loc) (h : x ∈ adjustReps l src dst) : x ∈ l ∨ x = dst := by
  induction l with
  | nil => simp [adjustReps] at h
  | cons r rest ih =>
    unfold adjustReps at h
    by_cases hr : r = src
    · simp [hr] at h
      rcases h with h | h
      · exact Or.inr h
      · exact Or.inl (List.mem_cons_of_mem _ h)
    · simp [hr] at h
      rcases h with h | h
      · exact Or.inl (by simp [h])
      · rcases ih h with h' | h'
        · exact Or.inl (List.mem_cons_of_mem _ h')
        · exact Or.inr h'

/-- `adjustAfterMove` keeps the replicas on different servers when the target held none -/
theorem adjust_nodup (reps : List Loc) (src dst : Loc) (hn : reps.Nodup) (hd : dst ∉ reps) :
    (adjustReps reps src dst).Nodup := by
  induction reps with
  | nil => simp [adjustReps]
  | cons r rest ih =>
    have hn' := List.nodup_cons.mp hn
    have hd' : dst ≠ r ∧ dst ∉ rest := by
      constructor
      · intro e; exact hd (by simp [e])
      · intro e; exact hd (List.mem_cons_of_mem _ e)
    unfold adjustReps
    by_cases hr : r = src
    · simp only [hr, if_true]
      exact List.nodup_cons.mpr ⟨hd'.2, hn'.2⟩
    · simp only [hr, if_false]
      refine List.nodup_cons.mpr ⟨?_, ih hn'.2 hd'.2⟩
      intro hm
      rcases mem_adjust _ _ _ _ hm with h | h
      · exact hn'.1 h
      · exact hd'.1 h.symm

/-- any sequence of moves, each approved by `isGoodMove` on the replica list the earlier ones produced -/
def runMoves (rp : RP) : List Loc → List (Loc × Loc) → Option (List Loc)
  | reps, [] => some reps
  | reps, (s, d) :: rest => if isGoodMove rp reps s d then runMoves rp (adjustReps reps s d) rest else none

theorem approved_moves_never_colocate (rp : RP) (steps : List (Loc × Loc)) :
    ∀ (reps out : List Loc), reps.Nodup → runMoves rp reps steps = some out → out.Nodup := by
  induction steps with
  | nil => intro reps out hn h; simp [runMoves] at h; exact h ▸ hn
  | cons st rest ih =>
    intro reps out hn h
    obtain ⟨s, d⟩ := st
    unfold runMoves at h
    by_cases hg : isGoodMove rp reps s d = true
    · simp only [hg, if_true] at h
      exact ih _ _ (adjust_nodup reps s d hn (goodMove_target_new rp reps s d hg)) h
    · simp [hg] at h

example : runMoves ⟨0, 1, 0⟩ [⟨1, 1, 1⟩, ⟨1, 2, 2⟩] [(⟨1, 1, 1⟩, ⟨1, 3, 3⟩)] = some [⟨1, 3, 3⟩, ⟨1, 2, 2⟩] := by decide

theorem repair_never_colocates (rp : RP) (reps : List Loc) (loc : Loc)
    (h : satisfyRP rp reps loc = true) : loc ∉ reps := by
  intro hmem
  have hany : reps.any (· == loc) = true := List.any_eq_true.mpr ⟨loc, hmem, by simp⟩
  simp [satisfyRP, hany] at h

/-! ### counting lemmas: `mem_distinct`, `distinct_cons_length`, `cnt_cons`, `cnt_pos_of_mem`, `cnt_zero_of_not_mem` live in Lemmas/C15.lean -/

/-! ### a repair copy stays within the limits of the replication setting -/

def inDc (p : List Loc) (d : Nat) : List Nat := (p.filter (fun r => r.dc == d)).map (·.rack)

/-- at most x+1 data centers, at most y+1 racks in a data center, at most z+1 replicas in a rack -/
structure WithinLimits (rp : RP) (p : List Loc) : Prop where
  dcs : (distinct (p.map (·.dc))).length ≤ rp.x + 1
  racks : ∀ d, (distinct (inDc p d)).length ≤ rp.y + 1
  same : ∀ d r, cnt r (inDc p d) ≤ rp.z + 1

theorem inDc_cons (loc : Loc) (p : List Loc) (d : Nat) :
    inDc (loc :: p) d = if loc.dc = d then loc.rack :: inDc p d else inDc p d := by
  unfold inDc
  by_cases h : loc.dc = d <;> simp [List.filter_cons, h]

theorem inDc_nil_of_not_mem (p : List Loc) (d : Nat) (h : d ∉ p.map (·.dc)) : inDc p d = [] := by
  unfold inDc
  induction p with
  | nil => rfl
  | cons r rest ih =>
    have h1 : ¬ r.dc = d := fun e => h (by simp [e])
    have h2 : d ∉ rest.map (·.dc) := fun e => h (by simp at e ⊢; exact Or.inr e)
    simp [List.filter_cons, h1, ih h2]

theorem repair_copy_within_limits (rp : RP) (p : List Loc) (loc : Loc)
    (hl : WithinLimits rp p) (h : satisfyRP rp p loc = true) : WithinLimits rp (loc :: p) := by
  unfold satisfyRP at h
  simp only [] at h
  split at h
  · simp at h
  · -- is the data center new?
    by_cases hdc : loc.dc ∈ p.map (·.dc)
    · have hpos := cnt_pos_of_mem _ _ hdc
      have hne : (cnt loc.dc (p.map (·.dc)) == 0) = false := by simp; omega
      simp only [hne, Bool.false_eq_true, if_false] at h
      split at h
      · simp at h
      · -- same data center; is the rack new there?
        have hfilter : (p.filter (fun r => r.dc == loc.dc)).map (·.rack) = inDc p loc.dc := rfl
        rw [hfilter] at h
        by_cases hrk : loc.rack ∈ inDc p loc.dc
        · have hpos2 := cnt_pos_of_mem _ _ hrk
          have hne2 : (cnt loc.rack (inDc p loc.dc) == 0) = false := by simp; omega
          simp only [hne2, Bool.false_eq_true, if_false] at h
          split at h
          · simp at h
          · have hz : cnt loc.rack (inDc p loc.dc) < rp.z + 1 := by simpa using h
            refine ⟨?_, ?_, ?_⟩
            · have := hl.dcs
              simp only [List.map_cons, distinct_cons_length, hdc, if_true]; exact this
            · intro d
              rw [inDc_cons]
              by_cases hd : loc.dc = d
              · subst hd; simp only [if_true, distinct_cons_length, hrk]; exact hl.racks _
              · simp only [hd, if_false]; exact hl.racks d
            · intro d r
              rw [inDc_cons]
              by_cases hd : loc.dc = d
              · subst hd
                simp only [if_true, cnt_cons]
                by_cases hr : loc.rack = r
                · subst hr; simp; omega
                · simp [hr]; exact hl.same _ r
              · simp only [hd, if_false]; exact hl.same d r
        · have hz0 := cnt_zero_of_not_mem _ _ hrk
          simp only [hz0, beq_self_eq_true, if_true] at h
          have hy : (distinct (inDc p loc.dc)).length < rp.y + 1 := by simpa using h
          refine ⟨?_, ?_, ?_⟩
          · have := hl.dcs
            simp only [List.map_cons, distinct_cons_length, hdc, if_true]; exact this
          · intro d
            rw [inDc_cons]
            by_cases hd : loc.dc = d
            · subst hd; simp only [if_true, distinct_cons_length, hrk, if_false]; omega
            · simp only [hd, if_false]; exact hl.racks d
          · intro d r
            rw [inDc_cons]
            by_cases hd : loc.dc = d
            · subst hd
              simp only [if_true, cnt_cons]
              by_cases hr : loc.rack = r
              · subst hr; simp [hz0]
              · simp [hr]; exact hl.same _ r
            · simp only [hd, if_false]; exact hl.same d r
    · have hz0 := cnt_zero_of_not_mem _ _ hdc
      simp only [hz0, beq_self_eq_true, if_true] at h
      have hx : (distinct (p.map (·.dc))).length < rp.x + 1 := by simpa using h
      have hnil := inDc_nil_of_not_mem p loc.dc hdc
      refine ⟨?_, ?_, ?_⟩
      · simp only [List.map_cons, distinct_cons_length, hdc, if_false]; omega
      · intro d
        rw [inDc_cons]
        by_cases hd : loc.dc = d
        · subst hd; simp [hnil, distinct]
        · simp only [hd, if_false]; exact hl.racks d
      · intro d r
        rw [inDc_cons]
        by_cases hd : loc.dc = d
        · subst hd
          simp only [if_true, hnil, cnt_cons]
          by_cases hr : loc.rack = r <;> simp [hr, cnt]
        · simp only [hd, if_false]; exact hl.same d r

/-- any sequence of copies, each approved by `satisfyReplicaPlacement` on the replicas so far -/
def runCopies (rp : RP) : List Loc → List Loc → Option (List Loc)
  | reps, [] => some reps
  | reps, l :: rest => if satisfyRP rp reps l then runCopies rp (l :: reps) rest else none

theorem approved_copies_within_limits (rp : RP) (locs : List Loc) :
    ∀ (reps out : List Loc), WithinLimits rp reps → reps.Nodup → runCopies rp reps locs = some out →
      WithinLimits rp out ∧ out.Nodup := by
  induction locs with
  | nil => intro reps out hl hn h; simp [runCopies] at h; exact h ▸ ⟨hl, hn⟩
  | cons l rest ih =>
    intro reps out hl hn h
    unfold runCopies at h
    by_cases hg : satisfyRP rp reps l = true
    · simp only [hg, if_true] at h
      exact ih _ _ (repair_copy_within_limits rp reps l hl hg)
        (List.nodup_cons.mpr ⟨repair_never_colocates rp reps l hg, hn⟩) h
    · simp [hg] at h

theorem limits_nil (rp : RP) : WithinLimits rp [] := ⟨by simp [distinct], by intro d; simp [inDc, distinct], by intro d r; simp [inDc, cnt]⟩

example : runCopies ⟨1, 1, 0⟩ [⟨1, 1, 1⟩] [⟨2, 1, 4⟩, ⟨1, 2, 2⟩] = some [⟨1, 2, 2⟩, ⟨2, 1, 4⟩, ⟨1, 1, 1⟩] := by decide

/-! ### capacity -/

/-- a copy planned by volume.fix.replication goes to a server with MaxVolumeCount − VolumeCount > 0 (snapshot) -/
theorem fix_copy_has_free_slot (t : Topo) (vid s d : Nat) (h : fixTokOk t (.copy vid s d) = true) :
    ∃ src dn, pickSource (replicasOf t vid) = some src ∧ t.find? (·.loc.id == d) = some dn ∧ capFree dn src.dt > 0 := by
  unfold fixTokOk at h
  cases hs : pickSource (replicasOf t vid) with
  | none => simp [hs] at h
  | some src =>
    cases hd : t.find? (·.loc.id == d) with
    | none => simp [hs, hd] at h
    | some dn =>
      simp only [hs, hd, Bool.and_eq_true, fixCand] at h
      exact ⟨src, dn, rfl, rfl, by simpa using h.1.2.1⟩

/-! ### what is false of the code -/

/-- `move_preserves_placement` fails: replication 120 on dc1/{r1,r2,r3} + dc2/r1 is satisfied, `isGoodMove`
    approves dc1/r3 → dc2/r2, and the result is not a 120 placement (class …/placement-broken). -/
theorem move_breaks_120_witness :
    let reps : List Loc := [⟨1, 1, 1⟩, ⟨1, 2, 2⟩, ⟨1, 3, 3⟩, ⟨2, 1, 4⟩]
    satisfies ⟨1, 2, 0⟩ reps = true ∧ isGoodMove ⟨1, 2, 0⟩ reps ⟨1, 3, 3⟩ ⟨2, 2, 5⟩ = true ∧
    satisfies ⟨1, 2, 0⟩ (adjustReps reps ⟨1, 3, 3⟩ ⟨2, 2, 5⟩) = false := by decide

def wFull : Topo :=
  [⟨⟨1, 1, 2⟩, [⟨1, 4, [⟨4, 986, 10, false, 1, 1040⟩, ⟨6, 860, 120, true, 0, 1061⟩, ⟨8, 1086, 0, true, 2, 1080⟩, ⟨9, 1060, 0, false, 1, 1090⟩]⟩]⟩,
   ⟨⟨2, 1, 4⟩, [⟨1, 4, [⟨10, 899, 0, false, 0, 1100⟩, ⟨11, 582, 0, false, 0, 1110⟩]⟩]⟩]

/-- `target_has_capacity` fails for volume.balance: the guard approves moving volume 11 onto server 2,
    whose ssd disk is full (corpus/C15/balance_target_full.ops). -/
theorem balance_full_target_witness :
    (mkPhase ⟨1, some 0, none, 1000⟩ false wFull (initReps wFull)).stepOk 11 4 2 = true ∧
    freeAt wFull 2 1 = 0 := by decide

def wEvac : Topo :=
  [⟨⟨1, 1, 1⟩, [⟨0, 1, [⟨1, 10, 0, false, 0, 1000⟩]⟩]⟩, ⟨⟨1, 1, 2⟩, [⟨0, 1, [⟨2, 10, 0, false, 0, 1010⟩]⟩]⟩]

/-- … and for volumeServer.evacuate (corpus/C15/evac_target_full.ops). -/
theorem evac_full_target_witness :
    (wEvac.head?.map fun this => evacOk wEvac this 0 ⟨1, 10, 0, false, 0, 1000⟩ (some 2)) = some true ∧
    freeAt wEvac 2 0 = 0 := by decide

/-! ### a satisfied placement stays satisfied (`move_preserves_placement`)

FALSE in general (`move_breaks_120_witness`).  The exact class: `isGoodMove` checks three numbers on the
replica list after the move — x+1 data centers, x+y+1 racks, z+1 replicas in every rack.  They pin the
shape x/y/z down iff NOT (z = 0 ∧ x ≥ 1 ∧ y ≥ 2):
* z = 0 and (x = 0 or y ≤ 1): the y extra racks cannot be split over two data centers;
* x = y = 0: one rack;
* z ≥ 1 and x+y ≥ 1: `isGoodMove` wants z+1 replicas in EVERY rack, (x+y+1)(z+1) in total, a satisfied
  placement has x+y+z+1 — no replica of a satisfied placement is ever approved (`mixed_shape_never_moved`),
  so the balancer leaves such volumes where they are;
* z = 0, x ≥ 1, y ≥ 2: broken for every such setting (`move_breaks_outside_class`). -/

/-- the replication settings for which an approved move keeps a satisfied placement satisfied -/
def preservingClass (rp : RP) : Prop := rp.x = 0 ∨ rp.y ≤ 1 ∨ rp.z ≥ 1
instance (rp : RP) : Decidable (preservingClass rp) := by unfold preservingClass; exact inferInstance

theorem mixed_shape_never_moved (rp : RP) (reps : List Loc) (src dst : Loc) (hz : rp.z ≥ 1) (hxy : rp.x + rp.y ≥ 1)
    (hi : idsInj reps) (hs : satisfies rp reps = true) (hsrc : src ∈ reps) : isGoodMove rp reps src dst = false :=
  mixed_never_moves rp reps src dst hz hxy hi hs hsrc

example : satisfies ⟨0, 1, 1⟩ [⟨1, 1, 1⟩, ⟨1, 1, 2⟩, ⟨1, 2, 3⟩] = true ∧ idsInj [⟨1, 1, 1⟩, ⟨1, 1, 2⟩, ⟨1, 2, 3⟩] := by decide

/-- `move_preserves_placement_partial`: for every replication setting outside z = 0 ∧ x ≥ 1 ∧ y ≥ 2, a move
    approved by `isGoodMove` turns a placement satisfying xyz into one satisfying xyz
    (replicas = the list after `adjustAfterMove`; server ids identify servers). -/
theorem move_preserves_placement_partial (rp : RP) (reps : List Loc) (src dst : Loc)
    (hc : preservingClass rp) (hi : idsInj reps) (hs : satisfies rp reps = true)
    (hg : isGoodMove rp reps src dst = true) : satisfies rp (adjustReps reps src dst) = true := by
  by_cases hsrc : src ∈ reps
  · obtain ⟨hn, _⟩ := (satisfies_iff rp reps).mp hs
    by_cases hmix : rp.z ≥ 1 ∧ rp.x + rp.y ≥ 1
    · rw [mixed_never_moves rp reps src dst hmix.1 hmix.2 hi hs hsrc] at hg
      exact absurd hg (by simp)
    · have hgc : goodClass rp := by
        unfold goodClass; unfold preservingClass at hc; omega
      obtain ⟨d, r, sh⟩ := good_imp_shape rp (afterOf reps src dst) (by simp [afterOf])
        (isGoodMove_good rp reps src dst hg) hgc
      have hp := adjust_perm reps src dst hn hsrc hi
      exact (satisfies_iff rp _).mpr
        ⟨adjust_nodup reps src dst hn (goodMove_target_new rp reps src dst hg), d, r, shape_perm hp.symm sh⟩
  · rw [adjust_of_not_mem reps src dst hsrc]; exact hs

example : preservingClass ⟨1, 1, 0⟩ ∧ idsInj [⟨1, 1, 1⟩, ⟨1, 2, 2⟩, ⟨2, 1, 3⟩] ∧
    satisfies ⟨1, 1, 0⟩ [⟨1, 1, 1⟩, ⟨1, 2, 2⟩, ⟨2, 1, 3⟩] = true ∧
    isGoodMove ⟨1, 1, 0⟩ [⟨1, 1, 1⟩, ⟨1, 2, 2⟩, ⟨2, 1, 3⟩] ⟨1, 2, 2⟩ ⟨2, 2, 4⟩ = true := by decide

/-- … along any sequence of approved moves (composed with `approved_moves_never_colocate`): the servers of
    the cluster (`reps` and all targets) have unique ids -/
theorem approved_moves_preserve_placement (rp : RP) (hc : preservingClass rp) (steps : List (Loc × Loc)) :
    ∀ (reps out : List Loc), idsInj (reps ++ steps.map (·.2)) → satisfies rp reps = true →
      runMoves rp reps steps = some out → satisfies rp out = true ∧ out.Nodup := by
  induction steps with
  | nil =>
    intro reps out _ hs h
    simp [runMoves] at h
    exact h ▸ ⟨hs, ((satisfies_iff rp reps).mp hs).1⟩
  | cons st rest ih =>
    intro reps out hi hs h
    obtain ⟨s, d⟩ := st
    unfold runMoves at h
    by_cases hg : isGoodMove rp reps s d = true
    · simp only [hg, if_true] at h
      have hi0 : idsInj reps := idsInj_subset (fun a ha => List.mem_append_left _ ha) hi
      refine ih _ _ (idsInj_subset ?_ hi) (move_preserves_placement_partial rp reps s d hc hi0 hs hg) h
      intro a ha
      rcases List.mem_append.mp ha with ha | ha
      · rcases mem_adjust _ _ _ _ ha with h' | h'
        · exact List.mem_append_left _ h'
        · exact List.mem_append_right _ (by simp [h'])
      · exact List.mem_append_right _ (by simp at ha ⊢; exact Or.inr ha)
    · simp [hg] at h

example : runMoves ⟨1, 1, 0⟩ [⟨1, 1, 1⟩, ⟨1, 2, 2⟩, ⟨2, 1, 3⟩] [(⟨1, 2, 2⟩, ⟨2, 2, 4⟩), (⟨1, 1, 1⟩, ⟨3, 1, 5⟩)]
    = some [⟨3, 1, 5⟩, ⟨2, 2, 4⟩, ⟨2, 1, 3⟩] := by decide

/-- the judges report a broken placement under the known-finding class exactly outside the proved class -/
theorem judge_class_matches_theorem (rp : RP) : knownBadRp rp = false ↔ preservingClass rp := by
  unfold knownBadRp preservingClass
  simp only [Bool.and_eq_false_iff, beq_eq_false_iff_ne, decide_eq_false_iff_not]
  omega

example : knownBadRp (rpOfByte 120) = true ∧ knownBadRp (rpOfByte 110) = false := by decide

/-- a placement of shape xyz (z = 0) and the move that `isGoodMove` approves although it splits the y extra racks:
    dc 1 racks 1..y+1, dcs 2..x+1 one replica each; dc1/rack y+1 → dc2/rack 2 -/
def breakWitness (rp : RP) : List Loc × Loc × Loc :=
  ((List.range (rp.y + 1)).map (fun i => (⟨1, i + 1, i + 1⟩ : Loc)) ++ (List.range rp.x).map (fun j => (⟨j + 2, 1, 100 + j⟩ : Loc)),
   ⟨1, rp.y + 1, rp.y + 1⟩, ⟨2, 2, 200⟩)

/-- the class is exact: for EVERY replication byte outside it the statement fails -/
theorem move_breaks_outside_class : ∀ b : Fin 256, ¬ preservingClass (rpOfByte b.val) →
    let rp := rpOfByte b.val
    let w := breakWitness rp
    idsInj w.1 ∧ satisfies rp w.1 = true ∧ isGoodMove rp w.1 w.2.1 w.2.2 = true ∧
      satisfies rp (adjustReps w.1 w.2.1 w.2.2) = false := by decide +kernel

example : ¬ preservingClass (rpOfByte 120) ∧ ¬ preservingClass (rpOfByte 220) ∧ preservingClass (rpOfByte 110) := by decide

/-- z = 0, ANY x and y (the settings of the open findings included): an approved move of a replica keeps a satisfied
    placement satisfied IF AND ONLY IF after the move some data center still has y+1 racks — the exact, decidable
    condition on (replication setting, replica set, move); `isGoodMove` does not test it -/
theorem move_preserves_placement_iff (rp : RP) (reps : List Loc) (src dst : Loc) (hz : rp.z = 0)
    (hi : idsInj reps) (hs : satisfies rp reps = true) (hsrc : src ∈ reps) (hg : isGoodMove rp reps src dst = true) :
    satisfies rp (adjustReps reps src dst) = true ↔ mainDcSurvives rp reps src dst = true := by
  obtain ⟨hn, _⟩ := (satisfies_iff rp reps).mp hs
  have hp := adjust_perm reps src dst hn hsrc hi
  constructor
  · intro h
    obtain ⟨_, d, r, sh⟩ := (satisfies_iff rp _).mp h
    have sh' := shape_perm hp sh
    have hd : d ∈ dcsOf (afterOf reps src dst) := sh'.rdc ▸ dc_mem_of_rack_mem _ r sh'.rmem
    unfold mainDcSurvives
    exact List.any_eq_true.mpr ⟨d, hd, by simpa using sh'.nracks⟩
  · intro h
    unfold mainDcSurvives at h
    obtain ⟨d, hd, hnd⟩ := List.any_eq_true.mp h
    obtain ⟨r, sh⟩ := good_shape_of_main rp _ (isGoodMove_good rp reps src dst hg) hz d hd (by simpa using hnd)
    exact (satisfies_iff rp _).mpr
      ⟨adjust_nodup reps src dst hn (goodMove_target_new rp reps src dst hg), d, r, shape_perm hp.symm sh⟩

example : mainDcSurvives ⟨1, 2, 0⟩ [⟨1, 1, 1⟩, ⟨1, 2, 2⟩, ⟨1, 3, 3⟩, ⟨2, 1, 4⟩] ⟨1, 3, 3⟩ ⟨2, 2, 5⟩ = false ∧
    mainDcSurvives ⟨1, 2, 0⟩ [⟨1, 1, 1⟩, ⟨1, 2, 2⟩, ⟨1, 3, 3⟩, ⟨2, 1, 4⟩] ⟨1, 3, 3⟩ ⟨1, 4, 5⟩ = true ∧
    isGoodMove ⟨1, 2, 0⟩ [⟨1, 1, 1⟩, ⟨1, 2, 2⟩, ⟨1, 3, 3⟩, ⟨2, 1, 4⟩] ⟨1, 3, 3⟩ ⟨1, 4, 5⟩ = true := by decide

/-! ### capacity (`target_has_capacity`)

FALSE for volume.balance and volumeServer.evacuate (`balance_full_target_witness`, `evac_full_target_witness`).
What the guards do guarantee: -/

/-- volume.fix.replication (`target_has_capacity_partial`): a planned copy goes to a server whose
    MaxVolumeCount − VolumeCount for the disk type of the copied replica is positive in the snapshot, i.e. the
    judge class fix/target-without-free-slot cannot fire.  (Nothing is reserved between two copies of one run:
    fix/target-overfilled-by-plan is an open finding.) -/
theorem fix_target_has_capacity (t : Topo) (vid s d : Nat) (h : fixTokOk t (.copy vid s d) = true) :
    ∃ src, pickSource (replicasOf t vid) = some src ∧ freeAt t d src.dt > 0 := by
  obtain ⟨src, dn, h1, h2, h3⟩ := fix_copy_has_free_slot t vid s d h
  exact ⟨src, h1, by simpa [freeAt, h2] using h3⟩

/-- volume.balance: EXACTLY what the guard of `balanceSelectedVolume` says about the target: with one more
    SELECTED volume its ratio selected/MaxVolumeCount stays within the ideal ratio (all selected)/(all max).
    VolumeCount is not consulted: volumes outside the selection (other collection, the other of the
    writable/read-only phases) are invisible to it. -/
theorem balance_target_guard (p : Phase) (vid s d : Nat) (h : p.stepOk vid s d = true) :
    ∃ dst, p.nodes.find? (·.loc.id == d) = some dst ∧ (dst.sel.length + 1) * p.m ≤ p.s * dst.cap ∧ p.m > 0 := by
  unfold Phase.stepOk at h
  cases hs : p.nodes.find? (·.loc.id == s) with
  | none => simp [hs] at h
  | some src =>
    cases hd : p.nodes.find? (·.loc.id == d) with
    | none => simp [hs, hd] at h
    | some dst =>
      cases hv : src.sel.find? (·.vid == vid) with
      | none => simp [hs, hd, hv] at h
      | some v =>
        simp only [hs, hd, hv, Bool.and_eq_true] at h
        obtain ⟨⟨⟨⟨⟨⟨_, hfull⟩, _⟩, hnext⟩, _⟩, _⟩, _⟩ := h
        have hfull' : src.sel.length * p.m > p.s * src.cap := by simpa [Phase.fullOk] using hfull
        have hnext' : (dst.sel.length + 1) * p.m ≤ p.s * dst.cap := by simpa [Phase.nextOk] using hnext
        refine ⟨dst, rfl, hnext', ?_⟩
        cases hm : p.m with
        | zero => rw [hm] at hfull'; simp at hfull'
        | succ k => omega

/-- … hence, as long as the selected volumes of the phase do not outnumber the MaxVolumeCounts, the target's
    SELECTED volumes (planned arrivals included) plus the moved one fit into its MaxVolumeCount.  This is a
    free slot only on servers all of whose volumes of the disk type are selected. -/
theorem balance_target_has_capacity_partial (p : Phase) (vid s d : Nat) (h : p.stepOk vid s d = true) (hsm : p.s ≤ p.m) :
    ∃ dst, p.nodes.find? (·.loc.id == d) = some dst ∧ dst.sel.length + 1 ≤ dst.cap := by
  obtain ⟨dst, h1, h2, h3⟩ := balance_target_guard p vid s d h
  refine ⟨dst, h1, ?_⟩
  have h4 : p.s * dst.cap ≤ p.m * dst.cap := Nat.mul_le_mul_right _ hsm
  have h5 : (dst.sel.length + 1) * p.m ≤ dst.cap * p.m := by rw [Nat.mul_comm dst.cap]; omega
  exact Nat.le_of_mul_le_mul_right h5 h3

example : (mkPhase ⟨1, some 0, none, 1000⟩ false wFull (initReps wFull)).stepOk 11 4 2 = true ∧
    (mkPhase ⟨1, some 0, none, 1000⟩ false wFull (initReps wFull)).s ≤ (mkPhase ⟨1, some 0, none, 1000⟩ false wFull (initReps wFull)).m := by decide

example : fixTokOk [⟨⟨1, 1, 1⟩, [⟨0, 2, [⟨1, 10, 1, false, 0, 1000⟩]⟩]⟩, ⟨⟨1, 1, 2⟩, [⟨0, 2, []⟩]⟩] (.copy 1 1 2) = true := by decide

/-! ### bridges: the guard texts and sources the model was written from (T1 tie)

`SwV.Gen.C15` is regenerated from the working tree on every run; an edit to one of these guards or functions
breaks the named obligation below. -/

/-! `isGoodMove` ↔ Model.isGoodMove: target already holds ⇒ false; replicas on the source server are skipped;
    `dcs.length == rp.x + 1`, `racks.length == rp.y + rp.x + 1`, every rack `== rp.z + 1`
    (the three counts of `GoodAfter`, the hypothesis of `move_preserves_placement_partial`) -/
theorem bridge_good_target_holds : SwV.Gen.C15.good_target_holds = "replica.location.dataNode.Id == targetNode.info.Id && replica.location.rack == targetNode.rack && replica.location.dc == targetNode.dc" := rfl
theorem bridge_good_skip_source : SwV.Gen.C15.good_skip_source = "replica.location.dataNode.Id != sourceNode.info.Id" := by decide
theorem bridge_good_dcs : SwV.Gen.C15.good_dcs = "len(dcs) != placement.DiffDataCenterCount+1" := by decide
theorem bridge_good_racks : SwV.Gen.C15.good_racks = "len(racks) != placement.DiffRackCount+placement.DiffDataCenterCount+1" := by decide
theorem bridge_good_same_rack : SwV.Gen.C15.good_same_rack = "sameRackCount != placement.SameRackCount+1" := by decide

/-! `maybeMoveOneVolume` ↔ Model.movable: `v.rp == 0 || isGoodMove …` -/
theorem bridge_maybe_replicated : SwV.Gen.C15.maybe_replicated = "candidateVolume.ReplicaPlacement > 0" := by decide
theorem bridge_maybe_good : SwV.Gen.C15.maybe_good = "!isGoodMove(replicaPlacement, volumeReplicas[candidateVolume.Id], fullNode, emptyNode)" := by decide

/-! `satisfyReplicaPlacement` ↔ Model.satisfyRP (`< rp.x + 1`, primary dc, `< rp.y + 1`, primary rack, `< rp.z + 1`) -/
theorem bridge_sat_dcs : SwV.Gen.C15.sat_dcs = "len(existingDataCenters) < replicaPlacement.DiffDataCenterCount+1" := by decide
theorem bridge_sat_primary_dc : SwV.Gen.C15.sat_primary_dc = "!isAmong(possibleLocation.DataCenter(), primaryDataCenters)" := by decide
theorem bridge_sat_racks : SwV.Gen.C15.sat_racks = "len(primaryDcRacks) < replicaPlacement.DiffRackCount+1" := by decide
theorem bridge_sat_primary_rack : SwV.Gen.C15.sat_primary_rack = "!isAmong(possibleLocation.Rack(), primaryRacks)" := by decide
theorem bridge_sat_same_rack : SwV.Gen.C15.sat_same_rack = "sameRackCount < replicaPlacement.SameRackCount+1" := by decide

/-! `balanceSelectedVolume` ↔ Phase.fullOk / Phase.nextOk / mkPhase (`cap > 0`), the guard of
    `balance_target_guard`: selected/max of the full node above, (selected+1)/max of the target within the ideal ratio -/
theorem bridge_bal_with_capacity : SwV.Gen.C15.bal_with_capacity = "capacity > 0" := by decide
theorem bridge_bal_ideal : SwV.Gen.C15.bal_ideal = "idealVolumeRatio := divide(selectedVolumeCount, volumeMaxCount)" := by decide
theorem bridge_bal_guard : SwV.Gen.C15.bal_guard = "!(fullNode.localVolumeRatio(capacityFunc) > idealVolumeRatio && emptyNode.localVolumeNextRatio(capacityFunc) <= idealVolumeRatio)" := rfl
theorem bridge_ratio_num : SwV.Gen.C15.ratio_num = "len(n.selectedVolumes)" := by decide
theorem bridge_next_ratio_num : SwV.Gen.C15.next_ratio_num = "len(n.selectedVolumes) + 1" := by decide

/-! `fixOneUnderReplicatedVolume` ↔ Model.fixCand: `capFree n dt > 0 && satisfyRP …` (hypothesis of `fix_target_has_capacity`) -/
theorem bridge_fix_capacity_fn : SwV.Gen.C15.fix_capacity_fn = "fn := capacityByFreeVolumeCount(types.ToDiskType(replica.info.DiskType))" := by decide
theorem bridge_fix_guard : SwV.Gen.C15.fix_guard = "fn(dst.dataNode) > 0 && satisfyReplicaPlacement(replicaPlacement, replicas, dst)" := by decide

/-! source pins of the functions the model mirrors -/
theorem bridge_src_isGoodMove : SwV.Gen.C15.src_isGoodMove = "b293e81fcbacab31" := by decide
theorem bridge_src_adjustAfterMove : SwV.Gen.C15.src_adjustAfterMove = "a4e9053acd0917ab" := by decide
theorem bridge_src_maybeMoveOneVolume : SwV.Gen.C15.src_maybeMoveOneVolume = "31e2284f2ebd2488" := by decide
theorem bridge_src_attemptToMoveOneVolume : SwV.Gen.C15.src_attemptToMoveOneVolume = "6f22e7b0284b8a03" := by decide
theorem bridge_src_balanceSelectedVolume : SwV.Gen.C15.src_balanceSelectedVolume = "d433e7f9deafd21d" := by decide
theorem bridge_src_satisfyReplicaPlacement : SwV.Gen.C15.src_satisfyReplicaPlacement = "61104f833c486dc4" := by decide
theorem bridge_src_keepDataNodesSorted : SwV.Gen.C15.src_keepDataNodesSorted = "7b47402d03439a95" := by decide
theorem bridge_src_capacityByFreeVolumeCount : SwV.Gen.C15.src_capacityByFreeVolumeCount = "2ac6f604aa520ffe" := by decide
theorem bridge_src_capacityByMaxVolumeCount : SwV.Gen.C15.src_capacityByMaxVolumeCount = "9cd71831627f4319" := by decide
theorem bridge_src_moveAwayOneNormalVolume : SwV.Gen.C15.src_moveAwayOneNormalVolume = "c6e9e234a455ebd9" := by decide
theorem bridge_src_fixOneUnderReplicatedVolume : SwV.Gen.C15.src_fixOneUnderReplicatedVolume = "28d84498e088be21" := by decide

end SwV.Props.C15
