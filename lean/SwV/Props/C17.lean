/-
C17  File content is the last-writer-wins overlay of its chunks.

Every theorem is about the MODEL of weed/filer (SwV.Model.C17, tied to the Go code by the
correspondence check) and quantifies over ALL chunk trees, windows, buffers and — for the
order produced by the unstable sort.Slice — over EVERY permutation of the resolved chunks
that is sorted by the comparator (`IsOrderOf`).  `Newest cs p c` (Spec): c is a chunk of cs
covering p and no chunk of cs covering p is newer in (mtime, file key) order.

Hypotheses that appear and why:
* `wellFormed ns`  — a manifest's declared [offset, offset+size) contains its chunks
  (mergeIntoManifest writes exactly that; ResolveChunkManifest skips a manifest by its extent);
* `fileSize` is at least every chunk's end (FileSize(entry) = max(TotalSize, attr size)) and < 2^63;
* zero-size chunks need no hypothesis: ResolveChunkManifest drops them (`resolve_drops_empty`);
  MergeIntoVisibles itself is NOT correct for them (`zero_size_breaks_merge`).
* ties in (mtime, key): every statement holds for every admissible order; with `KeysDistinct`
  the shown chunk is unique (`newest_unique`, `order_unique`).
-/
import SwV.Lemmas.C17b
import SwV.Lemmas.C17c
import SwV.Lemmas.C17d
import SwV.Lemmas.C17e
import SwV.Lemmas.C17f
import SwV.Gen.C17
namespace SwV.Props.C17
open SwV.Model.C17 SwV.Spec.C17 SwV.Lemmas.C17

/-- `order` is a possible result of the sort.Slice call for the window [lo, hi): a permutation of the
    resolved chunks that is sorted by (mtime, key) -/
def IsOrderOf (order : List Chunk) (lo hi : Nat) (ns : List Node) : Prop :=
  order.Perm (resolveList lo hi ns) ∧ SortedBy order

/-- the views ViewFromChunks returns when the sort leaves the chunks in `order` -/
def viewsOfOrder (order : List Chunk) (offset size : Nat) : List View :=
  viewsOfVisibles (visibles order) offset size

/-- the model's stable sort is one admissible order, and ViewFromChunks is `viewsOfOrder` of it -/
theorem model_order (lo hi : Nat) (ns : List Node) : IsOrderOf (sortChunks (resolveList lo hi ns)) lo hi ns :=
  ⟨sortChunks_perm _, sortChunks_sorted _⟩

theorem viewFromChunks_eq (ns : List Node) (offset size : Nat) :
    viewFromChunks ns offset size = viewsOfOrder (sortChunks (resolveList offset (offset + size) ns)) offset size := rfl

/-- C17 core (design-phase prototype, now over the model's types): for every list of positive-size
    chunks, MergeIntoVisibles folded over it yields sorted, disjoint, non-empty intervals that show at
    every position exactly the LAST chunk of the list covering it, at the right inner offset. -/
theorem visibles_eq_overlay (cs : List Chunk) (hcs : ∀ c ∈ cs, 0 < c.size) :
    VInv (visibles cs) (specOf cs) :=
  SwV.Lemmas.C17.visibles_eq_overlay cs hcs

example : ∀ c ∈ [({ off := 0, size := 3, mtime := 1, fid := 1, key := 1 } : Chunk)], 0 < c.size := by decide

/-- ResolveChunkManifest never hands a zero-size chunk (or a chunk outside the tree) to the merge -/
theorem resolve_drops_empty (lo hi : Nat) (ns : List Node) (c : Chunk) (h : c ∈ resolveList lo hi ns) :
    c ∈ flatten ns ∧ 0 < c.size := resolveList_sub lo hi ns c h

/-- …and it must: with a zero-size chunk in the list MergeIntoVisibles produces overlapping intervals
    (A=[0,3) then the empty Z=[0,0) then B=[1,2): Z lands behind A, so B takes the `last.stop <= offset` fast path) -/
theorem zero_size_breaks_merge :
    ¬ (visibles [⟨0, 3, 1, 1, 1⟩, ⟨0, 0, 2, 2, 2⟩, ⟨1, 1, 3, 3, 3⟩]).Pairwise (fun a b => a.stop ≤ b.start) := by
  decide

theorem order_pos {order : List Chunk} {lo hi : Nat} {ns : List Node} (ho : IsOrderOf order lo hi ns) :
    ∀ c ∈ order, 0 < c.size := fun c hc => (resolveList_sub lo hi ns c (ho.1.mem_iff.1 hc)).2

theorem newest_of_order {order : List Chunk} {lo hi : Nat} {ns : List Node} (hw : wellFormed ns = true)
    (ho : IsOrderOf order lo hi ns) {p : Nat} (hlo : lo ≤ p) (hhi : p < hi) {c : Chunk}
    (h : lastCov order p = some c) : Newest (flatten ns) p c := by
  have hn := lastCov_newest ho.2 h
  refine ⟨(resolveList_sub lo hi ns c (ho.1.mem_iff.1 hn.1)).1, hn.2.1, ?_⟩
  intro c' hc' hcov
  exact hn.2.2 c' (ho.1.mem_iff.2 (resolveList_complete lo hi p hlo hhi ns c' hw hc' hcov)) hcov

theorem hole_of_order {order : List Chunk} {lo hi : Nat} {ns : List Node} (hw : wellFormed ns = true)
    (ho : IsOrderOf order lo hi ns) {p : Nat} (hlo : lo ≤ p) (hhi : p < hi)
    (h : lastCov order p = none) : ∀ c ∈ flatten ns, ¬ covers c p := by
  intro c hc hcov
  exact lastCov_none h c (ho.1.mem_iff.2 (resolveList_complete lo hi p hlo hhi ns c hw hc hcov)) hcov

/-- ViewFromChunks / ViewFromVisibleIntervals (window clipping): for every chunk tree, every window
    [offset, offset+size) and every admissible sort order, the views are sorted, disjoint, non-empty,
    inside the window; a view covering p shows a NEWEST chunk of the whole tree covering p at the right
    offset inside that chunk; a position of the window in no view is covered by no chunk. -/
theorem views_eq_overlay (ns : List Node) (hw : wellFormed ns = true) (offset size : Nat)
    (hstop : viewStop offset size = offset + size)
    (order : List Chunk) (ho : IsOrderOf order offset (offset + size) ns) :
    let ws := viewsOfOrder order offset size
    VSorted ws ∧ (∀ w ∈ ws, 0 < w.size ∧ offset ≤ w.logic ∧ w.logic + w.size ≤ offset + size) ∧
    ∀ p, offset ≤ p → p < offset + size →
      (∀ w ∈ ws, vcov w p → ∃ c, Newest (flatten ns) p c ∧ w.fid = c.fid ∧ w.csize = c.size ∧ w.off + (p - w.logic) = p - c.off) ∧
      ((∀ w ∈ ws, ¬ vcov w p) → ∀ c ∈ flatten ns, ¬ covers c p) := by
  intro ws
  have inv := SwV.Lemmas.C17.visibles_eq_overlay order (order_pos ho)
  refine ⟨views_sorted inv offset size, ?_, ?_⟩
  · intro w hw'
    have := views_window offset size hw'
    rw [hstop] at this
    exact ⟨this.1, this.2.1, this.2.2.1⟩
  · intro p hlo hhi
    constructor
    · intro w hw' hc
      obtain ⟨mt, hf⟩ := views_sem_some inv offset size p hw' hc
      rw [specOf_eq] at hf
      cases hl : lastCov order p with
      | none => rw [hl] at hf; cases hf
      | some c =>
        rw [hl] at hf
        simp only [Option.map_some, Option.some.injEq, shows, Prod.mk.injEq] at hf
        exact ⟨c, newest_of_order hw ho hlo hhi hl, hf.1.symm, hf.2.2.1.symm, hf.2.2.2.symm⟩
    · intro hn
      have hf := views_sem_none inv offset size p hlo (by rw [hstop]; exact hhi) hn
      rw [specOf_eq] at hf
      cases hl : lastCov order p with
      | none => exact hole_of_order hw ho hlo hhi hl
      | some c => rw [hl] at hf; cases hf

example : viewStop 3 5 = 3 + 5 := by decide
example : viewStop 0 maxInt64 = 0 + maxInt64 := by decide

/-- the byte a view list denotes is a legal content byte (window form of the main theorem) -/
theorem viewByte_ok (data : Nat → Nat → Nat) (ns : List Node) (hw : wellFormed ns = true) (offset size : Nat)
    (hstop : viewStop offset size = offset + size)
    (order : List Chunk) (ho : IsOrderOf order offset (offset + size) ns) (p : Nat) (hlo : offset ≤ p) (hhi : p < offset + size) :
    ByteOk data (flatten ns) p (viewByte data (viewsOfOrder order offset size) p) := by
  obtain ⟨_, _, h⟩ := views_eq_overlay ns hw offset size hstop order ho
  obtain ⟨h1, h2⟩ := h p hlo hhi
  unfold viewByte
  cases hf : (viewsOfOrder order offset size).find? (fun w => decide (vcov w p)) with
  | none =>
    right
    refine ⟨h2 ?_, rfl⟩
    intro w hw' hc
    have := List.find?_eq_none.1 hf w hw'
    simp [hc] at this
  | some w =>
    left
    have hc : vcov w p := by simpa using List.find?_some hf
    obtain ⟨c, hn, e1, _, e3⟩ := h1 w (List.mem_of_find?_eq_some hf) hc
    exact ⟨c, hn, by simp only [e1, e3]⟩

/-- the read loop + tail: over a sorted view list that ends below the file size, doReadAt delivers
    n = min len (fileSize - offset) bytes, byte i being the byte the views denote at offset+i (0 in gaps and
    in the tail), reports EOF iff the window reaches the file size, and leaves the rest of the buffer alone -/
theorem readAt_spec (data : Nat → Nat → Nat) (ws : List View) (hs : VSorted ws) (fileSize : Nat)
    (hF : ∀ w ∈ ws, w.logic + w.size ≤ fileSize) (p : List Nat) (offset : Nat) :
    readAt data ws fileSize p offset =
      (min p.length (fileSize - offset), decide (fileSize ≤ offset + p.length),
        (List.range' offset (min p.length (fileSize - offset))).map (viewByte data ws) ++ p.drop (min p.length (fileSize - offset))) := by
  have key : readAcc data ws fileSize p.length offset =
      (List.range' offset (min p.length (fileSize - offset))).map (viewByte data ws) := by
    unfold readAcc
    obtain ⟨k, ⟨a, b, c⟩, d⟩ := readLoop_spec data fileSize ws { pos := offset, rem := p.length, acc := [] } hs hF
    simp only [List.nil_append] at a
    generalize readLoop data ws { pos := offset, rem := p.length, acc := [] } = s' at a b c d
    simp only at b c d
    rcases c with ⟨c1, c2⟩ | ⟨c1, c2, c3⟩
    · have : ¬ (0 < s'.rem ∧ s'.pos < fileSize) := by omega
      simp only [this, if_false]
      rw [a]
      have : k = min p.length (fileSize - offset) := by omega
      rw [this]
    · have dd := d c1
      by_cases ht : s'.pos < fileSize
      · simp only [c1, ht, and_self, if_true]
        rw [a]
        have hz : List.replicate (min s'.rem (fileSize - s'.pos)) 0 =
            (List.range' (offset + k) (min s'.rem (fileSize - s'.pos))).map (viewByte data ws) := by
          rw [← map_const_range' _ (offset + k)]
          apply List.map_congr_left
          intro q hq
          have hq' := List.mem_range'_1.1 hq
          symm; apply viewByte_before
          intro w hw' hc
          have := dd w hw'
          unfold vcov at hc; omega
        rw [hz, ← List.map_append, List.range'_append_1]
        have : k + min s'.rem (fileSize - s'.pos) = min p.length (fileSize - offset) := by omega
        rw [this]
      · have : ¬ (0 < s'.rem ∧ s'.pos < fileSize) := by omega
        simp only [this, if_false]
        rw [a]
        have : k = min p.length (fileSize - offset) := by omega
        rw [this]
  unfold readAt
  simp only [key, List.length_map, List.length_range']

/-- MAIN THEOREM.  For every chunk tree (nested manifests included), every admissible sort order, every
    file size ≥ the chunks' extent, every window (offset, buffer p — whatever it contained): ReadAt returns
    n = min |p| (fileSize - offset) bytes; each returned byte is the byte of a NEWEST chunk (in (mtime,key)
    order) covering its position, or 0 where no chunk covers it (holes and the tail below the file size);
    err = EOF iff offset+|p| ≥ fileSize; the buffer beyond n is untouched. -/
theorem readAt_eq_overlay (data : Nat → Nat → Nat) (ns : List Node) (hw : wellFormed ns = true)
    (order : List Chunk) (ho : IsOrderOf order 0 maxInt64 ns)
    (fileSize : Nat) (hfs : ∀ c ∈ flatten ns, c.off + c.size ≤ fileSize) (hmax : fileSize ≤ maxInt64)
    (p : List Nat) (offset : Nat) :
    let r := readAt data (viewsOfOrder order 0 maxInt64) fileSize p offset
    r.1 = min p.length (fileSize - offset) ∧
    r.2.1 = decide (fileSize ≤ offset + p.length) ∧
    r.2.2.length = p.length ∧
    (∀ i, i < r.1 → ByteOk data (flatten ns) (offset + i) (r.2.2.getD i 0)) ∧
    r.2.2.drop r.1 = p.drop r.1 := by
  have ho' : IsOrderOf order 0 (0 + maxInt64) ns := by simpa using ho
  have hst : viewStop 0 maxInt64 = 0 + maxInt64 := by decide
  have inv := SwV.Lemmas.C17.visibles_eq_overlay order (order_pos ho)
  have hs : VSorted (viewsOfOrder order 0 maxInt64) := views_sorted inv 0 maxInt64
  have hF : ∀ w ∈ viewsOfOrder order 0 maxInt64, w.logic + w.size ≤ fileSize := by
    intro w hw'
    obtain ⟨_, _, _, v, hv, hle⟩ := views_window 0 maxInt64 hw'
    have hpos := inv.pos v hv
    have hcov : cov v (v.stop - 1) := by unfold cov; omega
    have hf := (inv.sem (v.stop - 1) (val v (v.stop - 1))).1 ⟨v, hv, hcov, rfl⟩
    rw [specOf_eq] at hf
    cases hl : lastCov order (v.stop - 1) with
    | none => rw [hl] at hf; cases hf
    | some c =>
      have hm := lastCov_mem hl
      have := hfs c (resolveList_sub 0 maxInt64 ns c (ho.1.mem_iff.1 hm.1)).1
      have := hm.2.2
      omega
  intro r
  have hr : r = _ := readAt_spec data _ hs fileSize hF p offset
  rw [hr]
  refine ⟨rfl, rfl, ?_, ?_, ?_⟩
  · simp only [List.length_append, List.length_map, List.length_range', List.length_drop]; omega
  · intro i hi
    simp only at hi
    have hlt : i < ((List.range' offset (min p.length (fileSize - offset))).map (viewByte data (viewsOfOrder order 0 maxInt64))).length := by
      simpa using hi
    simp only [List.getD_eq_getElem?_getD, List.getElem?_append_left hlt]
    simp only [List.getElem?_map, List.getElem?_range' hi, Option.map_some, Option.getD_some, Nat.one_mul]
    exact viewByte_ok data ns hw 0 maxInt64 hst order ho' (offset + i) (by omega) (by omega)
  · simp only
    rw [List.drop_append_of_le_length (by simp), List.drop_eq_nil_of_le (by simp)] <;> simp

example : IsOrderOf (sortChunks (resolveList 0 maxInt64 [.data ⟨0, 3, 1, 1, 1⟩])) 0 maxInt64 [.data ⟨0, 3, 1, 1, 1⟩] :=
  model_order _ _ _

/-- the same for the model's own (stable) order, i.e. for what `viewFromChunks` computes -/
theorem readAt_eq_overlay_model (data : Nat → Nat → Nat) (ns : List Node) (hw : wellFormed ns = true)
    (fileSize : Nat) (hfs : ∀ c ∈ flatten ns, c.off + c.size ≤ fileSize) (hmax : fileSize ≤ maxInt64)
    (p : List Nat) (offset : Nat) :
    let r := readAt data (viewFromChunks ns 0 maxInt64) fileSize p offset
    r.1 = min p.length (fileSize - offset) ∧ r.2.1 = decide (fileSize ≤ offset + p.length) ∧ r.2.2.length = p.length ∧
    (∀ i, i < r.1 → ByteOk data (flatten ns) (offset + i) (r.2.2.getD i 0)) ∧ r.2.2.drop r.1 = p.drop r.1 :=
  readAt_eq_overlay data ns hw _ (model_order 0 maxInt64 ns) fileSize hfs hmax p offset

/-! ### ties -/

/-- no two different chunks share (mtime, file key) -/
def KeysDistinct (cs : List Chunk) : Prop := ∀ a ∈ cs, ∀ b ∈ cs, a.mtime = b.mtime → a.key = b.key → a = b

theorem newest_unique {cs : List Chunk} (hd : KeysDistinct cs) {p : Nat} {c c' : Chunk}
    (h : Newest cs p c) (h' : Newest cs p c') : c = c' := by
  have h1 := h.2.2 c' h'.1 h'.2.1
  have h2 := h'.2.2 c h.1 h.2.1
  apply hd c h.1 c' h'.1 <;> (unfold keyLe at h1 h2; omega)

/-- with distinct (mtime, key) the content of every position is determined: ReadAt is a function of the chunk SET -/
theorem byteOk_unique (data : Nat → Nat → Nat) {cs : List Chunk} (hd : KeysDistinct cs) {p b b' : Nat}
    (h : ByteOk data cs p b) (h' : ByteOk data cs p b') : b = b' := by
  rcases h with ⟨c, hc, rfl⟩ | ⟨hn, rfl⟩ <;> rcases h' with ⟨c', hc', rfl⟩ | ⟨hn', rfl⟩
  · rw [newest_unique hd hc hc']
  · exact absurd hc.2.1 (hn' c hc.1)
  · exact absurd hc'.2.1 (hn c' hc'.1)
  · rfl

/-- …and sort.Slice has no choice: all admissible orders coincide -/
theorem order_unique {lo hi : Nat} {ns : List Node} (hd : KeysDistinct (resolveList lo hi ns))
    {o1 o2 : List Chunk} (h1 : IsOrderOf o1 lo hi ns) (h2 : IsOrderOf o2 lo hi ns) : o1 = o2 := by
  apply List.Perm.eq_of_pairwise (le := keyLe) _ h1.2 h2.2 (h1.1.trans h2.1.symm)
  intro a b ha hb hab hba
  apply hd a (h1.1.mem_iff.1 ha) b (h2.1.mem_iff.1 hb) <;> (unfold keyLe at hab hba; omega)

example : KeysDistinct [⟨0, 3, 1, 1, 1⟩, ⟨1, 3, 1, 2, 2⟩] := by
  intro a ha b hb; simp at ha hb; rcases ha with rfl | rfl <;> rcases hb with rfl | rfl <;> simp

/-! ### CompactFileChunks -/

theorem flatten_map_data (cs : List Chunk) : flatten (cs.map Node.data) = cs := by
  induction cs with
  | nil => simp [flatten]
  | cons c cs ih => simp [flatten, ih]

theorem wellFormed_map_data (cs : List Chunk) : wellFormed (cs.map Node.data) = true := by
  induction cs with
  | nil => simp [wellFormed]
  | cons c cs ih => simp [wellFormed, ih]

/-- the chunk the reader shows at p for the chunk list cs (model order) -/
def shownAt (cs : List Chunk) (p : Nat) : Option Chunk :=
  lastCov (sortChunks (resolveList 0 maxInt64 (cs.map Node.data))) p

theorem shownAt_newest {cs : List Chunk} {p : Nat} (hp : p < maxInt64) {c : Chunk} (h : shownAt cs p = some c) :
    Newest cs p c := by
  have := newest_of_order (wellFormed_map_data cs) (model_order 0 maxInt64 (cs.map Node.data)) (Nat.zero_le p) hp h
  rwa [flatten_map_data] at this

theorem shownAt_exists {cs : List Chunk} {p : Nat} (hp : p < maxInt64) {c : Chunk} (hc : c ∈ cs) (hcov : covers c p) :
    ∃ c', shownAt cs p = some c' := by
  cases h : shownAt cs p with
  | some c' => exact ⟨c', rfl⟩
  | none =>
    exfalso
    have := hole_of_order (wellFormed_map_data cs) (model_order 0 maxInt64 (cs.map Node.data)) (Nat.zero_le p) hp h
    rw [flatten_map_data] at this
    exact this c hc hcov

/-- every chunk the reader shows anywhere is kept by the compaction -/
theorem compact_keeps_shown (cs : List Chunk) {p : Nat} {c : Chunk} (h : shownAt cs p = some c) :
    c ∈ (compact cs).1 := by
  unfold shownAt at h
  have ho := model_order 0 maxInt64 (cs.map Node.data)
  have inv := SwV.Lemmas.C17.visibles_eq_overlay _ (order_pos ho)
  have hm := lastCov_mem h
  have hf : specOf (sortChunks (resolveList 0 maxInt64 (cs.map Node.data))) p = some (shows c p) := by
    rw [specOf_eq, h]; rfl
  obtain ⟨v, hv, _, hval⟩ := (inv.sem p (shows c p)).2 hf
  have hfid : v.fid = c.fid := by
    have := congrArg Prod.fst hval; simpa [val, shows] using this
  have hcs : c ∈ cs := by
    have := (resolveList_sub 0 maxInt64 _ c (ho.1.mem_iff.1 hm.1)).1
    rwa [flatten_map_data] at this
  unfold compact
  simp only [List.mem_filter, List.contains_eq_mem, List.mem_map, decide_eq_true_eq]
  exact ⟨hcs, v, hv, hfid⟩

/-- garbage = the chunks whose file id is visible nowhere: compacted and garbage partition the list,
    and a garbage chunk is never the one shown -/
theorem compact_garbage (cs : List Chunk) :
    ((compact cs).1 ++ (compact cs).2).Perm cs ∧
    ∀ g ∈ (compact cs).2, g ∈ cs ∧ ∀ p c, shownAt cs p = some c → c.fid ≠ g.fid := by
  constructor
  · exact List.filter_append_perm _ cs
  · intro g hg
    have hg' : g ∈ cs ∧ _ := List.mem_filter.1 hg
    refine ⟨hg'.1, ?_⟩
    intro p c hs hfid
    have hk := compact_keeps_shown cs hs
    unfold compact at hk hg'
    simp only [List.mem_filter] at hk
    have h1 := hk.2
    have h2 := hg'.2
    rw [hfid] at h1
    rw [h1] at h2
    exact absurd h2 (by decide)

/-- `compact_preserves`: CompactFileChunks never changes the content.  For every chunk list with distinct
    (mtime,key), every position and every byte value b: b is the content byte of the compacted list at p
    iff it is the content byte of the original list at p. -/
theorem compact_preserves (data : Nat → Nat → Nat) (cs : List Chunk) (hd : KeysDistinct cs) (p : Nat) (hp : p < maxInt64) (b : Nat) :
    ByteOk data (compact cs).1 p b ↔ ByteOk data cs p b := by
  have hsub : ∀ c ∈ (compact cs).1, c ∈ cs := fun c hc => (List.mem_filter.1 hc).1
  -- the newest chunk of cs at p is kept
  have hkeep : ∀ c, Newest cs p c → Newest (compact cs).1 p c := by
    intro c hn
    obtain ⟨c', hs⟩ := shownAt_exists hp hn.1 hn.2.1
    have := newest_unique hd hn (shownAt_newest hp hs)
    subst this
    exact ⟨compact_keeps_shown cs hs, hn.2.1, fun c'' hc'' => hn.2.2 c'' (hsub c'' hc'')⟩
  constructor
  · rintro (⟨c, hn, rfl⟩ | ⟨hn, rfl⟩)
    · left
      obtain ⟨c', hs⟩ := shownAt_exists hp (hsub c hn.1) hn.2.1
      have hn' := shownAt_newest hp hs
      have hk := hkeep c' hn'
      have h1 := hn.2.2 c' hk.1 hk.2.1
      have h2 := hn'.2.2 c (hsub c hn.1) hn.2.1
      have : c = c' := by
        apply hd c (hsub c hn.1) c' hn'.1 <;> (unfold keyLe at h1 h2; omega)
      subst this
      exact ⟨c, hn', rfl⟩
    · right
      refine ⟨?_, rfl⟩
      intro c hc hcov
      obtain ⟨c', hs⟩ := shownAt_exists hp hc hcov
      have hk := hkeep c' (shownAt_newest hp hs)
      exact hn c' hk.1 hk.2.1
  · rintro (⟨c, hn, rfl⟩ | ⟨hn, rfl⟩)
    · left; exact ⟨c, hkeep c hn, rfl⟩
    · right; exact ⟨fun c hc => hn c (hsub c hc), rfl⟩

/-! ### manifests -/

theorem flatten_append (a b : List Node) : flatten (a ++ b) = flatten a ++ flatten b := by
  induction a with
  | nil => simp [flatten]
  | cons n a ih =>
    cases n with
    | data c => simp [flatten, ih]
    | manifest o s f ch => simp [flatten, ih, List.append_assoc]

theorem wellFormed_append (a b : List Node) : wellFormed (a ++ b) = (wellFormed a && wellFormed b) := by
  induction a with
  | nil => simp [wellFormed]
  | cons n a ih =>
    cases n with
    | data c => simp [wellFormed, ih]
    | manifest o s f ch => simp [wellFormed, ih, Bool.and_assoc]

theorem foldl_min_le (l : List Chunk) : ∀ (init : Nat), l.foldl (fun m c => min m c.off) init ≤ init ∧
    ∀ c ∈ l, l.foldl (fun m c => min m c.off) init ≤ c.off := by
  induction l with
  | nil => intro init; simp
  | cons d l ih =>
    intro init
    simp only [List.foldl_cons]
    have := ih (min init d.off)
    refine ⟨by omega, ?_⟩
    intro c hc
    rcases List.mem_cons.1 hc with rfl | hc
    · omega
    · exact this.2 c hc

theorem le_foldl_max (l : List Chunk) : ∀ (init : Nat), init ≤ l.foldl (fun m c => max m c.stop) init ∧
    ∀ c ∈ l, c.stop ≤ l.foldl (fun m c => max m c.stop) init := by
  induction l with
  | nil => intro init; simp
  | cons d l ih =>
    intro init
    simp only [List.foldl_cons]
    have := ih (max init d.stop)
    refine ⟨by omega, ?_⟩
    intro c hc
    rcases List.mem_cons.1 hc with rfl | hc
    · omega
    · exact this.2 c hc

/-- the extent mergeIntoManifest writes contains the batch -/
theorem mkManifest_wellFormed (fid : Nat) (batch : List Chunk) (rest : List Node) (h : wellFormed rest = true) :
    wellFormed (mkManifest fid batch :: rest) = true := by
  unfold mkManifest
  simp only [wellFormed, flatten_map_data, wellFormed_map_data, h, Bool.and_true, List.all_eq_true, decide_eq_true_eq]
  intro c hc
  have h1 := (foldl_min_le batch maxInt64).2 c hc
  have h2 := (le_foldl_max batch 0).2 c hc
  have h3 : c.stop = c.off + c.size := rfl
  omega

theorem batchLoop_flatten (k : Nat) : ∀ (fuel fid : Nat) (ds : List Chunk), flatten (batchLoop k fuel fid ds) = ds
  | 0, _, ds => by simp [batchLoop, flatten_map_data]
  | fuel + 1, fid, ds => by
    unfold batchLoop
    split
    · unfold mkManifest
      simp only [flatten, flatten_map_data, batchLoop_flatten k fuel (fid + 1) (ds.drop k), List.take_append_drop]
    · exact flatten_map_data ds

theorem batchLoop_wellFormed (k : Nat) : ∀ (fuel fid : Nat) (ds : List Chunk), wellFormed (batchLoop k fuel fid ds) = true
  | 0, _, ds => by simp [batchLoop, wellFormed_map_data]
  | fuel + 1, fid, ds => by
    unfold batchLoop
    split
    · exact mkManifest_wellFormed fid _ _ (batchLoop_wellFormed k fuel (fid + 1) (ds.drop k))
    · exact wellFormed_map_data ds

theorem split_perm : ∀ (ns : List Node), (flatten (ns.filter isManifest) ++ ns.filterMap nodeChunk).Perm (flatten ns)
  | [] => by simp [flatten]
  | .data c :: ns => by
    simp only [List.filter_cons, isManifest, Bool.false_eq_true, if_false, List.filterMap_cons, nodeChunk, flatten]
    exact List.perm_middle.trans ((split_perm ns).cons c)
  | .manifest o s f ch :: ns => by
    simp only [List.filter_cons, isManifest, if_true, List.filterMap_cons, nodeChunk, flatten, List.append_assoc]
    exact (split_perm ns).append_left _

theorem wellFormed_filter : ∀ (ns : List Node), wellFormed ns = true → wellFormed (ns.filter isManifest) = true
  | [], _ => by simp [wellFormed]
  | .data c :: ns, h => by
    simp only [List.filter_cons, isManifest, Bool.false_eq_true, if_false]
    exact wellFormed_filter ns (by simpa [wellFormed] using h)
  | .manifest o s f ch :: ns, h => by
    simp only [List.filter_cons, isManifest, if_true]
    simp only [wellFormed, Bool.and_eq_true] at h ⊢
    exact ⟨h.1, wellFormed_filter ns h.2⟩

/-- `manifestize_preserves`, ∀ batch size k, ∀ trees: doMaybeManifestize only regroups the data chunks —
    the chunks of the result are a permutation of the chunks of the input, and its manifests are well-formed -/
theorem manifestize_flatten (k base : Nat) (ns : List Node) :
    (flatten (manifestize k base ns)).Perm (flatten ns) ∧
    (wellFormed ns = true → wellFormed (manifestize k base ns) = true) := by
  unfold manifestize
  constructor
  · rw [flatten_append, batchLoop_flatten]
    exact split_perm ns
  · intro h
    rw [wellFormed_append, wellFormed_filter ns h, batchLoop_wellFormed]; rfl

/-- …hence the content is unchanged: a byte is a legal content byte of the manifestized file iff it is one of the original -/
theorem manifestize_preserves (data : Nat → Nat → Nat) (k base : Nat) (ns : List Node) (p b : Nat) :
    ByteOk data (flatten (manifestize k base ns)) p b ↔ ByteOk data (flatten ns) p b := by
  have hp := (manifestize_flatten k base ns).1
  have hN : ∀ c, Newest (flatten (manifestize k base ns)) p c ↔ Newest (flatten ns) p c :=
    fun c => ⟨fun h => Newest.perm hp h, fun h => Newest.perm hp.symm h⟩
  unfold ByteOk
  constructor
  · rintro (⟨c, hn, e⟩ | ⟨hn, e⟩)
    · exact Or.inl ⟨c, (hN c).1 hn, e⟩
    · exact Or.inr ⟨fun c hc => hn c (hp.mem_iff.2 hc), e⟩
  · rintro (⟨c, hn, e⟩ | ⟨hn, e⟩)
    · exact Or.inl ⟨c, (hN c).2 hn, e⟩
    · exact Or.inr ⟨fun c hc => hn c (hp.mem_iff.1 hc), e⟩

/-- reading a manifestized file (any batch size, any admissible order) yields legal content bytes of the ORIGINAL chunks -/
theorem readAt_after_manifestize (data : Nat → Nat → Nat) (k base : Nat) (ns : List Node) (hw : wellFormed ns = true)
    (order : List Chunk) (ho : IsOrderOf order 0 maxInt64 (manifestize k base ns))
    (fileSize : Nat) (hfs : ∀ c ∈ flatten ns, c.off + c.size ≤ fileSize) (hmax : fileSize ≤ maxInt64)
    (p : List Nat) (offset : Nat) :
    let r := readAt data (viewsOfOrder order 0 maxInt64) fileSize p offset
    r.1 = min p.length (fileSize - offset) ∧
    (∀ i, i < r.1 → ByteOk data (flatten ns) (offset + i) (r.2.2.getD i 0)) := by
  have hp := (manifestize_flatten k base ns)
  have := readAt_eq_overlay data (manifestize k base ns) (hp.2 hw) order ho fileSize
    (fun c hc => hfs c (hp.1.mem_iff.1 hc)) hmax p offset
  intro r
  exact ⟨this.1, fun i hi => (manifestize_preserves data k base ns _ _).1 (this.2.2.2.1 i hi)⟩

/-! ### fetch faults (cache misses; `ok fid` = the fetch of blob fid succeeds) — for ALL oracles -/

/-- the fault-free result in readAtF's shape (0 = nil, 1 = io.EOF) -/
def liftRead (r : Nat × Bool × List Nat) : Nat × Nat × List Nat := (r.1, if r.2.1 then 1 else 0, r.2.2)

theorem readAtF_code (ok : Nat → Bool) (data : Nat → Nat → Nat) (views : List View) (fileSize : Nat) (p : List Nat) (offset : Nat) :
    (readAtF ok data views fileSize p offset).2.1 = 2 ↔
      (readLoopF ok data views { pos := offset, rem := p.length, acc := [] }).2 = true := by
  unfold readAtF
  simp only []
  generalize readLoopF ok data views { pos := offset, rem := p.length, acc := [] } = r
  obtain ⟨s, e⟩ := r
  cases e with
  | true => simp
  | false =>
    simp only [Bool.false_eq_true, if_false, iff_false]
    split <;> simp

/-- whatever fails: if ReadAt does not report the fetch error, its whole result is the fault-free result -/
theorem readAtF_no_error (ok : Nat → Bool) (data : Nat → Nat → Nat) (views : List View) (fileSize : Nat) (p : List Nat) (offset : Nat)
    (h : (readAtF ok data views fileSize p offset).2.1 ≠ 2) :
    readAtF ok data views fileSize p offset = liftRead (readAt data views fileSize p offset) := by
  have hcode := readAtF_code ok data views fileSize p offset
  cases he : (readLoopF ok data views { pos := offset, rem := p.length, acc := [] }).2 with
  | true => exact absurd (hcode.2 he) h
  | false =>
    have hs := readLoopF_ok ok data views _ he
    simp [readAtF, liftRead, readAt, readAcc, he, hs]

/-- the error is reported exactly when a blob the fault-free read fetches cannot be fetched -/
theorem readAtF_error_iff (ok : Nat → Bool) (data : Nat → Nat → Nat) (views : List View) (fileSize : Nat) (p : List Nat) (offset : Nat) :
    (readAtF ok data views fileSize p offset).2.1 = 2 ↔
      ∃ f ∈ usedFids data views { pos := offset, rem := p.length, acc := [] }, ok f = false := by
  rw [readAtF_code]
  have hiff := readLoopF_err_iff ok data views { pos := offset, rem := p.length, acc := [] }
  constructor
  · intro h
    apply Classical.byContradiction
    intro hcon
    have : ∀ f ∈ usedFids data views { pos := offset, rem := p.length, acc := [] }, ok f = true := by
      intro f hf
      cases hk : ok f with
      | true => rfl
      | false => exact absurd ⟨f, hf, hk⟩ hcon
    rw [hiff.2 this] at h; cases h
  · rintro ⟨f, hf, hk⟩
    cases he : (readLoopF ok data views { pos := offset, rem := p.length, acc := [] }).2 with
    | true => rfl
    | false => have := hiff.1 he f hf; rw [hk] at this; cases this

/-- no spurious errors: if every fetch succeeds the result is the fault-free one -/
theorem readAtF_all_ok (ok : Nat → Bool) (hok : ∀ f, ok f = true) (data : Nat → Nat → Nat) (views : List View) (fileSize : Nat) (p : List Nat) (offset : Nat) :
    readAtF ok data views fileSize p offset = liftRead (readAt data views fileSize p offset) := by
  apply readAtF_no_error
  intro h
  obtain ⟨f, _, hk⟩ := (readAtF_error_iff ok data views fileSize p offset).1 h
  rw [hok f] at hk; cases hk

/-- a view that covers a byte of the window and whose blob cannot be fetched makes ReadAt fail -/
theorem readAtF_fault_is_error (ok : Nat → Bool) (data : Nat → Nat → Nat) (views : List View) (hs : VSorted views)
    (fileSize : Nat) (p : List Nat) (offset : Nat) (w : View) (hw : w ∈ views) (q : Nat) (hc : vcov w q)
    (h1 : offset ≤ q) (h2 : q < offset + p.length) (hk : ok w.fid = false) :
    (readAtF ok data views fileSize p offset).2.1 = 2 :=
  (readAtF_error_iff ok data views fileSize p offset).2
    ⟨w.fid, usedFids_of_cov data views { pos := offset, rem := p.length, acc := [] } hs w hw q hc h1 h2, hk⟩

/-- FAULT THEOREM, part 1.  For every chunk tree, admissible order, window, buffer and EVERY fetch oracle: ReadAt either
    reports the fetch error, or returns exactly what the fault-free read returns — n = min |p| (fileSize-offset) bytes, each
    the byte of a newest chunk covering its position or 0 in holes/tail, EOF iff the window reaches the file size.
    Bytes handed out with a nil/EOF error are never anything but overlay bytes. -/
theorem readAtF_overlay_or_error (ok : Nat → Bool) (data : Nat → Nat → Nat) (ns : List Node) (hw : wellFormed ns = true)
    (order : List Chunk) (ho : IsOrderOf order 0 maxInt64 ns)
    (fileSize : Nat) (hfs : ∀ c ∈ flatten ns, c.off + c.size ≤ fileSize) (hmax : fileSize ≤ maxInt64)
    (p : List Nat) (offset : Nat) :
    let r := readAtF ok data (viewsOfOrder order 0 maxInt64) fileSize p offset
    r.2.1 = 2 ∨
    (r.1 = min p.length (fileSize - offset) ∧ (r.2.1 = 1 ↔ fileSize ≤ offset + p.length) ∧ r.2.2.length = p.length ∧
      (∀ i, i < r.1 → ByteOk data (flatten ns) (offset + i) (r.2.2.getD i 0)) ∧ r.2.2.drop r.1 = p.drop r.1) := by
  intro r
  by_cases h : r.2.1 = 2
  · exact Or.inl h
  · right
    have hr : r = liftRead (readAt data (viewsOfOrder order 0 maxInt64) fileSize p offset) := readAtF_no_error ok data _ fileSize p offset h
    obtain ⟨a1, a2, a3, a4, a5⟩ := readAt_eq_overlay data ns hw order ho fileSize hfs hmax p offset
    rw [hr]
    unfold liftRead
    refine ⟨a1, ?_, a3, a4, a5⟩
    simp only [a2]
    by_cases hle : fileSize ≤ offset + p.length <;> simp [hle]

/-- FAULT THEOREM, part 2.  If a byte of the window is covered by a chunk and no newest chunk covering it can be fetched,
    ReadAt reports an error (it cannot obtain the bytes the property promises, so it must not succeed). -/
theorem readAtF_unfetchable_is_error (ok : Nat → Bool) (data : Nat → Nat → Nat) (ns : List Node) (hw : wellFormed ns = true)
    (order : List Chunk) (ho : IsOrderOf order 0 maxInt64 ns) (fileSize : Nat) (p : List Nat) (offset : Nat)
    (q : Nat) (h1 : offset ≤ q) (h2 : q < offset + p.length) (hq : q < maxInt64)
    (hcov : ∃ c ∈ flatten ns, covers c q) (hbad : ∀ c, Newest (flatten ns) q c → ok c.fid = false) :
    (readAtF ok data (viewsOfOrder order 0 maxInt64) fileSize p offset).2.1 = 2 := by
  have ho' : IsOrderOf order 0 (0 + maxInt64) ns := by simpa using ho
  obtain ⟨hs, _, hsem⟩ := views_eq_overlay ns hw 0 maxInt64 (by decide) order ho'
  obtain ⟨s1, s2⟩ := hsem q (Nat.zero_le q) (by omega)
  apply Classical.byContradiction
  intro hne
  have hnone : ∀ w ∈ viewsOfOrder order 0 maxInt64, ¬ vcov w q := by
    intro w hw' hc
    obtain ⟨c, hn, hfid, _, _⟩ := s1 w hw' hc
    exact hne (readAtF_fault_is_error ok data _ hs fileSize p offset w hw' q hc h1 h2 (by rw [hfid]; exact hbad c hn))
  obtain ⟨c, hc, hcc⟩ := hcov
  exact s2 hnone c hc hcc

example : (readAtF (fun _ => false) (fun f i => f * 10 + i) (viewFromChunks [.data ⟨0, 2, 1, 1, 1⟩] 0 maxInt64) 2 [9, 9] 0).2.1 = 2 := by
  have hr : resolveList 0 (0 + maxInt64) [.data ⟨0, 2, 1, 1, 1⟩] = [⟨0, 2, 1, 1, 1⟩] := by
    simp [resolveList, resolveNode, outside, maxInt64]
  have hsrt : sortChunks [⟨0, 2, 1, 1, 1⟩] = [⟨0, 2, 1, 1, 1⟩] := List.mergeSort_of_pairwise (by decide)
  unfold viewFromChunks nonOverlapping
  rw [hr, hsrt]
  decide

/-! ### StreamContent (finding `StreamContent/hole-not-zero-filled`, repaired in /repo: the gaps are written as zeros)

Before the repair the views were written back to back (a sparse file streamed short, every byte after the first hole
shifted); the theorems below are about the repaired loop `streamLoop` and hold without a no-hole hypothesis. -/

/-- STREAM THEOREM (bounded window — what the filer's HTTP read handler calls with the Content-Length it promised).
    For every chunk tree, every window [offset, offset+size) with size ≠ MaxInt64 and every admissible sort order:
    StreamContent writes exactly `size` bytes, byte i being the byte of a NEWEST chunk covering offset+i, or 0 where no
    chunk covers it (holes before, between and after the chunks). -/
theorem streamContent_eq_overlay (data : Nat → Nat → Nat) (ns : List Node) (hw : wellFormed ns = true) (offset size : Nat)
    (hsz : size ≠ maxInt64) (order : List Chunk) (ho : IsOrderOf order offset (offset + size) ns) :
    let out := streamLoop data (streamStop offset size) (viewsOfOrder order offset size) offset
    out = (List.range' offset size).map (viewByte data (viewsOfOrder order offset size)) ∧
    out.length = size ∧
    ∀ i, i < size → ByteOk data (flatten ns) (offset + i) (out.getD i 0) := by
  have hstop : viewStop offset size = offset + size := by simp [viewStop, hsz]
  have hss : streamStop offset size = offset + size := by simp [streamStop, hsz]
  obtain ⟨hs, hwin, _⟩ := views_eq_overlay ns hw offset size hstop order ho
  have key := streamLoop_spec data (offset + size) _ offset hs (fun w h => ⟨(hwin w h).2.1, (hwin w h).2.2⟩) (Nat.le_add_right _ _)
  rw [Nat.add_sub_cancel_left] at key
  intro out
  have hout : out = (List.range' offset size).map (viewByte data (viewsOfOrder order offset size)) := by
    show streamLoop data (streamStop offset size) _ offset = _; rw [hss]; exact key
  refine ⟨hout, by rw [hout]; simp, ?_⟩
  intro i hi
  rw [hout]
  simp only [List.getD_eq_getElem?_getD, List.getElem?_map, List.getElem?_range' hi, Option.map_some, Option.getD_some, Nat.one_mul]
  exact viewByte_ok data ns hw offset size hstop order ho (offset + i) (by omega) (by omega)

example : (5 : Nat) ≠ maxInt64 := by decide

/-- the same for the model's own order, i.e. for what `streamContent` computes -/
theorem streamContent_eq_overlay_model (data : Nat → Nat → Nat) (ns : List Node) (hw : wellFormed ns = true) (offset size : Nat)
    (hsz : size ≠ maxInt64) :
    streamContent data ns offset size = (List.range' offset size).map (viewByte data (viewFromChunks ns offset size)) ∧
    (streamContent data ns offset size).length = size ∧
    ∀ i, i < size → ByteOk data (flatten ns) (offset + i) ((streamContent data ns offset size).getD i 0) :=
  streamContent_eq_overlay data ns hw offset size hsz _ (model_order offset (offset + size) ns)

/-- STREAM THEOREM (whole file: offset 0, size MaxInt64 — fs.cat, filer.cat, ReadEntry, the meta-event reader).
    The stream is the content of [0, E), E = the largest end of a non-empty chunk: every byte the newest chunk's, 0 in holes. -/
theorem streamContent_whole_eq_overlay (data : Nat → Nat → Nat) (ns : List Node) (hw : wellFormed ns = true)
    (hmax : ∀ c ∈ flatten ns, c.off + c.size ≤ maxInt64)
    (order : List Chunk) (ho : IsOrderOf order 0 maxInt64 ns) :
    let out := streamLoop data (streamStop 0 maxInt64) (viewsOfOrder order 0 maxInt64) 0
    let E := extent ((flatten ns).filter fun c => decide (0 < c.size))
    out = (List.range' 0 E).map (viewByte data (viewsOfOrder order 0 maxInt64)) ∧
    out.length = E ∧
    ∀ i, i < E → ByteOk data (flatten ns) i (out.getD i 0) := by
  have ho' : IsOrderOf order 0 (0 + maxInt64) ns := by simpa using ho
  have hst : viewStop 0 maxInt64 = 0 + maxInt64 := by decide
  have hss : streamStop 0 maxInt64 = 0 := by decide
  obtain ⟨hs, hwin, hsem⟩ := views_eq_overlay ns hw 0 maxInt64 hst order ho'
  have hge := streamEnd_ge (viewsOfOrder order 0 maxInt64) 0
  have hE : streamEnd (viewsOfOrder order 0 maxInt64) 0 = extent ((flatten ns).filter fun c => decide (0 < c.size)) := by
    unfold extent
    apply Nat.le_antisymm
    · apply streamEnd_le _ _ 0 hs _ (Nat.zero_le _)
      intro w h
      refine ⟨Nat.zero_le _, ?_⟩
      obtain ⟨h0, _, h2⟩ := hwin w h
      obtain ⟨c, hn, _⟩ := (hsem (w.logic + w.size - 1) (Nat.zero_le _) (by omega)).1 w h (by unfold vcov; omega)
      have hcov := hn.2.1
      unfold covers at hcov
      have := (le_extent ((flatten ns).filter fun c => decide (0 < c.size)) 0).2 c
        (List.mem_filter.2 ⟨hn.1, by simp; omega⟩)
      omega
    · apply extent_le _ _ 0 (Nat.zero_le _)
      intro c hc
      obtain ⟨hc1, hc2⟩ := List.mem_filter.1 hc
      have hpos : 0 < c.size := by simpa using hc2
      have hm := hmax c hc1
      apply Classical.byContradiction
      intro hcon
      have hnone : ∀ w ∈ viewsOfOrder order 0 maxInt64, ¬ vcov w (c.off + c.size - 1) := by
        intro w h hv
        have := hge.2 w h
        unfold vcov at hv
        omega
      exact (hsem (c.off + c.size - 1) (Nat.zero_le _) (by omega)).2 hnone c hc1 (by unfold covers; omega)
  have key := streamLoop_open data _ 0 hs (fun w _ => Nat.zero_le _)
  rw [hE, Nat.sub_zero] at key
  have hEmax : extent ((flatten ns).filter fun c => decide (0 < c.size)) ≤ maxInt64 := by
    unfold extent
    exact extent_le _ _ 0 (Nat.zero_le _) (fun c hc => hmax c (List.mem_filter.1 hc).1)
  intro out E
  have hout : out = (List.range' 0 E).map (viewByte data (viewsOfOrder order 0 maxInt64)) := by
    show streamLoop data (streamStop 0 maxInt64) _ 0 = _; rw [hss]; exact key
  refine ⟨hout, by rw [hout]; simp [E], ?_⟩
  intro i hi
  rw [hout]
  simp only [List.getD_eq_getElem?_getD, List.getElem?_map, List.getElem?_range' hi, Option.map_some, Option.getD_some, Nat.one_mul]
  have := viewByte_ok data ns hw 0 maxInt64 hst order ho' (0 + i) (Nat.zero_le _) (by omega)
  simpa using this

theorem streamContent_whole_eq_overlay_model (data : Nat → Nat → Nat) (ns : List Node) (hw : wellFormed ns = true)
    (hmax : ∀ c ∈ flatten ns, c.off + c.size ≤ maxInt64) :
    let E := extent ((flatten ns).filter fun c => decide (0 < c.size))
    streamContent data ns 0 maxInt64 = (List.range' 0 E).map (viewByte data (viewFromChunks ns 0 maxInt64)) ∧
    (streamContent data ns 0 maxInt64).length = E ∧
    ∀ i, i < E → ByteOk data (flatten ns) i ((streamContent data ns 0 maxInt64).getD i 0) := by
  have ho : IsOrderOf (sortChunks (resolveList 0 (0 + maxInt64) ns)) 0 maxInt64 ns := by
    simpa using model_order 0 (0 + maxInt64) ns
  exact streamContent_whole_eq_overlay data ns hw hmax _ ho

example : ∀ c ∈ flatten [.data ⟨0, 2, 1, 1, 1⟩, .data ⟨4, 2, 2, 2, 2⟩], c.off + c.size ≤ maxInt64 := by
  intro c hc; simp [flatten] at hc; rcases hc with rfl | rfl <;> simp [maxInt64]

/-- the former witness of the finding (chunks [0,2) and [4,6), window [0,6)), now with the hole zero-filled -/
theorem streamContent_fills_holes :
    streamContent (fun f i => f * 10 + i) [.data ⟨0, 2, 1, 1, 1⟩, .data ⟨4, 2, 2, 2, 2⟩] 0 6 = [10, 11, 0, 0, 20, 21] := by
  have hr : resolveList 0 (0 + 6) [.data ⟨0, 2, 1, 1, 1⟩, .data ⟨4, 2, 2, 2, 2⟩] = [⟨0, 2, 1, 1, 1⟩, ⟨4, 2, 2, 2, 2⟩] := by
    simp [resolveList, resolveNode, outside]
  have hsrt : sortChunks [⟨0, 2, 1, 1, 1⟩, ⟨4, 2, 2, 2, 2⟩] = [⟨0, 2, 1, 1, 1⟩, ⟨4, 2, 2, 2, 2⟩] :=
    List.mergeSort_of_pairwise (by decide)
  unfold streamContent viewFromChunks nonOverlapping
  rw [hr, hsrt]
  decide

/-- the repair changes nothing for dense windows: without a hole in [offset, offset+size) the repaired loop writes
    exactly the back-to-back concatenation of the views, which is what the code wrote before the repair -/
theorem streamContent_dense_unchanged (data : Nat → Nat → Nat) (ns : List Node) (hw : wellFormed ns = true) (offset size : Nat)
    (hsz : size ≠ maxInt64)
    (hnh : ∀ p, offset ≤ p → p < offset + size → ∃ c ∈ flatten ns, covers c p) :
    streamContent data ns offset size =
      (viewFromChunks ns offset size).flatMap fun v => (List.range' v.off v.size).map (data v.fid) := by
  have hstop : viewStop offset size = offset + size := by simp [viewStop, hsz]
  have ho := model_order offset (offset + size) ns
  obtain ⟨h1, h2, h3⟩ := views_eq_overlay ns hw offset size hstop _ ho
  rw [(streamContent_eq_overlay_model data ns hw offset size hsz).1, viewFromChunks_eq]
  have := stream_of_contiguous data (offset + size) _ offset h1 h2 (by
    intro p hp1 hp2
    apply Classical.byContradiction
    intro hcon
    obtain ⟨c, hc, hcov⟩ := hnh p hp1 hp2
    exact (h3 p hp1 hp2).2 (fun w hw' hv => hcon ⟨w, hw', hv⟩) c hc hcov)
  rw [this, Nat.add_sub_cancel_left]

example : ∀ p, 0 ≤ p → p < 0 + 2 → ∃ c ∈ flatten [.data ⟨0, 2, 1, 1, 1⟩], covers c p := by
  intro p _ h; exact ⟨⟨0, 2, 1, 1, 1⟩, by simp [flatten], by unfold covers; simp; omega⟩

/-! ### bridges to the regenerated source facts (T1) -/

/-! ### read windows and file size after doMaybeManifestize (judge clauses `doMaybeManifestize/window-content-changed`,
`…/window-wrong-length`, `…/file-size-changed`)

A whole-file resolution overlaps every manifest, so it cannot see a manifest whose advertised extent is narrower than its
chunks; a WINDOW beyond the advertised end skips the manifest (the filter of ResolveChunkManifest).  The theorems below say
that for the extent `mkManifest` writes — [min offset, max stop) of the batch — every bounded window of the manifestized
file still reads the content of the ORIGINAL chunks and TotalSize is unchanged; the judges are run by the driver on the
real code's windows (op `mw`). -/

/-- WINDOW THEOREM after manifestize: for every tree, batch size, bounded window and admissible order, StreamContent over the
    manifestized list writes exactly `size` bytes, each a legal content byte of the ORIGINAL chunks -/
theorem streamContent_after_manifestize (data : Nat → Nat → Nat) (k base : Nat) (ns : List Node) (hw : wellFormed ns = true)
    (offset size : Nat) (hsz : size ≠ maxInt64) (order : List Chunk)
    (ho : IsOrderOf order offset (offset + size) (manifestize k base ns)) :
    let out := streamLoop data (streamStop offset size) (viewsOfOrder order offset size) offset
    out.length = size ∧ ∀ i, i < size → ByteOk data (flatten ns) (offset + i) (out.getD i 0) := by
  have hp := manifestize_flatten k base ns
  have h := streamContent_eq_overlay data (manifestize k base ns) (hp.2 hw) offset size hsz order ho
  intro out
  exact ⟨h.2.1, fun i hi => (manifestize_preserves data k base ns _ _).1 (h.2.2 i hi)⟩

example : IsOrderOf (sortChunks (resolveList 20 (20 + 1) (manifestize 2 900 [.data ⟨10, 10, 1, 1, 1⟩, .data ⟨0, 30, 2, 2, 2⟩])))
    20 (20 + 1) (manifestize 2 900 [.data ⟨10, 10, 1, 1, 1⟩, .data ⟨0, 30, 2, 2, 2⟩]) := model_order _ _ _

/-- …hence the judge of a window after manifestize accepts every output of the model -/
theorem manifestize_window_judge (data : Nat → Nat → Nat) (k base : Nat) (ns : List Node) (hw : wellFormed ns = true)
    (offset size : Nat) (hsz : size ≠ maxInt64) :
    manifestWindowJudge data (flatten ns) offset size (streamContent data (manifestize k base ns) offset size) = none := by
  have h := streamContent_after_manifestize data k base ns hw offset size hsz _ (model_order offset (offset + size) _)
  have hv : streamContent data (manifestize k base ns) offset size =
      streamLoop data (streamStop offset size) (viewsOfOrder (sortChunks (resolveList offset (offset + size) (manifestize k base ns))) offset size) offset := by
    unfold streamContent; rw [viewFromChunks_eq]
  unfold manifestWindowJudge
  rw [hv, if_neg (by simpa using h.1), if_pos]
  rw [List.all_eq_true]
  intro i hi
  have hi' : i < size := List.mem_range.1 hi
  have hb := h.2 i hi'
  have hlen : i < (streamLoop data (streamStop offset size) (viewsOfOrder (sortChunks (resolveList offset (offset + size) (manifestize k base ns))) offset size) offset).length := by
    rw [h.1]; exact hi'
  rw [List.getD_eq_getElem?_getD, List.getElem?_eq_getElem hlen] at hb ⊢
  exact byteOk_of_ByteOk data _ _ _ hb

/-- the seeded witness shape: batch [10,20) then [0,30) (the later chunk widens the extent on both sides), window [20,21) -/
example : manifestWindowJudge (fun f i => f * 100 + i + 1) (flatten [.data ⟨10, 10, 1, 1, 1⟩, .data ⟨0, 30, 2, 2, 2⟩]) 20 1
    (streamContent (fun f i => f * 100 + i + 1) (manifestize 2 900 [.data ⟨10, 10, 1, 1, 1⟩, .data ⟨0, 30, 2, 2, 2⟩]) 20 1) = none :=
  manifestize_window_judge _ 2 900 _ (by simp [wellFormed]) 20 1 (by decide)

/-- the judge is not vacuous: a manifest advertising [0,20) for that batch (what an `else if` in the min/max scan produces)
    is skipped by the window [20,21), which then reads a zero instead of the newest chunk's byte -/
theorem manifest_narrow_extent_caught :
    manifestWindowJudge (fun f i => f * 100 + i + 1) [⟨10, 10, 1, 1, 1⟩, ⟨0, 30, 2, 2, 2⟩] 20 1
      (streamContent (fun f i => f * 100 + i + 1) [.manifest 0 20 900 [.data ⟨10, 10, 1, 1, 1⟩, .data ⟨0, 30, 2, 2, 2⟩]] 20 1)
      = some "doMaybeManifestize/window-content-changed" := by
  have hr : resolveList 20 (20 + 1) [.manifest 0 20 900 [.data ⟨10, 10, 1, 1, 1⟩, .data ⟨0, 30, 2, 2, 2⟩]] = [] := by
    simp [resolveList, resolveNode, outside]
  have hsrt : sortChunks [] = [] := List.mergeSort_of_pairwise (by decide)
  unfold streamContent viewFromChunks nonOverlapping
  rw [hr, hsrt]
  decide

theorem advertisedSize_append (a b : List Node) : advertisedSize (a ++ b) = max (advertisedSize a) (advertisedSize b) := by
  induction a with
  | nil => simp [advertisedSize]
  | cons n a ih =>
    cases n with
    | data c => simp only [List.cons_append, advertisedSize, ih]; omega
    | manifest o s f ch => simp only [List.cons_append, advertisedSize, ih]; omega

theorem advertisedSize_split : ∀ (ns : List Node),
    advertisedSize ns = max (advertisedSize (ns.filter isManifest)) (advertisedSize ((ns.filterMap nodeChunk).map Node.data))
  | [] => by simp [advertisedSize]
  | .data c :: ns => by
    simp only [List.filter_cons, isManifest, Bool.false_eq_true, if_false, List.filterMap_cons, nodeChunk, List.map_cons, advertisedSize]
    rw [advertisedSize_split ns]; omega
  | .manifest o s f ch :: ns => by
    simp only [List.filter_cons, isManifest, if_true, List.filterMap_cons, nodeChunk, advertisedSize]
    rw [advertisedSize_split ns]; omega

theorem foldl_max_eq_advertised (l : List Chunk) : ∀ (init : Nat),
    l.foldl (fun m c => max m c.stop) init = max init (advertisedSize (l.map Node.data)) := by
  induction l with
  | nil => intro init; simp [advertisedSize]
  | cons d l ih =>
    intro init
    simp only [List.foldl_cons, List.map_cons, advertisedSize, ih]
    have : d.stop = d.off + d.size := rfl
    omega

/-- the manifest of a non-empty batch advertises exactly the end of the batch -/
theorem mkManifest_advertised (fid : Nat) (batch : List Chunk) (hb : batch ≠ []) (rest : List Node) :
    advertisedSize (mkManifest fid batch :: rest) = max (advertisedSize (batch.map Node.data)) (advertisedSize rest) := by
  unfold mkManifest
  simp only [advertisedSize]
  obtain ⟨c, hc⟩ := List.exists_mem_of_ne_nil batch hb
  have h1 := (foldl_min_le batch maxInt64).2 c hc
  have h2 := (le_foldl_max batch 0).2 c hc
  have h3 : c.stop = c.off + c.size := rfl
  have h4 := foldl_max_eq_advertised batch 0
  omega

theorem batchLoop_advertised (k : Nat) (hk : 1 ≤ k) : ∀ (fuel fid : Nat) (ds : List Chunk),
    advertisedSize (batchLoop k fuel fid ds) = advertisedSize (ds.map Node.data)
  | 0, _, ds => by simp [batchLoop]
  | fuel + 1, fid, ds => by
    unfold batchLoop
    split
    · rename_i hle
      have hne : ds.take k ≠ [] := by
        intro h
        have := congrArg List.length h
        simp only [List.length_take, List.length_nil] at this
        omega
      rw [mkManifest_advertised fid _ hne, batchLoop_advertised k hk fuel (fid + 1) (ds.drop k), ← advertisedSize_append,
        ← List.map_append, List.take_append_drop]
    · rfl

/-- SIZE THEOREM: for every tree and every merge factor ≥ 1, doMaybeManifestize leaves TotalSize (the largest advertised
    end among the top-level chunks) unchanged -/
theorem manifestize_keeps_size (k base : Nat) (hk : 1 ≤ k) (ns : List Node) :
    manifestSizeJudge (advertisedSize ns) (advertisedSize (manifestize k base ns)) = none := by
  unfold manifestSizeJudge manifestize
  rw [if_pos]
  rw [advertisedSize_append, batchLoop_advertised k hk, ← advertisedSize_split]

example : advertisedSize (manifestize 2 900 [.data ⟨10, 10, 1, 1, 1⟩, .data ⟨0, 30, 2, 2, 2⟩]) = 30 := by decide

/-- …and the size judge is not vacuous: the narrow manifest of the witness shrinks the file from 30 to 20 bytes -/
example : manifestSizeJudge (advertisedSize [.data ⟨10, 10, 1, 1, 1⟩, .data ⟨0, 30, 2, 2, 2⟩])
    (advertisedSize [.manifest 0 20 900 [.data ⟨10, 10, 1, 1, 1⟩, .data ⟨0, 30, 2, 2, 2⟩]]) = some "doMaybeManifestize/file-size-changed" := by
  decide

/-- the `min`/`max` helpers of filechunks.go (used by the window filter, the view clipping and the reader)
    are the minimum/maximum the model uses -/
theorem bridge_min (a b : Nat) : SwV.Gen.C17.min (a : Int) (b : Int) = ((Nat.min a b : Nat) : Int) := by
  unfold SwV.Gen.C17.min
  by_cases h : a ≤ b
  · simp [h, Nat.min_eq_left h]
  · have : b ≤ a := by omega
    simp [Nat.min_eq_right this]; omega

theorem bridge_max (a b : Nat) : SwV.Gen.C17.max (a : Int) (b : Int) = ((Nat.max a b : Nat) : Int) := by
  unfold SwV.Gen.C17.max
  by_cases h : a ≤ b
  · simp [h, Nat.max_eq_right h]
  · have : b ≤ a := by omega
    simp [Nat.max_eq_left this]; omega

/-- MaybeManifestize's merge factor is positive (the batching loop terminates; `manifestize` is stated for every k) -/
theorem bridge_manifest_batch : 0 < SwV.Gen.C17.ManifestBatch := by decide

/-- the source of StreamContent and of its zero writer is the text the model `streamLoop` was written against
    (the `fix:` zero-fill version); an edit of either function breaks this obligation -/
theorem bridge_stream_pins :
    SwV.Gen.C17.src_StreamContent = "617969968f3cefe5" ∧ SwV.Gen.C17.src_writeZero = "b1b4e7d84f01ac68" := by decide

end SwV.Props.C17
