/-
C28 — S3 objects and multipart uploads round-trip.

`completeMultipartUpload` concatenates the `.part` entries in the NAME order of the filer listing;
parts are named `fmt.Sprintf("%04d.part", n)`. The property needs ascending part NUMBER order.

  * `parts_in_numeric_order` (FULL for n ≤ 9999, any number of parts): name order = number order,
    hence the listing of any set of parts ≤ 9999 is the ascending-number list (`listing_is_numeric`),
    and the completed object is the concatenation in number order (`complete_eq_spec_partial`).
  * the handlers admit part numbers up to `globalMaxPartID` = 100000 (`bridge_max_part_id`), where the
    4-digit padding no longer orders: `part_10000_sorts_before_9999` (the known finding
    completeMultipartUpload/parts-not-in-numeric-order; the property text demands 1..10000).
  * offsets accumulate: `layout_contiguous`.
-/
import SwV.Model.C28
import SwV.Spec.C28
import SwV.Gen.C28
import SwV.Lemmas.C19
namespace SwV.Props.C28
open SwV.Model.C19 (Bytes ltB)
open SwV.Model.C28 SwV.Spec.C28 SwV.Lemmas.C19

theorem ltB_cons (a b : Nat) (as bs : Bytes) :
    ltB (a :: as) (b :: bs) = if a < b then true else if b < a then false else ltB as bs := rfl

/-- MAIN: for part numbers up to 9999 the byte order of the entry names is the numeric order. -/
theorem parts_in_numeric_order (a b : Nat) (ha : a ≤ 9999) (hb : b ≤ 9999) :
    ltB (partName a) (partName b) = decide (a < b) := by
  have ha' : a < 10000 := by omega
  have hb' : b < 10000 := by omega
  simp only [partName, pad4, ha', hb', if_true, digit, List.cons_append, List.nil_append, ltB_cons]
  have hs : ltB partSuffix partSuffix = false := ltB_irrefl _
  rw [hs]
  by_cases h : a < b
  · simp only [h, decide_true]
    repeat' split
    all_goals first | rfl | omega
  · simp only [h, decide_false]
    repeat' split
    all_goals first | rfl | omega

theorem partName_inj (a b : Nat) (ha : a ≤ 9999) (hb : b ≤ 9999) (h : partName a = partName b) : a = b := by
  have h1 := parts_in_numeric_order a b ha hb
  have h2 := parts_in_numeric_order b a hb ha
  rw [h, ltB_irrefl] at h1
  rw [← h, ltB_irrefl] at h2
  have : ¬ a < b := by simpa using h1.symm
  have : ¬ b < a := by simpa using h2.symm
  omega

/-- inserting by name = inserting by number, on parts ≤ 9999 -/
theorem insert_agree (p : Part) (hp : p.no ≤ 9999) :
    ∀ l : List Part, (∀ x ∈ l, x.no ≤ 9999) → insertByName p l = insertByNo p l
  | [], _ => rfl
  | x :: xs, h => by
    have hx : x.no ≤ 9999 := h x (by simp)
    have ih := insert_agree p hp xs (fun y hy => h y (by simp [hy]))
    unfold insertByName insertByNo
    rw [parts_in_numeric_order p.no x.no hp hx]
    by_cases h1 : p.no < x.no
    · simp [h1]
    · by_cases h2 : p.no = x.no
      · simp [h2]
      · have : partName p.no ≠ partName x.no := fun he => h2 (partName_inj _ _ hp hx he)
        simp [h1, h2, this, ih]

theorem insertByNo_bound (p : Part) (hp : p.no ≤ 9999) :
    ∀ l : List Part, (∀ x ∈ l, x.no ≤ 9999) → ∀ y ∈ insertByNo p l, y.no ≤ 9999
  | [], _, y, hy => by simp [insertByNo] at hy; rw [hy]; exact hp
  | x :: xs, h, y, hy => by
    unfold insertByNo at hy
    split at hy
    · cases List.mem_cons.1 hy with
      | inl e => rw [e]; exact hp
      | inr e => exact h y e
    · split at hy
      · cases List.mem_cons.1 hy with
        | inl e => rw [e]; exact hp
        | inr e => exact h y (by simp [e])
      · cases List.mem_cons.1 hy with
        | inl e => rw [e]; exact h x (by simp)
        | inr e => exact insertByNo_bound p hp xs (fun z hz => h z (by simp [hz])) y e

/-- the directory listing of ANY sequence of uploaded parts ≤ 9999 (re-uploads included) is the
    ascending-number list: unbounded in the number of parts -/
theorem listing_is_numeric : ∀ ps : List Part, (∀ p ∈ ps, p.no ≤ 9999) →
    ps.foldr insertByName [] = ps.foldr insertByNo [] ∧ ∀ y ∈ ps.foldr insertByNo [], y.no ≤ 9999
  | [], _ => ⟨rfl, by simp⟩
  | p :: ps, h => by
    have hp := h p (by simp)
    obtain ⟨ih, hb⟩ := listing_is_numeric ps (fun x hx => h x (by simp [hx]))
    constructor
    · simp only [List.foldr_cons]
      rw [ih]
      exact insert_agree p hp _ hb
    · simp only [List.foldr_cons]
      exact insertByNo_bound p hp _ hb

/-- the completed object is the specification's object when every part number is ≤ 9999 -/
theorem complete_eq_spec_partial (ps : List Part) (h : ∀ p ∈ ps, p.no ≤ 9999) :
    concatParts (ps.foldr insertByName []) = specComplete ps ∧ orderMatters ps = false := by
  have := (listing_is_numeric ps h).1
  constructor
  · unfold specComplete; rw [this]
  · unfold orderMatters; rw [this]; simp

example : ∀ p ∈ [(⟨1, []⟩ : Part), ⟨9999, []⟩], p.no ≤ 9999 := by decide

/-- NEGATION at 10000 (admitted by the handlers): part 10000 is listed before part 9999 -/
theorem part_10000_sorts_before_9999 : ltB (partName 10000) (partName 9999) = true := by decide

theorem order_matters_witness : orderMatters [⟨9999, [⟨1, 0, 1⟩]⟩, ⟨10000, [⟨2, 0, 1⟩]⟩] = true := by decide

/-- offsets accumulate without gaps -/
theorem layout_contiguous : ∀ (cs : List Nat) (off : Nat),
    (layoutFrom off cs).map (·.2) = cs ∧
    (∀ (i : Nat) (h : i < (layoutFrom off cs).length), ((layoutFrom off cs)[i]).1 = off + (cs.take i).sum)
  | [], off => by simp [layoutFrom]
  | c :: cs, off => by
    obtain ⟨h1, h3⟩ := layout_contiguous cs (off + c)
    refine ⟨by simp [layoutFrom, h1], ?_⟩
    intro i hi
    cases i with
    | zero => simp [layoutFrom]
    | succ j =>
      simp only [layoutFrom, List.getElem_cons_succ, List.take_succ_cons, List.sum_cons]
      rw [h3 j (by simpa [layoutFrom] using hi)]
      omega

/-! ### CopyObject of a source key that holds no object

  FULL statement (false of the code): `∀ st src dst, findObj st src = none → copyObj st src dst` changes nothing
  and the request is refused (S3: NoSuchKey). `CopyObjectHandler` never looks at the status of the filer's
  answer for the source, so the body of the 404 answer (empty) — or the filer's directory listing page when the
  source names a directory — is stored under the destination and 200 is returned. -/

/-- WITNESS (finding CopyObjectHandler/missing-source-creates-empty-object): in an empty bucket, copying the
    missing key "no" to "cp" leaves a 0-byte object "cp" in the model of the code, while the specification
    refuses the copy and the judge names the class -/
theorem copy_of_missing_source_creates_empty_object :
    (copyObj {} [[110, 111]] [[99, 112]]).map (fun r => r.1.objs) = some [⟨[[99, 112]], []⟩] ∧
    specCopy [] [[110, 111]] [[99, 112]] = none ∧
    copyJudge [] [[110, 111]] [[99, 112]] true = some "CopyObjectHandler/missing-source-creates-empty-object" := by decide

/-- WITNESS, same class: the destination may be an EXISTING object, whose bytes are replaced by nothing -/
theorem copy_of_missing_source_truncates_existing_object :
    (copyObj { objs := [⟨[[97]], [⟨2, 0, 20⟩]⟩] } [[110, 111]] [[97]]).map (fun r => r.1.objs) = some [⟨[[97]], []⟩] := by decide

/-- WITNESS (finding CopyObjectHandler/directory-source-stores-filer-listing-page): with only "a/b" stored,
    copying "a" to "cp" stores bytes nobody wrote (the model keeps them opaque) -/
theorem copy_of_directory_source_stores_listing_page :
    copyBody { objs := [⟨[[97], [98]], [⟨7, 0, 100⟩]⟩] } [[97]] = .listingPage ∧
    copyJudge [⟨[[97], [98]], [⟨7, 0, 100⟩]⟩] [[97]] [[99, 112]] true
      = some "CopyObjectHandler/directory-source-stores-filer-listing-page" := by decide

/-- PARTIAL: when the source key holds an object (in model and specification alike) and the destination is stored
    under its own key, the copy is exactly the specification's copy and the judge is silent -/
theorem copy_eq_spec_partial (st : St) (src dst : List Bytes) (ob : Obj)
    (hs : findObj st src = some ob) (ht : putTarget st dst = some dst) :
    (copyObj st src dst).map (fun r => r.1.objs) = specCopy st.objs src dst ∧
    copyJudge st.objs src dst true = none := by
  have hf : st.objs.find? (fun x => x.key == src) = some ob := hs
  simp [copyObj, ht, copyBody, hs, CopyBody.data, specCopy, hf, putObj, specPut, copyJudge]

example : findObj { objs := [⟨[[97]], [⟨2, 0, 20⟩]⟩] } [[97]] = some ⟨[[97]], [⟨2, 0, 20⟩]⟩ ∧
    putTarget { objs := [⟨[[97]], [⟨2, 0, 20⟩]⟩] } [[99, 112]] = some [[99, 112]] := by decide

/-! ### bridges to the source (regenerated by the extractor on every run) -/

theorem bridge_max_part_id : SwV.Gen.C28.globalMaxPartID = (maxPartID : Int) := by decide
theorem bridge_limit_cond : SwV.Gen.C28.putPartLimitCond = "partID > globalMaxPartID" := by decide
theorem bridge_part_format :
    SwV.Gen.C28.putPartUrlFormat = "\"http://%s%s/%s/%04d.part?collection=%s\"" ∧
    SwV.Gen.C28.copyPartUrlFormat = SwV.Gen.C28.putPartUrlFormat := by decide
theorem bridge_suffix : SwV.Gen.C28.completeSuffix = "\".part\"" := by decide
/-- the admitted range exceeds what four digits order -/
theorem bridge_limit_exceeds_padding : (9999 : Int) < SwV.Gen.C28.globalMaxPartID := by decide

end SwV.Props.C28
