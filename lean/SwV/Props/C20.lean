/-
C20 — property theorems: chunk garbage collection never deletes referenced data, and deletes
what an operation that asked for data deletion left unreferenced.

`Referenced s c`: some stored name shows chunk c through FindEntry. The theorems cover the plain
world (no link identities; every chunk listed by one name: `Plain`, `Excl`, and the client contract
`FreshFor`), for all states and all histories of creates / overwrites / file deletes. Hard-linked
names are where the code violates the property: witnesses below, known findings in
props/C20/findings.json. Directory deletes and renames are covered by the correspondence check.
-/
import SwV.Model.C18
import SwV.Gen.C20
import SwV.Spec.C20
import SwV.Lemmas.C18
import SwV.Lemmas.C20
import SwV.Lemmas.C21
import SwV.Lemmas.C20Batch
import SwV.Lemmas.C20Links
import SwV.Lemmas.C20LinksStep
import SwV.Model.C20Http
import SwV.Lemmas.C20Http
import SwV.Gen.C20Http

namespace SwV.Props.C20
open SwV.Model.C18 SwV.Lemmas.C18 SwV.Lemmas.C20 SwV.Lemmas.C20Batch

/-- file ids handed to the two deletion sinks by one operation -/
def emitted (o : Out) : List Nat := o.q ++ o.d

/-! ### recursive delete (one call) -/

/-- client contract: directories list no chunks -/
def DirNoChunks (s : St) : Prop := ∀ x ∈ s.ents, x.2.isDir = true → x.2.chunks = []

/-- recursive delete (of a file or of a whole directory tree) with data deletion, in the plain world: gc_safe and
    gc_complete hold — exactly the chunks of the removed subtree are handed to the deletion sink -/
theorem gc_recursive_delete (s : St) (inv : TreeInv s) (pl : Plain s) (ex : Excl s) (dn : DirNoChunks s)
    (n : String) (par : RPath) (e : Entry) (h : find s (n :: par) = some e) :
    (deleteEntry s (n :: par) true true).2.1 = Res.ok ∧
    GcOk s (deleteEntry s (n :: par) true true).1 (deleteEntry s (n :: par) true true).2.2 := by
  have inv' : TreeInv (deleteEntry s (n :: par) true true).1 := inv_deleteEntry inv
  rcases deleteEntry_recursive_shape inv n par e h with ⟨s', dcs, heq, hx, hsound, hcomp⟩
  rw [heq] at inv' ⊢
  simp only at inv' ⊢
  rcases find_stored inv h with ⟨e0, hm, _⟩
  have he : e0 = e := by
    have := find_plain inv pl hm
    rw [h] at this
    exact (Option.some.inj this).symm
  subst he
  have pl' : Plain s' := fun y hy => pl y ((hx y).mp hy).1
  refine ⟨trivial, pl', ?_, ?_, ?_⟩
  · intro p1 p2 a b ha hb hne c hc
    exact ex p1 p2 a b ((hx _).mp ha).1 ((hx _).mp hb).1 hne c hc
  · intro c hc hr
    rcases (referenced_plain inv' pl' c).mp hr with ⟨q, b, hq, hcb⟩
    rcases (hx (q, b)).mp hq with ⟨hq', hnot⟩
    rcases List.mem_append.mp hc with hc | hc
    · exact ex (n :: par) q e0 b hm hq' (fun hh => hnot (hh ▸ List.suffix_refl _)) c hc hcb
    · rcases hsound c hc with ⟨q0, b0, hq0, hpd, hcb0⟩
      exact ex q0 q b0 b hq0 hq' (fun hh => hnot (hh ▸ hpd.1)) c hcb0 hcb
  · intro c hc hnc
    rcases (referenced_plain inv pl c).mp hc with ⟨q, b, hq, hcb⟩
    by_cases hsuf : (n :: par) <:+ q
    · by_cases hqp : q = n :: par
      · subst hqp
        rw [mem_unique inv.nodup hq hm] at hcb
        exact List.mem_append_left _ hcb
      · refine List.mem_append_right _ ?_
        cases hbd : b.isDir with
        | true => rw [dn _ hq hbd] at hcb; simp at hcb
        | false => exact hcomp q b hq ⟨hsuf, hqp⟩ hbd (pl _ hq) c hcb
    · exact absurd ((referenced_plain inv' pl' c).mpr ⟨q, b, (hx (q, b)).mpr ⟨hq, hsuf⟩, hcb⟩) hnc

/-! ### one step of the plain world -/

/-- what a create / delete can leave in the store -/
theorem mem_createEntry {s : St} {p : RPath} {e : Entry} {x : Bool} (inv : TreeInv s) :
    ∀ y ∈ (createEntry s p e x).1.ents, y ∈ s.ents ∨ y.2.chunks = [] ∨ y = (p, e) := by
  unfold createEntry
  split
  · intro y hy; exact Or.inl hy
  · rename_i n par
    split
    · have N := ensureParent_new_are_dirs e par s inv
      rcases hr : ensureParent e par s with ⟨s1, b⟩
      rw [hr] at N
      cases b with
      | false =>
        intro y hy
        rcases N y hy with h | h
        · exact Or.inl h
        · exact Or.inr (Or.inl h.1)
      | true =>
        intro y hy
        rcases mem_wInsert.mp hy with h | ⟨h, _⟩
        · exact Or.inr (Or.inr h)
        · rcases N y h with h' | h'
          · exact Or.inl h'
          · exact Or.inr (Or.inl h'.1)
    · split
      · intro y hy; exact Or.inl hy
      · split
        · intro y hy; exact Or.inl hy
        · intro y hy
          rcases mem_wInsert.mp hy with h | ⟨h, _⟩
          · exact Or.inr (Or.inr h)
          · exact Or.inl h

theorem dirNoChunks_createEntry {s : St} {p : RPath} {e : Entry} {x : Bool} (inv : TreeInv s) (dn : DirNoChunks s)
    (he : e.isDir = true → e.chunks = []) : DirNoChunks (createEntry s p e x).1 := by
  intro y hy hd
  rcases mem_createEntry inv y hy with h | h | h
  · exact dn y h hd
  · exact h
  · subst h; exact he hd

/-- operations of the plain world: create / overwrite a name with an entry whose chunks no OTHER name lists (a
    directory entry lists none); delete a file, or delete anything recursively, with data deletion -/
def PlainOk (s : St) : Op → Prop
  | .create p e _ => e.hl = 0 ∧ FreshFor s p e ∧ (e.isDir = true → e.chunks = [])
  | .delete p r _ dc => dc = true ∧ ∃ n par a, p = n :: par ∧ find s p = some a ∧ (a.isDir = false ∨ r = true)
  | _ => False

/-- one step: the world stays plain and exclusive, gc_safe and gc_complete hold for the step -/
theorem gc_step (s : St) (op : Op) (inv : TreeInv s) (pl : Plain s) (ex : Excl s) (dn : DirNoChunks s) (ok : PlainOk s op) :
    GcOk s (step s op).1 (emitted (step s op).2) ∧ DirNoChunks (step s op).1 := by
  cases op with
  | create p e x =>
    have := gcOk_createEntry inv pl ex p e x ok.1 ok.2.1
    have hdn := dirNoChunks_createEntry (p := p) (x := x) inv dn ok.2.2
    simp only [step, emitted]
    rcases hc : createEntry s p e x with ⟨s', r, q⟩
    rw [hc] at this hdn
    exact ⟨by simpa using this, hdn⟩
  | delete p r i dc =>
    rcases ok with ⟨hdc, n, par, a, hp, hf, hk⟩
    subst hdc
    subst hp
    have hdn : DirNoChunks (deleteEntry s (n :: par) r true).1 :=
      fun y hy hd => dn y (deleteEntry_subset inv y hy) hd
    have hg : GcOk s (deleteEntry s (n :: par) r true).1 (deleteEntry s (n :: par) r true).2.2 := by
      rcases hk with hfile | hrec
      · rcases find_stored inv hf with ⟨a0, hm, hk0⟩
        exact (gcOk_deleteFile inv pl ex n par a0 hm (by rw [hk0, hfile]) r).2
      · subst hrec
        exact (gc_recursive_delete s inv pl ex dn n par a hf).2
    simp only [step, emitted]
    rcases hc : deleteEntry s (n :: par) r true with ⟨s', r', d⟩
    rw [hc] at hg hdn
    exact ⟨by simpa using hg, hdn⟩
  | update p e => exact absurd ok (by simp [PlainOk])
  | write p t c => exact absurd ok (by simp [PlainOk])
  | link a b h => exact absurd ok (by simp [PlainOk])
  | unlink p => exact absurd ok (by simp [PlainOk])
  | rename a b => exact absurd ok (by simp [PlainOk])

/-- gc_safe (one step): nothing handed to a deletion sink is referenced by a live name afterwards -/
theorem gc_safe (s : St) (op : Op) (inv : TreeInv s) (pl : Plain s) (ex : Excl s) (dn : DirNoChunks s) (ok : PlainOk s op) :
    ∀ c ∈ emitted (step s op).2, ¬ Referenced (step s op).1 c :=
  (gc_step s op inv pl ex dn ok).1.2.2.1

/-- gc_complete (one step): every chunk that stopped being referenced was handed to a deletion sink -/
theorem gc_complete (s : St) (op : Op) (inv : TreeInv s) (pl : Plain s) (ex : Excl s) (dn : DirNoChunks s) (ok : PlainOk s op) :
    ∀ c, Referenced s c → ¬ Referenced (step s op).1 c → c ∈ emitted (step s op).2 :=
  (gc_step s op inv pl ex dn ok).1.2.2.2

/-- overwrite with shared chunks (append, partial rewrite): exactly the chunks the new version no longer lists are queued -/
theorem overwrite_emits_exactly (s : St) (n : String) (par : RPath) (e old : Entry)
    (h : find s (n :: par) = some old) (hk : old.isDir = e.isDir) :
    ∀ c, c ∈ (createEntry s (n :: par) e false).2.2 ↔ c ∈ old.chunks ∧ c ∉ e.chunks := by
  intro c
  simp [createEntry, h, hk, mem_notNew]

/-! ### histories -/

def AllowedRun : St → List Op → Prop
  | _, [] => True
  | s, op :: t => PlainOk s op ∧ AllowedRun (step s op).1 t

/-- gc_safe and gc_complete hold at every step of the history -/
def SafeRun : St → List Op → Prop
  | _, [] => True
  | s, op :: t =>
    (∀ c ∈ emitted (step s op).2, ¬ Referenced (step s op).1 c) ∧
    (∀ c, Referenced s c → ¬ Referenced (step s op).1 c → c ∈ emitted (step s op).2) ∧
    SafeRun (step s op).1 t

theorem plainOk_opOk (s : St) (op : Op) (h : PlainOk s op) : OpOk op := by
  cases op with
  | create p e x => intro _; exact h.1
  | update p e => exact absurd h (by simp [PlainOk])
  | _ => simp [OpOk]

/-- MAIN: along ANY history of creates / overwrites (with chunks shared between versions) / file deletes / recursive
    deletes of whole trees that respects the client contract, no chunk handed to a deletion sink is still referenced,
    and every chunk that stops being referenced is handed over — at every step (induction over the history;
    `Plain`/`Excl`/`DirNoChunks` are the invariant) -/
theorem gc_history (ops : List Op) : ∀ s, TreeInv s → Plain s → Excl s → DirNoChunks s → AllowedRun s ops →
    SafeRun s ops ∧ Plain (run s ops) ∧ Excl (run s ops) := by
  induction ops with
  | nil => intro s _ pl ex _ _; exact ⟨trivial, pl, ex⟩
  | cons op t ih =>
    intro s inv pl ex dn ok
    have G := gc_step s op inv pl ex dn ok.1
    have IH := ih _ (inv_step inv (plainOk_opOk s op ok.1)) G.1.1 G.1.2.1 G.2 ok.2
    exact ⟨⟨G.1.2.2.1, G.1.2.2.2, IH.1⟩, IH.2⟩

theorem gc_history_from_empty (ops : List Op) (ok : AllowedRun {} ops) : SafeRun {} ops :=
  (gc_history ops {} inv_empty (by intro x hx; simp at hx) (by intro p q a b ha; simp at ha)
    (by intro x hx; simp at hx) ok).1

example : AllowedRun {} [.create ["a"] { isDir := false, tag := 1, chunks := [1, 2], hl := 0, cnt := 0 } false] := by
  refine ⟨⟨rfl, ?_, by simp⟩, trivial⟩
  intro q b hb
  simp at hb

/-! ### hard-linked names under the client protocol -/

open SwV.Lemmas.C21 in
/-- the client's unlink (weed/filesys removeOneFile: data deletion only when the counter says "last name"):
    in a consistent state the shared chunks are handed to the deletion sink exactly when the LAST name of the
    identity goes; unlinking one of several names hands over nothing -/
theorem unlink_emits_exactly_at_last_name (s : St) (inv : TreeInv s) (c : ConsAll s) (n : String) (par : RPath) (ex : Entry)
    (hm : (n :: par, ex) ∈ s.ents) (hk : ex.hl ≠ 0) :
    ∃ r, kvGet s ex.hl = some r ∧
      (nameCount s.ents ex.hl = 1 → (step s (.unlink (n :: par))).2.d = r.chunks) ∧
      (1 < nameCount s.ents ex.hl → (step s (.unlink (n :: par))).2.d = []) := by
  rcases (find_of_cons inv hm).2 hk (c _ hk) with ⟨r, hg, hf, hrl, hrf, hrc⟩
  refine ⟨r, hg, ?_, ?_⟩
  · intro h1
    have hle : r.cnt ≤ 1 := by rw [hrc, h1]; decide
    simp [step, hf, deleteEntry, hrf, hle]
  · intro h1
    have hle : ¬ r.cnt ≤ 1 := by rw [hrc]; omega
    simp [step, hf, deleteEntry, hrf, hle]

/-! ### histories WITH hard links

`gc_history` above lives in the plain world. Here every stored name may carry a link identity. The invariant is
`TreeInv` ∧ `ConsAll` (every identity's record counts its names, Lemmas/C21) ∧ `ExclL` (a chunk is shown by one plain
name or by the names of ONE identity). The operations are the ones that are not recorded findings: -/

open SwV.Lemmas.C20Links SwV.Lemmas.C21 in
/-- operations of the link world. Excluded = the recorded findings (and what the theorem does not model):
    a plain create over a linked name (create/deletes-chunk-of-live-hardlink), DeleteEntryMetaAndData with data deletion
    on a linked name that is not the last one (delete/deletes-chunk-of-live-hardlink), recursive deletes over links
    (delete/chunk-of-removed-hardlink-not-deleted) and renames (rename/…); directory deletes, renames and UpdateEntry
    are left to `gc_history`, the judge and the correspondence check.
    Client contract: new content is not shown by a name of another owner (`FreshL`; sharing with the old version is
    fine), a plain file gets an unused non-zero identity when first linked (`LinkFresh`). -/
def LinkOk (s : St) : Op → Prop
  | .create p e _ => e.hl = 0 ∧ (∀ a, (p, a) ∈ s.ents → a.hl = 0) ∧ FreshL s p e.chunks
  | .write p _ chunks => FreshL s p chunks
  | .link src _ h => LinkFresh s src h
  | .unlink p => ∀ o, find s p = some o → o.isDir = false
  | .delete p _ _ dc => (∀ o, find s p = some o → o.isDir = false) ∧
      (dc = true → ∀ a, (p, a) ∈ s.ents → a.hl ≠ 0 → nameCount s.ents a.hl = 1)
  | .update _ _ => False
  | .rename _ _ => False

open SwV.Lemmas.C20Links SwV.Lemmas.C21 in
theorem linkOk_opOk (s : St) (op : Op) (h : LinkOk s op) : OpOk op := by
  cases op with
  | create p e x => intro _; exact h.1
  | update p e => exact absurd h (by simp [LinkOk])
  | _ => simp [OpOk]

open SwV.Lemmas.C20Links SwV.Lemmas.C21 in
theorem consAll_step_links (s : St) (op : Op) (inv : TreeInv s) (c : ConsAll s) (ok : LinkOk s op) : ConsAll (step s op).1 := by
  cases op with
  | create p e x => exact consAll_create_plain inv c p e x ok.1 ok.2.1
  | write p t ch => exact consAll_write inv c p t ch
  | link a b h => exact consAll_link inv c a b h ok
  | unlink p => exact consAll_unlink inv c p ok
  | delete p r i dc => exact consAll_delete_file inv c p r i dc ok.1
  | update p e => exact absurd ok (by simp [LinkOk])
  | rename a b => exact absurd ok (by simp [LinkOk])

open SwV.Lemmas.C20Links SwV.Lemmas.C21 in
/-- one step on the `Shows` level: ownership is kept, nothing handed over is still shown, and — when the operation asked
    for data deletion (`requestsDeletion` of the judge) — everything that is no longer shown was handed over -/
theorem gcS_step (s : St) (op : Op) (inv : TreeInv s) (c : ConsAll s) (ex : ExclL s) (ok : LinkOk s op) :
    GcS s (step s op).1 (emitted (step s op).2) (SwV.Spec.C20.requestsDeletion s op) := by
  cases op with
  | create p e x =>
    have := gcS_createEntry_plain inv ex p e x ok.1 ok.2.1 ok.2.2 true
    simp only [step, emitted, SwV.Spec.C20.requestsDeletion]
    rcases hc : createEntry s p e x with ⟨s', r, q⟩
    rw [hc] at this
    simpa using this
  | write p tag chunks =>
    simp only [SwV.Spec.C20.requestsDeletion]
    cases hf : find s p with
    | none =>
      have := gcS_createEntry_plain inv ex p { isDir := false, tag := tag, chunks := chunks, hl := 0, cnt := 0 } false rfl
        (fun a ha => absurd ha (find_none inv hf a)) ok true
      simp only [step, hf, emitted]
      rcases hc : createEntry s p { isDir := false, tag := tag, chunks := chunks, hl := 0, cnt := 0 } false with ⟨s', r, q⟩
      rw [hc] at this
      simpa using this
    | some o =>
      rcases find_stored inv hf with ⟨a, hm, _⟩
      have key : GcS s (createEntry s p { isDir := false, tag := tag, chunks := chunks, hl := o.hl, cnt := o.cnt } false).1
          (createEntry s p { isDir := false, tag := tag, chunks := chunks, hl := o.hl, cnt := o.cnt } false).2.2 true := by
        by_cases h0 : a.hl = 0
        · have ho : o = a := by
            have := (find_of_cons inv hm).1 h0
            rw [hf] at this
            exact Option.some.inj this
          subst ho
          exact gcS_createEntry_plain inv ex p { isDir := false, tag := tag, chunks := chunks, hl := o.hl, cnt := o.cnt } false h0
            (fun a' ha' => by rw [mem_unique inv.nodup ha' hm]; exact h0) ok true
        · cases p with
          | nil => exact absurd rfl (inv.parent _ hm).1
          | cons n par => exact gcS_createEntry_linked inv c ex n par a o tag chunks hm h0 hf ok true
      simp only [step, hf, emitted]
      rcases hc : createEntry s p { isDir := false, tag := tag, chunks := chunks, hl := o.hl, cnt := o.cnt } false with ⟨s', r, q⟩
      rw [hc] at key
      simpa using key
  | link a b h =>
    have := gcS_linkOp inv c ex a b h ok false
    simp only [step, emitted, SwV.Spec.C20.requestsDeletion]
    rcases hc : linkOp s a b h with ⟨s', r, q⟩
    rw [hc] at this
    simpa using this
  | unlink p =>
    cases hf : find s p with
    | none =>
      simp only [step, hf, emitted, SwV.Spec.C20.requestsDeletion]
      exact gcS_refl ex _
    | some o =>
      have hreq : SwV.Spec.C20.requestsDeletion s (.unlink p) = decide (o.cnt ≤ 1) := by
        simp [SwV.Spec.C20.requestsDeletion, hf]
      rw [hreq]
      cases p with
      | nil =>
        simp only [step, hf, emitted, deleteEntry]
        exact gcS_refl ex _
      | cons n par =>
        rcases find_stored inv hf with ⟨a, hm, _⟩
        have := gcS_deleteFile inv c ex n par a o hm hf (ok o hf) false (decide (o.cnt ≤ 1)) (by
          intro hdc hk
          rcases (find_of_cons inv hm).2 hk (c _ hk) with ⟨r, _, hfr, _, _, hrc⟩
          rw [hf] at hfr
          rw [Option.some.inj hfr] at hdc
          have : r.cnt ≤ 1 := by simpa using hdc
          omega)
        simp only [step, hf, emitted]
        rcases hc : deleteEntry s (n :: par) false (decide (o.cnt ≤ 1)) with ⟨s', r, d⟩
        rw [hc] at this
        simpa using this
  | delete p r i dc =>
    simp only [SwV.Spec.C20.requestsDeletion]
    cases p with
    | nil =>
      simp only [step, emitted, deleteEntry]
      exact gcS_refl ex _
    | cons n par =>
      cases hf : find s (n :: par) with
      | none =>
        simp only [step, emitted, deleteEntry, hf]
        exact gcS_refl ex _
      | some o =>
        rcases find_stored inv hf with ⟨a, hm, _⟩
        have := gcS_deleteFile inv c ex n par a o hm hf (ok.1 o hf) r dc (by
          intro hdc hk
          rw [ok.2 hdc a hm hk]
          exact Nat.le_refl 1)
        simp only [step, emitted]
        rcases hc : deleteEntry s (n :: par) r dc with ⟨s', r', d⟩
        rw [hc] at this
        simpa using this
  | update p e => exact absurd ok (by simp [LinkOk])
  | rename a b => exact absurd ok (by simp [LinkOk])

open SwV.Lemmas.C20Links SwV.Lemmas.C21 in
/-- one step of the link world: the invariant is kept, gc_safe holds, and gc_complete holds whenever the operation asked
    for data deletion -/
theorem gc_step_links (s : St) (op : Op) (inv : TreeInv s) (c : ConsAll s) (ex : ExclL s) (ok : LinkOk s op) :
    TreeInv (step s op).1 ∧ ConsAll (step s op).1 ∧ ExclL (step s op).1 ∧
    (∀ ch ∈ emitted (step s op).2, ¬ Referenced (step s op).1 ch) ∧
    (SwV.Spec.C20.requestsDeletion s op = true →
      ∀ ch, Referenced s ch → ¬ Referenced (step s op).1 ch → ch ∈ emitted (step s op).2) := by
  have inv' := inv_step inv (linkOk_opOk s op ok)
  have c' := consAll_step_links s op inv c ok
  have G := gcS_step s op inv c ex ok
  refine ⟨inv', c', G.1, ?_, ?_⟩
  · intro ch hch hr
    exact G.2.1 ch hch ((referenced_shows inv' c' ch).mp hr)
  · intro hreq ch hr hn
    exact G.2.2 hreq ch ((referenced_shows inv c ch).mp hr) (fun h => hn ((referenced_shows inv' c' ch).mpr h))

open SwV.Lemmas.C20Links SwV.Lemmas.C21 in
def AllowedRunL : St → List Op → Prop
  | _, [] => True
  | s, op :: t => LinkOk s op ∧ AllowedRunL (step s op).1 t

/-- gc_safe at every step; gc_complete at every step that asked for data deletion (the judge's `requestsDeletion`:
    overwrites always, deletes when told to, the client's unlink when the counter says "last name") -/
def SafeRunL : St → List Op → Prop
  | _, [] => True
  | s, op :: t =>
    (∀ c ∈ emitted (step s op).2, ¬ Referenced (step s op).1 c) ∧
    (SwV.Spec.C20.requestsDeletion s op = true →
      ∀ c, Referenced s c → ¬ Referenced (step s op).1 c → c ∈ emitted (step s op).2) ∧
    SafeRunL (step s op).1 t

open SwV.Lemmas.C20Links SwV.Lemmas.C21 in
/-- FULL-STRENGTH statement: gc_safe ∧ gc_complete at every step of EVERY history. False (witnesses below: delete of one
    linked name with data deletion, plain create / rename over a linked name, recursive delete over links).
    PARTIAL (hypothesis `AllowedRunL` = the history avoids those recorded classes and respects the client contract):
    along any history of creates / overwrites, writes through plain AND linked names, links, unlinks (last name or not)
    and file deletes, no chunk handed to a deletion sink is still referenced by a live name — directly or through a hard
    link — and every chunk that stops being referenced by an operation that asked for data deletion is handed over;
    at every step. Induction over the history; invariant `TreeInv` ∧ `ConsAll` ∧ `ExclL`. -/
theorem gc_history_links_partial (ops : List Op) : ∀ s, TreeInv s → ConsAll s → ExclL s → AllowedRunL s ops →
    SafeRunL s ops ∧ TreeInv (run s ops) ∧ ConsAll (run s ops) ∧ ExclL (run s ops) := by
  induction ops with
  | nil => intro s inv c ex _; exact ⟨trivial, inv, c, ex⟩
  | cons op t ih =>
    intro s inv c ex ok
    have G := gc_step_links s op inv c ex ok.1
    have IH := ih _ G.1 G.2.1 G.2.2.1 ok.2
    exact ⟨⟨G.2.2.2.1, G.2.2.2.2, IH.1⟩, IH.2⟩

open SwV.Lemmas.C20Links SwV.Lemmas.C21 in
theorem gc_history_links_from_empty (ops : List Op) (ok : AllowedRunL {} ops) : SafeRunL {} ops :=
  (gc_history_links_partial ops {} inv_empty
    (by intro h _; simp [Cons, kvGet, nameCount])
    (by rintro p q k k' cs cs' ⟨e, hm, _⟩; simp at hm) ok).1

/-- non-vacuity: create /a (chunk 1), link it to /b with the fresh identity 7, unlink /a (nothing handed over: /b still
    shows chunk 1), unlink /b (the last name: chunk 1 handed to the deletion sink) -/
def linkHistory : List Op := [
  .create ["a"] { isDir := false, tag := 1, chunks := [1], hl := 0, cnt := 0 } false,
  .link ["a"] ["b"] 7,
  .unlink ["a"],
  .unlink ["b"]]

theorem file_of_find_all (s : St) (p : RPath) (h : ((find s p).all fun o => !o.isDir) = true) :
    ∀ o, find s p = some o → o.isDir = false := by
  intro o ho
  rw [ho] at h
  simpa using h

open SwV.Lemmas.C20Links SwV.Lemmas.C21 in
example : AllowedRunL {} linkHistory ∧
    emitted (step (run {} (linkHistory.take 2)) (.unlink ["a"])).2 = [] ∧
    emitted (step (run {} (linkHistory.take 3)) (.unlink ["b"])).2 = [1] := by
  refine ⟨⟨⟨rfl, (fun a h => by cases h), ?_⟩, ?_, ?_, ?_, trivial⟩, by decide, by decide⟩
  · rintro q k' cs' ⟨e, hm, _⟩
    cases hm
  · intro ex _ _
    exact ⟨by decide, by decide⟩
  · exact file_of_find_all _ _ (by decide)
  · exact file_of_find_all _ _ (by decide)

/-! ### what is NOT true of the code (known findings): witnesses

FULL-STRENGTH statements: gc_safe and gc_complete for EVERY operation in EVERY reachable state. False once link
identities are involved: -/

def linkedPair : St := run {} [.create ["a"] { isDir := false, tag := 1, chunks := [1], hl := 0, cnt := 0 } false, .link ["a"] ["b"] 1]

/-- delete/deletes-chunk-of-live-hardlink: deleting ONE name with data deletion direct-deletes the shared chunk 1,
    which the other name still shows -/
theorem delete_linked_name_witness :
    (step linkedPair (.delete ["b"] false false true)).2.d = [1] ∧
    (find (step linkedPair (.delete ["b"] false false true)).1 ["a"]).map (·.chunks) = some [1] := by decide

/-- create/deletes-chunk-of-live-hardlink: a plain entry written over a linked name queues the shared chunk -/
theorem overwrite_linked_name_witness :
    let r := step linkedPair (.create ["a"] { isDir := false, tag := 4, chunks := [2], hl := 0, cnt := 0 } false)
    r.2.q = [1] ∧ (find r.1 ["b"]).map (·.chunks) = some [1] := by decide

/-- delete/chunk-of-removed-hardlink-not-deleted: recursive delete of the directory holding every name of an
    identity removes names and record, and hands nothing to a sink -/
theorem recursive_delete_leaks_witness :
    let s := run {} [.create ["c", "a"] { isDir := false, tag := 1, chunks := [1], hl := 0, cnt := 0 } false, .link ["c", "a"] ["b", "a"] 1]
    let r := step s (.delete ["a"] true false true)
    r.2.d = [] ∧ r.1.ents = [] ∧ kvGet r.1 1 = none ∧ (find s ["c", "a"]).map (·.chunks) = some [1] := by decide

/-- rename/deletes-chunk-of-copy-that-lost-its-link: /a/b and /b/c are names of identity 1 (chunk 1); renaming /a into /b
    moves /a/b to /b/b as a plain copy and /a/c over /b/c, queues chunk 1 — and /b/b still lists it -/
theorem rename_merge_deletes_copied_chunk_witness :
    let s := run {} [.create ["b", "a"] { isDir := false, tag := 1, chunks := [1], hl := 0, cnt := 0 } false,
                     .create ["b"] { isDir := true, tag := 5, chunks := [], hl := 0, cnt := 0 } false,
                     .link ["b", "a"] ["c", "b"] 1,
                     .create ["c", "a"] { isDir := false, tag := 2, chunks := [2], hl := 0, cnt := 0 } false]
    let r := step s (.rename ["a"] ["b"])
    r.2.res = Res.ok ∧ r.2.q = [1] ∧ (find r.1 ["b", "b"]).map (fun e => (e.chunks, e.hl)) = some ([1], 0) := by decide

/-! ### tie to the source (T1): the Go functions this model mirrors are the ones it was written against -/

/-- a source edit of any mirrored function changes its hash and breaks this obligation (the model must then be
    re-read against the code; the correspondence check says whether behaviour changed) -/
theorem bridge_source_pins :
    SwV.Gen.C20.src_deleteChunksIfNotNew = "6b3cb0842e738714" ∧
    SwV.Gen.C20.src_DeleteChunks = "88bfe861e0a50798" ∧
    SwV.Gen.C20.src_DirectDeleteChunks = "5df7fcdecfc7c2e8" ∧
    SwV.Gen.C20.src_maybeDeleteHardLinks = "bf08d6d6b3dd8d8d" ∧
    SwV.Gen.C20.src_DeleteEntryMetaAndData = "d2c3c47d2d5354d7" ∧
    SwV.Gen.C20.src_doBatchDeleteFolderMetaAndData = "b5846477150726cb" := by
  decide

/-! ## the save path of the HTTP write handlers (PUT, PUT ?op=append): failed saves

`SwV.Model.C20Http.save` mirrors `saveMetaData` of weed/server/filer_server_handlers_write_autochunk.go on top of the
namespace model: the request uploads its chunks (`newIds`, ids the master hands out: unused), an append merges them
behind the chunks of the existing entry, the entry goes to Filer.CreateEntry, and when that fails the handler hands
`fileChunks` to Filer.DeleteChunks. The correspondence check runs it against the real handlers (harness variant
"http": in-process master/volume stand-ins, a store shim that can be down for one request). -/

section HttpSave
open SwV.Model.C20Http SwV.Lemmas.C20Http

/-- the chunks some live name shows (directly or through its link record), as a list -/
def refChunks (s : St) : List Nat := s.ents.flatMap fun x => ((find s x.1).map (·.chunks)).getD []

theorem mem_refChunks_of_referenced {s : St} {c : Nat} (h : Referenced s c) : c ∈ refChunks s := by
  rcases h with ⟨p, e, v, hm, hf, hc⟩
  exact List.mem_flatMap.2 ⟨(p, e), hm, by simp [hf, hc]⟩

/-- gc_safe for EVERY failed save — every store, every path, body length, chunk size, inline limit, plain upload or
    append, the store down for the request or Filer.CreateEntry refusing for its own reasons (a parent that is a
    file, a directory in the way): the store is exactly what it was, and nothing handed to the deletion queue is
    shown by a live name (directly or through a hard link). `fresh` = the master hands out ids nobody references. -/
theorem failed_save_gc_safe (s : St) (next : Nat) (r : Req)
    (fresh : ∀ c ∈ newIds next r, ¬ Referenced s c)
    (h : (save s next r).2.stage = .saveFailed) :
    (save s next r).1 = s ∧ ∀ c ∈ (save s next r).2.q, ¬ Referenced (save s next r).1 c := by
  have hf := save_failed h
  refine ⟨hf.1, fun c hc => ?_⟩
  rw [hf.1]
  rw [hf.2.2.1] at hc
  exact fresh c hc

/-- gc_complete for every failed save: the request answers an error and EXACTLY the chunks it uploaded — all of
    them, nothing else — are handed to the deletion queue -/
theorem failed_save_gc_complete (s : St) (next : Nat) (r : Req) (h : (save s next r).2.stage = .saveFailed) :
    (save s next r).2.q = newIds next r ∧ (save s next r).2.uploaded = (newIds next r).length ∧
    (save s next r).2.res = .err :=
  ⟨(save_failed h).2.2.1, (save_failed h).2.2.2, (save_failed h).2.1⟩

/-- while the metadata store refuses writes no request below the root is saved and the store keeps its content
    (with the two theorems above: whatever such a request uploaded is queued, and nothing else is) -/
theorem store_down_never_saves (s : St) (next : Nat) (r : Req) (hd : r.down = true) (hp : r.path ≠ []) :
    (save s next r).2.stage ≠ .saved ∧ (save s next r).1 = s :=
  save_down hd hp

/-- a request that reaches the store (store up, no inline content) IS the namespace operation
    `create (targetPath …) (entryToSave …)`: same store afterwards, and when it is saved the same chunks are queued —
    so gc_step / gc_history above speak about saved HTTP writes too -/
theorem saved_is_createEntry (s : St) (next : Nat) (r : Req) (e : Entry) (he : entryToSave s next r = some e)
    (hu : r.down = false) (hi : savesInline s r = false) :
    (save s next r).1 = (step s (.create (targetPath s r.path) e false)).1 ∧
    ((save s next r).2.stage = .saved → (save s next r).2.q = (step s (.create (targetPath s r.path) e false)).2.q) := by
  rw [save_eq, he]
  have hc : saveCall s r e = createEntry s (targetPath s r.path) e false := by simp [saveCall, hu]
  simp only [hc, hi, step]
  rcases createEntry s (targetPath s r.path) e false with ⟨s', res, q⟩
  cases res <;> simp

/-- /a/c written through PUT in three chunks -/
def httpFile : St :=
  (save {} 1000 { append := false, path := ["c", "a"], uid := 3, limit := 0, chunkSize := 8, len := 20, down := false }).1

/-- non-vacuity: an append of 9 bytes onto the three-chunk file while the store is down is a failed save; its two
    chunks 1003, 1004 are fresh, both are queued, the file keeps its three chunks; and a save that fails with the
    store up (PUT below a file) -/
example :
    let r : Req := { append := true, path := ["c", "a"], uid := 3, limit := 0, chunkSize := 8, len := 9, down := true }
    (save httpFile 1003 r).2.stage = .saveFailed ∧ (∀ c ∈ newIds 1003 r, ¬ Referenced httpFile c) ∧
    (save httpFile 1003 r).2.q = [1003, 1004] ∧ (find httpFile ["c", "a"]).map (·.chunks) = some [1000, 1001, 1002] ∧
    (save httpFile 1003 { r with append := false, down := false, path := ["x", "c", "a"] }).2.stage = .saveFailed := by
  refine ⟨by decide, fun c hc hr => ?_, by decide, by decide, by decide⟩
  have h1 := mem_refChunks_of_referenced hr
  have h2 : refChunks httpFile = [1000, 1001, 1002] := by decide
  have h3 : newIds 1003 { append := true, path := ["c", "a"], uid := 3, limit := 0, chunkSize := 8, len := 9, down := true } = [1003, 1004] := by decide
  rw [h2] at h1
  rw [h3] at hc
  simp at h1 hc
  omega

example : (save httpFile 1003 { append := false, path := ["c", "a"], uid := 3, limit := 0, chunkSize := 8, len := 9, down := true }).2.stage ≠ .saved :=
  (store_down_never_saves _ _ _ rfl (by decide)).1

example : (save httpFile 1003 { append := true, path := ["c", "a"], uid := 3, limit := 0, chunkSize := 8, len := 9, down := false }).2.q = [] ∧
    (find (save httpFile 1003 { append := true, path := ["c", "a"], uid := 3, limit := 0, chunkSize := 8, len := 9, down := false }).1 ["c", "a"]).map (·.chunks)
      = some [1000, 1001, 1002, 1003, 1004] := by decide

/-- NOT claimed (and outside the property text, which speaks about chunks that STOPPED being referenced): an append
    onto a file with inline content is refused ("append to small file is not supported yet") AFTER its chunks were
    uploaded; they are neither referenced nor handed to a deletion sink. Witness: -/
theorem refused_append_uploads_unreferenced_witness :
    let s := (save {} 1000 { append := false, path := ["a"], uid := 6, limit := 16, chunkSize := 8, len := 5, down := false }).1
    let o := save s 1000 { append := true, path := ["a"], uid := 6, limit := 16, chunkSize := 8, len := 20, down := false }
    o.2.stage = Stage.refused ∧ o.2.uploaded = 3 ∧ o.2.q = [] ∧ o.1.ents = s.ents := by decide

/-- T1 tie of the save path (facts regenerated by tools/c20http from weed/server on every run): the cleanup call of
    saveMetaData after a failed save is the ONE call `fs.filer.DeleteChunks(fileChunks)` — the chunks of this request,
    not `entry.Chunks` (which in an append also lists the chunks of the live entry) —, the entry saved is `entry`, an
    append merges `append(entry.Chunks, fileChunks...)`; the model's failed save emits exactly `newIds` -/
theorem bridge_http_save :
    SwV.Gen.C20Http.save_cleanup_arg = "fileChunks" ∧
    SwV.Gen.C20Http.save_cleanup_calls = 1 ∧
    SwV.Gen.C20Http.save_create_arg = "entry" ∧
    SwV.Gen.C20Http.save_failed_cond = "dbErr != nil" ∧
    SwV.Gen.C20Http.save_merge_old = "entry.Chunks" ∧
    SwV.Gen.C20Http.save_merge_new = "fileChunks" ∧
    SwV.Gen.C20Http.save_inline_refuse_cond = "len(entry.Content) > 0" ∧
    SwV.Gen.C20Http.upload_inline_cond = "dataSize < fs.option.SaveToFilerLimit || strings.HasPrefix(r.URL.Path, filer.DirectoryEtcRoot)" ∧
    SwV.Gen.C20Http.upload_first_piece_cond = "chunkOffset == 0 && !isAppend(r)" ∧
    SwV.Gen.C20Http.src_saveMetaData = "6dd0252be60d4eb8" ∧
    SwV.Gen.C20Http.src_doPutAutoChunk = "ad44a5197caf5b0e" ∧
    SwV.Gen.C20Http.src_uploadReaderToChunks = "ed1fc11962c16667" ∧
    (∀ (s : St) (next : Nat) (r : Req), (save s next r).2.stage = .saveFailed → (save s next r).2.q = newIds next r) :=
  ⟨rfl, rfl, rfl, rfl, rfl, rfl, rfl, rfl, rfl, rfl, rfl, rfl, fun _ _ _ h => (save_failed h).2.2.1⟩

end HttpSave

end SwV.Props.C20
