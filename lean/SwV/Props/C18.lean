/-
C18 — property theorems: the filer namespace stays a well-formed tree.

All statements are about the executable model SwV/Model/C18.lean, which the correspondence
check compares with the real Filer (leveldb2) after every operation. `TreeInv` (Lemmas/C18) is
the invariant: the store is a map, parent-closed, directories carry no link id, link records
are files. `OpOk` is the client contract "directories are never given a hard-link id".
-/
import SwV.Model.C18
import SwV.Gen.C18
import SwV.Spec.C18
import SwV.Lemmas.C18
import SwV.Lemmas.C18Rename
import SwV.Lemmas.C18Final

namespace SwV.Props.C18
open SwV.Model.C18 SwV.Spec.C18 SwV.Lemmas.C18

/-! ### the invariant, for ALL operation sequences -/

/-- MAIN: after any sequence of creates, updates, writes, links, unlinks, deletes (recursive or not, with or
    without data) and renames (also failing or diverging ones, which keep what they already did) the store is
    a parent-closed map. By induction over the sequence; every building block of the model preserves `TreeInv`. -/
theorem tree_inv (ops : List Op) (ok : ∀ op ∈ ops, OpOk op) : TreeInv (run {} ops) :=
  inv_run ops {} inv_empty ok

example : ∃ ops : List Op, ops ≠ [] ∧ ∀ op ∈ ops, OpOk op :=
  ⟨[.rename ["a"] ["b"], .create ["a"] { isDir := true, tag := 1, chunks := [], hl := 0, cnt := 0 } false], by simp, by simp [OpOk]⟩

/-- one step, from any state satisfying the invariant -/
theorem tree_inv_step (s : St) (op : Op) (inv : TreeInv s) (ok : OpOk op) : TreeInv (step s op).1 := inv_step inv ok

/-- the invariant implies the judge's predicate `wellFormed` (what the driver checks on the implementation's dump) -/
theorem wellFormed_of_inv (s : St) (inv : TreeInv s) : wellFormed s.ents = true := by
  unfold wellFormed
  rw [List.all_eq_true]
  intro x hx
  have P := inv.parent x hx
  rcases x with ⟨p, e⟩
  cases p with
  | nil => exact absurd rfl P.1
  | cons n par =>
    simp only [List.tail_cons] at P
    rcases P.2 with h | ⟨d, hd, hdir⟩
    · simp [h]
    · simp [lookup_of_mem_nodup inv.nodup hd, hdir]

theorem tree_wellFormed (ops : List Op) (ok : ∀ op ∈ ops, OpOk op) : wellFormed (run {} ops).ents = true :=
  wellFormed_of_inv _ (tree_inv ops ok)

/-- "every entry's ancestors exist and are directories": every proper non-root ancestor q of a stored path -/
theorem tree_ancestors (ops : List Op) (ok : ∀ op ∈ ops, OpOk op) :
    ∀ (p : RPath) (e : Entry), (p, e) ∈ (run {} ops).ents →
    ∀ q : RPath, q ≠ [] → q <:+ p → q ≠ p → ∃ d, (q, d) ∈ (run {} ops).ents ∧ d.isDir = true :=
  ancestors_of_inv (tree_inv ops ok)

/-- a stored file has nothing below it -/
theorem file_has_no_children (s : St) (inv : TreeInv s) (p : RPath) (e : Entry) (hp : (p, e) ∈ s.ents) (hf : e.isDir = false) :
    ∀ x ∈ s.ents, x.1 ≠ [] → x.1.tail ≠ p := by
  intro x hx hne ht
  rcases (inv.parent x hx).2 with h | ⟨d, hd, hdir⟩
  · have := (inv.parent _ hp).1
    rw [ht] at h
    exact this h
  · rw [ht] at hd
    rw [mem_unique inv.nodup hd hp, hf] at hdir
    cases hdir

/-! ### no file ↔ directory flip -/

/-- CreateEntry (plain create, overwrite, O_EXCL, with implicit parent creation) never changes the kind of a stored path -/
theorem no_type_flip_create (s : St) (inv : TreeInv s) (p : RPath) (e : Entry) (x : Bool) (q : RPath) (a b : Entry)
    (ha : (q, a) ∈ s.ents) (hb : (q, b) ∈ (createEntry s p e x).1.ents) : a.isDir = b.isDir :=
  createEntry_type_stable inv ha hb

/-- UpdateEntry never changes the kind of a stored path -/
theorem no_type_flip_update (s : St) (inv : TreeInv s) (p : RPath) (e : Entry) (q : RPath) (a b : Entry)
    (ha : (q, a) ∈ s.ents) (hb : (q, b) ∈ (updateEntry s p e).1.ents) : a.isDir = b.isDir :=
  updateEntry_type_stable inv ha hb

/-- a create of the other kind over an existing path is refused and changes nothing -/
theorem create_other_kind_refused (s : St) (n : String) (par : RPath) (e old : Entry) (x : Bool)
    (h : find s (n :: par) = some old) (hk : old.isDir ≠ e.isDir) :
    createEntry s (n :: par) e x = (s, .err, []) := by
  unfold createEntry
  simp only [h]
  split
  · rfl
  · have : (old.isDir != e.isDir) = true := by simpa using hk
    simp [this]

/-- deletes only remove -/
theorem delete_only_removes (s : St) (inv : TreeInv s) (p : RPath) (r dc : Bool) :
    ∀ x ∈ (deleteEntry s p r dc).1.ents, x ∈ s.ents :=
  deleteEntry_subset inv

/-! ### non-recursive delete of a non-empty directory -/

/-- it fails and changes nothing (state, sinks) -/
theorem delete_nonrecursive_nonempty_refused (s : St) (n : String) (par : RPath) (e : Entry) (dc : Bool)
    (h : find s (n :: par) = some e) (hd : e.isDir = true) (hc : children s (n :: par) ≠ []) :
    deleteEntry s (n :: par) false dc = (s, .err, []) := by
  unfold deleteEntry
  simp only [h, hd, if_true]
  have : (children s (n :: par)).isEmpty = false := by
    cases hcs : children s (n :: par) with
    | nil => exact absurd hcs hc
    | cons a t => rfl
  simp [this]

example : ∃ (s : St) (e : Entry), find s ["a"] = some e ∧ e.isDir = true ∧ children s ["a"] ≠ [] :=
  ⟨run {} [.create ["b", "a"] { isDir := false, tag := 1, chunks := [1], hl := 0, cnt := 0 } false],
   { isDir := true, tag := 1, chunks := [], hl := 0, cnt := 0 }, by decide, by decide, by decide⟩

/-! ### rename into the own subtree

FULL-STRENGTH statement (property text): "renaming a directory into itself or one of its descendants is
refused", i.e. `∀ s src dst e, find s src = some e → src <:+ dst → src ≠ dst → renameEntry s src dst = (s, .err, [])`.
It is FALSE of the model and of the code (known finding rename/into-own-subtree-not-refused): -/

def witnessDir : Entry := { isDir := true, tag := 1, chunks := [], hl := 0, cnt := 0 }
def witnessState : St := run {} [.create ["a"] witnessDir false]

/-- /a → /a/c: the mechanism neither refuses nor finishes: nesting depth 6 is not enough … -/
theorem rename_into_own_subtree_witness :
    find witnessState ["a"] = some witnessDir ∧
    (moveEntry 6 witnessState ["a"] witnessDir ["c", "a"]).2.1 = Res.diverge := by decide

set_option maxRecDepth 100000 in
/-- … nor is the model's full fuel (64 levels; the harness stops the real recursion at depth 40) -/
theorem rename_into_own_subtree_diverges_witness :
    (renameEntry witnessState ["a"] ["c", "a"]).2.1 = Res.diverge := by decide

/-- when a file is on the way, a creation fails: a FILE is never moved below itself -/
theorem ensureParent_below_file (e : Entry) (s : St) (inv : TreeInv s) (src : RPath) (f : Entry)
    (hf : (src, f) ∈ s.ents) (hfile : f.isDir = false) :
    ∀ q : RPath, src <:+ q → ensureParent e q s = (s, false) := by
  intro q
  induction q with
  | nil =>
    intro h
    have := List.suffix_nil.mp h
    exact absurd this (inv.parent _ hf).1
  | cons n q ih =>
    intro h
    unfold ensureParent
    split
    · rename_i d hd
      rcases find_stored inv hd with ⟨d0, hm, hk⟩
      by_cases heq : src = n :: q
      · subst heq
        rw [mem_unique inv.nodup hm hf, hfile] at hk
        rw [← hk]
      · -- src is a proper ancestor of the stored path n :: q, so it is a directory: contradiction
        rcases ancestors_of_inv inv _ _ hm src (inv.parent _ hf).1 h heq with ⟨dd, hdd, hdir⟩
        rw [mem_unique inv.nodup hdd hf, hfile] at hdir
        cases hdir
    · rename_i hnone
      have hne : src ≠ n :: q := by
        intro heq
        subst heq
        exact find_none inv hnone f hf
      rcases List.suffix_cons_iff.mp h with h' | h'
      · exact absurd h' hne
      · rw [ih h']

/-- PARTIAL (hypothesis = the source is not a directory; directories are the known finding):
    renaming a file below itself is refused and changes nothing. -/
theorem rename_into_own_subtree_refused_partial (s : St) (inv : TreeInv s) (src dst : RPath) (e : Entry)
    (h : find s src = some e) (hfile : e.isDir = false) (hsub : src <:+ dst) (hne : src ≠ dst) :
    renameEntry s src dst = (s, .err, []) := by
  rcases find_stored inv h with ⟨f, hf, hk⟩
  have hff : f.isDir = false := by rw [hk, hfile]
  unfold renameEntry renameFuel
  simp only [h]
  unfold moveEntry
  simp only [hne, if_false]
  cases dst with
  | nil => exact absurd (List.suffix_nil.mp hsub) (inv.parent _ hf).1
  | cons n par =>
    have hpar : src <:+ par := by
      rcases List.suffix_cons_iff.mp hsub with h' | h'
      · exact absurd h' hne
      · exact h'
    have hnone : find s (n :: par) = none := by
      cases hfd : find s (n :: par) with
      | none => rfl
      | some d =>
        rcases find_stored inv hfd with ⟨d0, hm, _⟩
        rcases ancestors_of_inv inv _ _ hm src (inv.parent _ hf).1 hsub hne with ⟨dd, hdd, hdir⟩
        rw [mem_unique inv.nodup hdd hf, hff] at hdir
        cases hdir
    unfold createEntry
    simp only [hnone, ensureParent_below_file _ s inv src f hf hff par hpar]

example : ∃ (s : St) (e : Entry), TreeInv s ∧ find s ["a"] = some e ∧ e.isDir = false :=
  ⟨run {} [.create ["a"] { isDir := false, tag := 1, chunks := [1], hl := 0, cnt := 0 } false],
   { isDir := false, tag := 1, chunks := [1], hl := 0, cnt := 0 }, tree_inv _ (by simp [OpOk]), by decide, by decide⟩

/-! ### recursive delete removes exactly the subtree -/

theorem deleteOne_ents (s : St) (p : RPath) (e : Entry) : (deleteOne s p e).ents = erase p s.ents := by
  unfold deleteOne
  split <;> simp

/-- a recursive delete of any existing path succeeds and removes exactly the subtree rooted there: the entry and
    every descendant go, everything else stays as it was (whatever the data-deletion flag) -/
theorem delete_recursive_removes_exactly_subtree (s : St) (inv : TreeInv s) (n : String) (par : RPath) (e : Entry)
    (dc : Bool) (h : find s (n :: par) = some e) :
    (deleteEntry s (n :: par) true dc).2.1 = Res.ok ∧
    ∀ x, x ∈ (deleteEntry s (n :: par) true dc).1.ents ↔ x ∈ s.ents ∧ ¬ (n :: par) <:+ x.1 := by
  rcases find_stored inv h with ⟨e0, hm, hk⟩
  unfold deleteEntry
  simp only [h, Bool.not_true, Bool.false_and, Bool.false_eq_true, if_false]
  by_cases hd : e.isDir = true
  · simp only [hd, if_true]
    have hb : ∀ x ∈ s.ents, (n :: par) <:+ x.1 → x.1.length ≤ (n :: par).length + maxLen s.ents := by
      intro x hx _
      have := length_le_maxLen s.ents x hx
      omega
    rcases doBatch_exact (maxLen s.ents) s (n :: par) inv hb with ⟨r, hr, _, hx⟩
    rcases r with ⟨s1, dcs, hs⟩
    rw [hr]
    have key : ∀ x, x ∈ erase (n :: par) s1.ents ↔ x ∈ s.ents ∧ ¬ (n :: par) <:+ x.1 := by
      intro x
      rw [mem_erase, hx x]
      constructor
      · rintro ⟨⟨h1, h2⟩, h3⟩
        exact ⟨h1, fun hs => h2 ⟨hs, h3⟩⟩
      · rintro ⟨h1, h2⟩
        exact ⟨⟨h1, fun hp => h2 hp.1⟩, fun heq => h2 (heq ▸ List.suffix_refl _)⟩
    cases dc
    · simp only [Bool.false_eq_true, if_false]
      exact ⟨trivial, fun x => by rw [deleteOne_ents]; exact key x⟩
    · simp only [if_true]
      exact ⟨trivial, fun x => by rw [foldl_deleteHardLink_ents, deleteOne_ents]; exact key x⟩
  · have hd' : e.isDir = false := by simpa using hd
    simp only [hd', Bool.false_eq_true, if_false]
    have key : ∀ x, x ∈ erase (n :: par) s.ents ↔ x ∈ s.ents ∧ ¬ (n :: par) <:+ x.1 := by
      intro x
      rw [mem_erase]
      constructor
      · rintro ⟨h1, h2⟩
        refine ⟨h1, ?_⟩
        intro hs
        -- a file has nothing below it
        rcases x with ⟨x1, x2⟩
        rcases ancestors_of_inv inv x1 x2 h1 (n :: par) (by simp) hs (fun hh => h2 hh.symm) with ⟨dd, hdd, hdir⟩
        rw [mem_unique inv.nodup hdd hm, hk, hd'] at hdir
        cases hdir
      · rintro ⟨h1, h2⟩
        exact ⟨h1, fun heq => h2 (heq ▸ List.suffix_refl _)⟩
    cases dc
    · simp only [Bool.false_eq_true, if_false]
      exact ⟨trivial, fun x => by rw [deleteOne_ents]; exact key x⟩
    · simp only [if_true]
      exact ⟨trivial, fun x => by rw [foldl_deleteHardLink_ents, deleteOne_ents]; exact key x⟩

/-- … which is the abstract `specDelete` of the spec (what the judge compares the implementation's dump with) -/
theorem delete_recursive_is_specDelete (s : St) (inv : TreeInv s) (n : String) (par : RPath) (e : Entry)
    (dc : Bool) (h : find s (n :: par) = some e) :
    ∀ x, x ∈ (deleteEntry s (n :: par) true dc).1.ents ↔ x ∈ specDelete s.ents (n :: par) := by
  intro x
  rw [(delete_recursive_removes_exactly_subtree s inv n par e dc h).2 x]
  simp only [specDelete, under, List.mem_filter, Bool.not_eq_true']
  constructor
  · rintro ⟨h1, h2⟩
    refine ⟨h1, ?_⟩
    cases hb : (n :: par).isSuffixOf x.1 with
    | false => rfl
    | true => exact absurd (List.isSuffixOf_iff_suffix.mp hb) h2
  · rintro ⟨h1, h2⟩
    refine ⟨h1, fun hs => ?_⟩
    rw [List.isSuffixOf_iff_suffix.mpr hs] at h2
    cases h2

/-- known finding rename/onto-ancestor-loses-entries: /b/c → /b with /b/c/c present: the rename reports success and
    /b/c/c's image /b/c is gone (FULL-STRENGTH "rename never loses an entry" is false) -/
theorem rename_onto_ancestor_loses_witness :
    let s := run {} [.create ["c", "c", "b"] witnessDir false]
    (s.ents.map (·.1)) = [["c", "c", "b"], ["c", "b"], ["b"]] ∧
    (renameEntry s ["c", "b"] ["b"]).2.1 = Res.ok ∧
    ((renameEntry s ["c", "b"] ["b"]).1.ents.map (·.1)) = [["b"]] := by decide

/-! ### rename moves -/

/-- renaming a plain file to a new name whose directory exists moves exactly that entry: it shows under the new name
    with the same kind, attributes and chunks, is gone from the old one, nothing else changes, nothing is handed to a
    deletion sink (the model of moveSelfEntry: CreateEntry(new) then DeleteEntryMetaAndData(old) without data) -/
theorem rename_file_moves (s : St) (inv : TreeInv s) (src : RPath) (n : String) (par : RPath) (a : Entry)
    (hm : (src, a) ∈ s.ents) (hfile : a.isDir = false) (hplain : a.hl = 0)
    (habs : find s (n :: par) = none)
    (hpar : par = [] ∨ ∃ d, find s par = some d ∧ d.isDir = true) :
    ∃ s', renameEntry s src (n :: par) = (s', .ok, []) ∧ s'.kv = s.kv ∧
      ∀ x, x ∈ s'.ents ↔ x = (n :: par, { a with hl := 0, cnt := 0 }) ∨ (x ∈ s.ents ∧ x.1 ≠ src) := by
  generalize ha' : ({ a with hl := 0, cnt := 0 } : Entry) = a'
  have ha'dir : a'.isDir = false := by rw [← ha']; exact hfile
  have ha'hl : a'.hl = 0 := by rw [← ha']
  have hl := lookup_of_mem_nodup inv.nodup hm
  have hf : find s src = some a := by simp [find, hl, hplain]
  have hne : src ≠ n :: par := by
    intro h; rw [h, habs] at hf; cases hf
  have hens : ensureParent a' par s = (s, true) := by
    cases par with
    | nil => rfl
    | cons m q =>
      rcases hpar with h | ⟨d, hd, hdir⟩
      · cases h
      · unfold ensureParent
        rw [hd]; simp [hdir]
  have hcreate : createEntry s (n :: par) a' false = (wInsert s (n :: par) a', .ok, []) := by
    simp [createEntry, habs, hens]
  have hmem1 : (src, a) ∈ (wInsert s (n :: par) a').ents := mem_wInsert.mpr (Or.inr ⟨hm, hne⟩)
  have inv1 : TreeInv (wInsert s (n :: par) a') := by
    have := inv_createEntry (s := s) (p := n :: par) (e := a') (x := false) inv (by simp [ha'hl])
    rw [hcreate] at this
    exact this
  have hf1 : find (wInsert s (n :: par) a') src = some a := by
    simp [find, lookup_of_mem_nodup inv1.nodup hmem1, hplain]
  have hsrc : ∃ m q, src = m :: q := by
    cases src with
    | nil => exact absurd rfl (inv.parent _ hm).1
    | cons m q => exact ⟨m, q, rfl⟩
  rcases hsrc with ⟨m, q, rfl⟩
  have hdel : deleteEntry (wInsert s (n :: par) a') (m :: q) false false
      = (deleteOne (wInsert s (n :: par) a') (m :: q) a, .ok, []) := by
    simp [deleteEntry, hf1, hfile]
  refine ⟨deleteOne (wInsert s (n :: par) a') (m :: q) a, ?_, ?_, ?_⟩
  · unfold renameEntry renameFuel
    simp only [hf]
    unfold moveEntry
    rw [if_neg hne]
    simp only [ha']
    simp only [hcreate, hfile, Bool.false_eq_true, if_false, hdel, List.append_nil]
  · simp [deleteOne, hplain, wInsert, handleUpdateToHardLinks, ha'hl]
  · intro x
    simp only [deleteOne, hplain, ne_eq, not_true_eq_false, if_false, mem_erase, mem_wInsert]
    constructor
    · rintro ⟨h1 | ⟨h1, _⟩, h2⟩
      · exact Or.inl h1
      · exact Or.inr ⟨h1, h2⟩
    · rintro (h1 | ⟨h1, h2⟩)
      · subst h1
        exact ⟨Or.inl rfl, fun h => hne h.symm⟩
      · refine ⟨Or.inr ⟨h1, ?_⟩, h2⟩
        intro hx
        rcases x with ⟨x1, x2⟩
        simp only at hx
        subst hx
        exact find_none inv habs x2 h1

example : ∃ (s : St) (a : Entry), TreeInv s ∧ (["a"], a) ∈ s.ents ∧ a.isDir = false ∧ a.hl = 0 ∧ find s ["b"] = none :=
  ⟨run {} [.create ["a"] { isDir := false, tag := 1, chunks := [1], hl := 0, cnt := 0 } false],
   { isDir := false, tag := 1, chunks := [1], hl := 0, cnt := 0 }, tree_inv _ (by simp [OpOk]), by decide, rfl, rfl, by decide⟩

/-! ### rename of a DIRECTORY moves the whole subtree

FULL-STRENGTH statement (property text): "a rename moves the whole subtree without loss or duplication", for every
source and target. It is FALSE when the target lies inside the source (`rename_into_own_subtree_diverges_witness`) or
is an ancestor of the source (`rename_onto_ancestor_loses_witness`) — the two recorded findings. Outside these two
classes, for a fresh target whose directory exists, it holds for EVERY store and EVERY subtree: -/

/-- the fuel of the model's recursion is sufficient: with ANY fuel exceeding the height of the source subtree, moveEntry of
    a stored entry (file or directory, with arbitrarily many descendants) to a fresh path that is neither inside nor above
    the source finishes with `ok`, hands nothing to a deletion sink, keeps the invariant (so no path is duplicated) and
    yields exactly the subtree move: every entry under `old` re-rooted under `new`, everything else untouched -/
theorem rename_fuel_sufficient (f : Nat) (s : St) (inv : TreeInv s) (old new : RPath) (e : Entry)
    (hm : (old, e) ∈ s.ents) (hfresh : ∀ c, (new, c) ∉ s.ents) (hnn : new ≠ [])
    (hpar : new.tail = [] ∨ ∃ d, (new.tail, d) ∈ s.ents ∧ d.isDir = true)
    (h1 : ¬ old <:+ new) (h2 : ¬ new <:+ old)
    (hfuel : ∀ x ∈ s.ents, old <:+ x.1 → x.1.length < old.length + f) :
    ∃ s', moveEntry f s old e new = (s', .ok, []) ∧ TreeInv s' ∧
      ∀ x, x ∈ s'.ents ↔ x ∈ specRenameStrip s.ents old new := by
  rcases moveEntry_exact f s old e new inv hm hfresh hnn hpar h1 h2 hfuel with ⟨s', hr, inv', mv⟩
  exact ⟨s', hr, inv', fun x => (mv x).trans mem_specRenameStrip.symm⟩

/-- PARTIAL (hypotheses = the target is fresh with an existing directory, and is neither inside the source nor an ancestor
    of it — the two recorded findings rename/into-own-subtree-not-refused and rename/onto-ancestor-loses-entries; the
    subtree is less than `renameFuel` = 64 levels high, the model's recursion bound): AtomicRenameEntry of a directory
    with any number of descendants succeeds and the resulting store is the spec's subtree move of the old one: every
    path under `src` re-rooted under `dst` (none lost), nothing else changed, no path twice (`TreeInv`), no chunk handed
    to a deletion sink. Moved entries carry no link identity (`strip`: moveSelfEntry clears HardLinkId) -/
theorem rename_dir_moves_subtree_partial (s : St) (inv : TreeInv s) (src dst : RPath) (e : Entry)
    (h : find s src = some e) (hdir : e.isDir = true)
    (hfresh : find s dst = none) (hnn : dst ≠ [])
    (hpar : dst.tail = [] ∨ ∃ d, find s dst.tail = some d ∧ d.isDir = true)
    (h1 : ¬ src <:+ dst) (h2 : ¬ dst <:+ src)
    (hdepth : ∀ x ∈ s.ents, src <:+ x.1 → x.1.length < src.length + renameFuel) :
    ∃ s', renameEntry s src dst = (s', .ok, []) ∧ TreeInv s' ∧
      ∀ x, x ∈ s'.ents ↔ x ∈ specRenameStrip s.ents src dst := by
  rcases find_stored inv h with ⟨e0, hm, hk⟩
  have he : find s src = some e0 := find_dir_of_mem inv hm (by rw [hk, hdir])
  rw [h] at he
  cases he
  have hpar' : dst.tail = [] ∨ ∃ d, (dst.tail, d) ∈ s.ents ∧ d.isDir = true := by
    rcases hpar with h0 | ⟨d, hd, hdd⟩
    · exact Or.inl h0
    · rcases find_stored inv hd with ⟨d0, hd0, hk0⟩
      exact Or.inr ⟨d0, hd0, by rw [hk0, hdd]⟩
  unfold renameEntry
  simp only [h]
  exact rename_fuel_sufficient renameFuel s inv src dst e hm (find_none inv hfresh) hnn hpar' h1 h2 hdepth

/-- … and when the subtree holds no linked name this is literally the judge's `specRename` -/
theorem rename_dir_is_specRename_partial (s : St) (inv : TreeInv s) (src dst : RPath) (e : Entry)
    (h : find s src = some e) (hdir : e.isDir = true)
    (hfresh : find s dst = none) (hnn : dst ≠ [])
    (hpar : dst.tail = [] ∨ ∃ d, find s dst.tail = some d ∧ d.isDir = true)
    (h1 : ¬ src <:+ dst) (h2 : ¬ dst <:+ src)
    (hdepth : ∀ x ∈ s.ents, src <:+ x.1 → x.1.length < src.length + renameFuel)
    (hplain : ∀ x ∈ s.ents, src <:+ x.1 → x.2.hl = 0 ∧ x.2.cnt = 0) :
    ∃ s', renameEntry s src dst = (s', .ok, []) ∧ TreeInv s' ∧
      ∀ x, x ∈ s'.ents ↔ x ∈ specRename s.ents src dst := by
  rcases rename_dir_moves_subtree_partial s inv src dst e h hdir hfresh hnn hpar h1 h2 hdepth with ⟨s', hr, inv', hx⟩
  exact ⟨s', hr, inv', fun x => by rw [hx x, specRenameStrip_eq_specRename hplain]⟩

/-- the moved subtree keeps its size: no entry lost, none duplicated (paths of `s'` are pairwise distinct by `TreeInv`,
    and the spec's move is a `map` of the old store) -/
theorem specRenameStrip_length (l : List (RPath × Entry)) (src dst : RPath) : (specRenameStrip l src dst).length = l.length := by
  simp [specRenameStrip]

def subtreeWitness : St := run {} [
  .create ["b", "a"] { isDir := false, tag := 1, chunks := [1], hl := 0, cnt := 0 } false,
  .create ["e", "d", "c", "a"] { isDir := false, tag := 2, chunks := [2, 3], hl := 0, cnt := 0 } false,
  .create ["x"] { isDir := false, tag := 3, chunks := [4], hl := 0, cnt := 0 } false]

/-- non-vacuity: /a with /a/b, /a/c, /a/c/d, /a/c/d/e (and an unrelated /x) renamed to /z: every hypothesis holds -/
example : TreeInv subtreeWitness ∧ find subtreeWitness ["a"] = some { isDir := true, tag := 1, chunks := [], hl := 0, cnt := 0 }
    ∧ find subtreeWitness ["z"] = none ∧ ¬ ["a"] <:+ ["z"] ∧ ¬ ["z"] <:+ ["a"]
    ∧ (∀ x ∈ subtreeWitness.ents, ["a"] <:+ x.1 → x.1.length < 1 + renameFuel)
    ∧ (∀ x ∈ subtreeWitness.ents, ["a"] <:+ x.1 → x.2.hl = 0 ∧ x.2.cnt = 0)
    ∧ (renameEntry subtreeWitness ["a"] ["z"]).2.1 = Res.ok
    ∧ ((renameEntry subtreeWitness ["a"] ["z"]).1.ents.map (·.1)).length = 6 :=
  ⟨tree_inv _ (by simp [OpOk]), by decide, by decide, by decide, by decide, by decide, by decide, by decide, by decide⟩

/-! ### frame: what the operations cannot touch (for ALL states, flags and outcomes) -/

/-- CreateEntry (with its implicit parent creation) changes nothing except the path itself and its ancestors -/
theorem create_touches_only_path_and_ancestors (s : St) (p : RPath) (e : Entry) (b : Bool) (x : RPath × Entry)
    (hx : ¬ x.1 <:+ p) : x ∈ (createEntry s p e b).1.ents ↔ x ∈ s.ents :=
  createEntry_frame x hx

/-- DeleteEntryMetaAndData (recursive or not, with or without data, succeeding or not) changes nothing outside the subtree -/
theorem delete_touches_only_subtree (s : St) (p : RPath) (r dc : Bool) (x : RPath × Entry)
    (hx : ¬ p <:+ x.1) : x ∈ (deleteEntry s p r dc).1.ents ↔ x ∈ s.ents :=
  deleteEntry_frame x hx

/-- AtomicRenameEntry — finished, failed half-way, or recursing without bound — changes nothing outside the source
    subtree, the target subtree and the target's ancestors: no unrelated entry is lost, duplicated or rewritten -/
theorem rename_touches_only_source_and_target (s : St) (src dst : RPath) (x : RPath × Entry)
    (h1 : ¬ src <:+ x.1) (h2 : ¬ dst <:+ x.1) (h3 : ¬ x.1 <:+ dst) :
    x ∈ (renameEntry s src dst).1.ents ↔ x ∈ s.ents := by
  unfold renameEntry
  split
  · rfl
  · exact moveEntry_frame _ s src _ dst x ⟨h1, h2, h3⟩

/-! ### the final "delete old entry" of a move destroys nothing else

moveSelfEntry ends with `DeleteEntryMetaAndData(oldPath, isRecursive = false, …)`. The model mirrors it
(`deleteEntry s2 old false false`), and that is what keeps a rename from losing entries that were moved back under the
source (rename /a/b /a with a non-empty /a/b/b: the children of /a/b/b land in /a/b): the delete refuses, the rename
reports an error, every entry is still stored once. Stated for every move of the model: -/

/-- when a move of `old ≠ new` reports success, its last step removed exactly ONE stored entry, the path `old`, from the
    state reached after the target was created and the listed children were moved (`beforeFinalDelete`); if that entry
    was a directory it had no children left. Nothing below the source is ever destroyed by the move itself. -/
theorem rename_final_delete_removes_only_source (f : Nat) (s : St) (n : String) (par new : RPath) (e : Entry) (s3 : St)
    (q : List Nat) (hne : n :: par ≠ new) (h : moveEntry (f + 1) s (n :: par) e new = (s3, Res.ok, q)) :
    (∃ e', find (beforeFinalDelete f s (n :: par) e new) (n :: par) = some e' ∧
      (e'.isDir = true → children (beforeFinalDelete f s (n :: par) e new) (n :: par) = [])) ∧
    ∀ x, x ∈ s3.ents ↔ x ∈ (beforeFinalDelete f s (n :: par) e new).ents ∧ x.1 ≠ n :: par :=
  moveEntry_ok_final_delete f s n par new e s3 q hne h

/-- non-vacuity: a successful move of a directory with a child -/
example : ∃ (s s3 : St) (e : Entry) (q : List Nat), ["a"] ≠ ["d"] ∧ moveEntry 3 s ["a"] e ["d"] = (s3, Res.ok, q) :=
  ⟨run {} [.create ["c", "a"] { isDir := false, tag := 1, chunks := [1], hl := 0, cnt := 0 } false], _, witnessDir, _,
    by decide, rfl⟩

/-! ### the judge's two classes for a rename onto an ancestor

`rename/onto-ancestor-loses-entries` (recorded finding) is about images that fall back ONTO the source subtree
(`collidesWithSource`): the child named like the source, deleted as "the old entry", and names colliding below it. A moved
entry whose image is a fresh path and that is gone all the same is judged `rename/more-entries-lost-than-known`
(`lostBeyondKnown`). The model never produces the second class on the scenario that separates them, and does produce the
first on the recorded witnesses: -/

def fileE (t : Nat) (c : List Nat) : Entry := { isDir := false, tag := t, chunks := c, hl := 0, cnt := 0 }

/-- /a/b → /a where /a/b holds a non-empty folder also named b: the children of /a/b/b land back under the source, the
    final non-recursive delete refuses, the rename reports an error, both files are still stored (each once), and the
    judge has no objection -/
theorem rename_onto_parent_refused_keeps_all_witness :
    let s := run {} [.create ["c", "b", "b", "a"] (fileE 2 [7]) false, .create ["x", "b", "a"] (fileE 3 [8]) false]
    let r := renameEntry s ["b", "a"] ["a"]
    r.2.1 = Res.err ∧ r.1.ents.map (·.1) = [["x", "a"], ["c", "b", "a"], ["b", "a"], ["a"]] ∧
    judgeRename s.ents r.1.ents ["b", "a"] ["a"] r.2.1 = [] := by decide

/-- the same rename reporting success with /a/b removed recursively (what a recursive final delete does): /a/b/b/c, whose
    image /a/b/c is a path the source never held, is lost beyond the recorded finding — its own class -/
theorem more_lost_than_known_judged_witness :
    let s := run {} [.create ["c", "b", "b", "a"] (fileE 2 [7]) false, .create ["x", "b", "a"] (fileE 3 [8]) false]
    let post : List (RPath × Entry) := [(["a"], { witnessDir with tag := 2 }), (["x", "a"], fileE 3 [8])]
    (lostBeyondKnown s.ents post ["b", "a"] ["a"]).map (·.1) = [["c", "b", "b", "a"]] ∧
    judgeRename s.ents post ["b", "a"] ["a"] Res.ok =
      ["rename/onto-ancestor-loses-entries", "rename/more-entries-lost-than-known"] := by decide

/-- the recorded witnesses (corpus/C18/witnesses.ops, cases 4 and 6) lose only colliding images: the known class alone -/
theorem known_loss_is_not_beyond_known_witness :
    (let s := run {} [.create ["c", "c", "b"] witnessDir false]
     let r := renameEntry s ["c", "b"] ["b"]
     judgeRename s.ents r.1.ents ["c", "b"] ["b"] r.2.1 = ["rename/onto-ancestor-loses-entries"]) ∧
    (let s := run {} [.create ["c", "b", "b", "a"] (fileE 2 [1]) false, .create ["c", "b", "a"] (fileE 3 [2]) false]
     let r := renameEntry s ["b", "a"] ["a"]
     judgeRename s.ents r.1.ents ["b", "a"] ["a"] r.2.1 = ["rename/onto-ancestor-loses-entries"]) := by decide

/-- the new class is raised for renames onto an ancestor only: under the hypotheses of `rename_dir_is_specRename_partial`
    (`¬ dst <:+ src`) no outcome — in particular none of the model — is judged `rename/more-entries-lost-than-known` -/
theorem more_lost_class_only_onto_ancestor (pre post : List (RPath × Entry)) (src dst : RPath) (res : Res)
    (h2 : ¬ dst <:+ src) : "rename/more-entries-lost-than-known" ∉ judgeRename pre post src dst res := by
  have hu : under dst src = false := by
    cases hb : under dst src with
    | false => rfl
    | true => exact absurd (List.isSuffixOf_iff_suffix.mp hb) h2
  unfold judgeRename
  simp only [hu]
  repeat' split
  all_goals simp_all

example : ¬ (["d"] : RPath) <:+ ["a"] := by decide

/-! ### a create arriving while the rename runs (trace op `renamelate`, model `renameLateEntry` = `moveEntry` plus one hook)

`moveEntryL_id`: with the identity as hook the model of this op is `moveEntry`. The entry arrives in the source folder after
the folder was listed; the final non-recursive delete of the source then refuses: -/

/-- /a/b → /e while /a/b/late is created right after /a/b/c was moved: the rename reports an error, the late file is
    stored under the still existing source, both moved files are stored (under /e), and the judge has no objection -/
theorem rename_with_concurrent_create_keeps_late_witness :
    let s := run {} [.create ["c", "b", "a"] (fileE 3 [1]) false, .create ["x", "b", "a"] (fileE 4 [2]) false]
    let r := renameLateEntry s ["b", "a"] ["e"] ["c", "b", "a"] ["late", "b", "a"] (fileE 9 [5])
    r.2 = true ∧ r.1.2.1 = Res.err ∧ lookup ["late", "b", "a"] r.1.1.ents = some (fileE 9 [5]) ∧
    r.1.1.ents.map (·.1) = [["x", "e"], ["late", "b", "a"], ["c", "e"], ["e"], ["b", "a"], ["a"]] ∧ r.1.1.kv = [] ∧
    judgeRenameLate s ["b", "a"] ["e"] ["late", "b", "a"] r.2
      { res := r.1.2.1, q := [], d := [], post := r.1.1, fview := [], lview := [], complete := true } = [] := by decide

/-- the judge is not vacuous: the same rename reporting success with /a/b gone (a recursive final delete) has lost the
    late file -/
theorem concurrent_create_lost_judged_witness :
    let s := run {} [.create ["c", "b", "a"] (fileE 3 [1]) false, .create ["x", "b", "a"] (fileE 4 [2]) false]
    (judgeRenameLate s ["b", "a"] ["e"] ["late", "b", "a"] true
      { res := Res.ok, q := [], d := [], fview := [], lview := [], complete := true,
        post := { ents := [(["a"], witnessDir), (["e"], witnessDir), (["c", "e"], fileE 3 [1]), (["x", "e"], fileE 4 [2])] } }).map (·.1)
      = ["rename/entry-created-meanwhile-lost"] := by decide

/-- a rename whose source does not exist carries out no create and is not judged for one -/
theorem rename_late_without_source_witness :
    (renameLateEntry {} ["b", "a"] ["e"] ["c", "b", "a"] ["late", "b", "a"] (fileE 9 [5])).2 = false ∧
    judgeRenameLate {} ["b", "a"] ["e"] ["late", "b", "a"] false
      { res := Res.err, q := [], d := [], post := {}, fview := [], lview := [], complete := true } = [] := by decide

/-- the hook-free instance of the concurrent-create model is the rename model -/
theorem rename_late_model_is_rename (trig : RPath) (f : Nat) : moveEntryL trig id f = moveEntry f := moveEntryL_id trig f

/-! ### tie to the source (T1): the Go functions this model mirrors are the ones it was written against -/

/-- a source edit of any mirrored function changes its hash and breaks this obligation (the model must then be
    re-read against the code; the correspondence check says whether behaviour changed) -/
theorem bridge_source_pins :
    SwV.Gen.C18.src_CreateEntry = "91bbddabea3f97c2" ∧
    SwV.Gen.C18.src_ensureParentDirecotryEntry = "e77638f897e9ea72" ∧
    SwV.Gen.C18.src_UpdateEntry = "42f0d53b6e3a8052" ∧
    SwV.Gen.C18.src_DeleteEntryMetaAndData = "d2c3c47d2d5354d7" ∧
    SwV.Gen.C18.src_doBatchDeleteFolderMetaAndData = "b5846477150726cb" ∧
    SwV.Gen.C18.src_doDeleteEntryMetaAndData = "a5d822e33f4086ba" ∧
    SwV.Gen.C18.src_CanRename = "ea321e1e0413b6d7" ∧
    SwV.Gen.C18.src_AtomicRenameEntry = "97247fb01ea393c4" ∧
    SwV.Gen.C18.src_moveEntry = "095ebf593537cd26" ∧
    SwV.Gen.C18.src_moveFolderSubEntries = "7a1303adc67bd7ce" ∧
    SwV.Gen.C18.src_moveSelfEntry = "6fb6d3093248b367" := by
  decide

/-- the model lists a directory in ONE page (universes of the check are far smaller) -/
theorem bridge_pagination : SwV.Gen.C18.PaginationSize = 1024 := by decide

end SwV.Props.C18
