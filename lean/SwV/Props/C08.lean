/-
C08 — property theorems (only theorems here; helper lemmas live in SwV/Lemmas).
Each theorem is about the executable model in SwV/Model/C08.lean, which the
correspondence check ties to the Go code on every run; the `bridge_*` theorems
tie the model to definitions REGENERATED from the Go source (SwV/Gen/C08.lean).
-/
import SwV.Model.C08
import SwV.Spec.C08
import SwV.Gen.C08
import SwV.Lemmas.C08

namespace SwV.Props.C08
open SwV.Model.C08 SwV.Spec.C08 SwV.Lemmas.C08

/-! ### Replica placement -/

/-- every valid placement survives String → FromString -/
theorem rp_string_roundtrip (rp : RP) (h : rpValid rp) : rpFromString (rpString rp) = (rp, true) := by
  rcases rp with ⟨d, r, s⟩
  simp only [rpValid] at h
  have hd : d = 0 ∨ d = 1 ∨ d = 2 := by omega
  have hr : r = 0 ∨ r = 1 ∨ r = 2 := by omega
  have hs : s = 0 ∨ s = 1 ∨ s = 2 := by omega
  rcases hd with rfl | rfl | rfl <;> rcases hr with rfl | rfl | rfl <;> rcases hs with rfl | rfl | rfl <;> decide

/-- every valid placement survives Byte → FromByte -/
theorem rp_byte_roundtrip (rp : RP) (h : rpValid rp) : rpFromByte (rpByte rp) = (rp, true) := by
  rcases rp with ⟨d, r, s⟩
  simp only [rpValid] at h
  have hd : d = 0 ∨ d = 1 ∨ d = 2 := by omega
  have hr : r = 0 ∨ r = 1 ∨ r = 2 := by omega
  have hs : s = 0 ∨ s = 1 ∨ s = 2 := by omega
  rcases hd with rfl | rfl | rfl <;> rcases hr with rfl | rfl | rfl <;> rcases hs with rfl | rfl | rfl <;> decide

/-- every byte is classified: an accepted byte decodes to a valid placement that encodes back to it
    (complete finite table, 256 entries) -/
theorem rp_byte_exact : ∀ b : Fin 256, (rpFromByte b.val).2 = true →
    rpByte (rpFromByte b.val).1 = b.val ∧ rpValid (rpFromByte b.val).1 := by
  decide +kernel

/-- exactly the 27 placement bytes are accepted -/
theorem rp_byte_accepts_27 : ((List.range 256).filter fun b => (rpFromByte b).2).length = 27 := by
  decide +kernel

/-- FULL-STRENGTH statement "an accepted string is the canonical encoding of its value" is FALSE of the
    model (and of the code, see known_findings.json rp/accepts-wrong-length): witness. -/
theorem rp_accepts_wrong_length_witness :
    rpFromString ['1'] = (⟨1, 0, 0⟩, true) ∧ rpString ⟨1, 0, 0⟩ ≠ ['1'] ∧
    rpFromString ['0', '0', '1', '1'] = (⟨0, 0, 1⟩, true) := by decide

/-- … and it holds for strings of the documented length 3 -/
theorem rp_accepts_only_canonical_partial (a b c : Char) (h : (rpFromString [a, b, c]).2 = true) :
    rpString (rpFromString [a, b, c]).1 = [a, b, c] ∧ rpValid (rpFromString [a, b, c]).1 :=
  rp_len3_canonical a b c h

/-! ### TTL -/

theorem ttl_bytes_roundtrip (c u : Nat) : (loadTTLFromBytes c u).count = c ∧ (loadTTLFromBytes c u).unit = u := by
  unfold loadTTLFromBytes; split <;> simp_all

theorem ttl_u32_roundtrip (t : TTL) (hc : t.count ≠ 0) (hc' : t.count < 256) (hu : t.unit < 256) :
    loadTTLFromUint32 (ttlToUint32 t) = t := by
  rcases t with ⟨c, u⟩
  simp only [ttlToUint32, loadTTLFromUint32, loadTTLFromBytes] at *
  simp only [hc, if_false]
  have h1 : (c * 256 + u) / 256 % 256 = c := by omega
  have h2 : (c * 256 + u) % 256 = u := by omega
  rw [h1, h2]; simp [hc]

/-- every storable TTL (count 1..255, unit m/h/d/w/M/y) survives String → ReadTTL: complete finite table -/
theorem ttl_string_roundtrip : ∀ c : Fin 255, ∀ u : Fin 6,
    readTTL (ttlString ⟨c.val + 1, u.val + 1⟩) = (⟨c.val + 1, u.val + 1⟩, true) := by
  decide +kernel

/-- inputs inside the documented grammar decode to their denotation -/
theorem ttl_read_in_grammar (s : List Char) (d : TTL) (h : ttlDenotation s = some d) :
    readTTL s = (d, true) := ttl_in_grammar s d h

/-- FULL-STRENGTH "inputs outside the grammar are rejected" is FALSE (known findings ttl/accepts-*): witnesses -/
theorem ttl_accepts_invalid_witness :
    readTTL "300m".toList = (⟨44, 1⟩, true) ∧ ttlDenotation "300m".toList = none ∧
    readTTL "5x".toList = (⟨5, 0⟩, true) ∧ ttlDenotation "5x".toList = none ∧
    readTTL "-1m".toList = (⟨255, 1⟩, true) ∧ ttlDenotation "-1m".toList = none := by
  decide +kernel

/-! ### Index entries and big-endian fields -/

theorem idx_entry_roundtrip (padding key actual : Nat) (size : Int) (offsetSize : Nat)
    (hw : offsetSize = 4 ∨ offsetSize = 5) (hp : 0 < padding) (ha : actual % padding = 0)
    (hr : actual / padding < 256 ^ offsetSize) (hk : key < 2 ^ 64)
    (hs : -(2 ^ 31 : Int) ≤ size ∧ size < (2 ^ 31 : Int)) :
    idxEntryParse padding offsetSize (idxEntryBytes padding offsetSize key actual size) = (key, actual, size) :=
  idx_roundtrip padding key actual size offsetSize hw hp ha hr hk hs

/-! ### Super block -/

theorem superblock_roundtrip (s : SuperBlock) (hv : s.version < 256) (hrp : rpValid s.rp)
    (hc : s.ttl.count < 256) (hu : s.ttl.unit < 256) (hr : s.rev < 65536) (he : s.extra.length < 65535) :
    sbRead (sbBytes s) = some { s with ttl := loadTTLFromBytes s.ttl.count s.ttl.unit } :=
  sb_roundtrip s hv hrp hc hu hr he

/-! ### File ids -/

/-- key 0 is outside the round-trip domain: the formatter drops all eight zero bytes and the parser
    rejects the remaining 8 characters as too short (needle keys start at 1) -/
theorem fid_key0_witness : parseFid (fidString ⟨3, 0, 5⟩) = none := by decide +kernel

/-- FULL-STRENGTH "volume ids out of range are rejected" is FALSE (known finding fid/accepts-out-of-range-volume-id) -/
theorem fid_accepts_out_of_range_vid_witness :
    parseFid "4294967297,01637037d6".toList = some ⟨1, 1, 0x637037d6⟩ := by decide +kernel

/-- every file id with a non-zero 64-bit key, 32-bit volume id and 32-bit cookie survives String → ParseFileIdFromString -/
theorem fid_roundtrip (vid key cookie : Nat) (hk : 0 < key) (hk' : key < 2 ^ 64) (hv : vid < 2 ^ 32)
    (hc : cookie < 2 ^ 32) : parseFid (fidString ⟨vid, key, cookie⟩) = some ⟨vid, key, cookie⟩ :=
  fid_roundtrip_lemma vid key cookie hk hk' hv hc

/-- non-vacuity of `fid_roundtrip`: its hypotheses are satisfiable -/
example : parseFid (fidString ⟨3, 0x01637037, 0xd6000001⟩) = some ⟨3, 0x01637037, 0xd6000001⟩ :=
  fid_roundtrip 3 0x01637037 0xd6000001 (by decide) (by decide) (by decide) (by decide)

/-! ### Bridges to the regenerated source facts (T1) -/

theorem bridge_entry_size :
    SwV.Gen.C08.NeedleMapEntrySize = SwV.Gen.C08.NeedleIdSize + SwV.Gen.C08.OffsetSize + SwV.Gen.C08.SizeSize ∧
    SwV.Gen.C08.NeedleIdSize = 8 ∧ SwV.Gen.C08.CookieSize = 4 ∧ SwV.Gen.C08.SizeSize = 4 ∧
    (SwV.Gen.C08.OffsetSize = 4 ∨ SwV.Gen.C08.OffsetSize = 5) ∧ SwV.Gen.C08.NeedlePaddingSize = 8 ∧
    SwV.Gen.C08.SuperBlockSize = 8 ∧ SwV.Gen.C08.TombstoneFileSize = -1 := by decide

theorem bridge_rp_byte (dc rack same : Nat) (h : dc < 1000 ∧ rack < 1000 ∧ same < 1000) :
    SwV.Gen.C08.ReplicaPlacement_Byte same rack dc = (rpByte ⟨dc, rack, same⟩ : Nat) := by
  simp only [SwV.Gen.C08.ReplicaPlacement_Byte, rpByte, SwV.Go.wrapS, SwV.Go.wrapU]
  push_cast
  omega

theorem bridge_ttl_minutes (c u : Nat) (hc : c < 256) :
    SwV.Gen.C08.TTL_Minutes c u = (ttlMinutes ⟨c, u⟩ : Nat) := bridge_minutes c u hc

theorem bridge_ttl_u32 (c u : Nat) (hc : c < 256) (hu : u < 256) :
    SwV.Gen.C08.TTL_ToUint32 c u = (ttlToUint32 ⟨c, u⟩ : Nat) := by
  simp only [SwV.Gen.C08.TTL_ToUint32, ttlToUint32, SwV.Go.wrapU, SwV.Go.shl]
  by_cases h : c = 0
  · simp [h]
  · have : ¬ ((c : Int) = 0) := by omega
    simp [h]
    omega

theorem bridge_size_predicates (s : Int) :
    SwV.Gen.C08.Size_IsValid s = decide (0 < s) ∧ SwV.Gen.C08.Size_IsDeleted s = decide (s < 0) := by
  simp only [SwV.Gen.C08.Size_IsValid, SwV.Gen.C08.Size_IsDeleted]
  constructor
  · by_cases h : 0 < s <;> simp [h] <;> omega
  · by_cases h : s < 0 <;> simp [h] <;> omega

/-! ### non-vacuity -/
example : rpValid ⟨2, 1, 0⟩ := by decide
example : ttlDenotation "12h".toList = some ⟨12, 2⟩ := by decide +kernel
example : (rpFromString ['0', '1', '2']).2 = true := by decide

end SwV.Props.C08
