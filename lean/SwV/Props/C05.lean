/-
C05 — property theorems (theorems only; helper lemmas live in SwV/Lemmas/C05{,b,c,d,e,f}.lean).
They are about the model in SwV/Model/C05.lean, which the correspondence check compares with
the real needle_map.CompactMap / storage needle mappers on every call (returned values,
AscendingVisit contents, all counters), under both offset widths.
-/
import SwV.Model.C05
import SwV.Spec.C05
import SwV.Gen.C05
import SwV.Lemmas.C05
import SwV.Lemmas.C05b
import SwV.Lemmas.C05c
import SwV.Lemmas.C05d
import SwV.Lemmas.C05e
import SwV.Lemmas.C05f
import SwV.Lemmas.C05g

namespace SwV.Props.C05
open SwV.Model.C05 SwV.Spec.C05 SwV.Lemmas.C05

/-! ### bridges to the source -/

theorem bridge_batch_and_limit :
    SwV.Gen.C05.batch = 100000 ∧ SwV.Gen.C05.SectionalNeedleIdLimit = (limit : Int) ∧
    SwV.Gen.C05.TombstoneFileSize = -1 := by decide

/-- the look-back distance and the two conditions that decide between in-window insertion,
    overflow and a new section are the expressions the model was written from -/
theorem bridge_set_conditions :
    SwV.Gen.C05.lookBackExpr = "lookBackIndex := cs.counter - 128" ∧ lookBack = 128 ∧
    SwV.Gen.C05.windowCond = "cs.counter < batch && cs.values[lookBackIndex].Key < skey" ∧
    SwV.Gen.C05.newSectionCond = "x < 0 || (key-cm.list[x].start) > SectionalNeedleIdLimit" := by decide

/-- the functions whose bodies the model mirrors are unchanged (any edit breaks this obligation
    and must be re-modelled) -/
theorem bridge_source_pins :
    SwV.Gen.C05.src_Set = "7cc7556418c87ae2" ∧ SwV.Gen.C05.src_Delete = "a131352e6bac57ed" ∧
    SwV.Gen.C05.src_Get = "724f47d43ce82813" := by decide

/-! ### a section refines a key ↦ entry map

`SecInv batch s` (SwV/Lemmas/C05b.lean): `counter` = number of values, values strictly sorted,
overflow strictly sorted, no key in both, and — while the section is not full — every overflow key
lies below the whole look-back window.  `look s k` is the denoted binding of sectional key `k`
(overflow first, else values). -/

/-- `CompactSection.Get` returns exactly the denoted binding, for every section satisfying the
    invariant and every key -/
theorem section_get_refines (batch : Nat) (s : Sec) (h : SecInv batch s) (key : Nat) :
    Sec.get s key = (look s (skeyOf s key)).map (toNV s) :=
  secGet_refines batch s h key

/-- `CompactSection.Delete`: for every section satisfying the invariant and every key, the denoted
    map changes at that key only (a positive size is negated), the invariant is kept, and the
    returned size is the removed size — EXCEPT that for an overflow entry the stored size is
    returned even when it is already negative (finding
    CompactSection.Delete/negative-size-on-repeated-delete). -/
theorem section_delete_refines (batch : Nat) (s : Sec) (h : SecInv batch s) (key : Nat) (k' : Nat) :
    let r := Sec.delete s key
    let sk := skeyOf s key
    SecInv batch r.1 ∧
    look r.1 k' = (if k' = sk then (look s sk).map (fun e => if e.size > 0 then { e with size := -e.size } else e) else look s k') ∧
    r.2 = (match getK sk s.ovf with
           | some v => v.size
           | none => match getK sk s.rvals with
             | some e => if e.size > 0 then e.size else 0
             | none => 0) :=
  secDelete_refines batch s h key k'

/-- `CompactSection.Set`: for every section satisfying the invariant, every key (in any order:
    append, in-window insertion, overflow, overwrite) and every value, the invariant is kept, the
    denoted map is updated at that key only, and the PREVIOUS binding is returned ((0,0,0) when
    there was none) — EXCEPT that an overwritten overflow entry keeps its old `OffsetHigher` byte
    (`setEnt`; finding CompactSection.setOverflowEntry/stale-offset-high-byte). -/
theorem section_set_refines (batch : Nat) (s : Sec) (h : SecInv batch s) (key off hi : Nat) (size : Int) (k' : Nat) :
    let r := Sec.set batch s key off hi size
    let sk := skeyOf s key
    SecInv batch r.1 ∧ r.1.start = s.start ∧ r.1.stop = max s.stop key ∧ s.cnt ≤ r.1.cnt ∧
    (∀ x, x ∈ keys r.1.rvals ∨ x ∈ keys r.1.ovf ↔ x = sk ∨ (x ∈ keys s.rvals ∨ x ∈ keys s.ovf)) ∧
    look r.1 k' = (if k' = sk then some (setEnt s sk off hi size) else look s k') ∧
    r.2 = oldOf (look s sk) :=
  secSet_refines batch s h key off hi size k'

/-- the invariant is satisfiable by a section with values and overflow entries … -/
example : ∃ s : Sec, SecInv 2 s ∧ s.ovf ≠ [] ∧ s.rvals ≠ [] :=
  ⟨⟨0, 10, 2, [⟨10, 2, 0, 22⟩, ⟨1, 1, 0, 11⟩], [⟨5, 3, 0, 33⟩]⟩, by
    refine ⟨⟨rfl, by simp [DescSorted, keys], by simp [AscSorted, keys], ?_, ?_⟩, by decide, by decide⟩
    · intro x hx; simp [keys] at hx; subst hx; decide
    · intro hb; exact absurd hb (by decide)⟩

/-- … and by one that is not full (first Set, append, in-window insertion) -/
example : ∃ s : Sec, SecInv 100000 s ∧ s.rvals.length = 3 ∧ s.cnt < 100000 :=
  ⟨(Sec.set 100000 (Sec.set 100000 (Sec.first 100000 1 1 0 11) 9 2 0 22).1 3 3 0 33).1,
    (secSet_refines 100000 _ (secSet_refines 100000 _ (first_props 100000 1 1 0 11 none (by intro n hn; cases hn)).1
      9 2 0 22 0).1 3 3 0 33 0).1, by decide, by decide⟩

/-! ### the section list refines the reference map: all operation sequences

`Op` = `set key offLower offHigher size | del key | get key` (SwV/Lemmas/C05d.lean); `execL`/`execR`
run a sequence on the model (`setL`/`delL`) and on the reference (`Ref.set`/`Ref.delete` of the
Spec, with full offset `fullOff lower higher`); `Abs cm r` says the map denoted by the section list
(`denote`, read through `fullOff`) IS the reference map; `resOk` says the operation's result is the
reference's.  `admFrom batch [] ops` is the decidable predicate on the op list that excludes the
recorded findings, by replaying the model:
  * `get k`/`del k` with `k − start ≥ 2^32` for the section consulted for `k` (`noAlias`);
  * `set` overwriting an OVERFLOW entry whose `OffsetHigher` differs (`ovfAt`) — never with 4-byte
    offsets, where that byte is always 0.
The third finding (negative size returned by a repeated delete of an overflow entry) is not
excluded: `resOk` states it as what it is. -/

/- FULL-STRENGTH statement (false, see the `decide` witnesses below:
   `far_key_aliases_witness`, `overflow_overwrite_stale_high_byte_witness`,
   `delete_twice_overflow_negative_witness`):

   theorem compactMap_refines_map (batch : Nat) (pre : List Op) (op : Op) :
       Abs (execL batch [] pre) (execR [] pre) ∧
       (match op with
        | .del key => (delL batch key (execL batch [] pre)).2 = ((execR [] pre).delete key).2
        | op => resOk batch (execL batch [] pre) (execR [] pre) op) -/

/-- For EVERY sequence of set/delete/get operations (keys in any order, any distance apart) that
    stays clear of the recorded findings, and every operation `op` following it: the abstraction of
    the model state equals the reference map before and after `op`, and the result of `op` is the
    reference's (Set: previous binding; Get: the binding, under the requested key; Delete: the removed
    size, or the stored negative size of an already deleted overflow entry). -/
theorem compactMap_refines_map_partial (batch : Nat) (pre : List Op) (op : Op)
    (h : admFrom batch [] (pre ++ [op]) = true) :
    Abs (execL batch [] pre) (execR [] pre) ∧
    resOk batch (execL batch [] pre) (execR [] pre) op ∧
    Abs (applyL batch (execL batch [] pre) op) (applyR (execR [] pre) op) :=
  run_results batch pre op h

/-- admissibility is prefix-closed, so the theorem above covers every operation of an admissible
    sequence, and the final state of the whole sequence -/
theorem compactMap_refines_map_final_partial (batch : Nat) (ops : List Op) (h : admFrom batch [] ops = true) :
    MapInv batch (execL batch [] ops) ∧ Abs (execL batch [] ops) (execR [] ops) ∧
    ∀ pre post, ops = pre ++ post → admFrom batch [] pre = true :=
  ⟨(run_sim batch ops [] [] trivial abs_nil h).1, (run_sim batch ops [] [] trivial abs_nil h).2,
    fun pre post e => admFrom_prefix batch pre post (e ▸ h)⟩

/-- in terms of the Spec's judges: on admissible sequences the model's results are never rejected,
    except with the known class `CompactSection.Delete/negative-size-on-repeated-delete` -/
theorem compactMap_judges_accept_partial (batch : Nat) (pre : List Op) (op : Op)
    (h : admFrom batch [] (pre ++ [op]) = true) :
    judgesAccept batch (execL batch [] pre) (execR [] pre) op :=
  judges_accept batch _ _ op (run_results batch pre op h).2.1

/-- the same for the REFINED judges the driver runs (`setJudgeH`/`getJudgeH` of the Spec: the recorded
    class `…/stale-offset-high-byte` is kept only for a high offset byte the key was stored with before;
    any other high byte — e.g. the byte of a neighbouring entry — gets a class of its own): on admissible
    sequences the model's results are never rejected by them either, whatever history list they are given -/
theorem compactMap_refined_judges_accept_partial (batch : Nat) (pre : List Op) (op : Op) (his : List Nat)
    (h : admFrom batch [] (pre ++ [op]) = true) :
    judgesAcceptH batch (execL batch [] pre) (execR [] pre) his op :=
  judges_acceptH batch _ _ his op (judges_accept batch _ _ op (run_results batch pre op h).2.1)

/-- non-vacuity of the refinement: a key stored once at offset 2^32+8 (high byte 1) that reads back with
    offset 8 (high byte 0, a byte it never had: what an in-window insertion that moves `values` without
    `valuesExtra` produces) is rejected with the new class, while the recorded defect's output (an OLDER
    byte of the same key) keeps the recorded class, and a correct answer passes -/
example : getJudgeH 30 (some (4294967304, 300)) [1] (some (30, 8, 300))
    = some "CompactMap.Get/offset-high-byte-never-stored-for-key" := by decide
example : getJudgeH 5 (some (8589934596, 44)) [2, 1] (some (5, 4294967300, 44)) = some staleClass := by decide
example : getJudgeH 5 (some (8589934596, 44)) [2, 1] (some (5, 8589934596, 44)) = none := by decide
example : visitJudgeH (fun k => if k = 20 then [1] else [0]) [(10, 5, 1), (20, 4294967304, 2)] [(10, 5, 1), (20, 8, 2)]
    = some "CompactMap.AscendingVisit/offset-high-byte-never-stored-for-key" := by decide

/-- non-vacuity: an admissible sequence (batch = 2) that appends, inserts out of order into the
    overflow list, overwrites an overflow entry, deletes it twice, opens a new section behind a full
    one and one 2^33 away, and reads keys of all three sections -/
example : admFrom 2 [] [.set 1 1 0 11, .set 10 2 0 22, .set 5 3 0 33, .set 5 4 0 44, .del 5, .del 5,
    .get 5, .set 100 5 0 55, .set 8589934592 6 0 66, .get 8589934592, .get 7, .del 100, .get 100,
    .set 3 7 1 77, .get 3] = true := by decide

/-- the exclusions are real: the three witnesses' sequences are NOT admissible / not exact -/
example : admFrom 100000 [] [.set 1000 7 0 70, .get (1000 + 4294967296)] = false := by decide
example : admFrom 2 [] [.set 1 1 0 11, .set 10 2 0 22, .set 5 3 1 33, .set 5 4 2 44] = false := by decide

/-! ### reload: `doLoading` over the index log reproduces the map and every counter

`MOp` = `put key offset size | del key tombstoneOffset` on the in-memory NeedleMap
(`MemMap.put`/`MemMap.delete`: CompactMap + `mapMetric` + appended .idx record).
`reloadOkFrom batch {} [] ops` is the decidable predicate on the op list (replaying model and
reference) that excludes the recorded reload findings: every put has size > 0
(`mem-reload/empty-needle-counted-as-deletion`, `mem-reload/empty-needle-not-found`) and a non-zero
offset (offset 0 is the superblock: `doLoading` reads such a record as a deletion) and is
CompactMap-admissible; every delete addresses a key that is LIVE in the reference
(`mem-reload/noop-delete-counted-as-deletion`) and does not alias. -/

/- FULL-STRENGTH statement (false: `reload_counters_empty_needle_witness` below):
   theorem reload_counters (batch : Nat) (ops : List MOp) :
       let online := ops.foldl (applyM batch) {}
       loadMem batch online.idx.reverse = (online.cm, online.met) -/

/-- For EVERY such sequence of puts and deletes, replaying the index-entry log through the loader
    yields exactly the section list and exactly the counters (FileCounter, DeletionCounter,
    FileByteCounter, DeletionByteCounter, MaxFileKey) that were maintained online. -/
theorem reload_counters_partial (batch : Nat) (ops : List MOp) (h : reloadOkFrom batch {} [] ops = true) :
    let online := ops.foldl (applyM batch) {}
    loadMem batch online.idx.reverse = (online.cm, online.met) :=
  (reload_run batch ops {} [] (reload_init batch) h).2.2.1

/-- consequently every lookup after the reload equals the lookup before -/
theorem reload_lookups_partial (batch : Nat) (ops : List MOp) (h : reloadOkFrom batch {} [] ops = true) (key : Nat) :
    let online := ops.foldl (applyM batch) {}
    getL batch key (loadMem batch online.idx.reverse).1 = getL batch key online.cm := by
  intro online
  rw [reload_counters_partial batch ops h]

/-- non-vacuity: puts (appended, out of order into overflow, overwritten) and deletes of live keys -/
example : reloadOkFrom 2 {} [] [.put 3 10 100, .put 9 11 200, .put 5 12 300, .put 3 13 400, .del 5 14,
    .put 5 15 500, .del 9 16, .put 100 17 600] = true := by decide

/-! ### the same two theorems under conditions on the op list ALONE (no replay of the model)

4-byte offsets (`OffsetHigher` = 0 in every Set, i.e. offsets < 2^32) and all keys of the sequence
inside one window `[lo, lo + 2^32)` imply admissibility (`admFrom_of_plain`): no section start can
then be 2^32 or more below a key, and every stored high byte is 0.  (Weaker than the theorems above,
which also cover keys arbitrarily far apart and 5-byte offsets outside the stale-byte case.) -/

theorem compactMap_refines_map_window_partial (batch lo : Nat) (pre : List Op) (op : Op)
    (h : (pre ++ [op]).all (plainOp lo) = true) :
    Abs (execL batch [] pre) (execR [] pre) ∧
    resOk batch (execL batch [] pre) (execR [] pre) op ∧
    Abs (applyL batch (execL batch [] pre) op) (applyR (execR [] pre) op) :=
  run_results batch pre op (admFrom_of_plain lo batch _ [] (by intro s hs; cases hs) h)

example : ([.set 7 1 0 11, .set 3 2 0 22, .del 3, .del 3, .get 3, .get 4294967298] : List Op).all (plainOp 3) = true := by
  decide

/-- `plainMFrom lo [] ops`: every put has size > 0 and 0 < offset < 2^32, all keys lie in
    `[lo, lo + 2^32)`, and every delete addresses a key that is live in the REFERENCE map at that
    point (last operation on it was a put) — computed from the op list and the Spec's reference only -/
theorem reload_counters_window_partial (batch lo : Nat) (ops : List MOp) (h : plainMFrom lo [] ops = true) :
    let online := ops.foldl (applyM batch) {}
    loadMem batch online.idx.reverse = (online.cm, online.met) :=
  reload_counters_partial batch ops (reloadOk_of_plain lo batch ops {} [] (by intro s hs; cases hs) h)

example : plainMFrom 0 [] [.put 3 10 100, .put 9 11 200, .put 5 12 300, .put 3 13 400, .del 5 14,
    .put 5 15 500, .del 9 16] = true := by decide

/-! ### the recorded findings, on concrete witnesses (`batch` = 2 makes the section full after two entries: same overflow code path) -/

/-- FULL-STRENGTH "Delete returns the removed size (0 when nothing was live)" is FALSE:
    key 5 sits in the overflow list; the second delete returns −33. -/
theorem delete_twice_overflow_negative_witness :
    let cm := (setL 2 5 3 0 33 (setL 2 10 2 0 22 (setL 2 1 1 0 11 []).1).1).1
    (delL 2 5 cm).2 = 33 ∧ (delL 2 5 (delL 2 5 cm).1).2 = -33 := by decide

/-- FULL-STRENGTH "Get returns the latest offset" is FALSE for 5-byte offsets: overwriting an
    overflow entry keeps the old high byte (1 instead of 2). -/
theorem overflow_overwrite_stale_high_byte_witness :
    let cm := (setL 2 5 3 1 33 (setL 2 10 2 0 22 (setL 2 1 1 0 11 []).1).1).1
    getL 2 5 (setL 2 5 4 2 44 cm).1 = some ⟨5, 4, 1, 44⟩ := by decide

/-- FULL-STRENGTH "a never-stored key is not found / deleting it removes nothing" is FALSE:
    key − start is truncated to 32 bits in Get and Delete. -/
theorem far_key_aliases_witness :
    let cm := (setL 100000 1000 7 0 70 []).1
    getL 100000 (1000 + 4294967296) cm = some ⟨1000, 7, 0, 70⟩ ∧
    (delL 100000 (1000 + 2 * 4294967296) cm).2 = 70 := by decide

/-- `reload_counters` at full strength is FALSE: an empty needle counts as a file online and as a
    deletion after `doLoading` (and is no longer found). -/
theorem reload_counters_empty_needle_witness :
    let online := (MemMap.put 100000 {} 3 10 0)
    let re := loadMem 100000 online.idx.reverse
    online.met.fc = 1 ∧ online.met.dc = 0 ∧ re.2.fc = 0 ∧ re.2.dc = 1 ∧
    (getL 100000 3 online.cm).isSome ∧ getL 100000 3 re.1 = none := by decide

/-- what does hold on that example's well-behaved sibling: put, overwrite, delete of live keys
    reload to the same counters and the same lookups -/
theorem reload_counters_example :
    let online := MemMap.delete 100000 (MemMap.put 100000 (MemMap.put 100000 (MemMap.put 100000 {} 3 10 100) 4 11 200) 3 12 300) 4 13
    let re := loadMem 100000 online.idx.reverse
    re.2 = online.met ∧ getL 100000 3 re.1 = getL 100000 3 online.cm ∧ getL 100000 4 re.1 = getL 100000 4 online.cm := by decide

end SwV.Props.C05
