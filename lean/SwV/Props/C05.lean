/-
C05 — property theorems (theorems only; helper lemmas live in SwV/Lemmas/C05.lean).
They are about the model in SwV/Model/C05.lean, which the correspondence check compares with
the real needle_map.CompactMap / storage needle mappers on every call (returned values,
AscendingVisit contents, all counters), under both offset widths.
-/
import SwV.Model.C05
import SwV.Spec.C05
import SwV.Gen.C05
import SwV.Lemmas.C05

namespace SwV.Props.C05
open SwV.Model.C05 SwV.Spec.C05 SwV.Lemmas.C05

/-! ### bridges to the source -/

theorem bridge_batch_and_limit :
    SwV.Gen.C05.batch = 100000 ∧ SwV.Gen.C05.SectionalNeedleIdLimit = (limit : Int) ∧
    SwV.Gen.C05.TombstoneFileSize = -1 := by decide

/-- the look-back distance and the two conditions that decide between in-window insertion,
    overflow and a new section are the expressions the model was written from -/
theorem bridge_set_conditions :
    SwV.Gen.C05.lookBackExpr = "lookBackIndex := cs.counter - 128" ∧ lookBack = 128 ∧
    SwV.Gen.C05.windowCond = "cs.counter < batch && cs.values[lookBackIndex].Key < skey" ∧
    SwV.Gen.C05.newSectionCond = "x < 0 || (key-cm.list[x].start) > SectionalNeedleIdLimit" := by decide

/-- the functions whose bodies the model mirrors are unchanged (any edit breaks this obligation
    and must be re-modelled) -/
theorem bridge_source_pins :
    SwV.Gen.C05.src_Set = "7cc7556418c87ae2" ∧ SwV.Gen.C05.src_Delete = "a131352e6bac57ed" ∧
    SwV.Gen.C05.src_Get = "724f47d43ce82813" := by decide

/-! ### a section refines a key ↦ entry map -/

/-- representation invariant of a section: values strictly sorted (reversed list strictly
    descending), overflow strictly ascending, and no key in both -/
def SecInv (s : Sec) : Prop :=
  DescSorted s.rvals ∧ AscSorted s.ovf ∧ (∀ x, x ∈ keys s.ovf → getK x s.rvals = none)

/-- the map a section denotes (sectional key ↦ entry): overflow binding, else values binding -/
def look (s : Sec) (k : Nat) : Option Ent :=
  match getK k s.ovf with
  | some e => some e
  | none => getK k s.rvals

theorem getK_key (k : Nat) (l : List Ent) (e : Ent) (h : getK k l = some e) : e.key = k ∧ k ∈ keys l := by
  unfold getK at h
  have h1 := List.find?_some h
  have h2 := List.mem_of_find?_eq_some h
  simp at h1
  exact ⟨h1, by rw [← h1]; exact List.mem_map_of_mem h2⟩

/-- `CompactSection.Get` returns exactly the denoted binding, for every section satisfying the
    invariant and every key -/
theorem section_get_refines (s : Sec) (h : SecInv s) (key : Nat) :
    Sec.get s key = (look s (skeyOf s key)).map (toNV s) := by
  unfold Sec.get look
  simp only
  rw [findAsc_eq _ _ h.2.1, findDesc_eq _ _ h.1]
  cases getK (skeyOf s key) s.ovf <;> rfl

/-- `CompactSection.Delete`: for every section satisfying the invariant and every key, the denoted
    map changes at that key only (a positive size is negated), the invariant is kept, and the
    returned size is the removed size — EXCEPT that for an overflow entry the stored size is
    returned even when it is already negative (finding
    CompactSection.Delete/negative-size-on-repeated-delete). -/
theorem section_delete_refines (s : Sec) (h : SecInv s) (key : Nat) (k' : Nat) :
    let r := Sec.delete s key
    let sk := skeyOf s key
    SecInv r.1 ∧
    look r.1 k' = (if k' = sk then (look s sk).map (fun e => if e.size > 0 then { e with size := -e.size } else e) else look s k') ∧
    r.2 = (match getK sk s.ovf with
           | some v => v.size
           | none => match getK sk s.rvals with
             | some e => if e.size > 0 then e.size else 0
             | none => 0) := by
  obtain ⟨hd, ha, hdis⟩ := h
  simp only
  unfold Sec.delete
  simp only
  rw [findAsc_eq _ _ ha, findDesc_eq _ _ hd]
  have hneg : ∀ e : Ent, ({ e with size := -e.size } : Ent).key = e.key := fun _ => rfl
  have hnegIf : ∀ e : Ent, (if e.size > 0 then ({ e with size := -e.size } : Ent) else e).key = e.key := by
    intro e; split <;> rfl
  cases hov : getK (skeyOf s key) s.ovf with
  | some v =>
    -- the key lives in the overflow list, hence not in values: values are untouched
    have hk := getK_key _ _ _ hov
    have hrv : getK (skeyOf s key) s.rvals = none := hdis _ hk.2
    simp only [hrv]
    have hkeys : keys (delAsc (skeyOf s key) s.ovf) = keys s.ovf := by
      have : ∀ l : List Ent, keys (delAsc (skeyOf s key) l) = keys l := by
        intro l
        induction l with
        | nil => rfl
        | cons e rest ih =>
          unfold delAsc
          by_cases h1 : e.key = skeyOf s key
          · simp only [h1, if_true, keys, List.map_cons]; rw [← h1]; congr 1; split <;> simp [h1]
          · by_cases h2 : e.key > skeyOf s key
            · simp [h1, h2]
            · simp only [h1, h2, if_false]; simp only [keys, List.map_cons] at ih ⊢; rw [ih]
      exact this _
    refine ⟨⟨hd, ?_, ?_⟩, ?_, by first | rfl | trivial⟩
    · unfold AscSorted; rw [hkeys]; exact ha
    · intro x hx; rw [hkeys] at hx; exact hdis x hx
    · unfold look; simp only
      rw [getK_delAsc _ _ _ ha]
      by_cases hk' : k' = skeyOf s key
      · subst hk'; simp [hov]
      · simp [hk']
  | none =>
    simp only
    cases hrv : getK (skeyOf s key) s.rvals with
    | none =>
      simp only
      refine ⟨⟨hd, ha, hdis⟩, ?_, by first | rfl | trivial⟩
      unfold look
      by_cases hk' : k' = skeyOf s key
      · subst hk'; simp [hov, hrv]
      · simp [hk']
    | some e =>
      simp only
      by_cases hpos : e.size > 0
      · simp only [hpos, if_true]
        have hkeys := keys_updDesc (skeyOf s key) (fun e => { e with size := -e.size }) hneg s.rvals
        refine ⟨⟨?_, ha, ?_⟩, ?_, by first | rfl | trivial⟩
        · unfold DescSorted; rw [hkeys]; exact hd
        · intro x hx
          rw [getK_updDesc _ _ _ hneg _ hd]
          by_cases hx2 : x = skeyOf s key
          · subst hx2
            -- x in overflow keys contradicts hov
            have : getK (skeyOf s key) s.rvals = none := hdis _ hx
            rw [this] at hrv; cases hrv
          · simp [hx2]; exact hdis x hx
        · unfold look; simp only
          rw [getK_updDesc _ _ _ hneg _ hd]
          by_cases hk' : k' = skeyOf s key
          · subst hk'; simp [hov, hrv, hpos]
          · simp [hk']
      · simp only [hpos, if_false]
        refine ⟨⟨hd, ha, hdis⟩, ?_, by first | rfl | trivial⟩
        unfold look
        by_cases hk' : k' = skeyOf s key
        · subst hk'; simp [hov, hrv, hpos]
        · simp [hk']

example : ∃ s : Sec, SecInv s ∧ s.ovf ≠ [] ∧ s.rvals ≠ [] :=
  ⟨⟨0, 10, 2, [⟨10, 2, 0, 22⟩, ⟨1, 1, 0, 11⟩], [⟨5, 3, 0, 33⟩]⟩, by
    refine ⟨⟨by simp [DescSorted, keys], by simp [AscSorted, keys], ?_⟩, by decide, by decide⟩
    intro x hx; simp [keys] at hx; subst hx; decide⟩

/-! ### the recorded findings, on concrete witnesses (`batch` = 2 makes the section full after two entries: same overflow code path) -/

/-- FULL-STRENGTH "Delete returns the removed size (0 when nothing was live)" is FALSE:
    key 5 sits in the overflow list; the second delete returns −33. -/
theorem delete_twice_overflow_negative_witness :
    let cm := (setL 2 5 3 0 33 (setL 2 10 2 0 22 (setL 2 1 1 0 11 []).1).1).1
    (delL 2 5 cm).2 = 33 ∧ (delL 2 5 (delL 2 5 cm).1).2 = -33 := by decide

/-- FULL-STRENGTH "Get returns the latest offset" is FALSE for 5-byte offsets: overwriting an
    overflow entry keeps the old high byte (1 instead of 2). -/
theorem overflow_overwrite_stale_high_byte_witness :
    let cm := (setL 2 5 3 1 33 (setL 2 10 2 0 22 (setL 2 1 1 0 11 []).1).1).1
    getL 2 5 (setL 2 5 4 2 44 cm).1 = some ⟨5, 4, 1, 44⟩ := by decide

/-- FULL-STRENGTH "a never-stored key is not found / deleting it removes nothing" is FALSE:
    key − start is truncated to 32 bits in Get and Delete. -/
theorem far_key_aliases_witness :
    let cm := (setL 100000 1000 7 0 70 []).1
    getL 100000 (1000 + 4294967296) cm = some ⟨1000, 7, 0, 70⟩ ∧
    (delL 100000 (1000 + 2 * 4294967296) cm).2 = 70 := by decide

/-- `reload_counters` at full strength is FALSE: an empty needle counts as a file online and as a
    deletion after `doLoading` (and is no longer found). -/
theorem reload_counters_empty_needle_witness :
    let online := (MemMap.put 100000 {} 3 10 0)
    let re := loadMem 100000 online.idx.reverse
    online.met.fc = 1 ∧ online.met.dc = 0 ∧ re.2.fc = 0 ∧ re.2.dc = 1 ∧
    (getL 100000 3 online.cm).isSome ∧ getL 100000 3 re.1 = none := by decide

/-- what does hold on that example's well-behaved sibling: put, overwrite, delete of live keys
    reload to the same counters and the same lookups -/
theorem reload_counters_example :
    let online := MemMap.delete 100000 (MemMap.put 100000 (MemMap.put 100000 (MemMap.put 100000 {} 3 10 100) 4 11 200) 3 12 300) 4 13
    let re := loadMem 100000 online.idx.reverse
    re.2 = online.met ∧ getL 100000 3 re.1 = getL 100000 3 online.cm ∧ getL 100000 4 re.1 = getL 100000 4 online.cm := by decide

end SwV.Props.C05
