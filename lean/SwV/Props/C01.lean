/-
C01 — property theorems (only theorems here; helper lemmas live in SwV/Lemmas/C01.lean).
Model: SwV/Model/C01.lean (tied to the Go code by the correspondence check on every run);
Spec : SwV/Spec/C01.lean  (the map  id ↦ (cookie, content) | deleted).

FULL-STRENGTH STATEMENT (the property text):
    ∀ ops, (run (Vol.init t) ops).2.map absOut = (srun (KV.init t) ops).2
           ∧ abs (run (Vol.init t) ops).1 = (srun (KV.init t) ops).1
It is FALSE of the code: `refines_fails_*` below prove the negation on three concrete
histories (the three known findings).  `volume_refines_kv_partial` proves it for every
history that stays outside exactly those three input classes (`Spec.C01.excluded`).
-/
import SwV.Model.C01
import SwV.Spec.C01
import SwV.Lemmas.C01
import SwV.Gen.C01

namespace SwV.Props.C01
open SwV.Model.C01 SwV.Spec.C01 SwV.Lemmas.C01

/-! ### bridges to the source (SwV/Gen/C01.lean is regenerated from /repo on every run) -/

/-- The three tests of `Volume.isFileUnchanged` as written in the source, next to what the model
    does with them: the shortcut is taken only for a non-TTL volume, a live entry (positive
    size), the SAME COOKIE and the SAME BYTES (the checksum test is implied by equal bytes).
    Weakening the byte comparison in the source changes the first conjunct. -/
theorem bridge_isFileUnchanged_condition :
    SwV.Gen.C01.unchangedSameCond =
      "oldNeedle.Cookie == n.Cookie && oldNeedle.Checksum == n.Checksum && bytes.Equal(oldNeedle.Data, n.Data)" ∧
    SwV.Gen.C01.unchangedLiveCond = "ok && !nv.Offset.IsZero() && nv.Size.IsValid()" ∧
    SwV.Gen.C01.unchangedTtlCond = "v.Ttl.String() != \"\"" ∧
    (∀ (st : Vol) (id ck : Nat) (c : Content) (e : Ent) (r : Rec), st.idx id = some e → recAt st.log e.off = some r →
      isFileUnchanged st id ck c = true → 0 < e.size ∧ r.cookie = ck ∧ r.c.data = c.data) := by
  refine ⟨by decide, by decide, by decide, ?_⟩
  intro st id ck c e r hi hr hu
  exact isFileUnchanged_true hi hr hu

/-- the other decisions the model mirrors, as written in the source -/
theorem bridge_decision_conditions :
    SwV.Gen.C01.writeCookieCond = "existingNeedle.Cookie != n.Cookie" ∧
    SwV.Gen.C01.writePutCond = "!ok || uint64(nv.Offset.ToActualOffset()) < offset" ∧
    SwV.Gen.C01.deleteLiveCond = "ok && nv.Size.IsValid()" ∧
    SwV.Gen.C01.readNotFoundCond = "!ok || nv.Offset.IsZero()" ∧
    SwV.Gen.C01.readEmptyCond = "readSize == 0" ∧
    SwV.Gen.C01.storeWriteGuard = "v.IsReadOnly()" ∧
    SwV.Gen.C01.storeDeleteGuard = "v.noWriteOrDelete" ∧
    SwV.Gen.C01.getCookieCond = "n.Cookie != cookie" ∧
    SwV.Gen.C01.deleteCookieCond = "n.Cookie != cookie" := by decide

/-- `Size.IsValid` / `Size.IsDeleted` (translated from the source) are the model's sign tests,
    and the field widths used by `needleSize` are the source's constants -/
theorem bridge_size_predicates :
    (∀ z : Int, SwV.Gen.C01.Size_IsValid z = decide (0 < z)) ∧
    (∀ z : Int, SwV.Gen.C01.Size_IsDeleted z = decide (z < 0)) ∧
    SwV.Gen.C01.LastModifiedBytesLength = 5 ∧ SwV.Gen.C01.TtlBytesLength = 2 ∧
    SwV.Gen.C01.TombstoneFileSize = -1 := by
  refine ⟨?_, ?_, by decide, by decide, by decide⟩
  · intro z
    by_cases h : 0 < z
    · have h2 : z ≠ -1 := by omega
      simp [SwV.Gen.C01.Size_IsValid, h, h2]
    · simp [SwV.Gen.C01.Size_IsValid, h]
  · intro z
    by_cases h : z < 0
    · simp [SwV.Gen.C01.Size_IsDeleted, h]
    · have h2 : z ≠ -1 := by omega
      simp [SwV.Gen.C01.Size_IsDeleted, h, h2]

/-- the functions the model transcribes have not been edited since the model was written -/
theorem bridge_source_pins :
    SwV.Gen.C01.src_isFileUnchanged = "9b0c84174250e52d" ∧ SwV.Gen.C01.src_doWriteRequest = "673b0ac565c7bfce" ∧
    SwV.Gen.C01.src_doDeleteRequest = "bb4f3b7b20271c7d" ∧ SwV.Gen.C01.src_readNeedle = "f3764387cee126f8" ∧
    SwV.Gen.C01.src_WriteVolumeNeedle = "db4d4c6af1284d4b" ∧ SwV.Gen.C01.src_DeleteVolumeNeedle = "04623d97718ca70c" := by
  decide

/-- One simulation square: from a state satisfying the representation invariant, a well-formed
    operation outside the excluded classes takes model and spec to related states with the
    same observation. -/
theorem step_sim (st : Vol) (op : Op) (hI : Inv st) (hw : opWf op = true)
    (hx : excluded (abs st) op = none) :
    Inv (step st op).1 ∧ abs (step st op).1 = (sstep (abs st) op).1 ∧
      absOut (step st op).2 = (sstep (abs st) op).2 := by
  cases op with
  | write id ck c => exact write_sim hI id ck c hw hx
  | delete id ck => exact delete_sim hI id ck hx
  | read id ck =>
    obtain ⟨h1, h2⟩ := read_sim hI id ck
    exact ⟨hI, h2.symm, h1⟩
  | setRO b => exact ⟨hI, rfl, rfl⟩
  | hread id ck =>
    obtain ⟨h1, h2⟩ := hread_sim hI id ck
    exact ⟨hI, h2.symm, h1⟩
  | hdelete id ck => exact hdelete_sim hI id ck hx

/-- REFINEMENT, for every operation list and every reachable start state: outside the excluded
    classes every model output is the specification's output and the abstraction of the final
    state is the specification's final state (simulation by induction over the operations). -/
theorem volume_refines_kv_partial (ops : List Op) : ∀ (st : Vol), Inv st → Admissible (abs st) ops →
    Inv (run st ops).1 ∧ abs (run st ops).1 = (srun (abs st) ops).1 ∧
      (run st ops).2.map absOut = (srun (abs st) ops).2 := by
  induction ops with
  | nil => intro st hI _; exact ⟨hI, rfl, rfl⟩
  | cons op ops ih =>
    intro st hI hA
    obtain ⟨hw, hx, hrest⟩ := hA
    obtain ⟨hI1, hs1, ho1⟩ := step_sim st op hI hw hx
    rw [← hs1] at hrest
    obtain ⟨hI2, hs2, ho2⟩ := ih (step st op).1 hI1 hrest
    simp only [run, srun]
    refine ⟨hI2, ?_, ?_⟩
    · rw [hs2, hs1]
    · simp only [List.map_cons, ho1, ho2, hs1]

/-- the same from an empty volume -/
theorem volume_refines_kv_from_empty_partial (t : Nat × Nat) (ops : List Op) (hA : Admissible (KV.init t) ops) :
    abs (run (Vol.init t) ops).1 = (srun (KV.init t) ops).1 ∧
      (run (Vol.init t) ops).2.map absOut = (srun (KV.init t) ops).2 := by
  have h0 : abs (Vol.init t) = KV.init t := by
    simp only [abs, KV.init, Vol.init]
    congr 1
  have := volume_refines_kv_partial ops (Vol.init t) (inv_init t) (by rw [h0]; exact hA)
  rw [h0] at this
  exact this.2

/-- the hypotheses are satisfiable: write, overwrite with other data, read, delete, read, rewrite -/
example : Admissible (KV.init (0, 0))
    [.write 1 7 { data := "61" }, .write 1 7 { data := "62", fl := { hasName := true }, name := "6e" },
     .read 1 7, .hread 1 8, .hdelete 1 8, .delete 1 7, .read 1 7, .write 1 7 { data := "63" }] := by
  simp [Admissible, opWf, wfContent, excluded, sstep, KV.init, inheritTtl, setM, Content.empty]

/-! ### the full-strength statement fails: one witness per excluded class -/

/-- (i) same data, new name: the write reports success, the read still returns the old name -/
theorem refines_fails_unchanged_write :
    (run (Vol.init (0, 0)) [.write 1 7 { data := "61", fl := { hasName := true }, name := "61" },
                            .write 1 7 { data := "61", fl := { hasName := true }, name := "62" }, .read 1 7]).2.map absOut
    ≠ (srun (KV.init (0, 0)) [.write 1 7 { data := "61", fl := { hasName := true }, name := "61" },
                            .write 1 7 { data := "61", fl := { hasName := true }, name := "62" }, .read 1 7]).2 := by
  decide

/-- (ii) deleting an empty blob reports success and the blob stays readable -/
theorem refines_fails_delete_empty :
    (run (Vol.init (0, 0)) [.write 1 7 {}, .delete 1 7, .read 1 7]).2.map absOut
    ≠ (srun (KV.init (0, 0)) [.write 1 7 {}, .delete 1 7, .read 1 7]).2 := by
  decide

/-- (iii) the metadata of an empty blob is not stored -/
theorem refines_fails_empty_metadata :
    (run (Vol.init (0, 0)) [.write 1 7 { fl := { hasName := true }, name := "61" }, .read 1 7]).2.map absOut
    ≠ (srun (KV.init (0, 0)) [.write 1 7 { fl := { hasName := true }, name := "61" }, .read 1 7]).2 := by
  decide

/-! ### corollaries -/

/-- a GET with a cookie different from the stored one never returns data (any state, no exclusions):
    the body is empty — 404, or the 200 of an empty blob whose cookie cannot be compared -/
theorem wrong_cookie_read_returns_no_data (st : Vol) (hI : Inv st) (id ck k : Nat) (v : Option Content)
    (hs : (abs st).m id = some ⟨k, v⟩) (hne : k ≠ ck) :
    (httpRead st id ck).2 = "" ∧ ((httpRead st id ck).1 = 404 ∨ v = some Content.empty) := by
  rcases abs_cases hI id with ⟨_, habs⟩ | ⟨e, r, hidx, hr, hlt, habs⟩ | ⟨e, r, hidx, hr, heq, hre, habs⟩ | ⟨e, r, hidx, hr, hgt, hsz, hd, habs⟩
  · rw [habs] at hs; cases hs
  · have := (recAt_some_le hr).1
    simp [httpRead, readStep, hidx, this, hlt]
  · rw [habs] at hs; cases hs
    have := (recAt_some_le hr).1
    simp [httpRead, readStep, hidx, this, heq, Content.empty]
  · rw [habs] at hs; cases hs
    simp [httpRead, readStep_live id ck hidx hr hgt hsz, hne]

/-- a DELETE with a cookie different from the stored one never removes anything (any state, no
    exclusions): the abstract contents are unchanged -/
theorem wrong_cookie_delete_removes_nothing (st : Vol) (hI : Inv st) (id ck k : Nat) (v : Option Content)
    (hs : (abs st).m id = some ⟨k, v⟩) (hne : k ≠ ck) :
    abs (httpDelete st id ck).1 = abs st := by
  rcases abs_cases hI id with ⟨_, habs⟩ | ⟨e, r, hidx, hr, hlt, habs⟩ | ⟨e, r, hidx, hr, heq, hre, habs⟩ | ⟨e, r, hidx, hr, hgt, hsz, hd, habs⟩
  · rw [habs] at hs; cases hs
  · have := (recAt_some_le hr).1
    simp [httpDelete, readStep, hidx, this, hlt]
  · -- empty blob: the cookie is not compared, but `doDeleteRequest` does nothing for size 0
    have := (recAt_some_le hr).1
    have hns : ¬ 0 < e.size := by omega
    by_cases hro : st.ro = true
    · simp [httpDelete, readStep, hidx, this, heq, deleteStep_ro _ _ hro]
    · have hro' : st.ro = false := by simpa using hro
      simp [httpDelete, readStep, hidx, this, heq, deleteStep_noop _ _ hro' hidx hns]
  · rw [habs] at hs; cases hs
    simp [httpDelete, readStep_live id ck hidx hr hgt hsz, hne]

/-- writes, deletes and DELETEs on a read-only volume are rejected and change nothing at all -/
theorem readonly_rejects_and_changes_nothing (st : Vol) (hro : st.ro = true) (id ck : Nat) (c : Content) :
    writeStep st id ck c = (st, .ro) ∧ deleteStep st id ck = (st, .ro) ∧ (httpDelete st id ck).1 = st ∧
      (httpDelete st id ck).2.1 ≠ 202 := by
  refine ⟨writeStep_ro _ _ _ hro, deleteStep_ro _ _ hro, ?_, ?_⟩
  · unfold httpDelete
    split
    · split
      · rfl
      · rw [deleteStep_ro _ _ hro]
    · rfl
  · unfold httpDelete
    split
    · split
      · simp
      · rw [deleteStep_ro _ _ hro]; simp
    · simp

/-- read-your-writes, derived from the refinement: after an accepted admissible write every
    read of that id returns exactly the written content (with the inherited TTL) -/
theorem read_your_writes (st : Vol) (hI : Inv st) (id ck ck' : Nat) (c : Content) (hw : wfContent c = true)
    (hx : excluded (abs st) (.write id ck c) = none) (hok : (writeStep st id ck c).2 ≠ .ro ∧ (writeStep st id ck c).2 ≠ .cookie) :
    absOut (.r (readStep (writeStep st id ck c).1 id ck')) = .rOk (inheritTtl st.volTtl c) := by
  obtain ⟨hI1, hs1, ho1⟩ := write_sim hI id ck c hw hx
  obtain ⟨hr, _⟩ := read_sim hI1 id ck'
  rw [hr, hs1]
  by_cases hro : (abs st).ro = true
  · rw [sstep_write_ro _ _ _ hro] at ho1
    exfalso
    cases hws : (writeStep st id ck c).2 <;> simp_all [absOut]
  · have hro' : (abs st).ro = false := by simpa using hro
    have hset : (∀ e, (abs st).m id = some e → e.cookie = ck) →
        (sstep (sstep (abs st) (Op.write id ck c)).1 (Op.read id ck')).2 = Out.rOk (inheritTtl st.volTtl c) := by
      intro hm
      rw [sstep_write_set _ _ _ hro' hm]
      simp [sstep, setM]
      rfl
    cases hmid : (abs st).m id with
    | none => exact hset (by intro e he; rw [hmid] at he; cases he)
    | some e =>
      by_cases hck : e.cookie = ck
      · exact hset (by intro e' he'; rw [hmid] at he'; cases he'; exact hck)
      · exfalso
        rw [sstep_write_cookie _ _ _ hro' hmid hck] at ho1
        cases hws : (writeStep st id ck c).2 <;> simp_all [absOut]

/-- once deleted, not found: after a delete that removed something, reads answer "deleted" -/
theorem deleted_then_gone (st : Vol) (hI : Inv st) (id ck ck' : Nat) (sz : Int)
    (hd : (deleteStep st id ck).2 = .ok sz) (hpos : 0 < sz) :
    readStep (deleteStep st id ck).1 id ck' = .deleted := by
  by_cases hro : st.ro = true
  · rw [deleteStep_ro _ _ hro] at hd; cases hd
  · have hro' : st.ro = false := by simpa using hro
    cases hidx : st.idx id with
    | none => rw [deleteStep_none _ _ hro' hidx] at hd; cases hd; omega
    | some e =>
      by_cases hs : 0 < e.size
      · obtain ⟨r, hr, _, _⟩ := hI id e hidx
        have := (recAt_some_le hr).1
        rw [deleteStep_live _ _ hro' hidx hs]
        simp [readStep, appendSet, setIdx, this]
        intro h; omega
      · rw [deleteStep_noop _ _ hro' hidx hs] at hd; cases hd; omega

/-- the sorted-file needle map after a read-only reopen serves the same reads, except that
    deleted ids are forgotten (not-found instead of deleted), and the volume is read-only -/
theorem reopen_sorted_reads (st : Vol) (id ck : Nat) :
    readStep (reopenSorted st) id ck = (match readStep st id ck with | .deleted => .notfound | o => o) ∧
      (reopenSorted st).ro = true := by
  refine ⟨?_, rfl⟩
  cases hidx : st.idx id with
  | none => simp [readStep, reopenSorted, hidx]
  | some e =>
    by_cases h0 : e.off = 0
    · by_cases hlt : e.size < 0 <;> simp [readStep, reopenSorted, hidx, h0, hlt]
    · by_cases hlt : e.size < 0
      · simp [readStep, reopenSorted, hidx, h0, hlt]
      · by_cases hz : e.size = 0
        · simp [readStep, reopenSorted, hidx, h0, hlt, hz]
        · simp only [readStep, reopenSorted, hidx, h0, hlt, hz, if_false]
          split <;> simp_all
          split <;> simp_all

end SwV.Props.C01
