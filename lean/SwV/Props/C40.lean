/-
C40 — theorems.

Full statement (FALSE of the code, kept visible):
    every successful upload/delete leaves all replicas with the same view of the key.
It fails because the forwarding upload does not reproduce the primary's needle (`StableForward` below is false when
doUploadData re-sniffs the mime type or gzips the bytes: findings replicas-differ-in-mime and
answers-unchanged-but-replicas-differ) — witnesses `forward_not_stable_witness`, `agreement_fails_witness`.
What is proved (`replicas_agree_on_success_partial`): along ANY history of uploads and deletes on healthy replicas in
which every upload is forwarded stably, all replicas stay IDENTICAL (hence agree on every key) and every operation
succeeds (or answers not-found on all of them).
`stableForward_iff_syntactic` characterises the hypothesis without gzip and without the Store: `StableForward c s q` holds,
for EVERY codec, exactly when the decidable `stableSyntactic s q` does = the forwarding upload does not re-compress the
bytes (already compressed, or a type `IsCompressableFileType` does not compress and no compressible 128-byte sample of an
untyped blob > 16 KiB) and the replica derives the mime type the primary stored (a stored, client-supplied type — class
`stable_of_typed_upload` —, or nothing stored and a sniffed/extension type the replica drops again).
`replicas_agree_on_success_syntactic_partial` is the main theorem under that codec-free hypothesis; identical rewrites
(isFileUnchanged) need no exclusion there: identical replicas decide it identically.
-/
import SwV.Model.C40
import SwV.Spec.C40
import SwV.Gen.C40
import SwV.Lemmas.C40
namespace SwV.Props.C40
open SwV.Model.C33 (Codec) 
open SwV.Model.C40 SwV.Spec.C40

/-- the replica rebuilds exactly the primary's needle from the forwarded request (excluded otherwise: the two findings) -/
def StableForward (c : Codec) (s : Sniff) (q : Req) : Prop :=
  createNeedle (forward c s (createNeedle q)) = createNeedle q

def AllEq (nodes : List Node) (p : Node) : Prop := ∀ nd ∈ nodes, nd = p
def Healthy (fs : List Nat) : Prop := ∀ f ∈ fs, f = 0

theorem healthy_head (fs : List Nat) (h : Healthy fs) : fs.headD 0 = 0 := by
  cases fs with
  | nil => rfl
  | cons f _ => exact h f (by simp)

theorem healthy_tail (fs : List Nat) (h : Healthy fs) : Healthy fs.tail := by
  cases fs with
  | nil => exact h
  | cons f r => intro x hx; exact h x (List.mem_cons_of_mem _ hx)

theorem fanOut_equal (q : Req) (k : Nat) (p : Node) :
    ∀ (rs : List Node) (fs : List Nat), AllEq rs p → Healthy fs →
      AllEq (fanOut q k rs fs).1 (writeLocal p k (createNeedle q)).1 ∧ (fanOut q k rs fs).2 = true := by
  intro rs
  induction rs with
  | nil => intro fs _ _; exact ⟨(by intro nd h; cases h), rfl⟩
  | cons nd rest ih =>
    intro fs heq hf
    have hnd : nd = p := heq nd (by simp)
    have hrest : AllEq rest p := fun x hx => heq x (by simp [hx])
    obtain ⟨i1, i2⟩ := ih fs.tail hrest (healthy_tail fs hf)
    have h0 := healthy_head fs hf
    simp only [fanOut, h0]
    constructor
    · intro x hx
      simp at hx
      rcases hx with hx | hx
      · rw [hx, hnd]
      · exact i1 x hx
    · simp [i2]

theorem fanOutDelete_equal (k : Nat) (p : Node) :
    ∀ (rs : List Node) (fs : List Nat), AllEq rs p → Healthy fs →
      AllEq (fanOutDelete k rs fs).1 (p.erase k) ∧ (fanOutDelete k rs fs).2 = true := by
  intro rs
  induction rs with
  | nil => intro fs _ _; exact ⟨(by intro nd h; cases h), rfl⟩
  | cons nd rest ih =>
    intro fs heq hf
    have hnd : nd = p := heq nd (by simp)
    have hrest : AllEq rest p := fun x hx => heq x (by simp [hx])
    obtain ⟨i1, i2⟩ := ih fs.tail hrest (healthy_tail fs hf)
    have h0 := healthy_head fs hf
    simp only [fanOutDelete, h0]
    constructor
    · intro x hx
      simp at hx
      rcases hx with hx | hx
      · rw [hx, hnd]
      · exact i1 x hx
    · simp [i2]

/-- one upload: identical healthy replicas + stable forwarding ⇒ success and identical replicas -/
theorem upload_keeps_replicas_identical (c : Codec) (s : Sniff) (w : World) (k : Nat) (q : Req) (p : Node)
    (hne : w.nodes ≠ []) (heq : AllEq w.nodes p) (hh : Healthy w.faults) (hst : StableForward c s q) :
    success (upload c s w k q).2 = true ∧
      AllEq (upload c s w k q).1.nodes (writeLocal p k (createNeedle q)).1 ∧ (upload c s w k q).1.faults = w.faults := by
  obtain ⟨nodes, faults⟩ := w
  cases nodes with
  | nil => exact absurd rfl hne
  | cons p0 rs =>
    have hp0 : p0 = p := heq p0 (by simp)
    have hrs : AllEq rs p := fun x hx => heq x (by simp [hx])
    obtain ⟨f1, f2⟩ := fanOut_equal (forward c s (createNeedle q)) k p rs faults.tail hrs (healthy_tail faults hh)
    unfold StableForward at hst
    rw [hst] at f1
    simp only [upload]
    refine ⟨?_, ?_, trivial⟩
    · simp only [f2]
      cases (writeLocal p0 k (createNeedle q)).2 <;> simp [success]
    · intro x hx
      simp at hx
      rcases hx with hx | hx
      · rw [hx, hp0]
      · exact f1 x hx

/-- one delete on identical healthy replicas: deleted everywhere, or not found (and nothing changes) -/
theorem delete_keeps_replicas_identical (w : World) (k : Nat) (p : Node)
    (hne : w.nodes ≠ []) (heq : AllEq w.nodes p) (hh : Healthy w.faults) :
    ((delete w k).2 = .deleted ∨ (delete w k).2 = .notfound) ∧
      (∃ p', AllEq (delete w k).1.nodes p') ∧ (delete w k).1.faults = w.faults ∧ (delete w k).1.nodes ≠ [] := by
  obtain ⟨nodes, faults⟩ := w
  cases nodes with
  | nil => exact absurd rfl hne
  | cons p0 rs =>
    have hp0 : p0 = p := heq p0 (by simp)
    have hrs : AllEq rs p := fun x hx => heq x (by simp [hx])
    obtain ⟨f1, f2⟩ := fanOutDelete_equal k p rs faults.tail hrs (healthy_tail faults hh)
    simp only [delete]
    cases hg : p0.get k with
    | none => exact ⟨Or.inr rfl, ⟨p, heq⟩, rfl, by simp⟩
    | some r =>
      refine ⟨Or.inl (by simp [f2]), ⟨p.erase k, ?_⟩, rfl, by simp⟩
      intro x hx
      simp at hx
      rcases hx with hx | hx
      · rw [hx, hp0]
      · exact f1 x hx

inductive Op where
  | up (s : Sniff) (k : Nat) (q : Req)
  | del (k : Nat)

def applyOp (c : Codec) (w : World) : Op → World × Status
  | .up s k q => upload c s w k q
  | .del k => delete w k

def runOps (c : Codec) (w : World) : List Op → World × List Status
  | [] => (w, [])
  | o :: os =>
    let (w1, st) := applyOp c w o
    let (w2, sts) := runOps c w1 os
    (w2, st :: sts)

def StableOp (c : Codec) : Op → Prop
  | .up s _ q => StableForward c s q
  | .del _ => True

/-- MAIN (partial): along any history of uploads and deletes on healthy replicas whose uploads are forwarded stably,
    every operation succeeds (or finds nothing to delete) and the replicas stay identical — so they agree on every key. -/
theorem replicas_agree_on_success_partial (c : Codec) (ops : List Op) :
    ∀ (w : World) (p : Node), w.nodes ≠ [] → AllEq w.nodes p → Healthy w.faults → (∀ o ∈ ops, StableOp c o) →
      (∀ st ∈ (runOps c w ops).2, success st = true ∨ st = .notfound) ∧
      (∃ p', AllEq (runOps c w ops).1.nodes p') ∧
      (∀ k, Agree c (runOps c w ops).1.nodes k) := by
  induction ops with
  | nil =>
    intro w p _ heq _ _
    refine ⟨(by intro st h; cases h), ⟨p, heq⟩, ?_⟩
    intro k a ha b hb
    simp only [runOps] at ha hb
    rw [heq a ha, heq b hb]
  | cons o os ih =>
    intro w p hne heq hh hst
    have hso : StableOp c o := hst o (by simp)
    have hsos : ∀ o' ∈ os, StableOp c o' := fun o' h => hst o' (by simp [h])
    cases o with
    | up s k q =>
      obtain ⟨u1, u2, u3⟩ := upload_keeps_replicas_identical c s w k q p hne heq hh hso
      have hne' : (upload c s w k q).1.nodes ≠ [] := by
        obtain ⟨nodes, faults⟩ := w
        cases nodes with
        | nil => exact absurd rfl hne
        | cons p0 rs => simp [upload]
      obtain ⟨i1, i2, i3⟩ := ih (upload c s w k q).1 _ hne' u2 (by rw [u3]; exact hh) hsos
      simp only [runOps, applyOp]
      refine ⟨?_, i2, i3⟩
      intro st hst'
      simp at hst'
      rcases hst' with h | h
      · left; rw [h]; exact u1
      · exact i1 st h
    | del k =>
      obtain ⟨d1, ⟨p', d2⟩, d3, d4⟩ := delete_keeps_replicas_identical w k p hne heq hh
      obtain ⟨i1, i2, i3⟩ := ih (delete w k).1 p' d4 d2 (by rw [d3]; exact hh) hsos
      simp only [runOps, applyOp]
      refine ⟨?_, i2, i3⟩
      intro st hst'
      simp at hst'
      rcases hst' with h | h
      · rcases d1 with d | d
        · left; rw [h, d]; rfl
        · right; rw [h, d]
      · exact i1 st h

/-! ## the hypothesis, syntactically -/

/-- `StableForward` does not depend on gzip: it is the decidable, codec-free `stableSyntactic` (no re-compression on the
    forwarding path ∧ the replica derives the stored mime type) -/
theorem stableForward_iff_syntactic (c : Codec) (s : Sniff) (q : Req) :
    StableForward c s q ↔ SwV.Lemmas.C40.stableSyntactic s q = true :=
  ⟨SwV.Lemmas.C40.syntactic_of_stable c s q, SwV.Lemmas.C40.stable_of_syntactic c s q⟩

/-- a readable class: the primary stored a media type (client-supplied, not octet-stream, not the extension's), and the
    bytes are not re-compressed (sent compressed, or a type `IsCompressableFileType` is not sure to compress) -/
theorem stable_of_typed_upload (c : Codec) (s : Sniff) (q : Req) (hm : (createNeedle q).mime ≠ []) (hext : s.extMime = q.extMime)
    (hz : q.gz = true ∨
      (SwV.Model.C33.isCompressable (if (createNeedle q).name = [] then ['.'] else (createNeedle q).name) (createNeedle q).mime).1 = false ∨
      (SwV.Model.C33.isCompressable (if (createNeedle q).name = [] then ['.'] else (createNeedle q).name) (createNeedle q).mime).2 = false) :
    StableForward c s q :=
  (stableForward_iff_syntactic c s q).mpr (SwV.Lemmas.C40.syntactic_of_typed s q hm hext hz)

def stableOpB : Op → Bool
  | .up s _ q => SwV.Lemmas.C40.stableSyntactic s q
  | .del _ => true

/-- MAIN (partial, codec-free hypothesis): along any history of uploads and deletes on healthy replicas whose uploads
    are syntactically stable, every operation succeeds (or finds nothing to delete) and the replicas stay identical —
    whatever gzip does. Excluded: exactly the uploads of the two open findings (re-sniffed mime / re-compressed bytes on
    the forwarding path, and what follows from the replicas holding other bytes) and replica failures. -/
theorem replicas_agree_on_success_syntactic_partial (c : Codec) (ops : List Op) (w : World) (p : Node)
    (hne : w.nodes ≠ []) (heq : AllEq w.nodes p) (hh : Healthy w.faults) (hst : ∀ o ∈ ops, stableOpB o = true) :
    (∀ st ∈ (runOps c w ops).2, success st = true ∨ st = .notfound) ∧
    (∃ p', AllEq (runOps c w ops).1.nodes p') ∧
    (∀ k, Agree c (runOps c w ops).1.nodes k) :=
  replicas_agree_on_success_partial c ops w p hne heq hh (fun o ho => by
    have := hst o ho
    cases o with
    | up s k q => exact (stableForward_iff_syntactic c s q).mpr this
    | del k => trivial)

/-! ## the hypotheses are satisfiable; the full statement is false -/

def symCodec : Codec :=
  { gzip := fun x => 31 :: 139 :: x,
    gunzip := fun x => match x with | 31 :: 139 :: r => some r | _ => none,
    enc := id, dec := some }

def sniffText : Sniff := ⟨"text/plain; charset=utf-8".toList, [], false⟩

def reqVideo : Req := ⟨"f".toList, "video/mp4".toList, .given 7, [], "-", false, false, [104, 105], []⟩
def reqPlain : Req := ⟨"f".toList, [], .given 7, [], "-", false, false, [104, 105], []⟩

/-- a client-supplied, non-sniffable content type travels unchanged -/
example : StableForward symCodec sniffText reqVideo := by unfold StableForward; decide

/-- text bytes without a content type: the replicas get `text/plain; charset=utf-8` and gzip bytes -/
theorem forward_not_stable_witness : ¬ StableForward symCodec sniffText reqPlain := by
  unfold StableForward; decide

/-- the same two facts, syntactically (no codec) -/
example : SwV.Lemmas.C40.stableSyntactic sniffText reqVideo = true ∧ SwV.Lemmas.C40.stableSyntactic sniffText reqPlain = false := by decide

/-- "sniffs to itself": a.png without a content type, sniffed as image/png = the extension's type — nothing stored on the
    primary, the replica drops the forwarded type again, images are not compressed: stable.  a.txt with text bytes sniffs to
    itself as well but is re-compressed on the way: not stable (finding replicas-differ-in-mime covers the gzip side). -/
theorem self_sniffing_witnesses :
    SwV.Lemmas.C40.stableSyntactic ⟨"image/png".toList, "image/png".toList, false⟩
      ⟨"a.png".toList, [], .given 7, [], "-", false, false, [137, 80], "image/png".toList⟩ = true ∧
    SwV.Lemmas.C40.stableSyntactic ⟨"text/plain; charset=utf-8".toList, "text/plain; charset=utf-8".toList, false⟩
      ⟨"a.txt".toList, [], .given 7, [], "-", false, false, [104, 105], "text/plain; charset=utf-8".toList⟩ = false := by decide

/-- the hypotheses of the syntactic main theorem are satisfiable: typed upload, delete, upload of the same bytes again -/
example : ∀ o ∈ [Op.up sniffText 1 reqVideo, Op.del 1, Op.up sniffText 1 reqVideo, Op.up sniffText 1 { reqVideo with name := "g".toList }],
    stableOpB o = true := by decide

example : (createNeedle reqVideo).mime ≠ [] ∧ sniffText.extMime = reqVideo.extMime := by decide

def twoEmpty : World := ⟨[[], []], [0, 0]⟩

/-- the full statement fails on a healthy pair of replicas: the upload is reported `created`, the views differ -/
theorem agreement_fails_witness :
    (upload symCodec sniffText twoEmpty 1 reqPlain).2 = .created ∧
      ¬ Agree symCodec (upload symCodec sniffText twoEmpty 1 reqPlain).1.nodes 1 := by
  constructor
  · decide
  · intro h
    have := h [(1, onDisk (createNeedle reqPlain))] (by decide)
      [(1, onDisk (createNeedle (forward symCodec sniffText (createNeedle reqPlain))))] (by decide)
    revert this
    decide

/-- and the same bytes uploaded again under another name are answered `unchanged` while the replicas disagree on the name -/
theorem unchanged_answer_witness :
    let w1 := (upload symCodec sniffText twoEmpty 1 reqVideo).1
    let q2 : Req := { reqPlain with name := "g".toList }
    (upload symCodec sniffText w1 1 q2).2 = .unchanged ∧
      ((upload symCodec sniffText w1 1 q2).1.nodes.map fun nd => (nd.get 1).map (·.name)) = [some "f".toList, some "g".toList] := by
  decide

/-! ## bridges: the modelled functions are pinned to the source text they were read from (regenerated on every check) -/

/-- an edit of any of these functions breaks this obligation -/
theorem bridge_source_pins :
    SwV.Gen.C40.src_ReplicatedWrite = "5c851f7c671e10ff" ∧
    SwV.Gen.C40.src_ReplicatedDelete = "a06f670318c08a41" ∧
    SwV.Gen.C40.src_distributedOperation = "a5f59e07d1398366" ∧
    SwV.Gen.C40.src_getWritableRemoteReplications = "c0bf1608c1f1ad89" ∧
    SwV.Gen.C40.src_CreateNeedleFromRequest = "a3abd6a61c4a5dff" ∧
    SwV.Gen.C40.src_isFileUnchanged = "9b0c84174250e52d" := by
  decide

end SwV.Props.C40
