/-
C13 — property theorems: "file keys and volume ids are never handed out twice".
Only theorems here; the run functions (events, ghost logs: `mrun`, `erun`, `vrun`), the invariants
and their preservation lemmas live in SwV/Lemmas/C13.lean.  Every theorem is about the executable
machines of SwV/Model/C13.lean, which the correspondence check ties to the Go code on every run.
Logs are newest first.
-/
import SwV.Model.C13
import SwV.Spec.C13
import SwV.Lemmas.C13
import SwV.Lemmas.C13W
import SwV.Gen.C13
import SwV.Gen.C13Hb

namespace SwV.Props.C13
open SwV.Model.C13 SwV.Spec.C13 SwV.Lemmas.C13

/-! ### A. MemorySequencer -/

/- FULL-STRENGTH statement (FALSE of the model and of the code):

     theorem mem_ranges_disjoint (i : Nat) (evs : List MEv) : GoodLog (mrun i Mem.new evs []).2

   It fails when the uint64 counter wraps (`mem_wrap_witness`, `mem_setmax_wrap_witness`), and across
   instances (a new leader starts from 1 again and only learns the heartbeat maxima:
   `mem_leader_change_witness`). -/

/-- generalised form: from ANY state and log such that everything handed out so far is below the
    counter and everything reported to `i` is below the counter, a run without uint64 wrap keeps the
    log good — this is what a new leader `i` needs from the old leader's log before serving -/
theorem mem_run_good (i : Nat) (m : Mem) (log : List Obs) (evs : List MEv)
    (hg : GoodLog log) (hi : ∀ j s c, Obs.issue j s c ∈ log → s + c ≤ m.counter)
    (hr : ∀ seen, Obs.report i seen ∈ log → seen < m.counter) (hw : NoWrap m evs) :
    GoodLog (mrun i m evs log).2 :=
  (mrun_inv i evs m log ⟨hg, hi, hr⟩ hw).1

/-- … and everything handed out stays below the final counter -/
theorem mem_run_below (i : Nat) (m : Mem) (log : List Obs) (evs : List MEv)
    (hg : GoodLog log) (hi : ∀ j s c, Obs.issue j s c ∈ log → s + c ≤ m.counter)
    (hr : ∀ seen, Obs.report i seen ∈ log → seen < m.counter) (hw : NoWrap m evs) :
    ∀ j s c, Obs.issue j s c ∈ (mrun i m evs log).2 → s + c ≤ (mrun i m evs log).1.counter :=
  (mrun_inv i evs m log ⟨hg, hi, hr⟩ hw).2.1

/-- one MemorySequencer from its initial state: every range handed out is disjoint from every earlier
    one and starts above every max key reported before, as long as no uint64 addition wraps
    (`NoWrap` = the excluded inputs) -/
theorem mem_ranges_disjoint_partial (i : Nat) (evs : List MEv) (hw : NoWrap Mem.new evs) :
    GoodLog (mrun i Mem.new evs []).2 :=
  mem_run_good i Mem.new [] evs trivial (fun _ _ _ hm => by cases hm) (fun _ hm => by cases hm) hw

/-- non-vacuity of `mem_ranges_disjoint_partial` / `mem_run_good` -/
example : NoWrap Mem.new [.next 3, .setMax 10, .next 2] := by
  simp only [NoWrap, Mem.next, Mem.setMax, Mem.new, W]
  decide

example : GoodLog (mrun 0 Mem.new [.next 3, .setMax 10, .next 2] []).2 :=
  mem_ranges_disjoint_partial 0 _ (by simp only [NoWrap, Mem.next, Mem.setMax, Mem.new, W]; decide)

theorem mem_wrap_log :
    (mrun 0 Mem.new [.next 5, .next (W - 1), .next 1] []).2 =
      [.issue 0 5 1, .issue 0 6 (W - 1), .issue 0 1 5] := by
  decide

/-- FULL statement fails: the counter wraps past 2^64 and key 5 is handed out twice -/
theorem mem_wrap_witness : ¬ GoodLog (mrun 0 Mem.new [.next 5, .next (W - 1), .next 1] []).2 := by
  rw [mem_wrap_log]
  intro h
  have := h.1 0 1 5 (by simp)
  revert this
  decide

theorem mem_setmax_wrap_log :
    (mrun 0 Mem.new [.next 3, .setMax (W - 1), .next 1] []).2 =
      [.issue 0 0 1, .report 0 (W - 1), .issue 0 1 3] := by
  decide

/-- FULL statement fails: `SetMax(2^64-1)` wraps the counter to 0, the next key is below the report -/
theorem mem_setmax_wrap_witness :
    ¬ GoodLog (mrun 0 Mem.new [.next 3, .setMax (W - 1), .next 1] []).2 := by
  rw [mem_setmax_wrap_log]
  intro h
  have := h.2.1 (W - 1) (by simp)
  revert this
  decide

/-- leader change, positive form: a fresh MemorySequencer `i` taking over a good log `log0` is safe
    provided that BEFORE serving it is told (`SetMax seen`) a max key `seen` that covers every key handed
    out so far (and every earlier report to `i`), and nothing wraps afterwards.
    `mem_leader_change_witness` shows what happens when the reported max lags. -/
theorem mem_leader_change_partial (i : Nat) (log0 : List Obs) (seen : Nat) (evs : List MEv)
    (hg : GoodLog log0) (hi : ∀ j s c, Obs.issue j s c ∈ log0 → s + c ≤ seen + 1)
    (hr : ∀ seen', Obs.report i seen' ∈ log0 → seen' ≤ seen) (hs : seen + 1 < W)
    (hw : NoWrap (Mem.new.setMax seen) evs) :
    GoodLog (mrun i Mem.new (.setMax seen :: evs) log0).2 := by
  have hc : (Mem.new.setMax seen).counter = seen + 1 := by
    simp only [Mem.setMax, Mem.new]
    by_cases h1 : 1 ≤ seen
    · simp only [h1, if_true]; exact Nat.mod_eq_of_lt hs
    · simp only [h1, if_false]; omega
  show GoodLog (mrun i (Mem.new.setMax seen) evs (.report i seen :: log0)).2
  refine mem_run_good i _ (.report i seen :: log0) evs hg ?_ ?_ hw
  · intro j s c hm
    rw [hc]
    exact hi j s c (by simpa using hm)
  · intro seen' hm
    rw [hc]
    simp only [List.mem_cons] at hm
    rcases hm with hm | hm
    · cases hm; omega
    · have := hr seen' hm; omega

/-- non-vacuity of `mem_leader_change_partial`: the old leader handed out [1,6), the new one is told 5 -/
example : GoodLog (mrun 1 Mem.new [.setMax 5, .next 1] [.issue 0 1 5]).2 :=
  mem_leader_change_partial 1 [.issue 0 1 5] 5 [.next 1]
    (by simp [GoodLog])
    (fun j s c h => by simp at h; omega) (fun _ h => by simp at h) (by decide)
    (by simp only [NoWrap, Mem.setMax, Mem.new, W]; decide)

theorem mem_leader_change_log :
    (mrun 1 Mem.new [.setMax 3, .next 1] (mrun 0 Mem.new [.next 5] []).2).2 =
      [.issue 1 4 1, .report 1 3, .issue 0 1 5] := by
  decide

/-- FULL statement fails across a leader change: the old leader handed out [1,6), the new leader is
    told max key 3 only (heartbeats lag) and hands out 4 again -/
theorem mem_leader_change_witness :
    ¬ GoodLog (mrun 1 Mem.new [.setMax 3, .next 1] (mrun 0 Mem.new [.next 5] []).2).2 := by
  rw [mem_leader_change_log]
  intro h
  have := h.1 0 1 5 (by simp)
  revert this
  decide

/-! ### B. EtcdSequencer -/

/- FULL-STRENGTH statement (FALSE of the model and of the code):

     theorem etcd_ranges_good (evs : List EEv) : GoodLog (erun ({}, []) evs).2

   The "above every reported max key" half fails (`etcd_setmax_equals_witness`,
   `etcd_report_ignored_witness`).  The disjointness half holds: -/

/-- UNBOUNDED ARITHMETIC.  ALL interleavings of any number of EtcdSequencer instances over one etcd value — any
    schedule of key/value steps, any injected etcd failures, constructor runs (`.new`, leader changes) and
    `SetMax` included: the ranges handed out are pairwise disjoint.  This is about the machines `start`/`kvStep`
    that compute with naturals; the Go code computes in uint64 — see `etcd_ranges_disjoint_partial` below.
    The only excluded thing: a failed reservation (`Ret.failKey`, which the real code returns as key 0,
    finding class EtcdSequencer.NextFileId/etcd-error-returns-key-0) is not logged as a range (see `logOut`). -/
theorem etcd_ranges_disjoint_unbounded (evs : List EEv) : DisjLog (erun ({}, []) evs).2 :=
  (erun_inv evs {} [] einv_init).disj

/- FULL-STRENGTH statement for the uint64 machines the correspondence check runs against the Go code
   (FALSE of the model and of the code, `etcd_wrap_witness`):

     theorem etcd_ranges_disjoint (evs : List EEv) : DisjLog (erunW ({}, []) evs).2 -/

/-- UINT64 ARITHMETIC (`startW`/`kvStepW` = what the Go code computes).  The same for every schedule in which
    no uint64 addition wraps — `ENoWrap`, an explicit decidable predicate evaluated along the run:
    `currentSeqId + count`, `DefaultEtcdSteps + count` at every `NextFileId(count)`, `prevSeqValue + step` and
    `currentSeqId + count` at every compare-and-swap of `batchGetSequenceFromEtcd`, all ≤ 2^64-1.
    (`count` is client supplied, so the excluded schedules are reachable: finding class
    EtcdSequencer.NextFileId/counter-wraps-uint64.) -/
theorem etcd_ranges_disjoint_partial (evs : List EEv) (hw : ENoWrap ({}, []) evs) : DisjLog (erunW ({}, []) evs).2 := by
  rw [erunW_eq evs _ hw]
  exact (erun_inv evs {} [] einv_init).disj

/-- … and under the same hypothesis the uint64 machines ARE the unbounded ones, so every theorem below transfers -/
theorem etcd_uint64_run_eq (evs : List EEv) (st : ESt × List Obs) (hw : ENoWrap st evs) : erunW st evs = erun st evs :=
  erunW_eq evs st hw

/-- the schedule of `etcd_wrap_witness`: one key, then `NextFileId(2^64-1)`, then one key -/
def etcdWrapEvs : List EEv :=
  [.start 0 (.new 0), .kv 0 false, .kv 0 false, .kv 0 false,
   .start 0 (.next 1), .kv 0 false, .kv 0 false,
   .start 0 (.next (W - 1)), .start 0 (.next 1)]

theorem etcd_wrap_log : (erunW ({}, []) etcdWrapEvs).2 = [.issue 0 1 1, .issue 0 2 (W - 1), .issue 0 1 1] := by
  decide

/-- WHAT HAPPENS AT THE BOUNDARY: with the window [2,501), `NextFileId(2^64-1)` computes
    `2 + (2^64-1) = 1 (mod 2^64) < 501`, serves the request from the local window and leaves
    `currentSeqId = 1`: key 1 is handed out a second time. -/
theorem etcd_wrap_witness : ¬ DisjLog (erunW ({}, []) etcdWrapEvs).2 := by
  rw [etcd_wrap_log]
  intro h
  have := h.1 0 1 1 (by simp)
  revert this
  decide

/-- … and the witness is exactly an excluded schedule -/
theorem etcd_wrap_witness_is_excluded : ¬ ENoWrap ({}, []) etcdWrapEvs := by decide

/-- non-vacuity of `etcd_ranges_disjoint_partial`: two instances racing on the compare-and-swap -/
example : ENoWrap ({}, []) [.start 0 (.new 0), .kv 0 false, .kv 0 false, .kv 0 false,
      .start 1 (.new 1), .kv 1 false, .start 0 (.next 1), .start 1 (.next 1),
      .kv 0 false, .kv 1 false, .kv 0 false, .kv 1 false, .kv 1 false, .kv 1 false] := by decide

/-- the same from any state satisfying the invariant (what a step relies on, and what it gives back) -/
theorem etcd_step_preserves (s : ESt) (log : List Obs) (ev : EEv) (h : EInv s log) :
    EInv (estep (s, log) ev).1 (estep (s, log) ev).2 := estep_inv s log ev h

example : EInv {} [] := einv_init

/-- non-vacuity: two instances racing on the compare-and-swap both get a range (the loser retries) -/
example :
    (erun ({}, []) [.start 0 (.new 0), .kv 0 false, .kv 0 false, .kv 0 false,
      .start 1 (.new 1), .kv 1 false, .start 0 (.next 1), .start 1 (.next 1),
      .kv 0 false, .kv 1 false, .kv 0 false, .kv 1 false, .kv 1 false, .kv 1 false]).2 =
      [.issue 1 501 1, .issue 0 1 1] := by
  decide

theorem etcd_setmax_equals_log :
    (erun ({}, []) [.start 0 (.new 0), .kv 0 false, .kv 0 false, .kv 0 false,
      .start 0 (.setMax 300), .kv 0 false, .kv 0 false, .kv 0 false,
      .start 0 (.next 1), .kv 0 false, .kv 0 false]).2 = [.issue 0 300 1, .report 0 300] := by
  decide

/-- FULL statement fails: after `SetMax(300)` the sequencer hands out key 300 itself
    (memory sequencer: seen+1; etcd sequencer: seen) -/
theorem etcd_setmax_equals_witness :
    ¬ GoodLog (erun ({}, []) [.start 0 (.new 0), .kv 0 false, .kv 0 false, .kv 0 false,
      .start 0 (.setMax 300), .kv 0 false, .kv 0 false, .kv 0 false,
      .start 0 (.next 1), .kv 0 false, .kv 0 false]).2 := by
  rw [etcd_setmax_equals_log]
  intro h
  have := h.2.1 300 (by simp)
  omega

theorem etcd_report_ignored_log :
    (erun ({}, []) [.start 0 (.new 0), .kv 0 false, .kv 0 false, .kv 0 false,
      .start 0 (.next 1), .kv 0 false, .kv 0 false,
      .start 0 (.setMax 400), .start 0 (.next 1)]).2 =
      [.issue 0 2 1, .report 0 400, .issue 0 1 1] := by
  decide

/-- FULL statement fails: `SetMax(400)` with 400 ≤ maxSeqId (501) is ignored although
    currentSeqId = 2, and key 2 is handed out next -/
theorem etcd_report_ignored_witness :
    ¬ GoodLog (erun ({}, []) [.start 0 (.new 0), .kv 0 false, .kv 0 false, .kv 0 false,
      .start 0 (.next 1), .kv 0 false, .kv 0 false,
      .start 0 (.setMax 400), .start 0 (.next 1)]).2 := by
  rw [etcd_report_ignored_log]
  intro h
  have := h.2.1 400 (by simp)
  omega

/-! ### C. volume ids -/

/- FULL-STRENGTH statement (FALSE of the model without the volume growth lock):

     theorem vids_distinct_full (evs : List VEv) : Distinct (vrun ({}, []) evs).2

   see `vids_unlocked_witness`. -/

/-- from any state with no thread in flight whose returned ids are distinct and ≤ max: for every
    schedule with at most one `NextVolumeId` in flight at a time (`Serial` = the growth lock), any raft
    failures and any heartbeats raising max, the returned ids are pairwise distinct and ≤ the final max -/
theorem vids_distinct (s : VSt) (ids : List Nat) (evs : List VEv)
    (hp : ∀ k, s.pend k = none) (hd : Distinct ids) (hm : ∀ id, id ∈ ids → id ≤ s.max)
    (hs : Serial s evs) :
    Distinct (vrun (s, ids) evs).2 ∧ ∀ id, id ∈ (vrun (s, ids) evs).2 → id ≤ (vrun (s, ids) evs).1.max := by
  have h0 : VInv s ids := by
    refine ⟨hd, hm, ?_, ?_⟩
    · intro t nx h; rw [hp t] at h; cases h
    · intro t _ a _ h; rw [hp t] at h; cases h
  have := vrun_inv evs s ids h0 hs
  exact ⟨this.1, this.2.1⟩

/-- non-vacuity of `vids_distinct`: a serial schedule with a failed raft call and a heartbeat -/
example : Serial {} [.start 0, .apply 0 false, .hb 7, .start 1, .apply 1 true, .start 0, .apply 0 false] := by
  simp [Serial, startOk, vnext, vStart, vApply, vHb]
  intro k hk
  by_cases h0 : k = 0 <;> simp [hk, h0]

theorem vids_unlocked_log :
    (vrun ({}, []) [.start 0, .start 1, .apply 0 false, .apply 1 false]).2 = [1, 1] := by
  decide

/-- without the lock two threads read the same max and both return id 1 -/
theorem vids_unlocked_witness :
    ¬ Distinct (vrun ({}, []) [.start 0, .start 1, .apply 0 false, .apply 1 false]).2 := by
  rw [vids_unlocked_log]
  intro h
  exact h.1 (by simp)

/-- … and the theorem applies to it -/
example : Distinct (vrun ({}, []) [.start 0, .apply 0 false, .hb 7, .start 1, .apply 1 true, .start 0,
    .apply 0 false]).2 :=
  (vids_distinct {} [] _ (fun _ => rfl) trivial (fun _ h => by cases h) (by
    simp [Serial, startOk, vnext, vStart, vApply, vHb]
    intro k hk
    by_cases h0 : k = 0 <;> simp [hk, h0])).1

/-- a volume id is above every max reported (heartbeat / restore) BEFORE the thread read the max:
    `vStart` proposes max+1, and `vHb` never lowers the max -/
theorem vid_above_reported (s : VSt) (m t nx : Nat) (h : (vStart (vHb s m) t).2 = some nx) : m < nx := by
  unfold vStart at h
  cases hp : (vHb s m).pend t with
  | some _ => simp [hp] at h
  | none =>
    simp [hp] at h
    unfold vHb at h
    simp at h
    split at h <;> omega

/-! ### D. SnowflakeSequencer (clock/library based: only "distinct if the library's ids are distinct") -/

/-- single-key assignments with distinct ids never overlap … -/
theorem snowflake_single_keys_disjoint_partial (a b : Nat) (h : a ≠ b) : overlap a 1 b 1 = false := by
  unfold overlap
  simp
  omega

/-- … but `NextFileId(count)` ignores `count`: two ids of the same millisecond differ by 1, so the
    ranges of multi-key assignments overlap (finding SnowflakeSequencer.NextFileId/count-ignored) -/
theorem snowflake_count_ignored_witness (a : Nat) : overlap a 4 (a + 1) 4 = true := by
  unfold overlap
  simp
  omega

/-! ### C'. the volume-id judge is the property -/

/-- what the driver tests on every returned volume id (`vidJudge`: not returned before) is exactly the step of
    `Distinct`, and a list passes the judge id by id iff it is `Distinct` -/
theorem vid_judge_is_distinct (ids : List Nat) (id : Nat) :
    (Distinct (id :: ids) ↔ vidJudge ids id = true ∧ Distinct ids) ∧ (vidJudgeAll (id :: ids) = true ↔ Distinct (id :: ids)) :=
  ⟨vidJudge_iff ids id, vidJudgeAll_iff (id :: ids)⟩

example : vidJudge [3, 2, 1] 4 = true ∧ vidJudge [3, 2, 1] 2 = false := by decide

/-! ### E. a heartbeat on a new leader is two steps: `SetMax`, THEN volume registration -/

/-- With the order of `SendHeartbeat` (`hbOrder` = raise the sequencer, then register the volumes) an assign that
    runs before, between or after the two steps and lands on one of the heartbeat's volumes gets a key ABOVE the
    heartbeat's max key (every key in use in those volumes is ≤ it): before and between the volume is not pickable
    yet, afterwards the sequencer has been raised.  (`maxFileKey + 1 < 2^64`: otherwise finding
    MemorySequencer.SetMax/wraps-to-zero.) -/
theorem hb_assign_safe_in_order (hb : Heartbeat) (s s' : MSt) (k vid count key : Nat)
    (hnew : ∀ v ∈ hb.vols, v ∉ s.writable) (hv : vid ∈ hb.vols) (hw : hb.maxFileKey + 1 < W)
    (h : assignAfter hbOrder hb s k vid count = some (key, s')) : hb.maxFileKey < key := by
  have hnot : vid ∉ s.writable := hnew vid hv
  unfold assignAfter hbOrder assign at h
  match k with
  | 0 =>
    simp at h
    exact absurd h.1 hnot
  | 1 =>
    simp [hbStep] at h
    exact absurd h.1 hnot
  | k + 2 =>
    simp [hbStep, Mem.next] at h
    have := mem_setMax_gt s.seq hb.maxFileKey hw
    omega

/-- FULL statement for the opposite order is false: register first, and an assign between the two steps hands
    out key 1 for volume 7 although the volume server reported keys up to 1000000 in use -/
theorem hb_swapped_order_witness :
    (assignAfter [.register, .setMax] ⟨1000000, [7]⟩ ⟨Mem.new, []⟩ 1 7 1).map (·.1) = some 1 := by decide

/-- … for every new leader whose sequencer is still at or below the reported max -/
theorem hb_swapped_order_unsafe (hb : Heartbeat) (s : MSt) (vid count : Nat) (hv : vid ∈ hb.vols)
    (hc : s.seq.counter ≤ hb.maxFileKey) :
    ∃ key s', assignAfter [.register, .setMax] hb s 1 vid count = some (key, s') ∧ key ≤ hb.maxFileKey := by
  refine ⟨s.seq.counter, { seq := (s.seq.next count).2, writable := s.writable ++ hb.vols }, ?_, hc⟩
  unfold assignAfter assign
  simp [hbStep, hv, Mem.next]

/-- non-vacuity of `hb_assign_safe_in_order`: after both steps the assign succeeds, above the reported max -/
example : (assignAfter hbOrder ⟨1000000, [7]⟩ ⟨Mem.new, []⟩ 2 7 1).map (·.1) = some 1000001 := by decide
example : assignAfter hbOrder ⟨1000000, [7]⟩ ⟨Mem.new, []⟩ 1 7 1 = none := by decide

/-- the heartbeat judge (`hbJudge`: no grant on one of the heartbeat's volumes carries a key ≤ the reported max —
    what the driver tests on the grants the clients of `hbrace` got from the REAL `SendHeartbeat`/`PickForWrite`)
    accepts every grant the model can produce in the source order, at whatever point of the heartbeat the assign
    runs -/
theorem hb_grants_pass_judge (hb : Heartbeat) (s : MSt)
    (hnew : ∀ v ∈ hb.vols, v ∉ s.writable) (hw : hb.maxFileKey + 1 < W) :
    hbJudge hb.maxFileKey hb.vols (hbGrants hbOrder hb s) = none := by
  rw [hbJudge_none_iff]
  intro g hg _
  unfold hbGrants at hg
  simp only [List.mem_flatMap, List.mem_filterMap, Option.map_eq_some_iff] at hg
  obtain ⟨k, _, vid, hvid, r, hr, rfl⟩ := hg
  exact hb_assign_safe_in_order hb s r.2 k vid 1 r.1 hnew hvid hw hr

/-- … so the model's `below` count (the driver's prediction for the `below` output of `hbrace`) is 0 -/
theorem hb_below_zero (hb : Heartbeat) (s : MSt)
    (hnew : ∀ v ∈ hb.vols, v ∉ s.writable) (hw : hb.maxFileKey + 1 < W) :
    hbBelow hbOrder hb s = 0 := by
  have h := (hbJudge_none_iff _ _ _).mp (hb_grants_pass_judge hb s hnew hw)
  unfold hbBelow
  rw [List.length_eq_zero_iff, List.filter_eq_nil_iff]
  intro g hg
  have hv : g.1 ∈ hb.vols := by
    unfold hbGrants at hg
    simp only [List.mem_flatMap, List.mem_filterMap, Option.map_eq_some_iff] at hg
    obtain ⟨_, _, vid, hvid, _, _, rfl⟩ := hg
    exact hvid
  have := h g hg hv
  simp
  omega

/-- non-vacuity: the model does grant (after both steps), and the grant is the one above the reported max -/
example : hbGrants hbOrder ⟨1000000, [7, 8]⟩ ⟨Mem.new, []⟩ = [(7, 1000001), (8, 1000001)] := by decide

/-- the opposite order is rejected by the judge: the grants between the two steps carry key 1 -/
theorem hb_swapped_order_judged :
    hbJudge 1000000 [7] (hbGrants [.register, .setMax] ⟨1000000, [7]⟩ ⟨Mem.new, []⟩) = some hbClass ∧
    hbBelow [.register, .setMax] ⟨1000000, [7]⟩ ⟨Mem.new, []⟩ = 1 := by decide

/-! ### bridges: the source the models were written from (a source edit breaks these obligations) -/

theorem bridge_DefaultEtcdSteps : SwV.Gen.C13.DefaultEtcdSteps = (DefaultEtcdSteps : Int) := by decide
theorem bridge_mem_setmax_cond : SwV.Gen.C13.mem_setmax_cond = "m.counter <= seenValue" := by decide
theorem bridge_mem_setmax_assign : SwV.Gen.C13.mem_setmax_assign = "m.counter = seenValue + 1" := by decide
theorem bridge_mem_next_assign : SwV.Gen.C13.mem_next_assign = "m.counter += count" := by decide
theorem bridge_etcd_next_cond : SwV.Gen.C13.etcd_next_cond = "(es.currentSeqId + count) >= es.maxSeqId" := by decide
theorem bridge_etcd_setmax_cond : SwV.Gen.C13.etcd_setmax_cond = "seenValue > es.maxSeqId" := by decide
theorem bridge_src_mem_NextFileId : SwV.Gen.C13.src_mem_NextFileId = "764f2714c7772a5f" := by decide
theorem bridge_src_mem_SetMax : SwV.Gen.C13.src_mem_SetMax = "8c694e65ad36e61d" := by decide
theorem bridge_src_etcd_NextFileId : SwV.Gen.C13.src_etcd_NextFileId = "079538e9953c45a7" := by decide
theorem bridge_src_etcd_SetMax : SwV.Gen.C13.src_etcd_SetMax = "4bef06017b25c46c" := by decide
theorem bridge_src_batchGet : SwV.Gen.C13.src_batchGetSequenceFromEtcd = "9bc0caa8b905038a" := by decide
theorem bridge_src_setMaxToEtcd : SwV.Gen.C13.src_setMaxSequenceToEtcd = "bee1b21e1e79981e" := by decide
theorem bridge_src_NewEtcdSequencer : SwV.Gen.C13.src_NewEtcdSequencer = "3da880fe3f575517" := by decide
theorem bridge_src_snow_NextFileId : SwV.Gen.C13.src_snow_NextFileId = "3b8e2827272679d8" := by decide
theorem bridge_src_NextVolumeId : SwV.Gen.C13.src_NextVolumeId = "75f61923e4ca5b22" := by decide
theorem bridge_src_MaxVolumeIdCommand_Apply : SwV.Gen.C13.src_MaxVolumeIdCommand_Apply = "3fcd340200047e34" := by decide
theorem bridge_src_UpAdjustMaxVolumeId : SwV.Gen.C13.src_UpAdjustMaxVolumeId = "1f9aba7b9176c19b" := by decide
/-- the growth lock assumed by `vids_distinct` (`Serial`): GrowByCountAndType holds vg.accessLock around findAndGrow → NextVolumeId -/
theorem bridge_src_GrowByCountAndType : SwV.Gen.C13.src_GrowByCountAndType = "6b9266a38f8e879b" := by decide
theorem bridge_src_findAndGrow : SwV.Gen.C13.src_findAndGrow = "a8da4b07174c9366" := by decide

/-- which step of the heartbeat model a call of the receive loop is -/
def stepOfCall : String → HbStep
  | "SetMax" => .setMax
  | _ => .register

/-- the step order of the heartbeat model is the call order in `MasterServer.SendHeartbeat`: `Sequence.SetMax` is the
    FIRST of the watched calls and an unconditional statement of the receive loop (depth 0); every call that makes
    volumes pickable comes after it -/
theorem bridge_hb_order :
    SwV.Gen.C13Hb.hbCalls.head? = some ("SetMax", 0) ∧
    (SwV.Gen.C13Hb.hbCalls.map (fun c => stepOfCall c.1)).eraseDups = hbOrder ∧
    SwV.Gen.C13Hb.hbCalls = [("SetMax", 0), ("IncrementalSyncDataNodeRegistration", 1), ("SyncDataNodeRegistration", 1)] := by
  decide

end SwV.Props.C13
