/-
C02 — property theorems: the needle on-disk encoding round-trips and is self-checking.
All statements are about the executable byte-level model in SwV/Model/C02.lean (tied to the Go code by the
correspondence run and by the `bridge_*` theorems over definitions regenerated from the source).
`crc` is a parameter of the encoding/scanning theorems (nothing there depends on which checksum function is
used); the section "the concrete checksum" is about the model's executable CRC-32C (`crc32c`, compared with
`needle.NewCRC` by the driver) and `CRC.Value()` (`crcValue`, bridged to the translated source).
-/
import SwV.Model.C02
import SwV.Spec.C02
import SwV.Gen.C02
import SwV.Lemmas.C02
import SwV.Lemmas.C02Crc

namespace SwV.Props.C02
open SwV.Model.C02 SwV.Spec.C02 SwV.Lemmas.C02

/-! ### alignment -/

/-- ∀ size, both versions (indeed any version number): a record occupies a multiple of 8 bytes and the padding
    is between 1 and 8 bytes -/
theorem actualSize_aligned (size v : Nat) :
    actualSize size v % 8 = 0 ∧ 1 ≤ paddingLength size v ∧ paddingLength size v ≤ 8 :=
  ⟨actualSize_mod8 size v, padding_range size v⟩

/-- every well-formed needle is written as exactly `GetActualSize(n.Size)` bytes, a multiple of 8 -/
theorem encode_aligned (crc : Bytes → UInt32) (v : Nat) (n : Needle) (h : WF crc n) :
    (encode v n).length = actualSize (recSize n) v ∧ (encode v n).length % 8 = 0 := by
  rw [encode_length crc v n h]; exact ⟨rfl, actualSize_mod8 _ _⟩

/-- FULL-STRENGTH "any flag combination is stored as an aligned record" needs the well-formedness hypothesis:
    the TTL flag without a TTL value makes `Size` count two bytes that are never written (witness, v3). -/
theorem encode_unaligned_without_wf_witness :
    (encode 3 { cookie := 1, id := 2, flags := 0x10, data := [7], ttl := none }).length % 8 ≠ 0 := by
  decide

/-! ### round trip -/

/-- decode (encode n) returns every stored field — needles with data -/
theorem decode_encode (crc : Bytes → UInt32) (v : Nat) (n : Needle) (h : WF crc n) (hd : 0 < n.data.length) :
    readBytes crc v (encode v n) (recSize n) =
      .ok { cookie := n.cookie, id := n.id, size := recSize n, body := storedBody n,
            appendAtNs := if v = 3 then n.appendAtNs else 0 } := by
  rw [readBytes_encode crc v n h]; simp [expectedDecode, hd]

/-- the empty-data case, stated separately: the record is header + checksum + timestamp + padding only
    (`Size = 0`), so NO metadata (name, mime, pairs, TTL, last-modified, flags) is stored or returned -/
theorem decode_encode_empty (crc : Bytes → UInt32) (v : Nat) (n : Needle) (h : WF crc n) (hd : n.data = []) :
    recSize n = 0 ∧
    readBytes crc v (encode v n) 0 =
      .ok { cookie := n.cookie, id := n.id, size := 0, body := {}, appendAtNs := if v = 3 then n.appendAtNs else 0 } := by
  have h0 : recSize n = 0 := by simp [recSize, hd]
  refine ⟨h0, ?_⟩
  have := readBytes_encode crc v n h
  rw [h0] at this
  rw [show ((0 : Nat) : Int) = 0 from rfl] at this
  rw [this]; simp [expectedDecode, hd, h0]

/-- a needle whose unflagged fields are empty is returned exactly: `storedBody` is the needle itself -/
theorem stored_is_needle (n : Needle)
    (h1 : hasName n.flags = false → n.name = []) (h2 : hasMime n.flags = false → n.mime = [])
    (h3 : hasLastModified n.flags = false → n.lastModified = 0) (h4 : hasTtl n.flags = false → n.ttl = none)
    (h5 : hasPairs n.flags = false → n.pairs = []) :
    (storedBody n).data = n.data ∧ (storedBody n).name = n.name ∧ (storedBody n).mime = n.mime ∧
    (storedBody n).lastModified = n.lastModified ∧ (storedBody n).ttl = n.ttl ∧ (storedBody n).pairs = n.pairs ∧
    (storedBody n).flags = n.flags := by
  unfold storedBody
  cases e1 : hasName n.flags <;> cases e2 : hasMime n.flags <;> cases e3 : hasLastModified n.flags <;>
    cases e4 : hasTtl n.flags <;> cases e5 : hasPairs n.flags <;> simp_all

/-- the same through the file API: `ReadData` at the record's offset inside any file -/
theorem read_at_offset (crc : Bytes → UInt32) (v : Nat) (n : Needle) (h : WF crc n) (pre post : Bytes) :
    readData crc v (pre ++ (encode v n ++ post)) pre.length (recSize n) = .ok (expectedDecode v n) :=
  readData_at crc v n h pre post

/-! ### scanning -/

/-- scanning the concatenation of encodings (after any prefix, e.g. the super block) visits exactly those
    records, in order, at the right offsets, and stops cleanly at the end of the file -/
theorem scan_append (crc : Bytes → UInt32) (v : Nat) (ns : List Needle) (hwf : ∀ n ∈ ns, WF crc n)
    (pre : Bytes) (fuel : Nat) (hf : ns.length < fuel) :
    scanFrom v (pre ++ concatEnc v ns) true fuel pre.length = (visitsOf v pre.length ns, .eof) :=
  scanFrom_concat crc v ns hwf pre fuel hf

/-- … in the terms of the spec: the i-th visit carries the i-th needle's identity, size and stored fields -/
theorem scan_visits_are_the_records (v : Nat) (offset : Nat) (ns : List Needle) :
    (visitsOf v offset ns).map (fun x => (x.cookie, x.id, x.size, x.body, x.appendAtNs)) =
      ns.map (fun n => let e := expectedDecode v n; (e.cookie, e.id, (e.size : Int), e.body, e.appendAtNs)) ∧
    (visitsOf v offset ns).length = ns.length := by
  induction ns generalizing offset with
  | nil => simp [visitsOf]
  | cons n rest ih =>
    have := ih (offset + actualSize (recSize n) v)
    simp [visitsOf, visitOf, expectedDecode, this.1, this.2]

/-- offsets: each record starts where the previous one ended (all multiples of 8 when the prefix is) -/
theorem scan_offsets (v : Nat) (offset : Nat) (n : Needle) (rest : List Needle) :
    visitsOf v offset (n :: rest) = visitOf v offset n :: visitsOf v (offset + actualSize (recSize n) v) rest := rfl

/-! ### self-checking -/

/-- decode returns data only if the stored checksum equals `crc` of the returned data (in `CRC.Value` form):
    ANY blob, any claimed size — the decision logic of "altered data is reported, not returned" -/
theorem decode_checks_crc (crc : Bytes → UInt32) (v : Nat) (blob : Bytes) (size : Int) (d : Decoded)
    (h : readBytes crc v blob size = .ok d) (hpos : 0 < d.size) :
    beNat (((blob.drop 16).drop d.size).take 4) = crcValue (crc d.body.data).toNat :=
  readBytes_crc crc v blob size d h hpos

/-! ### the concrete checksum: CRC-32C separates single-bit (indeed single-byte) alterations -/

/-- for EVERY byte string and every bit position: flipping that bit changes the CRC-32C (`NewCRC`), i.e. the
    executable bitwise Castagnoli CRC of the model, the one the driver runs against the real code -/
theorem crc32c_detects_single_bit (d : Bytes) (i : Nat) (hi : i < 8 * d.length) :
    crc32c (flipBit d i) ≠ crc32c d :=
  crc32c_single_bit d i hi

/-- stronger: ANY change confined to one byte (all 255 alternatives: every burst of up to 8 bits inside a byte) -/
theorem crc32c_detects_one_byte_change (pre post : Bytes) (x y : UInt8) (hxy : x ≠ y) :
    crc32c (pre ++ x :: post) ≠ crc32c (pre ++ y :: post) :=
  crc32c_one_byte pre post x y hxy

/-- the reason: the per-bit register update is injective and fixes 0 (polynomial with constant term 1), so a
    nonzero difference never dies out while the remaining bytes are fed -/
theorem crc_step_injective : (∀ a b : UInt32, crcBit a = crcBit b → a = b) ∧ crcBit 0 = 0 :=
  ⟨crcBit_inj, crcBit_zero⟩

/-- `CRC.Value()` (rotate right by 15, add 0xa282ead8) is a bijection on 32-bit values -/
theorem crc_value_bijective :
    (∀ a b : Nat, a < 2 ^ 32 → b < 2 ^ 32 → crcValue a = crcValue b → a = b) ∧
    (∀ c : Nat, c < 2 ^ 32 → crcUnvalue (crcValue c) = c) :=
  ⟨crcValue_inj, crcUnvalue_crcValue⟩

/-- burst errors: two messages whose bit strings (`bitsOf`: bytes in order, least significant bit first — the
    order in which the reflected CRC consumes them) differ only inside a window of at most 32 consecutive bits,
    anywhere and across byte boundaries, have different CRC-32C.  (Uses that the register update is GF(2)-linear
    and injective: feeding n ≤ 32 bits = xoring them in as one word and stepping n times.) -/
theorem crc32c_detects_burst32 (d e : Bytes) (pre u u' post : List Bool)
    (hd : bitsOf d = pre ++ (u ++ post)) (he : bitsOf e = pre ++ (u' ++ post))
    (hl : u.length = u'.length) (hn : u.length ≤ 32) (hne : u ≠ u') : crc32c d ≠ crc32c e :=
  crc32c_burst32 d e pre u u' post hd he hl hn hne

/-- … through the decoder: data replaced by data differing in a burst of at most 32 bits ⇒ CRC error -/
theorem decode_detects_burst32 (v : Nat) (n : Needle) (h : WF crc32c n) (d' : Bytes) (pre u u' post : List Bool)
    (hd : bitsOf n.data = pre ++ (u ++ post)) (he : bitsOf d' = pre ++ (u' ++ post))
    (hl : u.length = u'.length) (hn : u.length ≤ 32) (hne : u ≠ u') :
    readBytes crc32c v (encode v (withData n d')) (recSize n) = .error .crc := by
  have l1 := bitsOf_length n.data
  have l2 := bitsOf_length d'
  rw [hd] at l1; rw [he] at l2
  simp only [List.length_append] at l1 l2
  have hu : 0 < u.length := by
    cases u with
    | nil => cases u' with
      | nil => exact absurd rfl hne
      | cons _ _ => simp at hl
    | cons _ _ => simp
  exact readBytes_withData crc32c v n h d' (by omega) (by omega)
    (crc32c_burst32 d' n.data pre u' u post he hd hl.symm (by omega) (Ne.symm hne))

/-- non-vacuity: a 32-bit burst starting at bit 7 of byte 0 and ending at bit 6 of byte 4 -/
example : bitsOf [0x00, 0x00, 0x00, 0x00, 0x00] = List.replicate 7 false ++ (List.replicate 32 false ++ [false]) ∧
    bitsOf [0x80, 0x00, 0x00, 0x00, 0x40] =
      List.replicate 7 false ++ ((true :: List.replicate 30 false ++ [true]) ++ [false]) ∧
    (List.replicate 32 false).length = (true :: List.replicate 30 false ++ [true]).length ∧
    List.replicate 32 false ≠ (true :: List.replicate 30 false ++ [true]) := by decide

/-- through the decoder: a stored record whose data differs from the written data in exactly one bit (every other
    byte of the record untouched, see `corrupt_record_shape`) is answered with the CRC error — never with data —
    for every well-formed needle, both versions, every bit position -/
theorem decode_detects_single_bit (v : Nat) (n : Needle) (h : WF crc32c n) (i : Nat) (hi : i < 8 * n.data.length) :
    readBytes crc32c v (encode v (corruptData n i)) (recSize n) = .error .crc :=
  readBytes_withData crc32c v n h _ (flipBit_length _ _) (by omega) (crc32c_single_bit n.data i hi)

/-- … any alteration inside one data byte -/
theorem decode_detects_one_byte_change (v : Nat) (n : Needle) (h : WF crc32c n) (pre post : Bytes) (x y : UInt8)
    (hd : n.data = pre ++ x :: post) (hxy : x ≠ y) :
    readBytes crc32c v (encode v (withData n (pre ++ y :: post))) (recSize n) = .error .crc :=
  readBytes_withData crc32c v n h _ (by simp [hd]) (by rw [hd, List.length_append, List.length_cons]; omega)
    (by rw [hd]; exact crc32c_one_byte pre post y x (Ne.symm hxy))

/-- … and through the file API (`ReadData` at the record's offset inside any file) -/
theorem read_at_offset_detects_single_bit (v : Nat) (n : Needle) (h : WF crc32c n) (i : Nat)
    (hi : i < 8 * n.data.length) (pre post : Bytes) :
    readData crc32c v (pre ++ (encode v (corruptData n i) ++ post)) pre.length (recSize n) = .error .crc := by
  have hw := withData_wf crc32c n (flipBit n.data i) (flipBit_length _ _) h
  have := readData_at_any _ crc32c v (corruptData n i) hw pre post
  rw [show recSize (corruptData n i) = recSize n from withData_recSize n _ (flipBit_length _ _)] at this
  rw [this]; exact decode_detects_single_bit v n h i hi

/-- what "the data bytes are altered" means on disk: the corrupted record is the written record with only the
    data bytes replaced (header, data size, flags, metadata, stored checksum, timestamp, padding identical) -/
theorem corrupt_record_shape (v : Nat) (n : Needle) (i : Nat) (hi : i < 8 * n.data.length) :
    encode v n = headerBytes n ++ ((be 4 n.data.length ++ (n.data ++ (n.flags :: metaBytes n))) ++ tailBytes v n) ∧
    encode v (corruptData n i) =
      headerBytes n ++ ((be 4 n.data.length ++ (flipBit n.data i ++ (n.flags :: metaBytes n))) ++ tailBytes v n) ∧
    flipBit n.data i ≠ n.data :=
  ⟨(withData_shape v n (flipBit n.data i) (flipBit_length _ _) (by omega)).1,
    (withData_shape v n (flipBit n.data i) (flipBit_length _ _) (by omega)).2, flipBit_ne n.data i hi⟩

/-- the decision for an arbitrary checksum function (what `decode_checks_crc` gives, in the positive form):
    replaced data with a different checksum ⇒ CRC error -/
theorem decode_altered_of_crc_ne (crc : Bytes → UInt32) (v : Nat) (n : Needle) (h : WF crc n) (d' : Bytes)
    (hl : d'.length = n.data.length) (hpos : 0 < n.data.length) (hc : crc d' ≠ crc n.data) :
    readBytes crc v (encode v (withData n d')) (recSize n) = .error .crc :=
  readBytes_withData crc v n h d' hl hpos hc

/-- non-vacuity: a well-formed needle w.r.t. the concrete CRC, one of its flips, and the verdict computed -/
example : WF crc32c { cookie := 1, id := 2, flags := 0, data := [1, 2, 3], checksum := (crc32c [1, 2, 3]).toNat } ∧
    flipBit [1, 2, 3] 9 = [1, 0, 3] ∧
    (match readBytes crc32c 3 (encode 3 (corruptData
      { cookie := 1, id := 2, flags := 0, data := [1, 2, 3], checksum := (crc32c [1, 2, 3]).toNat } 9)) 8 with
     | .error .crc => true | _ => false) = true := by
  decide +kernel
/-- the standard check value of CRC-32C: crc32c("123456789") = 0xE3069283 -/
example : crc32c [0x31, 0x32, 0x33, 0x34, 0x35, 0x36, 0x37, 0x38, 0x39] = 0xE3069283 := by decide +kernel

/-! ### bridges to the regenerated source facts (T1) -/

theorem bridge_consts :
    SwV.Gen.C02.NeedleHeaderSize = 16 ∧ SwV.Gen.C02.NeedlePaddingSize = 8 ∧ SwV.Gen.C02.NeedleChecksumSize = 4 ∧
    SwV.Gen.C02.TimestampSize = 8 ∧ SwV.Gen.C02.CookieSize = 4 ∧ SwV.Gen.C02.NeedleIdSize = 8 ∧ SwV.Gen.C02.SizeSize = 4 ∧
    SwV.Gen.C02.LastModifiedBytesLength = 5 ∧ SwV.Gen.C02.TtlBytesLength = 2 ∧
    SwV.Gen.C02.Version2 = 2 ∧ SwV.Gen.C02.Version3 = 3 ∧ SwV.Gen.C02.CurrentVersion = 3 := by decide

theorem bridge_flags :
    SwV.Gen.C02.FlagIsCompressed = 0x01 ∧ SwV.Gen.C02.FlagHasName = 0x02 ∧ SwV.Gen.C02.FlagHasMime = 0x04 ∧
    SwV.Gen.C02.FlagHasLastModifiedDate = 0x08 ∧ SwV.Gen.C02.FlagHasTtl = 0x10 ∧ SwV.Gen.C02.FlagHasPairs = 0x20 ∧
    SwV.Gen.C02.FlagIsChunkManifest = 0x80 := by decide

/-- the translated `PaddingLength` / `NeedleBodyLength` / `GetActualSize` agree with the model on every size a
    needle can have (int32, no overflow), versions 2 and 3 -/
theorem bridge_sizes (size : Nat) (v : Nat) (hv : v = 2 ∨ v = 3) (h : size + 28 < 2 ^ 31) :
    SwV.Gen.C02.PaddingLength size v = (paddingLength size v : Nat) ∧
    SwV.Gen.C02.NeedleBodyLength size v = (bodyLength size v : Nat) ∧
    SwV.Gen.C02.GetActualSize size v = (actualSize size v : Nat) := by
  have t2 : tsLen 2 = 0 := rfl
  have t3 : tsLen 3 = 8 := rfl
  have hp : SwV.Gen.C02.PaddingLength size v = (paddingLength size v : Nat) := by
    rcases hv with rfl | rfl
    · simp only [SwV.Gen.C02.PaddingLength, paddingLength, t2, SwV.Go.wrapS, SwV.Go.tmod, Nat.reduceSub,
        show ((2 : Nat) : Int) = 2 from rfl, show ¬ ((2 : Int) = 3) by decide, decide_false, Bool.false_eq_true, if_false]
      have e : ((16 : Int) + (size : Int) + 2 ^ 31) % 2 ^ 32 - 2 ^ 31 = 16 + size := by omega
      rw [e]
      have e2 : ((16 : Int) + size + 4 + 2 ^ 31) % 2 ^ 32 - 2 ^ 31 = 16 + size + 4 := by omega
      rw [e2, Int.tmod_eq_emod_of_nonneg (by omega)]
      omega
    · simp only [SwV.Gen.C02.PaddingLength, paddingLength, t3, SwV.Go.wrapS, SwV.Go.tmod, Nat.reduceSub,
        show ((3 : Nat) : Int) = 3 from rfl, decide_true, if_true]
      have e : ((16 : Int) + (size : Int) + 2 ^ 31) % 2 ^ 32 - 2 ^ 31 = 16 + size := by omega
      rw [e]
      have e2 : ((16 : Int) + size + 4 + 2 ^ 31) % 2 ^ 32 - 2 ^ 31 = 16 + size + 4 := by omega
      rw [e2]
      have e3 : ((16 : Int) + size + 4 + 8 + 2 ^ 31) % 2 ^ 32 - 2 ^ 31 = 16 + size + 4 + 8 := by omega
      rw [e3, Int.tmod_eq_emod_of_nonneg (by omega)]
      omega
  have hpr := padding_range size v
  have hb : SwV.Gen.C02.NeedleBodyLength size v = (bodyLength size v : Nat) := by
    unfold SwV.Gen.C02.NeedleBodyLength
    rw [hp]
    rcases hv with rfl | rfl
    · simp only [bodyLength, t2, SwV.Go.wrapS, Nat.reduceSub, show ((2 : Nat) : Int) = 2 from rfl, show ¬ ((2 : Int) = 3) by decide,
        decide_false, Bool.false_eq_true, if_false]
      omega
    · simp only [bodyLength, t3, SwV.Go.wrapS, Nat.reduceSub, show ((3 : Nat) : Int) = 3 from rfl, decide_true, if_true]
      omega
  refine ⟨hp, hb, ?_⟩
  unfold SwV.Gen.C02.GetActualSize
  rw [hb]
  have : bodyLength size v < 2 ^ 32 := by
    unfold bodyLength
    rcases hv with rfl | rfl
    · rw [t2]; omega
    · rw [t3]; omega
  simp only [actualSize, SwV.Go.wrapS, Nat.reduceSub]
  omega

/-- the translated `CRC.Value` (rotate by 15 and add 0xa282ead8) is the model's `crcValue` on every 32-bit value -/
theorem bridge_crc_value (c : Nat) (h : c < 2 ^ 32) : SwV.Gen.C02.CRC_Value c = (crcValue c : Nat) := by
  unfold SwV.Gen.C02.CRC_Value crcValue SwV.Go.bor SwV.Go.bitop SwV.Go.wrapU SwV.Go.shr SwV.Go.shl
  have a1 : (((c : Int) / 2 ^ (15 : Int).toNat) % 2 ^ 32).toNat = c >>> 15 := by
    rw [Nat.shiftRight_eq_div_pow]
    have : (15 : Int).toNat = 15 := rfl
    rw [this]
    have h2 : c / 2 ^ 15 < 2 ^ 32 := by omega
    omega
  have a2 : ((((c : Int) * 2 ^ (17 : Int).toNat) % 2 ^ 32) % 2 ^ 32).toNat = (c <<< 17) % 2 ^ 32 := by
    rw [Nat.shiftLeft_eq]
    have : (17 : Int).toNat = 17 := rfl
    rw [this]
    omega
  rw [a1, a2]
  have hl : (c >>> 15 ||| (c <<< 17) % 2 ^ 32) < 2 ^ 32 := by
    apply Nat.or_lt_two_pow
    · rw [Nat.shiftRight_eq_div_pow]; omega
    · exact Nat.mod_lt _ (by decide)
  have hor : Nat.lor (c >>> 15) ((c <<< 17) % 2 ^ 32) = (c >>> 15 ||| (c <<< 17) % 2 ^ 32) := rfl
  rw [hor]
  generalize (c >>> 15 ||| (c <<< 17) % 2 ^ 32) = L at hl ⊢
  simp only [Int.ofNat_eq_natCast]
  omega

/-- pins: the functions the model transcribes by hand have not changed since the model was written -/
theorem bridge_source_pins :
    SwV.Gen.C02.src_prepareWriteBuffer = "1482cf2b3f3182c9" ∧ SwV.Gen.C02.src_ReadBytes = "746f309f11ec61a4" ∧
    SwV.Gen.C02.src_readNeedleDataVersion2 = "1731c4fa7fd5bc48" ∧ SwV.Gen.C02.src_ScanVolumeFileFrom = "e0e92ede8f6b97e9" := by
  decide

/-! ### non-vacuity -/

example : WF (fun _ => 0) { cookie := 1, id := 2, flags := 0x3f, data := [1, 2, 3], name := [65], ttl := some (3, 2) } := by
  decide
example : WF (fun _ => 0) { cookie := 1, id := 2, flags := 0, data := [] } := by decide
example : (encode 3 { cookie := 1, id := 2, flags := 0, data := [7] }).length = 40 := by decide
example : (visitsOf 3 8 [{ cookie := 1, id := 2, flags := 0, data := [7] }, { cookie := 1, id := 3, flags := 0, data := [] }]).map (·.offset)
    = [8, 48] := by decide

end SwV.Props.C02
