/-
C07 — property theorems (theorems only; helper lemmas live in SwV/Lemmas/C07.lean).
They are about the byte-level model in SwV/Model/C07.lean, which the correspondence check
compares with the real .ecx/.ecj/.idx/.sdx files after every call; the `bridge_*` theorems tie
the model's constants and the callback-offset expression to the Go source (SwV/Gen/C07*.lean,
regenerated on every run for both offset widths).
-/
import SwV.Model.C07
import SwV.Spec.C07
import SwV.Gen.C07
import SwV.Gen.C07B5
import SwV.Lemmas.C07

namespace SwV.Props.C07
open SwV.Model.C07 SwV.Spec.C07 SwV.Lemmas.C07

/-! ### bridges to the source -/

/-- the callback of `SearchNeedleFromSortedIndex` is called with `m * NeedleMapEntrySize`, the same
    expression that addresses the entry for reading (this is the line repaired by the `fix:` commit) -/
theorem bridge_callback_multiplier :
    SwV.Gen.C07.callbackOffsetExpr = "m * types.NeedleMapEntrySize" ∧
    SwV.Gen.C07.readOffsetExpr = SwV.Gen.C07.callbackOffsetExpr ∧
    SwV.Gen.C07.searchLoopCond = "l < h" := by decide

/-- entry width of the model = `NeedleMapEntrySize` of the source, for both build tags -/
theorem bridge_entry_width :
    (entryWidth SwV.Gen.C07.OffsetSize.toNat : Int) = SwV.Gen.C07.NeedleMapEntrySize ∧
    (entryWidth SwV.Gen.C07B5.OffsetSize.toNat : Int) = SwV.Gen.C07B5.NeedleMapEntrySize ∧
    SwV.Gen.C07.OffsetSize = 4 ∧ SwV.Gen.C07B5.OffsetSize = 5 ∧
    SwV.Gen.C07.NeedleIdSize = 8 ∧ SwV.Gen.C07.SizeSize = 4 ∧ SwV.Gen.C07.TombstoneFileSize = -1 := by decide

/-- `IsDeleted`/`IsValid` of the model agree with the translated Go functions on every size -/
theorem bridge_size_predicates (s : Int) :
    isDeleted s = SwV.Gen.C07.Size_IsDeleted s ∧ isValid s = SwV.Gen.C07.Size_IsValid s := by
  unfold isDeleted isValid SwV.Gen.C07.Size_IsDeleted SwV.Gen.C07.Size_IsValid
  constructor
  · by_cases h : s < 0 <;> by_cases h2 : s = -1 <;> simp [h, h2] <;> omega
  · by_cases h : s > 0 <;> by_cases h2 : s = -1 <;> simp [h, h2]

/-! ### deleting marks exactly that needle -/

/-- a successful search returns an index inside the file whose entry carries the key -/
theorem search_sound (os : Nat) (bs : List Nat) (key m : Nat) (h : search os bs key = some m) :
    m < bs.length / entryWidth os ∧ keyOf (readAt bs (m * entryWidth os) (entryWidth os)) = key := by
  have := searchLoop_sound os bs key _ _ _ _ h
  exact ⟨this.2.1, this.2.2⟩

/-- MAIN THEOREM `ecx_delete_exact` — for EVERY index file holding a whole number of entries of
    either width (`os` arbitrary), every journal, every deleted key `key` and every looked-up key
    `k`: after `DeleteNeedleFromEcx key`, a lookup of `key` returns its old offset with the
    tombstone size, and a lookup of any other key returns exactly what it returned before
    (found-ness, offset and size).  No sortedness assumption is needed. -/
theorem ecx_delete_exact (os n : Nat) (bs ecj : List Nat) (hlen : bs.length = n * entryWidth os) (key k : Nat) :
    find os (deleteEcx os bs ecj key).1 k =
      if k = key then (find os bs key).map (fun r => (r.1, (-1 : Int))) else find os bs k := by
  have hw : 0 < entryWidth os := by unfold entryWidth; omega
  have hdiv : bs.length / entryWidth os = n := by rw [hlen]; exact Nat.mul_div_cancel _ hw
  unfold deleteEcx searchAndMark searchAndMarkWith
  cases hs : search os bs key with
  | none =>
    simp only
    by_cases hk : k = key
    · subst hk; simp [find, hs]
    · simp [hk]
  | some m =>
    simp only
    obtain ⟨hm, hkey⟩ := search_sound os bs key m hs
    rw [hdiv] at hm
    -- the entry m lies inside the file
    have hmw : m * entryWidth os + entryWidth os ≤ bs.length := by
      have := Nat.mul_le_mul_right (entryWidth os) (show m + 1 ≤ n by omega)
      rw [Nat.succ_mul] at this; omega
    have hwr : m * entryWidth os + 8 + os + tombstone.length ≤ bs.length := by
      have : tombstone.length = 4 := rfl
      unfold entryWidth at hmw ⊢; omega
    have hlen' : (markDeleted os bs (m * entryWidth os)).length = bs.length := by
      unfold markDeleted; exact writeAt_length _ _ _ hwr
    -- entry m after the write
    have hem : readAt (markDeleted os bs (m * entryWidth os)) (m * entryWidth os) (entryWidth os)
        = writeAt (readAt bs (m * entryWidth os) (entryWidth os)) (8 + os) tombstone := by
      unfold markDeleted
      rw [Nat.add_assoc]
      exact readAt_writeAt_inside bs _ _ (8 + os) tombstone hmw (by simp [entryWidth, tombstone])
    have hmark := marked_entry os (readAt bs (m * entryWidth os) (entryWidth os)) (readAt_length _ _ _ hmw)
    -- every other entry is untouched
    have hother : ∀ j, j < n → j ≠ m →
        readAt (markDeleted os bs (m * entryWidth os)) (j * entryWidth os) (entryWidth os)
          = readAt bs (j * entryWidth os) (entryWidth os) := by
      intro j _ hjm
      unfold markDeleted
      apply readAt_writeAt_disjoint _ _ _ _ _ hwr
      have ht : tombstone.length = 4 := rfl
      by_cases hlt : j < m
      · left
        have := Nat.mul_le_mul_right (entryWidth os) (show j + 1 ≤ m by omega)
        rw [Nat.succ_mul] at this; omega
      · right
        have := Nat.mul_le_mul_right (entryWidth os) (show m + 1 ≤ j by omega)
        rw [Nat.succ_mul] at this
        unfold entryWidth at this ⊢; omega
    -- so all keys are unchanged and every search gives the same index
    have hkeys : ∀ j, j < n →
        keyOf (readAt (markDeleted os bs (m * entryWidth os)) (j * entryWidth os) (entryWidth os))
          = keyOf (readAt bs (j * entryWidth os) (entryWidth os)) := by
      intro j hj
      by_cases hjm : j = m
      · subst hjm; rw [hem]; exact hmark.1
      · rw [hother j hj hjm]
    have hsearch : ∀ k, search os (markDeleted os bs (m * entryWidth os)) k = search os bs k := by
      intro k
      unfold search
      rw [hlen', hdiv]
      exact searchLoop_congr os bs _ k _ _ _ hkeys
    unfold find
    rw [hsearch k]
    by_cases hk : k = key
    · subst hk
      simp only [hs, if_true, Option.map]
      rw [hem, hmark.2.1, hmark.2.2]
    · simp only [hk, if_false]
      cases hs2 : search os bs k with
      | none => rfl
      | some j =>
        simp only
        obtain ⟨hj, hkj⟩ := search_sound os bs k j hs2
        rw [hdiv] at hj
        have hjm : j ≠ m := by
          intro e; subst e; rw [hkey] at hkj; exact hk hkj.symm
        rw [hother j hj hjm]

example : ∃ (os n : Nat) (bs : List Nat), bs.length = n * entryWidth os ∧ n = 2 ∧ os = 5 :=
  ⟨5, 2, List.replicate 34 0, by decide, rfl, rfl⟩

/-- the journal gets exactly the deleted key, and only when the key is in the index; the index
    keeps its length -/
theorem ecx_delete_journal (os : Nat) (bs ecj : List Nat) (key : Nat) :
    (deleteEcx os bs ecj key).2 = (if (search os bs key).isSome then ecj ++ beBytes 8 key else ecj) ∧
    ((search os bs key).isNone → (deleteEcx os bs ecj key).1 = bs) := by
  unfold deleteEcx searchAndMark searchAndMarkWith
  cases search os bs key <;> simp

/-- with the multiplier the code had before the fix (`NeedleHeaderSize` = 16) the statement of
    `ecx_delete_exact` is FALSE for 17-byte entries: two entries with keys 5 and 8, delete 8 —
    key 8 does not read as deleted and its offset is corrupted -/
theorem old_multiplier_wrong_for_17_byte_entries :
    let bs := entryBytes 5 5 1000 100 ++ entryBytes 5 8 2000 200
    find 5 ((searchAndMarkWith 16 5 bs 8).getD []) 8 ≠ (find 5 bs 8).map (fun r => (r.1, (-1 : Int))) ∧
    find 5 ((searchAndMarkWith 17 5 bs 8).getD []) 8 = some (2000, -1) := by decide

/-! ### rebuilding from index + journal -/

/-- one deletion with the journal kept as a list of keys -/
def delStep (os : Nat) (st : List Nat × List Nat) (k : Nat) : List Nat × List Nat :=
  match searchAndMark os st.1 k with
  | none => st
  | some e => (e, st.2 ++ [k])

/-- a run of deletions with the journal kept as a list of keys -/
def deleteAll (os : Nat) (ecx : List Nat) (ks : List Nat) : List Nat × List Nat :=
  ks.foldl (delStep os) (ecx, [])

/-- `rebuild_same_index` — for EVERY index and EVERY sequence of deleted keys (present or
    absent, repeated or not): re-applying the journal to the ORIGINAL index (`RebuildEcxFile`)
    yields byte-for-byte the index that the deletions produced; in particular the decoded entries
    and the live sets are the same. -/
theorem rebuild_same_index (os : Nat) (orig : List Nat) (ks : List Nat) :
    rebuildWith os orig (deleteAll os orig ks).2 = (deleteAll os orig ks).1 := by
  unfold deleteAll
  suffices h : ∀ (ks : List Nat) (st : List Nat × List Nat), rebuildWith os orig st.2 = st.1 →
      rebuildWith os orig (ks.foldl (delStep os) st).2 = (ks.foldl (delStep os) st).1 from h ks (orig, []) rfl
  intro ks
  induction ks with
  | nil => intro st h; exact h
  | cons k rest ih =>
    intro st h
    simp only [List.foldl_cons]
    apply ih
    unfold delStep
    cases hs : searchAndMark os st.1 k with
    | none => exact h
    | some e =>
      simp only [rebuildWith, List.foldl_append, List.foldl_cons, List.foldl_nil]
      have h' : List.foldl (fun bs k => (searchAndMark os bs k).getD bs) orig st.2 = st.1 := h
      rw [h', hs]; rfl

theorem rebuild_same_live_set (os : Nat) (orig : List Nat) (ks : List Nat) :
    liveSet (decode os (rebuildWith os orig (deleteAll os orig ks).2)) =
    liveSet (decode os (deleteAll os orig ks).1) := by
  rw [rebuild_same_index]

/-- the journal file written by `DeleteNeedleFromEcx` decodes to the list of keys: one 8-byte
    record reads back as the key it encodes (checked on the boundary keys of the id space) -/
theorem journal_record_roundtrip :
    ecjKeys (beBytes 8 0 ++ beBytes 8 1 ++ beBytes 8 (2 ^ 64 - 1) ++ beBytes 8 (2 ^ 63)) = [0, 1, 2 ^ 64 - 1, 2 ^ 63] := by
  decide

/-- `WriteIdxFileFromEcIndex` appends one tombstone entry per journal key; a tombstone entry
    decodes to (key, offset 0, size -1) for both widths -/
theorem tombstone_entry_decodes :
    decodeEntry 4 (tombstoneEntry 4 77) = ⟨77, 0, -1⟩ ∧ decodeEntry 5 (tombstoneEntry 5 77) = ⟨77, 0, -1⟩ ∧
    (tombstoneEntry 4 77).length = entryWidth 4 ∧ (tombstoneEntry 5 77).length = entryWidth 5 := by decide

/-! ### sessions: close / reopen between deletes -/

/-- the journal append seeks to the END of the file before writing, and a new session opens the
    existing journal WITHOUT O_APPEND (so without that seek it would write from position 0): the
    two facts `Vol.journalWrite` / `Vol.reopen` are modelled from -/
theorem bridge_journal_append :
    SwV.Gen.C07.journalSeekOffset = "0" ∧ SwV.Gen.C07.journalSeekWhence = "io.SeekEnd" ∧
    SwV.Gen.C07.journalOpenName = "indexBaseFileName + \".ecj\"" ∧
    SwV.Gen.C07.journalOpenFlags = "os.O_RDWR | os.O_CREATE" := by decide

/-- the deleted keys of an event sequence, in order -/
def delsOf : List Ev → List Nat
  | [] => []
  | .del k :: rest => k :: delsOf rest
  | .reopen :: rest => delsOf rest

/-- MAIN THEOREM for sessions — for EVERY index, EVERY sequence of deletes interleaved with ANY
    number of close/reopen events: the served index is the one the deletes produce, and the
    journal file is exactly the 8-byte records of all deleted PRESENT keys of ALL sessions, in
    order (nothing is overwritten or lost by a reopen). -/
theorem sessions_journal_complete (os : Nat) (orig : List Nat) (evs : List Ev) :
    (Vol.run os orig evs).ecx = (deleteAll os orig (delsOf evs)).1 ∧
    (Vol.run os orig evs).ecj = ((deleteAll os orig (delsOf evs)).2).flatMap (beBytes 8) := by
  unfold Vol.run deleteAll
  suffices h : ∀ (evs : List Ev) (v : Vol) (st : List Nat × List Nat),
      v.ecx = st.1 → v.ecj = st.2.flatMap (beBytes 8) →
      (evs.foldl (Vol.step os) v).ecx = ((delsOf evs).foldl (delStep os) st).1 ∧
      (evs.foldl (Vol.step os) v).ecj = (((delsOf evs).foldl (delStep os) st).2).flatMap (beBytes 8) from
    h evs ⟨orig, [], 0⟩ (orig, []) rfl rfl
  intro evs
  induction evs with
  | nil => intro v st h1 h2; exact ⟨h1, h2⟩
  | cons e rest ih =>
    intro v st h1 h2
    cases e with
    | reopen =>
      simp only [List.foldl_cons, delsOf, Vol.step]
      exact ih v.reopen st h1 h2
    | del k =>
      simp only [List.foldl_cons, delsOf, Vol.step]
      apply ih
      · unfold Vol.delete delStep; rw [h1]
        cases searchAndMark os st.1 k with
        | none => exact h1
        | some e => rfl
      · unfold Vol.delete delStep; rw [h1]
        cases searchAndMark os st.1 k with
        | none => exact h2
        | some e =>
          simp only [Vol.journalWrite]
          rw [writeAt_end, h2]
          simp [List.flatMap_append]

/-- `rebuild_same_live_set` over sessions — rebuilding from a PRISTINE copy of the index plus the
    journal FILE left by any number of sessions gives byte-for-byte the served index (ids are
    64-bit), hence the same live set. -/
theorem sessions_rebuild_same_index (os : Nat) (orig : List Nat) (evs : List Ev)
    (hk : ∀ k ∈ delsOf evs, k < 2 ^ 64) :
    rebuild os orig (Vol.run os orig evs).ecj = (Vol.run os orig evs).ecx := by
  obtain ⟨h1, h2⟩ := sessions_journal_complete os orig evs
  unfold rebuild
  rw [h2, h1, ecjKeys_flatMap]
  · exact rebuild_same_index os orig (delsOf evs)
  · -- journalled keys are among the deleted keys
    have : ∀ (ks : List Nat) (st : List Nat × List Nat), (∀ x ∈ st.2, x < 2 ^ 64) → (∀ x ∈ ks, x < 2 ^ 64) →
        ∀ x ∈ (ks.foldl (delStep os) st).2, x < 2 ^ 64 := by
      intro ks
      induction ks with
      | nil => intro st hs _; exact hs
      | cons k rest ih =>
        intro st hs hks
        simp only [List.foldl_cons]
        apply ih
        · unfold delStep
          cases searchAndMark os st.1 k with
          | none => exact hs
          | some e =>
            intro x hx
            simp only [List.mem_append, List.mem_singleton] at hx
            rcases hx with hx | hx
            · exact hs x hx
            · subst hx; exact hks _ (by simp)
        · intro x hx; exact hks x (by simp [hx])
    exact this (delsOf evs) (orig, []) (by simp) hk

theorem sessions_rebuild_same_live_set (os : Nat) (orig : List Nat) (evs : List Ev)
    (hk : ∀ k ∈ delsOf evs, k < 2 ^ 64) :
    liveSet (decode os (rebuild os orig (Vol.run os orig evs).ecj)) = liveSet (decode os (Vol.run os orig evs).ecx) := by
  rw [sessions_rebuild_same_index os orig evs hk]

example : ∃ evs : List Ev, delsOf evs = [7, 42, 90] ∧ evs.length = 5 :=
  ⟨[.del 7, .del 42, .reopen, .del 90, .reopen], rfl, rfl⟩

/-- without the seek-to-end (write at the handle position, 0 after a reopen) the statement is
    FALSE: two entries, delete 5, reopen, delete 8 — the record of key 5 is overwritten -/
theorem journal_without_seek_end_witness :
    let bs := entryBytes 4 5 1 10 ++ entryBytes 4 8 2 20
    let v1 := Vol.reopen (Vol.delete 4 ⟨bs, [], 0⟩ 5)
    ecjKeys (writeAt v1.ecj v1.pos (beBytes 8 8)) = [8] ∧ ecjKeys (Vol.delete 4 v1 8).ecj = [5, 8] := by decide

/-! ### sorted-file needle map (known findings, reproduced by the model) -/

/-- FULL-STRENGTH statement "deleting a live key from a sorted-file map makes it read as deleted"
    is FALSE of the code (findings SortedFileNeedleMap.Delete/not-marked-deleted and
    /idx-records-overwritten): witness with two entries. -/
theorem sorted_delete_witness :
    let sdx := entryBytes 4 5 1 10 ++ entryBytes 4 8 2 20
    let r := sortedDelete 4 sdx sdx 0 8 3
    r.1 = false ∧ find 4 r.2.1 8 = some (2, 20) ∧ r.2.2.1.take 16 ≠ sdx.take 16 := by decide

/-- what does hold: the sorted file itself is never changed by `Delete`, so every lookup keeps
    returning what it returned before -/
theorem sorted_delete_partial (os : Nat) (sdx idx : List Nat) (io key off k : Nat) :
    find os (sortedDelete os sdx idx io key off).2.1 k = find os sdx k := by
  unfold sortedDelete
  cases find os sdx key with
  | none => rfl
  | some r => simp only; split <;> rfl

example : ∃ os sdx, find os sdx 8 = some (2, 20) := ⟨4, entryBytes 4 5 1 10 ++ entryBytes 4 8 2 20, by decide⟩

end SwV.Props.C07
