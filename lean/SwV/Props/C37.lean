/-
C37 — Incremental volume backup converges to the source: property theorems.

Full-strength statement (FALSE of the code, see the `*_witness` theorems):
    after any history of writes / deletes / compactions on the source, a backup run leaves the backup
    serving what the source serves:  ∀ k, backupView (backupRun b src ..).1 t k = view src t k.
Proved: `backup_converges_partial` — for every source reached from a fresh volume WITHOUT compaction,
with strictly increasing AppendAtNs and without empty blobs, and every backup that holds a prefix of
that source (the empty backup, or the result of any earlier run): after the run the backup's files
ARE the source's files (so the statement holds again for the next run: any number of runs) and every
id reads the same on both sides.  `bsearch_finds_first_newer` is the binary-search fact it rests on.
-/
import SwV.Lemmas.C37
import SwV.Gen.C37
namespace SwV.Props.C37
open SwV.Model.C01 SwV.Model.C04 SwV.Model.C37 SwV.Spec.C37 SwV.Lemmas.C04 SwV.Lemmas.C37

/-- class `IncrementalBackup/empty-blob-indexed-as-delete` excluded: no idx entry of size 0 -/
def NoEmpty (s : CVol) : Prop := ∀ e ∈ s.ilog, e.size ≠ 0

/-- the backup's files are the first `n` records / idx entries of the source's files -/
def Prefix (b src : CVol) (n : Nat) : Prop :=
  n ≤ src.v.log.length ∧ b.v.log = src.v.log.take n ∧ b.ats = src.ats.take n ∧ b.ilog = src.ilog.take n

/-- `BinarySearchByAppendAtNs` on a sorted index: the first entry newer than `since` -/
theorem bsearch_finds_first_newer (ns : Nat → Nat) (since n : Nat) (hmono : ∀ i j, i ≤ j → j < n → ns i ≤ ns j) :
    (∀ i, i < bsearch ns since (n + 1) 0 n → ns i ≤ since) ∧
    (∀ i, bsearch ns since (n + 1) 0 n ≤ i → i < n → since < ns i) ∧ bsearch ns since (n + 1) 0 n ≤ n :=
  bsearch_spec ns since n hmono (n + 1) 0 n (Nat.zero_le _) (Nat.le_refl _) (by omega) (fun i h => by omega)
    (fun i h1 h2 => by omega)

theorem scan_one {src b : CVol} {n : Nat} (hok : SrcOK src) (hne : NoEmpty src) (hp : Prefix b src n)
    {r : Rec} {a : Nat} (hr : src.v.log[n]? = some r) (ha : src.ats[n]? = some a) :
    Prefix (scanStep b (r, a)) src (n + 1) := by
  obtain ⟨hn, hl, hat, hil⟩ := hp
  have hlt : n < src.v.log.length := (List.getElem?_eq_some_iff.1 hr).1
  have hblen : b.v.log.length = n := by rw [hl, List.length_take]; omega
  have hie : ∃ e, src.ilog[n]? = some e := ⟨src.ilog[n]'(by rw [hok.ilen]; exact hlt), List.getElem?_eq_getElem _⟩
  obtain ⟨e, he⟩ := hie
  have hoff := hok.ioff n e he
  obtain ⟨hkey, hsz⟩ := hok.ient n e r he hr
  have hmem : e ∈ src.ilog := List.mem_of_getElem? he
  unfold scanStep
  by_cases hpos : 0 < r.size
  · simp only [hpos, if_true]
    refine ⟨by omega, ?_, ?_, ?_⟩
    · show b.v.log ++ [r] = _; rw [hl, List.take_add_one, hr]; rfl
    · show b.ats ++ [a] = _; rw [hat, List.take_add_one, ha]; rfl
    · show b.ilog ++ [⟨r.id, b.v.log.length + 1, r.size⟩] = _
      rw [hil, List.take_add_one, he, hblen]
      have : e = ⟨r.id, n + 1, r.size⟩ := by
        obtain ⟨ek, eo, es⟩ := e
        simp only at hoff hkey hsz
        rcases hsz with ⟨_, h⟩ | ⟨h, _⟩
        · rw [hoff, hkey, h]
        · omega
      rw [this]; rfl
  · simp only [hpos, if_false]
    refine ⟨by omega, ?_, ?_, ?_⟩
    · show b.v.log ++ [r] = _; rw [hl, List.take_add_one, hr]; rfl
    · show b.ats ++ [a] = _; rw [hat, List.take_add_one, ha]; rfl
    · show b.ilog ++ [⟨r.id, b.v.log.length + 1, -1⟩] = _
      rw [hil, List.take_add_one, he, hblen]
      have : e = ⟨r.id, n + 1, -1⟩ := by
        have hne' := hne e hmem
        obtain ⟨ek, eo, es⟩ := e
        simp only at hoff hkey hsz hne'
        rcases hsz with ⟨h, _⟩ | ⟨_, h | h⟩
        · omega
        · rw [hoff, hkey, h]
        · exact absurd h hne'
      rw [this]; rfl

theorem scan_fold {src : CVol} (hok : SrcOK src) (hne : NoEmpty src) :
    ∀ d n b, src.v.log.length - n = d → Prefix b src n →
      Prefix (((src.v.log.zip src.ats).drop n).foldl scanStep b) src src.v.log.length := by
  intro d
  induction d with
  | zero =>
    intro n b hd hp
    have hn : n = src.v.log.length := by have := hp.1; omega
    subst hn
    rw [List.drop_of_length_le (by rw [List.length_zip]; omega)]
    exact hp
  | succ d ih =>
    intro n b hd hp
    have hlt : n < src.v.log.length := by omega
    have hzl : n < (src.v.log.zip src.ats).length := by rw [List.length_zip, hok.alen]; omega
    rw [List.drop_eq_getElem_cons hzl, List.foldl_cons, List.getElem_zip]
    apply ih (n + 1) _ (by omega)
    exact scan_one hok hne hp (List.getElem?_eq_getElem _) (List.getElem?_eq_getElem _)

theorem prefix_full {b src : CVol} (hok : SrcOK src) (hp : Prefix b src src.v.log.length) :
    b.v.log = src.v.log ∧ b.ats = src.ats ∧ b.ilog = src.ilog := by
  obtain ⟨_, h1, h2, h3⟩ := hp
  refine ⟨by rw [h1, List.take_length], ?_, ?_⟩
  · rw [h2, ← hok.alen, List.take_length]
  · rw [h3, ← hok.ilen, List.take_length]

/-- `IncrementalBackup` of a backup that holds a prefix of a never-compacted, time-ordered source
    without empty blobs copies exactly the missing records -/
theorem incremental_completes {src b : CVol} {n : Nat} (hok : SrcOK src) (hne : NoEmpty src) (hp : Prefix b src n) :
    Prefix (incremental b src) src src.v.log.length := by
  have hp' := hp
  obtain ⟨hn, hl, hat, hil⟩ := hp
  -- AppendAtNs of the i-th idx entry's record = i-th timestamp
  have hns : ∀ i, i < src.v.log.length → atOf src.ats (entOff src.ilog i) = src.ats.getD i 0 := by
    intro i hi
    have hie : src.ilog[i]? = some (src.ilog[i]'(by rw [hok.ilen]; exact hi)) := List.getElem?_eq_getElem _
    have := hok.ioff i _ hie
    simp only [entOff, hie, Option.map_some, Option.getD_some, this, atOf]
    simp
  have hget : ∀ i (h : i < src.v.log.length), src.ats.getD i 0 = src.ats[i]'(by rw [hok.alen]; exact h) := by
    intro i h; rw [List.getD_eq_getElem?_getD, List.getElem?_eq_getElem (by rw [hok.alen]; exact h)]; rfl
  have hstrict : ∀ i j, i < j → (hj : j < src.v.log.length) → src.ats.getD i 0 < src.ats.getD j 0 := by
    intro i j hij hj
    rw [hget i (by omega), hget j hj]
    exact List.pairwise_iff_getElem.1 hok.mono i j _ _ hij
  have hmono : ∀ i j, i ≤ j → j < src.v.log.length →
      atOf src.ats (entOff src.ilog i) ≤ atOf src.ats (entOff src.ilog j) := by
    intro i j hij hj
    rw [hns i (by omega), hns j hj]
    by_cases h : i = j
    · subst h; exact Nat.le_refl _
    · exact Nat.le_of_lt (hstrict i j (by omega) hj)
  -- what the backup asks for
  have hsince : sinceOf b = if n = 0 then 0 else src.ats.getD (n - 1) 0 := by
    unfold sinceOf
    rw [hil, List.getLast?_take]
    by_cases h0 : n = 0
    · simp [h0]
    · simp only [h0, if_false]
      have hie : src.ilog[n - 1]? = some (src.ilog[n - 1]'(by rw [hok.ilen]; omega)) := List.getElem?_eq_getElem _
      have hoff := hok.ioff (n - 1) _ hie
      rw [hie]
      simp only [Option.some_or]
      have hoff' : (src.ilog[n - 1]'(by rw [hok.ilen]; omega)).off = n := by omega
      simp only [hoff', h0, if_false]
      unfold atOf
      rw [hat, List.getD_eq_getElem?_getD, List.getD_eq_getElem?_getD, List.getElem?_take]
      have : n - 1 < n := by omega
      simp [this]
  obtain ⟨hlo, hhi, hle⟩ := bsearch_finds_first_newer (fun m => atOf src.ats (entOff src.ilog m)) (sinceOf b)
    src.v.log.length hmono
  -- the search lands exactly behind the backup's records
  have hres : bsearch (fun m => atOf src.ats (entOff src.ilog m)) (sinceOf b) (src.v.log.length + 1) 0 src.v.log.length = n := by
    generalize bsearch (fun m => atOf src.ats (entOff src.ilog m)) (sinceOf b) (src.v.log.length + 1) 0 src.v.log.length = l at *
    by_cases h1 : l < n
    · exfalso
      have := hhi l (Nat.le_refl _) (by omega)
      rw [hns l (by omega), hsince] at this
      have h0 : ¬ n = 0 := by omega
      simp only [h0, if_false] at this
      by_cases h2 : l = n - 1
      · subst h2; omega
      · have := hstrict l (n - 1) (by omega) (by omega); omega
    · by_cases h2 : n < l
      · exfalso
        have := hlo n h2
        rw [hns n (by omega), hsince] at this
        by_cases h0 : n = 0
        · simp only [h0, if_true] at this
          have hp0 := hok.pos (src.ats.getD n 0) (by
            rw [hget n (by omega)]; exact List.getElem_mem _)
          rw [h0] at hp0; omega
        · simp only [h0, if_false] at this
          have := hstrict (n - 1) n (by omega) (by omega); omega
      · omega
  unfold incremental copyFrom
  simp only [hok.ilen, hres]
  by_cases hfull : n = src.v.log.length
  · simp only [hfull, if_true]
    rw [← hfull]; exact hp'
  · simp only [hfull, if_false]
    have hie : src.ilog[n]? = some (src.ilog[n]'(by rw [hok.ilen]; omega)) := List.getElem?_eq_getElem _
    have hoff := hok.ioff n _ hie
    have : entOff src.ilog n - 1 = n := by simp only [entOff, hie, Option.map_some, Option.getD_some, hoff]; omega
    rw [this]
    exact scan_fold hok hne _ n b rfl hp'


/-! ## one run of `weed backup` -/

theorem cutAt_none_of_last {ilog : List IEnt} {log : List Rec}
    (h : ∀ e, ilog.getLast? = some e → ¬ e.off < log.length) : cutAt ilog log = none := by
  unfold cutAt
  cases hl : ilog.getLast? with
  | none => rfl
  | some e =>
    simp only
    split
    · rfl
    · split
      · rfl
      · split
        · rfl
        · simp [h e hl]

theorem prefix_cut {b src : CVol} {n : Nat} (hok : SrcOK src) (hp : Prefix b src n) : cutAt b.ilog b.v.log = none := by
  obtain ⟨hn, hl, _, hil⟩ := hp
  apply cutAt_none_of_last
  intro e he
  rw [hil, List.getLast?_take] at he
  by_cases h0 : n = 0
  · simp [h0] at he
  · simp only [h0, if_false] at he
    have hie : src.ilog[n - 1]? = some (src.ilog[n - 1]'(by rw [hok.ilen]; omega)) := List.getElem?_eq_getElem _
    rw [hie] at he
    simp only [Option.some_or, Option.some.injEq] at he
    have := hok.ioff (n - 1) _ hie
    rw [he] at this
    rw [hl, List.length_take]; omega

theorem prefix_reload {b src : CVol} {n : Nat} (hok : SrcOK src) (hp : Prefix b src n) : Prefix (reload b) src n := by
  have hc := prefix_cut hok hp
  obtain ⟨hn, hl, hat, hil⟩ := hp
  refine ⟨hn, ?_, ?_, ?_⟩
  · show (reload b).v.log = _; simp only [reload, hc]; exact hl
  · show (reload b).ats = _; simp only [reload, hc]; exact hat
  · show (reload b).ilog = _; simp only [reload]; exact hil

theorem datSize_take_le (log : List Rec) (n : Nat) : datSize (log.take n) ≤ datSize log := by
  unfold datSize
  have : log = log.take n ++ log.drop n := (List.take_append_drop n log).symm
  conv => rhs; rw [this]
  simp only [List.map_append, List.sum_append]
  omega

theorem view_congr_key {s s' : CVol} {k : Nat} (h1 : s.v.idx k = s'.v.idx k) (h2 : s.v.log = s'.v.log) (h3 : s.ats = s'.ats)
    (t : Nat) : view s t k = view s' t k := by
  simp [view, readT, readStep, h1, h2, h3]

/-- **Incremental backup converges** — partial: the source is ANY volume reached from a fresh one by
    writes / deletes / reads (no compaction) with strictly increasing AppendAtNs and without empty
    blobs; the backup holds any prefix of it (empty, or the result of an earlier run against an
    earlier state of the source).  After one run of `weed backup` the backup's .dat/.idx are the
    source's (hence the same holds for every later run), and every id reads the same on both sides. -/
theorem backup_converges_partial (kind : Kind) (ttl : Nat × Nat) (ops : List (Nat × Op)) (hinc : Incr 0 ops)
    (hne : NoEmpty (runOps (CVol.init kind ttl) ops)) (b : CVol) (n : Nat)
    (hp : Prefix b (runOps (CVol.init kind ttl) ops) n) (nowSec nowNs t k : Nat) :
    Prefix (backupRun b (runOps (CVol.init kind ttl) ops) nowSec nowNs).1 (runOps (CVol.init kind ttl) ops)
        (runOps (CVol.init kind ttl) ops).v.log.length ∧
    backupView (backupRun b (runOps (CVol.init kind ttl) ops) nowSec nowNs).1 t k
      = view (runOps (CVol.init kind ttl) ops) t k := by
  obtain ⟨ext, exta, suf, hs⟩ := suf_run (suf_refl (wf_init kind ttl)) ops
  have hok : SrcOK (runOps (CVol.init kind ttl) ops) :=
    srcok_run (suf_refl (wf_init kind ttl)) (srcok_init kind ttl) 0 ops (fun a h => by simp [CVol.init] at h) hinc
  generalize runOps (CVol.init kind ttl) ops = src at *
  have hrev : src.rev = 0 := by rw [hs.hrev]; rfl
  have hp0 := prefix_reload hok hp
  have hrun : (backupRun b src nowSec nowNs).1 = incremental (reload b) src := by
    unfold backupRun
    have hc : decide ((reload b).rev < src.rev) = false := by simp [hrev]
    simp only [hc]
    have hr : decide (datSize src.v.log < datSize (reload b).v.log) = false := by
      have := datSize_take_le src.v.log n
      rw [← hp0.2.1] at this
      simp; omega
    simp [hr]
  rw [hrun]
  have hfull := incremental_completes hok hne hp0
  refine ⟨hfull, ?_⟩
  obtain ⟨hl, hat, hil⟩ := prefix_full hok hfull
  have hc := prefix_cut hok hfull
  unfold backupView
  rw [view_reload_nocut _ hc]
  -- the reloaded index against the source's online index, key by key
  have hrel := reload_char (incremental (reload b) src).kind src.ilog k
  have hkey := hs.key k
  have hsuf : suf = src.ilog := by rw [hs.hilog]; simp [CVol.init]
  rw [hsuf] at hkey
  cases hlast : lastFor src.ilog k with
  | none =>
    rw [hlast] at hrel hkey
    have h1 : src.v.idx k = none := by rw [hkey]; rfl
    rw [view_none_idx t h1]
    apply view_none_idx
    show reloadIdx _ (incremental (reload b) src).ilog k = none
    rw [hil]; exact hrel.2
  | some e =>
    rw [hlast] at hrel hkey
    have hmem := (lastFor_some hlast).1
    have hnz := hne e hmem
    by_cases hpos : 0 < e.size
    · have hv : validEnt e = true := (validEnt_iff e).2 ⟨hkey.1, hpos⟩
      have h1 := hkey.2.1 (by omega)
      have h2 := hrel.2
      simp only [hv, if_true] at h2
      have hgoal : ∀ (s : CVol), s.v.idx k = src.v.idx k → s.v.log = src.v.log → s.ats = src.ats →
          view s t k = view src t k := fun s a b c => view_congr_key a b c t
      apply hgoal
      · show reloadIdx _ (incremental (reload b) src).ilog k = _
        rw [hil, h2, h1]
      · exact hl
      · exact hat
    · have hneg : e.size < 0 := by omega
      obtain ⟨e', he', hn'⟩ := hkey.2.2 hneg
      rw [view_neg t he' hn']
      have hv : ¬ validEnt e = true := fun h => by have := ((validEnt_iff e).1 h).2; omega
      have h2 := hrel.2
      simp only [hv, if_false] at h2
      rcases h2 with h2 | ⟨e2, h2, hn2⟩
      · apply view_none_idx
        show reloadIdx _ (incremental (reload b) src).ilog k = none
        rw [hil]; exact h2
      · apply view_neg t (e := e2) _ hn2
        show reloadIdx _ (incremental (reload b) src).ilog k = some e2
        rw [hil]; exact h2

/-- the empty backup is a prefix of every source: the first run is covered -/
theorem prefix_empty (src : CVol) (kind : Kind) (ttl : Nat × Nat) : Prefix (CVol.init kind ttl) src 0 :=
  ⟨Nat.zero_le _, by simp [CVol.init, Vol.init], by simp [CVol.init], by simp [CVol.init]⟩

/-- a synchronised backup stays a prefix when the source moves on (append-only files) -/
theorem prefix_mono {b src : CVol} (h1 : b.v.log = src.v.log) (h2 : b.ats = src.ats) (h3 : b.ilog = src.ilog)
    (src' : CVol) (ext : List Rec) (exta : List Nat) (suf : List IEnt)
    (hl : src'.v.log = src.v.log ++ ext) (ha : src'.ats = src.ats ++ exta) (hi : src'.ilog = src.ilog ++ suf)
    (hok : SrcOK src) : Prefix b src' src.v.log.length := by
  refine ⟨by rw [hl]; simp, ?_, ?_, ?_⟩
  · rw [hl, h1]; simp
  · rw [ha, h2, ← hok.alen]; simp
  · rw [hi, h3, ← hok.ilen]; simp

/-! ## any number of runs -/

theorem incr_append_left {lo : Nat} {a b : List (Nat × Op)} (h : Incr lo (a ++ b)) : Incr lo a := by
  induction a generalizing lo with
  | nil => trivial
  | cons o a ih => obtain ⟨t, op⟩ := o; exact ⟨h.1, ih h.2⟩

/-- the source moves on by `ops2`: a synchronised backup holds a prefix of the new source -/
theorem prefix_after_more_ops (kind : Kind) (ttl : Nat × Nat) (ops1 ops2 : List (Nat × Op)) (hinc : Incr 0 ops1) (b : CVol)
    (hfull : Prefix b (runOps (CVol.init kind ttl) ops1) (runOps (CVol.init kind ttl) ops1).v.log.length) :
    Prefix b (runOps (CVol.init kind ttl) (ops1 ++ ops2)) (runOps (CVol.init kind ttl) ops1).v.log.length := by
  have hok : SrcOK (runOps (CVol.init kind ttl) ops1) :=
    srcok_run (suf_refl (wf_init kind ttl)) (srcok_init kind ttl) 0 ops1 (fun a h => by simp [CVol.init] at h) hinc
  obtain ⟨ext, exta, suf, hs⟩ := suf_run (suf_refl (wf_reachable kind ttl ops1)) ops2
  rw [runOps_append]
  obtain ⟨h1, h2, h3⟩ := prefix_full hok hfull
  exact prefix_mono h1 h2 h3 _ ext exta suf hs.hlog hs.hats hs.hilog hok

/-- two runs with the source moving on in between (the induction step for any number of runs) -/
theorem backup_converges_twice (kind : Kind) (ttl : Nat × Nat) (ops1 ops2 : List (Nat × Op))
    (hinc : Incr 0 (ops1 ++ ops2)) (hne : NoEmpty (runOps (CVol.init kind ttl) (ops1 ++ ops2)))
    (b0 : CVol) (n0 : Nat) (hp0 : Prefix b0 (runOps (CVol.init kind ttl) ops1) n0) (s1 t1 s2 t2 t k : Nat) :
    backupView (backupRun (backupRun b0 (runOps (CVol.init kind ttl) ops1) s1 t1).1
        (runOps (CVol.init kind ttl) (ops1 ++ ops2)) s2 t2).1 t k
      = view (runOps (CVol.init kind ttl) (ops1 ++ ops2)) t k := by
  have hinc1 := incr_append_left hinc
  have hne1 : NoEmpty (runOps (CVol.init kind ttl) ops1) := by
    obtain ⟨ext, exta, suf, hs⟩ := suf_run (suf_refl (wf_reachable kind ttl ops1)) ops2
    intro e he
    apply hne e
    rw [runOps_append, hs.hilog]
    exact List.mem_append_left _ he
  have h1 := (backup_converges_partial kind ttl ops1 hinc1 hne1 b0 n0 hp0 s1 t1 t k).1
  have h2 := prefix_after_more_ops kind ttl ops1 ops2 hinc1 _ h1
  exact (backup_converges_partial kind ttl (ops1 ++ ops2) hinc hne _ _ h2 s2 t2 t k).2

/-! ## the full-strength statement is false of the code: witnesses (replayed in corpus/C37/witnesses.ops) -/

def blob (d : String) : Content := { data := d }
def fresh : CVol := CVol.init .mem (0, 0)

/-- overwrite + source compaction: the key-ordered index defeats the binary search, the backup keeps the old bytes -/
theorem stale_after_compaction_witness :
    let s1 := runOps fresh [(1, .write 1 7 (blob "aa")), (2, .write 2 7 (blob "bb"))]
    let b1 := (backupRun fresh s1 100 3).1
    let s2 := srcCompact (runOps s1 [(4, .write 1 7 (blob "cc"))]) 100 5
    let b2 := (backupRun b1 s2 100 6).1
    backupView b1 9 1 = view s1 9 1 ∧ view s2 9 1 = some (7, blob "cc") ∧ backupView b2 9 1 = some (7, blob "aa") := by decide

/-- a delete compacted away at the source never reaches the backup -/
theorem deleted_served_witness :
    let s1 := runOps fresh [(1, .write 1 7 (blob "aa")), (2, .write 2 7 (blob "bb"))]
    let b1 := (backupRun fresh s1 100 3).1
    let s2 := srcCompact (runOps s1 [(4, .delete 2 7), (5, .write 4 7 (blob "dd"))]) 100 6
    let b2 := (backupRun b1 s2 100 7).1
    view s2 9 2 = none ∧ backupView b2 9 2 = some (7, blob "bb") := by decide

/-- an empty blob is indexed as a deletion by the backup's scanner -/
theorem empty_blob_witness :
    let s1 := runOps fresh [(1, .write 3 7 (blob ""))]
    view s1 9 3 = some (0, Content.empty) ∧ backupView (backupRun fresh s1 100 2).1 9 3 = none := by decide

/-- the hypotheses of `backup_converges_partial` are satisfiable, two runs -/
example :
    let ops := [(1, Op.write 1 7 (blob "aa")), (2, Op.write 2 7 (blob "bb")), (3, Op.delete 1 7)]
    Incr 0 ops ∧ NoEmpty (runOps fresh ops) ∧ backupView (backupRun fresh (runOps fresh ops) 100 4).1 9 2 = some (7, blob "bb") := by
  refine ⟨by simp [Incr], by unfold NoEmpty; decide, by decide⟩

/-! ## the judge -/

/-- the judge accepts a backup that serves what the source serves (whatever the model predicted) -/
theorem judge_accepts_equal (rev : Nat) (a m : Option (Nat × String)) : classify rev a m a = none := by
  cases a with
  | none => rfl
  | some x => simp [classify, verdict]

/-- the MODEL's backup passes the judge after every run covered by `backup_converges_partial` -/
theorem judge_accepts_model_partial (kind : Kind) (ttl : Nat × Nat) (ops : List (Nat × Op)) (hinc : Incr 0 ops)
    (hne : NoEmpty (runOps (CVol.init kind ttl) ops)) (b : CVol) (n : Nat)
    (hp : Prefix b (runOps (CVol.init kind ttl) ops) n) (nowSec nowNs t k : Nat) (mv : Option (Nat × String)) :
    classify (runOps (CVol.init kind ttl) ops).rev (obs (view (runOps (CVol.init kind ttl) ops) t k)) mv
      (obs (backupView (backupRun b (runOps (CVol.init kind ttl) ops) nowSec nowNs).1 t k)) = none := by
  rw [(backup_converges_partial kind ttl ops hinc hne b n hp nowSec nowNs t k).2]
  exact judge_accepts_equal _ _ _

/-- A failure is filed under a RECORDED defect only if the model of the recorded mechanisms serves
    exactly the observed answer; every other failure keeps the verdict's own (unrecorded) class. -/
theorem judge_unexplained_failure_is_unrecorded (rev : Nat) (sv mv impl : Option (Nat × String)) (c : String)
    (h : classify rev sv mv impl = some c) (hne : impl ≠ mv) :
    verdict sv impl = some c ∧ c ∈ ["backup/wrong-content", "backup/misses-live-blob", "backup/serves-deleted-blob"] := by
  unfold classify at h
  cases hv : verdict sv impl with
  | none => simp [hv] at h
  | some cls =>
    simp only [hv, hne, if_false, Option.some.injEq] at h
    subst h
    refine ⟨rfl, ?_⟩
    unfold verdict at hv
    cases sv <;> cases impl <;> simp at hv
    · simp [← hv]
    · simp [← hv]
    · rw [← hv.2]; simp

/-- non-vacuity, and the situation the clause is about: source compaction, then a write, then a run
    WITH the local-compaction step.  The model's backup (its local compaction keeps the AppendAtNs of
    the records it copies, so the delta request still starts behind the last backed-up record) fetches
    the new blob and the judge accepts; a backup that lacks it is reported under the unrecorded class. -/
example :
    let s1 := runOps fresh [(1, .write 1 7 (blob "aa")), (2, .write 2 7 (blob "bb"))]
    let b1 := (backupRun fresh s1 100 3).1
    let s1' := runOps s1 [(4, .delete 1 7)]
    let b1' := (backupRun b1 s1' 100 5).1
    let s2 := runOps (srcCompact s1' 100 6) [(7, .write 3 7 (blob "cc"))]
    let r2 := backupRun b1' s2 100 8
    r2.2.1 = true ∧ r2.2.2 = false ∧ backupView r2.1 9 3 = some (7, blob "cc") ∧
    classify s2.rev (obs (view s2 9 3)) (obs (backupView r2.1 9 3)) (obs (backupView r2.1 9 3)) = none ∧
    classify s2.rev (obs (view s2 9 3)) (obs (backupView r2.1 9 3)) none = some "backup/misses-live-blob" ∧
    classify s2.rev (obs (view s2 9 1)) (obs (backupView r2.1 9 1)) (some (7, "aa")) = some "backup/serves-deleted-blob" := by decide

/-! ## T1: the sources the model mirrors (a change breaks a named obligation) -/

theorem bridge_sources :
    SwV.Gen.C37.src_runBackup = "9aa4a4568c568850" ∧ SwV.Gen.C37.src_IncrementalBackup = "ce96a1a7f2917c2c" ∧
    SwV.Gen.C37.src_BinarySearchByAppendAtNs = "4d080610939050c1" ∧ SwV.Gen.C37.src_findLastAppendAtNs = "5c18586c469d7c99" ∧
    SwV.Gen.C37.src_locateLastAppendEntry = "72538a5bc096438e" ∧ SwV.Gen.C37.src_GenIdx_VisitNeedle = "a3dc4b02e03de63d" ∧
    SwV.Gen.C37.src_VolumeIncrementalCopy = "be4cdcac1f56653c" ∧ SwV.Gen.C37.src_PaddingLength = "59817c1be0140032" := by decide

/-- `diskSize` is GetActualSize with the regenerated constants -/
theorem bridge_diskSize (size : Nat) :
    (diskSize size : Int) = SwV.Gen.C37.NeedleHeaderSize + size + SwV.Gen.C37.NeedleChecksumSize + SwV.Gen.C37.TimestampSize
      + (SwV.Gen.C37.NeedlePaddingSize - (SwV.Gen.C37.NeedleHeaderSize + size + SwV.Gen.C37.NeedleChecksumSize + SwV.Gen.C37.TimestampSize) % SwV.Gen.C37.NeedlePaddingSize) := by
  simp only [diskSize, SwV.Gen.C37.NeedleHeaderSize, SwV.Gen.C37.NeedleChecksumSize, SwV.Gen.C37.TimestampSize, SwV.Gen.C37.NeedlePaddingSize]
  simp only [Int.toNat_natCast]
  omega

end SwV.Props.C37
