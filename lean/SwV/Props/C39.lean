/-
C39 — property theorems.  The model (SwV/Model/C39.lean) is the FsNode tree of
weed/filesys/fscache.go; the reference tree (SwV/Spec/C39.lean) says pointwise what is at
every path after each operation.  The correspondence check ties model and real FsCache.
-/
import SwV.Model.C39
import SwV.Spec.C39
import SwV.Lemmas.C39
import SwV.Gen.C39

namespace SwV.Props.C39
open SwV.Model.C39 SwV.Spec.C39 SwV.Lemmas.C39

/-- one operation of the cache, seen through "what is at each path", is the reference operation -/
theorem step_refines (t : Node) (op : Op) : find (applyOp t op) = refApply (find t) op := by
  funext q
  cases op with
  | set p v => simp [applyOp, refApply, find_setNode]
  | ensure p v =>
    simp only [applyOp, refApply, ensureNode, refEnsure, refLookup, ← get_eq]
    cases h : SwV.Model.C39.get t p with
    | none => simp [find_setNode]
    | some w => simp
  | del p => simp [applyOp, refApply, find_remove]
  | move o n =>
    simp only [applyOp, refApply, move]
    by_cases hinv : o = [] ∨ n = []
    · simp [hinv]
    · simp only [hinv, if_false]
      cases hs : sub t o with
      | none => simp [find, hs]
      | some s =>
        have : (find t o).isNone = false := by simp [find, hs]
        simp only [this, Bool.false_eq_true, if_false, refMove, find_putSub]
        by_cases h1 : n <+: q
        · simp only [h1, if_true]
          exact (find_append t s o _ hs).symm
        · simp only [h1, if_false]
          by_cases h2 : q <+: n
          · simp [h2, find_remove]
          · simp [h2, find_remove]

/-- the tree built by ANY history holds, at every path, what the reference tree holds -/
theorem find_run (ops : List Op) : find (run ops) = denote ops := by
  suffices h : ∀ t, find (ops.foldl applyOp t) = ops.foldl refApply (find t) by
    have h0 : find emptyNode = refEmpty := by funext q; simp [find_empty, refEmpty]
    simpa [run, denote, h0] using h emptyNode
  induction ops with
  | nil => intro t; rfl
  | cons op rest ih => intro t; simp only [List.foldl_cons, ih, step_refines]

/-- MAIN (C39): after any sequence of insertions, ensure-lookups, deletes and moves, `GetFsNode`
    returns for EVERY path exactly the node the reference tree holds there -/
theorem fscache_eq_reference_tree (ops : List Op) (q : Path) :
    SwV.Model.C39.get (run ops) q = refLookup (denote ops) q := by
  rw [get_eq, find_run, refLookup]

/-! ### the clauses of the property text, directly on lookups -/

/-- a moved subtree appears under the new path … -/
theorem move_appears_under_new (t : Node) (old new r : Path) (ho : old ≠ []) (hn : new ≠ [])
    (hex : (sub t old).isSome) :
    SwV.Model.C39.get (move t old new).1 (new ++ r) = SwV.Model.C39.get t (old ++ r) := by
  have h := congrFun (step_refines t (.move old new)) (new ++ r)
  have hne : (find t old).isNone = false := by
    cases hs : sub t old with
    | none => simp [hs] at hex
    | some s => simp [find, hs]
  simp only [applyOp, refApply, ho, hn, or_self, if_false, hne, Bool.false_eq_true, refMove,
    List.prefix_append, if_true, List.drop_left] at h
  rw [get_eq, get_eq, h]

/-- … and nowhere else: below the old path nothing is left (unless that path is also below the new one) -/
theorem move_gone_from_old (t : Node) (old new q : Path) (ho : old ≠ []) (hn : new ≠ [])
    (hex : (sub t old).isSome) (hq : old <+: q) (hnew : ¬ new <+: q) :
    SwV.Model.C39.get (move t old new).1 q = none := by
  have h := congrFun (step_refines t (.move old new)) q
  have hne : (find t old).isNone = false := by
    cases hs : sub t old with
    | none => simp [hs] at hex
    | some s => simp [find, hs]
  simp only [applyOp, refApply, ho, hn, or_self, if_false, hne, Bool.false_eq_true, refMove, hnew, refDel, hq, if_true] at h
  rw [get_eq, h]
  by_cases h2 : q <+: new <;> simp [h2]

/-- paths neither below the old nor below the new path keep their nodes -/
theorem move_frame (t : Node) (old new q : Path) (hq : ¬ old <+: q) (hnew : ¬ new <+: q) :
    SwV.Model.C39.get (move t old new).1 q = SwV.Model.C39.get t q := by
  have h := congrFun (step_refines t (.move old new)) q
  simp only [applyOp, refApply] at h
  rw [get_eq, get_eq, h]
  by_cases hinv : old = [] ∨ new = []
  · simp [hinv]
  · simp only [hinv, if_false]
    by_cases hne : (find t old).isNone
    · simp [hne]
    · have ho : old ≠ [] := fun e => hinv (Or.inl e)
      simp only [hne, Bool.false_eq_true, if_false, refMove, hnew, refDel, ho, hq]
      by_cases h2 : q <+: new <;> simp [h2]

/-- a deleted subtree is gone … -/
theorem delete_gone (t : Node) (p q : Path) (h : p <+: q) : SwV.Model.C39.get (remove t p) q = none := by
  rw [get_eq, find_remove, refDel]
  by_cases hp : p = []
  · subst hp; simp only [refEmpty, if_true]; by_cases hq : q = [] <;> simp [hq]
  · simp [hp, h]

/-- … and nothing else is touched -/
theorem delete_frame (t : Node) (p q : Path) (h : ¬ p <+: q) : SwV.Model.C39.get (remove t p) q = SwV.Model.C39.get t q := by
  rw [get_eq, get_eq, find_remove, refDel]
  have hp : p ≠ [] := by intro e; subst e; exact h List.nil_prefix
  simp [hp, h]

theorem set_get (t : Node) (p : Path) (v : Nat) : SwV.Model.C39.get (setNode t p v) p = some v := by
  rw [get_eq, find_setNode]; simp [refSet]

theorem set_frame (t : Node) (p q : Path) (v : Nat) (h : q ≠ p) :
    SwV.Model.C39.get (setNode t p v) q = SwV.Model.C39.get t q := by
  rw [get_eq, get_eq, find_setNode]
  simp only [refSet, h, if_false]
  by_cases h2 : q <+: p <;> simp [h2]

/-! ### satisfiability of the hypotheses, concrete instances (incl. a move into the own subtree) -/

example : (sub (setNode emptyNode ["a", "b"] 1) ["a"]).isSome = true := by decide

/-- Move(/a, /a/b) with /a ↦ 1, /a/x ↦ 2: the model (like the code) ends with /a/b ↦ 1, /a/b/x ↦ 2
    and /a an empty placeholder — the same as the reference tree (`fscache_eq_reference_tree`) -/
theorem move_into_own_subtree_witness :
    let t := setNode (setNode emptyNode ["a"] 1) ["a", "x"] 2
    let t' := (move t ["a"] ["a", "b"]).1
    SwV.Model.C39.get t' ["a", "b"] = some 1 ∧ SwV.Model.C39.get t' ["a", "b", "x"] = some 2 ∧
    SwV.Model.C39.get t' ["a"] = none ∧ SwV.Model.C39.get t' ["a", "x"] = none := by decide

/-! ## T1 bridges: facts regenerated from the source by `extract` (props/C39/extract.json → `SwV.Gen.C39`)

Each theorem states the text of the decisive Go statements as they stand in the working tree together with the
model equation that mirrors them; an edit to the Go code changes the generated string and breaks the theorem of
that name. -/

/-- `doGetFsNode`: descend with `findChild`, stop at the first absent component, answer the `node` field -/
theorem bridge_get :
    SwV.Gen.C39.get_descend = "t = t.findChild(p)" ∧ SwV.Gen.C39.get_absent = "t == nil" ∧
    SwV.Gen.C39.find_found = "found" ∧
    (∀ (t : Node), sub t [] = some t) ∧
    (∀ (t : Node) (x : Name) (p : Path), t.2.child x = none → sub t (x :: p) = none) ∧
    (∀ (t c : Node) (x : Name) (p : Path), t.2.child x = some c → sub t (x :: p) = sub c p) ∧
    (∀ (t : Node) (p : Path), SwV.Model.C39.get t p = (sub t p).bind (·.1)) := by
  refine ⟨by decide, by decide, by decide, fun _ => rfl, ?_, ?_, fun _ _ => rfl⟩
  · intro t x p h; simp [sub, h]
  · intro t c x p h; simp [sub, h]

/-- `doSetFsNode` / `ensureChild` / `EnsureFsNode` -/
theorem bridge_set_ensure :
    SwV.Gen.C39.set_descend = "t = t.ensureChild(p)" ∧ SwV.Gen.C39.set_store = "t.node = node" ∧
    SwV.Gen.C39.ensure_child_no_map = "n.children == nil" ∧ SwV.Gen.C39.ensure_child_found = "found" ∧
    SwV.Gen.C39.ensure_child_store = "n.children[name] = t" ∧
    SwV.Gen.C39.ensure_lookup = "t := c.doGetFsNode(path)" ∧ SwV.Gen.C39.ensure_cached = "t != nil" ∧
    SwV.Gen.C39.ensure_store_path = "path" ∧ SwV.Gen.C39.ensure_store_node = "t" ∧
    (∀ (t : Node) (v : Nat), setNode t [] v = (some v, t.2)) ∧
    (∀ (t : Node) (x : Name) (p : Path) (v : Nat),
      setNode t (x :: p) v = (t.1, t.2.setChild x (setNode ((t.2.child x).getD emptyNode) p v))) ∧
    (∀ (t : Node) (p : Path) (v w : Nat), SwV.Model.C39.get t p = some w → ensureNode t p v = (t, w)) ∧
    (∀ (t : Node) (p : Path) (v : Nat), SwV.Model.C39.get t p = none → ensureNode t p v = (setNode t p v, v)) := by
  refine ⟨by decide, by decide, by decide, by decide, by decide, by decide, by decide, by decide, by decide,
    fun _ _ => rfl, fun _ _ _ _ => rfl, ?_, ?_⟩
  · intro t p v w h; simp [ensureNode, h]
  · intro t p v h; simp [ensureNode, h]

/-- `DeleteFsNode` / `disconnectChild` / `deleteSelf` -/
theorem bridge_delete :
    SwV.Gen.C39.del_descend = "t = t.findChild(p)" ∧ SwV.Gen.C39.del_absent = "t == nil" ∧
    SwV.Gen.C39.del_has_parent = "t.parent != nil" ∧ SwV.Gen.C39.del_disconnect = "t" ∧
    SwV.Gen.C39.disconnect_key = "child.name" ∧
    SwV.Gen.C39.delete_self_children = "n.children = nil" ∧ SwV.Gen.C39.delete_self_node = "n.node = nil" ∧
    (∀ (t : Node), remove t [] = emptyNode) ∧
    (∀ (t : Node) (x : Name), remove t [x] = (t.1, t.2.delChild x)) ∧
    (∀ (t : Node) (x y : Name) (p : Path), t.2.child x = none → remove t (x :: y :: p) = t) := by
  refine ⟨by decide, by decide, by decide, by decide, by decide, by decide, by decide, fun _ => rfl, fun _ _ => rfl, ?_⟩
  intro t x y p h; simp [remove, h]

/-- `Move` / `connectToParent` -/
theorem bridge_move :
    SwV.Gen.C39.move_src_descend = "src = src.findChild(p)" ∧ SwV.Gen.C39.move_src_absent = "src == nil" ∧
    SwV.Gen.C39.move_src_has_parent = "src.parent != nil" ∧ SwV.Gen.C39.move_src_disconnect = "src" ∧
    SwV.Gen.C39.move_target_descend = "target = target.ensureChild(p)" ∧
    SwV.Gen.C39.move_target_parent = "parent := target.parent" ∧
    SwV.Gen.C39.move_target_disconnect = "target" ∧
    SwV.Gen.C39.move_rename = "src.name = target.name" ∧ SwV.Gen.C39.move_connect = "parent" ∧
    SwV.Gen.C39.connect_old = "oldNode := parent.findChild(n.name)" ∧
    SwV.Gen.C39.connect_old_present = "oldNode != nil" ∧
    SwV.Gen.C39.connect_store = "parent.children[n.name] = n" ∧
    (∀ (t : Node) (old new : Path), old ≠ [] → new ≠ [] → sub t old = none → move t old new = (t, .absent)) ∧
    (∀ (t s : Node) (old new : Path), old ≠ [] → new ≠ [] → sub t old = some s →
      move t old new = (putSub (remove t old) new s, .ok)) ∧
    (∀ (t s : Node) (x : Name), putSub t [x] s = (t.1, t.2.setChild x s)) := by
  refine ⟨by decide, by decide, by decide, by decide, by decide, by decide, by decide, by decide, by decide,
    by decide, by decide, by decide, ?_, ?_, fun _ _ _ => rfl⟩
  · intro t old new ho hn h; simp [move, ho, hn, h]
  · intro t s old new ho hn h; simp [move, ho, hn, h]

/-- weakest supplement: hashes of the whole mirrored functions -/
theorem bridge_pins :
    SwV.Gen.C39.src_doGetFsNode = "5fcfde4392d43b37" ∧ SwV.Gen.C39.src_doSetFsNode = "9b1d673a075230b5" ∧
    SwV.Gen.C39.src_EnsureFsNode = "e50997914ac04795" ∧ SwV.Gen.C39.src_DeleteFsNode = "b69f0a5377c3a9fb" ∧
    SwV.Gen.C39.src_Move = "71094896c641c745" ∧ SwV.Gen.C39.src_connectToParent = "6d1abcc57b3ef0fd" ∧
    SwV.Gen.C39.src_findChild = "78cd2ac0def0ce12" ∧ SwV.Gen.C39.src_ensureChild = "fd9dc62ad98b929d" ∧
    SwV.Gen.C39.src_disconnectChild = "b00412ad498397f9" ∧ SwV.Gen.C39.src_deleteSelf = "e01515e2b650fcc5" := by decide

end SwV.Props.C39
