/-
C39 — property theorems.  The model (SwV/Model/C39.lean) is the FsNode tree of
weed/filesys/fscache.go; the reference tree (SwV/Spec/C39.lean) says pointwise what is at
every path after each operation.  The correspondence check ties model and real FsCache.
-/
import SwV.Model.C39
import SwV.Spec.C39
import SwV.Lemmas.C39

namespace SwV.Props.C39
open SwV.Model.C39 SwV.Spec.C39 SwV.Lemmas.C39

/-- one operation of the cache, seen through "what is at each path", is the reference operation -/
theorem step_refines (t : Node) (op : Op) : find (applyOp t op) = refApply (find t) op := by
  funext q
  cases op with
  | set p v => simp [applyOp, refApply, find_setNode]
  | ensure p v =>
    simp only [applyOp, refApply, ensureNode, refEnsure, refLookup, ← get_eq]
    cases h : SwV.Model.C39.get t p with
    | none => simp [find_setNode]
    | some w => simp
  | del p => simp [applyOp, refApply, find_remove]
  | move o n =>
    simp only [applyOp, refApply, move]
    by_cases hinv : o = [] ∨ n = []
    · simp [hinv]
    · simp only [hinv, if_false]
      cases hs : sub t o with
      | none => simp [find, hs]
      | some s =>
        have : (find t o).isNone = false := by simp [find, hs]
        simp only [this, Bool.false_eq_true, if_false, refMove, find_putSub]
        by_cases h1 : n <+: q
        · simp only [h1, if_true]
          exact (find_append t s o _ hs).symm
        · simp only [h1, if_false]
          by_cases h2 : q <+: n
          · simp [h2, find_remove]
          · simp [h2, find_remove]

/-- the tree built by ANY history holds, at every path, what the reference tree holds -/
theorem find_run (ops : List Op) : find (run ops) = denote ops := by
  suffices h : ∀ t, find (ops.foldl applyOp t) = ops.foldl refApply (find t) by
    have h0 : find emptyNode = refEmpty := by funext q; simp [find_empty, refEmpty]
    simpa [run, denote, h0] using h emptyNode
  induction ops with
  | nil => intro t; rfl
  | cons op rest ih => intro t; simp only [List.foldl_cons, ih, step_refines]

/-- MAIN (C39): after any sequence of insertions, ensure-lookups, deletes and moves, `GetFsNode`
    returns for EVERY path exactly the node the reference tree holds there -/
theorem fscache_eq_reference_tree (ops : List Op) (q : Path) :
    SwV.Model.C39.get (run ops) q = refLookup (denote ops) q := by
  rw [get_eq, find_run, refLookup]

/-! ### the clauses of the property text, directly on lookups -/

/-- a moved subtree appears under the new path … -/
theorem move_appears_under_new (t : Node) (old new r : Path) (ho : old ≠ []) (hn : new ≠ [])
    (hex : (sub t old).isSome) :
    SwV.Model.C39.get (move t old new).1 (new ++ r) = SwV.Model.C39.get t (old ++ r) := by
  have h := congrFun (step_refines t (.move old new)) (new ++ r)
  have hne : (find t old).isNone = false := by
    cases hs : sub t old with
    | none => simp [hs] at hex
    | some s => simp [find, hs]
  simp only [applyOp, refApply, ho, hn, or_self, if_false, hne, Bool.false_eq_true, refMove,
    List.prefix_append, if_true, List.drop_left] at h
  rw [get_eq, get_eq, h]

/-- … and nowhere else: below the old path nothing is left (unless that path is also below the new one) -/
theorem move_gone_from_old (t : Node) (old new q : Path) (ho : old ≠ []) (hn : new ≠ [])
    (hex : (sub t old).isSome) (hq : old <+: q) (hnew : ¬ new <+: q) :
    SwV.Model.C39.get (move t old new).1 q = none := by
  have h := congrFun (step_refines t (.move old new)) q
  have hne : (find t old).isNone = false := by
    cases hs : sub t old with
    | none => simp [hs] at hex
    | some s => simp [find, hs]
  simp only [applyOp, refApply, ho, hn, or_self, if_false, hne, Bool.false_eq_true, refMove, hnew, refDel, hq, if_true] at h
  rw [get_eq, h]
  by_cases h2 : q <+: new <;> simp [h2]

/-- paths neither below the old nor below the new path keep their nodes -/
theorem move_frame (t : Node) (old new q : Path) (hq : ¬ old <+: q) (hnew : ¬ new <+: q) :
    SwV.Model.C39.get (move t old new).1 q = SwV.Model.C39.get t q := by
  have h := congrFun (step_refines t (.move old new)) q
  simp only [applyOp, refApply] at h
  rw [get_eq, get_eq, h]
  by_cases hinv : old = [] ∨ new = []
  · simp [hinv]
  · simp only [hinv, if_false]
    by_cases hne : (find t old).isNone
    · simp [hne]
    · have ho : old ≠ [] := fun e => hinv (Or.inl e)
      simp only [hne, Bool.false_eq_true, if_false, refMove, hnew, refDel, ho, hq]
      by_cases h2 : q <+: new <;> simp [h2]

/-- a deleted subtree is gone … -/
theorem delete_gone (t : Node) (p q : Path) (h : p <+: q) : SwV.Model.C39.get (remove t p) q = none := by
  rw [get_eq, find_remove, refDel]
  by_cases hp : p = []
  · subst hp; simp only [refEmpty, if_true]; by_cases hq : q = [] <;> simp [hq]
  · simp [hp, h]

/-- … and nothing else is touched -/
theorem delete_frame (t : Node) (p q : Path) (h : ¬ p <+: q) : SwV.Model.C39.get (remove t p) q = SwV.Model.C39.get t q := by
  rw [get_eq, get_eq, find_remove, refDel]
  have hp : p ≠ [] := by intro e; subst e; exact h List.nil_prefix
  simp [hp, h]

theorem set_get (t : Node) (p : Path) (v : Nat) : SwV.Model.C39.get (setNode t p v) p = some v := by
  rw [get_eq, find_setNode]; simp [refSet]

theorem set_frame (t : Node) (p q : Path) (v : Nat) (h : q ≠ p) :
    SwV.Model.C39.get (setNode t p v) q = SwV.Model.C39.get t q := by
  rw [get_eq, get_eq, find_setNode]
  simp only [refSet, h, if_false]
  by_cases h2 : q <+: p <;> simp [h2]

/-! ### satisfiability of the hypotheses, concrete instances (incl. a move into the own subtree) -/

example : (sub (setNode emptyNode ["a", "b"] 1) ["a"]).isSome = true := by decide

/-- Move(/a, /a/b) with /a ↦ 1, /a/x ↦ 2: the model (like the code) ends with /a/b ↦ 1, /a/b/x ↦ 2
    and /a an empty placeholder — the same as the reference tree (`fscache_eq_reference_tree`) -/
theorem move_into_own_subtree_witness :
    let t := setNode (setNode emptyNode ["a"] 1) ["a", "x"] 2
    let t' := (move t ["a"] ["a", "b"]).1
    SwV.Model.C39.get t' ["a", "b"] = some 1 ∧ SwV.Model.C39.get t' ["a", "b", "x"] = some 2 ∧
    SwV.Model.C39.get t' ["a"] = none ∧ SwV.Model.C39.get t' ["a", "x"] = none := by decide

end SwV.Props.C39
