/-
C16 — theorems about the ec.balance model (Model/C16.lean) and the spec judges (Spec/C16.lean).

Proved for ALL inputs:
* the bitmap bookkeeping of one planned move (`moveMountedShardToEcNode`, dry run) is exact:
  the destination gains exactly that shard of that volume, the source loses exactly that shard,
  no other volume's bitmap changes (`add_bits_same/other`, `del_bits_same/other`);
* every move approved by the across-racks and within-rack guards goes to another server with a
  free slot that holds fewer than the average of the volume, and an across-racks move keeps the
  destination rack within ceil(14/#racks) by the planner's counters (`across_move_guarded`,
  `within_move_guarded`).
FALSE of the code (negations proved on witnesses, the corpus holds the same inputs):
* the per-rack balancing guard does not imply a free slot (`rackbal_no_free_slot_witness`);
* no guard checks that the destination lacks the shard (`dest_may_hold_shard_witness`);
* across-racks balancing can forget shards (`across_drops_shards_witness`).
Conservation of the shard multiset along whole phases is judged on every run (Spec.judgeBook), not proved.
-/
import SwV.Model.C16
import SwV.Spec.C16
namespace SwV.Props.C16
open SwV.Model.C16 SwV.Spec.C16

theorem hasBit_addBit (b i j : Nat) : hasBit (addBit b i) j = (hasBit b j || decide (i = j)) := by
  simp [hasBit, addBit, Nat.testBit_or, Nat.testBit_two_pow]

theorem hasBit_delBit (b i j : Nat) : hasBit (delBit b i) j = (hasBit b j && !decide (i = j)) := by
  unfold hasBit delBit
  by_cases h : b.testBit i = true
  · simp [h, Nat.testBit_xor, Nat.testBit_two_pow]
    by_cases hij : i = j
    · subst hij; simp [h]
    · simp [hij]
  · simp [h]
    by_cases hij : i = j
    · subst hij; simp at h; simp [h]
    · simp [hij]

theorem find_setFirst_same (vid : Nat) (f : Nat → Nat) (l : List (Nat × Nat)) :
    (setFirst vid f l).find? (·.1 == vid) = (l.find? (·.1 == vid)).map fun e => (e.1, f e.2) := by
  induction l with
  | nil => simp [setFirst]
  | cons e rest ih =>
    obtain ⟨v, b⟩ := e
    by_cases h : v = vid
    · subst h; simp [setFirst]
    · have h' : (v == vid) = false := by simp [h]
      simp [setFirst, h', ih]

theorem find_setFirst_other (vid vid' : Nat) (hne : vid' ≠ vid) (f : Nat → Nat) (l : List (Nat × Nat)) :
    (setFirst vid f l).find? (·.1 == vid') = l.find? (·.1 == vid') := by
  induction l with
  | nil => simp [setFirst]
  | cons e rest ih =>
    obtain ⟨v, b⟩ := e
    by_cases h : v = vid
    · subst h
      have h' : (v == vid') = false := by simp; exact fun e => hne e.symm
      simp [setFirst, List.find?, h']
    · have h' : (v == vid) = false := by simp [h]
      simp only [setFirst, h']
      by_cases h2 : (v == vid') = true
      · simp [List.find?, h2]
      · simp [List.find?, h2, ih]

theorem find_none_of_not_any (vid : Nat) (l : List (Nat × Nat)) (h : l.any (·.1 == vid) = false) :
    l.find? (·.1 == vid) = none := by
  induction l with
  | nil => rfl
  | cons e rest ih =>
    simp only [List.any_cons, Bool.or_eq_false_iff] at h
    simp [List.find?, h.1, ih h.2]

/-- `addEcVolumeShards`: the destination's bitmap of the volume gains exactly shard `s`. -/
theorem add_bits_same (n : ENode) (vid s j : Nat) :
    hasBit ((n.add vid s).bits vid) j = (hasBit (n.bits vid) j || decide (s = j)) := by
  unfold ENode.add
  by_cases he : n.hasEntry vid = true
  · have hh : n.hdd = true := by simp [ENode.hasEntry] at he; exact he.1
    simp only [he, if_true]
    simp only [ENode.bits, hh, if_true, find_setFirst_same]
    cases hf : n.shards.find? (·.1 == vid) with
    | none =>
      have hany : n.shards.any (·.1 == vid) = true := by simpa [ENode.hasEntry, hh] using he
      have hs : (n.shards.find? (·.1 == vid)).isSome = true := List.find?_isSome.mpr (List.any_eq_true.mp hany)
      rw [hf] at hs; simp at hs
    | some e => simp [hasBit_addBit]
  · have he' : n.hasEntry vid = false := by simpa using he
    simp only [he', Bool.false_eq_true, if_false]
    by_cases hh : n.hdd = true
    · have hany : n.shards.any (·.1 == vid) = false := by simpa [ENode.hasEntry, hh] using he'
      have hnone := find_none_of_not_any vid n.shards hany
      simp [ENode.bits, hh, List.find?_append, hnone, hasBit, Nat.testBit_two_pow]
    · have hh' : n.hdd = false := by simpa using hh
      simp [ENode.bits, hh', hasBit, Nat.testBit_two_pow]

/-- … and no other volume's bitmap changes. -/
theorem add_bits_other (n : ENode) (vid vid' s : Nat) (hne : vid' ≠ vid) :
    (n.add vid s).bits vid' = n.bits vid' := by
  unfold ENode.add
  have hb : ((vid == vid') = false) := by simp; exact fun e => hne e.symm
  by_cases he : n.hasEntry vid = true
  · have hh : n.hdd = true := by simp [ENode.hasEntry] at he; exact he.1
    simp [he, ENode.bits, hh, find_setFirst_other vid vid' hne]
  · have he' : n.hasEntry vid = false := by simpa using he
    simp only [he', Bool.false_eq_true, if_false]
    by_cases hh : n.hdd = true
    · simp only [ENode.bits, hh, if_true, List.find?_append]
      cases hf : n.shards.find? (·.1 == vid') <;> simp [List.find?, hb]
    · have hh' : n.hdd = false := by simpa using hh
      simp [ENode.bits, hh', List.find?, hb]

theorem find_map_del (vid s : Nat) (l : List (Nat × Nat)) (vid' : Nat) :
    (l.map fun e => if e.1 == vid then (e.1, delBit e.2 s) else e).find? (·.1 == vid')
      = (l.find? (·.1 == vid')).map fun e => if e.1 == vid then (e.1, delBit e.2 s) else e := by
  induction l with
  | nil => rfl
  | cons e rest ih =>
    simp only [List.map_cons, List.find?_cons]
    by_cases h1 : (e.1 == vid) = true
    · simp only [h1, if_true]
      by_cases h2 : (e.1 == vid') = true
      · have h1p : e.1 = vid := by simpa using h1
        simp [h2, h1]
        intro h; exact absurd h1p h
      · have h2' : (e.1 == vid') = false := by simpa using h2
        simp only [h2', ih]
    · have h1' : (e.1 == vid) = false := by simpa using h1
      simp only [h1', Bool.false_eq_true, if_false]
      by_cases h2 : (e.1 == vid') = true
      · have h1p : ¬ e.1 = vid := by simpa using h1'
        simp [h2, h1']
        intro h; exact absurd h h1p
      · have h2' : (e.1 == vid') = false := by simpa using h2
        simp only [h2', ih]

/-- `deleteEcVolumeShards`: the source's bitmap of the volume loses exactly shard `s`. -/
theorem del_bits_same (n : ENode) (vid s j : Nat) :
    hasBit ((n.del vid s).bits vid) j = (hasBit (n.bits vid) j && !decide (s = j)) := by
  unfold ENode.del
  by_cases hh : n.hdd = true
  · simp only [hh, Bool.not_true, Bool.false_eq_true, if_false, ENode.bits, if_true, find_map_del]
    cases hf : n.shards.find? (·.1 == vid) with
    | none => simp [hasBit]
    | some e =>
      have hp : e.1 = vid := by
        have := List.find?_some hf; simpa using this
      simp [hp, hasBit_delBit]
  · have hh' : n.hdd = false := by simpa using hh
    simp [hh', ENode.bits, hasBit]

theorem del_bits_other (n : ENode) (vid vid' s : Nat) (hne : vid' ≠ vid) :
    (n.del vid s).bits vid' = n.bits vid' := by
  unfold ENode.del
  by_cases hh : n.hdd = true
  · simp only [hh, Bool.not_true, Bool.false_eq_true, if_false, ENode.bits, if_true, find_map_del]
    cases hf : n.shards.find? (·.1 == vid') with
    | none => simp
    | some e =>
      have h1 : e.1 = vid' := by
        have := List.find?_some hf; simpa using this
      have h2 : ¬ e.1 = vid := by omega
      simp [h2]
  · have hh' : n.hdd = false := by simpa using hh
    simp [hh', ENode.bits]

/-- the guard of `pickOneEcNodeAndMoveOneShard`: another server, with a free slot, below the average -/
theorem destOk_sound (cands : List ENode) (avg vid src : Nat) (d : ENode) (h : destOk cands avg vid src d = true) :
    d.id ≠ src ∧ d.free > 0 ∧ popc (d.bits vid) < avg := by
  simp [destOk] at h
  exact ⟨h.1.1.1, h.1.1.2, h.1.2⟩

/-- an approved across-racks move: free slot on the server, free slot and room below the even-spread
    target ceil(14/#racks) on the destination rack (planner counters) -/
theorem across_move_guarded (a : Across) (src s dst : Nat) (h : a.moveOk src s dst = true) :
    ∃ d, a.st.node? dst = some d ∧ d.id ≠ src ∧ d.free > 0 ∧ a.count d.rack + 1 ≤ a.avg ∧ a.st.rackFreeOf d.rack > 0 := by
  unfold Across.moveOk at h
  cases hd : a.st.node? dst with
  | none => simp [hd] at h
  | some d =>
    simp only [hd, Bool.and_eq_true] at h
    obtain ⟨⟨_, hel⟩, hdest⟩ := h
    have hs := destOk_sound _ _ _ _ _ hdest
    simp [Across.eligible] at hel
    exact ⟨d, rfl, hs.1, hs.2.1, by omega, hel.2⟩

theorem within_move_guarded (st : ESt) (avg vid src s dst : Nat) (h : withinMoveOk st avg vid src s dst = true) :
    ∃ sn d, st.node? src = some sn ∧ st.node? dst = some d ∧ d.rack = sn.rack ∧ d.id ≠ src ∧ d.free > 0 ∧
      hasBit (sn.bits vid) s = true ∧ popc (d.bits vid) < avg := by
  unfold withinMoveOk at h
  cases hs : st.node? src with
  | none => simp [hs] at h
  | some sn =>
    cases hd : st.node? dst with
    | none => simp [hs, hd] at h
    | some d =>
      simp only [hs, hd, Bool.and_eq_true] at h
      obtain ⟨⟨⟨hr, _⟩, hb⟩, hdest⟩ := h
      have hk := destOk_sound _ _ _ _ _ hdest
      exact ⟨sn, d, rfl, rfl, by simpa using hr, hk.1, hk.2.1, hb, hk.2.2⟩

example : ∃ a src s dst, Across.moveOk a src s dst = true :=
  ⟨acrossStart ⟨[⟨1, 1, 42, true, [(1, 255)]⟩, ⟨2, 2, 50, true, []⟩], [(1, 42), (2, 50)]⟩ 1, 1, 0, 2, by decide +kernel⟩

/-! ### what is false of the code -/

def wRack : ESt := ⟨[⟨2, 1, 0, true, []⟩, ⟨1, 1, -1, true, [(1, 2047)]⟩], [(1, -1)]⟩

/-- `doBalanceEcRack` plans shard 1.0 onto server 2 although its freeEcSlot is 0
    (corpus/C16/rackbal_no_free_slot.ops; class rackbal/target-without-free-slot). -/
theorem rackbal_no_free_slot_witness :
    rackMoveOk wRack 1 1 0 2 = true ∧ (wRack.node? 2).map (·.free) = some 0 ∧
    judgeMove "rackbal" wRack 1 1 0 2 = ["rackbal/target-without-free-slot"] := by decide +kernel

def wHold : ESt := ⟨[⟨2, 1, 49, true, [(1, 1)]⟩, ⟨1, 1, 46, true, [(1, 15)]⟩], [(1, 95)]⟩

/-- the within-rack guard approves moving shard 1.0 onto server 2, which holds shard 1.0
    (corpus/C16/within_onto_holder.ops; class within/target-already-holds-shard). -/
theorem dest_may_hold_shard_witness :
    withinMoveOk wHold (withinAvg wHold 1 1) 1 1 0 2 = true ∧
    judgeMove "within" wHold 1 1 0 2 = ["within/target-already-holds-shard"] := by decide +kernel

def wDrop : ESt := ⟨[⟨1, 1, 6, true, [(1, 16383)]⟩, ⟨2, 2, 0, true, []⟩], [(1, 6), (2, 0)]⟩

/-- across-racks balancing picks 7 shards of volume 1, no rack is eligible, and the bookkeeping
    after the phase has lost them (corpus/C16/across_no_rack_drops.ops; class across/shard-dropped-from-bookkeeping). -/
theorem across_drops_shards_witness :
    (acrossStart wDrop 1).todo.length = 7 ∧ (acrossStart wDrop 1).noRackOk 0 1 = true ∧
    judgeBook "across" wDrop wDrop (acrossStart wDrop 1).st = ["across/shard-dropped-from-bookkeeping"] := by decide +kernel

end SwV.Props.C16
